import Mdsort.Proofs.Captures
import Mdsort.Proofs.Interp
import Mdsort.Proofs.LimitsEval
import Mdsort.Model.LimitsWorld
import Mdsort.Proofs.LimitsEvalP
import Mdsort.Proofs.WorldFrame

/-!
# A failure of `match_interpolate` is sticky (match.c, `matches_interpolate`)

`matches_interpolate` walks the match list and stops at the first entry whose `match_interpolate` fails
(`error = 1; break;`).  The failing `match_interpolate` has by then already written into the entry
(`strlcpy` of an over-long destination into `mh_path` stores the first `PATH_MAX - 1` bytes), so the only thing
that keeps `matches_exec` away from the truncation is that the failure is remembered whatever the entries
AFTER the failing one do.  Here, for all limits:

* whether an entry can be interpolated depends on the entries before it through their types and captures only,
  and not on the message (`matchInterpolateL_isSome_congr`) - so "entry `i` fails" can be stated on the list as
  it is handed to `matches_interpolate`;
* if ANY entry fails then `matchesInterpolateL` is `none`, whatever follows (`matchesInterpolateL_none_of_entry`);
* the ways an entry can fail (`matchInterpolateL_none_iff`): a template that cannot be interpolated (invalid
  back-reference, unknown macro, unterminated `${`) or, for `move` / `isdirectory`, an interpolated path that does
  not fit the path buffer;
* and then `processMessageL` does nothing with the message but close its descriptor
  (`processMessageL_interp_error_run`).
-/

namespace Mdsort.Proofs.Limits
open Mdsort Mdsort.Model Mdsort.Proofs Mdsort.Proofs.World

/-! ## one entry -/

theorem add_congr_keys (macros : Option (List (Bytes × Bytes))) (b1 b2 : MatchList) (h : b1.map capKey = b2.map capKey) :
    ∀ (ss : List Bytes) (buf : Bytes), matchInterpolate.add macros b1 ss buf = matchInterpolate.add macros b2 ss buf := by
  intro ss
  induction ss with
  | nil => intro buf; simp only [matchInterpolate.add]
  | cons s r ih =>
    intro buf
    simp only [matchInterpolate.add]
    rw [interpolate_congr b1 b2 macros h s]
    cases interpolate b2 macros s with
    | none => rfl
    | some v => exact ih _

/-- The entries before position `i` matter through their types and captures only. -/
theorem matchInterpolate_congr_keys (macros : Option (List (Bytes × Bytes))) (ml ml' : MatchList) (i : Nat) (mh : Match)
    (msgs : Nat → Msg) (h : (ml.take i).map capKey = (ml'.take i).map capKey) :
    matchInterpolate macros ml i mh msgs = matchInterpolate macros ml' i mh msgs := by
  have hfun : interpolate (ml.take i) macros = interpolate (ml'.take i) macros :=
    funext fun s => interpolate_congr _ _ macros h s
  have hadd := add_congr_keys macros _ _ h
  unfold matchInterpolate
  simp only [hfun, hadd]

theorem matchInterpolateL_congr_keys (L : Limits) (macros : Option (List (Bytes × Bytes))) (ml ml' : MatchList) (i : Nat)
    (mh : Match) (msgs : Nat → Msg) (h : (ml.take i).map capKey = (ml'.take i).map capKey) :
    matchInterpolateL L macros ml i mh msgs = matchInterpolateL L macros ml' i mh msgs := by
  have hfun : interpolate (ml.take i) macros = interpolate (ml'.take i) macros :=
    funext fun s => interpolate_congr _ _ macros h s
  unfold matchInterpolateL
  simp only [hfun, matchInterpolate_congr_keys macros ml ml' i mh msgs h]

/-- Whether an entry can be interpolated does not depend on the message (its `X-Label`, its headers). -/
theorem matchInterpolate_isSome_msgs (macros : Option (List (Bytes × Bytes))) (ml : MatchList) (i : Nat) (mh : Match)
    (msgs1 msgs2 : Nat → Msg) :
    (matchInterpolate macros ml i mh msgs1).isSome = (matchInterpolate macros ml i mh msgs2).isSome := by
  cases hty : mh.ty
  case label => exact label_interpolation_ignores_message macros ml i mh hty msgs1 msgs2
  case addHeader =>
    unfold matchInterpolate
    simp only [hty]
    cases interpolate (ml.take i) macros mh.hval <;> rfl
  all_goals
    unfold matchInterpolate
    simp only [hty]

theorem matchInterpolateL_isSome_msgs (L : Limits) (macros : Option (List (Bytes × Bytes))) (ml : MatchList) (i : Nat)
    (mh : Match) (msgs1 msgs2 : Nat → Msg) :
    (matchInterpolateL L macros ml i mh msgs1).isSome = (matchInterpolateL L macros ml i mh msgs2).isSome := by
  unfold matchInterpolateL
  cases hty : mh.ty <;> first | rfl | exact matchInterpolate_isSome_msgs macros ml i mh msgs1 msgs2

/-- Whether entry `i` can be interpolated: a function of the entry and of the types and captures of the entries
before it. -/
theorem matchInterpolateL_isSome_congr (L : Limits) (macros : Option (List (Bytes × Bytes))) (ml ml' : MatchList) (i : Nat)
    (mh : Match) (msgs msgs' : Nat → Msg) (h : (ml.take i).map capKey = (ml'.take i).map capKey) :
    (matchInterpolateL L macros ml i mh msgs).isSome = (matchInterpolateL L macros ml' i mh msgs').isSome := by
  rw [matchInterpolateL_congr_keys L macros ml ml' i mh msgs h]
  exact matchInterpolateL_isSome_msgs L macros ml' i mh msgs msgs'

/-- Interpolating an entry leaves its type and captures alone. -/
theorem matchInterpolateL_key (L : Limits) (macros : Option (List (Bytes × Bytes))) (ml : MatchList) (i : Nat) (mh mh' : Match)
    (msgs : Nat → Msg) (upd : Option (Nat × Msg)) (h : matchInterpolateL L macros ml i mh msgs = some (mh', upd)) :
    capKey mh' = capKey mh := by
  have hpath : ∀ (o : Option Bytes),
      (match o with
        | none => none
        | some p => (strlcpyL L.pathMax p).map fun p => (({ mh with path := p } : Match), (none : Option (Nat × Msg)))) =
        some (mh', upd) → capKey mh' = capKey mh := by
    intro o ho
    cases o with
    | none => cases ho
    | some p =>
      simp only [Option.map_eq_some_iff, Prod.mk.injEq] at ho
      obtain ⟨_, _, rfl, -⟩ := ho
      rfl
  unfold matchInterpolateL at h
  split at h
  · exact hpath _ h
  · exact hpath _ h
  · exact matchInterpolate_key macros ml i mh mh' msgs upd h

/-! ## the ways an entry can fail -/

theorem mapM_none_exists {α β} (f : α → Option β) : ∀ (l : List α), l.mapM f = none → ∃ t ∈ l, f t = none := by
  intro l
  induction l with
  | nil => intro h; cases h
  | cons a l ih =>
    intro h
    rw [List.mapM_cons] at h
    cases hfa : f a with
    | none => exact ⟨a, by simp, hfa⟩
    | some b =>
      rw [hfa] at h
      cases hl : l.mapM f with
      | none =>
        obtain ⟨t, ht, hf⟩ := ih hl
        exact ⟨t, by simp [ht], hf⟩
      | some bs => rw [hl] at h; cases h

theorem add_none_exists (macros : Option (List (Bytes × Bytes))) (before : MatchList) :
    ∀ (ss : List Bytes) (buf : Bytes), matchInterpolate.add macros before ss buf = none →
      ∃ t ∈ ss, interpolate before macros t = none := by
  intro ss
  induction ss with
  | nil => intro buf h; simp only [matchInterpolate.add] at h; cases h
  | cons s r ih =>
    intro buf h
    simp only [matchInterpolate.add] at h
    cases hs : interpolate before macros s with
    | none => exact ⟨s, by simp, hs⟩
    | some v =>
      rw [hs] at h
      obtain ⟨t, ht, hf⟩ := ih _ h
      exact ⟨t, by simp [ht], hf⟩

/-- `match_interpolate` fails for an entry exactly when one of its templates cannot be interpolated, or - `move`,
`isdirectory` - the interpolated path does not fit `mh_path`. -/
theorem matchInterpolateL_none_iff (L : Limits) (macros : Option (List (Bytes × Bytes))) (ml : MatchList) (i : Nat) (mh : Match)
    (msgs : Nat → Msg) :
    matchInterpolateL L macros ml i mh msgs = none ↔
      (∃ t ∈ templates mh, interpolate (ml.take i) macros t = none) ∨
      ((mh.ty = .move ∨ mh.ty = .stat) ∧ ∃ p, interpolate (ml.take i) macros mh.path = some p ∧ L.pathMax.fits p.length = false) := by
  have hstr : ∀ p : Bytes, strlcpyL L.pathMax p = none ↔ L.pathMax.fits p.length = false := by
    intro p
    rcases hL : L.pathMax with n | _
    · simp only [strlcpyL, strlcpyFits, Lim.fits]
      by_cases hlt : p.length < n <;> simp [hlt]
    · simp [strlcpyL, Lim.fits]
  have hpath : mh.ty = .move ∨ mh.ty = .stat →
      ((match interpolate (ml.take i) macros mh.path with
        | none => none
        | some p => (strlcpyL L.pathMax p).map fun p => (({ mh with path := p } : Match), (none : Option (Nat × Msg)))) = none ↔
      (∃ t ∈ templates mh, interpolate (ml.take i) macros t = none) ∨
      ((mh.ty = .move ∨ mh.ty = .stat) ∧ ∃ p, interpolate (ml.take i) macros mh.path = some p ∧ L.pathMax.fits p.length = false)) := by
    intro hty
    have ht : templates mh = [mh.path] := by
      unfold templates
      rcases hty with h | h <;> simp only [h]
    rw [ht]
    cases hip : interpolate (ml.take i) macros mh.path with
    | none => simp [hip]
    | some p =>
      simp only [List.mem_singleton, exists_eq_left, hip, Option.map_eq_none_iff, hstr p, Option.some.injEq, exists_eq_left',
        reduceCtorEq, false_or, hty, true_and]
  have hother : mh.ty ≠ .move → mh.ty ≠ .stat →
      (matchInterpolate macros ml i mh msgs = none ↔ ∃ t ∈ templates mh, interpolate (ml.take i) macros t = none) := by
    intro h1 h2
    constructor
    · intro hn
      unfold matchInterpolate at hn
      unfold templates
      cases hty : mh.ty <;> simp only [hty] at hn h1 h2 ⊢ <;> try contradiction
      case command => exact mapM_none_exists _ _ (by simpa only [Option.map_eq_none_iff] using hn)
      case exec => exact mapM_none_exists _ _ (by simpa only [Option.map_eq_none_iff] using hn)
      case label =>
        split at hn
        · rename_i hadd; exact add_none_exists macros _ _ _ hadd
        · cases hn
      case addHeader =>
        split at hn
        · rename_i hv; exact ⟨_, List.mem_singleton.mpr rfl, hv⟩
        · cases hn
    · rintro ⟨t, ht, hf⟩
      exact matchInterpolate_none macros ml i mh msgs t ht hf
  unfold matchInterpolateL
  split
  · rename_i hty; exact hpath (.inr hty)
  · rename_i hty; exact hpath (.inl hty)
  · rename_i h1 h2
    rw [hother (fun h => h2 h) (fun h => h1 h)]
    constructor
    · exact fun h => .inl h
    · rintro (h | ⟨h | h, -⟩)
      · exact h
      · exact absurd h h2
      · exact absurd h h1

/-- An interpolated `move` destination / `isdirectory` path that does not fit the path buffer: the entry fails. -/
theorem matchInterpolateL_overlong (L : Limits) (macros : Option (List (Bytes × Bytes))) (ml : MatchList) (i : Nat) (mh : Match)
    (msgs : Nat → Msg) (hty : mh.ty = .move ∨ mh.ty = .stat) (p : Bytes)
    (hp : interpolate (ml.take i) macros mh.path = some p) (hfit : L.pathMax.fits p.length = false) :
    matchInterpolateL L macros ml i mh msgs = none :=
  (matchInterpolateL_none_iff L macros ml i mh msgs).mpr (.inr ⟨hty, p, hp, hfit⟩)

/-! ## the list: the first failure is final -/

theorem matchesInterpolateL_go_none (L : Limits) (macros : Option (List (Bytes × Bytes))) (ml : MatchList) :
    ∀ (rest : MatchList) (i : Nat) (cur : MatchList) (msgs : Nat → Msg),
      rest = ml.drop i → cur.map capKey = ml.map capKey →
      ∀ (j : Nat) (mh : Match) (msgs0 : Nat → Msg), rest[j]? = some mh →
        matchInterpolateL L macros ml (i + j) mh msgs0 = none →
        matchesInterpolateL.go L macros i rest cur msgs = none := by
  intro rest
  induction rest with
  | nil => intro i cur msgs _ _ j mh msgs0 hj; simp at hj
  | cons m0 more ih =>
    intro i cur msgs hrest hkey j mh msgs0 hj hf
    rw [matchesInterpolateL.go]
    cases j with
    | zero =>
      simp only [List.getElem?_cons_zero, Option.some.injEq] at hj
      subst hj
      have hsome := matchInterpolateL_isSome_congr L macros cur ml i m0 msgs msgs0
        (by rw [List.map_take, List.map_take, hkey])
      rw [Nat.add_zero] at hf
      rw [hf] at hsome
      cases hc : matchInterpolateL L macros cur i m0 msgs with
      | none => rfl
      | some r => rw [hc] at hsome; cases hsome
    | succ j =>
      simp only [List.getElem?_cons_succ] at hj
      cases hmi : matchInterpolateL L macros cur i m0 msgs with
      | none => rfl
      | some r =>
        obtain ⟨mh', upd⟩ := r
        dsimp only
        have hdrop : ml.drop i = m0 :: more := hrest.symm
        have hi : ml[i]? = some m0 := by
          have := List.getElem?_drop (xs := ml) (i := i) (j := 0)
          rw [hdrop] at this
          simpa using this.symm
        refine ih (i + 1) _ _ ?_ ?_ j mh msgs0 hj (by rw [show i + 1 + j = i + (j + 1) by omega]; exact hf)
        · rw [← List.tail_drop, hdrop]; rfl
        · rw [List.map_set, matchInterpolateL_key L macros cur i m0 mh' msgs upd hmi, ← hkey]
          have hci : (cur.map capKey)[i]? = some (capKey m0) := by
            rw [hkey, List.getElem?_map, hi]; rfl
          obtain ⟨hlt, hget⟩ := List.getElem?_eq_some_iff.mp hci
          rw [← hget, List.set_getElem_self]

/-- If `match_interpolate` fails for ANY entry of the list (judged on the list as handed to `matches_interpolate`, with any
message), `matches_interpolate` fails - whatever the entries after it are and whether they can be interpolated. -/
theorem matchesInterpolateL_none_of_entry (L : Limits) (env : Env) (ml : MatchList) (msgs msgs0 : Nat → Msg) (i : Nat) (mh : Match)
    (hi : ml[i]? = some mh)
    (hf : matchInterpolateL L (some [(ofString "path", env.path)]) ml i mh msgs0 = none) :
    matchesInterpolateL L env ml msgs = none := by
  unfold matchesInterpolateL
  exact matchesInterpolateL_go_none L _ ml ml 0 ml msgs rfl rfl i mh msgs0 hi (by simpa using hf)

/-- Conversely a failure of the list is the failure of one of its entries. -/
theorem matchesInterpolateL_go_entry_of_none (L : Limits) (macros : Option (List (Bytes × Bytes))) (ml : MatchList) :
    ∀ (rest : MatchList) (i : Nat) (cur : MatchList) (msgs : Nat → Msg),
      rest = ml.drop i → cur.map capKey = ml.map capKey →
      matchesInterpolateL.go L macros i rest cur msgs = none →
      ∃ (j : Nat) (mh : Match), ml[j]? = some mh ∧ ∀ msgs0, matchInterpolateL L macros ml j mh msgs0 = none := by
  intro rest
  induction rest with
  | nil => intro i cur msgs _ _ h; simp only [matchesInterpolateL.go] at h; cases h
  | cons m0 more ih =>
    intro i cur msgs hrest hkey h
    rw [matchesInterpolateL.go] at h
    have hdrop : ml.drop i = m0 :: more := hrest.symm
    have hi : ml[i]? = some m0 := by
      have := List.getElem?_drop (xs := ml) (i := i) (j := 0)
      rw [hdrop] at this
      simpa using this.symm
    cases hmi : matchInterpolateL L macros cur i m0 msgs with
    | none =>
      refine ⟨i, m0, hi, fun msgs0 => ?_⟩
      have hsome := matchInterpolateL_isSome_congr L macros cur ml i m0 msgs msgs0
        (by rw [List.map_take, List.map_take, hkey])
      rw [hmi] at hsome
      cases hc : matchInterpolateL L macros ml i m0 msgs0 with
      | none => rfl
      | some r => rw [hc] at hsome; cases hsome
    | some r =>
      obtain ⟨mh', upd⟩ := r
      rw [hmi] at h
      dsimp only at h
      refine ih (i + 1) _ _ ?_ ?_ h
      · rw [← List.tail_drop, hdrop]; rfl
      · rw [List.map_set, matchInterpolateL_key L macros cur i m0 mh' msgs upd hmi, ← hkey]
        have hci : (cur.map capKey)[i]? = some (capKey m0) := by
          rw [hkey, List.getElem?_map, hi]; rfl
        obtain ⟨hlt, hget⟩ := List.getElem?_eq_some_iff.mp hci
        rw [← hget, List.set_getElem_self]

/-- `matches_interpolate` fails IFF one entry fails. -/
theorem matchesInterpolateL_none_iff (L : Limits) (env : Env) (ml : MatchList) (msgs : Nat → Msg) :
    matchesInterpolateL L env ml msgs = none ↔
      ∃ (i : Nat) (mh : Match), ml[i]? = some mh ∧
        ∀ msgs0, matchInterpolateL L (some [(ofString "path", env.path)]) ml i mh msgs0 = none := by
  constructor
  · intro h
    unfold matchesInterpolateL at h
    exact matchesInterpolateL_go_entry_of_none L _ ml ml 0 ml msgs rfl rfl h
  · rintro ⟨i, mh, hi, hf⟩
    exact matchesInterpolateL_none_of_entry L env ml msgs msgs i mh hi (hf msgs)

/-! ## the message: nothing but the release of its descriptor -/

/-- What a successful `message_parse` returns under the limits `L`. -/
def ParsedFromL (L : Limits) (dir name content : Bytes) (pm : Option MsgSt) : Prop :=
  ∀ ms, pm = some ms → ∃ p n mf, pathjoinL L.pathMax dir name = some p ∧ strlcpyL L.nameMax1 name = some n ∧
    flagsParse n = some mf ∧ ms.msg = parseMessage content ∧ ms.path = p ∧ ms.flags = mf ∧
    ms.parts = (getAttachments (parseMessage content)).getD []

theorem parse_messageParsePL (L : Limits) (d : Handle) (dir name content : Bytes) :
    Calls (ParseCall d) (messageParsePL L d dir name content) := by
  unfold messageParsePL
  simp only [bind_eq, pure_eq, call_bind]
  refine calls_call (.inl ⟨name, rfl⟩) fun r => ?_
  split
  · rename_i fd
    refine World.Calls.bind (parse_readAll d fd _) fun failed => ?_
    repeat' (first
      | exact calls_ret _
      | (refine calls_call (.inr (.inr ⟨_, rfl⟩)) fun _ => ?_)
      | split)
  · exact calls_ret _

theorem all_messageParsePL (L : Limits) (d : Handle) (dir name content : Bytes) :
    All (ParsedFromL L dir name content) (messageParsePL L d dir name content) := by
  unfold messageParsePL
  simp only [bind_eq, pure_eq, call_bind]
  refine all_call fun r => ?_
  split
  · refine World.All.bind_of_forall _ fun failed => ?_
    split
    · exact all_call fun _ => all_ret (fun ms h => by cases h)
    · split
      · split
        · refine all_ret ?_
          intro ms h
          cases h
          exact ⟨_, _, _, by assumption, by assumption, by assumption, rfl, rfl, rfl, rfl⟩
        · exact all_call fun _ => all_ret (fun ms h => by cases h)
      · exact all_call fun _ => all_ret (fun ms h => by cases h)
  · exact all_ret (fun ms h => by cases h)

/-- What `processMessageL` does with the result `ev` of evaluation: interpolate, inspect / execute, free. -/
def afterEvalL (L : Limits) (env : PEnv) (orc : EvalOracles) (md : Maildir) (name : Bytes) (st : MainSt) (ms : MsgSt) :
    Tri × St → Prog (MainSt × Maildir)
  | (.error, _) => do freeMsg ms; pure ({ st with error := true }, md)
  | (.nomatch, _) => do freeMsg ms; pure (st, md)
  | (.match, est) =>
    match matchesInterpolateL L (msgEnv env orc ms.path) est.ml (partMsg ms.msg ms.parts) with
    | none => do freeMsg ms; pure ({ st with error := true }, md)
    | some (ml, msgs) =>
      let ms1 := { ms with msg := msgs 0, flags := est.flags }
      let st1 := { st with log := st.log ++ inspectLines env ml ms.path }
      if env.dryrun then do freeMsg ms1; pure (st1, md)
      else do
        let (xs, e) ← matchesExecL L env ml { src := md, chsrc := false, ms := ms1, reject := false }
        freeMsg xs.ms
        pure ({ st1 with error := st1.error || e, reject := st1.reject || xs.reject,
                         files := afterExec st1.files md.path name xs.ms }, md)

/-- `processMessageL` in three phases: parse, evaluate (the program `evalPL`: its `command`, `isdirectory` and file-time
`date` conditions call the operating system), and the rest. -/
theorem processMessageL_phases (L : Limits) (env : PEnv) (orc : EvalOracles) (expr : Expr) (md : Maildir) (name : Bytes)
    (st : MainSt) (d : Handle) (content : Bytes) (hd : md.dirH = some d) (hf : st.files.get md.path name = some content) :
    processMessageL L env orc expr md name st =
      (messageParsePL L d md.path name content).bind fun pm =>
        match pm with
        | none => pure ({ st with error := true }, md)
        | some ms => (evalPL L (msgEnv env orc ms.path) expr ms.msg ms.flags).bind (afterEvalL L env orc md name st ms) := by
  unfold processMessageL
  simp only [hd, hf]
  congr 1

/-- When evaluation matches and interpolation fails, what follows only closes the message's descriptor and reports an
error. -/
theorem afterEvalL_interp_error (L : Limits) (env : PEnv) (orc : EvalOracles) (md : Maildir) (name : Bytes) (st : MainSt)
    (ms : MsgSt) (est : St)
    (hint : matchesInterpolateL L (msgEnv env orc ms.path) est.ml (partMsg ms.msg ms.parts) = none) :
    Calls IsClose (afterEvalL L env orc md name st ms (.match, est)) ∧
      All (fun r => r = ({ st with error := true }, md)) (afterEvalL L env orc md name st ms (.match, est)) := by
  simp only [afterEvalL, hint]
  obtain ⟨nm, pth, fd, msg, parts, flags, loc, cont⟩ := ms
  cases fd with
  | none => exact ⟨calls_ret _, rfl⟩
  | some h =>
    simp only [freeMsg, bind_eq, pure_eq, call_bind, ret_bind, call_bind']
    exact ⟨calls_call ⟨h, rfl⟩ fun _ => calls_ret _, fun _ => rfl⟩

/-- Whatever the calls return: when in this run the rules match (the result of the evaluation program `evalPL`, run after
the parse phase) and interpolation of the resulting list fails, the run of `processMessageL` is the run of the parse
phase, then calls of evaluation (`EvalCallOf expr`: `stat` only for a tree with `isdirectory` / file-time `date`,
`open("/dev/null")`, `fork`, `waitpid`, `close` only for one with a `command` condition), then `close` calls only; no
call is mutating; the outcome is "error", nothing else changed. -/
theorem processMessageL_interp_error_run (L : Limits) (env : PEnv) (orc : EvalOracles) (expr : Expr) (md : Maildir) (name : Bytes)
    (st : MainSt) (d : Handle) (content p n : Bytes) (mf : MFlags) (est : St)
    (hd : md.dirH = some d) (hf : st.files.get md.path name = some content)
    (hp : pathjoinL L.pathMax md.path name = some p) (hn : strlcpyL L.nameMax1 name = some n)
    (hmf : flagsParse n = some mf)
    (orcl : Nat → Call → Res)
    (hev : (Own.runO orcl (evalPL L (msgEnv env orc p) expr (parseMessage content) mf)
      (Own.runO orcl (messageParsePL L d md.path name content) 0).2.2).1 = (.match, est))
    (hint : matchesInterpolateL L (msgEnv env orc p) est.ml
      (partMsg (parseMessage content) ((getAttachments (parseMessage content)).getD [])) = none) :
    (runOracle orcl (processMessageL L env orc expr md name st) 0 []).1 = ({ st with error := true }, md) ∧
    (∀ x ∈ (runOracle orcl (processMessageL L env orc expr md name st) 0 []).2,
      ParseEvalCall d expr x.1 ∧ x.1.mutating = false) ∧
    ∃ E T, (runOracle orcl (processMessageL L env orc expr md name st) 0 []).2 =
        (runOracle orcl (messageParsePL L d md.path name content) 0 []).2 ++ E ++ T ∧
        (∀ x ∈ E, EvalCallOf expr x.1) ∧ ∀ x ∈ T, IsClose x.1 := by
  have hall := all_messageParsePL L d md.path name content
  have hpm : ParsedFromL L md.path name content (Own.runO orcl (messageParsePL L d md.path name content) 0).1 := by
    have := all_runOracle_val hall orcl 0 []
    rwa [Own.runOracle_eq] at this
  have hpc := calls_runOracle_mem (parse_messageParsePL L d md.path name content) orcl 0 []
  rw [processMessageL_phases L env orc expr md name st d content hd hf]
  simp only [Own.runOracle_eq, Own.runO_bind, List.nil_append] at hpc ⊢
  generalize Own.runO orcl (messageParsePL L d md.path name content) 0 = rp at hpm hev hpc
  obtain ⟨pm, ptr, j⟩ := rp
  simp only at hpm hev hpc ⊢
  have hparse : ∀ x ∈ ptr, ParseEvalCall d expr x.1 ∧ x.1.mutating = false := by
    intro x hx
    rcases hpc x hx with h | h
    · simp at h
    · exact ⟨.inl h, h.quiet.1⟩
  cases pm with
  | none =>
    refine ⟨rfl, ?_, [], [], by simp, by simp, by simp⟩
    simpa using hparse
  | some ms =>
    obtain ⟨p', n', mf', hp', hn', hmf', h1, h2, h3, h4⟩ := hpm ms rfl
    rw [hp] at hp'; cases hp'
    rw [hn] at hn'; cases hn'
    rw [hmf] at hmf'; cases hmf'
    simp only [Own.runO_bind, h1, h2, h3]
    have hec := calls_runOracle_mem (evalPL_calls_of L (msgEnv env orc p) expr (parseMessage content) mf) orcl j []
    simp only [Own.runOracle_eq, List.nil_append] at hec
    generalize Own.runO orcl (evalPL L (msgEnv env orc p) expr (parseMessage content) mf) j = re at hev hec
    obtain ⟨ev, etr, j2⟩ := re
    simp only at hev hec ⊢
    subst hev
    have hint' : matchesInterpolateL L (msgEnv env orc ms.path) est.ml (partMsg ms.msg ms.parts) = none := by
      rw [h1, h2, h4]; exact hint
    obtain ⟨hc, ha⟩ := afterEvalL_interp_error L env orc md name st ms est hint'
    have hval := all_runOracle_val ha orcl j2 []
    have hcl := calls_runOracle_mem hc orcl j2 []
    simp only [Own.runOracle_eq, List.nil_append] at hval hcl
    have hE : ∀ x ∈ etr, EvalCallOf expr x.1 := by
      intro x hx
      rcases hec x hx with h | h
      · simp at h
      · exact h
    have hT : ∀ x ∈ (Own.runO orcl (afterEvalL L env orc md name st ms (Tri.match, est)) j2).2.1, IsClose x.1 := by
      intro x hx
      rcases hcl x hx with h | h
      · simp at h
      · exact h
    refine ⟨hval, ?_, etr, _, by simp, hE, hT⟩
    intro x hx
    simp only [List.mem_append] at hx
    rcases hx with hx | hx | hx
    · exact hparse x hx
    · exact ⟨.inr (hE x hx), (hE x hx).evalCall.quiet⟩
    · obtain ⟨fd, hfd⟩ := hT x hx
      exact ⟨.inl (.inr (.inr ⟨fd, hfd⟩)), by rw [hfd]; rfl⟩

/-- `processMessageL_interp_error_run` for a rule tree that asks the operating system nothing, in terms of the pure
evaluator `evalL`: only the calls of parsing, no `fork`; after the parse phase only `close`. -/
theorem processMessageL_interp_error_run_pure (L : Limits) (env : PEnv) (orc : EvalOracles) (expr : Expr) (md : Maildir)
    (name : Bytes) (st : MainSt) (d : Handle) (content p n : Bytes) (mf : MFlags) (est : St)
    (hd : md.dirH = some d) (hf : st.files.get md.path name = some content)
    (hp : pathjoinL L.pathMax md.path name = some p) (hn : strlcpyL L.nameMax1 name = some n)
    (hmf : flagsParse n = some mf) (hfree : asksFree expr = true)
    (hev : evalL L (msgEnv env orc p) (parseMessage content) expr 0 (parseMessage content) { ml := [], flags := mf }
      = (.match, est))
    (hint : matchesInterpolateL L (msgEnv env orc p) est.ml
      (partMsg (parseMessage content) ((getAttachments (parseMessage content)).getD [])) = none)
    (orcl : Nat → Call → Res) :
    (runOracle orcl (processMessageL L env orc expr md name st) 0 []).1 = ({ st with error := true }, md) ∧
    (∀ x ∈ (runOracle orcl (processMessageL L env orc expr md name st) 0 []).2,
      ParseCall d x.1 ∧ x.1.mutating = false ∧ x.1.isFork = false) ∧
    ∃ T, (runOracle orcl (processMessageL L env orc expr md name st) 0 []).2 =
        (runOracle orcl (messageParsePL L d md.path name content) 0 []).2 ++ T ∧ ∀ x ∈ T, IsClose x.1 := by
  have hev' : (Own.runO orcl (evalPL L (msgEnv env orc p) expr (parseMessage content) mf)
      (Own.runO orcl (messageParsePL L d md.path name content) 0).2.2).1 = (.match, est) := by
    rw [evalPL_asksFree_eq L _ expr hfree, ← hev]
    rfl
  obtain ⟨h1, h2, E, T, h3, hE, hT⟩ :=
    processMessageL_interp_error_run L env orc expr md name st d content p n mf est hd hf hp hn hmf orcl hev' hint
  have hE0 : E = [] := by
    apply List.eq_nil_iff_forall_not_mem.2
    intro x hx
    have hf' := hfree
    simp only [asksFree, Bool.and_eq_true, Bool.not_eq_true'] at hf'
    rcases hE x hx with ⟨hc, _⟩ | ⟨hs | hs, _⟩
    · rw [hf'.1.1] at hc; cases hc
    · rw [hf'.1.2] at hs; cases hs
    · rw [hf'.2] at hs; cases hs
  subst hE0
  refine ⟨h1, fun x hx => ?_, T, by simpa using h3, hT⟩
  have hpc := ParseEvalCall.of_asksFree hfree (h2 x hx).1
  exact ⟨hpc, hpc.quiet⟩

end Mdsort.Proofs.Limits
