import Mdsort.Proofs.WorldExitStep

/-!
# The invariant of a whole maildir run in which no message is visited twice

The directories the run walks (`C.dirs`, in order, each with the rules of its block) are split into
those already walked, the one being walked (`cur`: path, rules, names its stream will still yield) and
those still to be walked (`later`).  A registered message is *pending* (`exit0_Pend`) when its directory
is still to be walked or it is among the remaining names of the current one.  `exit0_Inv`: the registry
is consistent with the world; the directories still to be walked are exactly as they were initially;
every pending message is registered as it was initially; every other message of the initial registry
has been placed as the rules say (`exit0_Outcome`) at an entry that is not pending; the log so far,
followed by the lines still to come, is the reference log `exit0_refDirs C C.dirs`.
-/

namespace Mdsort.Proofs
open Mdsort Mdsort.Model
open Mdsort.Proofs.World (lk Ent)

/-- The fixed data of a run. -/
structure exit0_Ctx where
  env : PEnv
  orc : EvalOracles
  dirs : List (Bytes × Expr)
  files0 : Files
  w0 : World

/-- The log lines of the names `names` of directory `D` under the rules `e`, for the initial registry. -/
def exit0_refNames (C : exit0_Ctx) (D : Bytes) (e : Expr) (names : List Bytes) : List Bytes :=
  names.flatMap fun n =>
    if isDot n then []
    else
      match C.files0.get D n with
      | some c => exit0_lines C.env C.orc e D n c
      | none => []

/-- The reference log: every directory in walking order, its names in the order of its stream. -/
def exit0_refDirs (C : exit0_Ctx) (ds : List (Bytes × Expr)) : List Bytes :=
  ds.flatMap fun de => exit0_refNames C de.1 de.2 (((C.w0.dir de.1).map sortedNames).getD [])

abbrev exit0_Cur := Option (Bytes × Expr × List Bytes)

/-- The entry `x` is still to be visited. -/
def exit0_Pend (later : List (Bytes × Expr)) (cur : exit0_Cur) (x : Bytes × Bytes) : Prop :=
  x.1 ∈ later.map (·.1) ∨ ∃ D e rem, cur = some (D, e, rem) ∧ x.1 = D ∧ x.2 ∈ rem ∧ isDot x.2 = false

def exit0_curRef (C : exit0_Ctx) : exit0_Cur → List Bytes
  | some (D, e, rem) => exit0_refNames C D e rem
  | none => []

structure exit0_Inv (C : exit0_Ctx) (later : List (Bytes × Expr)) (cur : exit0_Cur) (st : MainSt) (w : World) : Prop where
  reg : WholeReg w st.files
  uniq : exit0_Unique w
  same : ∀ D ∈ later.map (·.1), ∀ n, w.lookup D n = C.w0.lookup D n
  cnt : ∀ D ∈ later.map (·.1), st.files.filter (fun x => x.1 == D) = C.files0.filter (fun x => x.1 == D)
  track : ∀ D e n c, (D, e) ∈ C.dirs → C.files0.get D n = some c → isDot n = false →
      (exit0_Pend later cur (D, n) → st.files.get D n = some c) ∧
      (¬ exit0_Pend later cur (D, n) → ∃ key c' lines, ¬ exit0_Pend later cur key ∧ st.files.get key.1 key.2 = some c' ∧
          exit0_Outcome C.env C.orc e D n c key c' lines)
  log : st.log ++ exit0_curRef C cur ++ exit0_refDirs C later = exit0_refDirs C C.dirs

/-- The hypotheses on the configuration, the initial registry and the initial world. -/
structure exit0_Good (C : exit0_Ctx) : Prop where
  nodup : (C.dirs.map (·.1)).Nodup
  uniq0 : exit0_Unique C.w0
  listed : ∀ D e, (D, e) ∈ C.dirs → ∀ n, (C.w0.lookup D n).isSome → isDot n = false ∧ (C.files0.get D n).isSome
  norev : ∀ pre D e post, C.dirs = pre ++ (D, e) :: post → ∀ n c, C.files0.get D n = some c →
      exit0_dest C.env C.orc e D n c ∉ post.map (·.1)

/-- What is known of the names the current stream will still yield. -/
structure exit0_RemOk (C : exit0_Ctx) (D : Bytes) (rem : List Bytes) : Prop where
  nodup : (rem.filter fun n => !isDot n).Nodup
  known : ∀ m ∈ rem, isDot m = false → (C.files0.get D m).isSome

theorem exit0_RemOk.tail {C : exit0_Ctx} {D n : Bytes} {t : List Bytes} (h : exit0_RemOk C D (n :: t)) : exit0_RemOk C D t := by
  refine ⟨?_, fun m hm => h.known m (List.mem_cons_of_mem _ hm)⟩
  have := h.nodup
  rw [List.filter_cons] at this
  split at this
  · exact (List.nodup_cons.1 this).2
  · exact this

theorem exit0_RemOk.head_notin {C : exit0_Ctx} {D n : Bytes} {t : List Bytes} (h : exit0_RemOk C D (n :: t)) (hn : isDot n = false) :
    n ∉ t := by
  intro hm
  have := h.nodup
  rw [List.filter_cons] at this
  simp only [hn, Bool.not_false, if_true] at this
  exact (List.nodup_cons.1 this).1 (List.mem_filter.2 ⟨hm, by simp [hn]⟩)

/-! ## facts from the split of the directory list -/

theorem exit0_split_notin {C : exit0_Ctx} (hG : exit0_Good C) {pre later : List (Bytes × Expr)} {D : Bytes} {e : Expr}
    (hs : C.dirs = pre ++ (D, e) :: later) : D ∉ later.map (·.1) := by
  have := hG.nodup
  rw [hs, List.map_append, List.map_cons, List.nodup_append] at this
  exact (List.nodup_cons.1 this.2.1).1

theorem exit0_split_mem {C : exit0_Ctx} {pre later : List (Bytes × Expr)} {D : Bytes} {e : Expr}
    (hs : C.dirs = pre ++ (D, e) :: later) : (D, e) ∈ C.dirs := by
  rw [hs]; simp

theorem exit0_expr_unique {C : exit0_Ctx} (hG : exit0_Good C) {D : Bytes} {e e' : Expr} (h : (D, e) ∈ C.dirs)
    (h' : (D, e') ∈ C.dirs) : e = e' := by
  have key : ∀ (l : List (Bytes × Expr)), (l.map (·.1)).Nodup → (D, e) ∈ l → (D, e') ∈ l → e = e' := by
    intro l
    induction l with
    | nil => intro _ h; cases h
    | cons x l ih =>
      intro hn h1 h2
      rw [List.map_cons, List.nodup_cons] at hn
      rcases List.mem_cons.1 h1 with hx | h1'
      · subst hx
        rcases List.mem_cons.1 h2 with h2' | h2'
        · cases h2'; rfl
        · exact absurd (show D ∈ l.map (·.1) from List.mem_map.2 ⟨(D, e'), h2', rfl⟩) hn.1
      · rcases List.mem_cons.1 h2 with hx | h2'
        · subst hx
          exact absurd (show D ∈ l.map (·.1) from List.mem_map.2 ⟨(D, e), h1', rfl⟩) hn.1
        · exact ih hn.2 h1' h2'
  exact key C.dirs hG.nodup h h'

/-! ## calls that change no directory and write no file -/

theorem exit0_Inv.step {C : exit0_Ctx} {later : List (Bytes × Expr)} {cur : exit0_Cur} {st : MainSt} {w : World}
    (h : exit0_Inv C later cur st w) (c : Call) (r : Res) (hd : World.Call.dirOp c = false) (hfs : ∀ g, World.fileSafe w g c) :
    exit0_Inv C later cur st (stepWorld w c r) :=
  ⟨h.reg.step c r hd hfs, exit0_unique_step h.uniq c r,
    fun D hD n => (World.lk_step w c r hd (D, n)).trans (h.same D hD n), h.cnt, h.track, h.log⟩

theorem exit0_Inv.setErr {C : exit0_Ctx} {later : List (Bytes × Expr)} {cur : exit0_Cur} {st : MainSt} {w : World}
    (h : exit0_Inv C later cur st w) : exit0_Inv C later cur { st with error := true } w :=
  ⟨h.reg, h.uniq, h.same, h.cnt, h.track, h.log⟩

/-- Changing the description of what is pending, for the registered entries and the placement keys. -/
theorem exit0_Inv.congr {C : exit0_Ctx} {later later' : List (Bytes × Expr)} {cur cur' : exit0_Cur} {st : MainSt} {w : World}
    (h : exit0_Inv C later cur st w) (hsub : ∀ D, D ∈ later'.map (·.1) → D ∈ later.map (·.1))
    (himp : ∀ x, exit0_Pend later' cur' x → exit0_Pend later cur x)
    (hreg : ∀ D e n c, (D, e) ∈ C.dirs → C.files0.get D n = some c → isDot n = false → st.files.get D n = some c →
      exit0_Pend later cur (D, n) → exit0_Pend later' cur' (D, n))
    (hlog : exit0_curRef C cur' ++ exit0_refDirs C later' = exit0_curRef C cur ++ exit0_refDirs C later) :
    exit0_Inv C later' cur' st w := by
  refine ⟨h.reg, h.uniq, fun D hD => h.same D (hsub D hD), fun D hD => h.cnt D (hsub D hD), ?_, ?_⟩
  · intro D e n c hmem hc hn
    obtain ⟨t1, t2⟩ := h.track D e n c hmem hc hn
    refine ⟨fun hp => t1 (himp _ hp), fun hnp => ?_⟩
    by_cases hp : exit0_Pend later cur (D, n)
    · exact absurd (hreg D e n c hmem hc hn (t1 hp) hp) hnp
    · obtain ⟨key, c', lines, hk, hget, hout⟩ := t2 hp
      exact ⟨key, c', lines, fun hk' => hk (himp _ hk'), hget, hout⟩
  · rw [List.append_assoc, hlog, ← List.append_assoc]
    exact h.log

/-! ## a name that is skipped, and the end of a stream -/

theorem exit0_refNames_cons_dot (C : exit0_Ctx) (D : Bytes) (e : Expr) (n : Bytes) (t : List Bytes) (hn : isDot n = true) :
    exit0_refNames C D e (n :: t) = exit0_refNames C D e t := by
  simp [exit0_refNames, List.flatMap_cons, hn]

theorem exit0_refNames_cons (C : exit0_Ctx) (D : Bytes) (e : Expr) (n c : Bytes) (t : List Bytes) (hn : isDot n = false)
    (hc : C.files0.get D n = some c) :
    exit0_refNames C D e (n :: t) = exit0_lines C.env C.orc e D n c ++ exit0_refNames C D e t := by
  simp [exit0_refNames, List.flatMap_cons, hn, hc]

theorem exit0_Inv.dot {C : exit0_Ctx} {later : List (Bytes × Expr)} {D : Bytes} {e : Expr} {n : Bytes} {t : List Bytes}
    {st : MainSt} {w : World} (h : exit0_Inv C later (some (D, e, n :: t)) st w) (hn : isDot n = true) :
    exit0_Inv C later (some (D, e, t)) st w := by
  refine h.congr (fun _ hD => hD) ?_ ?_ ?_
  · rintro x (hx | ⟨D', e', rem, hc, h1, h2, h3⟩)
    · exact .inl hx
    · cases hc
      exact .inr ⟨_, _, _, rfl, h1, List.mem_cons_of_mem _ h2, h3⟩
  · rintro D' e' m c _ _ hm _ (hx | ⟨D'', e'', rem, hc, h1, h2, h3⟩)
    · exact .inl hx
    · cases hc
      refine .inr ⟨_, _, _, rfl, h1, ?_, h3⟩
      rcases List.mem_cons.1 h2 with h2 | h2
      · simp only at h2
        rw [h2, hn] at hm
        cases hm
      · exact h2
  · simp only [exit0_curRef]
    rw [exit0_refNames_cons_dot C D e n t hn]

theorem exit0_Inv.eof {C : exit0_Ctx} {later : List (Bytes × Expr)} {D : Bytes} {e : Expr} {st : MainSt} {w : World}
    (h : exit0_Inv C later (some (D, e, [])) st w) : exit0_Inv C later none st w := by
  refine h.congr (fun _ hD => hD) ?_ ?_ ?_
  · rintro x (hx | ⟨D', e', rem, hc, _⟩)
    · exact .inl hx
    · cases hc
  · rintro D' e' m c _ _ hm _ (hx | ⟨D'', e'', rem, hc, h1, h2, h3⟩)
    · exact .inl hx
    · cases hc
      cases h2
  · simp [exit0_curRef, exit0_refNames]

/-! ## one message has been placed -/

theorem exit0_Inv.msg {C : exit0_Ctx} (hG : exit0_Good C) {pre later : List (Bytes × Expr)} {D : Bytes} {e : Expr}
    {n c : Bytes} {t : List Bytes} {st st' : MainSt} {w w' : World}
    (hs : C.dirs = pre ++ (D, e) :: later) (h : exit0_Inv C later (some (D, e, n :: t)) st w)
    (hrem : exit0_RemOk C D (n :: t)) (hn : isDot n = false) (hc : C.files0.get D n = some c)
    (hreg' : WholeReg w' st'.files) (huniq' : exit0_Unique w')
    {key : Bytes × Bytes} {c' : Bytes} {lines : List Bytes}
    (hout : exit0_Outcome C.env C.orc e D n c key c' lines) (hupd : exit0_FilesUpd st.files (D, n) key c' st'.files)
    (hlog : st'.log = st.log ++ lines) (hfresh : key ≠ (D, n) → w.lookup key.1 key.2 = none)
    (hoth : ∀ x : Bytes × Bytes, x ≠ (D, n) → x ≠ key → w'.lookup x.1 x.2 = w.lookup x.1 x.2) :
    exit0_Inv C later (some (D, e, t)) st' w' := by
  have hDn : D ∉ later.map (·.1) := exit0_split_notin hG hs
  have hmemD : (D, e) ∈ C.dirs := exit0_split_mem hs
  have hkeyL : key.1 ∉ later.map (·.1) := by rw [hout.dest]; exact hG.norev pre D e later hs n c hc
  have hnt : n ∉ t := hrem.head_notin hn
  -- pending before / after
  have F1 : ∀ x, exit0_Pend later (some (D, e, t)) x → exit0_Pend later (some (D, e, n :: t)) x := by
    rintro x (hx | ⟨D', e', rem, hcur, h1, h2, h3⟩)
    · exact .inl hx
    · cases hcur
      exact .inr ⟨_, _, _, rfl, h1, List.mem_cons_of_mem _ h2, h3⟩
  have F2 : ∀ x, exit0_Pend later (some (D, e, n :: t)) x → ¬ exit0_Pend later (some (D, e, t)) x → x = (D, n) := by
    rintro x (hx | ⟨D', e', rem, hcur, h1, h2, h3⟩) hnp
    · exact absurd (.inl hx) hnp
    · cases hcur
      rcases List.mem_cons.1 h2 with h2 | h2
      · exact Prod.ext h1 h2
      · exact absurd (.inr ⟨_, _, _, rfl, h1, h2, h3⟩) hnp
  have F3 : ¬ exit0_Pend later (some (D, e, t)) (D, n) := by
    rintro (hx | ⟨D', e', rem, hcur, _, h2, _⟩)
    · exact hDn hx
    · cases hcur
      exact hnt h2
  have F4 : exit0_Pend later (some (D, e, n :: t)) (D, n) := .inr ⟨_, _, _, rfl, rfl, List.mem_cons_self .., hn⟩
  have bound : ∀ (x : Bytes × Bytes) y, st.files.get x.1 x.2 = some y → (w.lookup x.1 x.2).isSome := by
    intro x y hy
    obtain ⟨fid, hl, _, _⟩ := h.reg x.1 x.2 y hy
    rw [hl]; rfl
  -- a bound entry other than the processed one is not the new key
  have neKey : ∀ (x : Bytes × Bytes) y, st.files.get x.1 x.2 = some y → x ≠ (D, n) → x ≠ key := by
    intro x y hy hx hk
    by_cases hkn : key = (D, n)
    · exact hx (hk.trans hkn)
    · have := bound x y hy
      rw [hk, hfresh hkn] at this
      cases this
  have F6 : ¬ exit0_Pend later (some (D, e, t)) key := by
    rintro (hx | ⟨D', e', rem, hcur, h1, h2, h3⟩)
    · exact hkeyL hx
    · cases hcur
      by_cases hkn : key = (D, n)
      · rw [hkn] at h2; exact hnt h2
      · obtain ⟨cx, hcx⟩ := Option.isSome_iff_exists.1 (hrem.known key.2 (List.mem_cons_of_mem _ h2) h3)
        have hp : exit0_Pend later (some (D, e, n :: t)) (D, key.2) :=
          .inr ⟨_, _, _, rfl, rfl, List.mem_cons_of_mem _ h2, h3⟩
        have hget := (h.track D e key.2 cx hmemD hcx h3).1 hp
        have hb := bound (D, key.2) cx hget
        have hk : key = (D, key.2) := Prod.ext h1 rfl
        rw [hk] at hkn
        have := hfresh (by rw [hk]; exact hkn)
        rw [hk] at this
        simp only at hb this
        rw [this] at hb
        cases hb
  refine ⟨hreg', huniq', ?_, ?_, ?_, ?_⟩
  · intro D' hD' m
    have h1 : ((D', m) : Bytes × Bytes) ≠ (D, n) := by
      intro hh; cases hh; exact hDn hD'
    have h2 : ((D', m) : Bytes × Bytes) ≠ key := by
      intro hh; rw [← hh] at hkeyL; exact hkeyL hD'
    exact (hoth (D', m) h1 h2).trans (h.same D' hD' m)
  · intro D' hD'
    rw [hupd.2 D' (fun hh => hDn (by have hh' : D' = D := hh; rw [← hh']; exact hD')) (fun hh => hkeyL (by rw [← hh]; exact hD'))]
    exact h.cnt D' hD'
  · intro Dx ex m cx hmem hcx hm
    obtain ⟨t1, t2⟩ := h.track Dx ex m cx hmem hcx hm
    refine ⟨fun hp => ?_, fun hnp => ?_⟩
    · have hget := t1 (F1 _ hp)
      have hne : ((Dx, m) : Bytes × Bytes) ≠ (D, n) := by
        intro hh; rw [hh] at hp; exact F3 hp
      have := hupd.1 (Dx, m)
      simp only [neKey (Dx, m) cx hget hne, hne, if_false] at this
      rw [this]; exact hget
    · by_cases hp : exit0_Pend later (some (D, e, n :: t)) (Dx, m)
      · have heq := F2 _ hp hnp
        cases heq
        have hee : ex = e := exit0_expr_unique hG hmem hmemD
        subst hee
        have hcc : cx = c := by rw [hc] at hcx; cases hcx; rfl
        subst hcc
        refine ⟨key, c', lines, F6, ?_, hout⟩
        have := hupd.1 key
        simp only [if_true] at this
        exact this
      · obtain ⟨key0, c0, lines0, hk0, hget0, hout0⟩ := t2 hp
        refine ⟨key0, c0, lines0, fun hh => hk0 (F1 _ hh), ?_, hout0⟩
        have hne : key0 ≠ (D, n) := by
          intro hh; rw [hh] at hk0; exact hk0 F4
        have := hupd.1 key0
        simp only [neKey key0 c0 hget0 hne, hne, if_false] at this
        rw [this]; exact hget0
  · have hl := h.log
    simp only [exit0_curRef] at hl ⊢
    rw [exit0_refNames_cons C D e n c t hn hc, ← hout.lines_eq] at hl
    rw [hlog]
    simpa [List.append_assoc] using hl

end Mdsort.Proofs
