import Mdsort.Proofs.L0RefineHeader
import Mdsort.Proofs.MimeScan
import Mdsort.Proofs.Safety

/-!
# L0 `skipline`, `parseboundary`, `findboundary` refine the list model

`mime_scanners_ok` (L0Mime) says that no access leaves the buffer.  Here the results are tracked: the index
`skipline` returns, the three outcomes of `parseboundary` with the `strndup`ed boundary, and the position and
terminator flag `findboundary` returns are those of the list model on the view.

`findboundary` resumes, after a failed comparison, with `skipline` from the byte after the text it has just compared,
so a line start INSIDE a matched boundary is never examined (this matters only for a boundary that contains a newline,
obtainable from an RFC 2047 encoded word in the Content-Type value).  The list model `Model.findBoundaryAux` follows
the C code in this (package PG3; it used to re-examine every line start), so the refinement holds for EVERY boundary;
`l0r_findBoundary_newline_example` is the input that separated the former list model from message.c.
-/

namespace Mdsort.L0
open Mdsort Mdsort.L0.Buf

/-! ## skipline: the exact index -/

/-- Length of the first line of a text including its newline. -/
def l0r_lineLen : Bytes → Nat
  | [] => 0
  | c :: r => if c == 10 then 1 else l0r_lineLen r + 1

theorem l0r_lineLen_le (s : Bytes) : l0r_lineLen s ≤ s.length := by
  induction s with
  | nil => simp [l0r_lineLen]
  | cons c r ih => unfold l0r_lineLen; split <;> simp <;> omega

theorem l0r_skipLine_drop (s : Bytes) : Model.skipLine s = s.drop (l0r_lineLen s) := by
  induction s with
  | nil => rfl
  | cons c r ih =>
    unfold Model.skipLine l0r_lineLen
    by_cases hc : (c == 10) = true
    · simp [hc]
    · simp [hc, ih]

theorem l0r_skipLine_spec {b : Buf} {i : Nat} (h : b.HasNul i) :
    skipLine b i = .ok (i + l0r_lineLen (b.view i)) := by
  generalize hm : b.size - i = m
  induction m using Nat.strongRecOn generalizing i with
  | _ m ih =>
    have := h.lt
    rcases h.cases with ⟨hg, hv⟩ | ⟨c, hc, hg, hv, hn'⟩
    · rw [skipLine_eq hg, hv]; simp [l0r_lineLen]
    · rw [skipLine_eq hg, hv]
      simp only [beq_iff_eq, hc, if_false, l0r_lineLen]
      by_cases h10 : c = 10
      · simp [h10]
      · simp only [h10, if_false]
        rw [ih _ (by omega) hn' rfl]
        congr 1; omega

/-! ## parseboundary -/

theorem l0r_scanUntil_spec {b : Buf} {i : Nat} (h : b.HasNul i) (c : UInt8) :
    scanUntil b i c = .ok (i + ((b.view i).takeWhile (· != c)).length) := by
  generalize hm : b.size - i = m
  induction m using Nat.strongRecOn generalizing i with
  | _ m ih =>
    have := h.lt
    rcases h.cases with ⟨hg, hv⟩ | ⟨x, hx, hg, hv, hn'⟩
    · rw [scanUntil_eq c hg, hv]; simp
    · rw [scanUntil_eq c hg, hv]
      by_cases hxc : x = c
      · have e : ¬ (x != 0 && x != c) = true := by simp [hxc]
        rw [if_neg e]
        simp [hxc]
      · have e : (x != 0 && x != c) = true := by simp [hx, hxc]
        have e2 : (x != c) = true := by simp [hxc]
        rw [if_pos e, ih _ (by omega) hn' rfl]
        simp only [List.takeWhile_cons, e2, if_true, List.length_cons]
        congr 1; omega

/-- How the result of the L0 `parseboundary` stands for the L1 one: the same case, and the `strndup`ed boundary is
the C string of the L1 boundary. -/
def l0r_BoundaryRel : Boundary → Model.Boundary → Prop
  | .notMultipart, .notMultipart => True
  | .invalid, .invalid => True
  | .ok bnd, .ok bb => bnd = Buf.ofBytes bb ∧ bnd.view 0 = bb
  | _, _ => False

theorem l0r_view_nil_get? {b : Buf} {i : Nat} (h : b.HasNul i) (hv : b.view i = []) : b.get? i = .ok 0 := by
  rcases h.cases with ⟨hg, _⟩ | ⟨c, _, _, hvc, _⟩
  · exact hg
  · rw [hvc] at hv; cases hv

theorem l0r_startsWith_split {s p : Bytes} (h : startsWith s p = true) : s = p ++ s.drop p.length := by
  simp only [startsWith, List.isPrefixOf_iff_prefix] at h
  obtain ⟨t, rfl⟩ := h
  simp

/-- `parseboundary` refines the list model. -/
theorem l0r_parseBoundary_refines (t : Buf) {i : Nat} (h : t.HasNul i) :
    ∃ r, parseBoundary t i = .ok r ∧ l0r_BoundaryRel r (Model.parseBoundary (t.view i)) := by
  unfold parseBoundary Model.parseBoundary
  simp only [Proofs.ofString_multipart, Proofs.ofString_boundaryq]
  rw [startsWithLitCI_spec h multipartLit (by decide)]
  have hlen10a : ([109, 117, 108, 116, 105, 112, 97, 114, 116, 47] : Bytes).length = 10 := rfl
  have hlen10b : ([98, 111, 117, 110, 100, 97, 114, 121, 61, 34] : Bytes).length = 10 := rfl
  rw [hlen10a, hlen10b]
  by_cases hs : Model.startsWithCI (t.view i) multipartLit = true
  · have hs' : Model.startsWithCI (t.view i) [109, 117, 108, 116, 105, 112, 97, 114, 116, 47] = true := hs
    simp only [hs, hs', Bool.not_true, Bool.false_eq_true, if_false]
    obtain ⟨hn1, hv1⟩ := h.add 10 (startsWithCI_length hs)
    rw [l0r_scanUntil_spec hn1 59, ← hv1]
    simp only
    have hle1 := length_takeWhile_le (· != 59) (t.view (i + 10))
    obtain ⟨hn2, hv2⟩ := hn1.add _ hle1
    rw [drop_length_takeWhile] at hv2
    generalize i + 10 + ((t.view (i + 10)).takeWhile (· != 59)).length = p1 at hn2 hv2 ⊢
    cases hd : (t.view (i + 10)).dropWhile (· != 59) with
    | nil =>
      rw [hd] at hv2
      rw [l0r_view_nil_get? hn2 hv2]
      exact ⟨.notMultipart, by simp, trivial⟩
    | cons x s1 =>
      rw [hd] at hv2
      obtain ⟨hg2, hx0, hn3, hv3⟩ := l0r_get?_of_view_cons hn2 hv2
      rw [hg2]
      simp only [beq_iff_eq, hx0, if_false]
      rw [skipBlanks_spec hn3, hv3]
      simp only
      obtain ⟨hn4, hv4⟩ := hn3.add (Mdsort.nspaces s1) (by rw [hv3]; exact nspaces_le s1)
      rw [hv3] at hv4
      generalize p1 + 1 + Mdsort.nspaces s1 = p2 at hn4 hv4 ⊢
      rw [startsWithLitCI_spec hn4 boundaryLit (by decide), hv4]
      by_cases hs2 : Model.startsWithCI (s1.drop (Mdsort.nspaces s1)) boundaryLit = true
      · have hs2' : Model.startsWithCI (s1.drop (Mdsort.nspaces s1)) [98, 111, 117, 110, 100, 97, 114, 121, 61, 34] = true := hs2
        simp only [hs2, hs2', Bool.not_true, Bool.false_eq_true, if_false]
        obtain ⟨hn5, hv5⟩ := hn4.add 10 (by rw [hv4]; exact startsWithCI_length hs2)
        rw [hv4] at hv5
        rw [l0r_scanUntil_spec hn5 34, hv5]
        simp only
        generalize (s1.drop (Mdsort.nspaces s1)).drop 10 = s3 at hv5 ⊢
        have hle3 := length_takeWhile_le (· != 34) s3
        obtain ⟨hn6, hv6⟩ := hn5.add (s3.takeWhile (· != 34)).length (by rw [hv5]; exact hle3)
        rw [hv5, drop_length_takeWhile] at hv6
        cases hd3 : s3.dropWhile (· != 34) with
        | nil =>
          rw [hd3] at hv6
          rw [l0r_view_nil_get? hn6 hv6]
          exact ⟨.invalid, by simp, trivial⟩
        | cons y r3 =>
          rw [hd3] at hv6
          have hy : y = 34 := l0r_dropWhile_ne_head hd3
          subst hy
          obtain ⟨hg6, _, _, _⟩ := l0r_get?_of_view_cons hn6 hv6
          rw [hg6]
          simp only [bne_self_eq_false, Bool.false_eq_true, if_false]
          have hsub : p2 + 10 + (s3.takeWhile (· != 34)).length - (p2 + 10) = (s3.takeWhile (· != 34)).length := by
            omega
          rw [hsub]
          by_cases he : (s3.takeWhile (· != 34)).length = 0
          · have he' : (s3.takeWhile (· != 34)).isEmpty = true := by
              rw [List.isEmpty_iff]; exact List.eq_nil_of_length_eq_zero he
            rw [if_pos he]
            simp only [he', if_true]
            exact ⟨.invalid, rfl, trivial⟩
          · have he' : (s3.takeWhile (· != 34)).isEmpty = false := by
              cases hh : s3.takeWhile (· != 34) with
              | nil => rw [hh] at he; simp at he
              | cons a l => rfl
            rw [if_neg he]
            simp only [he', Bool.false_eq_true, if_false]
            rw [strndup_spec hn5, hv5, take_length_takeWhile]
            refine ⟨.ok (ofBytes (s3.takeWhile (· != 34))), rfl, rfl, ?_⟩
            apply view_ofBytes_of_no_nul
            intro z hz
            have hz3 : z ∈ s3 := (List.takeWhile_sublist _).subset hz
            rw [← hv5] at hz3
            exact view_no_nul t _ z hz3
      · have hs2'' : Model.startsWithCI (s1.drop (Mdsort.nspaces s1)) boundaryLit = false := by simpa using hs2
        have hs2' : Model.startsWithCI (s1.drop (Mdsort.nspaces s1)) [98, 111, 117, 110, 100, 97, 114, 121, 61, 34] = false :=
          hs2''
        simp only [hs2', hs2'', Bool.not_false, if_true]
        exact ⟨.notMultipart, rfl, trivial⟩
  · have hs'' : Model.startsWithCI (t.view i) multipartLit = false := by simpa using hs
    have hs' : Model.startsWithCI (t.view i) [109, 117, 108, 116, 105, 112, 97, 114, 116, 47] = false := hs''
    simp only [hs', hs'', Bool.not_false, if_true]
    exact ⟨.notMultipart, rfl, trivial⟩

/-! ## findboundary: list-level facts -/

open Mdsort.Proofs (prependPre)

/-- Where the L0 `findboundary` points, given the L1 result relative to the text at `s`. -/
def l0r_shift (s : Nat) (x : Bytes × Bool × Bytes) : Nat × Bool := (s + x.1.length, x.2.1)

theorem l0r_map_shift_prepend (o : Option (Bytes × Bool × Bytes)) (pre : Bytes) (s : Nat) :
    (o.map (prependPre pre)).map (l0r_shift s) = o.map (l0r_shift (s + pre.length)) := by
  cases o with
  | none => rfl
  | some x => simp [l0r_shift, prependPre, Nat.add_assoc]

theorem l0r_delim_none1 {B V : Bytes} (h : startsWith V [45, 45] = false) : Model.delimiterLine B V = none := by
  simp [Model.delimiterLine, h]

theorem l0r_delim_none2 {B V2 : Bytes} (h : startsWith V2 B = false) :
    Model.delimiterLine B ([45, 45] ++ V2) = none := by
  have h1 : startsWith ([45, 45] ++ V2) [45, 45] = true := Proofs.isPrefixOf_append_self _ _
  have hd : ([45, 45] ++ V2).drop 2 = V2 := rfl
  unfold Model.delimiterLine
  simp only [h1, Bool.not_true, Bool.false_eq_true, if_false, hd, h, Bool.not_false, if_true]

theorem l0r_delim_3 (B V3 : Bytes) :
    Model.delimiterLine B ([45, 45] ++ (B ++ V3)) =
      (match (if startsWith V3 [45, 45] then V3.drop 2 else V3) with
       | 10 :: _ => some (startsWith V3 [45, 45])
       | _ => none) := by
  have h1 : startsWith ([45, 45] ++ (B ++ V3)) [45, 45] = true := Proofs.isPrefixOf_append_self _ _
  have h2 : startsWith (B ++ V3) B = true := Proofs.isPrefixOf_append_self _ _
  unfold Model.delimiterLine
  simp only [h1, Bool.not_true, Bool.false_eq_true, if_false]
  have hd : ([45, 45] ++ (B ++ V3)).drop 2 = B ++ V3 := rfl
  simp only [hd, h2, Bool.not_true, Bool.false_eq_true, if_false, List.drop_left]
  rfl

theorem l0r_cont_1 {B V : Bytes} (h : startsWith V [45, 45] = false) : Model.continueAt B V = V := by
  simp [Model.continueAt, h]

theorem l0r_cont_2 {B V2 : Bytes} (h : startsWith V2 B = false) : Model.continueAt B ([45, 45] ++ V2) = V2 := by
  have h1 : startsWith ([45, 45] ++ V2) [45, 45] = true := Proofs.isPrefixOf_append_self _ _
  have hd : ([45, 45] ++ V2).drop 2 = V2 := rfl
  unfold Model.continueAt
  simp only [h1, Bool.not_true, Bool.false_eq_true, if_false, hd, h, Bool.not_false, if_true]

theorem l0r_cont_3 (B V3 : Bytes) :
    Model.continueAt B ([45, 45] ++ (B ++ V3)) = (if startsWith V3 [45, 45] then V3.drop 2 else V3) := by
  have h1 : startsWith ([45, 45] ++ (B ++ V3)) [45, 45] = true := Proofs.isPrefixOf_append_self _ _
  have h2 : startsWith (B ++ V3) B = true := Proofs.isPrefixOf_append_self _ _
  unfold Model.continueAt
  simp only [h1, Bool.not_true, Bool.false_eq_true, if_false]
  have hd : ([45, 45] ++ (B ++ V3)).drop 2 = B ++ V3 := rfl
  simp only [hd, h2, Bool.not_true, Bool.false_eq_true, if_false, List.drop_left]

theorem l0r_strncmp_prefix (s p : Bytes) : decide (s.take p.length = p.take p.length) = startsWith s p := by
  simp only [List.take_length, startsWith]
  rw [Bool.eq_iff_iff]
  simp only [decide_eq_true_eq, List.isPrefixOf_iff_prefix]
  constructor
  · intro h; rw [← h]; exact List.take_prefix _ _
  · intro h; exact (List.prefix_iff_eq_take.mp h).symm

theorem l0r_map_prepend_nil (o : Option (Bytes × Bool × Bytes)) : o.map (prependPre []) = o := by
  cases o <;> simp [prependPre]

/-! ## findboundary -/

/-- `findboundary`'s loop, for EVERY boundary: the line it returns and its terminator flag are the list model's.
Entered with `skip = 0` the text at `s` is examined; a `continue` re-enters with `skip = 1` and the list model
passes over the rest of the line (`l0r_lineLen` bytes) unseen. -/
theorem l0r_findBoundaryLoop_refines (bnd b : Buf) (hb : bnd.HasNul 0) :
    ∀ (n s : Nat) (skip : Bool), 2 * (b.size - s) + (if skip then 0 else 1) = n → b.HasNul s →
      findBoundaryLoop bnd (bnd.view 0).length b s skip =
        .ok ((Model.findBoundaryAux (bnd.view 0) (b.view s) (if skip then l0r_lineLen (b.view s) else 0)).map
          (l0r_shift s)) := by
  intro n
  induction n using Nat.strongRecOn with
  | _ n ih =>
    intro s skip hn h
    -- the beginning of the line examined
    have hls : ∃ s1, lineStart b s skip = .ok s1 ∧ s ≤ s1 ∧ b.HasNul s1 ∧
        (Model.findBoundaryAux (bnd.view 0) (b.view s) (if skip then l0r_lineLen (b.view s) else 0)).map (l0r_shift s) =
          (Model.findBoundaryAux (bnd.view 0) (b.view s1) 0).map (l0r_shift s1) := by
      cases skip with
      | false => exact ⟨s, rfl, Nat.le_refl _, h, rfl⟩
      | true =>
        obtain ⟨hn1, hv1⟩ := h.add _ (l0r_lineLen_le (b.view s))
        refine ⟨_, by simp only [lineStart, if_true]; exact l0r_skipLine_spec h, by omega, hn1, ?_⟩
        simp only [if_true]
        rw [Proofs.findBoundaryAux_hop' _ _ _ (l0r_lineLen_le _), l0r_map_shift_prepend, hv1]
        have : ((b.view s).take (l0r_lineLen (b.view s))).length = l0r_lineLen (b.view s) := by
          rw [List.length_take]; exact Nat.min_eq_left (l0r_lineLen_le _)
        rw [this]
    obtain ⟨s1, hs1, hle, hn1, hL1⟩ := hls
    rw [hL1]
    have hlt := hn1.lt
    rcases hn1.cases with ⟨hg, hv⟩ | ⟨c, hc, hg, hv, _⟩
    · rw [findBoundaryLoop_eq hs1 hg, hv]
      simp [Model.findBoundaryAux]
    · rw [findBoundaryLoop_eq hs1 hg]
      simp only [beq_iff_eq, hc, if_false]
      have hne1 : b.view s1 ≠ [] := by rw [hv]; exact List.cons_ne_nil _ _
      have hgt : skip = true → s < s1 := fun e => by subst e; exact lineStart_gt hs1 hg hc
      have hmeas : ∀ s', s1 ≤ s' → 2 * (b.size - s') + 0 < n := by
        intro s' hs'
        cases skip with
        | false => simp at hn; omega
        | true => have := hgt rfl; simp at hn; omega
      -- a `continue` from `s'`, the position the comparisons have reached over `pfx`, on a line that is no
      -- delimiter line: the next round examines the line `skipline` finds from `s'`
      have hcont : ∀ (s' : Nat) (pfx : Bytes), b.HasNul s' → b.view s1 = pfx ++ b.view s' →
          s' = s1 + pfx.length → b.view s' = Model.continueAt (bnd.view 0) (b.view s1) →
          Model.delimiterLine (bnd.view 0) (b.view s1) = none →
          findBoundaryLoop bnd (bnd.view 0).length b s' true =
            .ok ((Model.findBoundaryAux (bnd.view 0) (b.view s1) 0).map (l0r_shift s1)) := by
        intro s' pfx hns' hvs' hpos hca hD
        have := ih _ (hmeas s' (by omega)) s' true rfl hns'
        rw [this]
        simp only [if_true]
        rw [Proofs.findBoundaryAux_hop' _ _ _ (l0r_lineLen_le _), l0r_map_shift_prepend, ← l0r_skipLine_drop,
          Proofs.findBoundaryAux_continue hne1 hD, l0r_map_shift_prepend]
        have hnl : Proofs.nextLine (bnd.view 0) (b.view s1) = Model.skipLine (b.view s') := by
          unfold Proofs.nextLine; rw [← hca]
        rw [hnl]
        have hidx : s' + ((b.view s').take (l0r_lineLen (b.view s'))).length =
            s1 + ((b.view s1).take (Model.nextLineDist (bnd.view 0) (b.view s1))).length := by
          have hd : Model.nextLineDist (bnd.view 0) (b.view s1) =
              (b.view s1).length - (Model.skipLine (b.view s')).length := by
            unfold Model.nextLineDist; rw [← hca]
          have hsl : (Model.skipLine (b.view s')).length = (b.view s').length - l0r_lineLen (b.view s') := by
            rw [l0r_skipLine_drop, List.length_drop]
          have hL := l0r_lineLen_le (b.view s')
          have hV : (b.view s1).length = pfx.length + (b.view s').length := by rw [hvs']; simp
          rw [List.length_take, List.length_take, hd, hsl]
          omega
        rw [hidx]
      rw [startsWithLit_spec hn1 [45, 45] (by decide)]
      by_cases hsw : startsWith (b.view s1) [45, 45] = true
      · simp only [hsw]
        obtain ⟨hn2, hv2⟩ := hn1.add 2 (startsWith_length hsw)
        have hsplit2 : b.view s1 = [45, 45] ++ b.view (s1 + 2) := by rw [hv2]; exact l0r_startsWith_split hsw
        rw [strncmpEq_spec _ hn2 hb, l0r_strncmp_prefix]
        by_cases hcmp : startsWith (b.view (s1 + 2)) (bnd.view 0) = true
        · simp only [hcmp]
          have hlen := startsWith_length hcmp
          obtain ⟨hn3, hv3⟩ := hn2.add _ hlen
          have hsplit3 : b.view (s1 + 2) = bnd.view 0 ++ b.view (s1 + 2 + (bnd.view 0).length) := by
            rw [hv3]; exact l0r_startsWith_split hcmp
          rw [startsWithLit_spec hn3 [45, 45] (by decide)]
          simp only
          generalize hV3 : b.view (s1 + 2 + (bnd.view 0).length) = V3 at hsplit3 hv3
          have hD3 := l0r_delim_3 (bnd.view 0) V3
          have hC3 := l0r_cont_3 (bnd.view 0) V3
          rw [← hsplit3, ← hsplit2] at hD3 hC3
          -- the position after the optional "--"
          have hpos4 : ∃ pfx4, b.HasNul (afterDashes (s1 + 2 + (bnd.view 0).length) (startsWith V3 [45, 45])) ∧
              b.view (afterDashes (s1 + 2 + (bnd.view 0).length) (startsWith V3 [45, 45])) =
                (if startsWith V3 [45, 45] then V3.drop 2 else V3) ∧
              V3 = pfx4 ++ (if startsWith V3 [45, 45] then V3.drop 2 else V3) ∧
              afterDashes (s1 + 2 + (bnd.view 0).length) (startsWith V3 [45, 45]) =
                s1 + 2 + (bnd.view 0).length + pfx4.length := by
            unfold afterDashes
            by_cases ht : startsWith V3 [45, 45] = true
            · simp only [ht, if_true]
              obtain ⟨hn4, hv4⟩ := hn3.add 2 (by rw [hV3]; exact startsWith_length ht)
              rw [hV3] at hv4
              exact ⟨[45, 45], hn4, hv4, l0r_startsWith_split ht, rfl⟩
            · simp only [ht, Bool.false_eq_true, if_false]
              exact ⟨[], hn3, hV3, rfl, rfl⟩
          obtain ⟨pfx4, hn4, hv4, hsplit4, hpos4'⟩ := hpos4
          generalize afterDashes (s1 + 2 + (bnd.view 0).length) (startsWith V3 [45, 45]) = p4 at hn4 hv4 hpos4' ⊢
          have hfull : b.view s1 = ([45, 45] ++ bnd.view 0 ++ pfx4) ++ b.view p4 := by
            rw [hv4, hsplit2, hsplit3]
            conv => lhs; rw [hsplit4]
            simp
          have hposf : p4 = s1 + ([45, 45] ++ bnd.view 0 ++ pfx4).length := by
            simp only [List.length_append, List.length_cons, List.length_nil]; omega
          have hca : b.view p4 = Model.continueAt (bnd.view 0) (b.view s1) := by rw [hC3, hv4]
          rcases hn4.cases with ⟨hg4, hvn4⟩ | ⟨c4, hc4, hg4, hvc4, _⟩
          · rw [hg4]
            simp only
            rw [← hv4, hvn4] at hD3
            exact hcont p4 _ hn4 hfull hposf hca hD3
          · rw [hg4]
            simp only
            rw [← hv4, hvc4] at hD3
            by_cases h10 : c4 = 10
            · have hD : Model.delimiterLine (bnd.view 0) (b.view s1) = some (startsWith V3 [45, 45]) := by
                rw [hD3, h10]
                first | rfl | simp
              rw [if_pos h10, Proofs.findBoundaryAux_found hD]
              simp [l0r_shift]
            · rw [if_neg h10]
              have hD : Model.delimiterLine (bnd.view 0) (b.view s1) = none := by
                rw [hD3]
                split
                · rename_i heq; simp at heq; exact absurd heq.1 h10
                · rfl
              exact hcont p4 _ hn4 hfull hposf hca hD
        · have hcmp' : startsWith (b.view (s1 + 2)) (bnd.view 0) = false := by simpa using hcmp
          simp only [hcmp']
          have hD : Model.delimiterLine (bnd.view 0) (b.view s1) = none := by
            rw [hsplit2]; exact l0r_delim_none2 hcmp'
          have hca : b.view (s1 + 2) = Model.continueAt (bnd.view 0) (b.view s1) := by
            rw [hsplit2, l0r_cont_2 hcmp']
          exact hcont (s1 + 2) [45, 45] hn2 hsplit2 rfl hca hD
      · have hsw' : startsWith (b.view s1) [45, 45] = false := by simpa using hsw
        simp only [hsw']
        exact hcont s1 [] hn1 rfl rfl (l0r_cont_1 hsw').symm (l0r_delim_none1 hsw')

/-- `findboundary` returns the list model's result, for every boundary (a newline in it included):
`beg = s + |before|` and the terminator flag. -/
theorem l0r_findBoundary_refines (bnd b : Buf) (hb : bnd.HasNul 0) {s : Nat} (h : b.HasNul s) :
    findBoundary bnd b s = .ok ((Model.findBoundary (bnd.view 0) (b.view s)).map (l0r_shift s)) := by
  unfold findBoundary Model.findBoundary
  rw [strlen_spec hb]
  exact l0r_findBoundaryLoop_refines bnd b hb _ s false rfl h

/-- What the position means: the text before it is `before`, the view at it is the L1 `rest` (the delimiter line on). -/
theorem l0r_findBoundary_pos {B : Bytes} {b : Buf} {s : Nat} (h : b.HasNul s) {pre rest : Bytes} {term : Bool}
    (hf : Model.findBoundary B (b.view s) = some (pre, term, rest)) :
    b.HasNul (s + pre.length) ∧ b.view (s + pre.length) = rest ∧ b.slice s (s + pre.length) = pre ∧ rest ≠ [] := by
  obtain ⟨h1, h2⟩ := Proofs.findBoundary_split _ _ _ _ _ hf
  obtain ⟨h3, h4⟩ := l0r_at_append h h1
  refine ⟨h3, h4, ?_, h2⟩
  rw [h.slice_view pre.length (by rw [h1]; simp), h1]
  simp

/-! ## a boundary with a newline

Boundary `"a\n"` and text `"--a\n--a\n\n"`: the C code compares `"--"`, `"a\n"`, `"--"` from offset 0, does not
find a newline after them and resumes with `skipline` from offset 6, so the line at offset 4 is never examined and
it returns NULL.  (A list model that examines every line start reports the delimiter line at offset 4 - the former
`Model.findBoundaryAux` did; this input separated it from message.c.) -/

def l0r_witBnd : Buf := Buf.ofBytes [97, 10]
def l0r_witText : Buf := Buf.ofBytes [45, 45, 97, 10, 45, 45, 97, 10, 10]

theorem l0r_witness_L1 : Model.findBoundary (l0r_witBnd.view 0) (l0r_witText.view 0) = none := by
  decide +kernel

theorem l0r_witness_hasNul (b : Buf) (hb : b.Terminated) (i : Nat) (hi : i < b.size) : b.HasNul i := hb.hasNul hi

theorem l0r_witness_L0 : findBoundary l0r_witBnd l0r_witText 0 = .ok none := by
  have ht : l0r_witText.Terminated := ofBytes_terminated _
  have hbT : l0r_witBnd.Terminated := ofBytes_terminated _
  have hlen : (l0r_witBnd.view 0).length = 2 := by decide +kernel
  unfold findBoundary
  rw [strlen_spec hbT.hasNul0, hlen]
  simp only
  -- offset 0: "--", "a\n", "--", then 'a' is not a newline
  have e0 : lineStart l0r_witText 0 false = .ok 0 := rfl
  have g0 : l0r_witText.get? 0 = .ok 45 := rfl
  rw [findBoundaryLoop_eq e0 g0]
  have c1 : startsWithLit l0r_witText 0 [45, 45] = .ok true := rfl
  have c2 : strncmpEq l0r_witText (0 + 2) l0r_witBnd 0 2 = .ok true := rfl
  have c3 : startsWithLit l0r_witText (0 + 2 + 2) [45, 45] = .ok true := rfl
  have c4 : l0r_witText.get? (afterDashes (0 + 2 + 2) true) = .ok 97 := rfl
  simp only [c1, c2, c3, c4]
  have z1 : ((45 : UInt8) == 0) = false := by decide
  have z2 : ((97 : UInt8) == 10) = false := by decide
  simp only [z1, z2, Bool.false_eq_true, if_false]
  -- skipline from offset 6 leads to offset 8: an empty line
  have hn6 : l0r_witText.HasNul (afterDashes (0 + 2 + 2) true) := ht.hasNul (by decide)
  have e6 : lineStart l0r_witText (afterDashes (0 + 2 + 2) true) true = .ok 8 := by
    simp only [lineStart, if_true]
    rw [l0r_skipLine_spec hn6]
    have : l0r_lineLen (l0r_witText.view (afterDashes (0 + 2 + 2) true)) = 2 := by decide +kernel
    rw [this]; rfl
  have g8 : l0r_witText.get? 8 = .ok 10 := rfl
  rw [findBoundaryLoop_eq e6 g8]
  have c5 : startsWithLit l0r_witText 8 [45, 45] = .ok false := rfl
  have z3 : ((10 : UInt8) == 0) = false := by decide
  simp only [c5, z3, Bool.false_eq_true, if_false]
  -- skipline from offset 8 leads to the terminator
  have hn8 : l0r_witText.HasNul 8 := ht.hasNul (by decide)
  have e8 : lineStart l0r_witText 8 true = .ok 9 := by
    simp only [lineStart, if_true]
    rw [l0r_skipLine_spec hn8]
    have : l0r_lineLen (l0r_witText.view 8) = 1 := by decide +kernel
    rw [this]
  have g9 : l0r_witText.get? 9 = .ok 0 := rfl
  rw [findBoundaryLoop_eq e8 g9]
  simp

/-- The boundary contains a newline, and both levels return NULL (`l0r_witness_L0` is computed step by step,
independently of `l0r_findBoundary_refines`). -/
theorem l0r_findBoundary_newline_example :
    10 ∈ l0r_witBnd.view 0 ∧
    findBoundary l0r_witBnd l0r_witText 0 =
      .ok ((Model.findBoundary (l0r_witBnd.view 0) (l0r_witText.view 0)).map (l0r_shift 0)) := by
  refine ⟨by decide +kernel, ?_⟩
  rw [l0r_witness_L0, l0r_witness_L1]
  rfl

end Mdsort.L0
