import Mdsort.Proofs.EvalAttParse

/-!
# The induction over rules, actions and parts (C03 with attachments)

`att_sim` is `sim_rules` of `EvalRules.lean` for a block evaluated on any part, together with the
statement for the action list of a rule (plain actions and attachment blocks); `att_parts_sim` is
the for-each over the parts of an attachment block.
-/

namespace Mdsort.Proofs
open Mdsort Mdsort.Model Mdsort.Spec

/-! ## recorded deviations of intermediate runs -/

/-- The deviations recorded in `a` are recorded in `b`. -/
def FlagsLe (a b : RunA) : Prop :=
  (b.crosses = false → a.crosses = false) ∧ (b.leaks = false → a.leaks = false)

theorem RunLe.flags {a b : RunA} (h : RunLe a b) : FlagsLe a b := h.2

theorem FlagsLe.trans {a b c : RunA} (h1 : FlagsLe a b) (h2 : FlagsLe b c) : FlagsLe a c :=
  ⟨fun h => h1.1 (h2.1 h), fun h => h1.2 (h2.2 h)⟩

theorem att_rules_mono {α : Type} (cx : PartCtx α) (aerr : Expr → Bool) (rs : List RuleA) (nested outerPass : Bool)
    (start k : Nat) (m : α) (passSeen : Bool) (run : RunA) :
    RunLe run (evalRulesA cx aerr nested outerPass start k m rs passSeen run).2 :=
  (att_run_mono cx aerr (sizeOf rs + 1)).1 rs (Nat.lt_succ_self _) _ _ _ _ _ _ _

theorem att_acts_mono {α : Type} (cx : PartCtx α) (aerr : Expr → Bool) (as : List ActA) (hasPass : Bool)
    (k : Nat) (m : α) (run : RunA) : RunLe run (evalActsA cx aerr hasPass k m as run).2 :=
  (att_run_mono cx aerr (sizeOf as + 1)).2 as (Nat.lt_succ_self _) _ _ _ _

theorem att_flags_acts_rule {α : Type} (cx : PartCtx α) (aerr : Expr → Bool) (nested outerPass : Bool) (start k : Nat)
    (m : α) (lno : Nat) (c : Expr) (as : List ActA) (ctl : Ctl) (rest : List RuleA) (passSeen : Bool) (run : RunA)
    (hcv : condValA cx c k m = .match) :
    FlagsLe (evalActsA cx aerr (outerPass || passSeen) k m as run).2
      (evalRulesA cx aerr nested outerPass start k m (.acts lno c as ctl :: rest) passSeen run).2 := by
  rw [evalRulesA]
  simp only [hcv]
  rcases evalActsA cx aerr (outerPass || passSeen) k m as run with ⟨b, run1⟩
  rcases b with _ | b
  · exact ⟨id, id⟩
  · cases b
    · dsimp only
      refine FlagsLe.trans ?_ (att_rules_mono cx aerr rest _ _ _ _ _ _ _).flags
      exact ⟨id, fun h => by simp only [Bool.or_eq_false_iff] at h; exact h.1⟩
    · cases ctl with
      | pass => exact (att_rules_mono cx aerr rest _ _ _ _ _ _ _).flags
      | brk => exact ⟨fun h => by simp only [Bool.or_eq_false_iff] at h; exact h.1, id⟩
      | none => exact ⟨id, id⟩

theorem att_flags_blk_rule {α : Type} (cx : PartCtx α) (aerr : Expr → Bool) (nested outerPass : Bool) (start k : Nat)
    (m : α) (lno : Nat) (c : Expr) (rs' : List RuleA) (rest : List RuleA) (passSeen : Bool) (run : RunA)
    (hcv : condValA cx c k m = .match) :
    FlagsLe (evalRulesA cx aerr true (outerPass || passSeen) run.pend.length k m rs' false run).2
      (evalRulesA cx aerr nested outerPass start k m (.blk lno c rs' :: rest) passSeen run).2 := by
  rw [evalRulesA]
  simp only [hcv]
  rcases evalRulesA cx aerr true (outerPass || passSeen) run.pend.length k m rs' false run with ⟨b, run1⟩
  cases b with
  | err => exact ⟨id, id⟩
  | matched => exact ⟨id, id⟩
  | «nomatch» => exact (att_rules_mono cx aerr rest _ _ _ _ _ _ _).flags
  | broke => exact (att_rules_mono cx aerr rest _ _ _ _ _ _ _).flags

theorem att_flags_part {α : Type} (F : Nat → α → RunA → BRes × RunA) (hF : ∀ i q r, RunLe r (F i q r).2)
    (i : Nat) (q : α) (qs : List α) (any : Bool) (run : RunA) :
    FlagsLe (F i q run).2 (forParts F i (q :: qs) any run).2 := by
  simp only [forParts]
  rcases F i q run with ⟨b, run1⟩
  cases b with
  | err => exact ⟨id, id⟩
  | matched => exact (att_forParts_mono F hF qs _ _ _).flags
  | «nomatch» => exact (att_forParts_mono F hF qs _ _ _).flags
  | broke => exact (att_forParts_mono F hF qs _ _ _).flags

/-! ## post-conditions -/

/-- What the induction establishes between the outcome of `evalRulesA` on the rules of a block
and the evaluator's result for that block. -/
def PostA (L : Nat) (od : Bool) (f : MFlags) (nested outerPass : Bool) (o : BRes × RunA) (r : Tri × St) : Prop :=
  match o.1 with
  | .err => r.1 = .error
  | .matched => r.1 = .match ∧ RelA L r.2.ml o.2.pend false ∧ SeenInv od f r.2 ∧ o.2.pend ≠ []
  | _ => r.1 = .nomatch ∧ (nested = true → RelA L r.2.ml o.2.pend outerPass ∧ SeenInv od f r.2)

def att_orStep (env : Env) (root : Msg) (k : Nat) (m : Msg) (xs : List Expr) (r : Tri × St) : Tri × St :=
  match r with
  | (.nomatch, st1) => att_evalOrList env root k m xs st1
  | other => other

theorem att_evalOrList_cons (env : Env) (root : Msg) (k : Nat) (m : Msg) (x : Expr) (xs : List Expr) (st : St) :
    att_evalOrList env root k m (x :: xs) st = att_orStep env root k m xs (eval env root x k m st) := by
  rfl

theorem att_blockWrap_orStep_error (env : Env) (root : Msg) (k : Nat) (m : Msg) (xs : List Expr) {r : Tri × St}
    (h : r.1 = .error) : (blockWrap (att_orStep env root k m xs r)).1 = .error := by
  rcases r with ⟨t, s⟩
  simp only at h
  subst h
  rfl

/-- The action list `es` of a rule (followed by `rest` in the AND chain) against `evalActsA`. -/
def ActsPost (env : Env) (root : Msg) (L : Nat) (od : Bool) (f : MFlags) (k : Nat) (m : Msg) (hasPass : Bool)
    (as : List ActA) (es rest : List Expr) (st : St) (o : Option Bool × RunA) : Prop :=
  match o.1 with
  | none => (att_evalAndList env root k m (es ++ rest) st).1 = .error
  | some true => ∃ st', att_evalAndList env root k m (es ++ rest) st = att_evalAndList env root k m rest st' ∧
      RelA L st'.ml o.2.pend hasPass ∧ SeenInv od f st' ∧ (as ≠ [] → o.2.pend ≠ [])
  | some false => ∃ st', att_evalAndList env root k m (es ++ rest) st = (.nomatch, st') ∧
      RelA L st'.ml o.2.pend hasPass ∧ SeenInv od f st'

/-- The loop of `expr_eval_attachment_block` against `forParts`. -/
def PartsPost (env : Env) (root : Msg) (L : Nat) (od : Bool) (f : MFlags) (blk : Expr) (k : Nat)
    (ps : List Msg) (i : Nat) (ev : Tri) (st : St) (o : Option Bool × RunA) : Prop :=
  match o.1 with
  | none => (eval.loopB env root blk k ps i ev st).1 = .error
  | some b => ∃ st', eval.loopB env root blk k ps i ev st = ((if b then .match else .nomatch), st') ∧
      RelA L st'.ml o.2.pend false ∧ SeenInv od f st' ∧ (b = true → o.2.pend ≠ [])

theorem att_pend_ne_of_le {a b : RunA} (h : RunLe a b) (ha : a.pend ≠ []) : b.pend ≠ [] := by
  obtain ⟨⟨ext, he⟩, _⟩ := h
  rw [he]
  intro hn
  exact ha (List.append_eq_nil_iff.1 hn).1

/-! ## the parts of an attachment block -/

theorem att_parts_sim (env : Env) (root : Msg) (L : Nat) (od : Bool) (f : MFlags) (blk : Expr) (k : Nat)
    (F : Nat → Msg → RunA → BRes × RunA)
    (hF : ∀ (i : Nat) (q : Msg) (run : RunA) (st : St), RelA L st.ml run.pend false → SeenInv od f st →
      (F i q run).2.crosses = false → (F i q run).2.leaks = false →
      PostA L od f true false (F i q run) (eval env root blk (partIndex k i) q st))
    (hmono : ∀ i q run, RunLe run (F i q run).2) :
    ∀ (ps : List Msg) (i : Nat) (any : Bool) (run : RunA) (st : St),
      RelA L st.ml run.pend false → SeenInv od f st → (any = true → run.pend ≠ []) →
      (forParts F i ps any run).2.crosses = false → (forParts F i ps any run).2.leaks = false →
      PartsPost env root L od f blk k ps i (if any then .match else .nomatch) st (forParts F i ps any run) := by
  intro ps
  induction ps with
  | nil =>
    intro i any run st hR hs hany _ _
    simp only [forParts, PartsPost, eval.loopB]
    exact ⟨st, rfl, hR, hs, hany⟩
  | cons q qs ih =>
    intro i any run st hR hs hany hcr hlk
    have hfl := att_flags_part F hmono i q qs any run
    have hpost := hF i q run st hR hs (hfl.1 hcr) (hfl.2 hlk)
    have hm1 := hmono i q run
    simp only [forParts] at hcr hlk ⊢
    unfold PartsPost
    simp only [eval.loopB, partIndex_beq]
    rcases hr : F i q run with ⟨b, run1⟩
    rw [hr] at hpost hm1
    simp only [hr] at hcr hlk ⊢
    rcases he : eval env root blk (partIndex k i) q st with ⟨t, s⟩
    rw [he] at hpost
    cases b with
    | err =>
      have : t = .error := hpost
      subst this
      rfl
    | matched =>
      obtain ⟨h1, h2, h3, h4⟩ := hpost
      simp only at h1 h2 h3 h4
      subst h1
      have := ih (i + 1) true run1 s h2 h3 (fun _ => h4) hcr hlk
      simpa [PartsPost] using this
    | «nomatch» =>
      obtain ⟨h1, h2'⟩ := hpost
      obtain ⟨h2, h3⟩ := h2' rfl
      simp only at h1 h2 h3
      subst h1
      have := ih (i + 1) any run1 s h2 h3 (fun ha => att_pend_ne_of_le hm1 (hany ha)) hcr hlk
      simpa [PartsPost] using this
    | broke =>
      obtain ⟨h1, h2'⟩ := hpost
      obtain ⟨h2, h3⟩ := h2' rfl
      simp only at h1 h2 h3
      subst h1
      have := ih (i + 1) any run1 s h2 h3 (fun ha => att_pend_ne_of_le hm1 (hany ha)) hcr hlk
      simpa [PartsPost] using this

theorem att_eval_attBlock (env : Env) (root : Msg) (lno : Nat) (blk : Expr) (k : Nat) (m : Msg) (st : St) :
    eval env root (.attBlock lno blk) k m st =
      match getAttachments m with
      | none => (.error, st)
      | some ps => eval.loopB env root blk k ps 0 .nomatch st := by
  simp only [eval] <;> rfl

theorem att_flags_att_act {α : Type} (cx : PartCtx α) (aerr : Expr → Bool) (hasPass : Bool) (k : Nat) (m : α)
    (lno : Nat) (rs : List RuleA) (rest : List ActA) (run : RunA) (ps : List α) (hp : cx.parts m = some ps) :
    FlagsLe { run with crosses := run.crosses || (hasPass && !ps.isEmpty) }
      (forParts (fun i q r => evalRulesA cx aerr true hasPass r.pend.length (partIndex k i) q rs false r) 0 ps false
        { run with crosses := run.crosses || (hasPass && !ps.isEmpty) }).2 ∧
    FlagsLe
      (forParts (fun i q r => evalRulesA cx aerr true hasPass r.pend.length (partIndex k i) q rs false r) 0 ps false
        { run with crosses := run.crosses || (hasPass && !ps.isEmpty) }).2
      (evalActsA cx aerr hasPass k m (.att lno rs :: rest) run).2 := by
  refine ⟨(att_forParts_mono _ (fun i q r => att_rules_mono cx aerr rs _ _ _ _ _ _ _) ps 0 false _).flags, ?_⟩
  rw [evalActsA]
  simp only [hp]
  rcases forParts (fun i q r => evalRulesA cx aerr true hasPass r.pend.length (partIndex k i) q rs false r) 0 ps false
    { run with crosses := run.crosses || (hasPass && !ps.isEmpty) } with ⟨b, run1⟩
  rcases b with _ | b
  · exact ⟨id, id⟩
  · cases b
    · exact ⟨id, id⟩
    · exact (att_acts_mono cx aerr rest _ _ _ _).flags

theorem att_flags_acts_prefix {α : Type} (cx : PartCtx α) (aerr : Expr → Bool) (hasPass : Bool) (k : Nat) (m : α)
    (a b : List ActA) (run : RunA) :
    FlagsLe (evalActsA cx aerr hasPass k m a run).2 (evalActsA cx aerr hasPass k m (a ++ b) run).2 := by
  rw [att_evalActsA_append]
  rcases evalActsA cx aerr hasPass k m a run with ⟨o, run1⟩
  rcases o with _ | o
  · exact ⟨id, id⟩
  · cases o
    · exact ⟨id, id⟩
    · exact (att_acts_mono cx aerr b _ _ _ _).flags

theorem att_evalActsA_nil {α : Type} (cx : PartCtx α) (aerr : Expr → Bool) (hasPass : Bool) (k : Nat) (m : α) (run : RunA) :
    evalActsA cx aerr hasPass k m [] run = (some true, run) := by
  rw [evalActsA]

/-! ## what stands after a `break` in the same action list

`expr_eval_break` returns MATCH: the AND chain goes on.  The plain actions that follow are appended
behind the BREAK entry (which stays in the list until `expr_eval_block` removes it), a further
`break` appends one more BREAK entry. -/

theorem att_after_brk {env : Env} {L : Nat} (hctx : PCtx env L) (root : Msg) {od : Bool} {f : MFlags} (k : Nat) (m : Msg) :
    ∀ (more pl : List Expr), AfterBrk more pl → (∀ x ∈ more, okA L od k x) →
    ∀ (st : St) (pend : List (Nat × Expr)) (hp : Bool), RelG L st.ml pend hp true → SeenInv od f st →
    (pl.any actErr = true ∧ (att_evalAndList env root k m more st).1 = .error) ∨
    (pl.any actErr = false ∧ ∃ st', att_evalAndList env root k m more st = (.match, st') ∧
      RelG L st'.ml (pend ++ pl.map fun a => (k, a)) hp true ∧ SeenInv od f st') := by
  intro more
  induction more with
  | nil =>
    intro pl hab _ st pend hp hR hs
    obtain ⟨rfl, _⟩ := hab
    right
    exact ⟨rfl, st, rfl, by simpa using hR, hs⟩
  | cons x xs ih =>
    intro pl hab hok st pend hp hR hs
    obtain ⟨hpl, hall⟩ := hab
    have hokxs : ∀ y ∈ xs, okA L od k y := fun y hy => hok y (by simp [hy])
    have hallxs : ∀ y ∈ xs, isActionExpr y = true ∨ ∃ l, y = .brk l := fun y hy => hall y (by simp [hy])
    rcases hall x (by simp) with hact | ⟨l, rfl⟩
    · -- a plain action behind the BREAK entry
      have hpl' : pl = x :: xs.filter isActionExpr := by rw [hpl]; simp [List.filter, hact]
      subst hpl'
      rcases att_act_eval hctx root x k m hact (hok x (by simp)) st pend hp hR hs with ⟨he, hr⟩ | ⟨he, st1, hr, hR1, hs1⟩
      · left
        refine ⟨by simp [he], ?_⟩
        simp only [att_evalAndList]
        rcases h : eval env root x k m st with ⟨t, s⟩
        rw [h] at hr
        simp only at hr
        subst hr
        rfl
      · simp only [att_evalAndList, hr, List.any_cons, he, Bool.false_or]
        rcases ih (xs.filter isActionExpr) ⟨rfl, hallxs⟩ hokxs st1 (pend ++ [(k, x)]) hp hR1 hs1 with
          ⟨h1, h2⟩ | ⟨h1, st', h2, h3, h4⟩
        · left; exact ⟨h1, h2⟩
        · right; exact ⟨h1, st', h2, by simpa using h3, h4⟩
    · -- one more `break`
      have hpl' : pl = xs.filter isActionExpr := by rw [hpl]; simp [List.filter, isActionExpr]
      subst hpl'
      simp only [att_evalAndList, att_eval_brk]
      exact ih (xs.filter isActionExpr) ⟨rfl, hallxs⟩ hokxs _ pend hp (hR.marker_brk hctx.hL l k) hs

/-! ## the simulation -/

theorem att_sim {env : Env} {L : Nat} (hctx : PCtx env L) (root : Msg) (f : MFlags) (od : Bool) (n : Nat) :
    (∀ (rs : List RuleA), sizeOf rs < n → ∀ (es : List Expr), att_parseAllA es = some rs →
      ∀ (k : Nat) (m : Msg), (∀ x ∈ es, okA L od k x) → (∀ x ∈ es, ctlPlaced x = true) →
      ∀ (nested outerPass : Bool) (start : Nat) (passSeen : Bool) (run : RunA) (st : St),
      (nested = false → outerPass = false ∧ start = 0) →
      RelA L st.ml run.pend (outerPass || passSeen) → SeenInv od f st →
      (evalRulesA (att_ctx env root f) actErr nested outerPass start k m rs passSeen run).2.crosses = false →
      (evalRulesA (att_ctx env root f) actErr nested outerPass start k m rs passSeen run).2.leaks = false →
      PostA L od f nested outerPass (evalRulesA (att_ctx env root f) actErr nested outerPass start k m rs passSeen run)
        (blockWrap (att_evalOrList env root k m es st))) ∧
    (∀ (as : List ActA), sizeOf as < n → ∀ (es : List Expr), att_parseActs es = some as →
      ∀ (k : Nat) (m : Msg), (∀ x ∈ es, okA L od k x) → (∀ x ∈ es, ctlPlaced x = true) →
      ∀ (hasPass : Bool) (run : RunA) (st : St), RelA L st.ml run.pend hasPass → SeenInv od f st →
      (evalActsA (att_ctx env root f) actErr hasPass k m as run).2.crosses = false →
      (evalActsA (att_ctx env root f) actErr hasPass k m as run).2.leaks = false →
      ∀ rest : List Expr, ActsPost env root L od f k m hasPass as es rest st
        (evalActsA (att_ctx env root f) actErr hasPass k m as run)) := by
  induction n with
  | zero => exact ⟨fun rs h => by omega, fun as h => by omega⟩
  | succ n ih =>
    obtain ⟨ihR, ihA⟩ := ih
    constructor
    · -- the rules of a block
      intro rs hsz es hpa k m hok hpl nested outerPass start passSeen run st hroot hR hs hcr hlk
      cases rs with
      | nil =>
        have hes : es = [] := by
          cases es with
          | nil => rfl
          | cons x xs =>
            simp only [att_parseAllA] at hpa
            cases h1 : parseRuleAW x <;> cases h2 : att_parseAllA xs <;> simp [h1, h2] at hpa
        subst hes
        rw [evalRulesA] at hcr ⊢
        simp only [att_evalOrList]
        simp only [Bool.or_eq_false_iff] at hcr
        have hop : outerPass = false := by
          cases nested
          · exact (hroot rfl).1
          · cases outerPass
            · rfl
            · simp at hcr
        subst hop
        cases passSeen
        · have hR' : RelA L st.ml run.pend false := by simpa using hR
          rw [att_blockWrap_plain hR' _ (by decide)]
          exact ⟨rfl, fun _ => ⟨hR', hs⟩⟩
        · have hR' : RelA L st.ml run.pend true := by simpa using hR
          rw [att_blockWrap_pass hR' _ (by decide)]
          have hlen : run.pend.length > 0 ↔ run.pend ≠ [] := List.length_pos_iff
          have hown : run.pend.length - start > 0 ↔ run.pend ≠ [] := by
            rw [← hlen]
            cases nested
            · have := (hroot rfl).2; omega
            · have h2 := hcr.2
              simp only [Bool.true_and, Bool.false_or, Bool.and_eq_false_iff, beq_eq_false_iff_ne,
                decide_eq_false_iff_not] at h2
              omega
          by_cases hpe : run.pend = []
          · have h0 : ¬ (run.pend.length - start > 0) := fun h => (hown.1 h) hpe
            have hcond : (true && decide (run.pend.length - start > 0)) = false := by simp [h0]
            simp only [hcond, Bool.false_eq_true, if_false]
            simp only [hpe, if_true]
            refine ⟨rfl, fun _ => ⟨?_, hs⟩⟩
            have := hR'.remove_pass
            rw [hpe] at this
            exact this
          · have h0 : run.pend.length - start > 0 := hown.2 hpe
            have hcond : (true && decide (run.pend.length - start > 0)) = true := by simp [h0]
            simp only [hcond, if_true]
            simp only [hpe, if_false]
            exact ⟨rfl, hR'.remove_pass, hs, hpe⟩
      | cons r rest =>
        have hrest : sizeOf rest < n := by
          simp only [List.cons.sizeOf_spec] at hsz; omega
        cases es with
        | nil => simp [att_parseAllA] at hpa
        | cons x xs =>
          simp only [att_parseAllA] at hpa
          cases hx : parseRuleAW x with
          | none => simp [hx] at hpa
          | some r' =>
            cases hxs : att_parseAllA xs with
            | none => simp [hx, hxs] at hpa
            | some rest' =>
              simp only [hx, hxs, Option.some.injEq, List.cons.injEq] at hpa
              obtain ⟨hr1, hr2⟩ := hpa
              subst hr1 hr2
              have hokx := hok x (by simp)
              have hokxs : ∀ y ∈ xs, okA L od k y := fun y hy => hok y (by simp [hy])
              have hplx := hpl x (by simp)
              have hplxs : ∀ y ∈ xs, ctlPlaced y = true := fun y hy => hpl y (by simp [hy])
              rw [att_evalOrList_cons]
              rcases att_parseRuleA_spec hx hplx with ⟨lno, c, l, e, rs', rfl, rfl, hc, hpr⟩ |
                ⟨lno, c, rhs, as, ctl, es', tail, as0, rfl, rfl, hc, hchain, hpacts, pl, rfl, hshape⟩
              · -- a rule with a nested block
                obtain ⟨hokc, hokb⟩ := okA_mtch hokx
                have hoke := okA_block hokb
                obtain ⟨st1, hR1, hs1, hev⟩ := att_rule_cond hctx root f lno c (.block l e) k m hc hokc.1 hokc.2.2.2.1
                  st hR hs
                rw [hev]
                have hrs' : sizeOf rs' < n := by
                  simp only [List.cons.sizeOf_spec, RuleA.blk.sizeOf_spec] at hsz; omega
                cases hcv : condValA (att_ctx env root f) c k m with
                | error =>
                  rw [evalRulesA]
                  simp only [hcv]
                  exact att_blockWrap_orStep_error env root k m xs rfl
                | «nomatch» =>
                  rw [evalRulesA] at hcr hlk ⊢
                  simp only [hcv] at hcr hlk ⊢
                  simp only [att_orStep]
                  exact ihR rest' hrest xs hxs k m hokxs hplxs _ _ _ _ _ st1 hroot hR1 hs1 hcr hlk
                | «match» =>
                  have hfl := att_flags_blk_rule (att_ctx env root f) actErr nested outerPass start k m lno c rs' rest'
                    passSeen run hcv
                  have hR1' : RelA L st1.ml run.pend ((outerPass || passSeen) || false) := by simpa using hR1
                  have hpost := ihR rs' hrs' (orChain e) (att_parseRulesA_orChain e rs' hpr) k m (att_okA_orChain e hoke)
                    (ctlPlaced_orChain e (by simpa [ctlPlaced] using ctlPlaced_mtch_rhs hplx))
                    true (outerPass || passSeen) run.pend.length false run st1 (by intro h; cases h) hR1' hs1
                    (hfl.1 hcr) (hfl.2 hlk)
                  rw [evalRulesA] at hcr hlk ⊢
                  simp only [hcv] at hcr hlk ⊢
                  rw [eval_block, att_eval_orChain]
                  rcases hin : evalRulesA (att_ctx env root f) actErr true (outerPass || passSeen) run.pend.length k m rs'
                    false run with ⟨b, run1⟩
                  rw [hin] at hpost
                  simp only [hin] at hcr hlk ⊢
                  generalize blockWrap (att_evalOrList env root k m (orChain e) st1) = r' at hpost
                  rcases r' with ⟨t, s⟩
                  cases b with
                  | err => exact att_blockWrap_orStep_error env root k m xs hpost
                  | matched =>
                    obtain ⟨h1, h2, h4, h5⟩ := hpost
                    simp only at h1 h2 h4 h5
                    subst h1
                    simp only [att_orStep]
                    rw [att_blockWrap_plain h2 _ (by decide)]
                    exact ⟨rfl, h2, h4, h5⟩
                  | «nomatch» =>
                    obtain ⟨h1, h2⟩ := hpost
                    have h3 := h2 rfl
                    simp only at h1 h3
                    subst h1
                    simp only [att_orStep]
                    exact ihR rest' hrest xs hxs k m hokxs hplxs nested outerPass start passSeen run1 s hroot h3.1 h3.2 hcr hlk
                  | broke =>
                    obtain ⟨h1, h2⟩ := hpost
                    have h3 := h2 rfl
                    simp only at h1 h3
                    subst h1
                    simp only [att_orStep]
                    exact ihR rest' hrest xs hxs k m hokxs hplxs nested outerPass start passSeen run1 s hroot h3.1 h3.2 hcr hlk
              · -- a rule with actions
                obtain ⟨hokc, hokrhs⟩ := okA_mtch hokx
                obtain ⟨st1, hR1, hs1, hev⟩ := att_rule_cond hctx root f lno c rhs k m hc hokc.1 hokc.2.2.2.1 st hR hs
                rw [hev]
                have has : sizeOf (as0 ++ pl.map ActA.plain) < n := by
                  simp only [List.cons.sizeOf_spec, RuleA.acts.sizeOf_spec] at hsz; omega
                cases hcv : condValA (att_ctx env root f) c k m with
                | error =>
                  rw [evalRulesA]
                  simp only [hcv]
                  exact att_blockWrap_orStep_error env root k m xs rfl
                | «nomatch» =>
                  rw [evalRulesA] at hcr hlk ⊢
                  simp only [hcv] at hcr hlk ⊢
                  simp only [att_orStep]
                  exact ihR rest' hrest xs hxs k m hokxs hplxs _ _ _ _ _ st1 hroot hR1 hs1 hcr hlk
                | «match» =>
                  have hfl := att_flags_acts_rule (att_ctx env root f) actErr nested outerPass start k m lno c
                    (as0 ++ pl.map ActA.plain) ctl rest' passSeen run hcv
                  have hflp := att_flags_acts_prefix (att_ctx env root f) actErr (outerPass || passSeen) k m as0
                    (pl.map ActA.plain) run
                  have has0 : sizeOf as0 < n := Nat.lt_of_le_of_lt (att_sizeOf_append_left as0 _) has
                  have hokall := att_okA_andChain rhs hokrhs
                  rw [hchain] at hokall
                  have hokes : ∀ y ∈ es', okA L od k y := fun y hy => hokall y (by simp [hy])
                  have hplall := ctlPlaced_andChain rhs (ctlPlaced_mtch_rhs hplx)
                  rw [hchain] at hplall
                  have hples : ∀ y ∈ es', ctlPlaced y = true := fun y hy => hplall y (by simp [hy])
                  have hA := ihA as0 has0 es' hpacts k m hokes hples (outerPass || passSeen) run st1 hR1 hs1
                    (hflp.1 (hfl.1 hcr)) (hflp.2 (hfl.2 hlk)) tail
                  have hmA := att_acts_mono (att_ctx env root f) actErr as0 (outerPass || passSeen) k m run
                  rw [evalRulesA] at hcr hlk ⊢
                  simp only [hcv] at hcr hlk ⊢
                  rw [att_eval_andChain, hchain]
                  rw [att_evalActsA_append] at hcr hlk ⊢
                  rcases ha : evalActsA (att_ctx env root f) actErr (outerPass || passSeen) k m as0 run with ⟨b, run1⟩
                  rw [ha] at hA hmA
                  unfold ActsPost at hA
                  rcases b with _ | b
                  · simp only [ha] at hcr hlk ⊢
                    exact att_blockWrap_orStep_error env root k m xs hA
                  · cases b
                    · -- an attachment block of the rule matched on no part
                      simp only [ha] at hcr hlk ⊢
                      obtain ⟨st', h2, h3, hs'⟩ := hA
                      rw [h2]
                      simp only [att_orStep]
                      have hm := (att_rules_mono (att_ctx env root f) actErr rest' nested outerPass start k m passSeen
                        { run1 with pend := run.pend,
                                    leaks := run1.leaks || decide (run1.pend.length > run.pend.length) }).flags
                      have hl1 := hm.2 hlk
                      simp only [Bool.or_eq_false_iff, decide_eq_false_iff_not] at hl1
                      obtain ⟨ext, hext⟩ := hmA.1
                      have hpe : run1.pend = run.pend := by
                        have : ext = [] := by
                          have h5 := hl1.2
                          simp only at hext
                          rw [hext, List.length_append] at h5
                          exact List.eq_nil_of_length_eq_zero (by omega)
                        simp only at hext
                        rw [hext, this, List.append_nil]
                      simp only at h3
                      rw [hpe] at h3
                      exact ihR rest' hrest xs hxs k m hokxs hplxs nested outerPass start passSeen _ st' hroot h3 hs' hcr hlk
                    · obtain ⟨st', h2, h3, hs', hne⟩ := hA
                      rw [h2]
                      rcases hshape with ⟨rfl, rfl, rfl, hasne⟩ | ⟨rfl, rfl, lp, ps, rfl⟩ | ⟨rfl, lb, more, rfl, hab⟩
                      · -- no control action
                        simp only [ha, List.map_nil, att_evalActsA_nil] at hcr hlk ⊢
                        simp only [att_evalAndList, att_orStep]
                        obtain ⟨b1, b2, b3⟩ := att_blockWrap_matched h3 (hne hasne)
                        exact ⟨b1, b2, fun ho => by rw [b3]; exact hs' ho, hne hasne⟩
                      · -- `pass`: the marker is appended, the rest of the chain is not looked at
                        simp only [ha, List.map_nil, att_evalActsA_nil] at hcr hlk ⊢
                        simp only [att_evalAndList, att_eval_pass, att_orStep]
                        have hR2 := h3.marker_pass hctx.hL lp k
                        exact ihR rest' hrest xs hxs k m hokxs hplxs nested outerPass start true _ _ hroot
                          (by simpa using hR2) hs' hcr hlk
                      · -- `break`: the marker is appended, the plain actions behind it are collected
                        have hokmore : ∀ y ∈ more, okA L od k y := fun y hy => hokall y (by simp [hy])
                        have hR2 := h3.marker_brk hctx.hL lb k
                        obtain ⟨a1, a2⟩ := att_evalActsA_plain (att_ctx env root f) actErr (outerPass || passSeen) k m pl run1
                        simp only [att_evalAndList, att_eval_brk]
                        rcases att_after_brk hctx root k m more pl hab hokmore
                            { st' with ml := st'.ml ++ [{ ty := .brk, lno := lb, part := k }] } run1.pend
                            (outerPass || passSeen) hR2 hs' with ⟨e1, e2⟩ | ⟨e1, st'', e2, e3, e4⟩
                        · obtain ⟨r, g1, _, _⟩ := a1 e1
                          simp only [g1]
                          exact att_blockWrap_orStep_error env root k m xs e2
                        · simp only [ha, a2 e1] at hcr hlk ⊢
                          rw [e2]
                          simp only [att_orStep]
                          rw [att_blockWrap_brk e3 _ (by decide)]
                          refine ⟨rfl, fun hn => ?_⟩
                          subst hn
                          simp only [Bool.true_and, Bool.or_eq_false_iff] at hcr
                          have hps : passSeen = false := hcr.2
                          subst hps
                          exact ⟨by simpa using e3.remove_brk, e4⟩
    · -- the actions of a rule
      intro as hsz es hpa k m hok hpl hasPass run st hR hs hcr hlk rest
      cases as with
      | nil =>
        have hes : es = [] := by
          cases es with
          | nil => rfl
          | cons x xs =>
            simp only [att_parseActs] at hpa
            cases h1 : parseActAW x <;> cases h2 : att_parseActs xs <;> simp [h1, h2] at hpa
        subst hes
        rw [evalActsA]
        exact ⟨st, rfl, hR, hs, fun h => absurd rfl h⟩
      | cons a as' =>
        have has' : sizeOf as' < n := by
          simp only [List.cons.sizeOf_spec] at hsz; omega
        cases es with
        | nil => simp [att_parseActs] at hpa
        | cons x xs =>
          simp only [att_parseActs] at hpa
          cases hx : parseActAW x with
          | none => simp [hx] at hpa
          | some a' =>
            cases hxs : att_parseActs xs with
            | none => simp [hx, hxs] at hpa
            | some as'' =>
              simp only [hx, hxs, Option.some.injEq, List.cons.injEq] at hpa
              obtain ⟨hr1, hr2⟩ := hpa
              subst hr1 hr2
              have hokx := hok x (by simp)
              have hokxs : ∀ y ∈ xs, okA L od k y := fun y hy => hok y (by simp [hy])
              have hplx := hpl x (by simp)
              have hplxs : ∀ y ∈ xs, ctlPlaced y = true := fun y hy => hpl y (by simp [hy])
              rcases att_parseActA_spec hx with ⟨l, l', e, rs, rfl, rfl, hprs⟩ | ⟨rfl, hact⟩
              · -- an attachment block
                have hrs : sizeOf rs < n := by
                  simp only [List.cons.sizeOf_spec, ActA.att.sizeOf_spec] at hsz; omega
                have hparts : (att_ctx env root f).parts m = getAttachments m := rfl
                rcases hg : getAttachments m with _ | ps
                · rw [evalActsA]
                  simp only [hparts, hg]
                  unfold ActsPost
                  simp only [List.cons_append, att_evalAndList, att_eval_attBlock, hg]
                · have hfl := att_flags_att_act (att_ctx env root f) actErr hasPass k m l rs as'' run ps
                    (by rw [hparts, hg])
                  have hc0 := hfl.1.1 (hfl.2.1 hcr)
                  have hcP := hfl.2.1 hcr
                  have hlP := hfl.2.2 hlk
                  rw [evalActsA] at hcr hlk ⊢
                  simp only [hparts, hg] at hcr hlk ⊢
                  by_cases hps : ps = []
                  · subst hps
                    simp only [forParts]
                    unfold ActsPost
                    simp only [List.cons_append, att_evalAndList, att_eval_attBlock, hg, eval.loopB]
                    exact ⟨st, rfl, hR, hs⟩
                  · have hemp : ps.isEmpty = false := by
                      cases ps with
                      | nil => exact absurd rfl hps
                      | cons _ _ => rfl
                    simp only [hemp, Bool.not_false, Bool.and_true, Bool.or_eq_false_iff] at hc0
                    have hhp : hasPass = false := hc0.2
                    subst hhp
                    have hP := att_parts_sim env root L od f (.block l' e) k
                      (fun i q r => evalRulesA (att_ctx env root f) actErr true false r.pend.length (partIndex k i) q rs false r)
                      (fun i q run' st' hR' hs' hc' hl' => by
                        rw [eval_block, att_eval_orChain]
                        exact ihR rs hrs (orChain e) (att_parseRulesA_orChain e rs hprs) (partIndex k i) q
                          (att_okA_orChain e (okA_block (okA_attBlock hokx (partIndex_ne_zero k i))))
                          (ctlPlaced_orChain e (by simpa [ctlPlaced] using hplx))
                          true false run'.pend.length false run' st' (by intro h; cases h) (by simpa using hR') hs' hc' hl')
                      (fun i q r => att_rules_mono (att_ctx env root f) actErr rs _ _ _ _ _ _ _)
                      ps 0 false { run with crosses := run.crosses || (false && !ps.isEmpty) } st hR hs
                      (fun h => by cases h) hcP hlP
                    rcases hf : forParts
                      (fun i q r => evalRulesA (att_ctx env root f) actErr true false r.pend.length (partIndex k i) q rs false r)
                      0 ps false { run with crosses := run.crosses || (false && !ps.isEmpty) } with ⟨b, run1⟩
                    rw [hf] at hP
                    simp only [hf] at hcr hlk ⊢
                    unfold PartsPost at hP
                    simp only [Bool.false_eq_true, if_false] at hP
                    rcases b with _ | b
                    · unfold ActsPost
                      simp only [List.cons_append, att_evalAndList, att_eval_attBlock, hg]
                      rcases hl : eval.loopB env root (.block l' e) k ps 0 .nomatch st with ⟨t, s⟩
                      rw [hl] at hP
                      simp only at hP
                      subst hP
                      rfl
                    · cases b
                      · obtain ⟨st', h2, h3, hs'⟩ := hP
                        unfold ActsPost
                        simp only [List.cons_append, att_evalAndList, att_eval_attBlock, hg, h2]
                        exact ⟨st', rfl, h3, hs'.1⟩
                      · obtain ⟨st', h2, h3, hs', hne1⟩ := hP
                        rw [if_pos rfl] at h2
                        dsimp only at hcr hlk ⊢
                        have hA := ihA as'' has' xs hxs k m hokxs hplxs false run1 st' h3 hs' hcr hlk rest
                        have hm2 := att_acts_mono (att_ctx env root f) actErr as'' false k m run1
                        have hstep : att_evalAndList env root k m ((.attBlock l (.block l' e) :: xs) ++ rest) st =
                            att_evalAndList env root k m (xs ++ rest) st' := by
                          simp only [List.cons_append, att_evalAndList, att_eval_attBlock, hg, h2]
                        rcases ho : evalActsA (att_ctx env root f) actErr false k m as'' run1 with ⟨b2, run2⟩
                        rw [ho] at hA hm2
                        unfold ActsPost at hA ⊢
                        rw [hstep]
                        rcases b2 with _ | b2
                        · exact hA
                        · cases b2
                          · exact hA
                          · obtain ⟨st2, g2, g3, g4, _⟩ := hA
                            exact ⟨st2, g2, g3, g4, fun _ => att_pend_ne_of_le hm2 (hne1 rfl)⟩
              · -- a plain action
                rw [evalActsA] at hcr hlk ⊢
                rcases att_act_eval hctx root x k m hact hokx st run.pend hasPass hR hs with
                  ⟨he, hr⟩ | ⟨he, st1, hr, hR1, hs1⟩
                · simp only [he, if_true]
                  unfold ActsPost
                  simp only [List.cons_append, att_evalAndList]
                  rcases h : eval env root x k m st with ⟨t, s⟩
                  rw [h] at hr
                  simp only at hr
                  subst hr
                  rfl
                · simp only [he, Bool.false_eq_true, if_false] at hcr hlk ⊢
                  have hA := ihA as'' has' xs hxs k m hokxs hplxs hasPass { run with pend := run.pend ++ [(k, x)] } st1 hR1 hs1
                    hcr hlk rest
                  have hm2 := att_acts_mono (att_ctx env root f) actErr as'' hasPass k m
                    { run with pend := run.pend ++ [(k, x)] }
                  have hstep : att_evalAndList env root k m ((x :: xs) ++ rest) st =
                      att_evalAndList env root k m (xs ++ rest) st1 := by
                    simp only [List.cons_append, att_evalAndList, hr]
                  rcases ho : evalActsA (att_ctx env root f) actErr hasPass k m as''
                    { run with pend := run.pend ++ [(k, x)] } with ⟨b2, run2⟩
                  rw [ho] at hA hm2
                  unfold ActsPost at hA ⊢
                  rw [hstep]
                  rcases b2 with _ | b2
                  · exact hA
                  · cases b2
                    · exact hA
                    · obtain ⟨st2, g2, g3, g4, _⟩ := hA
                      exact ⟨st2, g2, g3, g4, fun _ => att_pend_ne_of_le hm2 (by simp)⟩

end Mdsort.Proofs
