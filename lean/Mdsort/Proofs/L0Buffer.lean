import Mdsort.Model.L0.Buffer
import Mdsort.Proofs.L0Basic

/-!
# libks/buffer.c at index level: every write inside the object, contents = the pieces appended

Invariant `WF`: the object has exactly `bf_siz` bytes and `bf_len <= bf_siz`.  Under it every operation returns
`.ok` (no `Fault.oob`), keeps the invariant, and appends its piece to `contents` (the first `bf_len` bytes).
-/

namespace Mdsort.L0
open Mdsort

namespace Buf

/-- `memcpy` into `[off, off + |s|)` inside the object: succeeds and changes exactly those bytes. -/
theorem writeAt_ok (s : Bytes) : ∀ (b : Buf) (off : Nat), off + s.length ≤ b.size →
    ∃ b', b.writeAt off s = .ok b' ∧
      b'.bytes.toList = b.bytes.toList.take off ++ s ++ b.bytes.toList.drop (off + s.length) := by
  induction s with
  | nil =>
    intro b off _
    refine ⟨b, rfl, ?_⟩
    simp
  | cons c cs ih =>
    intro b off h
    have h' : off + (cs.length + 1) ≤ b.size := by simpa using h
    have hl : off < b.size := by omega
    have hsz : (⟨b.bytes.setIfInBounds off c⟩ : Buf).size = b.size := by simp [size]
    obtain ⟨b', hw, hb'⟩ := ih ⟨b.bytes.setIfInBounds off c⟩ (off + 1) (by rw [hsz]; omega)
    refine ⟨b', ?_, ?_⟩
    · unfold writeAt
      rw [set_ok c hl]
      exact hw
    · rw [hb']
      have hl' : off < b.bytes.toList.length := by simpa [size] using hl
      simp only [Array.toList_setIfInBounds, List.length_cons]
      rw [List.take_set, List.drop_set]
      have e1 : List.take (off + 1) b.bytes.toList = List.take off b.bytes.toList ++ [b.bytes.toList[off]] := by
        rw [List.take_succ_eq_append_getElem hl']
      rw [e1]
      have e2 : (List.take off b.bytes.toList ++ [b.bytes.toList[off]]).set off c = List.take off b.bytes.toList ++ [c] := by
        rw [List.set_append]
        have hl2 : off < b.bytes.size := hl
        have : (List.take off b.bytes.toList).length = off := by simp; omega
        simp [this]
      rw [e2]
      have e3 : (if off < off + 1 + cs.length then List.drop (off + 1 + cs.length) b.bytes.toList
          else (List.drop (off + 1 + cs.length) b.bytes.toList).set (off - (off + 1 + cs.length)) c) =
          List.drop (off + (cs.length + 1)) b.bytes.toList := by
        have : off < off + 1 + cs.length := by omega
        simp only [this, if_true]
        congr 1
        omega
      rw [e3]
      simp

theorem writeAt_size {s : Bytes} {b b' : Buf} {off : Nat} (hw : b.writeAt off s = .ok b') (h : off + s.length ≤ b.size) :
    b'.size = b.size := by
  obtain ⟨b'', hw', hb⟩ := writeAt_ok s b off h
  rw [hw] at hw'
  cases hw'
  have := congrArg List.length hb
  simp only [List.length_append, List.length_take, List.length_drop, Array.length_toList] at this
  unfold size at h ⊢
  omega

end Buf

namespace LBuf

/-- `bf_ptr` points to an object of exactly `bf_siz` bytes, of which `bf_len` are in use. -/
structure WF (bf : LBuf) : Prop where
  size : bf.store.size = bf.cap
  le : bf.len ≤ bf.cap

theorem grow_ge (a n : Nat) (ha : 0 < a) : a ≤ grow a n ∧ n ≤ grow a n := by
  fun_induction grow a n with
  | case1 a h ih =>
    have := ih (by omega)
    omega
  | case2 a h => omega

theorem empty_wf : WF empty := ⟨rfl, Nat.le_refl _⟩

theorem realloc_size (b : Buf) (n : Nat) : (b.realloc n).size = n := by
  unfold Buf.realloc Buf.size
  simp
  omega

theorem realloc_take (b : Buf) (n k : Nat) (hk : k ≤ b.size) (hn : b.size ≤ n) :
    (b.realloc n).bytes.toList.take k = b.bytes.toList.take k := by
  unfold Buf.size at hk hn
  have e : (b.realloc n).bytes.toList = b.bytes.toList.take n ++ List.replicate (n - b.bytes.size) 0xAA := by
    simp [Buf.realloc]
  have e2 : List.take n b.bytes.toList = b.bytes.toList := List.take_of_length_le (by simpa using hn)
  rw [e, e2, List.take_append_of_le_length (by simpa using hk)]

/-- `buffer_reserve`: afterwards `n` more bytes fit, nothing in use has changed. -/
theorem reserve_spec (bf : LBuf) (n : Nat) (h : WF bf) :
    WF (bf.reserve n) ∧ (bf.reserve n).len = bf.len ∧ bf.len + n ≤ (bf.reserve n).cap ∧
    bf.cap ≤ (bf.reserve n).cap ∧ (bf.reserve n).contents = bf.contents := by
  unfold reserve
  by_cases hc : bf.cap ≥ bf.len + n
  · rw [if_pos hc]
    exact ⟨h, rfl, hc, Nat.le_refl _, rfl⟩
  · rw [if_neg hc]
    have hg := grow_ge (if bf.cap = 0 then 16 else bf.cap) (bf.len + n) (by split <;> omega)
    have hcap : bf.cap ≤ grow (if bf.cap = 0 then 16 else bf.cap) (bf.len + n) := by
      have := hg.1
      split at this <;> omega
    refine ⟨⟨realloc_size _ _, by simp only; omega⟩, rfl, hg.2, hcap, ?_⟩
    unfold contents
    simp only
    exact realloc_take _ _ _ (by rw [h.size]; exact h.le) (by rw [h.size]; exact hcap)

theorem alloc_wf (n : Nat) : WF (alloc n) ∧ (alloc n).len = 0 ∧ n ≤ (alloc n).cap ∧ (alloc n).contents = [] := by
  have := reserve_spec empty n empty_wf
  unfold alloc
  refine ⟨this.1, this.2.1, by simpa [empty] using this.2.2.1, ?_⟩
  rw [this.2.2.2.2]
  rfl

/-- Writing `s` at `bf_len` when `|s|` more bytes fit: in bounds, and the bytes in use become `contents ++ s`. -/
theorem append_at (bf : LBuf) (s : Bytes) (h : WF bf) (hfit : bf.len + s.length ≤ bf.cap) :
    ∃ st, bf.store.writeAt bf.len s = .ok st ∧ st.size = bf.cap ∧
      st.bytes.toList.take (bf.len + s.length) = bf.contents ++ s ∧ st.bytes.toList.take bf.len = bf.contents := by
  obtain ⟨st, hw, hst⟩ := Buf.writeAt_ok s bf.store bf.len (by rw [h.size]; exact hfit)
  have hsz := Buf.writeAt_size hw (by rw [h.size]; exact hfit)
  have hlen : (List.take bf.len bf.store.bytes.toList).length = bf.len := by
    have := h.size; have := h.le
    unfold Buf.size at *
    simp
    omega
  refine ⟨st, hw, by rw [hsz, h.size], ?_, ?_⟩
  · rw [hst]
    unfold contents
    rw [List.append_assoc, List.take_append, hlen]
    have : bf.len + s.length - bf.len = s.length := by omega
    rw [this, List.take_of_length_le (by rw [hlen]; omega)]
    rw [List.take_append_of_le_length (Nat.le_refl _)]
    simp
  · rw [hst]
    unfold contents
    rw [List.append_assoc, List.take_append_of_le_length (by rw [hlen]; exact Nat.le_refl _)]
    rw [List.take_of_length_le (by rw [hlen]; exact Nat.le_refl _)]

/-- `buffer_puts`. -/
theorem puts_spec (bf : LBuf) (s : Bytes) (h : WF bf) :
    ∃ bf', bf.puts s = .ok (0, bf') ∧ WF bf' ∧ bf'.contents = bf.contents ++ s ∧ bf.cap ≤ bf'.cap := by
  unfold puts
  by_cases he : s.isEmpty
  · simp only [he, if_true]
    have : s = [] := by simpa using he
    exact ⟨bf, rfl, h, by simp [this], Nat.le_refl _⟩
  · simp only [he, if_false]
    obtain ⟨hwf, hlen, hfit, hcap, hcont⟩ := reserve_spec bf s.length h
    obtain ⟨st, hw, hsz, htake, _⟩ := append_at (bf.reserve s.length) s hwf (by rw [hlen]; exact hfit)
    rw [hw]
    refine ⟨_, rfl, ⟨by simpa using hsz, by simp only; rw [hlen]; exact hfit⟩, ?_, hcap⟩
    unfold contents at htake ⊢
    simp only
    rw [htake]
    unfold contents at hcont
    rw [hcont]

theorem putc_spec (bf : LBuf) (c : UInt8) (h : WF bf) :
    ∃ bf', bf.putc c = .ok (0, bf') ∧ WF bf' ∧ bf'.contents = bf.contents ++ [c] ∧ bf.cap ≤ bf'.cap :=
  puts_spec bf [c] h

/-- `vsnprintf` into the free space of a buffer in which the string AND its terminator fit: in bounds; the bytes in
use followed by the string. -/
theorem vsnprintf_fits (bf : LBuf) (s : Bytes) (size : Nat) (h : WF bf) (hfit : bf.len + s.length + 1 ≤ bf.cap)
    (hsize : s.length + 1 ≤ size) (hsz2 : bf.len + size ≤ bf.cap ∨ size = s.length + 1) :
    ∃ st, vsnprintf bf.store bf.len size s = .ok st ∧ st.size = bf.cap ∧
      st.bytes.toList.take (bf.len + s.length) = bf.contents ++ s := by
  unfold vsnprintf
  have h0 : ¬ size = 0 := by omega
  simp only [h0, if_false]
  have hmin : min s.length (size - 1) = s.length := by omega
  rw [hmin, List.take_length]
  obtain ⟨st, hw, hsz, htake, _⟩ := append_at bf s h (by omega)
  rw [hw]
  simp only
  have hlt : bf.len + s.length < st.size := by omega
  rw [Buf.set_ok 0 hlt]
  refine ⟨_, rfl, ?_, ?_⟩
  · simp [Buf.size] at hsz ⊢
    exact hsz
  · simp only
    rw [Array.toList_setIfInBounds, List.take_set_of_le (Nat.le_refl _)]
    exact htake

/-- `buffer_vprintf` with room reserved for the terminator (`extra >= 1`), guarded or not: never out of bounds,
returns 0, appends exactly the formatted string. -/
theorem vprintfWith_spec (extra : Nat) (guarded : Bool) (hx : 1 ≤ extra) (bf : LBuf) (s : Bytes) (h : WF bf) :
    ∃ bf', bf.vprintfWith extra guarded s = .ok (0, bf') ∧ WF bf' ∧ bf'.contents = bf.contents ++ s ∧ bf.cap ≤ bf'.cap := by
  unfold vprintfWith
  obtain ⟨hwf, hlen, hfit, hcap, hcont⟩ := reserve_spec bf (s.length + extra) h
  simp only
  have hle := hwf.le
  have hfit' : (bf.reserve (s.length + extra)).len + s.length + 1 ≤ (bf.reserve (s.length + extra)).cap := by omega
  obtain ⟨st, hv, hsz, htake⟩ := vsnprintf_fits (bf.reserve (s.length + extra)) s
    (if guarded = true then (bf.reserve (s.length + extra)).cap - (bf.reserve (s.length + extra)).len else s.length + 1)
    hwf hfit' (by split <;> omega) (by split <;> omega)
  rw [hv]
  have hnot : ¬ s.length ≥ (bf.reserve (s.length + extra)).cap - (bf.reserve (s.length + extra)).len := by omega
  simp only [hnot, if_false]
  refine ⟨_, rfl, ⟨by simpa using hsz, by simp only; omega⟩, ?_, hcap⟩
  unfold contents at htake ⊢
  simp only
  rw [htake]
  unfold contents at hcont
  rw [hcont]

theorem vprintf_spec (bf : LBuf) (s : Bytes) (h : WF bf) :
    ∃ bf', bf.vprintf s = .ok (0, bf') ∧ WF bf' ∧ bf'.contents = bf.contents ++ s ∧ bf.cap ≤ bf'.cap :=
  vprintfWith_spec 1 true (Nat.le_refl _) bf s h

theorem step_spec (bf : LBuf) (op : BufOp) (h : WF bf) :
    ∃ bf', bf.step op = .ok (0, bf') ∧ WF bf' ∧ bf'.contents = bf.contents ++ op.piece ∧ bf.cap ≤ bf'.cap := by
  cases op with
  | puts s => exact puts_spec bf s h
  | putc c => exact putc_spec bf c h
  | printf s => exact vprintf_spec bf s h

theorem stepWith_spec (extra : Nat) (guarded : Bool) (hx : 1 ≤ extra) (bf : LBuf) (op : BufOp) (h : WF bf) :
    ∃ bf', bf.stepWith extra guarded op = .ok (0, bf') ∧ WF bf' ∧ bf'.contents = bf.contents ++ op.piece ∧ bf.cap ≤ bf'.cap := by
  cases op with
  | puts s => exact puts_spec bf s h
  | putc c => exact putc_spec bf c h
  | printf s => exact vprintfWith_spec extra guarded hx bf s h

/-- Any sequence of operations from a well-formed buffer: no fault, every return value 0, invariant kept, the
contents are the old contents followed by the pieces in order. -/
theorem run_spec (ops : List BufOp) : ∀ (bf : LBuf), WF bf →
    ∃ bf', bf.run ops = .ok (bf', List.replicate ops.length 0) ∧ WF bf' ∧
      bf'.contents = bf.contents ++ ops.flatMap BufOp.piece ∧ bf.cap ≤ bf'.cap := by
  induction ops with
  | nil => intro bf h; exact ⟨bf, rfl, h, by simp, Nat.le_refl _⟩
  | cons op ops ih =>
    intro bf h
    obtain ⟨bf1, hs, hwf1, hc1, hcap1⟩ := step_spec bf op h
    obtain ⟨bf2, hr, hwf2, hc2, hcap2⟩ := ih bf1 hwf1
    refine ⟨bf2, ?_, hwf2, ?_, by omega⟩
    · unfold run
      rw [hs]
      simp only
      rw [hr]
      rfl
    · rw [hc2, hc1]
      simp

theorem runWith_spec (extra : Nat) (guarded : Bool) (hx : 1 ≤ extra) (ops : List BufOp) : ∀ (bf : LBuf), WF bf →
    ∃ bf', bf.runWith extra guarded ops = .ok (bf', List.replicate ops.length 0) ∧ WF bf' ∧
      bf'.contents = bf.contents ++ ops.flatMap BufOp.piece := by
  induction ops with
  | nil => intro bf h; exact ⟨bf, rfl, h, by simp⟩
  | cons op ops ih =>
    intro bf h
    obtain ⟨bf1, hs, hwf1, hc1, _⟩ := stepWith_spec extra guarded hx bf op h
    obtain ⟨bf2, hr, hwf2, hc2⟩ := ih bf1 hwf1
    refine ⟨bf2, ?_, hwf2, ?_⟩
    · unfold runWith
      rw [hs]
      simp only
      rw [hr]
      rfl
    · rw [hc2, hc1]
      simp

/-! ### Why the terminator needs its own byte

`buffer_vprintf` reserves `n + 1` bytes although `bf_len` advances by `n` only.  With `n` reserved (`extra = 0`) a
formatted string that ends exactly at the capacity is not appended: the guarded `vsnprintf` truncates it, the
function returns 1 (a value no caller in mdsort looks at) and the contents are unchanged - the piece is lost; and
if the `vsnprintf` were not told the real space, its NUL would be written one byte beyond the object. -/

theorem Buf_set_oob {b : Buf} {i : Nat} (v : UInt8) (h : ¬ i < b.size) : b.set i v = .error (.oob i) := by
  unfold Buf.set
  unfold Buf.size at h
  simp only [h, if_false]

/-- Reserving only `n` bytes, guarded `vsnprintf` (the seeded change C08-r5/C12-r5): a non-empty string that ends
exactly at the capacity is DROPPED - return value 1, contents unchanged - for every such buffer and string. -/
theorem vprintf_without_room_drops (bf : LBuf) (s : Bytes) (h : WF bf) (hs : s ≠ []) (hend : bf.len + s.length = bf.cap) :
    ∃ bf', bf.vprintfWith 0 true s = .ok (1, bf') ∧ bf'.contents = bf.contents ∧ bf'.len = bf.len := by
  have hpos : 0 < s.length := List.length_pos_iff.mpr hs
  unfold vprintfWith
  have hres : bf.reserve (s.length + 0) = bf := by
    unfold reserve
    rw [if_pos (by omega)]
  simp only [hres, if_true]
  have hav : bf.cap - bf.len = s.length := by omega
  rw [hav]
  unfold vsnprintf
  rw [if_neg (by omega)]
  have hmin : min s.length (s.length - 1) = s.length - 1 := by omega
  rw [hmin]
  have hfit : bf.len + (s.take (s.length - 1)).length ≤ bf.cap := by simp; omega
  obtain ⟨st, hw, hsz, _, htake⟩ := append_at bf (s.take (s.length - 1)) h hfit
  rw [hw]
  simp only
  have hlt : bf.len + (s.length - 1) < st.size := by omega
  rw [Buf.set_ok 0 hlt]
  simp only [Nat.le_refl, ge_iff_le, if_true]
  refine ⟨_, rfl, ?_, rfl⟩
  unfold contents
  simp only
  rw [Array.toList_setIfInBounds, List.take_set_of_le (by omega)]
  exact htake

/-- Reserving only `n` bytes and trusting the reservation (`vsnprintf` told `n + 1`): the NUL is written at index
`bf_siz`, one beyond the object. -/
theorem vprintf_without_room_unguarded_faults (bf : LBuf) (s : Bytes) (h : WF bf) (hend : bf.len + s.length = bf.cap) :
    bf.vprintfWith 0 false s = .error (.oob bf.cap) := by
  unfold vprintfWith
  have hres : bf.reserve (s.length + 0) = bf := by
    unfold reserve
    rw [if_pos (by omega)]
  simp only [hres, Bool.false_eq_true, if_false]
  unfold vsnprintf
  rw [if_neg (by omega)]
  have hmin : min s.length (s.length + 1 - 1) = s.length := by omega
  rw [hmin, List.take_length]
  obtain ⟨st, hw, hsz, _, _⟩ := append_at bf s h (by omega)
  rw [hw]
  simp only
  rw [Buf_set_oob 0 (by omega), hend]

/-! ### `buffer_str` -/

theorem cstr_append_nul (a r : Bytes) : cstr (a ++ 0 :: r) = cstr a := by
  unfold cstr
  induction a with
  | nil => simp
  | cons x xs ih =>
    by_cases hx : x = 0
    · simp [hx]
    · simp [List.takeWhile_cons, hx, ih]

/-- `buffer_str`: never out of bounds; the object handed out holds a NUL, and what a C reader sees in it is the
contents up to their first NUL; the buffer left behind is empty. -/
theorem str_spec (bf : LBuf) (h : WF bf) :
    ∃ b, bf.str = .ok (b, empty) ∧ b.view 0 = cstr bf.contents ∧ b.HasNul 0 := by
  have viaPutc : ∃ b, (match bf.putc 0 with
      | .error e => (.error e : M (Buf × LBuf))
      | .ok (_, bf') => .ok bf'.release) = .ok (b, empty) ∧ b.view 0 = cstr bf.contents ∧ b.HasNul 0 := by
    obtain ⟨bf', hp, hwf, hc, _⟩ := putc_spec bf 0 h
    rw [hp]
    refine ⟨bf'.store, rfl, ?_, ?_⟩
    · unfold Buf.view
      have hc' : List.take bf'.len bf'.store.bytes.toList = bf.contents ++ [0] := hc
      have : bf'.store.bytes.toList = (bf.contents ++ [0]) ++ bf'.store.bytes.toList.drop bf'.len := by
        rw [← hc', List.take_append_drop]
      simp only [List.drop_zero]
      rw [this, List.append_assoc]
      exact cstr_append_nul _ _
    · have hlen : bf'.len = bf.len + 1 := by
        have := congrArg List.length hc
        unfold contents at this
        simp only [List.length_take, List.length_append, List.length_cons, List.length_nil, Array.length_toList] at this
        have := hwf.size; have := hwf.le; have := h.size; have := h.le
        unfold Buf.size at *
        omega
      have hlt : bf.len < bf'.store.bytes.toList.length := by
        have := hwf.size; have := hwf.le
        unfold Buf.size at *
        simp only [Array.length_toList]
        omega
      refine ⟨bf.len, Nat.zero_le _, ?_⟩
      rw [Buf.get?_eq_ok_iff]
      refine ⟨by simpa using hlt, ?_⟩
      have e : bf'.store.bytes.toList[bf.len]'hlt = 0 := by
        have hc' : List.take bf'.len bf'.store.bytes.toList = bf.contents ++ [0] := hc
        have h1 : (bf'.store.bytes.toList.take bf'.len)[bf.len]? = (bf.contents ++ [0])[bf.len]? := by
          rw [hc']
        have hcl : bf.contents.length = bf.len := by
          unfold contents
          have := h.size; have := h.le
          unfold Buf.size at *
          simp
          omega
        rw [List.getElem?_take_of_lt (by omega)] at h1
        rw [List.getElem?_append_right (by omega), hcl] at h1
        simp only [Nat.sub_self, List.getElem?_cons_zero] at h1
        rw [List.getElem?_eq_getElem hlt] at h1
        exact Option.some.inj h1
      simpa using e
  unfold str
  by_cases h0 : bf.len = 0
  · rw [if_pos h0]
    exact viaPutc
  · rw [if_neg h0]
    have hlt : bf.len - 1 < bf.store.size := by rw [h.size]; have := h.le; omega
    rw [Buf.get?_of_lt hlt]
    simp only
    by_cases hc : bf.store.bytes[bf.len - 1]'hlt = 0
    · have hne : (bf.store.bytes[bf.len - 1]'hlt != 0) = false := by simp [hc]
      rw [hne]
      simp only [Bool.false_eq_true, if_false]
      refine ⟨bf.store, rfl, ?_, ⟨bf.len - 1, Nat.zero_le _, by rw [Buf.get?_of_lt hlt, hc]⟩⟩
      unfold Buf.view contents
      simp only [List.drop_zero]
      have hl' : bf.len - 1 < bf.store.bytes.toList.length := by simpa [Buf.size] using hlt
      have e1 : bf.store.bytes.toList.take bf.len = bf.store.bytes.toList.take (bf.len - 1) ++ [0] := by
        have : bf.len = bf.len - 1 + 1 := by omega
        rw [this, List.take_succ_eq_append_getElem hl']
        simp only [Nat.add_sub_cancel]
        congr 2
      have e2 : bf.store.bytes.toList = bf.store.bytes.toList.take (bf.len - 1) ++ 0 :: bf.store.bytes.toList.drop bf.len := by
        have := List.take_append_drop bf.len bf.store.bytes.toList
        rw [e1] at this
        simpa using this.symm
      rw [e1]
      have e3 : cstr (List.take (bf.len - 1) bf.store.bytes.toList ++ [0]) = cstr (List.take (bf.len - 1) bf.store.bytes.toList) :=
        cstr_append_nul _ []
      rw [e3]
      conv => lhs; rw [e2]
      exact cstr_append_nul _ _
    · have hne : (bf.store.bytes[bf.len - 1]'hlt != 0) = true := by simp [hc]
      rw [hne]
      simp only [if_true]
      exact viaPutc

/-- The idiom of decode.c, match.c and parse.y: append pieces, `buffer_putc(bf, '\0')`, `buffer_release`.  In
bounds throughout; a C reader of the released object sees the pieces up to their first NUL. -/
theorem run_putc0_release (ops : List BufOp) (bf : LBuf) (h : WF bf) (he : bf.contents = []) :
    ∃ bf', bf.run (ops ++ [.putc 0]) = .ok (bf', List.replicate (ops.length + 1) 0) ∧ WF bf' ∧
      bf'.release.1.view 0 = cstr (ops.flatMap BufOp.piece) ∧ bf'.release.1.HasNul 0 := by
  obtain ⟨bf', hr, hwf, hc, _⟩ := run_spec (ops ++ [.putc 0]) bf h
  rw [he, List.nil_append, List.flatMap_append] at hc
  simp only [List.flatMap_cons, List.flatMap_nil, List.append_nil, BufOp.piece] at hc
  refine ⟨bf', by simpa using hr, hwf, ?_, ?_⟩
  · unfold release Buf.view
    simp only [List.drop_zero]
    have : bf'.store.bytes.toList = (List.flatMap BufOp.piece ops ++ [0]) ++ bf'.store.bytes.toList.drop bf'.len := by
      rw [← hc]; unfold contents; rw [List.take_append_drop]
    rw [this, List.append_assoc]
    exact cstr_append_nul _ _
  · have hlen : bf'.len = (List.flatMap BufOp.piece ops).length + 1 := by
      have := congrArg List.length hc
      unfold contents at this
      simp only [List.length_take, List.length_append, List.length_cons, List.length_nil, Array.length_toList] at this
      have := hwf.size; have := hwf.le
      unfold Buf.size at *
      omega
    have hlt : (List.flatMap BufOp.piece ops).length < bf'.store.bytes.toList.length := by
      have := hwf.size; have := hwf.le
      unfold Buf.size at *
      simp only [Array.length_toList]
      omega
    refine ⟨(List.flatMap BufOp.piece ops).length, Nat.zero_le _, ?_⟩
    unfold release
    rw [Buf.get?_eq_ok_iff]
    refine ⟨by simpa using hlt, ?_⟩
    have e : bf'.store.bytes.toList[(List.flatMap BufOp.piece ops).length]'hlt = 0 := by
      have h1 : (bf'.store.bytes.toList.take bf'.len)[(List.flatMap BufOp.piece ops).length]? =
          (List.flatMap BufOp.piece ops ++ [0])[(List.flatMap BufOp.piece ops).length]? := by
        have hc' : List.take bf'.len bf'.store.bytes.toList = List.flatMap BufOp.piece ops ++ [0] := hc
        rw [hc']
      rw [List.getElem?_take_of_lt (by omega)] at h1
      rw [List.getElem?_append_right (by omega)] at h1
      simp only [Nat.sub_self, List.getElem?_cons_zero] at h1
      rw [List.getElem?_eq_getElem hlt] at h1
      exact Option.some.inj h1
    simpa using e

/-! ### `buffer_read_fd` -/

/-- Invariant of the read loop: there is always room for at least one more byte when `read` is called. -/
structure ReadInv (bf : LBuf) : Prop where
  wf : WF bf
  two : 2 ≤ bf.cap
  room : bf.len < bf.cap

theorem readLoop_spec (bf : LBuf) (data : Bytes) (short : List Nat) (h : ReadInv bf) :
    ∃ bf', readLoop bf data short = .ok bf' ∧ WF bf' ∧ bf'.contents = bf.contents ++ data := by
  fun_induction readLoop bf data short with
  | case1 bf data short room n hn =>
    refine ⟨bf, rfl, h.wf, ?_⟩
    have hr := h.room
    have : data.length = 0 := by
      cases short with
      | nil => simp only [n] at hn; omega
      | cons k ks => simp only [n] at hn; omega
    have : data = [] := List.eq_nil_of_length_eq_zero this
    simp [this]
  | case2 bf data short room n hn e hw =>
    exfalso
    have hle : n ≤ room := by omega
    have : bf.len + (data.take n).length ≤ bf.cap := by
      simp only [List.length_take]
      omega
    obtain ⟨st, hw', _⟩ := append_at bf (data.take n) h.wf this
    rw [hw'] at hw
    cases hw
  | case3 bf data short room n hn st hw bf1 ih =>
    have hle : n ≤ room := by omega
    have hnd : n ≤ data.length := by omega
    have hfit : bf.len + (data.take n).length ≤ bf.cap := by
      simp only [List.length_take]
      omega
    obtain ⟨st', hw', hsz, htake, _⟩ := append_at bf (data.take n) h.wf hfit
    rw [hw'] at hw
    cases hw
    have hlen : (data.take n).length = n := by simp; omega
    have hwf1 : WF bf1 := ⟨by simpa using hsz, by show bf.len + n ≤ bf.cap; omega⟩
    have hc1 : bf1.contents = bf.contents ++ data.take n := by
      unfold contents
      show List.take (bf.len + n) st.bytes.toList = _
      have e : bf.len + n = bf.len + (data.take n).length := by rw [hlen]
      rw [e]
      exact htake
    obtain ⟨hwf2, hlen2, hfit2, hcap2, hcont2⟩ := reserve_spec bf1 (bf1.cap / 2) hwf1
    have hcap1 : bf1.cap = bf.cap := rfl
    have h2 := h.two
    have inv2 : ReadInv (bf1.reserve (bf1.cap / 2)) := ⟨hwf2, by omega, by omega⟩
    obtain ⟨bf', hr, hwf', hc'⟩ := ih inv2
    refine ⟨bf', hr, hwf', ?_⟩
    rw [hc', hcont2, hc1, List.append_assoc, List.take_append_drop]

/-- `buffer_read_fd`: whatever the sizes of the individual reads, no write outside the buffer, and the buffer holds
exactly the bytes the descriptor delivered. -/
theorem readFd_spec (data : Bytes) (short : List Nat) :
    ∃ bf, readFd data short = .ok bf ∧ WF bf ∧ bf.contents = data := by
  obtain ⟨hwf, hlen, hcap, hcont⟩ := alloc_wf (1 <<< 13)
  have h13 : (1 <<< 13 : Nat) = 8192 := by decide
  rw [h13] at hwf hlen hcap hcont
  obtain ⟨bf, hr, hwf', hc⟩ := readLoop_spec (alloc 8192) data short ⟨hwf, by omega, by omega⟩
  refine ⟨bf, ?_, hwf', ?_⟩
  · unfold readFd
    rw [h13]
    exact hr
  · rw [hc, hcont]
    rfl

end LBuf

end Mdsort.L0
