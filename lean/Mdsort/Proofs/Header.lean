import Mdsort.Model.Header
import Mdsort.Spec.Message
import Mdsort.Proofs.Decode
import Mdsort.Proofs.HeaderUnfold
import Mdsort.Proofs.HeaderSort
import Mdsort.Proofs.HeaderSearch
import Mdsort.Proofs.HeaderParse
import Mdsort.Proofs.HeaderLookup
import Mdsort.Proofs.HeaderRewrite

/-! Helper lemmas for C08 / C10 (header table, lookup, unfolding, rewriting). -/

namespace Mdsort.Proofs
open Mdsort Mdsort.Model

/-- The match predicate of `searchheader`. -/
def keyMatch (key : Bytes) (h : Hdr) : Bool := strcasecmp key h.key == .eq

/-- Sortedness as produced by `sortByKey`. -/
def KeySorted (hs : List Hdr) : Prop := hs.Pairwise (fun a b => keyLe a b = true)

theorem sortByKey_sorted (hs : List Hdr) : KeySorted (sortByKey hs) :=
  List.pairwise_mergeSort keyLe_trans keyLe_total hs

theorem searchHeader_spec (hs : List Hdr) (key : Bytes) (hsorted : KeySorted hs) :
    match searchHeader hs key with
    | none => hs.filter (keyMatch key) = []
    | some (i, n) => 0 < n ∧ (hs.drop i).take n = hs.filter (keyMatch key) ∧
        (∀ h ∈ hs.take i, keyMatch key h = false) ∧ (∀ h ∈ hs.drop (i + n), keyMatch key h = false) := by
  have h := searchHeader_list hs key hsorted
  cases hres : searchHeader hs key with
  | none => rw [hres] at h; exact h
  | some r =>
    obtain ⟨i, n⟩ := r
    rw [hres] at h
    exact ⟨h.1, h.2.2⟩

theorem unfoldHeader_eq_spec (v : Bytes) : unfoldHeader v = Spec.unfold v :=
  unfoldHeader_eq_spec' v

theorem unfoldHeader_no_newline (v : Bytes) : (10 : UInt8) ∉ unfoldHeader v :=
  unfoldHeader_no_newline' v

/-- The table in file order, as (name, raw value) pairs. -/
def fileOrder (m : Msg) : List (Bytes × Bytes) := (sortById m.headers).map fun h => (h.key, h.val)

theorem parseMessage_eq_read (m : Bytes) (fs : List (Bytes × Bytes)) (b : Bytes)
    (h : Spec.read m = some (fs, b)) :
    fileOrder (parseMessage m) = fs ∧ (parseMessage m).body = b ∧
    (sortById (parseMessage m).headers).map (·.id) = (List.range fs.length).map (· + 1) :=
  parseMessage_eq_read' m fs b h

theorem getHeader_eq_spec (m : Bytes) (fs : List (Bytes × Bytes)) (b : Bytes) (name : Bytes)
    (h : Spec.read m = some (fs, b)) :
    getHeader (parseMessage m) name =
      (if (Spec.headerValues fs name).isEmpty then none else some (Spec.headerValues fs name)) :=
  getHeader_eq_spec' m fs b name h

/-- Apply a sequence of header settings (label / add-header, in order). -/
def applySetsRaw (m : Msg) : List (Bytes × Bytes) → Msg
  | [] => m
  | (k, v) :: rest => applySetsRaw (setHeaderRaw m k v) rest

/-- Names and values a configuration can set without breaking the line structure. -/
def SetOk (kv : Bytes × Bytes) : Prop :=
  (∀ c ∈ kv.1, c ≠ 58 ∧ isspace c = false ∧ c ≠ 0) ∧ (∀ c ∈ kv.2, c ≠ 10 ∧ c ≠ 0) ∧
  (∀ c, kv.2.head? = some c → isblank c = false)

theorem setOk_ok (kv : Bytes × Bytes) (h : SetOk kv) : KeyOk kv.1 ∧ ValOk kv.2 := by
  obtain ⟨h1, h2, h3⟩ := h
  refine ⟨h1, fun c hc => (h2 c hc).2, kv.2, [], ?_, fun hm => (h2 10 hm).1 rfl, h3, ?_⟩
  · simp
  · intro c hc; cases hc

/-- The table invariant survives any sequence of settings. -/
theorem applySetsRaw_inv (M : Msg) (kvs : List (Bytes × Bytes)) (h : TInv M.headers) :
    TInv (applySetsRaw M kvs).headers := by
  induction kvs generalizing M with
  | nil => exact h
  | cons kv rest ih =>
    obtain ⟨k, v⟩ := kv
    exact ih _ (setHeaderRaw_step M k v h).1

/-- A sequence of settings is a chain of steps on the file-order list. -/
theorem applySetsRaw_good (M : Msg) (kvs : List (Bytes × Bytes)) (hM : Good M)
    (hk : ∀ kv ∈ kvs, SetOk kv) :
    Good (applySetsRaw M kvs) ∧ (applySetsRaw M kvs).body = M.body ∧
    Chain kvs (FO M.headers) (FO (applySetsRaw M kvs).headers) := by
  induction kvs generalizing M with
  | nil => exact ⟨hM, rfl, rfl⟩
  | cons kv rest ih =>
    obtain ⟨k, v⟩ := kv
    obtain ⟨hk1, hv1⟩ := setOk_ok (k, v) (hk (k, v) (by simp))
    obtain ⟨g1, b1, s1⟩ := setHeaderRaw_good M k v hM hk1 hv1
    obtain ⟨g2, b2, c2⟩ := ih (setHeaderRaw M k v) g1 (fun kv hkv => hk kv (by simp [hkv]))
    exact ⟨g2, b2.trans b1, _, s1, c2⟩

theorem rewrite_preserves (m : Bytes) (kvs : List (Bytes × Bytes)) (hwf : Spec.WF m)
    (hk : ∀ kv ∈ kvs, SetOk kv) :
    Spec.rewriteOk m kvs (messageWrite (applySetsRaw (parseMessage m) kvs)).1 = true := by
  unfold Spec.WF at hwf
  obtain ⟨⟨fs, b⟩, hread⟩ := Option.isSome_iff_exists.mp hwf
  obtain ⟨-, hb0, hb⟩ := read_fields_ok m fs b hread
  obtain ⟨g0, hfo, hbody⟩ := parse_good m fs b hread
  obtain ⟨g, hbd, hchain⟩ := applySetsRaw_good (parseMessage m) kvs g0 hk
  rw [hfo] at hchain
  have hbd' : (applySetsRaw (parseMessage m) kvs).body = b := hbd.trans hbody
  have hout := write_read _ g (by rw [hbd']; exact hb0) (by rw [hbd']; exact hb)
  rw [hbd'] at hout
  exact chain_rewriteOk m _ kvs fs _ b hread hout hchain

theorem second_write_same (m : Bytes) (kvs : List (Bytes × Bytes)) :
    let w := messageWrite (applySetsRaw (parseMessage m) kvs)
    (messageWrite w.2).1 = w.1 := by
  intro w
  have : w.2 = applySetsRaw (parseMessage m) kvs :=
    messageWrite_snd _ (applySetsRaw_inv _ kvs (TInv_parseHeaders _))
  rw [this]

theorem lookup_after_write (m : Bytes) (kvs : List (Bytes × Bytes)) (name : Bytes) :
    let msg := applySetsRaw (parseMessage m) kvs
    getHeader (messageWrite msg).2 name = getHeader msg name := by
  intro msg
  rw [messageWrite_snd msg (applySetsRaw_inv _ kvs (TInv_parseHeaders _))]

end Mdsort.Proofs
