import Mdsort.Model.Header
import Mdsort.Spec.Message
import Mdsort.Proofs.Decode

/-! Helper lemmas for C08 / C10 (header table, lookup, unfolding, rewriting). -/

namespace Mdsort.Proofs
open Mdsort Mdsort.Model

/-- The match predicate of `searchheader`. -/
def keyMatch (key : Bytes) (h : Hdr) : Bool := strcasecmp key h.key == .eq

/-- Sortedness as produced by `sortByKey`. -/
def KeySorted (hs : List Hdr) : Prop := hs.Pairwise (fun a b => keyLe a b = true)

theorem sortByKey_sorted (hs : List Hdr) : KeySorted (sortByKey hs) := by
  sorry

theorem searchHeader_spec (hs : List Hdr) (key : Bytes) (hsorted : KeySorted hs) :
    match searchHeader hs key with
    | none => hs.filter (keyMatch key) = []
    | some (i, n) => 0 < n ∧ (hs.drop i).take n = hs.filter (keyMatch key) ∧
        (∀ h ∈ hs.take i, keyMatch key h = false) ∧ (∀ h ∈ hs.drop (i + n), keyMatch key h = false) := by
  sorry

theorem unfoldHeader_eq_spec (v : Bytes) : unfoldHeader v = Spec.unfold v := by
  sorry

theorem unfoldHeader_no_newline (v : Bytes) : (10 : UInt8) ∉ unfoldHeader v := by
  sorry

/-- The table in file order, as (name, raw value) pairs. -/
def fileOrder (m : Msg) : List (Bytes × Bytes) := (sortById m.headers).map fun h => (h.key, h.val)

theorem parseMessage_eq_read (m : Bytes) (fs : List (Bytes × Bytes)) (b : Bytes)
    (h : Spec.read m = some (fs, b)) :
    fileOrder (parseMessage m) = fs ∧ (parseMessage m).body = b ∧
    (sortById (parseMessage m).headers).map (·.id) = (List.range fs.length).map (· + 1) := by
  sorry

theorem getHeader_eq_spec (m : Bytes) (fs : List (Bytes × Bytes)) (b : Bytes) (name : Bytes)
    (h : Spec.read m = some (fs, b)) :
    getHeader (parseMessage m) name =
      (if (Spec.headerValues fs name).isEmpty then none else some (Spec.headerValues fs name)) := by
  sorry

/-- Apply a sequence of header settings (label / add-header, in order). -/
def applySets (m : Msg) : List (Bytes × Bytes) → Msg
  | [] => m
  | (k, v) :: rest => applySets (setHeader m k v) rest

/-- Names and values a configuration can set without breaking the line structure. -/
def SetOk (kv : Bytes × Bytes) : Prop :=
  (∀ c ∈ kv.1, c ≠ 58 ∧ isspace c = false ∧ c ≠ 0) ∧ (∀ c ∈ kv.2, c ≠ 10 ∧ c ≠ 0) ∧
  (∀ c, kv.2.head? = some c → isblank c = false)

theorem rewrite_preserves (m : Bytes) (kvs : List (Bytes × Bytes)) (hwf : Spec.WF m)
    (hk : ∀ kv ∈ kvs, SetOk kv) :
    Spec.rewriteOk m kvs (messageWrite (applySets (parseMessage m) kvs)).1 = true := by
  sorry

theorem second_write_same (m : Bytes) (kvs : List (Bytes × Bytes)) :
    let w := messageWrite (applySets (parseMessage m) kvs)
    (messageWrite w.2).1 = w.1 := by
  sorry

theorem lookup_after_write (m : Bytes) (kvs : List (Bytes × Bytes)) (name : Bytes) :
    let msg := applySets (parseMessage m) kvs
    getHeader (messageWrite msg).2 name = getHeader msg name := by
  sorry

end Mdsort.Proofs
