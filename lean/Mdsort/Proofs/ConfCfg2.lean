import Mdsort.Proofs.ConfCfg1
import Mdsort.Proofs.ConfRT5

/-!
# Every written configuration is a sentence of the grammar parse.y has now

`treeOfConf bs` is a checked parse tree over `Gen.productions` with root `grammar` whose yield is the
sequence of token kinds of `Spec.printBlocks bs`, for every `bs` in `Spec.ConfOK`; and that sequence
is what the lexer model reads from the written text (`Lexes`).
-/

namespace Mdsort.Proofs.Cfg
open Mdsort Mdsort.Model Mdsort.Spec Mdsort.Spec.Cfg Mdsort.Proofs.Conf

abbrev GP : List Prod := Gen.productions

/-! ## Strings, patterns, units -/

theorem stringBlock_fold (l : List Bytes) : ∀ (t : Tree) (w : List Sym), Parses GP "stringblock" t w →
    Parses GP "stringblock" (l.foldl (fun t _ => N "stringblock" [t, T "STRING"]) t) (w ++ l.map fun _ => "STRING") := by
  induction l with
  | nil => intro t w h; simpa using h
  | cons b r ih =>
    intro t w h
    have h1 : Parses GP "stringblock" (N "stringblock" [t, T "STRING"]) (w ++ ["STRING"]) :=
      (Parses.node p_stringblock_stringblock_string (.cons h (.cons (.leaf t_string) .nil))).cast (by simp)
    exact (ih _ _ h1).cast (by simp)

theorem stringBlock_parses (l : List Bytes) : Parses GP "stringblock" (stringBlockTree l) (l.map fun _ => "STRING") :=
  (stringBlock_fold l _ _ (Parses.node p_stringblock_empty .nil)).cast (by simp)

theorem strsToks_kinds (l : List Bytes) : (strsToks l).map ptokKind = "'{'" :: ((l.map fun _ => "STRING") ++ ["'}'"]) := by
  simp [strsToks, ptokKind, List.map_map, Function.comp_def]

theorem strings_parses (l : List Bytes) : Parses GP "strings" (stringsTree l) ((strsToks l).map ptokKind) :=
  (Parses.node p_strings_lbrace_stringblock_rbrace
    (.cons (.leaf t_lbrace) (.cons (stringBlock_parses l) (.cons (.leaf t_rbrace) .nil)))).cast
    (by rw [strsToks_kinds]; simp)

theorem pattern_parses : Parses GP "pattern" patternTree ["PATTERN"] :=
  Parses.node p_pattern_mid2_pattern (.cons (Parses.node p_mid2_empty .nil) (.cons (.leaf t_pattern) .nil))

theorem scalar_parses : Parses GP "scalar" scalarTree ["SCALAR"] :=
  Parses.node p_scalar_mid1_scalar (.cons (Parses.node p_mid1_empty .nil) (.cons (.leaf t_scalar) .nil))

/-! ## Conditions and actions without sub-trees -/

theorem condLeaf_parses (e : Expr) (h : isCondLeaf e = true) :
    Parses GP "expr3" (condLeafTree e) ((condLeafToks e).map ptokKind) := by
  cases e <;> simp only [isCondLeaf, Bool.false_eq_true] at h
  case all => exact Parses.node p_expr3_all (.cons (.leaf t_all) .nil)
  case new => exact Parses.node p_expr3_new (.cons (.leaf t_new) .nil)
  case old => exact Parses.node p_expr3_old (.cons (.leaf t_old) .nil)
  case body l p =>
    exact Parses.node p_expr3_body_pattern (.cons (.leaf t_body) (.cons pattern_parses .nil))
  case header l ns p =>
    exact (Parses.node p_expr3_header_strings_pattern
      (.cons (.leaf t_header) (.cons (strings_parses ns) (.cons pattern_parses .nil)))).cast
      (by simp [condLeafToks, ptokKind, kwSym])
  case date l f c age =>
    have hf : Parses GP "date_field"
        (N "date_field" (match f with | .header => [] | .access => [T "ACCESS"] | .modified => [T "MODIFIED"] | .created => [T "CREATED"]))
        ((match f with | .header => [] | .access => [PTok.kw .access] | .modified => [PTok.kw .modified]
                       | .created => [PTok.kw .created]).map ptokKind) := by
      cases f
      · exact Parses.node p_date_field_empty .nil
      · exact Parses.node p_date_field_access (.cons (.leaf t_access) .nil)
      · exact Parses.node p_date_field_modified (.cons (.leaf t_modified) .nil)
      · exact Parses.node p_date_field_created (.cons (.leaf t_created) .nil)
    have hc : Parses GP "date_cmp" (N "date_cmp" [T (match c with | .lt => "'<'" | .gt => "'>'")])
        [ptokKind (match c with | .lt => PTok.lt | .gt => PTok.gt)] := by
      cases c
      · exact Parses.node p_date_cmp_lt (.cons (.leaf t_lt) .nil)
      · exact Parses.node p_date_cmp_gt (.cons (.leaf t_gt) .nil)
    have ha : Parses GP "date_age" (N "date_age" [T "INT", scalarTree]) ["INT", "SCALAR"] :=
      Parses.node p_date_age_int_scalar (.cons (.leaf t_int) (.cons scalar_parses .nil))
    exact (Parses.node p_expr3_date_date_field_date_cmp_date_age
      (.cons (.leaf t_date) (.cons hf (.cons hc (.cons ha .nil))))).cast
      (by cases f <;> cases c <;> rfl)
  case stat l p =>
    exact Parses.node p_expr3_isdirectory_string (.cons (.leaf t_isdirectory) (.cons (.leaf t_string) .nil))
  case command l a =>
    exact (Parses.node p_expr3_command_strings (.cons (.leaf t_command) (.cons (strings_parses a) .nil))).cast
      (by simp [condLeafToks, ptokKind, kwSym])

theorem execFlags_parses (si bo : Bool) :
    Parses GP "exec_flags" (execFlagsTree si bo)
      (((if si then [PTok.kw .stdin] else []) ++ (if bo then [PTok.kw .body] else [])).map ptokKind) := by
  have h0 : Parses GP "exec_flags" (N "exec_flags" []) [] := Parses.node p_exec_flags_empty .nil
  have hs : Parses GP "exec_flag" (N "exec_flag" [T "STDIN"]) ["STDIN"] :=
    Parses.node p_exec_flag_stdin (.cons (.leaf t_stdin) .nil)
  have hb : Parses GP "exec_flag" (N "exec_flag" [T "BODY"]) ["BODY"] :=
    Parses.node p_exec_flag_body (.cons (.leaf t_body) .nil)
  cases si <;> cases bo <;> simp only [execFlagsTree, if_true, if_false, Bool.false_eq_true]
  · exact h0
  · exact (Parses.node p_exec_flags_exec_flags_exec_flag (.cons h0 (.cons hb .nil))).cast (by simp [ptokKind, kwSym])
  · exact (Parses.node p_exec_flags_exec_flags_exec_flag (.cons h0 (.cons hs .nil))).cast (by simp [ptokKind, kwSym])
  · exact (Parses.node p_exec_flags_exec_flags_exec_flag
      (.cons ((Parses.node p_exec_flags_exec_flags_exec_flag (.cons h0 (.cons hs .nil)))) (.cons hb .nil))).cast
      (by simp [ptokKind, kwSym])

theorem actLeaf_parses (e : Expr) (h : e.leafAction = true) :
    Parses GP "expraction" (actLeafTree e) ((actLeafToks e).map ptokKind) := by
  cases e <;> simp only [Expr.leafAction, Bool.false_eq_true] at h
  case move l p => exact Parses.node p_expraction_move_string (.cons (.leaf t_move) (.cons (.leaf t_string) .nil))
  case flag l sub =>
    have ho : Parses GP "optneg" (N "optneg" (if sub == curStr then [T "NEG"] else []))
        ((if sub == curStr then [PTok.bang] else []).map ptokKind) := by
      split
      · exact Parses.node p_optneg_neg (.cons (.leaf t_neg) .nil)
      · exact Parses.node p_optneg_empty .nil
    have hfl := Parses.node p_flag_optneg_new (.cons ho (.cons (.leaf t_new) .nil))
    exact (Parses.node p_expraction_flag_flag (.cons (.leaf t_flag) (.cons hfl .nil))).cast
      (by simp [actLeafToks, ptokKind, kwSym])
  case flags l f => exact Parses.node p_expraction_flags_string (.cons (.leaf t_flags) (.cons (.leaf t_string) .nil))
  case discard => exact Parses.node p_expraction_discard (.cons (.leaf t_discard) .nil)
  case brk => exact Parses.node p_expraction_break (.cons (.leaf t_break) .nil)
  case pass => exact Parses.node p_expraction_pass (.cons (.leaf t_pass) .nil)
  case reject => exact Parses.node p_expraction_reject (.cons (.leaf t_reject) .nil)
  case label l ls =>
    exact (Parses.node p_expraction_label_strings (.cons (.leaf t_label) (.cons (strings_parses ls) .nil))).cast
      (by simp [actLeafToks, ptokKind, kwSym])
  case exec l si bo a =>
    exact (Parses.node p_expraction_exec_exec_flags_strings
      (.cons (.leaf t_exec) (.cons (execFlags_parses si bo) (.cons (strings_parses a) .nil)))).cast
      (by simp [actLeafToks, ptokKind, kwSym])
  case addHeader l k v =>
    exact Parses.node p_expraction_addheader_string_string
      (.cons (.leaf t_addheader) (.cons (.leaf t_string) (.cons (.leaf t_string) .nil)))

/-! ## Trees -/

def kindRoot : Kind → Sym
  | .cond => "expr1" | .rule => "expr" | .rules => "exprs" | .block => "exprblock" | .act => "expraction"
  | .acts => "expractions"

theorem exprs_empty : Parses GP "exprs" (N "exprs" []) [] := Parses.node p_exprs_empty .nil
theorem expractions_empty : Parses GP "expractions" (N "expractions" []) [] := Parses.node p_expractions_empty .nil

/-- The parse tree of a well-formed tree of kind `k` is checked, has the root of its kind and yields the
kinds of the tokens `Spec.toks` writes. -/
theorem tree_parses (rx : Pat → Bool) : ∀ (t : CTree) (k : Kind), wfK rx k t = true →
    Parses GP (kindRoot k) (tree k t) ((toks k t).map ptokKind) := by
  intro t
  induction t with
  | leaf e =>
    intro k hw
    cases k <;> simp only [wfK, Bool.false_eq_true, Bool.and_eq_true] at hw <;> simp only [tree, toks, kindRoot]
    · exact (Parses.node p_expr1_expr3 (.cons (condLeaf_parses e hw.1) .nil)).cast (by simp)
    · exact actLeaf_parses e hw.1
    · exact (Parses.node p_expractions_expractions_expraction
        (.cons expractions_empty (.cons (actLeaf_parses e hw.1) .nil))).cast (by simp)
  | emptyBlock l =>
    intro k hw
    cases k <;> simp only [wfK, Bool.false_eq_true] at hw
    simp only [tree, toks, kindRoot]
    exact Parses.node p_exprblock_lbrace_exprs_rbrace (.cons (.leaf t_lbrace) (.cons exprs_empty (.cons (.leaf t_rbrace) .nil)))
  | block l b ih =>
    intro k hw
    cases k <;> simp only [wfK, Bool.false_eq_true] at hw
    simp only [tree, toks, kindRoot]
    exact (Parses.node p_exprblock_lbrace_exprs_rbrace
      (.cons (.leaf t_lbrace) (.cons (ih .rules hw) (.cons (.leaf t_rbrace) .nil)))).cast (by simp [ptokKind])
  | neg l e ih =>
    intro k hw
    cases k <;> simp only [wfK, Bool.false_eq_true] at hw
    simp only [tree, toks, kindRoot]
    exact (Parses.node p_expr1_neg_expr1 (.cons (.leaf t_neg) (.cons (ih .cond hw) .nil))).cast (by simp [ptokKind])
  | attachment l e ih =>
    intro k hw
    cases k <;> simp only [wfK, Bool.false_eq_true] at hw
    simp only [tree, toks, kindRoot]
    exact (Parses.node p_expr1_attachment_expr1 (.cons (.leaf t_attachment) (.cons (ih .cond hw) .nil))).cast
      (by simp [ptokKind, kwSym])
  | attBlock l b ih =>
    intro k hw
    cases k <;> simp only [wfK, Bool.false_eq_true, Bool.and_eq_true] at hw <;> simp only [tree, toks, kindRoot]
    · exact (Parses.node p_expraction_attachment_exprblock
        (.cons (.leaf t_attachment) (.cons (ih .block hw.1.1) .nil))).cast (by simp [ptokKind, kwSym])
    · exact (Parses.node p_expractions_expractions_expraction
        (.cons expractions_empty
          (.cons (Parses.node p_expraction_attachment_exprblock (.cons (.leaf t_attachment) (.cons (ih .block hw.1.1) .nil)))
            .nil))).cast (by simp [ptokKind, kwSym])
  | and l a b iha ihb =>
    intro k hw
    cases k <;> simp only [wfK, Bool.false_eq_true, Bool.and_eq_true] at hw <;> simp only [tree, toks, kindRoot]
    · have hin := Parses.node p_expr1_expr1_and_expr1 (.cons (iha .cond hw.1) (.cons (.leaf t_and) (.cons (ihb .cond hw.2) .nil)))
      have hpar := Parses.node p_expr3_lparen_expr1_rparen (.cons (.leaf t_lparen) (.cons hin (.cons (.leaf t_rparen) .nil)))
      exact (Parses.node p_expr1_expr3 (.cons hpar .nil)).cast (by simp [ptokKind, kwSym])
    · exact (Parses.node p_expractions_expractions_expraction (.cons (iha .acts hw.1) (.cons (ihb .act hw.2) .nil))).cast
        (by simp)
  | or l a b iha ihb =>
    intro k hw
    cases k <;> simp only [wfK, Bool.false_eq_true, Bool.and_eq_true] at hw <;> simp only [tree, toks, kindRoot]
    · have hin := Parses.node p_expr1_expr1_or_expr1 (.cons (iha .cond hw.1) (.cons (.leaf t_or) (.cons (ihb .cond hw.2) .nil)))
      have hpar := Parses.node p_expr3_lparen_expr1_rparen (.cons (.leaf t_lparen) (.cons hin (.cons (.leaf t_rparen) .nil)))
      exact (Parses.node p_expr1_expr3 (.cons hpar .nil)).cast (by simp [ptokKind, kwSym])
    · exact (Parses.node p_exprs_exprs_expr (.cons (iha .rules hw.1) (.cons (ihb .rule hw.2) .nil))).cast (by simp)
  | mtch l c r ihc ihr =>
    intro k hw
    have key : wfK rx .cond c = true →
        ((wfK rx .block r = true ∧ r.countActions > 0) ∨ (wfK rx .acts r = true ∧ aloneOK r = true)) →
        Parses GP "expr" (N "expr" [T "MATCH", tree .cond c, N "expr2" [if isBlock r then tree .block r else tree .acts r]])
          ((PTok.kw .mtch :: (toks .cond c ++ (if isBlock r then toks .block r else toks .acts r))).map ptokKind) := by
      intro hc hr
      have h2 : Parses GP "expr2" (N "expr2" [if isBlock r then tree .block r else tree .acts r])
          ((if isBlock r then toks .block r else toks .acts r).map ptokKind) := by
        rcases hr with ⟨h1, _⟩ | ⟨h1, _⟩
        · rw [isBlock_of_wf_block _ _ h1]
          simp only [if_true]
          exact (Parses.node p_expr2_exprblock (.cons (ihr .block h1) .nil)).cast (by simp)
        · rw [not_isBlock_of_wf_acts _ _ h1]
          simp only [Bool.false_eq_true, if_false]
          exact (Parses.node p_expr2_expractions (.cons (ihr .acts h1) .nil)).cast (by simp)
      exact (Parses.node p_expr_match_expr1_expr2 (.cons (.leaf t_match) (.cons (ihc .cond hc) (.cons h2 .nil)))).cast
        (by simp [ptokKind, kwSym])
    cases k <;> simp only [wfK, Bool.false_eq_true, Bool.and_eq_true, Bool.or_eq_true, decide_eq_true_eq] at hw <;>
      simp only [tree, toks, kindRoot]
    · exact key hw.1 hw.2
    · exact (Parses.node p_exprs_exprs_expr (.cons exprs_empty (.cons (key hw.1 hw.2) .nil))).cast (by simp)

/-! ## Blocks and the whole file -/

theorem block_parses (rx : Pat → Bool) (b : PBlock) (h : blockOK rx b = true) :
    Parses GP "maildir" (blockTree b) ((blockToks b).map ptokKind) := by
  simp only [blockOK, Bool.and_eq_true] at h
  have hp : Parses GP "maildir_paths"
      (if b.paths = [stdinStr] then N "maildir_paths" [T "STDIN"] else N "maildir_paths" [T "MAILDIR", stringsTree b.paths])
      ((if b.paths = [stdinStr] then [PTok.kw .stdin] else [PTok.kw .maildir] ++ strsToks b.paths).map ptokKind) := by
    split
    · exact Parses.node p_maildir_paths_stdin (.cons (.leaf t_stdin) .nil)
    · exact (Parses.node p_maildir_paths_maildir_strings (.cons (.leaf t_maildir) (.cons (strings_parses b.paths) .nil))).cast
        (by simp [ptokKind, kwSym])
  exact (Parses.node p_maildir_maildir_paths_exprblock (.cons hp (.cons (tree_parses rx b.tree .block h.1.1) .nil))).cast
    (by simp [blockToks])

theorem conf_fold (rx : Pat → Bool) (bs : List PBlock) (h : ∀ b ∈ bs, blockOK rx b = true) :
    ∀ (t : Tree) (w : List Sym), Parses GP "grammar" t w →
      Parses GP "grammar" (bs.foldl (fun t b => N "grammar" [t, blockTree b]) t) (w ++ (bs.flatMap blockToks).map ptokKind) := by
  induction bs with
  | nil => intro t w ht; simpa using ht
  | cons b r ih =>
    intro t w ht
    have h1 : Parses GP "grammar" (N "grammar" [t, blockTree b]) (w ++ (blockToks b).map ptokKind) :=
      (Parses.node p_grammar_grammar_maildir (.cons ht (.cons (block_parses rx b (h b (by simp))) .nil))).cast (by simp)
    exact (ih (fun b' hb' => h b' (by simp [hb'])) _ _ h1).cast (by simp)

/-- The whole configuration. -/
theorem conf_parses (rx : Pat → Bool) (bs : List PBlock) (h : ∀ b ∈ bs, blockOK rx b = true) :
    Parses GP "grammar" (treeOfConf bs) ((bs.flatMap blockToks).map ptokKind) :=
  (conf_fold rx bs h _ _ (Parses.node p_grammar_empty .nil)).cast (by simp)

/-! ## What the lexer reads from the written text -/

theorem ite_some_eq {α : Type} {c : Prop} [Decidable c] {a : α} {e : Option α} {k : α}
    (h : (if c then some a else e) = some k) : (c ∧ a = k) ∨ (¬c ∧ e = some k) := by
  by_cases hc : c
  · rw [if_pos hc] at h; exact Or.inl ⟨hc, by simpa using h⟩
  · rw [if_neg hc] at h; exact Or.inr ⟨hc, h⟩

/-- `Kw.ofName` maps a token name to the keyword of that name only. -/
theorem ofName_inv {n : String} {k : Kw} (h : Kw.ofName n = some k) : n = kwSym k := by
  unfold Kw.ofName at h
  iterate 27
    rcases ite_some_eq h with ⟨hc, hk⟩ | ⟨_, h⟩
    · subst hk; simpa [kwSym] using hc
  cases h

theorem charSym_values : charSym 123 = "'{'" ∧ charSym 125 = "'}'" ∧ charSym 40 = "'('" ∧ charSym 41 = "')'" ∧
    charSym 60 = "'<'" ∧ charSym 62 = "'>'" ∧ charSym 61 = "'='" := by decide

/-- The terminal a token of the parser model (`Model.Tk`) is; `other` stands for what no rule mentions. -/
def tkKind : Tk → Sym
  | .eof => "$end" | .neg => "NEG" | .str _ => "STRING" | .pat _ => "PATTERN" | .int _ => "INT"
  | .scalar _ => "SCALAR" | .macro _ => "MACRO" | .kw k => kwSym k
  | .lbrace => "'{'" | .rbrace => "'}'" | .lparen => "'('" | .rparen => "')'" | .lt => "'<'" | .gt => "'>'" | .eq => "'='"
  | .other _ => "?"

def isOther : Tk → Bool
  | .other _ => true
  | _ => false

/-- `Tk.ofToken` keeps the kind of every token a rule can mention. -/
theorem kind_ofToken (tok : Token) (h : isOther (Tk.ofToken tok) = false) : tokenKind tok = tkKind (Tk.ofToken tok) := by
  cases tok with
  | keyword n =>
    simp only [Tk.ofToken] at h ⊢
    cases hk : Kw.ofName n with
    | none => rw [hk] at h; cases h
    | some k => simp only [tokenKind, tkKind]; exact ofName_inv hk
  | char c =>
    simp only [Tk.ofToken] at h ⊢
    repeat' split
    all_goals first
      | (simp only [beq_iff_eq] at *; subst_vars; decide)
      | (simp only [Bool.not_eq_true] at *; simp_all [isOther])
  | _ => rfl

/-- A token that is read as the terminal of a written token has its kind. -/
theorem kind_of_tkOf {tok : Token} {t : PTok} (h : Tk.ofToken tok = tkOf t) : tokenKind tok = ptokKind t := by
  have h1 : isOther (tkOf t) = false := by cases t <;> rfl
  have h2 : tkKind (tkOf t) = ptokKind t := by cases t <;> rfl
  rw [kind_ofToken tok (by rw [h]; exact h1), h, h2]

theorem kwSym_not_mode (k : Kw) : (kwSym k == "PATTERN") = false ∧ (kwSym k == "SCALAR") = false := by
  cases k <;> decide

theorem modeOK_of_kind (t : PTok) : modeOK (ptokKind t == "PATTERN") (ptokKind t == "SCALAR") t = true := by
  cases t <;> simp [modeOK, ptokKind, (kwSym_not_mode _).1]

/-- The lexer model reads the written tokens back, kind by kind, in the modes `Lexes` prescribes. -/
theorem lexes_render : ∀ (ts : List PTok), (∀ t ∈ ts, tokOK t = true) → Lexes false (Spec.render ts) (ts.map ptokKind) := by
  intro ts
  induction ts with
  | nil =>
    intro _
    have := lex1_nil false false
    exact Lexes.done false _ (by rw [render_nil, this]) (by rw [render_nil, this])
  | cons t ts ih =>
    intro h
    obtain ⟨tok, hlex, hof, hmac⟩ := lex_tok t ts (ptokKind t == "PATTERN") (ptokKind t == "SCALAR") (h t (by simp))
      (modeOK_of_kind t)
    have hk := kind_of_tkOf hof
    have hne : tok ≠ .eof := fun he => tkOf_ne_eof t (by rw [← hof, he]; rfl)
    have hm : isMacroTok tok = false := by cases tok <;> first | rfl | cases hmac
    have := Lexes.tok false (ptokKind t == "PATTERN") (ptokKind t == "SCALAR") (Spec.render (t :: ts)) (ts.map ptokKind)
      (by rw [hlex]) (by rw [hlex]; exact hne) (by rw [hlex, hk]) (by rw [hlex, hk])
      (by rw [hlex]; simp only; rw [hm]; exact ih (fun x hx => h x (by simp [hx])))
    rw [hlex] at this
    simp only [hk] at this
    simpa using this

/-- **Every configuration of the specification's domain, written by `Spec.printBlocks`, is a sentence of
the grammar in `Gen.productions`.** -/
theorem printed_in_grammar (rx : Pat → Bool) (bs : List PBlock) (hok : ConfOK rx bs = true) :
    (treeOfConf bs).ok Gen.productions = true ∧ (treeOfConf bs).root = Gen.grammarStart ∧
    (treeOfConf bs).yield = (bs.flatMap blockToks).map ptokKind ∧
    Lexes false (Spec.printBlocks bs) (treeOfConf bs).yield := by
  simp only [ConfOK, Bool.and_eq_true, List.all_eq_true] at hok
  have hb : ∀ b ∈ bs, blockOK rx b = true := fun b hb => (hok.1 b hb).1.1
  obtain ⟨h1, h2, h3⟩ := conf_parses rx bs hb
  refine ⟨h1, by rw [h2, start_symbol], h3, ?_⟩
  rw [h3]
  refine lexes_render _ ?_
  intro x hx
  simp only [List.mem_flatMap] at hx
  obtain ⟨b, hbm, hxb⟩ := hx
  have := hok.1 b hbm
  exact blockToks_ok rx b this.1.1 this.1.2 (by simpa [List.all_eq_true] using this.2) x hxb

end Mdsort.Proofs.Cfg
