import Mdsort.Proofs.L0RefineHeader
import Mdsort.Proofs.L0RefineSearch
import Mdsort.Proofs.L0RefineMime

/-!
# L0 `message_get_header1`, `parseattachments`, `message_get_attachments` refine the list model

`parseAttachments_ok` (L0Mime) says that no access leaves a buffer and no stale pointer into the attachment table is
used.  Here the table is tracked: read back (`l0r_readAtt`: the header table through its pointers, the body as a C
string) the elements `parseattachments` appends are the parts of `Model.parseAttachments`, at every depth, and the
error flag is the list model's `none`.

No hypothesis on the boundaries: `findboundary` and `Model.findBoundary` agree for every boundary, also one that
contains a newline (L0RefineMime); `l0r_witMsg` is the message that separated the former list model from message.c.
-/

namespace Mdsort.L0
open Mdsort Mdsort.L0.Buf

/-- The L1 message a `struct message` stands for. -/
def l0r_readAtt (a : Att) : Model.Msg :=
  { headers := a.headers.toList.map (l0r_readHdr a.buf), body := a.buf.view a.body }

/-! ## message_get_header1 -/

theorem l0r_decodeHeader_refines (b : Buf) {val : Nat} (h : b.HasNul val) :
    ∃ d, decodeHeader b val = .ok d ∧ d.Terminated ∧ d.view 0 = Model.decodeHeader (b.view val) := by
  unfold decodeHeader Model.decodeHeader
  obtain ⟨u, hu, hnu, hvu⟩ := unfoldHeader_refines b h
  rw [hu]
  simp only
  rw [rfc2047Decode_refines u hnu, hvu]
  exact ⟨_, rfl, ofBytes_terminated _, by rw [view_ofBytes]; rfl⟩

theorem l0r_decodeRange_refines (m : Att) (hin : HdrsIn m.buf m.headers) :
    ∀ (n idx : Nat), idx + n ≤ m.headers.size →
      ∃ ds, decodeRange m idx n = .ok ds ∧ (∀ d ∈ ds, d.Terminated) ∧
        ds.map (fun d => d.view 0) =
          (((l0r_readAtt m).headers.drop idx).take n).map fun h => Model.decodeHeader h.val := by
  intro n
  induction n with
  | zero => intro idx _; exact ⟨[], rfl, by simp, by simp⟩
  | succ n ih =>
    intro idx hle
    rw [decodeRange]
    have hlt : idx < m.headers.size := by omega
    rw [Array.getElem?_eq_getElem hlt]
    simp only
    obtain ⟨d, hd, htd, hvd⟩ := l0r_decodeHeader_refines m.buf (hin _ (Array.getElem_mem hlt)).2
    rw [hd]
    simp only
    obtain ⟨ds, hds, hall, hmap⟩ := ih (idx + 1) (by omega)
    rw [hds]
    refine ⟨_, rfl, ?_, ?_⟩
    · intro x hx
      rcases List.mem_cons.mp hx with rfl | hx
      · exact htd
      · exact hall x hx
    · have hlt' : idx < (l0r_readAtt m).headers.length := by simp [l0r_readAtt]; exact hlt
      rw [List.drop_eq_getElem_cons hlt', List.take_succ_cons, List.map_cons, List.map_cons, hmap, hvd]
      congr 1
      simp [l0r_readAtt, l0r_readHdr]

/-- `message_get_header1` refines the list model: the C string it returns is the list model's value. -/
theorem l0r_getHeader1_refines (m : Att) (hin : HdrsIn m.buf m.headers) (name : Bytes) (hname : ∀ x ∈ name, x ≠ 0) :
    ∃ r, getHeader1 m name = .ok r ∧ (∀ t, r = some t → t.Terminated) ∧
      r.map (fun t => t.view 0) = Model.getHeader1 (l0r_readAtt m) name := by
  unfold getHeader1 getHeader Model.getHeader1 Model.getHeader
  rw [l0r_searchHeader_refines (ofBytes_terminated name).hasNul0 hin (Nat.le_refl _), l0r_table_full,
    view_ofBytes_of_no_nul hname]
  have hhd : (l0r_readAtt m).headers = m.headers.toList.map (l0r_readHdr m.buf) := rfl
  rw [hhd]
  cases hs : Model.searchHeader (m.headers.toList.map (l0r_readHdr m.buf)) name with
  | none => exact ⟨none, rfl, by simp, rfl⟩
  | some p =>
    obtain ⟨idx, nfound⟩ := p
    obtain ⟨hpos, hle⟩ := Proofs.searchHeader_in_bounds _ _ _ _ hs
    simp only [List.length_map, Array.length_toList] at hle
    simp only
    obtain ⟨ds, hds, hall, hmap⟩ := l0r_decodeRange_refines m hin nfound idx hle
    rw [hds]
    rw [hhd] at hmap
    rw [← hmap]
    cases ds with
    | nil => exact ⟨none, rfl, by simp, rfl⟩
    | cons v rest => exact ⟨some v, rfl, by intro t ht; cases ht; exact hall v (by simp), rfl⟩

theorem l0r_contentTypeName : contentTypeName = Model.contentTypeName := by decide +kernel

theorem l0r_contentTypeName_no_nul : ∀ x ∈ contentTypeName, x ≠ 0 := by decide

/-! ## parseattachments -/

/-- How the table after `parseattachments` stands for the list model's result: the error flag is `none`; otherwise
the elements appended, read back, are the parts. -/
def l0r_AttRel (v v' : Vec Att) (e : Bool) : Option (List Model.Msg) → Prop
  | none => e = true
  | some ps => e = false ∧ v'.items.toList.map l0r_readAtt = v.items.toList.map l0r_readAtt ++ ps

theorem l0r_findBoundary_at_delim {B rest : Bytes} {term : Bool} (h : Model.delimiterLine B rest = some term)
    (hne : rest ≠ []) : Model.findBoundary B rest = some ([], term, rest) := by
  have _ := hne
  exact Proofs.findBoundaryAux_found h

theorem l0r_skipLine_pos {b : Buf} {i : Nat} (h : b.HasNul i) :
    ∃ j, skipLine b i = .ok j ∧ i ≤ j ∧ b.HasNul j ∧ b.view j = Model.skipLine (b.view i) ∧
      (∀ c, b.get? i = .ok c → c ≠ 0 → i < j) := by
  obtain ⟨j, hj, h1, h2, h3⟩ := skipLine_refines b h
  exact ⟨j, hj, h1, h2, h3, fun c hc hc0 => skipLine_gt hj hc hc0⟩

/-- The `while (!term)` loop of `parseattachments` from the beginning of a part (`beg = body = &buf[bg]`): one
iteration finds the end of the part, appends the part, recurses into it, finds the same delimiter line again and
skips it; this is one step of the list model's loop. -/
theorem l0r_partsLoop_refines (sub : Vec Att → Ptr → M (Vec Att × Bool))
    (subL : Model.Msg → Option (List Model.Msg))
    (hsub : ∀ v p a, VecOk v → PtrOk v p → v.deref p = .ok a →
      ∃ v' e, sub v p = .ok (v', e) ∧ VecOk v' ∧ l0r_AttRel v v' e (subL (l0r_readAtt a)))
    (bnd : Buf) (hb : bnd.HasNul 0) (m : Att) :
    ∀ (n bg : Nat) (v : Vec Att) (f : Nat), m.buf.size - bg = n → m.buf.HasNul bg → VecOk v →
      (m.buf.view bg).length < f →
      ∃ v' e, partsLoop sub bnd m bg (some bg) v = .ok (v', e) ∧ VecOk v' ∧
        l0r_AttRel v v' e (Model.partsLoop subL (bnd.view 0) f (m.buf.view bg)) := by
  intro n
  induction n using Nat.strongRecOn with
  | _ n ih =>
    intro bg v f hn hbg hv hf
    cases f with
    | zero => omega
    | succ f =>
      rw [partsLoop_eq, l0r_findBoundary_refines bnd m.buf hb hbg, Model.partsLoop]
      cases hfb : Model.findBoundary (bnd.view 0) (m.buf.view bg) with
      | none => exact ⟨v, true, rfl, hv, rfl⟩
      | some x =>
        obtain ⟨pre, term, fromLine⟩ := x
        simp only [Option.map_some, l0r_shift]
        obtain ⟨hnb, hvb, _, hne⟩ := l0r_findBoundary_pos hbg hfb
        obtain ⟨hsplit, _, hdelim⟩ := Proofs.SafetyAux.findBoundaryAux_split hfb
        -- the new element
        obtain ⟨v1, p, hc, hitems, hgen, hidx⟩ := Vec.calloc_ok v (default : Att)
        rw [hc]
        simp only
        rw [strndup_spec hbg]
        simp only
        have hpre : (m.buf.view bg).take (bg + pre.length - bg) = pre := by
          rw [hsplit, Nat.add_sub_cancel_left, l0r_take_left]
        rw [hpre]
        have hprenn : ∀ x ∈ pre, x ≠ 0 := fun x hx =>
          view_no_nul m.buf bg x (by rw [hsplit]; exact List.mem_append_left _ hx)
        obtain ⟨ab, hdrs, abody, hmp, _, _, hnab, hinab, hpart⟩ :=
          l0r_messageParseHeaders_refines (ofBytes pre) (ofBytes_terminated pre)
        rw [view_ofBytes_of_no_nul hprenn] at hpart
        rw [hmp]
        simp only
        rw [Vec.store_ok v1 p _ hgen (by rw [hitems, hidx]; simp)]
        simp only
        have haok : AttOk { buf := ab, headers := hdrs, body := abody, path := m.path } := ⟨hnab, hinab⟩
        have hread : l0r_readAtt { buf := ab, headers := hdrs, body := abody, path := m.path } =
            Model.parseHeaders pre := hpart.symm
        generalize ({ buf := ab, headers := hdrs, body := abody, path := m.path } : Att) = a at haok hread ⊢
        have hitems2 : v1.items.setIfInBounds p.idx a = v.items.push a := by
          rw [hitems, hidx, push_set_last]
        rw [hitems2]
        have hv2 : VecOk { v1 with items := v.items.push a } := by
          intro x hx
          rcases Array.mem_push.mp hx with hx | hx
          · exact hv x hx
          · subst hx; exact haok
        have hp2 : PtrOk { v1 with items := v.items.push a } p := by
          refine ⟨hgen, ?_⟩
          simp only [hidx, Array.size_push]; omega
        have hderef : ({ v1 with items := v.items.push a } : Vec Att).deref p = .ok a := by
          unfold Vec.deref
          simp only [hgen, ne_eq, not_true_eq_false, if_false, hidx]
          simp
        obtain ⟨v3, e3, hs3, hv3, hrel3⟩ := hsub _ p a hv2 hp2 hderef
        rw [hs3]
        rw [hread] at hrel3
        cases hsl : subL (Model.parseHeaders pre) with
        | none =>
          rw [hsl] at hrel3
          have : e3 = true := hrel3
          subst this
          exact ⟨v3, true, rfl, hv3, rfl⟩
        | some nested =>
          rw [hsl] at hrel3
          obtain ⟨he3, hmap3⟩ := hrel3
          subst he3
          simp only [Array.toList_push, List.map_append, List.map_cons, List.map_nil, hread] at hmap3
          simp only
          cases term with
          | true =>
            refine ⟨v3, false, rfl, hv3, rfl, ?_⟩
            rw [hmap3]; simp
          | false =>
            simp only [Bool.false_eq_true, if_false]
            -- the same delimiter line again, with `beg == NULL`
            rw [partsLoop_eq, l0r_findBoundary_refines bnd m.buf hb hnb, hvb,
              l0r_findBoundary_at_delim hdelim hne]
            simp only [Option.map_some, l0r_shift, List.length_nil, Nat.add_zero]
            obtain ⟨b', hb', hle', hnb', hvb', hgt'⟩ := l0r_skipLine_pos hnb
            rw [hb']
            simp only [Bool.false_eq_true, if_false]
            have hblt := hnb.lt
            have hb'gt : bg + pre.length < b' := by
              rcases hnb.cases with ⟨_, hv0⟩ | ⟨c, hc0, hgc, _, _⟩
              · rw [hvb] at hv0; exact absurd hv0 hne
              · exact hgt' c hgc hc0
            have hlen : (m.buf.view bg).length = pre.length + fromLine.length := by rw [hsplit]; simp
            have hsklt := Proofs.SafetyAux.skipLine_lt hne
            rw [hvb] at hvb'
            have hnb'lt := hnb'.lt
            obtain ⟨v4, e4, hr4, hv4, hrel4⟩ := ih (m.buf.size - b') (by omega) b' v3 f rfl hnb' hv3
              (by rw [hvb']; omega)
            rw [hvb'] at hrel4
            refine ⟨v4, e4, hr4, hv4, ?_⟩
            cases hpl : Model.partsLoop subL (bnd.view 0) f (Model.skipLine fromLine) with
            | none => rw [hpl] at hrel4; exact hrel4
            | some more =>
              rw [hpl] at hrel4
              obtain ⟨he4, hmap4⟩ := hrel4
              refine ⟨he4, ?_⟩
              rw [hmap4, hmap3]
              simp

/-- `parseattachments(msg, parent, depth)` refines the list model at every depth, for every table and every valid
`msg`: the error flag is the list model's `none`, and otherwise the elements appended to the parent's table, read
back, are the list model's parts (pre-order). -/
theorem l0r_parseAttachments_refines (root : Att) (hr : AttOk root) :
    ∀ (fuel : Nat) (v : Vec Att) (msg : MsgRef) (m : Att), VecOk v → RefOk v msg → derefMsg root v msg = .ok m →
      ∃ v' e, parseAttachments fuel root v msg = .ok (v', e) ∧ VecOk v' ∧
        l0r_AttRel v v' e (Model.parseAttachments fuel (l0r_readAtt m)) := by
  intro fuel
  induction fuel with
  | zero =>
    intro v msg m hv hm hd
    rw [parseAttachments, hd]
    exact ⟨v, true, rfl, hv, rfl⟩
  | succ fuel ih =>
    intro v msg m hv hm hd
    obtain ⟨m', hd', hma⟩ := derefMsg_ok root hr v hv msg hm
    rw [hd] at hd'
    cases hd'
    rw [parseAttachments, hd, Model.parseAttachments]
    simp only
    obtain ⟨r, hg, ht, hmapr⟩ := l0r_getHeader1_refines m hma.2 contentTypeName l0r_contentTypeName_no_nul
    rw [l0r_contentTypeName] at hmapr
    rw [hg]
    cases r with
    | none =>
      simp only [Option.map_none] at hmapr
      rw [← hmapr]
      exact ⟨v, false, rfl, hv, rfl, by simp⟩
    | some type =>
      simp only [Option.map_some] at hmapr
      rw [← hmapr]
      simp only
      have htn := (ht type rfl).hasNul0
      obtain ⟨rb, hpb, hbrel⟩ := l0r_parseBoundary_refines type htn
      rw [hpb]
      cases hmb : Model.parseBoundary (type.view 0) with
      | notMultipart =>
        rw [hmb] at hbrel
        cases rb with
        | notMultipart => exact ⟨v, false, rfl, hv, rfl, by simp⟩
        | invalid => exact hbrel.elim
        | ok bnd => exact hbrel.elim
      | invalid =>
        rw [hmb] at hbrel
        cases rb with
        | notMultipart => exact hbrel.elim
        | invalid => exact ⟨v, true, rfl, hv, rfl⟩
        | ok bnd => exact hbrel.elim
      | ok bb =>
        rw [hmb] at hbrel
        cases rb with
        | notMultipart => exact hbrel.elim
        | invalid => exact hbrel.elim
        | ok bnd =>
          obtain ⟨hbeq, hbview⟩ := hbrel
          have hb0 : bnd.HasNul 0 := by rw [hbeq]; exact (ofBytes_terminated bb).hasNul0
          simp only
          have hbody : (l0r_readAtt m).body = m.buf.view m.body := rfl
          rw [hbody]
          -- the opening delimiter: `beg == NULL`
          rw [partsLoop_eq, l0r_findBoundary_refines bnd m.buf hb0 hma.1, hbview]
          cases hfb : Model.findBoundary bb (m.buf.view m.body) with
          | none => exact ⟨v, true, rfl, hv, rfl⟩
          | some x =>
            obtain ⟨pre, term, fromLine⟩ := x
            simp only [Option.map_some, l0r_shift]
            obtain ⟨hnb, hvb, _, hne⟩ := l0r_findBoundary_pos hma.1 hfb
            obtain ⟨hsplit, _⟩ := Proofs.findBoundary_split _ _ _ _ _ hfb
            obtain ⟨b', hb', _, hnb', hvb', _⟩ := l0r_skipLine_pos hnb
            rw [hb']
            simp only
            cases term with
            | true => exact ⟨v, false, rfl, hv, rfl, by simp⟩
            | false =>
              simp only [Bool.false_eq_true, if_false]
              rw [hvb] at hvb'
              have hlen : (m.buf.view m.body).length = pre.length + fromLine.length := by rw [hsplit]; simp
              have hsklt := Proofs.SafetyAux.skipLine_lt hne
              have := l0r_partsLoop_refines (fun v' p => parseAttachments fuel root v' (.att p))
                (Model.parseAttachments fuel)
                (fun v' p a hv' hp' hda => ih v' (.att p) a hv' hp' hda)
                bnd hb0 m (m.buf.size - b') b' v (m.buf.view m.body).length.succ rfl hnb' hv
                (by rw [hvb']; omega)
              rw [hvb', hbview] at this
              exact this

/-- `message_get_attachments` refines the list model. -/
theorem l0r_getAttachments_refines (root : Att) (hr : AttOk root) :
    ∃ r, getAttachments root = .ok r ∧
      r.map (fun a => a.toList.map l0r_readAtt) = Model.getAttachments (l0r_readAtt root) := by
  unfold getAttachments Model.getAttachments
  have h5 : Gen.mimeDepthLimit + 1 = 5 := rfl
  rw [h5]
  obtain ⟨v', e, h, _, hrel⟩ := l0r_parseAttachments_refines root hr 5 Vec.init .root root
    (by intro a ha; simp [Vec.init] at ha) trivial rfl
  rw [h]
  cases hm : Model.parseAttachments 5 (l0r_readAtt root) with
  | none =>
    rw [hm] at hrel
    have : e = true := hrel
    subst this
    exact ⟨none, rfl, rfl⟩
  | some ps =>
    rw [hm] at hrel
    obtain ⟨he, hmap⟩ := hrel
    subst he
    refine ⟨some v'.items, rfl, ?_⟩
    simp only [Option.map_some]
    rw [hmap]
    simp [Vec.init]

/-- A whole message: `message_parse_headers` then `message_get_attachments` on a NUL-terminated buffer compute the
list model's message and its attachments. -/
theorem l0r_message_refines (b : Buf) (ht : b.Terminated) (path : Bytes) :
    ∃ b' hs body r, messageParseHeaders b = .ok (b', hs, body) ∧
      l0r_readAtt { buf := b', headers := hs, body := body, path := path } = Model.parseHeaders (b.view 0) ∧
      getAttachments { buf := b', headers := hs, body := body, path := path } = .ok r ∧
      r.map (fun a => a.toList.map l0r_readAtt) = Model.getAttachments (Model.parseHeaders (b.view 0)) := by
  obtain ⟨b', hs, body, hp, _, _, hnb, hin, hpart⟩ := l0r_messageParseHeaders_refines b ht
  have hread : l0r_readAtt { buf := b', headers := hs, body := body, path := path } = Model.parseHeaders (b.view 0) :=
    hpart.symm
  obtain ⟨r, hr, hmap⟩ := l0r_getAttachments_refines { buf := b', headers := hs, body := body, path := path }
    ⟨hnb, hin⟩
  rw [hread] at hmap
  exact ⟨b', hs, body, r, hp, hread, hr, hmap⟩

/-! ## a message whose boundary contains a newline -/

/-- `message_parse` of a file, then `message_get_attachments`: the list model's message and attachments, for every
file (no hypothesis on the boundaries). -/
theorem l0r_file_refines (file : Bytes) :
    ∃ b' hs body r, messageParseHeaders (Buf.ofBytes file) = .ok (b', hs, body) ∧
      getAttachments { buf := b', headers := hs, body := body, path := [] } = .ok r ∧
      r.map (fun a => a.toList.map l0r_readAtt) = Model.getAttachments (Model.parseMessage file) := by
  obtain ⟨b', hs, body, r, h1, _, h3, h4⟩ := l0r_message_refines (Buf.ofBytes file) (ofBytes_terminated file) []
  rw [view_ofBytes] at h4
  exact ⟨b', hs, body, r, h1, h3, h4⟩

/-- Number of attachments the index-level code finds in a file (`none`: NULL, or a fault). -/
def l0r_partsCount (file : Bytes) : Option Nat :=
  match messageParseHeaders (Buf.ofBytes file) with
  | .ok (b', hs, body) =>
    (match getAttachments { buf := b', headers := hs, body := body, path := [] } with
     | .ok (some v) => some v.size
     | _ => none)
  | .error _ => none

/-- A message whose boundary is `"a\n"` (through an RFC 2047 encoded word).  message.c finds no part in it (the
only delimiter line it accepts is the terminator `"--a\n--\n"`; checked on the real binary: `attachment body /found/`
does not match); so do the index-level code and the list model (the former list model, which examined every line
start, found one part with the body `"X: y\n\nfound\n"`). -/
def l0r_witMsg : Bytes :=
  ofString "Content-Type: multipart/mixed; boundary=\"=?UTF-8?Q?a=0A?=\"\n\n--a\n--a\n\nX: y\n\nfound\n--a\n--\n"

theorem l0r_witMsg_L0 : l0r_partsCount l0r_witMsg = some 0 := by decide +kernel

theorem l0r_witMsg_L1 : Model.getAttachments (Model.parseMessage l0r_witMsg) = some [] := by
  decide +kernel

/-- The boundary of `l0r_witMsg` contains a newline. -/
theorem l0r_witMsg_boundary :
    (Model.getHeader1 (Model.parseMessage l0r_witMsg) Model.contentTypeName).map Model.parseBoundary =
      some (.ok [97, 10]) := by
  decide +kernel

/-- On it both levels find no part (and no error). -/
theorem l0r_message_newline_example :
    l0r_partsCount l0r_witMsg = (Model.getAttachments (Model.parseMessage l0r_witMsg)).map List.length := by
  rw [l0r_witMsg_L0, l0r_witMsg_L1]
  rfl

end Mdsort.L0
