import Mdsort.Proofs.ExecSeqContent

/-!
Two evaluated runs (kernel evaluation, `decide +kernel`) for the statements about what an exec child
reads across the action list:

* run 1: `label "..." exec stdin CMD` - every hypothesis of `C13_exec_stdin_sees_current` holds, the
  run reaches the fork, and the descriptor's file holds the REWRITTEN message (non-vacuity);
* run 2: `move "/b/new" exec stdin CMD` with `/b` on another device (`renameat` = EXDEV, the message is
  copied through `message_write`) - the descriptor still refers to the source file with the
  ORIGINAL bytes `A:b`, while the ghost `MsgSt.content` (what the ENTRY in `/b/new` holds) is the
  re-serialised `A: b`: the witness of `C13_exec_stdin_sees_content_false`.
-/

namespace Mdsort.Proofs.ExecSeq
open Mdsort Mdsort.Model Mdsort.Spec

def exOrig : Bytes := ofString "A:b\n\nx\n"
def exNew : Bytes := ofString "A: b\n\nx\n"

def exW : World :=
  { dirs := [(ofString "/a/new", [(ofString "1", 0)]), (ofString "/b/new", [])],
    files := [(0, ⟨exOrig, exOrig⟩)], nextFid := 1,
    handles := [.other, .other, .other, .dir (ofString "/a/new") none 0, .file 0 0 false],
    devs := [(ofString "/b", 1)], trace := [] }

def exEnv : PEnv :=
  { now := 0, pid := 1, host := [104], random := 0, tmpdir := ofString "/tmp", home := [], confpath := [],
    dryrun := false, syntaxOnly := false, stdinMode := false }

def exSt : ExecSt :=
  { src := { root := ofString "/a", path := ofString "/a/new", dirH := some 3, subdir := .new, walk := true, stdin := false },
    chsrc := false,
    ms := { name := ofString "1", path := ofString "/a/new/1", fd := some 4, msg := parseMessage exOrig, parts := [],
            flags := MFlags.empty, loc := some (ofString "/a/new", ofString "1"), content := exOrig },
    reject := false }

def exExec : Match := { ty := .exec, lno := 1, part := 0, execStdin := true }
def exBody : Match := { ty := .exec, lno := 1, part := 0, execStdin := true, execBody := true }
def exLabel : Match := { ty := .label, lno := 1, part := 0 }
def exMove : Match := { ty := .move, lno := 1, part := 0, path := ofString "/b/new" }

/-- Run 1: every call succeeds; descriptors as the world numbers them. -/
def exOrc1 : Nat → Call → Res := fun _ c =>
  match c with
  | .openExcl .. => .ok 5
  | .dupfd 5 => .ok 6
  | .openRd .. => .ok 7
  | .dupfd _ => .ok 8
  | .mkostemp _ => .ok 8
  | .fprintf _ d => .ok d.length
  | .write _ d => .ok (min 2 d.length)
  | _ => .ok 0

/-- Run 2: the destination is on another device. -/
def exOrc2 : Nat → Call → Res := fun _ c =>
  match c with
  | .opendir _ => .ok 5
  | .openExcl .. => .ok 6
  | .renameat .. => .err "EXDEV"
  | .dupfd 6 => .ok 7
  | .dupfd _ => .ok 8
  | .fprintf _ d => .ok d.length
  | _ => .ok 0

def forkFd : AtFork → Option Handle
  | .fork _ fd => some fd
  | _ => none

def forkContent : AtFork → Bytes
  | .fork st _ => st.ms.content
  | _ => []

theorem forkFd_eq {r : AtFork} {fd : Handle} (h : forkFd r = some fd) : ∃ st', r = .fork st' fd := by
  cases r with
  | fork st fd' => simp only [forkFd, Option.some.injEq] at h; subst h; exact ⟨st, rfl⟩
  | abandoned st => cases h
  | nofd st => cases h

theorem ex_open : MsgOpen exW exSt exOrig :=
  ⟨4, 0, 0, ⟨exOrig, exOrig⟩, rfl, by decide +kernel, by decide +kernel, by decide +kernel, rfl, by decide +kernel⟩

/-! ### run 1: label, then exec stdin -/

theorem ex1_possible : PossibleRun exOrc1 (uptoFork exEnv [exLabel] exExec exSt) exW 0 := by decide +kernel
theorem ex1_fork : forkFd (runW exOrc1 (uptoFork exEnv [exLabel] exExec exSt) exW 0).1 = some 8 := by decide +kernel
theorem ex1_content : rewrittenBefore [exLabel] exSt.ms.msg exOrig = exNew := by decide +kernel

/-! ### run 1b: label, then exec stdin body -/

theorem ex1b_possible : PossibleRun exOrc1 (uptoFork exEnv [exLabel] exBody exSt) exW 0 := by decide +kernel
theorem ex1b_fork : forkFd (runW exOrc1 (uptoFork exEnv [exLabel] exBody exSt) exW 0).1 = some 8 := by decide +kernel
theorem ex1b_body : getBody ((execPart exBody exSt.ms).getD exSt.ms.msg) = some (ofString "x\n") := by decide +kernel

/-! ### run 2: move across devices, then exec stdin -/

theorem ex2_possible : PossibleRun exOrc2 (uptoFork exEnv [exMove] exExec exSt) exW 0 := by decide +kernel
theorem ex2_fork : forkFd (runW exOrc2 (uptoFork exEnv [exMove] exExec exSt) exW 0).1 = some 8 := by decide +kernel
theorem ex2_obj : (runW exOrc2 (uptoFork exEnv [exMove] exExec exSt) exW 0).2.obj 8 = .file 0 0 false := by decide +kernel
theorem ex2_file : (runW exOrc2 (uptoFork exEnv [exMove] exExec exSt) exW 0).2.file 0 = some ⟨exOrig, exOrig⟩ := by decide +kernel
theorem ex2_content : forkContent (runW exOrc2 (uptoFork exEnv [exMove] exExec exSt) exW 0).1 = exNew := by decide +kernel
theorem ex_differ : exOrig ≠ exNew := by decide +kernel

end Mdsort.Proofs.ExecSeq
