import Mdsort.Proofs.WorldStdinClose

/-! `main` in stdin mode: the run is `fopen`, `fclose`, then for every `stdin` block: spool,
walk, cleanup.  The part before the cleanup (`stdinHead`) and the cleanup (`stdinFinish`) are
separated so that statements can speak about faults before / inside the cleanup. -/

namespace Mdsort.Proofs.World
open Mdsort Mdsort.Model

theorem ite_bind {α β} (c : Prop) [Decidable c] (a b : Prog α) (f : α → Prog β) :
    (if c then a else b).bind f = if c then a.bind f else b.bind f := by
  split <;> rfl

/-- The expressions of the `stdin` blocks, in the order `main` visits them. -/
def stdinExprs (conf : List ConfBlock) : List Expr :=
  conf.flatMap fun b => (b.paths.filter isStdinPath).map fun _ => b.expr

/-- One stdin block up to (not including) `maildir_close`: spool standard input, walk the spool. -/
def sessionHead (env : PEnv) (orc : EvalOracles) (input : Bytes) (expr : Expr) (st : MainSt) : Prog (MainSt × Maildir) :=
  (maildirStdin env input).bind fun x =>
    if x.2.1 = true then Prog.ret ({ st with error := true }, x.1)
    else walk env orc expr (stdinFuel env) x.1
      (match x.2.2 with
       | some n => { st with files := st.files.put x.1.path n input }
       | none => st)

def session (env : PEnv) (orc : EvalOracles) (input : Bytes) (expr : Expr) (st : MainSt) : Prog MainSt :=
  (sessionHead env orc input expr st).bind fun y => (closeStdin (stdinFuel env) y.2).bind fun fo => Prog.ret (orFuel y.1 fo)

def sessions (env : PEnv) (orc : EvalOracles) (input : Bytes) : List Expr → MainSt → Prog MainSt
  | [], st => Prog.ret st
  | e :: es, st => (session env orc input e st).bind fun st' => sessions env orc input es st'

theorem sessions_append (env : PEnv) (orc : EvalOracles) (input : Bytes) (a b : List Expr) (st : MainSt) :
    sessions env orc input (a ++ b) st = (sessions env orc input a st).bind fun st' => sessions env orc input b st' := by
  induction a generalizing st with
  | nil => rfl
  | cons e es ih =>
    simp only [List.cons_append, sessions, bind_assoc]
    congr 1
    funext st'
    exact ih st'

theorem paths_stdin (env : PEnv) (orc : EvalOracles) (input : Bytes) (b : ConfBlock) (hm : env.stdinMode = true)
    (ps : List Bytes) (st : MainSt) :
    mainP.blocks.paths env orc input b ps st =
      sessions env orc input ((ps.filter isStdinPath).map fun _ => b.expr) st := by
  induction ps generalizing st with
  | nil => unfold mainP.blocks.paths; rfl
  | cons p more ih =>
    unfold mainP.blocks.paths
    simp only [bind_eq, hm]
    by_cases hp : isStdinPath p = true
    · simp only [hp, List.filter_cons, if_true, List.map_cons, sessions, session, sessionHead, bind_assoc, ret_bind,
        ite_bind, ih, Bool.not_true, Bool.and_false, Bool.false_and, Bool.or_self, Bool.false_eq_true, if_false]
      rfl
    · have hp' : isStdinPath p = false := by simpa using hp
      simp only [hp', List.filter_cons, Bool.not_false, Bool.and_true, Bool.true_or, if_true, ih, Bool.false_eq_true,
        if_false]

theorem blocks_stdin (env : PEnv) (orc : EvalOracles) (input : Bytes) (hm : env.stdinMode = true)
    (conf : List ConfBlock) (st : MainSt) :
    mainP.blocks env orc input conf st = sessions env orc input (stdinExprs conf) st := by
  induction conf generalizing st with
  | nil => unfold mainP.blocks; rfl
  | cons b rest ih =>
    unfold mainP.blocks
    simp only [bind_eq, stdinExprs, List.flatMap_cons, sessions_append, paths_stdin env orc input b hm]
    congr 1
    funext st'
    exact ih st'

/-- The loop state `main` starts with. -/
def st0 (files : Files) : MainSt := { files := files, error := false, reject := false, log := [] }

/-- `main` up to the cleanup of the spool; `none`: the run ends before a spool is attempted. -/
def stdinHead (env : PEnv) (orc : EvalOracles) (expr : Expr) (files : Files) (input : Bytes) : Prog (Option (MainSt × Maildir)) :=
  Prog.call (.fopen env.confpath) fun r =>
    match r with
    | .ok h => Prog.call (.fclose h) fun _ => (sessionHead env orc input expr (st0 files)).bind fun y => Prog.ret (some y)
    | _ => Prog.ret none

/-- The cleanup and the exit status. -/
def stdinFinish (env : PEnv) (files : Files) : Option (MainSt × Maildir) → Prog (Nat × MainSt)
  | some y => (closeStdin (stdinFuel env) y.2).bind fun fo => Prog.ret (exitStatus env (orFuel y.1 fo), orFuel y.1 fo)
  | none => Prog.ret (exitStatus env { st0 files with error := true }, { st0 files with error := true })

theorem mainP_stdin (env : PEnv) (orc : EvalOracles) (conf : List ConfBlock) (files : Files) (input : Bytes) (expr : Expr)
    (hm : env.stdinMode = true) (hs : env.syntaxOnly = false) (hc : stdinExprs conf = [expr]) :
    mainP env orc true conf files input = (stdinHead env orc expr files input).bind (stdinFinish env files) := by
  unfold mainP stdinHead
  simp only [bind_eq, pure_eq, call_bind, call_bind', hs, Bool.not_true, Bool.false_eq_true, if_false,
    blocks_stdin env orc input hm, hc, sessions, session, bind_assoc, ret_bind]
  congr 1
  funext r
  cases r <;> simp only [call_bind', bind_assoc, ret_bind, stdinFinish, st0] <;> try rfl

end Mdsort.Proofs.World
