import Mdsort.Proofs.PartiesFs
import Mdsort.Proofs.WorldOwn

/-! C17 on schedules: at most one party removes a given entry; what a party touches is its own. -/

namespace Mdsort.Proofs.Parties
open Mdsort Mdsort.Model
open Mdsort.Proofs.World
open Mdsort.Proofs.Own (Trace)

/-! ## entries that stay absent -/

theorem lookup_append_dir_none (w : World) (p q m : Bytes) (h : w.lookup q m = none) :
    (({ w with dirs := w.dirs ++ [(p, [])] } : World)).lookup q m = none := by
  unfold World.lookup World.dir at h ⊢
  simp only [List.find?_append]
  cases hf : List.find? (fun x => x.1 == q) w.dirs with
  | some d => simpa [hf] using h
  | none =>
    by_cases hpq : p = q
    · simp [hpq]
    · simp [hpq]

theorem lookup_rmdir_none (w : World) (p q m : Bytes) (h : w.lookup q m = none) :
    (({ w with dirs := w.dirs.filter (·.1 != p) } : World)).lookup q m = none := by
  unfold World.lookup World.dir at h ⊢
  show ((List.find? (fun x => x.1 == q) (w.dirs.filter (·.1 != p))).map (·.2)).bind _ = none
  rw [find_filter_ne w.dirs p q]
  by_cases hq : q = p
  · simp [hq]
  · simp only [hq, if_false]; exact h

theorem lookup_none_mkDir (w : World) (c : Call) (q m : Bytes) (hc : mkDir c = true) (h : w.lookup q m = none) :
    (core w c (predict w c)).lookup q m = none := by
  cases c <;> simp [mkDir] at hc
  · -- mkdtemp
    simp only [core, predict, applyOk, Option.getD_some]
    exact lookup_append_dir_none w _ q m h
  · -- mkdir
    simp only [core, predict, applyOk, Option.getD_some]
    exact lookup_append_dir_none w _ q m h
  · -- rmdir
    rename_i p
    simp only [core, predict]
    cases hd : w.dir p with
    | none => simpa [applyOk, hd] using h
    | some es =>
      cases es with
      | nil => simpa [applyOk, hd] using lookup_rmdir_none w p q m h
      | cons a es => simpa [applyOk, hd] using h

/-- An absent entry stays absent unless the call binds it. -/
theorem lookup_none_step (w : World) (c : Call) (q m : Bytes) (h : w.lookup q m = none)
    (hb : ¬ (isOk (predict w c) = true ∧ callDst w c = some (q, m))) :
    (core w c (predict w c)).lookup q m = none := by
  by_cases hmk : mkDir c = true
  · exact lookup_none_mkDir w c q m hmk h
  by_cases hop : Call.dirOp c = false
  · rw [lookup_of_dirs (core_dirs w c _ hop) q m]; exact h
  · cases c <;> simp [Call.dirOp] at hop <;> simp [mkDir] at hmk
    · rename_i d n
      rcases openExcl_cases w d n with ⟨p, hp, hl, hpr, hco⟩ | ⟨e, hpr⟩
      · rw [hpr, hco]
        unfold created
        rw [lookup_newHandle, lookup_bind_ne]
        · exact h
        · rintro ⟨rfl, rfl⟩
          exact hb ⟨by simp [hpr, isOk], by simp [callDst, hp]⟩
      · rw [hpr, core_err_of_dirOp w _ e rfl]; exact h
    · rename_i d1 n1 d2 n2
      rcases renameat_cases w d1 n1 d2 n2 with ⟨p1, p2, f, hp1, hp2, hl, hpr, hco⟩ | ⟨e, hpr, _, _⟩
      · rw [hpr, hco, lookup_bind_ne, lookup_unbind]
        · simp [h]
        · rintro ⟨rfl, rfl⟩
          exact hb ⟨by simp [hpr, isOk], by simp [callDst, hp2]⟩
      · rw [hpr, core_err_of_dirOp w _ e rfl]; exact h
    · rename_i d n
      rcases unlinkat_cases w d n with ⟨p, f, hp, hl, hpr, hco⟩ | ⟨_, hpr⟩
      · rw [hpr, hco, lookup_unbind]; simp [h]
      · rw [hpr, core_err_of_dirOp w _ _ rfl]; exact h

/-- A successful removal of an entry leaves it absent (unless the same call binds it again). -/
theorem lookup_removed_step (w : World) (c : Call) (q m : Bytes) (hs : callSrc w c = some (q, m))
    (hok : isOk (predict w c) = true) (hb : callDst w c ≠ some (q, m)) :
    (core w c (predict w c)).lookup q m = none := by
  cases c <;> simp [callSrc] at hs
  · rename_i d1 n1 d2 n2
    obtain ⟨p, hp, rfl, rfl⟩ := hs
    rcases renameat_cases w d1 n1 d2 n2 with ⟨p1, p2, f, hp1, hp2, hl, hpr, hco⟩ | ⟨e, hpr, _, _⟩
    · rw [hp] at hp1; cases hp1
      rw [hpr, hco, lookup_bind_ne, lookup_unbind]
      · simp
      · rintro ⟨rfl, rfl⟩
        exact hb (by simp [callDst, hp2])
    · rw [hpr] at hok; simp [isOk] at hok
  · rename_i d n
    obtain ⟨p, hp, rfl, rfl⟩ := hs
    rcases unlinkat_cases w d n with ⟨p', f, hp', hl, hpr, hco⟩ | ⟨_, hpr⟩
    · rw [hp] at hp'; cases hp'
      rw [hpr, hco, lookup_unbind]; simp
    · rw [hpr] at hok; simp [isOk] at hok

/-- Removing an absent entry fails the way a lost race does. -/
theorem lost_step (w : World) (c : Call) (q m : Bytes) (hs : callSrc w c = some (q, m)) (h : w.lookup q m = none) :
    predict w c = .err "ENOENT" ∨ (c.isRename = true ∧ (predict w c = .err "EXDEV" ∨ predict w c = .err "EBADF")) := by
  cases c <;> simp [callSrc] at hs
  · rename_i d1 n1 d2 n2
    obtain ⟨p, hp, rfl, rfl⟩ := hs
    rcases renameat_cases w d1 n1 d2 n2 with ⟨p1, p2, f, hp1, hp2, hl, hpr, hco⟩ | ⟨e, hpr, he, _⟩
    · rw [hp] at hp1; cases hp1
      rw [h] at hl; cases hl
    · rw [hpr]
      rcases he with rfl | rfl | rfl
      · exact .inl rfl
      · exact .inr ⟨rfl, .inl rfl⟩
      · exact .inr ⟨rfl, .inr rfl⟩
  · rename_i d n
    obtain ⟨p, hp, rfl, rfl⟩ := hs
    rcases unlinkat_cases w d n with ⟨p', f, hp', hl, hpr, hco⟩ | ⟨_, hpr⟩
    · rw [hp] at hp'; cases hp'
      rw [h] at hl; cases hl
    · exact .inl hpr

/-! ## single winner -/

/-- Nobody binds entry `x` in this history. -/
def NoRebind (x : Bytes × Bytes) (log : List Event) : Prop := ∀ e ∈ log, e.binds x = false

/-- In this history, once a removal of `x` succeeded every later attempt is a lost race. -/
def WinnerFirst (x : Bytes × Bytes) (log : List Event) : Prop :=
  log.Pairwise fun e1 e2 => e1.removes x = true → e2.attempts x = true → e2.lost = true

def WinnerInv (x : Bytes × Bytes) (s : Shared) : Prop :=
  NoRebind x s.log → ((∃ e ∈ s.log, e.removes x = true) → s.fs.lookup x.1 x.2 = none) ∧ WinnerFirst x s.log

theorem stepEvent_lost (s : Shared) (i : Nat) (p : PState) (c : Call) (x : Bytes × Bytes)
    (ha : (stepEvent s i p c).attempts x = true) (hl : s.fs.lookup x.1 x.2 = none) : (stepEvent s i p c).lost = true := by
  have hs : callSrc (s.view p) c = some (x.1, x.2) := by
    simpa [Event.attempts, stepEvent] using ha
  have := lost_step (s.view p) c x.1 x.2 hs (by simpa using hl)
  simp only [Event.lost, stepEvent, Bool.or_eq_true, Bool.and_eq_true, beq_iff_eq]
  rcases this with h | ⟨h1, h | h⟩
  · exact .inl h
  · exact .inr ⟨h1, .inl h⟩
  · exact .inr ⟨h1, .inr h⟩

theorem winnerInv_step (x : Bytes × Bytes) (s : Shared) (i : Nat) (h : WinnerInv x s) : WinnerInv x (stepParty s i) := by
  apply stepParty_cases (P := WinnerInv x) h
  intro p c k hp hc hnr
  have hnr0 : NoRebind x s.log := fun e he => hnr e (by simp [he])
  have hev : (stepEvent s i p c).binds x = false := hnr _ (by simp)
  obtain ⟨h1, h2⟩ := h hnr0
  have hnb : ¬ (isOk (predict (s.view p) c) = true ∧ callDst (s.view p) c = some (x.1, x.2)) := by
    rintro ⟨a, b⟩
    simp [Event.binds, stepEvent, a, b] at hev
  refine ⟨?_, ?_⟩
  · rintro ⟨e, he, hr⟩
    simp only [stepCall_log, List.mem_append, List.mem_singleton] at he
    simp only [stepCall_fs, shared_lookup, stepView_eq]
    rcases he with he | rfl
    · exact lookup_none_step _ c x.1 x.2 (by simpa using h1 ⟨e, he, hr⟩) hnb
    · simp only [Event.removes, stepEvent, Bool.and_eq_true, beq_iff_eq] at hr
      exact lookup_removed_step _ c x.1 x.2 hr.1 hr.2 (fun hd => hnb ⟨hr.2, hd⟩)
  · simp only [WinnerFirst, stepCall_log, List.pairwise_append, List.pairwise_cons, List.not_mem_nil, false_imp_iff,
      implies_true, List.Pairwise.nil, and_true, List.mem_singleton, forall_eq, true_and]
    refine ⟨h2, ?_⟩
    intro a ha har hat
    exact stepEvent_lost s i p c x hat (h1 ⟨a, ha, har⟩)

/-- Single winner, on every schedule: in the history of the run, as long as nobody creates the entry
`x` anew, a successful removal of `x` (the rename of the message away from it, or its unlink) is
followed only by lost races for `x`; in particular at most one removal succeeds. -/
theorem single_winner (s0 : Shared) (h0 : s0.log = []) (sched : List Nat) (x : Bytes × Bytes)
    (hnr : NoRebind x (runSched s0 sched).log) :
    WinnerFirst x (runSched s0 sched).log ∧
    ∀ (i j : Nat) (e1 e2 : Event), (runSched s0 sched).log[i]? = some e1 → (runSched s0 sched).log[j]? = some e2 →
      e1.removes x = true → e2.removes x = true → i = j := by
  have hinv : WinnerInv x (runSched s0 sched) := by
    refine runSched_inv (P := WinnerInv x) (fun s i h => winnerInv_step x s i h) sched s0 ?_
    intro _
    simp [h0, WinnerFirst]
  have hw := (hinv hnr).2
  refine ⟨hw, ?_⟩
  have key : ∀ (i j : Nat) (e1 e2 : Event), i < j → (runSched s0 sched).log[i]? = some e1 → (runSched s0 sched).log[j]? = some e2 →
      e1.removes x = true → e2.removes x = true → False := by
    intro i j e1 e2 hij h1 h2 r1 r2
    have := List.pairwise_iff_getElem.1 hw i j (List.getElem?_eq_some_iff.1 h1).1 (List.getElem?_eq_some_iff.1 h2).1 hij
    rw [(List.getElem?_eq_some_iff.1 h1).2, (List.getElem?_eq_some_iff.1 h2).2] at this
    have hl := this r1 (by simp only [Event.removes, Bool.and_eq_true] at r2; simpa [Event.attempts] using r2.1)
    simp only [Event.removes, Bool.and_eq_true] at r2
    simp only [Event.lost, Bool.or_eq_true, Bool.and_eq_true, beq_iff_eq] at hl
    rcases hl with hl | ⟨_, hl | hl⟩ <;> simp [hl, isOk] at r2
  intro i j e1 e2 h1 h2 r1 r2
  rcases Nat.lt_trichotomy i j with hij | hij | hij
  · exact (key i j e1 e2 hij h1 h2 r1 r2).elim
  · exact hij
  · exact (key j i e2 e1 hij h2 h1 r2 r1).elim

theorem winnerFirst_get {x : Bytes × Bytes} {log : List Event} (h : WinnerFirst x log) (i j : Nat) (e1 e2 : Event)
    (hij : i < j) (h1 : log[i]? = some e1) (h2 : log[j]? = some e2) (hr : e1.removes x = true)
    (ha : e2.attempts x = true) : e2.lost = true := by
  have := List.pairwise_iff_getElem.1 h i j (List.getElem?_eq_some_iff.1 h1).1 (List.getElem?_eq_some_iff.1 h2).1 hij
  rw [(List.getElem?_eq_some_iff.1 h1).2, (List.getElem?_eq_some_iff.1 h2).2] at this
  exact this hr ha

/-! ## what a party touches is its own -/

/-- `C17_never_touches_foreign` on schedules: whatever the other parties and the client do in
between, an mdsort party only unlinks / renames the name it was given or names it created. -/
theorem parties_never_touch_foreign (s0 : Shared) (hf : Fresh s0) (sched : List Nat) (a : Nat) (p0 ps : PState)
    (env : PEnv) (ml : MatchList) (st : ExecSt)
    (h0 : s0.parties[a]? = some p0) (hp : p0.prog = errOf (matchesExec env ml st))
    (hs : (runSched s0 sched).parties[a]? = some ps) :
    ∀ i c r, ps.trace[i]? = some (c, r) →
      (∀ d n, c = .unlinkat d n → n ∈ ownNames st.ms.name ps.trace i) ∧
      (∀ d1 n1 d2 n2, c = .renameat d1 n1 d2 n2 →
        n1 ∈ ownNames st.ms.name ps.trace i ∧ n2 ∈ createdNames (ps.trace.take i)) := by
  intro i c r hget
  obtain ⟨L, hL⟩ := trace_is_oracle_prefix s0 hf sched a p0 ps h0 hs (fun _ => .err "")
  rw [hp, runOracle_errOf] at hL
  simp only at hL
  have hlt : i < ps.trace.length := (List.getElem?_eq_some_iff.1 hget).1
  have key := exec_touches_only_own env ml st (replay ps.trace fun _ => .err "") i c r (by
    show (runOracle _ _ 0 []).2[i]? = _
    rw [hL, List.getElem?_append_left hlt]; exact hget)
  have htake : (ps.trace ++ L).take i = ps.trace.take i := List.take_append_of_le_length (Nat.le_of_lt hlt)
  simp only [ownNames, hL, htake] at key ⊢
  exact key

/-- The loser of a race reports an error: a party executing a list that starts with a
move/flag/flags action, all of whose renames found the source gone, finishes with error = true. -/
theorem loser_reports_error (s0 : Shared) (hf : Fresh s0) (sched : List Nat) (a : Nat) (p0 ps : PState)
    (env : PEnv) (mh : Match) (rest : MatchList) (st : ExecSt)
    (h0 : s0.parties[a]? = some p0) (hp : p0.prog = errOf (matchesExec env (mh :: rest) st))
    (hty : mh.ty = .move ∨ mh.ty = .flag ∨ mh.ty = .flags)
    (hs : (runSched s0 sched).parties[a]? = some ps)
    (hlost : ∀ (i : Nat) (d1 : Handle) (n1 : Bytes) (d2 : Handle) (n2 : Bytes) (r : Res),
      ps.trace[i]? = some (Call.renameat d1 n1 d2 n2, r) → r = Res.err "ENOENT")
    (e : Bool) (hfin : ps.prog = .ret e) : e = true := by
  let orc : Nat → Call → Res := fun j c =>
    match c with
    | .renameat .. => .err "ENOENT"
    | c => replay ps.trace (fun _ => .err "") j c
  have hag : Agree orc ps.trace := by
    intro j c r hj
    cases c <;> first
      | exact (hlost j _ _ _ _ r hj).symm
      | exact agree_replay ps.trace _ j _ r hj
  have hrun := finished_is_oracle_run s0 hf sched a p0 ps e h0 hs hfin orc hag
  rw [hp, runOracle_errOf] at hrun
  have h1 : (runOracle orc (execOne env mh st) 0 []).1.2 = true :=
    lost_race_is_error env mh st orc hty (fun _ _ _ _ _ => rfl)
  have h2 := (error_stops_list env mh rest rest st orc h1).1
  rw [← (Prod.mk.inj hrun).1]
  exact h2

end Mdsort.Proofs.Parties
