import Mdsort.Proofs.EvalPEval
import Mdsort.Model.Main

/-!
# Which questions a rule tree can ask, and which calls its evaluation can issue

`hasCommand`, `hasIsDir`, `hasFileDate`: the tree contains a `command` / `isdirectory` / file-time `date` condition.
`evalT_qs`: every question of the evaluation is of a kind the tree contains (`AllowedQ`).  Hence
`evalP_calls_of`: `fork` (with its `open("/dev/null")`, `waitpid`, `close`) only for trees with a `command`
condition, `stat` only for trees with `isdirectory` or a file-time `date`; and `evalP_asksFree`: for a tree with
none of the three, `evalP` is the pure `Model.eval` and issues no call at all.
-/

namespace Mdsort.Model
open Mdsort

/-- Every question of the computation satisfies `P`. -/
def Ask.Qs {α} (P : Req → Prop) : Ask α → Prop
  | .ret _ => True
  | .ask q k => P q ∧ ∀ a, (k a).Qs P

theorem Ask.Qs.bind {α β} {P : Req → Prop} {t : Ask α} {f : α → Ask β} (ht : t.Qs P) (hf : ∀ a, (f a).Qs P) :
    (t.bind f).Qs P := by
  induction t with
  | ret a => exact hf a
  | ask q k ih => exact ⟨ht.1, fun a => ih a (ht.2 a)⟩

theorem Ask.Qs.mono {α} {P Q : Req → Prop} {t : Ask α} (ht : t.Qs P) (h : ∀ q, P q → Q q) : t.Qs Q := by
  induction t with
  | ret a => exact True.intro
  | ask q k ih => exact ⟨h q ht.1, fun a => ih a (ht.2 a)⟩

/-- A computation none of whose questions is possible asks nothing. -/
theorem Ask.eq_ret_of_qs_false {α} {t : Ask α} (ht : t.Qs fun _ => False) : ∃ a, t = .ret a := by
  cases t with
  | ret a => exact ⟨a, rfl⟩
  | ask q k => exact ht.1.elim

/-- Every value the computation can return (whatever the answers are) satisfies `P`. -/
def Ask.AllRet {α} (P : α → Prop) : Ask α → Prop
  | .ret a => P a
  | .ask _ k => ∀ a, (k a).AllRet P

theorem Ask.AllRet.bind {α β} {R : α → Prop} {P : β → Prop} {t : Ask α} {f : α → Ask β} (ht : t.AllRet R)
    (hf : ∀ a, R a → (f a).AllRet P) : (t.bind f).AllRet P := by
  induction t with
  | ret a => exact hf a ht
  | ask q k ih => exact fun a => ih a (ht a)

theorem Ask.AllRet.run {α} {P : α → Prop} {t : Ask α} (ht : t.AllRet P) (as : List SysAns) : P (t.run as).1 := by
  induction t generalizing as with
  | ret a => exact ht
  | ask q k ih => exact ih _ (ht _) _

theorem Ask.AllRet.toProg {α} {P : α → Prop} {t : Ask α} (ht : t.AllRet P) : Mdsort.Proofs.World.All P t.toProg := by
  induction t with
  | ret a => exact ht
  | ask q k ih => exact Mdsort.Proofs.World.All.bind_of_forall _ fun a => ih a (ht a)

end Mdsort.Model

namespace Mdsort.Proofs
open Mdsort Mdsort.Model
open Mdsort.Proofs.World (Calls All)

def hasCommand : Expr → Bool
  | .block _ e | .neg _ e | .attachment _ e | .attBlock _ e => hasCommand e
  | .and _ l r | .or _ l r | .mtch _ l r => hasCommand l || hasCommand r
  | .command .. => true
  | _ => false

def hasIsDir : Expr → Bool
  | .block _ e | .neg _ e | .attachment _ e | .attBlock _ e => hasIsDir e
  | .and _ l r | .or _ l r | .mtch _ l r => hasIsDir l || hasIsDir r
  | .stat .. => true
  | _ => false

def hasFileDate : Expr → Bool
  | .block _ e | .neg _ e | .attachment _ e | .attBlock _ e => hasFileDate e
  | .and _ l r | .or _ l r | .mtch _ l r => hasFileDate l || hasFileDate r
  | .date _ f _ _ => f != .header
  | _ => false

/-- Some rule tree of the configuration has a `command` condition. -/
def confHasCommand (conf : List ConfBlock) : Bool := conf.any fun b => hasCommand b.expr

/-- Some rule tree of the configuration has an `isdirectory` or a file-time `date` condition. -/
def confHasStat (conf : List ConfBlock) : Bool := conf.any fun b => hasIsDir b.expr || hasFileDate b.expr

/-- The questions the tree `e` can ask (in the environment `env`: a file-time question is about the message's own path). -/
def AllowedQ (env : Env) (e : Expr) : Req → Prop
  | .command _ => hasCommand e = true
  | .isDir _ => hasIsDir e = true
  | .fileTime p f => hasFileDate e = true ∧ p = env.path ∧ f ≠ .header

theorem AllowedQ.mono {env : Env} {e e' : Expr} (hc : hasCommand e = true → hasCommand e' = true)
    (hd : hasIsDir e = true → hasIsDir e' = true) (hf : hasFileDate e = true → hasFileDate e' = true) (q : Req)
    (h : AllowedQ env e q) : AllowedQ env e' q := by
  cases q with
  | command av => exact hc h
  | isDir p => exact hd h
  | fileTime p f => exact ⟨hf h.1, h.2⟩

macro "qs_tail" : tactic =>
  `(tactic| repeat' (first | exact True.intro | assumption | split | (dsimp only; split)))

theorem loop_qs {env : Env} {root : Msg} {e : Expr} {P : Req → Prop}
    (ih : ∀ (part : Nat) (m : Msg) (st : St), (evalT env root e part m st).Qs P) (part : Nat) (ps : List Msg) :
    ∀ (i : Nat) (st : St), (evalT.loop env root e part ps i st).Qs P := by
  induction ps with
  | nil => intro i st; simp only [evalT.loop]; exact True.intro
  | cons p rest ihp =>
    intro i st
    simp only [evalT.loop]
    refine Ask.Qs.bind (ih _ _ _) fun a => ?_
    obtain ⟨ev, s1⟩ := a
    cases ev <;> first | exact True.intro | exact ihp _ _

theorem loopB_qs {env : Env} {root : Msg} {e : Expr} {P : Req → Prop}
    (ih : ∀ (part : Nat) (m : Msg) (st : St), (evalT env root e part m st).Qs P) (part : Nat) (ps : List Msg) :
    ∀ (i : Nat) (ev0 : Tri) (st : St), (evalT.loopB env root e part ps i ev0 st).Qs P := by
  induction ps with
  | nil => intro i ev0 st; simp only [evalT.loopB]; exact True.intro
  | cons p rest ihp =>
    intro i ev0 st
    simp only [evalT.loopB]
    refine Ask.Qs.bind (ih _ _ _) fun a => ?_
    obtain ⟨ev, s1⟩ := a
    cases ev <;> first | exact True.intro | exact ihp _ _ _

/-- Every question of the evaluation of `e` is of a kind `e` contains. -/
theorem evalT_qs (env : Env) (root : Msg) (e : Expr) :
    ∀ (part : Nat) (m : Msg) (st : St), (evalT env root e part m st).Qs (AllowedQ env e) := by
  induction e with
  | block lno e ih =>
    intro part m st
    simp only [evalT]
    refine Ask.Qs.bind ((ih part m st).mono (AllowedQ.mono id id id)) fun a => ?_
    obtain ⟨ev, s1⟩ := a
    cases ev <;> qs_tail
  | and lno l r ihl ihr =>
    intro part m st
    simp only [evalT]
    refine Ask.Qs.bind ((ihl part m st).mono (AllowedQ.mono (by simp [hasCommand]; exact .inl) (by simp [hasIsDir]; exact .inl) (by simp [hasFileDate]; exact .inl))) fun a => ?_
    obtain ⟨ev, s1⟩ := a
    cases ev <;> first | exact True.intro | exact (ihr part m s1).mono (AllowedQ.mono (by simp [hasCommand]; exact .inr) (by simp [hasIsDir]; exact .inr) (by simp [hasFileDate]; exact .inr))
  | or lno l r ihl ihr =>
    intro part m st
    simp only [evalT]
    refine Ask.Qs.bind ((ihl part m st).mono (AllowedQ.mono (by simp [hasCommand]; exact .inl) (by simp [hasIsDir]; exact .inl) (by simp [hasFileDate]; exact .inl))) fun a => ?_
    obtain ⟨ev, s1⟩ := a
    cases ev <;> first | exact True.intro | exact (ihr part m s1).mono (AllowedQ.mono (by simp [hasCommand]; exact .inr) (by simp [hasIsDir]; exact .inr) (by simp [hasFileDate]; exact .inr))
  | neg lno e ih =>
    intro part m st
    simp only [evalT]
    refine Ask.Qs.bind ((ih part m st).mono (AllowedQ.mono id id id)) fun a => ?_
    obtain ⟨ev, s1⟩ := a
    cases ev <;> exact True.intro
  | mtch lno c rhs ihc ihr =>
    intro part m st
    simp only [evalT]
    generalize matchesAppend env st.ml _ = r1
    obtain ⟨ml1, f1⟩ := r1
    cases f1
    · simp only [Bool.false_eq_true, ↓reduceIte]
      refine Ask.Qs.bind ((ihc part m _).mono (AllowedQ.mono (by simp [hasCommand]; exact .inl) (by simp [hasIsDir]; exact .inl) (by simp [hasFileDate]; exact .inl))) fun a => ?_
      obtain ⟨ev, s1⟩ := a
      cases ev <;> first | exact True.intro | exact (ihr part m s1).mono (AllowedQ.mono (by simp [hasCommand]; exact .inr) (by simp [hasIsDir]; exact .inr) (by simp [hasFileDate]; exact .inr))
    · exact True.intro
  | attachment lno e ih =>
    intro part m st
    simp only [evalT]
    cases getAttachments m with
    | none => exact True.intro
    | some parts => exact loop_qs (fun part m st => (ih part m st).mono (AllowedQ.mono id id id)) part parts 0 st
  | attBlock lno e ih =>
    intro part m st
    simp only [evalT]
    cases getAttachments m with
    | none => exact True.intro
    | some parts => exact loopB_qs (fun part m st => (ih part m st).mono (AllowedQ.mono id id id)) part parts 0 .nomatch st
  | date lno field cmp age =>
    intro part m st
    cases field
    · simp only [evalT]; exact True.intro
    all_goals
      simp only [evalT, ask, Ask.ask_bind, Ask.ret_bind]
      refine ⟨⟨rfl, rfl, by decide⟩, fun a => ?_⟩
      qs_tail
  | stat lno path =>
    intro part m st
    simp only [evalT, ask, Ask.ask_bind, Ask.ret_bind]
    generalize matchesAppend env st.ml _ = r1
    obtain ⟨ml1, f1⟩ := r1
    dsimp only
    repeat' (first | exact True.intro | exact ⟨rfl, fun _ => True.intro⟩ | split)
  | command lno argv =>
    intro part m st
    simp only [evalT, ask, Ask.ask_bind, Ask.ret_bind]
    generalize matchesAppend env st.ml _ = r1
    obtain ⟨ml1, f1⟩ := r1
    dsimp only
    repeat' (first | exact True.intro | exact ⟨rfl, fun _ => True.intro⟩ | split)
  | all lno => intro part m st; simp only [evalT]; exact True.intro
  | body lno p => intro part m st; simp only [evalT]; exact True.intro
  | header lno names p => intro part m st; simp only [evalT]; exact True.intro
  | new lno => intro part m st; simp only [evalT]; exact True.intro
  | old lno => intro part m st; simp only [evalT]; exact True.intro
  | move lno path => intro part m st; simp only [evalT]; exact True.intro
  | flag lno subdir => intro part m st; simp only [evalT]; exact True.intro
  | flags lno fl => intro part m st; simp only [evalT]; exact True.intro
  | discard lno => intro part m st; simp only [evalT]; exact True.intro
  | brk lno => intro part m st; simp only [evalT]; exact True.intro
  | label lno ls => intro part m st; simp only [evalT]; exact True.intro
  | pass lno => intro part m st; simp only [evalT]; exact True.intro
  | reject lno => intro part m st; simp only [evalT]; exact True.intro
  | exec lno si bo argv => intro part m st; simp only [evalT]; exact True.intro
  | addHeader lno k v => intro part m st; simp only [evalT]; exact True.intro


/-- The tree contains none of the three conditions that ask the operating system. -/
def asksFree (e : Expr) : Bool := !hasCommand e && !hasIsDir e && !hasFileDate e

/-- **A tree without `command`, `isdirectory` and file-time `date` conditions is evaluated by `Model.eval`**: its
computation asks nothing (whatever the three oracles of `env` are: they are not consulted). -/
theorem evalT_asksFree (env : Env) (root : Msg) (e : Expr) (h : asksFree e = true)
    (part : Nat) (m : Msg) (st : St) :
    evalT (noSys env) root e part m st = .ret (eval env root e part m st) := by
  simp only [asksFree, Bool.and_eq_true, Bool.not_eq_true'] at h
  have hq : (evalT (noSys env) root e part m st).Qs fun _ => False := by
    refine (evalT_qs (noSys env) root e part m st).mono fun q hq => ?_
    cases q with
    | command av => simp only [AllowedQ, h.1.1] at hq; cases hq
    | isDir p => simp only [AllowedQ, h.1.2] at hq; cases hq
    | fileTime p f => simp only [AllowedQ, h.2] at hq; cases hq.1
  obtain ⟨a, ha⟩ := Ask.eq_ret_of_qs_false hq
  have := evalT_eq_eval env root e part m st [] (by
    rw [ha]; intro k q hk; simp at hk)
  rw [ha] at this ⊢
  simp only [Ask.run_ret] at this
  rw [this]

/-- ... and so `evalP` issues no call at all and returns the value of `eval`. -/
theorem evalP_asksFree (env : Env) (e : Expr) (h : asksFree e = true) (m : Msg) (fl : MFlags) :
    evalP (noSys env) e m fl = .ret (eval env m e 0 m { ml := [], flags := fl }) := by
  unfold evalP evalTop
  rw [evalT_asksFree env m e h]
  rfl

theorem calls_toProg_qs {α} {P : Req → Prop} {C : Call → Prop} {t : Ask α} (ht : t.Qs P)
    (h : ∀ q, P q → Calls C (sysCall q)) : Calls C t.toProg := by
  induction t with
  | ret a => exact True.intro
  | ask q k ih => exact Calls.bind (h q ht.1) fun a => ih a (ht.2 a)

/-- The calls the evaluation of the tree `e` can issue: those of `exec(argv, -1)` only if `e` has a `command`
condition, `stat` only if it has an `isdirectory` or a file-time `date` condition. -/
def EvalCallOf (e : Expr) (c : Call) : Prop :=
  (hasCommand e = true ∧ (c = .openPath (ofString "/dev/null") ∨ c.isFork = true ∨ c = .waitpid ∨ ∃ h, c = .close h)) ∨
  ((hasIsDir e = true ∨ hasFileDate e = true) ∧ ∃ p, c = .stat p)

theorem EvalCallOf.evalCall {e : Expr} {c : Call} (h : EvalCallOf e c) : EvalCall c := by
  rcases h with ⟨_, h | h | h | h⟩ | ⟨_, h⟩
  · exact .inl h
  · exact .inr (.inl h)
  · exact .inr (.inr (.inl h))
  · exact .inr (.inr (.inr (.inl h)))
  · exact .inr (.inr (.inr (.inr h)))

theorem evalP_calls_of (env : Env) (e : Expr) (m : Msg) (fl : MFlags) :
    Calls (EvalCallOf e) (evalP env e m fl) := by
  refine calls_toProg_qs (evalT_qs env m e 0 m _) fun q hq => ?_
  cases q with
  | command av =>
    exact Calls.bind (calls_mono' (execCall_execP _) fun c hc => .inl ⟨hq, hc⟩) fun _ => True.intro
  | isDir p => exact ⟨.inr ⟨.inl hq, p, rfl⟩, fun _ => True.intro⟩
  | fileTime p f => exact ⟨.inr ⟨.inr hq.1, p, rfl⟩, fun _ => True.intro⟩

end Mdsort.Proofs
