import Mdsort.Proofs.WorldSingleMid

/-! `maildir_genname` and `maildir_move` under at most one fault: the complete effect on the
directory entries, on every path. -/

namespace Mdsort.Proofs.World
set_option linter.unusedSimpArgs false
open Mdsort Mdsort.Model

/-! ## `maildir_genname` (every fault plan) -/

theorem frame_genname (env : PEnv) (md : Maildir) (flags : Option Bytes) {w : World} {L : Ent → Option Nat}
    {d : Handle} {p : Bytes} (hd : md.dirH = some d) (hdw : w.dirPath d = some p) (hdir : (w.dir p).isSome)
    (fuel count : Nat) {w1 : World} (m : Mid w w1 L) :
    wp NoInv (genname env md flags fuel count)
      (fun res w2 =>
        (res = none → Mid w w2 L) ∧
        ∀ fd name, res = some (fd, name) → ∃ N,
          L (p, name) = none ∧ Mid w w2 (fun x => if x = (p, name) then some N else L x) ∧
          w.nextFid ≤ N ∧ N < w2.nextFid ∧ w.handles.length ≤ fd ∧ fd < w2.handles.length ∧
          w2.obj fd = .file N 0 true ∧ w2.file N = some ⟨[], []⟩) w1 := by
  induction fuel generalizing count w1 with
  | zero => exact ⟨fun _ => m, by intro _ _ h; cases h⟩
  | succ fuel ih =>
    unfold genname
    simp only [bind_eq, pure_eq, call_bind]
    generalize (decimalInt env.now ++ [46] ++ decimal env.pid ++ [95] ++ decimal ((count + 1) % gennameWrap) ++ [46] ++ env.host ++
          flags.getD []) = nm
    split
    · exact ⟨fun _ => m, by intro _ _ h; cases h⟩
    · split
      · exact ⟨fun _ => m, by intro _ _ h; cases h⟩
      · rename_i d' hd'
        have hdd : d' = d := by rw [hd] at hd'; cases hd'; rfl
        subst hdd
        intro f
        refine ⟨trivial, ?_⟩
        rcases openExcl_results f w1 d' nm with ⟨e, he⟩ | ⟨he, p', hp', hl⟩
        · rw [he]
          dsimp only
          have m' := m.err (.openExcl d' nm) e (by intro _ h; cases h) (by intro _ h; cases h) (by intro _ h; cases h)
          split
          · exact ih _ m'
          · exact ⟨fun _ => m', by intro _ _ h; cases h⟩
        · rw [he]
          have hpp : p' = p := by
            have := m.dirPath hdw
            rw [this] at hp'; cases hp'; rfl
          subst hpp
          have hdir1 : (w1.dir p').isSome := by rw [m.dirSome]; exact hdir
          refine ⟨(by intro h; cases h), ?_⟩
          intro fd name h
          simp only [Option.some.injEq, Prod.mk.injEq] at h
          obtain ⟨rfl, rfl⟩ := h
          have nf := newFile_of_openExcl hp' hl
          refine ⟨w1.nextFid, ?_, m.create hp' hl hdir1 _, m.nextFid, nf.fidLt, m.len, nf.fdLt, nf.obj, nf.file⟩
          rw [← m.look]; exact hl

/-! ## the pieces of `maildir_move` -/

/-- The rename (or copy and unlink) of `maildir_move`: error flag and the message's new ghost location. -/
def moveCore1F (src dst : Maildir) (ms : MsgSt) (sh dh fd : Handle) (dstname : Bytes) : Prog (Bool × MsgSt) := do
  let r ← call (.renameat sh ms.name dh dstname)
  match r with
    | .err e =>
      if e == "EXDEV" then do
        let we ← messageWriteP ms.msg fd
        if we then pure (true, ms)
        else do
          let ue ← maildirUnlink src ms.name
          pure (ue, if ue then ms else { ms with loc := some (dst.path, dstname), content := (messageWrite ms.msg).1 })
      else pure (true, ms)
    | _ => pure (false, { ms with loc := some (dst.path, dstname) })

/-- What follows: roll back or not, close, set the time stamp, rename the message structure. -/
def moveRest1F (src dst : Maildir) (dh fd : Handle) (dstname : Bytes) (mt : Option Nat) : Bool × MsgSt → Prog (MsgSt × Bool)
  | (err1, ms) => do
    if err1 then
      let _ ← maildirUnlink dst dstname
      pure ()
    let _ ← call (.close fd)
    let err2 ← (if !err1 && mt.isSome then do
        let r ← call (.utimensat dh dstname none mt)
        pure (!isOk r)
      else pure err1)
    if err2 then pure (ms, true)
    else messageSetFileMoved ms src.subdir dst.subdir dst.path dstname

theorem maildirMove_split (env : PEnv) (src dst : Maildir) (ms : MsgSt) {sh dh : Handle}
    (hsh : src.dirH = some sh) (hdh : dst.dirH = some dh) (hst : (src.stdin && src.root == dst.root) = false) :
    maildirMove env src dst ms =
      ((if (!src.stdin) = true then (call (.fstatat sh ms.name)).bind fun r => Prog.ret (statMtime r) else Prog.ret none).bind fun mt =>
        match msgflags src.subdir dst.subdir ms.flags with
        | none => Prog.ret (ms, true)
        | some fl => (gennameStart env dst (some fl)).bind fun g =>
          match g with
          | none => Prog.ret (ms, true)
          | some (fd, dstname) => (moveCore1F src dst ms sh dh fd dstname).bind (moveRest1F src dst dh fd dstname mt)) := by
  unfold maildirMove moveCore1F moveRest1F
  simp only [hst, hsh, hdh, Bool.false_eq_true, if_false, bind_eq, pure_eq]
  rfl

/-! ## specifications -/

/-- The message's entry `nb` is bound to a file that holds (also durably) the content recorded in `ms`. -/
def Located (w : World) (ms : MsgSt) (nb : Ent) : Prop :=
  ms.loc = some nb ∧ ∃ fid, lk w nb = some fid ∧ fid < w.nextFid ∧ w.file fid = some ⟨ms.content, ms.content⟩

/-- A file below `nextFid` keeps its content over a call that does not write it. -/
theorem file_step {w : World} {g : Nat} {f : File} (hf : w.file g = some f) (hlt : g < w.nextFid) (c : Call) (r : Res)
    (hfs : fileSafe w g c) : (stepWorld w c r).file g = some f ∧ g < (stepWorld w c r).nextFid := by
  refine ⟨?_, ?_⟩
  · rw [stepWorld_file, core_file w c r g hlt hfs]; exact hf
  · rw [stepWorld_nextFid]; exact Nat.lt_of_lt_of_le hlt (core_nextFid w c r)

/-- Entry conditions of the rename step: `w` is the world when `maildir_move` started, `w2` the
world after the placeholder `(dst.path, dstname)` (file `N`, descriptor `fd`) has been created. -/
structure MoveIn (w w2 : World) (src dst : Maildir) (ms : MsgSt) (sh dh fd : Handle) (dstname : Bytes)
    (fid0 N : Nat) : Prop where
  hsh : src.dirH = some sh
  hps : w.dirPath sh = some src.path
  hpd : w.dirPath dh = some dst.path
  hdd : (w.dir dst.path).isSome
  hlk : lk w (src.path, ms.name) = some fid0
  hlt : fid0 < w.nextFid
  hf : w.file fid0 = some ⟨ms.content, ms.content⟩
  free : lk w (dst.path, dstname) = none
  mid : Mid w w2 (fun x => if x = (dst.path, dstname) then some N else lk w x)
  nlo : w.nextFid ≤ N
  nhi : N < w2.nextFid
  fdlo : w.handles.length ≤ fd
  obj : w2.obj fd = .file N 0 true
  file : w2.file N = some ⟨[], []⟩

/-- After the rename step: it failed, only because of the fault, and the placeholder is still
there; or the message is now at the new entry (the same file, or the complete copy). -/
def MoveMid (w : World) (src dst : Maildir) (ms : MsgSt) (dstname : Bytes) (N : Nat)
    (b' : Bool) (x : Bool × MsgSt) (w3 : World) : Prop :=
  (x.1 = true ∧ b' = false ∧ x.2 = ms ∧ Mid w w3 (fun y => if y = (dst.path, dstname) then some N else lk w y)) ∨
  (x.1 = false ∧ ∃ fid', Mid w w3 (fun y => if y = (dst.path, dstname) then some fid' else
        if y = (src.path, ms.name) then none else lk w y) ∧
      fid' < w3.nextFid ∧ w3.file fid' = some ⟨x.2.content, x.2.content⟩ ∧
      x.2 = { ms with loc := some (dst.path, dstname), content := x.2.content } ∧
      (x.2.content = ms.content ∨ x.2.content = (messageWrite ms.msg).1))

theorem spec_moveCore {w w2 : World} {src dst : Maildir} {ms : MsgSt} {sh dh fd : Handle} {dstname : Bytes} {fid0 N : Nat}
    (I : MoveIn w w2 src dst ms sh dh fd dstname fid0 N) (b : Bool) :
    wpS (moveCore1F src dst ms sh dh fd dstname) (MoveMid w src dst ms dstname N) b w2 := by
  have hps2 := I.mid.dirPath I.hps
  have hpd2 := I.mid.dirPath I.hpd
  have hne : (src.path, ms.name) ≠ (dst.path, dstname) := by
    intro h
    have h2 := I.free
    rw [← h, I.hlk] at h2
    cases h2
  have hl2 : w2.lookup src.path ms.name = some fid0 := by
    have := I.mid.look (src.path, ms.name)
    simp only [hne, if_false] at this
    rw [I.hlk] at this
    exact this
  have hdir2 : (w2.dir dst.path).isSome := by rw [I.mid.dirSome]; exact I.hdd
  unfold moveCore1F
  simp only [bind_eq, pure_eq, call_bind]
  refine wpS_call_res (by intro _ h; cases h) (by intro _ _ h; cases h) ?_
  intro r b' hr
  have hpred : predict w2 (.renameat sh ms.name dh dstname) = .ok 0 ∨
      predict w2 (.renameat sh ms.name dh dstname) = .err "EXDEV" := by
    simp only [predict, hps2, hpd2, hl2, Option.isSome_some, if_true]
    split
    · exact .inr rfl
    · exact .inl rfl
  have hcases : r = .ok 0 ∨ (∃ e, r = .err e ∧ (e == "EXDEV") = true) ∨
      (∃ e, r = .err e ∧ (e == "EXDEV") = false ∧ b' = false) := by
    have hp : ∀ r : Res, r = predict w2 (.renameat sh ms.name dh dstname) →
        r = .ok 0 ∨ (∃ e, r = .err e ∧ (e == "EXDEV") = true) := by
      intro r hr
      rcases hpred with h | h
      · exact .inl (hr.trans h)
      · exact .inr ⟨_, hr.trans h, by decide⟩
    rcases hr with ⟨hr, _⟩ | ⟨_, hb', hr | ⟨e, he⟩⟩
    · rcases hp r hr with h | h
      · exact .inl h
      · exact .inr (.inl h)
    · rcases hp r hr with h | h
      · exact .inl h
      · exact .inr (.inl h)
    · by_cases hx : (e == "EXDEV") = true
      · exact .inr (.inl ⟨e, he, hx⟩)
      · exact .inr (.inr ⟨e, he, by simpa using hx, hb'⟩)
  rcases hcases with rfl | ⟨e, rfl, hx⟩ | ⟨e, rfl, hx, rfl⟩
  · -- renamed
    have m3 := I.mid.rename hps2 hpd2 hl2 hdir2 0 (n2 := dstname)
    refine Or.inr ⟨rfl, fid0, ?_, Nat.lt_of_lt_of_le I.hlt m3.nextFid, (m3.files fid0 I.hlt).trans I.hf, rfl, .inl rfl⟩
    refine m3.congr ?_
    intro x
    by_cases h : x = (dst.path, dstname) <;> simp [h]
  · -- across devices: copy, then unlink the source
    simp only [hx, if_true]
    have hcore := core_err w2 (.renameat sh ms.name dh dstname) e (by intro _ h; cases h) (by intro _ h; cases h) (by intro _ h; cases h)
    have m3 := I.mid.err (.renameat sh ms.name dh dstname) e (by intro _ h; cases h) (by intro _ h; cases h) (by intro _ h; cases h)
    generalize hw3 : stepWorld w2 (.renameat sh ms.name dh dstname) (.err e) = w3 at m3 ⊢
    have ho3 : w3.obj fd = .file N 0 true := by rw [← hw3, stepWorld_obj, hcore]; exact I.obj
    have hf3 : w3.file N = some ⟨[], []⟩ := by rw [← hw3, stepWorld_file, hcore]; exact I.file
    have hn3 : N < w3.nextFid := by rw [← hw3, stepWorld_nextFid, hcore]; exact I.nhi
    refine wpS_bind_mono (wpS_and (wpS_of_wp b' (fr1_messageWriteP ms.msg fd ho3 hf3))
      ((clean_messageWriteP ms.msg fd).wpS b' w3)) ?_
    rintro b'' we w4 ⟨⟨fr, f, hf4, hcont⟩, hclean⟩
    have m4 := m3.frame fr (fun g hg => by subst hg; exact I.nlo)
    have hn4 : N < w4.nextFid := Nat.lt_of_lt_of_le hn3 fr.nextFid
    cases we with
    | true =>
      simp only [if_true]
      exact Or.inl ⟨rfl, hclean rfl, rfl, m4⟩
    | false =>
      simp only [Bool.false_eq_true, if_false]
      unfold maildirUnlink
      simp only [I.hsh, bind_eq, pure_eq, call_bind, call_bind', ret_bind]
      have hps4 := m4.dirPath I.hps
      have hl4 : w4.lookup src.path ms.name = some fid0 := by
        have := m4.look (src.path, ms.name)
        simp only [hne, if_false] at this
        rw [I.hlk] at this
        exact this
      refine wpS_call_res (by intro _ h; cases h) (by intro _ _ h; cases h) ?_
      intro r b3 hr
      have hp4 : predict w4 (.unlinkat sh ms.name) = .ok 0 := by simp [predict, hps4, hl4]
      rw [hp4] at hr
      have hcases : r = .ok 0 ∨ ∃ e, r = .err e ∧ b3 = false := by
        rcases hr with ⟨hr, _⟩ | ⟨_, hb', hr | ⟨e, he⟩⟩
        · exact .inl hr
        · exact .inl hr
        · exact .inr ⟨e, he, hb'⟩
      rcases hcases with rfl | ⟨e', rfl, rfl⟩
      · have m5 := m4.unlink hps4 hl4 0
        obtain ⟨hdat, hdur⟩ := hcont rfl
        have hf5 := file_step hf4 hn4 (.unlinkat sh ms.name) (.ok 0) trivial
        refine Or.inr ⟨rfl, N, ?_, hf5.2, ?_, rfl, .inr rfl⟩
        · refine m5.congr ?_
          intro x
          by_cases h : x = (dst.path, dstname)
          · subst h; simp [Ne.symm hne]
          · simp [h]
        · rw [hf5.1]
          obtain ⟨fd', fu'⟩ := f
          simp only [List.nil_append] at hdat hdur
          subst hdat
          subst hdur
          rfl
      · exact Or.inl ⟨rfl, rfl, rfl, m4.err _ _ (by intro _ h; cases h) (by intro _ h; cases h) (by intro _ h; cases h)⟩
  · -- the rename failed
    simp only [hx, Bool.false_eq_true, if_false]
    exact Or.inl ⟨rfl, rfl, rfl,
      I.mid.err _ _ (by intro _ h; cases h) (by intro _ h; cases h) (by intro _ h; cases h)⟩

/-- What `maildir_move` guarantees, under at most one fault, on every path: the message is at the
entry its ghost location names, complete; the entries changed as `Delta` says; no older handle is
touched; without error the location is the destination under the new name. -/
def MovePost (w : World) (src dst : Maildir) (ms : MsgSt) (r : MsgSt × Bool) (w' : World) : Prop :=
  ∃ nb, Located w' r.1 nb ∧ Delta w w' (src.path, ms.name) nb ∧
    (∀ h, h < w.handles.length → w'.obj h = w.obj h) ∧
    r.1.msg = ms.msg ∧ r.1.fd = ms.fd ∧
    (r.1.content = ms.content ∨ r.1.content = (messageWrite ms.msg).1) ∧
    (r.2 = false → nb = (dst.path, r.1.name))

theorem MovePost.unchanged {w w' : World} {src dst : Maildir} {ms : MsgSt} {fid0 : Nat}
    (hlk : lk w (src.path, ms.name) = some fid0) (hlt : fid0 < w.nextFid)
    (hf : w.file fid0 = some ⟨ms.content, ms.content⟩) (hloc : ms.loc = some (src.path, ms.name))
    (m : Mid w w' (lk w)) : MovePost w src dst ms (ms, true) w' :=
  ⟨(src.path, ms.name), ⟨hloc, fid0, by rw [m.look]; exact hlk, Nat.lt_of_lt_of_le hlt m.nextFid, (m.files fid0 hlt).trans hf⟩,
    m.delta_same _, m.objs, rfl, rfl, .inl rfl, by intro h; cases h⟩

theorem strlcpyFits_eq {siz : Nat} {s n : Bytes} (h : strlcpyFits siz s = some n) : n = s := by
  unfold strlcpyFits at h
  split at h
  · cases h
  · cases h; rfl

theorem spec_moveRest1F {w : World} {src dst : Maildir} {ms : MsgSt} {dh fd : Handle} {dstname : Bytes} {fid0 N : Nat}
    (hdh : dst.dirH = some dh) (hpd : w.dirPath dh = some dst.path)
    (hlk : lk w (src.path, ms.name) = some fid0) (hlt : fid0 < w.nextFid)
    (hf : w.file fid0 = some ⟨ms.content, ms.content⟩) (hloc : ms.loc = some (src.path, ms.name))
    (free : lk w (dst.path, dstname) = none) (fdlo : w.handles.length ≤ fd) (mt : Option Nat)
    (b' : Bool) (x : Bool × MsgSt) (w3 : World) (h : MoveMid w src dst ms dstname N b' x w3) :
    wpS (moveRest1F src dst dh fd dstname mt x) (fun _ => MovePost w src dst ms) b' w3 := by
  obtain ⟨err1, ms'⟩ := x
  rcases h with ⟨h1, rfl, h2, m3⟩ | ⟨h1, fid', m3, hlt', hf', hms', hcont⟩
  · -- roll back: the budget is spent, so the placeholder is removed
    simp only at h1 h2
    subst h1 h2
    unfold moveRest1F maildirUnlink
    simp only [hdh, if_true, Bool.not_true, Bool.false_and, Bool.false_eq_true, if_false, bind_eq, pure_eq, call_bind,
      call_bind', ret_bind]
    have hpd3 := m3.dirPath hpd
    have hl3 : w3.lookup dst.path dstname = some N := by
      have := m3.look (dst.path, dstname)
      simp only [if_true] at this
      exact this
    have hp : predict w3 (.unlinkat dh dstname) = .ok 0 := by simp [predict, hpd3, hl3]
    refine wpS_call_spent ?_
    rw [hp]
    have m4 : Mid w (stepWorld w3 (.unlinkat dh dstname) (.ok 0)) (lk w) := by
      refine (m3.unlink hpd3 hl3 0).congr ?_
      intro x
      by_cases h : x = (dst.path, dstname)
      · subst h; simp [free]
      · simp [h]
    refine wpS_call_spent ?_
    have m5 := m4.step (.close fd) (predict (stepWorld w3 (.unlinkat dh dstname) (.ok 0)) (.close fd)) rfl
      (by intro h hh; cases hh; exact fdlo) (fun _ _ => trivial)
    exact MovePost.unchanged hlk hlt hf hloc m5
  · -- moved
    simp only at h1 hlt' hf' hms' hcont
    subst h1
    unfold moveRest1F
    simp only [Bool.false_eq_true, if_false, Bool.not_false, Bool.true_and, bind_eq, pure_eq, call_bind, call_bind', ret_bind]
    refine wpS_call_any fun r b1 => ?_
    have m4 := m3.step (.close fd) r rfl (by intro h hh; cases hh; exact fdlo) (fun _ _ => trivial)
    have hf4 := file_step hf' hlt' (.close fd) r trivial
    refine wpS_bind_mono (R := fun _ _ w5 => Mid w w5 (fun y => if y = (dst.path, dstname) then some fid' else
        if y = (src.path, ms.name) then none else lk w y) ∧ w5.file fid' = some ⟨ms'.content, ms'.content⟩ ∧
        fid' < w5.nextFid) ?_ ?_
    · split
      · refine wpS_call_any fun r2 b2 => ?_
        exact ⟨m4.step _ r2 rfl (by intro _ h; cases h) (fun _ _ => trivial),
          file_step hf4.1 hf4.2 _ r2 trivial⟩
      · exact ⟨m4, hf4⟩
    · rintro b2 err2 w5 ⟨m5, hf5, hlt5⟩
      have hlocp : ms'.loc = some (dst.path, dstname) := by rw [hms']
      have hmsg : ms'.msg = ms.msg := by rw [hms']
      have hfd : ms'.fd = ms.fd := by rw [hms']
      have post : ∀ (ms'' : MsgSt) (e : Bool), ms''.loc = ms'.loc → ms''.content = ms'.content → ms''.msg = ms'.msg →
          ms''.fd = ms'.fd → (e = false → ms''.name = dstname) → MovePost w src dst ms (ms'', e) w5 := by
        intro ms'' e h1 h2 h3 h4 h5
        refine ⟨(dst.path, dstname), ⟨h1.trans hlocp, fid', ?_, hlt5, ?_⟩, m5.delta_moved (fun _ => free), m5.objs,
          h3.trans hmsg, h4.trans hfd, by rw [h2]; exact hcont, ?_⟩
        · rw [m5.look]; simp
        · rw [h2]; exact hf5
        · intro he; rw [h5 he]
      split
      · exact post ms' true rfl rfl rfl rfl (by intro h; cases h)
      · unfold messageSetFileMoved
        split
        · exact post ms' true rfl rfl rfl rfl (by intro h; cases h)
        · split
          · exact post _ true rfl rfl rfl rfl (by intro h; cases h)
          · rename_i n hn
            exact post _ false rfl rfl rfl rfl (fun _ => strlcpyFits_eq hn)

/-- `maildir_move` under at most one fault. -/
theorem sf_maildirMove (env : PEnv) {w : World} {src dst : Maildir} {ms : MsgSt} {sh dh : Handle} {fid0 : Nat}
    (hsh : src.dirH = some sh) (hdh : dst.dirH = some dh)
    (hps : w.dirPath sh = some src.path) (hpd : w.dirPath dh = some dst.path) (hdd : (w.dir dst.path).isSome)
    (hlk : lk w (src.path, ms.name) = some fid0) (hlt : fid0 < w.nextFid)
    (hf : w.file fid0 = some ⟨ms.content, ms.content⟩) (hloc : ms.loc = some (src.path, ms.name)) (b : Bool) :
    wpS (maildirMove env src dst ms) (fun _ => MovePost w src dst ms) b w := by
  by_cases hst : (src.stdin && src.root == dst.root) = true
  · unfold maildirMove
    simp only [hst, if_true, pure_eq]
    exact MovePost.unchanged hlk hlt hf hloc (Mid.refl w)
  · rw [maildirMove_split env src dst ms hsh hdh (by simpa using hst)]
    refine wpS_bind_mono (R := fun _ _ w1 => Mid w w1 (lk w)) ?_ ?_
    · split
      · simp only [call_bind]
        refine wpS_call_any fun r b1 => ?_
        exact (Mid.refl w).step _ r rfl (by intro _ h; cases h) (fun _ _ => trivial)
      · exact Mid.refl w
    · intro b1 mt w1 m1
      split
      · exact MovePost.unchanged hlk hlt hf hloc m1
      · rename_i fl _
        unfold gennameStart
        refine wpS_bind_mono (wpS_of_wp b1 (frame_genname env dst (some fl) hdh hpd hdd gennameAttempts _ m1)) ?_
        rintro b2 g w2 ⟨hnone, hsome⟩
        cases g with
        | none => exact MovePost.unchanged hlk hlt hf hloc (hnone rfl)
        | some x =>
          obtain ⟨fd, dstname⟩ := x
          obtain ⟨N, hfree, m2, nlo, nhi, fdlo, _, ho, hfN⟩ := hsome fd dstname rfl
          dsimp only
          have I : MoveIn w w2 src dst ms sh dh fd dstname fid0 N :=
            ⟨hsh, hps, hpd, hdd, hlk, hlt, hf, hfree, m2, nlo, nhi, fdlo, ho, hfN⟩
          refine wpS_bind_mono (spec_moveCore I b2) ?_
          intro b3 x w3 h3
          exact spec_moveRest1F hdh hpd hlk hlt hf hloc hfree fdlo mt b3 x w3 h3

end Mdsort.Proofs.World
