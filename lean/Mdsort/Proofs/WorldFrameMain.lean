import Mdsort.Proofs.WorldFrameErr

/-!
# A whole run: frame condition in maildir mode, and where the error flag comes from (C04)

* `mainP_frame`: in maildir mode (`-` not given) every call of `mainP` is a `readdir` or satisfies the
  frame condition for the name the last `readdir` returned.
* `mainP_error_iff`: the error flag at exit is set iff one of the causes `MainErr` occurred.
-/

namespace Mdsort.Proofs
open Mdsort Mdsort.Model
open Mdsort.Proofs.Own (runO)

/-- `maildir_skip`: the path is not selected in this mode. -/
def skipPath (env : PEnv) (p : Bytes) : Bool := (env.stdinMode && !isStdinPath p) || (!env.stdinMode && isStdinPath p)

/-- The loop state when the walk over the stdin spool starts. -/
def spooledSt (st : MainSt) (md : Maildir) (input : Bytes) : Option Bytes → MainSt
  | some n => { st with files := st.files.put md.path n input }
  | none => st

/-- The maildir `main` opens for a configured path. -/
def maildirOf (root np : Bytes) : Maildir :=
  { root := root, path := np, dirH := none, subdir := .new, walk := true, stdin := false }

/-- The bound on the length of the walk over a maildir (standard allowance plus the ghost `env.extraFuel`). -/
def walkFuel (env : PEnv) (st : MainSt) (root np : Bytes) : Nat :=
  2 * (st.files.filter fun e => e.1 == np || e.1 == (root ++ [47] ++ subdirName .cur)).length + 8 + env.extraFuel


/-- The causes that set the error flag while the paths `ps` of block `b` are processed from state `st`,
the next call having index `i`: the stdin spool cannot be set up; a path (or path + `/new`) does not
fit; `new` cannot be opened; a cause `WalkErr` occurs in a walk. -/
def PathsErr (env : PEnv) (orc : EvalOracles) (orcl : Nat → Call → Res) (input : Bytes) (b : ConfBlock) :
    List Bytes → MainSt → Nat → Prop
  | [], _, _ => False
  | p :: more, st, i =>
    if skipPath env p then PathsErr env orc orcl input b more st i
    else if isStdinPath p then
      if (runO orcl (maildirStdin env input) i).1.2.1 then True
      else
        WalkErr env orc b.expr orcl (stdinFuel env) (runO orcl (maildirStdin env input) i).1.1
          (spooledSt st (runO orcl (maildirStdin env input) i).1.1 input (runO orcl (maildirStdin env input) i).1.2.2)
          (runO orcl (maildirStdin env input) i).2.2 ∨
        PathsErr env orc orcl input b more
          (orFuel (runO orcl (walk env orc b.expr (stdinFuel env) (runO orcl (maildirStdin env input) i).1.1
            (spooledSt st (runO orcl (maildirStdin env input) i).1.1 input (runO orcl (maildirStdin env input) i).1.2.2))
            (runO orcl (maildirStdin env input) i).2.2).1.1
           (runO orcl (closeStdin (stdinFuel env)
            (runO orcl (walk env orc b.expr (stdinFuel env) (runO orcl (maildirStdin env input) i).1.1
              (spooledSt st (runO orcl (maildirStdin env input) i).1.1 input (runO orcl (maildirStdin env input) i).1.2.2))
              (runO orcl (maildirStdin env input) i).2.2).1.2)
            (runO orcl (walk env orc b.expr (stdinFuel env) (runO orcl (maildirStdin env input) i).1.1
              (spooledSt st (runO orcl (maildirStdin env input) i).1.1 input (runO orcl (maildirStdin env input) i).1.2.2))
              (runO orcl (maildirStdin env input) i).2.2).2.2).1)
          (runO orcl (closeStdin (stdinFuel env)
            (runO orcl (walk env orc b.expr (stdinFuel env) (runO orcl (maildirStdin env input) i).1.1
              (spooledSt st (runO orcl (maildirStdin env input) i).1.1 input (runO orcl (maildirStdin env input) i).1.2.2))
              (runO orcl (maildirStdin env input) i).2.2).1.2)
            (runO orcl (walk env orc b.expr (stdinFuel env) (runO orcl (maildirStdin env input) i).1.1
              (spooledSt st (runO orcl (maildirStdin env input) i).1.1 input (runO orcl (maildirStdin env input) i).1.2.2))
              (runO orcl (maildirStdin env input) i).2.2).2.2).2.2
    else
      match strlcpyFits PATH_MAX p, pathjoin PATH_MAX p (subdirName .new) with
      | some root, some np =>
        if (runO orcl (maildirOpendir (maildirOf root np) np) i).1.2 then True
        else
          WalkErr env orc b.expr orcl (walkFuel env st root np) (runO orcl (maildirOpendir (maildirOf root np) np) i).1.1 st
            (runO orcl (maildirOpendir (maildirOf root np) np) i).2.2 ∨
          PathsErr env orc orcl input b more
            (runO orcl (walk env orc b.expr (walkFuel env st root np) (runO orcl (maildirOpendir (maildirOf root np) np) i).1.1 st)
              (runO orcl (maildirOpendir (maildirOf root np) np) i).2.2).1.1
            (runO orcl (maildirClose
              (runO orcl (walk env orc b.expr (walkFuel env st root np) (runO orcl (maildirOpendir (maildirOf root np) np) i).1.1 st)
                (runO orcl (maildirOpendir (maildirOf root np) np) i).2.2).1.2)
              (runO orcl (walk env orc b.expr (walkFuel env st root np) (runO orcl (maildirOpendir (maildirOf root np) np) i).1.1 st)
                (runO orcl (maildirOpendir (maildirOf root np) np) i).2.2).2.2).2.2
      | _, _ => True

/-- The causes in a list of configuration blocks. -/
def BlocksErr (env : PEnv) (orc : EvalOracles) (orcl : Nat → Call → Res) (input : Bytes) :
    List ConfBlock → MainSt → Nat → Prop
  | [], _, _ => False
  | b :: rest, st, i =>
    PathsErr env orc orcl input b b.paths st i ∨
    BlocksErr env orc orcl input rest (runO orcl (mainP.blocks.paths env orc input b b.paths st) i).1
      (runO orcl (mainP.blocks.paths env orc input b b.paths st) i).2.2

/-- The causes of a non-zero exit status / error flag of a whole run: the configuration file cannot
be opened, the configuration is not valid, or (unless `-n`) a cause occurs in some block. -/
def MainErr (env : PEnv) (orc : EvalOracles) (orcl : Nat → Call → Res) (confOk : Bool) (conf : List ConfBlock)
    (files : Files) (input : Bytes) : Prop :=
  match orcl 0 (.fopen env.confpath) with
  | .ok _ =>
    confOk = false ∨
    (env.syntaxOnly = false ∧ BlocksErr env orc orcl input conf { files := files, error := false, reject := false, log := [] } 2)
  | _ => True

end Mdsort.Proofs

namespace Mdsort.Proofs.Own
open Mdsort Mdsort.Model Mdsort.Proofs
open Mdsort.Proofs.World (bind_eq pure_eq ret_bind call_bind' call_bind bind_assoc Calls All)

variable {R : Call → Res → Prop}

/-! ## the loop over the paths of a block -/

theorem paths_nil (env : PEnv) (orc : EvalOracles) (input : Bytes) (b : ConfBlock) (st : MainSt) :
    mainP.blocks.paths env orc input b [] st = .ret st := by
  rw [mainP.blocks.paths]
  rfl

theorem paths_cons (env : PEnv) (orc : EvalOracles) (input : Bytes) (b : ConfBlock) (p : Bytes) (more : List Bytes)
    (st : MainSt) :
    mainP.blocks.paths env orc input b (p :: more) st =
      if skipPath env p then mainP.blocks.paths env orc input b more st
      else if isStdinPath p then
        (maildirStdin env input).bind fun x =>
          if x.2.1 then (closeStdin (stdinFuel env) x.1).bind fun fo =>
            mainP.blocks.paths env orc input b more (orFuel { st with error := true } fo)
          else
            (walk env orc b.expr (stdinFuel env) x.1 (spooledSt st x.1 input x.2.2)).bind fun y =>
              (closeStdin (stdinFuel env) y.2).bind fun fo => mainP.blocks.paths env orc input b more (orFuel y.1 fo)
      else
        match strlcpyFits PATH_MAX p, pathjoin PATH_MAX p (subdirName .new) with
        | some root, some np =>
          (maildirOpendir (maildirOf root np) np).bind fun x =>
            if x.2 then mainP.blocks.paths env orc input b more { st with error := true }
            else
              (walk env orc b.expr (walkFuel env st root np) x.1 st).bind fun y =>
                (maildirClose y.2).bind fun _ => mainP.blocks.paths env orc input b more y.1
        | _, _ => mainP.blocks.paths env orc input b more { st with error := true } := by
  rw [mainP.blocks.paths]
  unfold skipPath
  split
  · rfl
  · split
    · rfl
    · first
        | rfl
        | (cases strlcpyFits PATH_MAX p <;> cases pathjoin PATH_MAX p (subdirName .new) <;> rfl)

theorem blocks_nil (env : PEnv) (orc : EvalOracles) (input : Bytes) (st : MainSt) :
    mainP.blocks env orc input [] st = .ret st := by
  rw [mainP.blocks]
  rfl

theorem blocks_cons (env : PEnv) (orc : EvalOracles) (input : Bytes) (b : ConfBlock) (rest : List ConfBlock) (st : MainSt) :
    mainP.blocks env orc input (b :: rest) st =
      (mainP.blocks.paths env orc input b b.paths st).bind fun st' => mainP.blocks env orc input rest st' := by
  rw [mainP.blocks]
  rfl

/-! ## frame -/

theorem inert_framedW (tr : Trace) (c : Call) (h : Inert c) : FramedW tr c := h.framedW tr

theorem framedW_paths (env : PEnv) (orc : EvalOracles) (input : Bytes) (b : ConfBlock) (hm : env.stdinMode = false)
    (ps : List Bytes) (st : MainSt) (tr : Trace) :
    wp R FramedW (mainP.blocks.paths env orc input b ps st) (fun _ _ => True) tr := by
  induction ps generalizing st tr with
  | nil => rw [paths_nil]; exact True.intro
  | cons p more ih =>
    rw [paths_cons]
    split
    · exact ih _ _
    · rename_i hsk
      split
      · rename_i hs
        exact absurd (by simp [skipPath, hm, hs]) hsk
      · split
        · refine wp_bind_ext (wp_inertW (inert_maildirOpendir _ _) _) ?_
          intro x L _
          split
          · exact ih _ _
          · refine wp_bind_ext (framedW_walk env orc b.expr _ _ _ _) ?_
            intro y L2 _
            refine wp_bind_ext (wp_inertW (inert_maildirClose _) _) ?_
            intro _ L3 _
            exact ih _ _
        · exact ih _ _

theorem framedW_blocks (env : PEnv) (orc : EvalOracles) (input : Bytes) (hm : env.stdinMode = false)
    (bs : List ConfBlock) (st : MainSt) (tr : Trace) :
    wp R FramedW (mainP.blocks env orc input bs st) (fun _ _ => True) tr := by
  induction bs generalizing st tr with
  | nil => rw [blocks_nil]; exact True.intro
  | cons b rest ih =>
    rw [blocks_cons]
    refine wp_bind_ext (framedW_paths env orc input b hm _ _ _) ?_
    intro st' L _
    exact ih _ _

/-- `mainP` after the configuration file was opened and closed. -/
def mainK (env : PEnv) (orc : EvalOracles) (confOk : Bool) (conf : List ConfBlock) (files : Files) (input : Bytes) :
    Prog (Nat × MainSt) :=
  if !confOk then .ret (exitStatus env { files := files, error := true, reject := false, log := [] },
      { files := files, error := true, reject := false, log := [] })
  else if env.syntaxOnly then .ret (exitStatus env { files := files, error := false, reject := false, log := [] },
      { files := files, error := false, reject := false, log := [] })
  else
    (mainP.blocks env orc input conf { files := files, error := false, reject := false, log := [] }).bind fun stf =>
      .ret (exitStatus env stf, stf)

theorem mainP_eq (env : PEnv) (orc : EvalOracles) (confOk : Bool) (conf : List ConfBlock) (files : Files) (input : Bytes) :
    mainP env orc confOk conf files input =
      .call (.fopen env.confpath) fun r =>
        match r with
        | .ok h => .call (.fclose h) fun _ => mainK env orc confOk conf files input
        | _ => .ret (exitStatus env { files := files, error := true, reject := false, log := [] },
            { files := files, error := true, reject := false, log := [] }) := by
  unfold mainP mainK
  simp only [bind_eq, pure_eq, call_bind]
  rfl

theorem framedW_mainP (env : PEnv) (orc : EvalOracles) (ok : Bool) (conf : List ConfBlock) (files : Files) (input : Bytes)
    (hm : env.stdinMode = false) (tr : Trace) :
    wp R FramedW (mainP env orc ok conf files input) (fun _ _ => True) tr := by
  rw [mainP_eq]
  refine wp_call (inert_framedW _ _ True.intro) fun r _ => ?_
  cases r with
  | ok h =>
    dsimp only
    refine wp_call (inert_framedW _ _ True.intro) fun r2 _ => ?_
    unfold mainK
    split
    · exact True.intro
    · split
      · exact True.intro
      · refine wp_bind_ext (framedW_blocks env orc input hm _ _ _) ?_
        intro stf L _
        exact True.intro
  | err e => exact True.intro
  | name n => exact True.intro
  | eof => exact True.intro

/-! ## where the error flag of a run comes from -/

theorem spooledSt_error (st : MainSt) (md : Maildir) (input : Bytes) (o : Option Bytes) :
    (spooledSt st md input o).error = st.error := by
  cases o <;> rfl

@[simp] theorem orFuel_error (st : MainSt) (fo : Bool) : (orFuel st fo).error = st.error := rfl
@[simp] theorem orFuel_files (st : MainSt) (fo : Bool) : (orFuel st fo).files = st.files := rfl
@[simp] theorem orFuel_reject (st : MainSt) (fo : Bool) : (orFuel st fo).reject = st.reject := rfl
@[simp] theorem orFuel_log (st : MainSt) (fo : Bool) : (orFuel st fo).log = st.log := rfl
@[simp] theorem orFuel_false (st : MainSt) : orFuel st false = st := by simp [orFuel]

theorem paths_error_iff (env : PEnv) (orc : EvalOracles) (orcl : Nat → Call → Res) (input : Bytes) (b : ConfBlock)
    (ps : List Bytes) (st : MainSt) (i : Nat) :
    (runO orcl (mainP.blocks.paths env orc input b ps st) i).1.error = true ↔
      st.error = true ∨ PathsErr env orc orcl input b ps st i := by
  induction ps generalizing st i with
  | nil =>
    rw [paths_nil]
    simp [PathsErr]
  | cons p more ih =>
    have hset : ∀ (st' : MainSt) j, st'.error = true →
        (runO orcl (mainP.blocks.paths env orc input b more st') j).1.error = true :=
      fun st' j h => (ih st' j).2 (.inl h)
    rw [paths_cons, PathsErr]
    by_cases hsk : skipPath env p = true
    · simp only [hsk, if_true]
      exact ih _ _
    · simp only [hsk, Bool.false_eq_true, if_false]
      by_cases hs : isStdinPath p = true
      · simp only [hs, if_true]
        rw [runO_bind]
        by_cases hf : (runO orcl (maildirStdin env input) i).1.2.1 = true
        · simp only [hf, if_true, or_true, iff_true]
          rw [runO_bind]
          exact hset _ _ rfl
        · simp only [hf, Bool.false_eq_true, if_false]
          rw [runO_bind, runO_bind, ih, orFuel_error, walk_error_iff, spooledSt_error, or_assoc]
      · simp only [hs, Bool.false_eq_true, if_false]
        split
        · rw [runO_bind]
          rename_i root np _ _
          by_cases hf : (runO orcl (maildirOpendir (maildirOf root np) np) i).1.2 = true
          · simp only [hf, if_true, or_true, iff_true]
            exact hset _ _ rfl
          · simp only [hf, Bool.false_eq_true, if_false]
            rw [runO_bind, runO_bind, ih, walk_error_iff, or_assoc]
        · simp only [or_true, iff_true]
          exact hset _ _ rfl

theorem blocks_error_iff (env : PEnv) (orc : EvalOracles) (orcl : Nat → Call → Res) (input : Bytes)
    (bs : List ConfBlock) (st : MainSt) (i : Nat) :
    (runO orcl (mainP.blocks env orc input bs st) i).1.error = true ↔
      st.error = true ∨ BlocksErr env orc orcl input bs st i := by
  induction bs generalizing st i with
  | nil =>
    rw [blocks_nil]
    simp [BlocksErr]
  | cons b rest ih =>
    rw [blocks_cons, runO_bind, BlocksErr, ih, paths_error_iff, or_assoc]

theorem mainP_error_iff (env : PEnv) (orc : EvalOracles) (orcl : Nat → Call → Res) (confOk : Bool) (conf : List ConfBlock)
    (files : Files) (input : Bytes) :
    (runO orcl (mainP env orc confOk conf files input) 0).1.2.error = true ↔
      MainErr env orc orcl confOk conf files input := by
  rw [mainP_eq, runO_call]
  unfold MainErr
  cases orcl 0 (.fopen env.confpath) with
  | ok h =>
    dsimp only
    rw [runO_call]
    unfold mainK
    cases confOk with
    | false => simp
    | true =>
      cases hsyn : env.syntaxOnly with
      | true => simp
      | false =>
        simp only [Bool.not_true, Bool.false_eq_true, if_false, runO_bind, runO_ret]
        rw [blocks_error_iff]
        simp
  | err e => simp
  | name n => simp
  | eof => simp

end Mdsort.Proofs.Own

namespace Mdsort.Proofs
open Mdsort Mdsort.Model
open Mdsort.Proofs.Own

/-- Frame of a whole run in maildir mode. -/
theorem mainP_frame (env : PEnv) (orc : EvalOracles) (ok : Bool) (conf : List ConfBlock) (files : Files) (input : Bytes)
    (hm : env.stdinMode = false) (orcl : Nat → Call → Res) :
    ∀ i c r, (runOracle orcl (mainP env orc ok conf files input) 0 []).2[i]? = some (c, r) →
      FramedW ((runOracle orcl (mainP env orc ok conf files input) 0 []).2.take i) c := by
  intro i c r hget
  exact (wp_sound (R := fun _ _ => True) orcl (fun _ _ => True.intro)
    (framedW_mainP env orc ok conf files input hm []) 0).2.2 i c r (Nat.zero_le _) hget

/-- The error flag of a whole run and its causes. -/
theorem mainP_error_oracle_iff (env : PEnv) (orc : EvalOracles) (orcl : Nat → Call → Res) (confOk : Bool)
    (conf : List ConfBlock) (files : Files) (input : Bytes) :
    (runOracle orcl (mainP env orc confOk conf files input) 0 []).1.2.error = true ↔
      MainErr env orc orcl confOk conf files input := by
  rw [runOracle_eq]
  exact mainP_error_iff env orc orcl confOk conf files input

end Mdsort.Proofs
