import Mdsort.Proofs.Inspect

/-!
# C06 - the explanations printed by a dry run are true

`matches_inspect` (match.c) prints, for every action entry of the match list, the line
`path -> destination` and then calls `expr_inspect` on every entry from `lhs` up to the action,
where `lhs` is the head of the list for the first action and the previous action entry afterwards:
the entries explained under an action are exactly the entries *since the previous action entry*
(not: since the `match` sentinel of the action's rule - see `ExplainedInActionRule` below, which
is false).  `expr_inspect` (expr.c) prints nothing unless the entry's type has `EXPR_FLAG_INSPECT`
(body, date, header in the generated table) and then, for every sub-match `i < mh_nmatches` with
`beg != end` (an unset group has `rm_so = rm_eo = -1`, so it is skipped by the same test), the
line of `mh_val` the sub-match begins in, without its leading blanks, and a marker line.

This file turns the two accumulator loops of the model (`matchesInspect.go`, `exprInspect.go`)
into that structure and proves each printed block true.
-/

namespace Mdsort.Proofs
open Mdsort Mdsort.Model

/-- The `path -> destination` line of one action entry. -/
def destLine (stdinMode : Bool) (path : Bytes) (mh : Match) : Bytes :=
  (if stdinMode then ofString "<stdin>" else path) ++ ofString " -> " ++
    (match mh.ty.info.label with
     | some l => l.toUTF8.toList
     | none => mh.path) ++ [10]

/-- The sub-matches `expr_inspect` prints: the set (`rm_so != -1`), non-empty (`beg != end`) ones, in order. -/
def printed (subs : List Sub) : List (Nat × Nat) :=
  subs.filterMap fun s =>
    match s.off with
    | some (b, e) => if b == e then none else some (b, e)
    | none => none

def printedSubs (mh : Match) : List (Nat × Nat) := printed mh.subs

/-- One explanation block: the head (`conf:lno: key: ` or blanks), the quoted line, and the marker
line `indent` blanks, `^`, `len` blanks, `$`. -/
structure Block where
  head : Bytes
  quoted : Bytes
  indent : Nat
  len : Nat
deriving Repr, DecidableEq

def Block.text (b : Block) : Bytes :=
  b.head ++ (b.quoted ++ ([10] ++ (spaces b.indent ++ ([94] ++ (spaces b.len ++ [36, 10])))))

/-- `L` is the line of `val` that starts at offset `start`: a contiguous segment of `val` without a
newline, preceded by the beginning of `val` or a newline and followed by the end of `val` or a newline. -/
def IsLineAt (val : Bytes) (start : Nat) (L : Bytes) : Prop :=
  ∃ pre post, val = pre ++ L ++ post ∧ pre.length = start ∧
    (pre = [] ∨ pre.getLast? = some 10) ∧ (post = [] ∨ post.head? = some 10) ∧ 10 ∉ L

/-- Block `b` is a true explanation of the sub-match `be = (beg, end)` of a pattern applied to `val`
under the name `key` by the expression of line `lno`:
* the head is `conf:lno: key: ` for the first block of an entry and `inspectHeadWidth` blanks (its columns: path and key
  measured by `width`, the rest in bytes - fix 951a0f1) afterwards;
* the quoted text is a line `L` of `val` without its leading blanks;
* if `beg` is an offset of `val` that is not a newline, `L` is the line `beg` lies in;
* the `$` marker is `width(matched text) - 2` columns after `^`;
* if the sub-match does not begin inside the leading blanks of `L`, `^` stands in the column of the first
  matched byte (the complement is the pinned finding F15). -/
def ExplainsSub (width : Bytes → Nat → Nat) (home confpath : Bytes) (lno : Nat) (key val : Bytes) (first : Bool)
    (be : Nat × Nat) (b : Block) : Prop :=
  b.head = (if first then inspectPrefix home confpath lno ++ key ++ [58, 32]
            else spaces (inspectHeadWidth width home confpath lno key)) ∧
  b.len = width (val.drop be.1) (be.2 - be.1) - 2 ∧
  ∃ start L, IsLineAt val start L ∧ b.quoted = L.drop (nspaces L) ∧
    (be.1 < val.length → val[be.1]? ≠ some 10 → start ≤ be.1 ∧ be.1 < start + L.length) ∧
    (start + nspaces L ≤ be.1 →
      b.indent = inspectHeadWidth width home confpath lno key +
        width (val.drop (start + nspaces L)) (be.1 - (start + nspaces L)))

/-- The blocks `bs` are a true and complete explanation of the entry `mh`: nothing for an entry whose
type lacks the INSPECT flag (or that carries no key/value: not a dry run), otherwise one block per
printed sub-match, in order. -/
def ExplainsEntry (width : Bytes → Nat → Nat) (home confpath : Bytes) (mh : Match) (bs : List Block) : Prop :=
  (mh.ty.isInspect = false ∨ mh.key = none ∨ mh.val = none → bs = []) ∧
  (∀ key val, mh.ty.isInspect = true → mh.key = some key → mh.val = some val →
    bs.length = (printedSubs mh).length ∧
    ∀ i (h1 : i < (printedSubs mh).length) (h2 : i < bs.length),
      ExplainsSub width home confpath mh.lno key val (decide (i = 0)) (printedSubs mh)[i] bs[i])

/-- The two lists have the same length and `R` holds position by position. -/
def Pointwise {α β} (R : α → β → Prop) : List α → List β → Prop
  | [], [] => True
  | a :: as, b :: bs => R a b ∧ Pointwise R as bs
  | _, _ => False

/-- What `-d` prints for one action entry: the entries explained under it and their blocks (one list
per entry). -/
structure Explained where
  entries : MatchList
  action : Match
  blocks : List (List Block)

def Explained.text (stdinMode : Bool) (path : Bytes) (g : Explained) : Bytes :=
  destLine stdinMode path g.action ++ g.blocks.flatten.flatMap Block.text

/-- The reading "an explanation printed under an action belongs to the rule of that action", in
terms of the list: no `match` sentinel (the entry `expr_eval_match` appends when the evaluation of a
rule starts) stands between an entry that prints something and the action it is printed under.
(For a configuration without nested blocks this is exactly "the rule that fired".)  It is FALSE for
mdsort: see `explainedInActionRule_false`. -/
def ExplainedInActionRule (width : Bytes → Nat → Nat) (home confpath : Bytes) (ml : MatchList) : Prop :=
  ∀ (before l r after : MatchList) (x a : Match),
    ml = before ++ (l ++ x :: r) ++ a :: after → a.ty.isAction = true →
    (∀ m ∈ l ++ x :: r, m.ty.isAction = false) →
    exprInspect width home confpath x ≠ [] → ∀ s ∈ r, s.ty ≠ .mtch

namespace InspT

/-! ### the line quoted by `expr_inspect` -/

theorem lineStart_inv (val : Bytes) (beg : Nat) : ∀ (fuel lbeg : Nat),
    (lbeg = 0 ∨ val[lbeg - 1]? = some 10) → lbeg ≤ val.length →
    (lineStart val beg fuel lbeg = 0 ∨ val[lineStart val beg fuel lbeg - 1]? = some 10) ∧
      lineStart val beg fuel lbeg ≤ val.length := by
  intro fuel
  induction fuel with
  | zero => intro lbeg h1 h2; simp only [lineStart]; exact ⟨h1, h2⟩
  | succ n ih =>
    intro lbeg h1 h2
    unfold lineStart
    cases hf : (val.drop lbeg).findIdx? (· == 10) with
    | none => dsimp only; exact ⟨h1, h2⟩
    | some k =>
      dsimp only
      by_cases hgt : lbeg + k > beg
      · simp only [hgt, ↓reduceIte]; exact ⟨h1, h2⟩
      · simp only [hgt, ↓reduceIte]
        obtain ⟨A, x, B, hAB, hA, hx, _⟩ := Insp.findIdx?_some_split _ _ _ hf
        have hx10 : x = 10 := by simpa using hx
        subst hx10
        have hk : val[lbeg + k]? = some 10 := by
          have : (val.drop lbeg)[k]? = some 10 := by rw [hAB]; simp [← hA]
          simpa using this
        have hlt : lbeg + k < val.length := by
          rcases List.getElem?_eq_some_iff.1 hk with ⟨h, _⟩; exact h
        apply ih (lbeg + k + 1) _ (by omega)
        right; simpa using hk

theorem dropWhile_head {α} (p : α → Bool) (l : List α) :
    l.dropWhile p = [] ∨ ∃ a r, l.dropWhile p = a :: r ∧ p a = false := by
  induction l with
  | nil => left; rfl
  | cons a r ih =>
    by_cases ha : p a = true
    · simpa [ha] using ih
    · right; exact ⟨a, r, by simp [ha], by simpa using ha⟩

theorem mem_takeWhile {α} (p : α → Bool) (l : List α) (x : α) (h : x ∈ l.takeWhile p) : p x = true := by
  induction l with
  | nil => simp at h
  | cons a r ih =>
    by_cases ha : p a = true
    · rw [List.takeWhile_cons, ha] at h
      simp only [↓reduceIte] at h
      rcases List.mem_cons.1 h with rfl | h
      · exact ha
      · exact ih h
    · rw [List.takeWhile_cons] at h
      simp [ha] at h

theorem isLineAt_of (val : Bytes) (l0 : Nat) (h0 : l0 = 0 ∨ val[l0 - 1]? = some 10) (hle : l0 ≤ val.length) :
    IsLineAt val l0 ((val.drop l0).takeWhile (· != 10)) := by
  refine ⟨val.take l0, (val.drop l0).dropWhile (· != 10), ?_, ?_, ?_, ?_, ?_⟩
  · rw [List.append_assoc, List.takeWhile_append_dropWhile, List.take_append_drop]
  · rw [List.length_take]; omega
  · by_cases hz : l0 = 0
    · left; simp [hz]
    · right
      rcases h0 with h | h
      · exact absurd h hz
      · rw [List.getLast?_eq_getElem?, List.length_take, Nat.min_eq_left hle, List.getElem?_take]
        simp only [show l0 - 1 < l0 by omega, ↓reduceIte, h]
  · rcases dropWhile_head (· != 10) (val.drop l0) with h | ⟨a, r, h, ha⟩
    · left; exact h
    · right
      have : a = 10 := by simpa using ha
      rw [h, this]; rfl
  · intro hm
    have := mem_takeWhile (fun y => y != 10) _ _ hm
    simp at this

theorem takeWhile_len_ge (a b : Bytes) (c : UInt8) (r : Bytes) (hb : ∀ x ∈ b, (x != 10) = true) (hc : (c != 10) = true) :
    b.length < (((a ++ b ++ c :: r).drop a.length).takeWhile (· != 10)).length := by
  rw [List.append_assoc, List.drop_left, List.takeWhile_append_of_pos hb, List.takeWhile_cons]
  simp only [hc, ↓reduceIte, List.length_append, List.length_cons]
  omega

/-- The line `lineOf` (hence `lineStart`) finds contains the offset. -/
theorem line_contains (val : Bytes) (beg : Nat) (hb : beg < val.length) (hnl : val[beg]? ≠ some 10) :
    (lineOf val beg).2 ≤ beg ∧
      beg < (lineOf val beg).2 + ((val.drop (lineOf val beg).2).takeWhile (· != 10)).length := by
  have hs : (lineOf val beg).2 = beg - ((val.take beg).reverse.takeWhile (· != 10)).length := rfl
  rw [hs]
  have hd := List.takeWhile_append_dropWhile (p := (· != 10)) (l := (val.take beg).reverse)
  have hmem0 : ∀ x ∈ (val.take beg).reverse.takeWhile (· != 10), (x != 10) = true :=
    fun x hx => mem_takeWhile (fun y => y != 10) _ x hx
  generalize (val.take beg).reverse.takeWhile (· != 10) = t at hd hmem0 ⊢
  generalize (val.take beg).reverse.dropWhile (· != 10) = d at hd
  have htake : val.take beg = d.reverse ++ t.reverse := by
    have := congrArg List.reverse hd
    simpa using this.symm
  have hlen : d.length + t.length = beg := by
    have := congrArg List.length htake
    simp only [List.length_take, List.length_append, List.length_reverse] at this
    omega
  have hmem : ∀ x ∈ t.reverse, (x != 10) = true := fun x hx => hmem0 x (List.mem_reverse.1 hx)
  have hc : val.drop beg = val[beg] :: val.drop (beg + 1) := List.drop_eq_getElem_cons hb
  have hc10 : (val[beg] != 10) = true := by
    rw [List.getElem?_eq_getElem hb] at hnl
    simpa using hnl
  have hval : d.reverse ++ t.reverse ++ val[beg] :: val.drop (beg + 1) = val := by
    rw [← htake, ← hc, List.take_append_drop]
  have key := takeWhile_len_ge d.reverse t.reverse val[beg] (val.drop (beg + 1)) hmem hc10
  rw [hval] at key
  have hdl : d.reverse.length = beg - t.length := by rw [List.length_reverse]; omega
  rw [hdl, List.length_reverse] at key
  omega

/-! ### `expr_inspect` as a list of blocks -/

/-- The block the model prints for the sub-match `be` (transcribed from `exprInspect.go`). -/
def blockOf (width : Bytes → Nat → Nat) (home confpath : Bytes) (lno : Nat) (key val : Bytes) (first : Bool)
    (be : Nat × Nat) : Block :=
  let pre := inspectPrefix home confpath lno ++ key ++ [58, 32]
  let l0 := lineStart val be.1 (val.length + 1) 0
  let lbeg := l0 + nspaces (val.drop l0)
  { head := if first then pre else spaces (inspectHeadWidth width home confpath lno key)
    quoted := (val.drop lbeg).takeWhile (· != 10)
    indent := inspectHeadWidth width home confpath lno key + width (val.drop lbeg) (if lbeg ≤ be.1 then be.1 - lbeg else val.length - lbeg)
    len := width (val.drop be.1) (be.2 - be.1) - 2 }

theorem blockOf_explains (width : Bytes → Nat → Nat) (home confpath : Bytes) (lno : Nat) (key val : Bytes) (first : Bool)
    (be : Nat × Nat) :
    ExplainsSub width home confpath lno key val first be (blockOf width home confpath lno key val first be) := by
  obtain ⟨beg, en⟩ := be
  obtain ⟨h0, hle⟩ := lineStart_inv val beg (val.length + 1) 0 (Or.inl rfl) (Nat.zero_le _)
  have hcont : beg < val.length → val[beg]? ≠ some 10 →
      lineStart val beg (val.length + 1) 0 ≤ beg ∧
      beg < lineStart val beg (val.length + 1) 0 +
        ((val.drop (lineStart val beg (val.length + 1) 0)).takeWhile (· != 10)).length := by
    intro hb hnl
    rw [Insp.lineStart_eq val beg hb hnl]
    exact line_contains val beg hb hnl
  unfold ExplainsSub blockOf
  dsimp only
  generalize lineStart val beg (val.length + 1) 0 = l0 at h0 hle hcont ⊢
  have hns : nspaces (val.drop l0) = nspaces ((val.drop l0).takeWhile (· != 10)) :=
    (Insp.nspaces_takeWhile _).symm
  refine ⟨rfl, rfl, l0, (val.drop l0).takeWhile (· != 10), isLineAt_of val l0 h0 hle, ?_, hcont, ?_⟩
  · rw [← List.drop_drop, Insp.drop_nspaces_takeWhile, hns]
  · intro hlead
    rw [← hns] at hlead ⊢
    simp only [hlead, ↓reduceIte]

theorem len_eq (w : Nat) : (if w ≥ 2 then w - 2 else 0) = w - 2 := by split <;> omega

theorem printed_cons_none (s : Sub) (rest : List Sub) (h : s.off = none) : printed (s :: rest) = printed rest := by
  simp only [printed, List.filterMap_cons, h]

theorem printed_cons_empty (s : Sub) (rest : List Sub) (b e : Nat) (h : s.off = some (b, e)) (hbe : (b == e) = true) :
    printed (s :: rest) = printed rest := by
  simp only [printed, List.filterMap_cons, h, hbe, ↓reduceIte]

theorem printed_cons_some (s : Sub) (rest : List Sub) (b e : Nat) (h : s.off = some (b, e)) (hbe : (b == e) = false) :
    printed (s :: rest) = (b, e) :: printed rest := by
  simp only [printed, List.filterMap_cons, h, hbe, Bool.false_eq_true, ↓reduceIte]

theorem go_false (width : Bytes → Nat → Nat) (home confpath : Bytes) (mh : Match) (key val : Bytes) (subs : List Sub) :
    ∀ out : Bytes,
    exprInspect.go width home confpath mh key val subs false
        (inspectHeadWidth width home confpath mh.lno key) out =
      out ++ ((printed subs).map (blockOf width home confpath mh.lno key val false)).flatMap Block.text := by
  induction subs with
  | nil => intro out; simp [exprInspect.go, printed]
  | cons s rest ih =>
    intro out
    rw [exprInspect.go]
    cases hoff : s.off with
    | none => dsimp only; rw [ih, printed_cons_none s rest hoff]
    | some be =>
      obtain ⟨b, e⟩ := be
      dsimp only
      by_cases hbe : (b == e) = true
      · simp only [hbe, ↓reduceIte]
        rw [ih, printed_cons_empty s rest b e hoff hbe]
      · have hbe' : (b == e) = false := by simpa using hbe
        simp only [hbe', Bool.false_eq_true, ↓reduceIte]
        rw [ih, printed_cons_some s rest b e hoff hbe']
        simp only [List.map_cons, List.flatMap_cons, Block.text, blockOf, len_eq, Bool.false_eq_true, ↓reduceIte,
          List.append_assoc]

theorem go_true (width : Bytes → Nat → Nat) (home confpath : Bytes) (mh : Match) (key val : Bytes) (subs : List Sub) :
    ∀ out : Bytes,
    exprInspect.go width home confpath mh key val subs true (width key key.length + 2) out =
      out ++ (match printed subs with
        | [] => []
        | be :: rest =>
          (blockOf width home confpath mh.lno key val true be :: rest.map (blockOf width home confpath mh.lno key val false)).flatMap
            Block.text) := by
  induction subs with
  | nil => intro out; simp [exprInspect.go, printed]
  | cons s rest ih =>
    intro out
    rw [exprInspect.go]
    cases hoff : s.off with
    | none => dsimp only; rw [ih, printed_cons_none s rest hoff]
    | some be =>
      obtain ⟨b, e⟩ := be
      dsimp only
      by_cases hbe : (b == e) = true
      · simp only [hbe, ↓reduceIte]
        rw [ih, printed_cons_empty s rest b e hoff hbe]
      · have hbe' : (b == e) = false := by simpa using hbe
        have hP : width key key.length + 2 + inspectPrefixWidth width home confpath mh.lno =
            inspectHeadWidth width home confpath mh.lno key := rfl
        simp only [hbe', Bool.false_eq_true, ↓reduceIte]
        rw [hP, go_false, printed_cons_some s rest b e hoff hbe']
        simp only [List.flatMap_cons, Block.text, blockOf, len_eq, ↓reduceIte, List.append_assoc]

/-- The blocks of one entry. -/
def entryBlocks (width : Bytes → Nat → Nat) (home confpath : Bytes) (mh : Match) : List Block :=
  if mh.ty.isInspect then
    match mh.key, mh.val with
    | some key, some val =>
      match printedSubs mh with
      | [] => []
      | be :: rest =>
        blockOf width home confpath mh.lno key val true be :: rest.map (blockOf width home confpath mh.lno key val false)
    | _, _ => []
  else []

theorem exprInspect_eq (width : Bytes → Nat → Nat) (home confpath : Bytes) (mh : Match) :
    exprInspect width home confpath mh = (entryBlocks width home confpath mh).flatMap Block.text := by
  unfold exprInspect entryBlocks
  by_cases hi : mh.ty.isInspect = true
  · simp only [hi, Bool.not_true, Bool.false_eq_true, ↓reduceIte]
    cases hk : mh.key with
    | none => simp
    | some key =>
      cases hv : mh.val with
      | none => simp
      | some val =>
        dsimp only
        rw [go_true, List.nil_append]
        unfold printedSubs
        cases printed mh.subs <;> simp
  · simp [hi]

theorem entryBlocks_explains (width : Bytes → Nat → Nat) (home confpath : Bytes) (mh : Match) :
    ExplainsEntry width home confpath mh (entryBlocks width home confpath mh) := by
  constructor
  · intro h
    unfold entryBlocks
    rcases h with h | h | h
    · simp [h]
    · simp only [h]; split <;> rfl
    · simp only [h]
      split
      · cases mh.key <;> rfl
      · rfl
  · intro key val hi hk hv
    unfold entryBlocks
    simp only [hi, hk, hv, ↓reduceIte]
    cases hp : printedSubs mh with
    | nil => exact ⟨rfl, fun i h1 => absurd h1 (Nat.not_lt_zero _)⟩
    | cons be rest =>
      dsimp only
      refine ⟨by simp, ?_⟩
      intro i h1 h2
      cases i with
      | zero => exact blockOf_explains width home confpath mh.lno key val true be
      | succ j =>
        simp only [List.getElem_cons_succ, List.getElem_map, Nat.add_one_ne_zero, decide_false]
        exact blockOf_explains width home confpath mh.lno key val false _

/-! ### `matches_inspect` as a list of groups -/

theorem inspect_go_true (width : Bytes → Nat → Nat) (home confpath : Bytes) (stdinMode : Bool) (path : Bytes) (rest : MatchList) :
    ∀ (pending : MatchList) (out : Bytes), (∀ m ∈ pending, m.ty.isAction = false) →
    ∃ (groups : List (MatchList × Match)) (tail : MatchList),
      pending ++ rest = groups.flatMap (fun g => g.1 ++ [g.2]) ++ tail ∧
      (∀ m ∈ tail, m.ty.isAction = false) ∧
      (∀ g ∈ groups, g.2.ty.isAction = true ∧ ∀ m ∈ g.1, m.ty.isAction = false) ∧
      matchesInspect.go width home confpath stdinMode true path rest pending out =
        out ++ groups.flatMap (fun g => destLine stdinMode path g.2 ++ g.1.flatMap (exprInspect width home confpath)) := by
  induction rest with
  | nil =>
    intro pending out hp
    exact ⟨[], pending, by simp, hp, by simp, by simp [matchesInspect.go]⟩
  | cons mh more ih =>
    intro pending out hp
    rw [matchesInspect.go]
    by_cases ha : mh.ty.isAction = true
    · simp only [ha, Bool.not_true, Bool.false_eq_true, ↓reduceIte]
      obtain ⟨groups, tail, h1, h2, h3, h4⟩ := ih [] (out ++ destLine stdinMode path mh ++
        pending.flatMap (exprInspect width home confpath)) (by simp)
      refine ⟨(pending, mh) :: groups, tail, ?_, h2, ?_, ?_⟩
      · rw [List.nil_append] at h1
        simp only [List.flatMap_cons, h1, List.append_assoc, List.cons_append, List.nil_append]
      · intro g hg
        rcases List.mem_cons.1 hg with rfl | hg
        · exact ⟨ha, hp⟩
        · exact h3 g hg
      · change matchesInspect.go width home confpath stdinMode true path more []
            (out ++ destLine stdinMode path mh ++ List.flatMap (exprInspect width home confpath) pending) = _
        rw [h4]
        simp only [List.flatMap_cons, List.append_assoc]
    · have ha' : mh.ty.isAction = false := by simpa using ha
      simp only [ha', Bool.not_false, ↓reduceIte]
      obtain ⟨groups, tail, h1, h2, h3, h4⟩ := ih (pending ++ [mh]) out (by
        intro m hm
        rcases List.mem_append.1 hm with hm | hm
        · exact hp m hm
        · rw [List.mem_singleton.1 hm]; exact ha')
      refine ⟨groups, tail, ?_, h2, h3, h4⟩
      rw [← h1]; simp

theorem flatMap_entryBlocks (width : Bytes → Nat → Nat) (home confpath : Bytes) (es : MatchList) :
    es.flatMap (exprInspect width home confpath) =
      (es.map (entryBlocks width home confpath)).flatten.flatMap Block.text := by
  induction es with
  | nil => rfl
  | cons e r ih =>
    simp only [List.flatMap_cons, List.map_cons, List.flatten_cons, List.flatMap_append, ih, exprInspect_eq]

theorem pointwise_entryBlocks (width : Bytes → Nat → Nat) (home confpath : Bytes) (es : MatchList) :
    Pointwise (ExplainsEntry width home confpath) es (es.map (entryBlocks width home confpath)) := by
  induction es with
  | nil => exact trivial
  | cons e r ih => exact ⟨entryBlocks_explains width home confpath e, ih⟩

end InspT

/-- **The explanations printed by a dry run are true.**  The text `matches_inspect` prints in a dry run
is, for a unique splitting of the list at its action entries into groups (entries since the previous
action, action) and trailing entries, the concatenation over the groups of the action's
`path -> destination` line and the blocks of the group's entries, where the blocks of each entry are
a true and complete explanation of it (`ExplainsEntry`). -/
theorem explanations_true (width : Bytes → Nat → Nat) (home confpath : Bytes) (stdinMode : Bool) (path : Bytes) (ml : MatchList) :
    ∃ (groups : List Explained) (tail : MatchList),
      ml = groups.flatMap (fun g => g.entries ++ [g.action]) ++ tail ∧
      (∀ m ∈ tail, m.ty.isAction = false) ∧
      matchesInspect width home confpath stdinMode true path ml = groups.flatMap (Explained.text stdinMode path) ∧
      ∀ g ∈ groups, g.action.ty.isAction = true ∧ (∀ m ∈ g.entries, m.ty.isAction = false) ∧
        Pointwise (ExplainsEntry width home confpath) g.entries g.blocks := by
  obtain ⟨pairs, tail, h1, h2, h3, h4⟩ :=
    InspT.inspect_go_true width home confpath stdinMode path ml [] [] (by simp)
  refine ⟨pairs.map (fun p => ⟨p.1, p.2, p.1.map (InspT.entryBlocks width home confpath)⟩), tail, ?_, h2, ?_, ?_⟩
  · rw [List.nil_append] at h1
    rw [h1, List.flatMap_map]
  · unfold matchesInspect
    rw [h4, List.nil_append, List.flatMap_map]
    congr 1
    funext p
    simp only [Explained.text, InspT.flatMap_entryBlocks]
  · intro g hg
    obtain ⟨p, hp, rfl⟩ := List.mem_map.1 hg
    exact ⟨(h3 p hp).1, (h3 p hp).2, InspT.pointwise_entryBlocks width home confpath p.1⟩

/-- The INSPECT flag of the generated table: header, body and date conditions, and no action. -/
theorem isInspect_iff (t : MType) : t.isInspect = true ↔ t = .body ∨ t = .date ∨ t = .header := by
  cases t <;> decide

theorem isInspect_not_action (t : MType) (h : t.isInspect = true) : t.isAction = false := by
  cases t <;> revert h <;> decide

/-- What a dry run records for a pattern that matched: the entry appended by `expr_regexec` for a
body, date or header condition carries the name and exactly the value the regular expression was
applied to, and the offsets the regex engine returned for that value; hence every set, non-empty
group of the engine's answer is one of the `printedSubs` (and nothing else is). -/
theorem regexec_records (env : Env) (ty : MType) (lno part : Nat) (p : Pat) (key val : Bytes) (st : St)
    (groups : List (Option (Nat × Nat)))
    (hty : ty.isInspect = true) (hd : env.dryrun = true) (hrx : env.rx p val = .ok groups) :
    exprRegexec env ty lno part p key val st =
      (.match, { st with ml := st.ml ++ [{ ty := ty, lno := lno, part := part, subs := matchCopy p val groups,
                                           pat := some p, key := some key, val := some val }] }) ∧
    printed (matchCopy p val groups) =
      groups.filterMap (fun g => match g with
        | some (so, eo) => if so == eo then none else some (so, eo)
        | none => none) := by
  constructor
  · have hp : ty.isPath = false := by
      rcases (isInspect_iff ty).1 hty with h | h | h <;> subst h <;> decide
    have hm : (ty != .move && ty != .flag) = true := by
      rcases (isInspect_iff ty).1 hty with h | h | h <;> subst h <;> decide
    unfold exprRegexec
    simp only [hrx, matchesAppend, matchesMerge, hm, ↓reduceIte, hp, Bool.not_false, Bool.false_eq_true, hd]
    simp
  · unfold printed matchCopy
    rw [List.filterMap_map]
    congr 1
    funext g
    cases g with
    | none => rfl
    | some se => obtain ⟨so, eo⟩ := se; rfl

/-- A printing entry prints something. -/
theorem Block.text_ne_nil (b : Block) : b.text ≠ [] := by
  intro h
  have := congrArg List.length h
  simp [Block.text] at this

theorem exprInspect_ne_nil (width : Bytes → Nat → Nat) (home confpath : Bytes) (mh : Match) (key val : Bytes)
    (hi : mh.ty.isInspect = true) (hk : mh.key = some key) (hv : mh.val = some val) (hp : printedSubs mh ≠ []) :
    exprInspect width home confpath mh ≠ [] := by
  rw [InspT.exprInspect_eq]
  unfold InspT.entryBlocks
  simp only [hi, hk, hv, ↓reduceIte]
  cases hq : printedSubs mh with
  | nil => exact absurd hq hp
  | cons be rest =>
    dsimp only
    rw [List.flatMap_cons]
    intro h
    exact Block.text_ne_nil _ (List.append_eq_nil_iff.1 h).1

/-! ## The witness against `ExplainedInActionRule`

```
2: match date modified > 10 seconds and date created > 5000 seconds move "/d1"
3: match date access > 10 seconds move "/d2"
```
on a file with `st_mtim = 100`, `st_ctim = 200`, `st_atim = 300` at `now = 1000`: the first rule does not
fire (the second condition is false) but the entry of its first condition stays in the match list, and
`-d` prints it under the action of the second rule.  (Date conditions on the file are used because
their evaluation does not involve the header parser; the same happens with header and body
conditions and was reproduced on the real binary, see the report.) -/
namespace InspWit

def t100 : Bytes := [84, 104, 117, 44, 32, 48, 49, 32, 74, 97, 110, 32, 49, 57, 55, 48, 32, 48, 48, 58, 48, 49, 58, 52, 48]   -- Thu, 01 Jan 1970 00:01:40 (`time_format`)
def t200 : Bytes := [84, 104, 117, 44, 32, 48, 49, 32, 74, 97, 110, 32, 49, 57, 55, 48, 32, 48, 48, 58, 48, 51, 58, 50, 48]   -- Thu, 01 Jan 1970 00:03:20 (`time_format`)
def t300 : Bytes := [84, 104, 117, 44, 32, 48, 49, 32, 74, 97, 110, 32, 49, 57, 55, 48, 32, 48, 48, 58, 48, 53, 58, 48, 48]   -- Thu, 01 Jan 1970 00:05:00 (`time_format`)
def anyPat : Pat := { src := [46, 42] }

def env : Env where
  rx := fun p v => if p.src == [46, 42] then .ok [some (0, v.length)] else .nomatch
  command := fun _ => 0
  isDir := fun _ => false
  now := 1000
  strptime := fun _ => none
  zoneName := fun _ => none
  fileTime := fun _ => some { atime := 300, mtime := 100, ctime := 200 }
  timeFormat := fun t => if t = 100 then some t100 else if t = 200 then some t200 else if t = 300 then some t300 else none
  dryrun := true
  path := [47, 109, 47, 110, 101, 119, 47, 49]       -- /m/new/1

def msg : Msg := { headers := [], body := [] }

def tree : Expr :=
  .block 1 (.or 1
    (.mtch 2 (.and 2 (.date 2 .modified .gt 10) (.date 2 .created .gt 5000)) (.move 2 [47, 100, 49]))
    (.mtch 3 (.date 3 .access .gt 10) (.move 3 [47, 100, 50])))

def eMtch2 : Match := { ty := .mtch, lno := 2, part := 0 }
def eDate2 : Match :=
  { ty := .date, lno := 2, part := 0, subs := [{ str := t100, off := some (0, 25) }],
    key := some (ofString "Date"), val := some t100, pat := some anyPat }
def eMtch3 : Match := { ty := .mtch, lno := 3, part := 0 }
def eDate3 : Match :=
  { ty := .date, lno := 3, part := 0, subs := [{ str := t300, off := some (0, 25) }],
    key := some (ofString "Date"), val := some t300, pat := some anyPat }
def eMove : Match :=
  { ty := .move, lno := 3, part := 0, maildir := [47, 100, 50], subdir := [110, 101, 119],
    path := [47, 100, 50, 47, 110, 101, 119], strings := [[47, 100, 50]] }

/-- The match list the evaluator returns. -/
def ml : MatchList := [eMtch2, eDate2, eMtch3, eDate3, eMove]

theorem eval_eq : (eval env msg tree 0 msg { ml := [], flags := MFlags.empty }).1 = .match ∧
    (eval env msg tree 0 msg { ml := [], flags := MFlags.empty }).2.ml = ml := by
  simp only [tree, eval]
  decide +kernel

end InspWit

theorem explainedInActionRule_false :
    ¬ ExplainedInActionRule widthCn [47, 104] [99, 111, 110, 102]
      (eval InspWit.env InspWit.msg InspWit.tree 0 InspWit.msg { ml := [], flags := MFlags.empty }).2.ml := by
  intro h
  rw [InspWit.eval_eq.2] at h
  have hne : exprInspect widthCn [47, 104] [99, 111, 110, 102] InspWit.eDate2 ≠ [] :=
    exprInspect_ne_nil _ _ _ InspWit.eDate2 (ofString "Date") InspWit.t100 (by decide) rfl rfl (by decide)
  exact h [] [InspWit.eMtch2] [InspWit.eMtch3, InspWit.eDate3] [] InspWit.eDate2 InspWit.eMove
    rfl (by decide) (by decide) hne InspWit.eMtch3 (by simp) rfl

end Mdsort.Proofs
