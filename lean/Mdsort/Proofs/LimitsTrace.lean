import Mdsort.Proofs.LimitsMain

/-!
# What the simulation means for the traces of calls

`runOracle orc p i tr` runs `p` against ARBITRARY call results (`orc j c` is the result of the `j`-th call): every
behaviour of the file system, every fault plan and every interleaving with other processes is one such oracle.
-/

namespace Mdsort.Proofs.Limits
open Mdsort Mdsort.Model Mdsort.Proofs.World

/-- The calls (with their results) a program issues from call index `i` on, and its value. -/
def callsFrom {α} (orc : Nat → Call → Res) (p : Prog α) (i : Nat) : List (Call × Res) := (runOracle orc p i []).2
def valueFrom {α} (orc : Nat → Call → Res) (p : Prog α) (i : Nat) : α := (runOracle orc p i []).1

theorem runOracle_eq {α} (orc : Nat → Call → Res) (p : Prog α) : ∀ (i : Nat) (tr : List (Call × Res)),
    runOracle orc p i tr = (valueFrom orc p i, tr ++ callsFrom orc p i) := by
  induction p with
  | ret a => intro i tr; simp [runOracle, valueFrom, callsFrom]
  | call c k ih =>
    intro i tr
    simp only [runOracle, valueFrom, callsFrom]
    rw [ih, ih (orc i c) (i + 1) ([] ++ [(c, orc i c)])]
    simp [valueFrom, callsFrom]

@[simp] theorem callsFrom_ret {α} (orc : Nat → Call → Res) (a : α) (i : Nat) : callsFrom orc (Prog.ret a) i = [] := rfl
@[simp] theorem valueFrom_ret {α} (orc : Nat → Call → Res) (a : α) (i : Nat) : valueFrom orc (Prog.ret a) i = a := rfl

theorem callsFrom_call {α} (orc : Nat → Call → Res) (c : Call) (k : Res → Prog α) (i : Nat) :
    callsFrom orc (Prog.call c k) i = (c, orc i c) :: callsFrom orc (k (orc i c)) (i + 1) := by
  simp only [callsFrom, runOracle]
  rw [runOracle_eq]
  simp [callsFrom]

theorem valueFrom_call {α} (orc : Nat → Call → Res) (c : Call) (k : Res → Prog α) (i : Nat) :
    valueFrom orc (Prog.call c k) i = valueFrom orc (k (orc i c)) (i + 1) := by
  simp only [valueFrom, runOracle]
  rw [runOracle_eq]
  rfl

theorem callsFrom_bind {α β} (orc : Nat → Call → Res) (p : Prog α) (f : α → Prog β) : ∀ i,
    callsFrom orc (p.bind f) i = callsFrom orc p i ++ callsFrom orc (f (valueFrom orc p i)) (i + (callsFrom orc p i).length) := by
  induction p with
  | ret a => intro i; simp [Prog.bind]
  | call c k ih =>
    intro i
    simp only [Prog.bind, callsFrom_call, valueFrom_call, ih, List.cons_append, List.length_cons]
    congr 3
    omega

theorem valueFrom_bind {α β} (orc : Nat → Call → Res) (p : Prog α) (f : α → Prog β) : ∀ i,
    valueFrom orc (p.bind f) i = valueFrom orc (f (valueFrom orc p i)) (i + (callsFrom orc p i).length) := by
  induction p with
  | ret a => intro i; simp [Prog.bind]
  | call c k ih =>
    intro i
    simp only [Prog.bind, callsFrom_call, valueFrom_call, ih, List.length_cons]
    congr 1
    omega

theorem _root_.Mdsort.Proofs.World.All.valueFrom {α} {P : α → Prop} {p : Prog α} (h : All P p) (orc : Nat → Call → Res) : ∀ i, P (valueFrom orc p i) := by
  induction p with
  | ret a => intro i; exact h
  | call c k ih => intro i; rw [valueFrom_call]; exact ih _ (h _) _

theorem _root_.Mdsort.Proofs.World.Calls.callsFrom {α} {Q : Call → Prop} {p : Prog α} (h : Calls Q p) (orc : Nat → Call → Res) :
    ∀ i, ∀ x ∈ callsFrom orc p i, Q x.1 := by
  induction p with
  | ret a => intro i x hx; simp at hx
  | call c k ih =>
    intro i x hx
    rw [callsFrom_call] at hx
    rcases List.mem_cons.1 hx with rfl | hx
    · exact h.1
    · exact ih _ (h.2 _) _ x hx

/-- Lock step up to `S`, read off the traces: the two runs are identical, or they share a prefix `pre` - the same calls
with the same arguments and the same results - after which the first run continues as a program `p'` with `S p'`. -/
theorem Sim.trace {α} {S : Prog α → Prop} {p q : Prog α} (h : Sim S p q) (orc : Nat → Call → Res) : ∀ i,
    (valueFrom orc p i = valueFrom orc q i ∧ callsFrom orc p i = callsFrom orc q i) ∨
      ∃ (pre : List (Call × Res)) (p' q' : Prog α), S p' ∧
        callsFrom orc p i = pre ++ callsFrom orc p' (i + pre.length) ∧
        callsFrom orc q i = pre ++ callsFrom orc q' (i + pre.length) ∧
        valueFrom orc p i = valueFrom orc p' (i + pre.length) := by
  induction h with
  | ret a => intro i; exact .inl ⟨rfl, rfl⟩
  | call c k k' _ ih =>
    intro i
    rcases ih (orc i c) (i + 1) with ⟨h1, h2⟩ | ⟨pre, p', q', hs, h1, h2, h3⟩
    · left
      simp only [callsFrom_call, valueFrom_call, h1, h2, and_self]
    · right
      refine ⟨(c, orc i c) :: pre, p', q', hs, ?_, ?_, ?_⟩
      · rw [callsFrom_call, h1]
        simp only [List.cons_append, List.length_cons]
        congr 3
        omega
      · rw [callsFrom_call, h2]
        simp only [List.cons_append, List.length_cons]
        congr 3
        omega
      · rw [valueFrom_call, h3]
        simp only [List.length_cons]
        congr 1
        omega
  | stop p q hs =>
    intro i
    exact .inr ⟨[], p, q, hs, by simp, by simp, by simp⟩

/-- A unit of work (or any function below it), call by call: every call of the run under the smaller limits is the call
the run under the larger limits issues at the same position - same arguments, same result - or, after the overflow, a
release of a descriptor; and if anything differs, the value is an error value. -/
theorem Sim.trace_relErr {α} {E : α → Prop} {p q : Prog α} (h : Sim (RelErr E) p q) (orc : Nat → Call → Res) (i : Nat) :
    ∃ (pre rels : List (Call × Res)), callsFrom orc p i = pre ++ rels ∧ pre <+: callsFrom orc q i ∧
      (∀ x ∈ rels, x.1.isRelease = true) ∧
      ((valueFrom orc p i = valueFrom orc q i ∧ rels = [] ∧ pre = callsFrom orc q i) ∨ E (valueFrom orc p i)) := by
  rcases h.trace orc i with ⟨h1, h2⟩ | ⟨pre, p', q', hs, h1, h2, h3⟩
  · exact ⟨callsFrom orc q i, [], by simp [h2], List.prefix_refl _, by simp, .inl ⟨h1, rfl, rfl⟩⟩
  · refine ⟨pre, callsFrom orc p' (i + pre.length), h1, ?_, ?_, .inr ?_⟩
    · rw [h2]; exact List.prefix_append _ _
    · exact fun x hx => hs.1.callsFrom orc _ x hx
    · rw [h3]; exact hs.2.valueFrom orc _

/-- The whole run, call by call up to the first overflow: identical runs, or a common prefix `pre` of identical calls,
after which the run under the smaller limits only releases (`rels`) what the unit that overflowed holds, goes on with
the next unit (`rest`), and ends in `Err`. -/
theorem Sim.trace_stopped {α : Type} {Err : α → Prop} {p q : Prog α}
    (h : Sim (Stopped Err) p q) (orc : Nat → Call → Res) (i : Nat) :
    (valueFrom orc p i = valueFrom orc q i ∧ callsFrom orc p i = callsFrom orc q i) ∨
      ∃ (pre rels rest : List (Call × Res)), callsFrom orc p i = pre ++ rels ++ rest ∧ pre <+: callsFrom orc q i ∧
        (∀ x ∈ rels, x.1.isRelease = true) ∧ Err (valueFrom orc p i) := by
  rcases h.trace orc i with h1 | ⟨pre, p', q', ⟨β, rel, k, rfl, hrel, hall⟩, h1, h2, h3⟩
  · exact .inl h1
  · right
    refine ⟨pre, callsFrom orc rel (i + pre.length),
      callsFrom orc (k (valueFrom orc rel (i + pre.length))) (i + pre.length + (callsFrom orc rel (i + pre.length)).length),
      ?_, ?_, ?_, ?_⟩
    · rw [h1, callsFrom_bind, List.append_assoc]
    · rw [h2]; exact List.prefix_append _ _
    · exact fun x hx => hrel.callsFrom orc _ x hx
    · rw [h3, valueFrom_bind]
      exact (hall.valueFrom orc _).valueFrom orc _

end Mdsort.Proofs.Limits
