import Mdsort.Proofs.PartiesExactly
import Mdsort.Proofs.PartiesSnapshot

/-! F14 on the model: a `label` party and `move` parties on the same maildir deliver the message
twice.  The programs are the scripts themselves (`matchesExec`, `scanExec`); the run is evaluated
by the kernel.  Two evaluations are not kernel-reducible (`List.mergeSort` is defined by
well-founded recursion): the header order in `message_write` and the sorted directory snapshot of
`readdir`; they are rewritten beforehand with proved equations. -/

namespace Mdsort.Proofs.Parties.W
set_option linter.unusedSimpArgs false
open Mdsort Mdsort.Model
open Mdsort.Proofs.World (bind_eq pure_eq ret_bind call_bind' call_bind)
open Mdsort.Proofs.Own (errTail matchesExec_cons)

def env (pid : Nat) : PEnv :=
  { now := 7, pid := pid, host := [104], random := 0, tmpdir := ofString "/t", home := ofString "/h",
    confpath := ofString "/c", dryrun := false, syntaxOnly := false, stdinMode := false }

/-- The message: `To: u`, empty line, `hi`. -/
def content : Bytes := ofString "To: u\n\nhi\n"

def fs : World :=
  { dirs := [(ofString "/m/new", [(ofString "a", 0)]), (ofString "/m/cur", []), (ofString "/d/new", []), (ofString "/d/cur", [])],
    files := [(0, { data := content, durable := content })], nextFid := 1, handles := [], devs := [], mtimes := [], trace := [] }

def md : Maildir :=
  { root := ofString "/m", path := ofString "/m/new", dirH := some 0, subdir := .new, walk := true, stdin := false }

def msg : Msg := { headers := [⟨0, ofString "To", ofString "u"⟩], body := ofString "hi\n" }
/-- The message with the label header added (what `label "l"` hands to `matches_exec`). -/
def labelled : Msg :=
  { headers := [⟨0, ofString "To", ofString "u"⟩, ⟨1, ofString "X-Label", ofString "l"⟩], body := ofString "hi\n" }

def ms (n : Bytes) (m : Msg) : MsgSt :=
  { name := n, path := ofString "/m/new/" ++ n, fd := none, msg := m, parts := [], flags := (flagsParse n).getD MFlags.empty,
    loc := some (ofString "/m/new", n), content := content }

def stOf (n : Bytes) (m : Msg) : ExecSt := { src := md, chsrc := false, ms := ms n m, reject := false }

def labelAct : Match := { ty := .label, lno := 1, part := 0 }
def moveAct : Match := { ty := .move, lno := 1, part := 0, path := ofString "/d/new" }

/-- The name party A gives its labelled copy (`now.pid_count.host:2,`). -/
def nameA : Bytes := ofString "7.1_1.h:2,"

/-- A: `label` on the message `a`. -/
def partyA : Prog Bool := errOf (matchesExec (env 1) [labelAct] (stOf (ofString "a") labelled))
/-- B1: `move "/d"` on the message `a`. -/
def partyB1 : Prog Bool := errOf (matchesExec (env 2) [moveAct] (stOf (ofString "a") msg))
/-- B2: `move "/d"` on the name A created (what a listing of `/m/new` shows while A is at work). -/
def partyB2 : Prog Bool := errOf (matchesExec (env 3) [moveAct] (stOf nameA msg))
/-- B: list `/m/new` and `move "/d"` every name found. -/
def partyB : Prog Bool := scanExec (env 2) md (fun n => some ([moveAct], ms n msg)) 8 false

/-- `move "/d"` on the message `a`, by process `pid`. -/
def mover (pid : Nat) : Prog Bool := errOf (matchesExec (env pid) [moveAct] (stOf (ofString "a") msg))

def dirH : List Obj := [.dir (ofString "/m/new") none 0]

/-! ## `message_write` with the headers already in order -/

def writeSorted (byId : List Hdr) (body : Bytes) (fd : Handle) : Prog Bool := do
  let r ← call (.dupfd fd)
  match r with
  | .ok newfd =>
    let r2 ← call (.fdopen newfd)
    if !isOk r2 then
      let _ ← call (.close newfd)
      pure true
    else
      let herr ← messageWriteP.hdrs newfd byId
      let err1 ← (if herr then pure true else do
        let r ← call (.fprintf newfd ([10] ++ body))
        if !isOk r then pure true
        else
          let r ← call (.fflush newfd)
          if !isOk r then pure true
          else
            let r ← call (.fsync newfd)
            pure (!isOk r))
      let r3 ← call (.fclose newfd)
      pure (err1 || !isOk r3)
  | _ => pure true

theorem messageWriteP_eq (m : Msg) (fd : Handle) : messageWriteP m fd = writeSorted (sortById m.headers) m.body fd := by
  unfold messageWriteP writeSorted
  rfl

theorem sort_labelled : sortById labelled.headers = labelled.headers :=
  List.mergeSort_of_pairwise (by decide)

/-- `maildir_write` of a message state, with the writing of the message as a parameter. -/
def maildirWriteWith (wr : Handle → Prog Bool) (e : PEnv) (md : Maildir) (ms : MsgSt) : Prog (MsgSt × Bool) := do
  match msgflags md.subdir md.subdir ms.flags with
  | none => pure (ms, true)
  | some fl =>
    let g ← gennameStart e md (some fl)
    match g with
    | none => pure (ms, true)
    | some (fd, name) =>
      let we ← wr fd
      let _ ← call (.close fd)
      let err ← (if we then pure true else maildirUnlink md ms.name)
      if err then
        let _ ← maildirUnlink md name
        pure (ms, true)
      else
        let ms := { ms with loc := some (md.path, name), content := (messageWrite ms.msg).1 }
        match md.dirH with
        | none => pure (ms, true)
        | some d =>
          let r ← call (.openRd d name)
          match r with
          | .ok rdfd =>
            let (ms', e) ← messageSetFile ms md.path name (some rdfd)
            if e then
              let _ ← call (.close rdfd)
              pure (ms', true)
            else pure (ms', false)
          | _ => pure (ms, true)

theorem maildirWrite_eq (e : PEnv) (md : Maildir) (ms : MsgSt) :
    maildirWrite e md ms = maildirWriteWith (messageWriteP ms.msg) e md ms := by
  unfold maildirWrite maildirWriteWith
  rfl

theorem write_labelled (n : Bytes) :
    messageWriteP (ms n labelled).msg = writeSorted labelled.headers labelled.body := by
  funext fd
  rw [messageWriteP_eq]
  show writeSorted (sortById labelled.headers) labelled.body fd = _
  rw [sort_labelled]

/-- A's program with the header order computed: kernel-reducible. -/
def partyA' : Prog Bool :=
  errOf (((maildirWriteWith (writeSorted labelled.headers labelled.body) (env 1) md (ms (ofString "a") labelled)).bind fun x =>
      (Prog.ret ({ stOf (ofString "a") labelled with ms := x.1 }, x.2) : Prog (ExecSt × Bool))).bind fun x =>
    if x.2 = true then errTail x.1 else matchesExec (env 1) [] x.1)

theorem partyA_eq : partyA = partyA' := by
  unfold partyA partyA'
  rw [matchesExec_cons]
  have h : execOne (env 1) labelAct (stOf (ofString "a") labelled) =
      (maildirWrite (env 1) md (ms (ofString "a") labelled)).bind fun x =>
        (Prog.ret ({ stOf (ofString "a") labelled with ms := x.1 }, x.2) : Prog (ExecSt × Bool)) := by
    unfold execOne
    rfl
  rw [h, maildirWrite_eq, write_labelled]

/-! ## F14 with three single-message parties -/

/-- A labels `a`; B1 moves `a`; B2 moves the name A created. -/
def s0 : Shared := Shared.init fs [(partyA, dirH), (partyB1, dirH), (partyB2, dirH)]
def s0' : Shared := Shared.init fs [(partyA', dirH), (partyB1, dirH), (partyB2, dirH)]

theorem s0_eq : s0 = s0' := by unfold s0 s0'; rw [partyA_eq]

/-- A up to and including its `fsync` (8 calls), then B2 and B1 to completion, then the rest of A. -/
def sched : List Nat := List.replicate 8 0 ++ List.replicate 12 2 ++ List.replicate 12 1 ++ List.replicate 6 0

set_option maxRecDepth 1000000 in
theorem run_quiescent' : (runSched s0' sched).quiescent = true := by decide +kernel

set_option maxRecDepth 1000000 in
theorem run_dup' : (stageEntries (runSched s0' sched).fs content).length = 2 := by decide +kernel

set_option maxRecDepth 1000000 in
theorem run_results' : (runSched s0' sched).parties.map (·.result) = [some true, some false, some false] := by
  decide +kernel

set_option maxRecDepth 1000000 in
/-- `H_iso` excludes the F14 schedule (B2 renames a name A has in flight). -/
theorem run_not_iso' : Hiso s0' sched = false := by decide +kernel

theorem run_not_iso : Hiso s0 sched = false := by rw [s0_eq]; exact run_not_iso'

theorem run_quiescent : (runSched s0 sched).quiescent = true := by rw [s0_eq]; exact run_quiescent'
theorem run_dup : (stageEntries (runSched s0 sched).fs content).length = 2 := by rw [s0_eq]; exact run_dup'

/-! ## F14 with a listing party: B lists `/m/new` between A's `fsync` and A's `unlinkat` -/

def t0 : Shared := Shared.init fs [(partyA, dirH), (partyB, dirH)]
def t0' : Shared := Shared.init fs [(partyA', dirH), (partyB, dirH)]

theorem t0_eq : t0 = t0' := by unfold t0 t0'; rw [partyA_eq]

/-- A up to and including its `fsync`; B's first `readdir` (the listing) and the rest of B; the rest of A. -/
def schedL : List Nat := List.replicate 8 0 ++ (1 :: (List.replicate 21 1 ++ List.replicate 6 0))

/-- The directory `/m/new` when B lists it: the original and A's complete copy. -/
def midEntries : List (Bytes × Nat) := [(ofString "a", 0), (nameA, 1)]

theorem sorted_mid : sortedNames midEntries = [[46], [46, 46], nameA, ofString "a"] := by
  have h1 : ([46] : Bytes) ≤ [46, 46] := by decide
  have h2 : ¬ (ofString "a" ≤ ofString "7.1_1.h:2,") := by decide +kernel
  have h3 : ([46] : Bytes) ≤ ofString "7.1_1.h:2," := by decide +kernel
  have h4 : ([46, 46] : Bytes) ≤ ofString "7.1_1.h:2," := by decide +kernel
  simp [midEntries, sortedNames, List.mergeSort, nameA, h1, h2, h3, h4]

/-- The state in which B lists the directory, with the listing stored in B's stream. -/
def tMid : Shared :=
  setSnap (runSched t0' (List.replicate 8 0)) 1 0 (ofString "/m/new") [[46], [46, 46], nameA, ofString "a"]

set_option maxRecDepth 1000000 in
theorem runL_eq : runSched t0' schedL = runSched (stepParty tMid 1) (List.replicate 21 1 ++ List.replicate 6 0) := by
  unfold schedL tMid
  rw [runSched_append]
  show runSched (stepParty (runSched t0' (List.replicate 8 0)) 1) _ = _
  rw [readdir_snapshot (runSched t0' (List.replicate 8 0)) 1 0 (ofString "/m/new") midEntries
    (by decide +kernel) (by decide +kernel) (by decide +kernel), sorted_mid]

set_option maxRecDepth 1000000 in
theorem runL_quiescent' : (runSched (stepParty tMid 1) (List.replicate 21 1 ++ List.replicate 6 0)).quiescent = true := by
  decide +kernel

set_option maxRecDepth 1000000 in
theorem runL_dup' :
    (stageEntries (runSched (stepParty tMid 1) (List.replicate 21 1 ++ List.replicate 6 0)).fs content).length = 2 := by
  decide +kernel

theorem runL_quiescent : (runSched t0 schedL).quiescent = true := by rw [t0_eq, runL_eq]; exact runL_quiescent'
theorem runL_dup : (stageEntries (runSched t0 schedL).fs content).length = 2 := by rw [t0_eq, runL_eq]; exact runL_dup'

/-! ## F13: a listing party picks up the placeholder of a mover -/

def fs3 : World :=
  { dirs := [(ofString "/m/new", [(ofString "a", 0)]), (ofString "/m/cur", []), (ofString "/d/new", []), (ofString "/d/cur", []),
             (ofString "/x/new", []), (ofString "/x/cur", [])],
    files := [(0, { data := content, durable := content })], nextFid := 1, handles := [], devs := [], mtimes := [], trace := [] }

def mdD : Maildir :=
  { root := ofString "/d", path := ofString "/d/new", dirH := some 0, subdir := .new, walk := true, stdin := false }

def moveX : Match := { ty := .move, lno := 1, part := 0, path := ofString "/x/new" }

def msD (n : Bytes) : MsgSt :=
  { name := n, path := ofString "/d/new/" ++ n, fd := none, msg := msg, parts := [], flags := (flagsParse n).getD MFlags.empty,
    loc := some (ofString "/d/new", n), content := [] }

/-- C: list `/d/new` and `move "/x"` every name found. -/
def partyC : Prog Bool := scanExec (env 2) mdD (fun n => some ([moveX], msD n)) 8 false

/-- A = `move "/d"` of `new/a` (process 1), C lists `/d/new`. -/
def u0 : Shared := Shared.init fs3 [(mover 1, dirH), (partyC, [.dir (ofString "/d/new") none 0])]

/-- A up to and including the exclusive create of its placeholder in `/d/new` (3 calls); C's listing
and the rest of C; the rest of A. -/
def schedU : List Nat := List.replicate 3 0 ++ (1 :: (List.replicate 12 1 ++ List.replicate 6 0))

theorem sorted_placeholder : sortedNames [(nameA, 1)] = [[46], [46, 46], nameA] := by
  have h1 : ([46] : Bytes) ≤ [46, 46] := by decide
  have h3 : ([46] : Bytes) ≤ ofString "7.1_1.h:2," := by decide +kernel
  have h4 : ([46, 46] : Bytes) ≤ ofString "7.1_1.h:2," := by decide +kernel
  simp [sortedNames, List.mergeSort, nameA, h1, h3, h4]

def uMid : Shared := setSnap (runSched u0 (List.replicate 3 0)) 1 0 (ofString "/d/new") [[46], [46, 46], nameA]

set_option maxRecDepth 1000000 in
theorem runU_eq : runSched u0 schedU = runSched (stepParty uMid 1) (List.replicate 12 1 ++ List.replicate 6 0) := by
  unfold schedU uMid
  rw [runSched_append]
  show runSched (stepParty (runSched u0 (List.replicate 3 0)) 1) _ = _
  rw [readdir_snapshot (runSched u0 (List.replicate 3 0)) 1 0 (ofString "/d/new") [(nameA, 1)]
    (by decide +kernel) (by decide +kernel) (by decide +kernel), sorted_placeholder]

set_option maxRecDepth 1000000 in
theorem runU_facts' :
    (runSched (stepParty uMid 1) (List.replicate 12 1 ++ List.replicate 6 0)).quiescent = true ∧
    (runSched (stepParty uMid 1) (List.replicate 12 1 ++ List.replicate 6 0)).parties.map (·.result) = [some false, some false] ∧
    (runSched (stepParty uMid 1) (List.replicate 12 1 ++ List.replicate 6 0)).fs.entries =
      [(ofString "/d/new", nameA, 0), (ofString "/x/new", ofString "7.2_1.h:2,", 1)] ∧
    (runSched (stepParty uMid 1) (List.replicate 12 1 ++ List.replicate 6 0)).fs.content 1 = [] := by
  decide +kernel

set_option maxRecDepth 1000000 in
theorem runU_iso' : Hiso (stepParty uMid 1) (List.replicate 12 1 ++ List.replicate 6 0) = false := by decide +kernel

/-- `H_iso` excludes the F13 schedule (C renames a name A has in flight). -/
theorem runU_not_iso : Hiso u0 schedU = false := by
  unfold schedU
  rw [Hiso_append]
  show (Hiso u0 (List.replicate 3 0) && (isoStep (runSched u0 (List.replicate 3 0)) 1 &&
    Hiso (stepParty (runSched u0 (List.replicate 3 0)) 1) (List.replicate 12 1 ++ List.replicate 6 0))) = false
  rw [readdir_snapshot (runSched u0 (List.replicate 3 0)) 1 0 (ofString "/d/new") [(nameA, 1)]
    (by decide +kernel) (by decide +kernel) (by decide +kernel), sorted_placeholder]
  show (_ && (_ && Hiso (stepParty uMid 1) _)) = false
  rw [runU_iso']
  simp

theorem runU_facts :
    (runSched u0 schedU).quiescent = true ∧
    (runSched u0 schedU).parties.map (·.result) = [some false, some false] ∧
    (runSched u0 schedU).fs.entries = [(ofString "/d/new", nameA, 0), (ofString "/x/new", ofString "7.2_1.h:2,", 1)] ∧
    (runSched u0 schedU).fs.content 1 = [] := by
  rw [runU_eq]; exact runU_facts'

/-! ## two movers racing for one message, and the client (the setting of the exactly-once theorem) -/

def content2 : Bytes := ofString "To: v\n\nho\n"

def fs2 : World :=
  { dirs := [(ofString "/m/new", [(ofString "a", 0), (ofString "b", 1)]), (ofString "/m/cur", []),
             (ofString "/d/new", []), (ofString "/d/cur", [])],
    files := [(0, { data := content, durable := content }), (1, { data := content2, durable := content2 })],
    nextFid := 2, handles := [], devs := [], mtimes := [], trace := [] }

/-- The client marks `b` as seen: `new/b -> cur/b:2,S`. -/
def client : Prog Bool := clientProg [.rename 0 (ofString "b") 1 (ofString "b:2,S")]
def clientH : List Obj := [.dir (ofString "/m/new") none 0, .dir (ofString "/m/cur") none 0]

def m0 : Shared := Shared.init fs2 [(mover 1, dirH), (mover 2, dirH), (client, clientH)]

/-- Round robin. -/
def schedM : List Nat := (List.replicate 9 [0, 1, 2]).flatten

set_option maxRecDepth 1000000 in
theorem m_checks : startChecks m0 = true := by decide +kernel
set_option maxRecDepth 1000000 in
theorem m_iso : Hiso m0 schedM = true := by decide +kernel
set_option maxRecDepth 1000000 in
theorem m_quiescent : (runSched m0 schedM).quiescent = true := by decide +kernel
set_option maxRecDepth 1000000 in
theorem m_results : (runSched m0 schedM).parties.map (·.result) = [some false, some true, some false] := by decide +kernel
set_option maxRecDepth 1000000 in
theorem m_final : (runSched m0 schedM).fs.entries =
    [(ofString "/m/cur", ofString "b:2,S", 1), (ofString "/d/new", ofString "7.1_1.h:2,", 0)] := by decide +kernel
set_option maxRecDepth 1000000 in
theorem m_norebind : (runSched m0 schedM).log.all (fun e => !e.binds (ofString "/m/new", ofString "a")) = true := by
  decide +kernel
set_option maxRecDepth 1000000 in
theorem m_removals : ((runSched m0 schedM).log.filter (fun e => e.attempts (ofString "/m/new", ofString "a"))).map
      (fun e => (e.party, e.res)) = [(0, .ok 0), (1, .err "ENOENT")] := by
  decide +kernel

theorem m_startOK : StartOK m0 := by
  refine startOK_of_checks m0 (fresh_init _ _) m_checks ?_
  intro i ps h
  have hm : ps ∈ m0.parties := List.mem_of_getElem? h
  simp only [m0, Shared.init, List.map_cons, List.map_nil, List.mem_cons, List.not_mem_nil, or_false] at hm
  rcases hm with rfl | rfl | rfl
  · exact .inl ⟨env 1, [moveAct], stOf (ofString "a") msg, by simp [isMover, moveAct], rfl⟩
  · exact .inl ⟨env 2, [moveAct], stOf (ofString "a") msg, by simp [isMover, moveAct], rfl⟩
  · exact .inr ⟨_, rfl⟩

end Mdsort.Proofs.Parties.W
