import Mdsort.Proofs.LimitsTrace
import Mdsort.Proofs.LimitsConf

/-!
# The run from the configuration TEXT under two sets of limits

`mainTextL L` parses the configuration with an `expandtilde` buffer of `L.pathMax` bytes and runs `mainPL L` over the
trees.  For `L ≤ L'`: either both parsers give the same verdict and the runs are those of `mainPL_psim`, or the parser
under `L` rejects the configuration ("path too long") - then the run under `L` opens and closes the configuration file,
which the run under `L'` does as well, and stops with the error status: no maildir is opened.
-/

namespace Mdsort.Proofs.Limits
open Mdsort Mdsort.Model Mdsort.Proofs.World

theorem parseConfigL_invalidDefs_iff (l : Lim) (home : Bytes) (defs : List (Bytes × Bytes)) (rxOk : Pat → Bool) (input : Bytes) :
    parseConfigL l home defs rxOk input = .invalidDefs ↔ macrosOfDefs defs [] = none := by
  unfold parseConfigL parseConfigFullL
  cases macrosOfDefs defs [] with
  | none => simp
  | some ms =>
    simp only [reduceCtorEq, iff_false]
    split
    · split <;> simp
    · simp
    · simp

/-- A run that stops with the error status after the configuration file (`confOk = false`). -/
theorem mainPL_badconf_sim {L L' : Limits} (env : PEnv) (orc : EvalOracles) (confOk : Bool) (conf conf0 : List ConfBlock) (files : Files)
    (input : Bytes) :
    Sim (Stopped MainErr) (mainPL L env orc false conf0 files input) (mainPL L' env orc confOk conf files input) := by
  unfold mainPL
  simp only [bind_eq, pure_eq, call_bind, Bool.not_false, if_true]
  apply Sim.call
  intro r
  split
  · apply Sim.call
    intro _
    refine Sim.stop _ _ ⟨_, Prog.ret _, Prog.ret, rfl, trivial, ?_⟩
    exact ⟨rfl, exitStatus_ne_zero env _ rfl⟩
  · exact Sim.refl _

theorem mainTextL_sim {L L' : Limits} (hle : L ≤ L') (hs : Sane L) (env : PEnv) (orc : EvalOracles) (rxOk : Pat → Bool)
    (defs : List (Bytes × Bytes)) (confText : Bytes) (files : Files) (input : Bytes) :
    Sim (Stopped MainErr) (mainTextL L env orc rxOk defs confText files input) (mainTextL L' env orc rxOk defs confText files input) := by
  unfold mainTextL
  rcases parseConfigL_mono hle.1 env.home defs rxOk confText with h | ⟨line, h⟩
  · rw [h]
    split
    · exact Sim.refl _
    · split
      · exact (mainPL_psim env orc L L' true _ files input).sim hle hs
      · exact (mainPL_psim env orc L L' false _ files input).sim hle hs
    · exact (mainPL_psim env orc L L' false _ files input).sim hle hs
    · exact (mainPL_psim env orc L L' false _ files input).sim hle hs
  · rw [h]
    simp only
    have hnd : parseConfigL L'.pathMax env.home defs rxOk confText ≠ .invalidDefs := by
      intro h'
      have h1 := (parseConfigL_invalidDefs_iff L'.pathMax env.home defs rxOk confText).1 h'
      have h2 := (parseConfigL_invalidDefs_iff L.pathMax env.home defs rxOk confText).2 h1
      rw [h] at h2
      cases h2
    split
    · rename_i h'; exact absurd h' hnd
    · split
      · exact mainPL_badconf_sim env orc _ _ _ files input
      · exact mainPL_badconf_sim env orc _ _ _ files input
    · exact mainPL_badconf_sim env orc _ _ _ files input
    · exact mainPL_badconf_sim env orc _ _ _ files input

/-- A configuration rejected by the parser (here: for an over-long `~` path) is rejected as a whole: the run is the one of
`Model.mainP` with verdict "rejected" - the configuration file is opened and closed, nothing else. -/
theorem mainTextL_rejected (L : Limits) (env : PEnv) (orc : EvalOracles) (rxOk : Pat → Bool) (defs : List (Bytes × Bytes))
    (confText : Bytes) (files : Files) (input : Bytes) {line : Nat}
    (h : parseConfigL L.pathMax env.home defs rxOk confText = .error line) :
    mainTextL L env orc rxOk defs confText files input = mainP env orc false [] files input := by
  unfold mainTextL
  rw [h]
  unfold mainPL mainP
  simp only [Bool.not_false, if_true]
  rfl

end Mdsort.Proofs.Limits

namespace Mdsort.Proofs.Limits
open Mdsort Mdsort.Model Mdsort.Proofs.World

/-- `maildir_opendir` keeps the paths of the maildir. -/
theorem maildirOpendir_paths (md : Maildir) (p : Bytes) :
    All (fun r : Maildir × Bool => r.1.path = md.path ∧ r.1.root = md.root) (maildirOpendir md p) := by
  unfold maildirOpendir
  simp only [bind_eq, pure_eq, call_bind]
  split
  · intro _ r
    cases r <;> exact ⟨rfl, rfl⟩
  · intro r
    cases r <;> exact ⟨rfl, rfl⟩

/-- What `maildir_close` of the spool will `rmdir` after ANY outcome of `maildir_stdin`, overflow included: `md_path` is
empty or `md_root/new` in full, and `md_root` is empty or what `mkdtemp` returned - never a shortened path
(`md->md_root[0] = '\0'`, `md->md_path[0] = '\0'`: "do not leave a truncated path behind"). -/
theorem maildirStdinL_paths (L : Limits) (env : PEnv) (input : Bytes) :
    All (fun r : Maildir × Bool × Option Bytes => r.1.path = [] ∨ r.1.path = r.1.root ++ [47] ++ subdirName .new)
      (maildirStdinL L env input) := by
  unfold maildirStdinL
  simp only [bind_eq, pure_eq, call_bind]
  split
  · exact .inl rfl
  · intro r
    dsimp only
    split
    · rename_i root
      cases hj : pathjoinL L.pathMax root (subdirName .new) with
      | none => exact .inl rfl
      | some p =>
        have hp : p = root ++ [47] ++ subdirName .new := by
          rw [pathjoinL_exact] at hj
          split at hj
          · exact (Option.some.inj hj).symm
          · cases hj
        subst hp
        simp only
        intro r2
        dsimp only
        split
        · exact .inr rfl
        · refine All.bind ((maildirOpendir_paths _ _).mono fun x hx => ?_)
          obtain ⟨h1, h2⟩ := hx
          have hgood : x.1.path = x.1.root ++ [47] ++ subdirName .new := by rw [h1, h2]
          split
          · exact .inr hgood
          · apply All.bind_of_forall
            intro g
            split
            · exact .inr hgood
            · apply All.bind_of_forall
              intro _
              apply All.bind_of_forall
              intro _
              intro _
              exact .inr hgood
    · exact .inl rfl

end Mdsort.Proofs.Limits
