import Mdsort.Proofs.WorldFds
import Mdsort.Proofs.WorldDryF21

/-!
# Descriptor hygiene: two evaluated runs of `main` (non-vacuity of C13_fd_hygiene)

Maildir `/m` with the message `new/1.h`; the rule `match all exec "true"` resp. `match all exec stdin "cat"`; every call
returns the result listed in `results` (descriptors 3, 4, 5, 6, 7 in the order of creation).
-/

namespace Mdsort.Proofs.FdsEx
open Mdsort Mdsort.Model

/-- `match all exec "true"` / `match all exec stdin "cat"` -/
def rule (stdin : Bool) : Expr := .mtch 1 (.all 1) (.exec 1 stdin false [if stdin then ofString "cat" else ofString "true"])

def conf (stdin : Bool) : List ConfBlock := [{ paths := [[47, 109]], expr := rule stdin }]

/-- The results of the calls, in order. -/
def results (stdin : Bool) : List Res :=
  [.ok 3, .ok 0,                        -- fopen, fclose of the configuration
   .ok 4, .name exName,                 -- opendir /m/new, readdir
   .ok 5, .ok 7, .ok 0] ++              -- openat 1.h, read, read (end of file)
  (if stdin then [.ok 6, .ok 0] else [.ok 6]) ++   -- dup + lseek  |  open /dev/null
  [.ok 0, .ok 0,                        -- fork, waitpid
   .ok 0, .ok 0,                        -- close 6, close 5
   .eof, .ok 0, .ok 7, .eof, .ok 0]     -- readdir, closedir 4, opendir /m/cur, readdir, closedir 7

def orcl (stdin : Bool) : Nat → Call → Res := fun i _ => ((results stdin)[i]?).getD (.ok 0)

/-- The calls and results of the run. -/
def trace (stdin : Bool) : List (Call × Res) :=
  (runOracle (orcl stdin) (mainP exEnv wholeExOrc true (conf stdin) wholeExFiles []) 0 []).2

set_option maxRecDepth 100000 in
theorem trace_nostdin :
    (trace false).map (·.1) =
      [.fopen exEnv.confpath, .fclose 3, .opendir exNew, .readdir 4, .openRd 4 exName, .read 5, .read 5,
       .openPath (ofString "/dev/null"), .fork [ofString "true"] 6, .waitpid, .close 6, .close 5,
       .readdir 4, .closedir 4, .opendir exCur, .readdir 7, .closedir 7] := by
  unfold trace
  rw [Own.mainP_eq]
  unfold Own.mainK
  simp only [conf, Own.blocks_cons, Own.blocks_nil, Own.paths_cons, Own.paths_nil, dry_walk_G _ _ (rule false) (by decide), dry_walk_G _ _ (rule true) (by decide)]
  simp only [rule, eval]
  decide +kernel

set_option maxRecDepth 100000 in
theorem trace_stdin :
    (trace true).map (·.1) =
      [.fopen exEnv.confpath, .fclose 3, .opendir exNew, .readdir 4, .openRd 4 exName, .read 5, .read 5,
       .dupfd 5, .lseek 6, .fork [ofString "cat"] 6, .waitpid, .close 6, .close 5,
       .readdir 4, .closedir 4, .opendir exCur, .readdir 7, .closedir 7] := by
  unfold trace
  rw [Own.mainP_eq]
  unfold Own.mainK
  simp only [conf, Own.blocks_cons, Own.blocks_nil, Own.paths_cons, Own.paths_nil, dry_walk_G _ _ (rule false) (by decide), dry_walk_G _ _ (rule true) (by decide)]
  simp only [rule, eval]
  decide +kernel

set_option maxRecDepth 100000 in
/-- The descriptor table at the `fork` (call 8 resp. 9): the stream of `/m/new`, the message, and `/dev/null` resp. the
duplicate of the message's descriptor - each with the call that created it; and at the end of the run nothing is open. -/
theorem tables :
    (trace false)[8]? = some (.fork [ofString "true"] 6, .ok 0) ∧
    openFdsBy ((trace false).take 8) = [(4, .opendir exNew), (5, .openRd 4 exName), (6, .openPath (ofString "/dev/null"))] ∧
    openFds ((trace false).take 8) = [4, 5, 6] ∧ openFds (trace false) = [] ∧
    (trace true)[9]? = some (.fork [ofString "cat"] 6, .ok 0) ∧
    openFdsBy ((trace true).take 9) = [(4, .opendir exNew), (5, .openRd 4 exName), (6, .dupfd 5)] ∧
    ((trace true).take 9).getLast? = some (.lseek 6, .ok 0) ∧ openFds (trace true) = [] := by
  unfold trace
  rw [Own.mainP_eq, Own.mainP_eq]
  unfold Own.mainK
  simp only [conf, Own.blocks_cons, Own.blocks_nil, Own.paths_cons, Own.paths_nil, dry_walk_G _ _ (rule false) (by decide), dry_walk_G _ _ (rule true) (by decide)]
  simp only [rule, eval]
  decide +kernel

set_option maxRecDepth 100000 in
theorem before_fork :
    (trace false)[7]? = some (.openPath Own.devNull, .ok 6) ∧
    (trace true)[7]? = some (.dupfd 5, .ok 6) ∧ (trace true)[8]? = some (.lseek 6, .ok 0) := by
  unfold trace
  rw [Own.mainP_eq, Own.mainP_eq]
  unfold Own.mainK
  simp only [conf, Own.blocks_cons, Own.blocks_nil, Own.paths_cons, Own.paths_nil, dry_walk_G _ _ (rule false) (by decide), dry_walk_G _ _ (rule true) (by decide)]
  simp only [rule, eval]
  decide +kernel

/-! ## (package p14) a vector with blanks, quotes and `*`: three configured strings, three arguments -/

/-- `match all exec { "printf" "a b 'c' *" "-x" }` -/
def ruleA : Expr := .mtch 1 (.all 1) (.exec 1 false false [ofString "printf", ofString "a b 'c' *", ofString "-x"])

def confA : List ConfBlock := [{ paths := [[47, 109]], expr := ruleA }]

def traceA : List (Call × Res) :=
  (runOracle (orcl false) (mainP exEnv wholeExOrc true confA wholeExFiles []) 0 []).2

set_option maxRecDepth 100000 in
/-- The `fork` (call 8) carries the three configured strings as three arguments, byte for byte, and the handle 6 that the
call before (`open("/dev/null")`) returned. -/
theorem tablesA :
    traceA[7]? = some (.openPath Own.devNull, .ok 6) ∧
    traceA[8]? = some (.fork [ofString "printf", ofString "a b 'c' *", ofString "-x"] 6, .ok 0) := by
  unfold traceA
  rw [Own.mainP_eq]
  unfold Own.mainK
  simp only [confA, Own.blocks_cons, Own.blocks_nil, Own.paths_cons, Own.paths_nil, dry_walk_G _ _ ruleA (by decide)]
  simp only [ruleA, eval]
  decide +kernel

/-! ## a `command` condition: the `fork` of evaluation -/

/-- `processMessage` with the evaluation program as a parameter (equal to `processMessage` by `rfl`), which makes the call
of `evalP` on the concrete rule visible to `simp only [evalP, evalT]`. -/
def processMessageGP (env : PEnv) (orc : EvalOracles) (ev : Env → Msg → MFlags → Prog (Tri × St)) (md : Maildir) (name : Bytes)
    (st : MainSt) : Prog (MainSt × Maildir) :=
  match md.dirH with
  | none => pure (st, md)
  | some d =>
    match st.files.get md.path name with
    | none => pure ({ st with error := true }, md)
    | some content => do
      let pm ← messageParseP d md.path name content
      match pm with
      | none => pure ({ st with error := true }, md)
      | some ms =>
        let eenv : Env := {
          rx := orc.rx, command := fun _ => -1, isDir := fun _ => false, now := env.now,
          strptime := orc.strptime, zoneName := orc.zoneName, fileTime := fun _ => none, timeFormat := orc.timeFormat,
          dryrun := env.dryrun, path := ms.path }
        let free (ms : MsgSt) : Prog Unit :=
          match ms.fd with
          | some h => do let _ ← call (.close h); pure ()
          | none => pure ()
        let r ← ev eenv ms.msg ms.flags
        match r with
        | (.error, _) => do free ms; pure ({ st with error := true }, md)
        | (.nomatch, _) => do free ms; pure (st, md)
        | (.match, est) =>
          match matchesInterpolate eenv est.ml (partMsg ms.msg ms.parts) with
          | none => do free ms; pure ({ st with error := true }, md)
          | some (ml, msgs) =>
            let ms1 := { ms with msg := msgs 0, flags := est.flags }
            let st1 := { st with log := st.log ++ inspectLines env ml ms.path }
            if env.dryrun then do free ms1; pure (st1, md)
            else do
              let (xs, e) ← matchesExec env ml { src := md, chsrc := false, ms := ms1, reject := false }
              free xs.ms
              pure ({ st1 with error := st1.error || e, reject := st1.reject || xs.reject,
                               files := afterExec st1.files md.path name xs.ms }, md)

theorem processMessage_eqGP (env : PEnv) (orc : EvalOracles) (expr : Expr) :
    processMessage env orc expr = processMessageGP env orc (fun eenv m fl => evalP eenv expr m fl) := rfl

/-- `match command "false" move "/d"` -/
def ruleC : Expr := .mtch 1 (.command 1 [ofString "false"]) (.move 1 [47, 100])

def confC : List ConfBlock := [{ paths := [[47, 109]], expr := ruleC }]

/-- The results of the calls, in order: the child of the condition exits with 1 (wait status 256): no match. -/
def resultsC : List Res :=
  [.ok 3, .ok 0,                        -- fopen, fclose of the configuration
   .ok 4, .name exName,                 -- opendir /m/new, readdir
   .ok 5, .ok 7, .ok 0,                 -- openat 1.h, read, read (end of file)
   .ok 6, .ok 0, .ok 256,               -- open /dev/null, fork, waitpid
   .ok 0, .ok 0,                        -- close 6, close 5
   .eof, .ok 0, .ok 7, .eof, .ok 0]     -- readdir, closedir 4, opendir /m/cur, readdir, closedir 7

def orclC : Nat → Call → Res := fun i _ => (resultsC[i]?).getD (.ok 0)

def traceC : List (Call × Res) :=
  (runOracle orclC (mainP exEnv wholeExOrc true confC wholeExFiles []) 0 []).2

set_option maxRecDepth 100000 in
/-- The run with the `command` condition: the `fork` of evaluation is call 8; the table there is the stream of `/m/new`,
the message and `/dev/null` (opened by the call before); the condition does not match, nothing is moved, and at the end
nothing is open. -/
theorem tablesC :
    traceC.map (·.1) =
      [.fopen exEnv.confpath, .fclose 3, .opendir exNew, .readdir 4, .openRd 4 exName, .read 5, .read 5,
       .openPath (ofString "/dev/null"), .fork [ofString "false"] 6, .waitpid, .close 6, .close 5,
       .readdir 4, .closedir 4, .opendir exCur, .readdir 7, .closedir 7] ∧
    traceC[8]? = some (.fork [ofString "false"] 6, .ok 0) ∧
    openFdsBy (traceC.take 8) = [(4, .opendir exNew), (5, .openRd 4 exName), (6, .openPath (ofString "/dev/null"))] ∧
    (traceC.take 8).getLast? = some (.openPath Own.devNull, .ok 6) ∧ openFds traceC = [] := by
  unfold traceC
  rw [Own.mainP_eq]
  unfold Own.mainK
  simp only [confC, Own.blocks_cons, Own.blocks_nil, Own.paths_cons, Own.paths_nil, dry_walk_eqG, processMessage_eqGP]
  simp only [ruleC, evalP, evalTop, evalT, eval]
  decide +kernel

end Mdsort.Proofs.FdsEx
