import Mdsort.Proofs.Dest

/-!
# C09: the destination theorem on `Model.eval` itself

`finalPlace` folds `matchesAppend` over the entries of the actions.  This file shows that this is what
`eval` does with the expression the grammar builds from the action list of a rule (move / flag / flags
nodes joined by `and`, `expractions` in parse.y), so that the destination theorem can be stated for
`eval` directly.
-/

namespace Mdsort.Proofs.Dest
open Mdsort Mdsort.Model Mdsort.Spec

/-- An expression made of move / flag / flags nodes joined by `and` nodes, and its actions with their line
numbers in evaluation order.  The side conditions are those under which `expr_eval_move`,
`expr_eval_flag`, `expr_eval_flags` do not fail before `matches_append`: the path fits `PATH_MAX`, the
subdirectory `NAME_MAX + 1`, and all flags are letters. -/
inductive ActionChain : Expr → List (Nat × PathAction) → Prop
  | move (lno : Nat) (p : Bytes) : p.length < PATH_MAX → ActionChain (.move lno p) [(lno, .move p)]
  | flag (lno : Nat) (sd : Bytes) : sd.length < NAME_MAX1 → ActionChain (.flag lno sd) [(lno, .flag sd)]
  | flags (lno : Nat) (fl : Bytes) : fl.all isalpha = true → ActionChain (.flags lno fl) [(lno, .flags fl)]
  | and (lno : Nat) (l r : Expr) (ls1 ls2 : List (Nat × PathAction)) :
      ActionChain l ls1 → ActionChain r ls2 → ActionChain (.and lno l r) (ls1 ++ ls2)

theorem ActionChain.ne_nil {c : Expr} {ls : List (Nat × PathAction)} (h : ActionChain c ls) : ls ≠ [] := by
  induction h with
  | move => exact List.cons_ne_nil _ _
  | flag => exact List.cons_ne_nil _ _
  | flags => exact List.cons_ne_nil _ _
  | and lno l r ls1 ls2 _ _ ih1 _ =>
    intro h
    exact ih1 (List.append_eq_nil_iff.1 h).1

theorem appendAll_append (env : Env) (a b : List Match) : ∀ ml : MatchList,
    appendAll env ml (a ++ b) = (appendAll env ml a).bind fun ml' => appendAll env ml' b := by
  induction a with
  | nil => intro ml; rfl
  | cons x r ih =>
    intro ml
    simp only [List.cons_append, appendAll]
    rcases matchesAppend env ml x with ⟨ml1, f⟩
    cases f
    · exact ih ml1
    · rfl

theorem appendAll_single {env : Env} {ml ml' : MatchList} {mh : Match} (h : appendAll env ml [mh] = some ml') :
    matchesAppend env ml mh = (ml', false) := by
  unfold appendAll at h
  rcases hm : matchesAppend env ml mh with ⟨ml1, f⟩
  rw [hm] at h
  cases f
  · simp only [appendAll, Option.some.injEq] at h
    rw [h]
  · cases h

theorem setAll_ok : ∀ (cs : Bytes) (mf : MFlags), cs.all isalpha = true → (eval.setAll cs mf false).2 = false := by
  intro cs
  induction cs with
  | nil => intro mf _; rfl
  | cons c r ih =>
    intro mf h
    simp only [List.all_cons, Bool.and_eq_true] at h
    unfold eval.setAll flagsSet
    by_cases h1 : isupper c = true
    · simp only [h1, if_true]; exact ih _ h.2
    · by_cases h2 : islower c = true
      · simp only [h1, h2, if_true, if_false, Bool.false_eq_true]; exact ih _ h.2
      · have := h.1
        simp [isalpha, h1, h2] at this

/-- `eval` of an action chain appends the entries of its actions one after the other. -/
theorem eval_chain (env : Env) (root : Msg) {c : Expr} {ls : List (Nat × PathAction)} (h : ActionChain c ls) :
    ∀ (part : Nat) (m : Msg) (st : St) (ml' : MatchList), appendAll env st.ml (entries part ls) = some ml' →
      ∃ fl, eval env root c part m st = (.match, { ml := ml', flags := fl }) := by
  induction h with
  | move lno p hp =>
    intro part m st ml' happ
    have hm : matchesAppend env st.ml (pathEntry lno part (.move p)) = (ml', false) := appendAll_single happ
    have hfit : strlcpyFits PATH_MAX p = some p := by
      unfold strlcpyFits
      rw [if_neg (by omega)]
    refine ⟨st.flags, ?_⟩
    unfold eval
    rw [hfit]
    show exprAppend env (pathEntry lno part (.move p)) st .match = _
    unfold exprAppend
    rw [hm]
    rfl
  | flag lno sd hsd =>
    intro part m st ml' happ
    have hm : matchesAppend env st.ml (pathEntry lno part (.flag sd)) = (ml', false) := appendAll_single happ
    have hfit : strlcpyFits NAME_MAX1 sd = some sd := by
      unfold strlcpyFits
      rw [if_neg (by omega)]
    refine ⟨st.flags, ?_⟩
    unfold eval
    rw [hfit]
    show exprAppend env (pathEntry lno part (.flag sd)) st .match = _
    unfold exprAppend
    rw [hm]
    rfl
  | flags lno fl hfl =>
    intro part m st ml' happ
    have hm : matchesAppend env st.ml (pathEntry lno part (.flags fl)) = (ml', false) := appendAll_single happ
    have herr := setAll_ok fl st.flags hfl
    refine ⟨(eval.setAll fl st.flags false).1, ?_⟩
    unfold eval
    rcases hs : eval.setAll fl st.flags false with ⟨mf, err⟩
    rw [hs] at herr
    simp only at herr
    subst herr
    show exprAppend env (pathEntry lno part (.flags fl)) { st with flags := mf } .match = _
    unfold exprAppend
    show (match matchesAppend env st.ml (pathEntry lno part (.flags fl)) with
      | (ml, failed) => (if failed = true then Tri.error else Tri.match, ({ ml := ml, flags := mf } : St))) = _
    rw [hm]
    rfl
  | and lno l r ls1 ls2 _ _ ih1 ih2 =>
    intro part m st ml' happ
    have happ' : appendAll env st.ml (entries part ls1 ++ entries part ls2) = some ml' := by
      unfold entries at happ ⊢
      rw [← List.map_append]; exact happ
    rw [appendAll_append] at happ'
    cases h1 : appendAll env st.ml (entries part ls1) with
    | none => rw [h1] at happ'; cases happ'
    | some ml1 =>
      rw [h1] at happ'
      obtain ⟨fl1, he1⟩ := ih1 part m st ml1 h1
      obtain ⟨fl2, he2⟩ := ih2 part m { ml := ml1, flags := fl1 } ml' happ'
      refine ⟨fl2, ?_⟩
      unfold eval
      rw [he1]
      exact he2

/-- The destination theorem for `eval`: the action chain `c` of a rule, evaluated in a state whose match
list has no move/flag/flags entries, matches, and the last move/flag/flags entry of the resulting list
carries the documented destination, whenever the action sequence is in `destOK`. -/
theorem eval_chain_dest (env : Env) (rootMsg m : Msg) (st : St) (part : Nat) (c : Expr)
    (ls : List (Nat × PathAction)) (hc : ActionChain c ls) (root sub name : Bytes)
    (hpath : env.path = root ++ [47] ++ sub ++ [47] ++ name)
    (hroot : root ≠ []) (hsub : (47 : UInt8) ∉ sub) (hname : (47 : UInt8) ∉ name)
    (hsubl : sub.length < NAME_MAX1)
    (hwf : actionsWF (ls.map (·.2)) = true) (hfit : destFits PATH_MAX (root, sub) (ls.map (·.2)) = true)
    (hst : ∀ e ∈ st.ml, e.moves = false) (hok : destOK (ls.map (·.2)) = true) :
    ∃ st', eval env rootMsg c part m st = (.match, st') ∧
      lastPath st'.ml = some (destPath (root, sub) (ls.map (·.2))) := by
  have hrl : root.length < PATH_MAX := by
    have := fits_of_destFits hfit root List.mem_cons_self sub List.mem_cons_self
    omega
  have hs := slices root sub name hroot hsub hname PATH_MAX NAME_MAX1 hrl hsubl
  have ctx : Ctx env root sub := ⟨by rw [hpath]; exact hs.1, by rw [hpath]; exact hs.2⟩
  obtain ⟨ml', h1, h2⟩ := appendAll_labelled_of_ctx ctx st.ml part ls hc.ne_nil hwf hfit hst hok
  obtain ⟨fl, he⟩ := eval_chain env rootMsg hc part m st ml' h1
  exact ⟨_, he, h2⟩

end Mdsort.Proofs.Dest
