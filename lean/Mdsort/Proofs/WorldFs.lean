import Mdsort.Proofs.WorldBasic

/-! Algebra of the abstract file system: observations (`lookup`, `file`, `obj`) after updates. -/

namespace Mdsort.Proofs.World
open Mdsort Mdsort.Model

/-! ## files -/

theorem find_filter_ne_nat {α} (es : List (Nat × α)) (n m : Nat) :
    (es.filter (·.1 != n)).find? (·.1 == m) = if m = n then none else es.find? (·.1 == m) := by
  induction es with
  | nil => simp
  | cons e es ih =>
    simp only [List.filter_cons, List.find?_cons]
    grind

theorem file_setFile (w : World) (fid g : Nat) (f : File) :
    (w.setFile fid f).file g = if g = fid then some f else w.file g := by
  unfold World.setFile World.file
  simp only [List.find?_append, find_filter_ne_nat]
  by_cases h : g = fid
  · subst h; simp
  · have h2 : (fid == g) = false := by simp; exact fun e => h e.symm
    simp [h, h2, List.find?]

/-! ## handles -/

theorem obj_setObj (w : World) (h h' : Handle) (o : Obj) :
    (w.setObj h o).obj h' = if h' = h ∧ h < w.handles.length then o else w.obj h' := by
  unfold World.setObj World.obj
  simp only [List.getD_eq_getElem?_getD, List.getElem?_set]
  grind

theorem obj_newHandle (w : World) (h' : Handle) (o : Obj) :
    (w.newHandle o).1.obj h' = if h' = w.handles.length then o else w.obj h' := by
  unfold World.newHandle World.obj
  simp only [List.getD_eq_getElem?_getD, List.getElem?_append]
  grind

theorem obj_of_ge (w : World) (h : Handle) (hl : w.handles.length ≤ h) : w.obj h = .closed := by
  unfold World.obj
  simp only [List.getD_eq_getElem?_getD]
  grind

theorem lt_of_obj_ne_closed (w : World) (h : Handle) (ho : w.obj h ≠ .closed) : h < w.handles.length := by
  by_cases hl : h < w.handles.length
  · exact hl
  · exact absurd (obj_of_ge w h (Nat.le_of_not_lt hl)) ho

theorem lt_of_dirPath {w : World} {h : Handle} {p : Bytes} (hp : w.dirPath h = some p) : h < w.handles.length := by
  apply lt_of_obj_ne_closed
  intro hc
  simp [World.dirPath, hc] at hp

/-! ## directories -/

theorem find_setDir (ds : List (Bytes × List (Bytes × Nat))) (p q : Bytes) (es : List (Bytes × Nat)) :
    ((ds.map fun d => if d.1 == p then (p, es) else d).find? (·.1 == q)).map (·.2) =
      if q = p then ((ds.find? (·.1 == p)).map (·.2)).map (fun _ => es) else (ds.find? (·.1 == q)).map (·.2) := by
  induction ds with
  | nil => simp
  | cons d ds ih =>
    simp only [List.map_cons, List.find?_cons]
    grind

theorem find_filter_ne {α} (es : List (Bytes × α)) (n m : Bytes) :
    (es.filter (·.1 != n)).find? (·.1 == m) = if m = n then none else es.find? (·.1 == m) := by
  induction es with
  | nil => simp
  | cons e es ih =>
    simp only [List.filter_cons, List.find?_cons]
    grind

theorem dir_setDir (w : World) (p q : Bytes) (es : List (Bytes × Nat)) :
    (w.setDir p es).dir q = if q = p then (w.dir p).map (fun _ => es) else w.dir q := by
  unfold World.setDir World.dir
  exact find_setDir w.dirs p q es

theorem lookup_unbind (w : World) (p n q m : Bytes) :
    (w.unbind p n).lookup q m = if q = p ∧ m = n then none else w.lookup q m := by
  unfold World.unbind
  cases hd : w.dir p with
  | none =>
    by_cases h : q = p ∧ m = n
    · obtain ⟨rfl, rfl⟩ := h
      simp [World.lookup, hd]
    · simp [h]
  | some es =>
    simp only [World.lookup, dir_setDir, hd]
    by_cases hq : q = p
    · subst hq
      simp only [true_and, if_true, Option.map_some, Option.bind_some, hd, find_filter_ne]
      by_cases hm : m = n <;> simp [hm]
    · simp [hq]

theorem dir_unbind_isSome (w : World) (p n q : Bytes) : ((w.unbind p n).dir q).isSome = (w.dir q).isSome := by
  unfold World.unbind
  cases hd : w.dir p with
  | none => rfl
  | some es =>
    simp only [dir_setDir]
    by_cases hq : q = p
    · subst hq; simp [hd]
    · simp [hq]

theorem dir_bind_isSome (w : World) (p n q : Bytes) (fid : Nat) : ((w.bind p n fid).dir q).isSome = (w.dir q).isSome := by
  unfold World.bind
  cases hd : w.dir p with
  | none => rfl
  | some es =>
    simp only [dir_setDir]
    by_cases hq : q = p
    · subst hq; simp [hd]
    · simp [hq]

theorem lookup_bind (w : World) (p n q m : Bytes) (fid : Nat) (hp : (w.dir p).isSome) :
    (w.bind p n fid).lookup q m = if q = p ∧ m = n then some fid else w.lookup q m := by
  unfold World.bind
  cases hd : w.dir p with
  | none => simp [hd] at hp
  | some es =>
    simp only [World.lookup, dir_setDir, hd]
    by_cases hq : q = p
    · subst hq
      simp only [true_and, if_true, Option.map_some, Option.bind_some, hd, List.find?_append, find_filter_ne]
      by_cases hm : m = n
      · subst hm; simp
      · have h2 : (n == m) = false := by simp; exact fun e => hm e.symm
        simp [hm, h2, List.find?]
    · simp [hq]

/-- Binding without knowing the directory exists: other names are unaffected. -/
theorem lookup_bind_ne (w : World) (p n q m : Bytes) (fid : Nat) (hne : ¬ (q = p ∧ m = n)) :
    (w.bind p n fid).lookup q m = w.lookup q m := by
  by_cases hp : (w.dir p).isSome
  · simp [lookup_bind w p n q m fid hp, hne]
  · unfold World.bind
    cases hd : w.dir p with
    | none => rfl
    | some es => simp [hd] at hp

theorem dir_isSome_of_lookup {w : World} {p n : Bytes} {fid : Nat} (h : w.lookup p n = some fid) : (w.dir p).isSome := by
  unfold World.lookup at h
  cases hd : w.dir p with
  | none => simp [hd] at h
  | some es => rfl

end Mdsort.Proofs.World
