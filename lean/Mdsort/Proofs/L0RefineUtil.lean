import Mdsort.Proofs.L0RefineHeader
import Mdsort.Proofs.L0Util
import Mdsort.Proofs.MimeScan
import Mdsort.Model.Eval
import Mdsort.Model.Flags

/-!
# L0 `ismacro`, `isbackref`, `pathslice` refine the list model

`util_ok` (L0Util) says that no access leaves its object.  Here the results are tracked: the length and the
`strndup`ed name `ismacro` returns, the length and the two indices `isbackref` returns (through `strtoul`), and the
C string `pathslice` leaves in its destination are those of the list model on the view.
-/

namespace Mdsort.L0
open Mdsort Mdsort.L0.Buf

/-! ## ismacro -/

theorem l0r_scanBrace_spec {b : Buf} {i : Nat} (h : b.HasNul i) :
    scanBrace b i = .ok (match (b.view i).dropWhile (· != 125) with
      | [] => none
      | _ :: _ => some (i + ((b.view i).takeWhile (· != 125)).length)) := by
  generalize hn : b.size - i = n
  induction n using Nat.strongRecOn generalizing i with
  | _ n ih =>
    have := h.lt
    rcases h.cases with ⟨hg, hv⟩ | ⟨x, hx, hg, hv, hn'⟩
    · rw [scanBrace_eq hg, hv]
      simp
    · rw [scanBrace_eq hg, hv]
      by_cases hxc : x = 125
      · subst hxc; simp
      · have h1 : (x == 125) = false := by simpa using hxc
        have h2 : (x == 0) = false := by simpa using hx
        have h3 : (x != 125) = true := by simp [hxc]
        simp only [h1, h2, Bool.false_eq_true, if_false]
        rw [ih _ (by omega) hn' rfl]
        simp only [List.dropWhile_cons, List.takeWhile_cons, h3, if_true, List.length_cons]
        cases (b.view (i + 1)).dropWhile (· != 125) with
        | nil => rfl
        | cons y t =>
          have e : i + 1 + ((b.view (i + 1)).takeWhile (· != 125)).length =
              i + (((b.view (i + 1)).takeWhile (· != 125)).length + 1) := by omega
          simp only [e]

/-- The L0 result of `ismacro` for an L1 result: the name is handed out as a `strndup`ed C string. -/
def l0r_macroAbs : Sum (Nat × Bytes) Bool → Sum (Nat × Buf) Bool
  | .inl (n, name) => .inl (n, Buf.ofBytes name)
  | .inr e => .inr e

theorem l0r_isMacro_not {s : Bytes} (h : ∀ r, s ≠ 36 :: 123 :: r) : Model.isMacro s = .inr false := by
  unfold Model.isMacro
  split
  · rename_i r; exact absurd rfl (h r)
  · rfl

/-- `ismacro` refines the list model. -/
theorem l0r_isMacro_refines (b : Buf) {i : Nat} (h : b.HasNul i) :
    isMacro b i = .ok (l0r_macroAbs (Model.isMacro (b.view i))) := by
  unfold isMacro
  rcases h.cases with ⟨hg, hv⟩ | ⟨c0, hc0, hg, hv, hn1⟩
  · rw [hg, hv, l0r_isMacro_not (by intro r e; cases e)]
    rfl
  · rw [hg, hv]
    simp only
    by_cases h36 : c0 = 36
    · subst h36
      simp only [bne_self_eq_false, Bool.false_eq_true, if_false]
      rcases hn1.cases with ⟨hg1, hv1⟩ | ⟨c1, hc1, hg1, hv1, hn2⟩
      · rw [hg1, hv1, l0r_isMacro_not (by intro r e; cases e)]
        rfl
      · rw [hg1, hv1]
        simp only
        by_cases h123 : c1 = 123
        · subst h123
          simp only [bne_self_eq_false, Bool.false_eq_true, if_false]
          have hn2' : b.HasNul (i + 2) := hn2
          rw [l0r_scanBrace_spec hn2']
          have hv2 : b.view (i + 1 + 1) = b.view (i + 2) := rfl
          rw [hv2]
          unfold Model.isMacro
          simp only
          rw [Proofs.takeWhile_length_eq_iff]
          cases hd : (b.view (i + 2)).dropWhile (· != 125) with
          | nil => rfl
          | cons y t =>
            simp only [List.isEmpty_cons, Bool.false_eq_true, if_false]
            rw [strndup_spec hn2']
            have e1 : i + 2 + ((b.view (i + 2)).takeWhile (· != 125)).length - (i + 2) =
                ((b.view (i + 2)).takeWhile (· != 125)).length := by omega
            have e2 : i + 2 + ((b.view (i + 2)).takeWhile (· != 125)).length + 1 - i =
                ((b.view (i + 2)).takeWhile (· != 125)).length + 3 := by omega
            rw [e1, e2, take_length_takeWhile]
            rfl
        · have h123' : (c1 != 123) = true := by simp [h123]
          simp only [h123', if_true]
          rw [l0r_isMacro_not (by intro r e; exact h123 (List.cons.inj (List.cons.inj e).2).1)]
          rfl
    · have h36' : (c0 != 36) = true := by simp [h36]
      simp only [h36', if_true]
      rw [l0r_isMacro_not (by intro r e; exact h36 (List.cons.inj e).1)]
      rfl

/-! ## pathslice -/

theorem l0r_countSlash_split (s : Bytes) :
    Model.countSlash s = match s.dropWhile (· != 47) with
      | [] => 0
      | _ :: r => Model.countSlash r + 1 := by
  induction s with
  | nil => rfl
  | cons c t ih =>
    by_cases hc : c = 47
    · subst hc
      simp [Model.countSlash]
    · have h1 : (c != 47) = true := by simp [hc]
      have h2 : (c == 47) = false := by simpa using hc
      simp only [List.dropWhile_cons, h1, if_true]
      rw [← ih]
      simp [Model.countSlash, h2]

theorem l0r_countSlashes_spec (b : Buf) {p : Nat} (h : b.HasNul p) (n : Nat) :
    countSlashes b p n = .ok (n + Model.countSlash (b.view p)) := by
  generalize hm : b.size - p = m
  induction m using Nat.strongRecOn generalizing p n with
  | _ m ih =>
    rw [countSlashes_eq, l0r_strchr_tw h 47 (by decide), l0r_countSlash_split]
    have hle := length_takeWhile_le (· != 47) (b.view p)
    obtain ⟨hnq, hvq⟩ := h.add _ hle
    rw [drop_length_takeWhile] at hvq
    cases hd : (b.view p).dropWhile (· != 47) with
    | nil => rfl
    | cons x r =>
      rw [hd] at hvq
      obtain ⟨_, _, hn1, hv1⟩ := l0r_get?_of_view_cons hnq hvq
      simp only
      have hlt := hnq.lt
      rw [ih _ (by omega) hn1 _ rfl, hv1]
      congr 1; omega

theorem l0r_slice_push {buf buf' : Buf} {bp : Nat} {c : UInt8} (hset : buf.set bp c = .ok buf') :
    buf'.slice 0 (bp + 1) = buf.slice 0 bp ++ [c] := by
  have hg : buf'.get? bp = .ok c := by rw [get?_set hset]; simp
  rw [slice_snoc hg, slice_of_set hset (Nat.le_refl _)]

/-- The invariant of the copy: `p` is inside the path, `bp + bufsiz` never exceeds the destination, and what has been
written so far contains no NUL. -/
def l0r_StOk (path : Buf) (st : SliceSt) : Prop :=
  path.HasNul st.p ∧ st.bp + st.room ≤ st.buf.size ∧ ∀ x ∈ st.buf.slice 0 st.bp, x ≠ 0

/-- How an L0 state of `pathslice`'s component copy stands for the L1 one. -/
def l0r_CompRel (path : Buf) : Option SliceSt → Option (Bytes × Bytes × Nat) → Prop
  | none, none => True
  | some st, some (p, out, room) =>
    l0r_StOk path st ∧ path.view st.p = p ∧ st.buf.slice 0 st.bp = out ∧ st.room = room
  | _, _ => False

theorem l0r_sliceComp_refines (path : Buf) (docopy : Bool) (st : SliceSt) (hok : l0r_StOk path st) :
    ∃ r, sliceComp path docopy st = .ok r ∧
      l0r_CompRel path r (Model.sliceComp docopy (path.view st.p) (st.buf.slice 0 st.bp) st.room) := by
  generalize hm : path.size - st.p = m
  induction m using Nat.strongRecOn generalizing st with
  | _ m ih =>
    obtain ⟨hn, hroom, hnz⟩ := hok
    have := hn.lt
    rcases hn.cases with ⟨hg, hv⟩ | ⟨c, hc, hg, hv, hn'⟩
    · rw [sliceComp_eq docopy hg, hv]
      refine ⟨some st, by simp, ?_⟩
      rw [Model.sliceComp]
      exact ⟨⟨hn, hroom, hnz⟩, hv, rfl, rfl⟩
    · rw [sliceComp_eq docopy hg, hv, Model.sliceComp]
      have hc0 : (c == 0) = false := by simpa using hc
      simp only [hc0, Bool.or_false]
      by_cases h47 : (c == 47) = true
      · rw [if_pos h47, if_pos h47]
        exact ⟨some st, rfl, ⟨hn, hroom, hnz⟩, hv, rfl, rfl⟩
      · rw [if_neg h47, if_neg h47]
        cases docopy with
        | false =>
          simp only [Bool.not_false, if_true]
          exact ih _ (by simp only; omega) { st with p := st.p + 1 } ⟨hn', hroom, hnz⟩ rfl
        | true =>
          simp only [Bool.not_true, Bool.false_eq_true, if_false]
          by_cases hr : st.room = 0
          · simp only [hr, beq_self_eq_true, if_true]
            exact ⟨none, rfl, trivial⟩
          · have hr' : (st.room == 0) = false := by simpa using hr
            simp only [hr', Bool.false_eq_true, if_false]
            have hset := set_ok (b := st.buf) c (show st.bp < st.buf.size by omega)
            rw [hset]
            simp only
            have hpush := l0r_slice_push hset
            have hsz := size_of_set hset
            generalize (⟨st.buf.bytes.setIfInBounds st.bp c⟩ : Buf) = buf' at hset hpush hsz
            have := ih _ (by simp only; omega) { p := st.p + 1, buf := buf', bp := st.bp + 1, room := st.room - 1 }
              ⟨hn', by simp only; omega, by
                simp only; rw [hpush]; intro x hx
                rcases List.mem_append.mp hx with hx | hx
                · exact hnz x hx
                · simp at hx; rw [hx]; exact hc⟩ rfl
            simp only at this
            rw [hpush] at this
            exact this

/-- The first byte of a component in the list model. -/
def l0r_first1 (isrange docopy : Bool) (c : UInt8) (st : Model.SliceSt) : Option Model.SliceSt :=
  if docopy then
    if st.room == 0 then none
    else if st.isabs && isrange then some { st with out := st.out ++ [47], room := st.room - 1 }
    else if !st.isabs then some { st with out := st.out ++ [c], room := st.room - 1 }
    else some st
  else some st

theorem l0r_sliceLoop_succ (isrange : Bool) (beg end_ : Int) (n i : Nat) (st : Model.SliceSt) :
    Model.sliceLoop isrange beg end_ (n + 1) i st =
      match st.p with
      | [] => some st
      | c :: r =>
        match l0r_first1 isrange (decide (beg ≤ (i : Int)) && decide ((i : Int) ≤ end_)) c st with
        | none => none
        | some st1 =>
          match Model.sliceComp (decide (beg ≤ (i : Int)) && decide ((i : Int) ≤ end_)) r st1.out st1.room with
          | none => none
          | some (p', out', room') =>
            Model.sliceLoop isrange beg end_ n (i + 1) { p := p', out := out', room := room', isabs := true } := by
  rw [Model.sliceLoop]
  rfl

/-- How an L0 state of `pathslice`'s loop stands for the L1 one. -/
def l0r_LoopRel (path : Buf) : Option SliceSt → Option Model.SliceSt → Prop
  | none, none => True
  | some st, some m => l0r_StOk path st ∧ path.view st.p = m.p ∧ st.buf.slice 0 st.bp = m.out ∧ st.room = m.room
  | _, _ => False

theorem l0r_sliceFirst_refines (path : Buf) (isabs isrange docopy : Bool) (c : UInt8) (hc : c ≠ 0) (st : SliceSt)
    (hok : l0r_StOk path st) (r : Bytes) :
    ∃ r1, sliceFirst isabs isrange docopy c st = .ok r1 ∧
      match r1, l0r_first1 isrange docopy c { p := c :: r, out := st.buf.slice 0 st.bp, room := st.room, isabs := isabs } with
      | none, none => True
      | some s1, some m => s1.p = st.p ∧ l0r_StOk path s1 ∧ s1.buf.slice 0 s1.bp = m.out ∧ s1.room = m.room
      | _, _ => False := by
  obtain ⟨hn, hroom, hnz⟩ := hok
  unfold sliceFirst l0r_first1
  cases docopy with
  | false => exact ⟨some st, by simp, rfl, ⟨hn, hroom, hnz⟩, rfl, rfl⟩
  | true =>
    simp only [if_true]
    by_cases hr : st.room = 0
    · simp only [hr, beq_self_eq_true, if_true]; exact ⟨none, rfl, trivial⟩
    · have hr' : (st.room == 0) = false := by simpa using hr
      simp only [hr', Bool.false_eq_true, if_false]
      have hlt : st.bp < st.buf.size := by omega
      by_cases h1 : (isabs && isrange) = true
      · simp only [h1, if_true]
        have hset := set_ok (b := st.buf) 47 hlt
        rw [hset]
        have hpush := l0r_slice_push hset
        have hsz := size_of_set hset
        generalize (⟨st.buf.bytes.setIfInBounds st.bp 47⟩ : Buf) = buf' at hset hpush hsz
        refine ⟨_, rfl, rfl, ⟨hn, by simp only; omega, ?_⟩, hpush, rfl⟩
        simp only; rw [hpush]; intro x hx
        rcases List.mem_append.mp hx with hx | hx
        · exact hnz x hx
        · simp at hx; rw [hx]; decide
      · simp only [h1, Bool.false_eq_true, if_false]
        by_cases h2 : (!isabs) = true
        · simp only [h2, if_true]
          have hset := set_ok (b := st.buf) c hlt
          rw [hset]
          have hpush := l0r_slice_push hset
          have hsz := size_of_set hset
          generalize (⟨st.buf.bytes.setIfInBounds st.bp c⟩ : Buf) = buf' at hset hpush hsz
          refine ⟨_, rfl, rfl, ⟨hn, by simp only; omega, ?_⟩, hpush, rfl⟩
          simp only; rw [hpush]; intro x hx
          rcases List.mem_append.mp hx with hx | hx
          · exact hnz x hx
          · simp at hx; rw [hx]; exact hc
        · simp only [h2, Bool.false_eq_true, if_false]
          exact ⟨some st, rfl, rfl, ⟨hn, hroom, hnz⟩, rfl, rfl⟩

theorem l0r_sliceLoop_refines (path : Buf) (isrange : Bool) (beg end_ : Int) :
    ∀ (n i : Nat) (isabs : Bool) (st : SliceSt), l0r_StOk path st →
      ∃ r, sliceLoop path isrange beg end_ n i isabs st = .ok r ∧
        l0r_LoopRel path r (Model.sliceLoop isrange beg end_ n i
          { p := path.view st.p, out := st.buf.slice 0 st.bp, room := st.room, isabs := isabs }) := by
  intro n
  induction n with
  | zero =>
    intro i isabs st hok
    exact ⟨some st, rfl, hok, rfl, rfl, rfl⟩
  | succ n ih =>
    intro i isabs st hok
    obtain ⟨hn, hroom, hnz⟩ := hok
    rw [sliceLoop, l0r_sliceLoop_succ]
    rcases hn.cases with ⟨hg, hv⟩ | ⟨c, hc, hg, hv, hn'⟩
    · rw [hg]
      simp only [hv]
      exact ⟨some st, by simp, ⟨hn, hroom, hnz⟩, hv, rfl, rfl⟩
    · rw [hg]
      have hc' : (c == 0) = false := by simpa using hc
      simp only [hc', Bool.false_eq_true, if_false, hv]
      obtain ⟨r1, hr1, hrel1⟩ := l0r_sliceFirst_refines path isabs isrange
        (decide (beg ≤ (i : Int)) && decide ((i : Int) ≤ end_)) c hc st ⟨hn, hroom, hnz⟩ (path.view (st.p + 1))
      rw [hr1]
      cases r1 with
      | none =>
        cases hf : l0r_first1 isrange (decide (beg ≤ (i : Int)) && decide ((i : Int) ≤ end_)) c
            { p := c :: path.view (st.p + 1), out := st.buf.slice 0 st.bp, room := st.room, isabs := isabs } with
        | none => exact ⟨none, rfl, trivial⟩
        | some m => rw [hf] at hrel1; exact hrel1.elim
      | some s1 =>
        cases hf : l0r_first1 isrange (decide (beg ≤ (i : Int)) && decide ((i : Int) ≤ end_)) c
            { p := c :: path.view (st.p + 1), out := st.buf.slice 0 st.bp, room := st.room, isabs := isabs } with
        | none => rw [hf] at hrel1; exact hrel1.elim
        | some m =>
          rw [hf] at hrel1
          obtain ⟨hp1, ⟨hn1, hroom1, hnz1⟩, hout1, hroom1'⟩ := hrel1
          simp only
          have hok2 : l0r_StOk path { s1 with p := s1.p + 1 } := ⟨by simp only [hp1]; exact hn', hroom1, hnz1⟩
          obtain ⟨r2, hr2, hrel2⟩ := l0r_sliceComp_refines path (decide (beg ≤ (i : Int)) && decide ((i : Int) ≤ end_))
            { s1 with p := s1.p + 1 } hok2
          rw [hr2]
          simp only [hp1, hout1, hroom1'] at hrel2
          cases r2 with
          | none =>
            cases hsc : Model.sliceComp (decide (beg ≤ (i : Int)) && decide ((i : Int) ≤ end_))
                (path.view (st.p + 1)) m.out m.room with
            | none => exact ⟨none, rfl, trivial⟩
            | some t => rw [hsc] at hrel2; exact hrel2.elim
          | some s2 =>
            cases hsc : Model.sliceComp (decide (beg ≤ (i : Int)) && decide ((i : Int) ≤ end_))
                (path.view (st.p + 1)) m.out m.room with
            | none => rw [hsc] at hrel2; exact hrel2.elim
            | some t =>
              obtain ⟨p', out', room'⟩ := t
              rw [hsc] at hrel2
              obtain ⟨hok3, hv3, hout3, hroom3⟩ := hrel2
              simp only
              have := ih (i + 1) true s2 hok3
              rw [hv3, hout3, hroom3] at this
              exact this

theorem l0r_isabs_eq {path : Buf} {c0 : UInt8} (hp : path.HasNul 0) (hg : path.get? 0 = .ok c0) :
    (match path.view 0 with | 47 :: _ => true | _ => false) = (c0 == 47) := by
  rcases hp.cases with ⟨hg0, hv⟩ | ⟨c, hc, hgc, hv, _⟩
  · rw [hg] at hg0; cases hg0; rw [hv]; rfl
  · rw [hg] at hgc; cases hgc
    rw [hv]
    by_cases h47 : c0 = 47
    · subst h47; rfl
    · have : (c0 == 47) = false := by simpa using h47
      rw [this]
      split
      · rename_i heq; cases heq; exact absurd rfl h47
      · rfl

/-- `Model.pathslice` with its `isabs` named. -/
theorem l0r_pathslice_unfold (s : Bytes) (bufsiz : Nat) (beg end_ : Int) (isabs : Bool)
    (h : isabs = (match s with | 47 :: _ => true | _ => false)) :
    Model.pathslice s bufsiz beg end_ =
      (let ncomps : Int := (if isabs then 0 else 1) + (Model.countSlash s : Int)
       let isrange := !(end_ - beg == 0)
       let r : Int := if isrange then 1 else 0
       let end1 := if end_ < 0 then ncomps + end_ - r else end_
       let beg1 := if beg < 0 then ncomps + beg - r else beg
       if beg1 < 0 || beg1 > end1 || end1 < 0 || end1 ≥ ncomps then none
       else
         match Model.sliceLoop isrange beg1 end1 ncomps.toNat 0 { p := s, out := [], room := bufsiz, isabs := isabs } with
         | none => none
         | some st => if st.room == 0 then none else some st.out) := by
  subst h
  rfl

/-- `pathslice` refines the list model: the C string left in the destination is the list model's result. -/
theorem l0r_pathslice_refines (path : Buf) (hp : path.HasNul 0) (buf : Buf) (bufsiz : Nat) (hb : bufsiz ≤ buf.size)
    (beg end_ : Int) :
    ∃ r, pathslice path buf bufsiz beg end_ = .ok r ∧
      r.map (fun d => d.view 0) = Model.pathslice (path.view 0) bufsiz beg end_ := by
  obtain ⟨c0, hc0⟩ : ∃ c, path.get? 0 = .ok c := ⟨_, get?_of_lt hp.lt⟩
  rw [l0r_pathslice_unfold _ _ _ _ (c0 == 47) (l0r_isabs_eq hp hc0).symm]
  unfold pathslice
  rw [hc0]
  simp only
  rw [l0r_countSlashes_spec path hp]
  simp only
  have hnc : ((if (c0 == 47) = true then (0 : Int) else 1) + (Model.countSlash (path.view 0) : Int)) =
      (((if (c0 == 47) = true then 0 else 1) + Model.countSlash (path.view 0) : Nat) : Int) := by
    split <;> simp
  rw [hnc]
  generalize (if (c0 == 47) = true then 0 else 1) + Model.countSlash (path.view 0) = nc
  unfold sliceBounds
  simp only [Int.toNat_natCast]
  generalize (!(end_ - beg == 0)) = isrange
  generalize (if beg < 0 then (nc : Int) + beg - (if isrange = true then 1 else 0) else beg) = beg1
  generalize (if end_ < 0 then (nc : Int) + end_ - (if isrange = true then 1 else 0) else end_) = end1
  by_cases hcond : (decide (beg1 < 0) || decide (beg1 > end1) || decide (end1 < 0) || decide (end1 ≥ (nc : Int))) = true
  · rw [if_pos hcond, if_pos hcond]
    exact ⟨none, rfl, rfl⟩
  · rw [if_neg hcond, if_neg hcond]
    simp only
    have hok0 : l0r_StOk path { p := 0, buf := buf, bp := 0, room := bufsiz } :=
      ⟨hp, by simpa using hb, by simp [slice_self]⟩
    obtain ⟨r, hr, hrel⟩ := l0r_sliceLoop_refines path isrange beg1 end1
      nc 0 (c0 == 47) { p := 0, buf := buf, bp := 0, room := bufsiz } hok0
    simp only [slice_self] at hrel
    rw [hr]
    cases r with
    | none =>
      cases hm : Model.sliceLoop isrange beg1 end1
          nc 0 { p := path.view 0, out := [], room := bufsiz, isabs := c0 == 47 } with
      | none => exact ⟨none, rfl, rfl⟩
      | some m => rw [hm] at hrel; exact hrel.elim
    | some st =>
      cases hm : Model.sliceLoop isrange beg1 end1
          nc 0 { p := path.view 0, out := [], room := bufsiz, isabs := c0 == 47 } with
      | none => rw [hm] at hrel; exact hrel.elim
      | some m =>
        rw [hm] at hrel
        obtain ⟨⟨_, hroom, hnz⟩, _, hout, hroomeq⟩ := hrel
        simp only
        rw [← hroomeq]
        by_cases h0 : st.room = 0
        · simp only [h0, beq_self_eq_true, if_true]; exact ⟨none, rfl, rfl⟩
        · have h0' : (st.room == 0) = false := by simpa using h0
          simp only [h0', Bool.false_eq_true, if_false]
          have hset := set_ok (b := st.buf) 0 (show st.bp < st.buf.size by omega)
          rw [hset]
          refine ⟨_, rfl, ?_⟩
          have hgk : (⟨st.buf.bytes.setIfInBounds st.bp 0⟩ : Buf).get? st.bp = .ok 0 := by
            rw [get?_set hset]; simp
          simp only [Option.map_some, Option.some.injEq]
          rw [view_of_nul_at hgk, slice_of_set hset (Nat.le_refl _), ← hout]
          exact cstr_of_no_nul hnz

/-! ## isbackref -/

theorem l0r_digits_snd (s : Bytes) : ∀ (acc n0 : Nat),
    (Model.strtoulDigits s acc n0).2 = n0 + (s.takeWhile isdigit).length := by
  induction s with
  | nil => intro acc n0; simp [Model.strtoulDigits]
  | cons c r ih =>
    intro acc n0
    by_cases hd : isdigit c = true
    · simp only [Model.strtoulDigits, hd, if_true, List.takeWhile_cons, List.length_cons]
      rw [ih]; omega
    · simp [Model.strtoulDigits, hd]

theorem l0r_digits_fst (s : Bytes) : ∀ (acc n0 : Nat),
    (Model.strtoulDigits s acc n0).1 = (Model.strtoulDigits s acc 0).1 := by
  induction s with
  | nil => intro acc n0; simp [Model.strtoulDigits]
  | cons c r ih =>
    intro acc n0
    by_cases hd : isdigit c = true
    · simp only [Model.strtoulDigits, hd, if_true]
      rw [ih _ (n0 + 1), ih _ (0 + 1)]
    · simp [Model.strtoulDigits, hd]

theorem l0r_strtoulDigits_spec {b : Buf} {i : Nat} (h : b.HasNul i) (acc : Nat) :
    strtoulDigits b i acc =
      .ok ((Model.strtoulDigits (b.view i) acc 0).1, i + ((b.view i).takeWhile isdigit).length) := by
  generalize hm : b.size - i = m
  induction m using Nat.strongRecOn generalizing i acc with
  | _ m ih =>
    have := h.lt
    rcases h.cases with ⟨hg, hv⟩ | ⟨c, hc, hg, hv, hn'⟩
    · rw [strtoulDigits_eq acc hg, hv]
      have : isdigit 0 = false := by decide
      simp [this, Model.strtoulDigits]
    · rw [strtoulDigits_eq acc hg, hv]
      by_cases hd : isdigit c = true
      · rw [if_pos hd, ih _ (by omega) hn' _ rfl]
        simp only [Model.strtoulDigits, hd, if_true, List.takeWhile_cons, List.length_cons]
        rw [l0r_digits_fst _ _ (0 + 1)]
        congr 2; omega
      · rw [if_neg hd]
        simp [Model.strtoulDigits, hd]

/-- `Model.strtoul` with the sign test named. -/
theorem l0r_strtoul_unfold (s : Bytes) (p : Bool × Nat)
    (hp : p = (match s.drop (s.takeWhile isspace).length with
      | 45 :: _ => (true, 1)
      | 43 :: _ => (false, 1)
      | _ => (false, 0))) :
    Model.strtoul s =
      (let ws := (s.takeWhile isspace).length
       let q := Model.strtoulDigits ((s.drop ws).drop p.2) 0 0
       if q.2 == 0 then (some 0, 0)
       else if p.1 then (Model.strtoulNeg q.1, ws + p.2 + q.2)
       else if q.1 > 2147483647 then (none, ws + p.2 + q.2) else (some q.1, ws + p.2 + q.2)) := by
  subst hp
  rfl

theorem l0r_sign_eq (s1 : Bytes) :
    ((s1.headD 0 == 45, if (s1.headD 0 == 45 || s1.headD 0 == 43) = true then 1 else 0) : Bool × Nat) =
      (match s1 with
       | 45 :: _ => (true, 1)
       | 43 :: _ => (false, 1)
       | _ => (false, 0)) := by
  cases s1 with
  | nil => rfl
  | cons x t =>
    by_cases h45 : x = 45
    · subst h45; rfl
    · by_cases h43 : x = 43
      · subst h43; rfl
      · have e1 : (x == 45) = false := by simpa using h45
        have e2 : (x == 43) = false := by simpa using h43
        simp only [List.headD_cons, e1, e2, Bool.or_false, Bool.false_eq_true, if_false]
        split
        · rename_i heq; exact absurd (List.cons.inj heq).1 h45
        · rename_i heq; exact absurd (List.cons.inj heq).1 h43
        · rfl

theorem l0r_get?_headD {b : Buf} {j : Nat} (h : b.HasNul j) : b.get? j = .ok ((b.view j).headD 0) := by
  rcases h.cases with ⟨hg, hv⟩ | ⟨c, _, hg, hv, _⟩
  · rw [hg, hv]; rfl
  · rw [hg, hv]; rfl

/-- `strtoul` (with the caller's `INT_MAX` test) refines the list model: the value, and `end = nptr + consumed`. -/
theorem l0r_strtoul_spec {b : Buf} {i : Nat} (h : b.HasNul i) :
    strtoul b i = .ok ((Model.strtoul (b.view i)).1, i + (Model.strtoul (b.view i)).2) ∧
      (Model.strtoul (b.view i)).2 ≤ (b.view i).length := by
  have hws := length_takeWhile_le isspace (b.view i)
  obtain ⟨hnj, hvj⟩ := h.add _ hws
  rw [l0r_strtoul_unfold (b.view i) _ (l0r_sign_eq _)]
  unfold strtoul
  rw [skipIsspace_spec h]
  simp only
  rw [l0r_get?_headD hnj]
  simp only
  rw [← hvj]
  generalize hws' : ((b.view i).takeWhile isspace).length = ws at *
  generalize hsg : (b.view (i + ws)).headD 0 = sg
  -- the position after the sign
  have hk : ∃ sgn : Nat, (if (sg == 45 || sg == 43) = true then 1 else 0) = sgn ∧
      (if (sg == 45 || sg == 43) = true then i + ws + 1 else i + ws) = i + ws + sgn ∧
      b.HasNul (i + ws + sgn) ∧ b.view (i + ws + sgn) = (b.view (i + ws)).drop sgn ∧
      sgn ≤ (b.view (i + ws)).length := by
    by_cases hs : (sg == 45 || sg == 43) = true
    · simp only [hs, if_true]
      have hne : sg ≠ 0 := by
        intro e; rw [e] at hs; revert hs; decide
      rcases hnj.cases with ⟨_, hv0⟩ | ⟨c, _, hg, hvc, hn1⟩
      · rw [hv0] at hsg; exact absurd hsg.symm hne
      · refine ⟨1, rfl, rfl, hn1, ?_, ?_⟩
        · rw [hvc]; rfl
        · rw [hvc]; simp
    · simp only [hs, Bool.false_eq_true, if_false]
      exact ⟨0, rfl, rfl, hnj, rfl, Nat.zero_le _⟩
  obtain ⟨sgn, hsgn, hkpos, hnk, hvk, hsgnle⟩ := hk
  rw [hsgn, hkpos, l0r_strtoulDigits_spec hnk 0, hvk]
  simp only
  rw [l0r_digits_snd, Nat.zero_add]
  have hcnt := length_takeWhile_le isdigit ((b.view (i + ws)).drop sgn)
  generalize (((b.view (i + ws)).drop sgn).takeWhile isdigit).length = cnt at hcnt ⊢
  have hlen : (b.view (i + ws)).length = (b.view i).length - ws := by rw [hvj]; simp
  rw [List.length_drop] at hcnt
  by_cases hc0 : cnt = 0
  · have e1 : (i + ws + sgn + cnt == i + ws + sgn) = true := by simp [hc0]
    have e2 : (cnt == 0) = true := by simp [hc0]
    simp only [e1, e2, if_true, Nat.add_zero, Nat.zero_le, and_self]
  · have e1 : (i + ws + sgn + cnt == i + ws + sgn) = false := by
      simp only [beq_eq_false_iff_ne, ne_eq]; omega
    have e2 : (cnt == 0) = false := by simpa using hc0
    simp only [e1, e2, Bool.false_eq_true, if_false]
    have hadd : i + ws + sgn + cnt = i + (ws + sgn + cnt) := by omega
    have hbound : ws + sgn + cnt ≤ (b.view i).length := by omega
    cases hneg : (sg == 45) with
    | true =>
      simp only [if_true]
      have hsame : ∀ v, strtoulNeg v = Model.strtoulNeg v := fun _ => rfl
      exact ⟨by rw [hadd, hsame], hbound⟩
    | false =>
      simp only [Bool.false_eq_true, if_false]
      split
      · exact ⟨by rw [hadd], hbound⟩
      · exact ⟨by rw [hadd], hbound⟩

/-- The L0 result of `isbackref` for an L1 result. -/
def l0r_backrefAbs : Sum (Nat × Model.Backref) Bool → Sum (Nat × Nat × Nat) Bool
  | .inl (n, br) => .inl (n, br.mi, br.si)
  | .inr e => .inr e

theorem l0r_isBackref_not {s : Bytes} (h : ∀ d r, s ≠ 92 :: d :: r) : Model.isBackref s = .inr false := by
  unfold Model.isBackref
  split
  · rename_i d r; exact absurd rfl (h d r)
  · rfl

/-- What `isbackref` does with the text after the first number. -/
def l0r_backrefRest (val n : Nat) (rest : Bytes) : Sum (Nat × Model.Backref) Bool :=
  if rest.headD 0 == 46 then
    (match Model.strtoul (rest.drop 1) with
     | (none, _) => .inr true
     | (some v2, n2) => .inl (1 + n + 1 + n2, { mi := val, si := v2 }))
  else if rest.headD 0 == 92 && (rest.drop 1).headD 0 == 46 then .inl (1 + n + 1, { mi := 0, si := val })
  else .inl (1 + n, { mi := 0, si := val })

theorem l0r_isBackref_cons (d : UInt8) (r : Bytes) :
    Model.isBackref (92 :: d :: r) =
      if !isdigit d then .inr false
      else
        match Model.strtoul (d :: r) with
        | (none, _) => .inr true
        | (some val, n) => l0r_backrefRest val n ((d :: r).drop n) := by
  unfold Model.isBackref
  simp only [List.drop_succ_cons, List.drop_zero]
  by_cases hd : (!isdigit d) = true
  · simp only [hd, if_true]
  · simp only [hd, Bool.false_eq_true, if_false]
    cases hst : Model.strtoul (d :: r) with
    | mk o n =>
      cases o with
      | none => rfl
      | some val =>
        simp only
        have e : ∀ (k : Nat), (92 :: d :: r).drop (1 + k) = (d :: r).drop k := by
          intro k; rw [Nat.add_comm]; rfl
        rw [e]
        generalize (d :: r).drop n = rest
        unfold l0r_backrefRest
        cases rest with
        | nil => rfl
        | cons x t =>
          by_cases h46 : x = 46
          · subst h46; rfl
          · have e46 : (x == 46) = false := by simpa using h46
            by_cases h92 : x = 92
            · subst h92
              cases t with
              | nil => rfl
              | cons y u =>
                by_cases hy : y = 46
                · subst hy; rfl
                · have ey : (y == 46) = false := by simpa using hy
                  simp only [List.headD_cons, List.drop_succ_cons, List.drop_zero, ey, Bool.and_false,
                    Bool.false_eq_true, if_false]
                  split
                  · rename_i heq; exact absurd (List.cons.inj heq).1 (by decide)
                  · rename_i heq; exact absurd (List.cons.inj (List.cons.inj heq).2).1 hy
                  · rfl
            · have e92 : (x == 92) = false := by simpa using h92
              simp only [List.headD_cons, e46, e92, Bool.false_and, Bool.false_eq_true, if_false]
              split
              · rename_i heq; exact absurd (List.cons.inj heq).1 h46
              · rename_i heq; exact absurd (List.cons.inj heq).1 h92
              · rfl

/-- `isbackref` refines the list model. -/
theorem l0r_isBackref_refines (b : Buf) {i : Nat} (h : b.HasNul i) :
    isBackref b i = .ok (l0r_backrefAbs (Model.isBackref (b.view i))) := by
  unfold isBackref
  rcases h.cases with ⟨hg, hv⟩ | ⟨c0, hc0, hg, hv, hn1⟩
  · rw [hg, hv, l0r_isBackref_not (by intro d r e; cases e)]
    rfl
  · rw [hg, hv]
    simp only
    by_cases h92 : c0 = 92
    · subst h92
      simp only [bne_self_eq_false, Bool.false_eq_true, if_false]
      rw [l0r_get?_headD hn1]
      simp only
      rcases hn1.cases with ⟨_, hv1⟩ | ⟨d, hd0, _, hv1, _⟩
      · rw [hv1, l0r_isBackref_not (by intro d r e; cases e)]
        rfl
      · rw [hv1, l0r_isBackref_cons]
        simp only [List.headD_cons]
        by_cases hdig : (!isdigit d) = true
        · simp only [hdig, if_true]; rfl
        · simp only [hdig, Bool.false_eq_true, if_false]
          obtain ⟨hst, hle⟩ := l0r_strtoul_spec hn1
          rw [hst, hv1]
          rw [hv1] at hle
          cases hm : Model.strtoul (d :: b.view (i + 1 + 1)) with
          | mk o n =>
            rw [hm] at hle
            simp only at hle
            cases o with
            | none => rfl
            | some val =>
              simp only
              obtain ⟨hne, hve⟩ := hn1.add n (by rw [hv1]; exact hle)
              rw [hv1] at hve
              rw [l0r_get?_headD hne, hve]
              generalize (d :: b.view (i + 1 + 1)).drop n = rest at hve ⊢
              unfold l0r_backrefRest
              by_cases h46 : rest.headD 0 = 46
              · have e46 : (rest.headD 0 == 46) = true := by rw [h46]; rfl
                simp only [e46, if_true]
                have hne0 : rest.headD 0 ≠ 0 := by rw [h46]; decide
                rcases hne.cases with ⟨_, hv0⟩ | ⟨x, _, _, hvx, hne1⟩
                · rw [hve] at hv0; rw [hv0] at hne0; exact absurd rfl hne0
                · obtain ⟨hst2, _⟩ := l0r_strtoul_spec hne1
                  rw [hst2]
                  have hv2 : b.view (i + 1 + n + 1) = rest.drop 1 := by
                    rw [hve] at hvx; rw [hvx]; rfl
                  rw [hv2]
                  cases hm2 : Model.strtoul (rest.drop 1) with
                  | mk o2 n2 =>
                    cases o2 with
                    | none => rfl
                    | some v2 =>
                      simp only [l0r_backrefAbs]
                      congr 3; omega
              · have e46 : (rest.headD 0 == 46) = false := by simpa using h46
                simp only [e46, Bool.false_eq_true, if_false]
                by_cases h92 : rest.headD 0 = 92
                · have e92 : (rest.headD 0 == 92) = true := by rw [h92]; rfl
                  simp only [e92, if_true, Bool.true_and]
                  have hne0 : rest.headD 0 ≠ 0 := by rw [h92]; decide
                  rcases hne.cases with ⟨_, hv0⟩ | ⟨x, _, _, hvx, hne1⟩
                  · rw [hve] at hv0; rw [hv0] at hne0; exact absurd rfl hne0
                  · rw [l0r_get?_headD hne1]
                    have hv2 : b.view (i + 1 + n + 1) = rest.drop 1 := by
                      rw [hve] at hvx; rw [hvx]; rfl
                    rw [hv2]
                    simp only
                    by_cases hd1 : (rest.drop 1).headD 0 = 46
                    · have ed1 : ((rest.drop 1).headD 0 == 46) = true := by rw [hd1]; rfl
                      simp only [ed1, if_true, l0r_backrefAbs]
                      congr 3; omega
                    · have ed1 : ((rest.drop 1).headD 0 == 46) = false := by simpa using hd1
                      simp only [ed1, Bool.false_eq_true, if_false, l0r_backrefAbs]
                      congr 3; omega
                · have e92 : (rest.headD 0 == 92) = false := by simpa using h92
                  simp only [e92, Bool.false_and, Bool.false_eq_true, if_false, l0r_backrefAbs]
                  congr 3; omega
    · have h92' : (c0 != 92) = true := by simp [h92]
      simp only [h92', if_true]
      rw [l0r_isBackref_not (by intro d r e; exact h92 (List.cons.inj e).1)]
      rfl

end Mdsort.L0
