import Mdsort.Proofs.L0Message
import Mdsort.Proofs.L0Mime
import Mdsort.Proofs.L0Unfold
import Mdsort.Proofs.HeaderParse

/-!
# L0 `findheader` and `message_parse_headers` refine the list model

`findHeader_ok`/`parseHeaders_ok` (L0Message) say that no access leaves the buffer.  Here the contents are tracked:
the slices `findheader` hands out (after its two in-place NUL writes) are the key, the value and the rest of the
list model on the view, the header table read back through its `key`/`val` pointers is the list model's table, and
`me_body` points at the list model's body.
-/

namespace Mdsort.L0
open Mdsort Mdsort.L0.Buf

/-! ## views under writes -/

/-- The view from `i` only depends on the bytes up to its terminator. -/
theorem l0r_view_congr {b b' : Buf} : ∀ (n : Nat) {i : Nat}, (b.view i).length = n → b.HasNul i →
    (∀ j, i ≤ j → j ≤ i + n → b'.get? j = b.get? j) → b'.view i = b.view i := by
  intro n
  induction n with
  | zero =>
    intro i hl h hag
    rcases h.cases with ⟨hg, hv⟩ | ⟨c, hc, hg, hv, hn'⟩
    · rw [hv]; exact view_nul (by rw [hag i (Nat.le_refl _) (by omega)]; exact hg)
    · rw [hv] at hl; simp at hl
  | succ n ih =>
    intro i hl h hag
    rcases h.cases with ⟨hg, hv⟩ | ⟨c, hc, hg, hv, hn'⟩
    · rw [hv] at hl; simp at hl
    · have hg' : b'.get? i = .ok c := by rw [hag i (Nat.le_refl _) (by omega)]; exact hg
      rw [view_cons hg' hc, hv]
      congr 1
      exact ih (by rw [hv] at hl; simpa using hl) hn' (fun j h1 h2 => hag j (by omega) (by omega))

/-- The view only depends on the bytes from `i` on. -/
theorem l0r_view_of_agree_ge {b b' : Buf} {i : Nat} (h : b.HasNul i) (hag : ∀ j, i ≤ j → b'.get? j = b.get? j) :
    b'.view i = b.view i :=
  l0r_view_congr _ rfl h (fun j h1 _ => hag j h1)

/-- Writing a NUL inside a C string cuts it there. -/
theorem l0r_view_set_nul {b b' : Buf} : ∀ (n : Nat) {i : Nat}, b.set (i + n) 0 = .ok b' →
    n ≤ (b.view i).length → b.HasNul i → b'.view i = (b.view i).take n := by
  intro n
  induction n with
  | zero =>
    intro i hset _ _
    have : b'.get? i = .ok 0 := by rw [get?_set hset]; simp
    rw [view_nul this]; simp
  | succ n ih =>
    intro i hset hl h
    rcases h.cases with ⟨hg, hv⟩ | ⟨c, hc, hg, hv, hn'⟩
    · rw [hv] at hl; simp at hl
    · have hg' : b'.get? i = .ok c := by rw [get?_set hset, if_neg (by omega)]; exact hg
      have hset' : b.set (i + 1 + n) 0 = .ok b' := by rw [← hset]; congr 1; omega
      rw [view_cons hg' hc, hv, List.take_succ_cons, ih hset' (by rw [hv] at hl; simpa using hl) hn']

theorem l0r_get?_of_view_cons {b : Buf} {i : Nat} {c : UInt8} {r : Bytes} (h : b.HasNul i) (hv : b.view i = c :: r) :
    b.get? i = .ok c ∧ c ≠ 0 ∧ b.HasNul (i + 1) ∧ b.view (i + 1) = r := by
  rcases h.cases with ⟨_, hv0⟩ | ⟨x, hx, hg, hvx, hn'⟩
  · rw [hv0] at hv; cases hv
  · rw [hvx] at hv; cases hv; exact ⟨hg, hx, hn', rfl⟩

theorem l0r_at_append {b : Buf} {i : Nat} {p s : Bytes} (h : b.HasNul i) (hv : b.view i = p ++ s) :
    b.HasNul (i + p.length) ∧ b.view (i + p.length) = s := by
  obtain ⟨h1, h2⟩ := h.add p.length (by rw [hv]; simp)
  exact ⟨h1, by rw [h2, hv]; simp⟩

theorem l0r_dropWhile_ne_head {c : UInt8} {l : Bytes} {x : UInt8} {r : Bytes}
    (h : l.dropWhile (· != c) = x :: r) : x = c := by
  induction l with
  | nil => simp at h
  | cons y t ih =>
    by_cases hy : y = c
    · simp [hy] at h
      exact h.1.symm
    · simp [hy] at h
      exact ih h

/-- `strchr` for a non-NUL byte: the index is the length of the part of the view before the first occurrence. -/
theorem l0r_strchr_tw {b : Buf} {i : Nat} (h : b.HasNul i) (c : UInt8) (hc : c ≠ 0) :
    strchr b i c = .ok (match (b.view i).dropWhile (· != c) with
      | [] => none
      | _ :: _ => some (i + ((b.view i).takeWhile (· != c)).length)) := by
  generalize hn : b.size - i = n
  induction n using Nat.strongRecOn generalizing i with
  | _ n ih =>
    have := h.lt
    rcases h.cases with ⟨hg, hv⟩ | ⟨x, hx, hg, hv, hn'⟩
    · rw [strchr_eq c hg, hv]
      have : ((0 : UInt8) == c) = false := by simpa using fun e => hc e.symm
      simp [this]
    · rw [strchr_eq c hg, hv]
      by_cases hxc : x = c
      · subst hxc; simp
      · have h1 : (x == c) = false := by simpa using hxc
        have h2 : (x == 0) = false := by simpa using hx
        have h3 : (x != c) = true := by simp [hxc]
        simp only [h1, h2, Bool.false_eq_true, if_false]
        rw [ih _ (by omega) hn' rfl]
        simp only [List.dropWhile_cons, List.takeWhile_cons, h3, if_true, List.length_cons]
        cases (b.view (i + 1)).dropWhile (· != c) with
        | nil => rfl
        | cons y t =>
          have e : i + 1 + ((b.view (i + 1)).takeWhile (· != c)).length =
              i + (((b.view (i + 1)).takeWhile (· != c)).length + 1) := by omega
          simp only [e]

/-! ## the key scan -/

theorem l0r_scanKey_refines (b : Buf) {i : Nat} (h : b.HasNul i) :
    (Model.scanKey (b.view i) = none → scanKey b i = .ok none) ∧
    (∀ k rest, Model.scanKey (b.view i) = some (k, rest) →
      scanKey b i = .ok (some (i + k.length)) ∧ b.view i = k ++ 58 :: rest) := by
  generalize hm : b.size - i = m
  induction m using Nat.strongRecOn generalizing i with
  | _ m ih =>
    have := h.lt
    rcases h.cases with ⟨hg, hv⟩ | ⟨c, hc, hg, hv, hn'⟩
    · rw [scanKey_eq hg, hv]
      simp [Model.scanKey]
    · rw [scanKey_eq hg, hv, Model.scanKey]
      by_cases h58 : c = 58
      · subst h58
        simp only [beq_self_eq_true, if_true]
        refine ⟨fun e => (by cases e), fun k rest e => ?_⟩
        cases e
        exact ⟨rfl, rfl⟩
      · have h58' : (c == 58) = false := by simpa using h58
        simp only [h58', Bool.false_eq_true, if_false]
        by_cases hsp : isspace c = true
        · have hor : (c == 0 || isspace c) = true := by simp [hsp]
          rw [if_pos hor, if_pos hsp]
          exact ⟨fun _ => rfl, fun k rest e => (by cases e)⟩
        · have hor : ¬ (c == 0 || isspace c) = true := by simp [hsp, hc]
          rw [if_neg hor, if_neg hsp]
          obtain ⟨h1, h2⟩ := ih _ (by omega) hn' rfl
          cases hs : Model.scanKey (b.view (i + 1)) with
          | none => exact ⟨fun _ => h1 hs, fun k rest e => (by simp at e)⟩
          | some p =>
            obtain ⟨k', rest'⟩ := p
            obtain ⟨h3, h4⟩ := h2 k' rest' hs
            refine ⟨fun e => (by simp at e), fun k rest e => ?_⟩
            simp only [Option.map_some, Option.some.injEq, Prod.mk.injEq] at e
            obtain ⟨rfl, rfl⟩ := e
            refine ⟨?_, ?_⟩
            · have e : i + 1 + k'.length = i + (c :: k').length := by simp only [List.length_cons]; omega
              rw [h3, e]
            · rw [h4]; rfl

/-! ## the value scan -/

theorem l0r_scanValue_append (pre s : Bytes) (hpre : ∀ x ∈ pre, x ≠ 10) :
    Model.scanValue (pre ++ s) = (Model.scanValue s).map fun p => (pre ++ p.1, p.2) := by
  induction pre with
  | nil => rw [List.nil_append]; cases Model.scanValue s <;> simp
  | cons x t ih =>
    have hx : (x == 10) = false := by simpa using hpre x (by simp)
    rw [List.cons_append, Proofs.scanValue_cons]
    simp only [hx, Bool.false_eq_true, if_false]
    rw [ih (fun y hy => hpre y (by simp [hy]))]
    cases Model.scanValue s with
    | none => simp
    | some p => obtain ⟨a, c⟩ := p; simp

theorem l0r_scanValue_no_nl (s : Bytes) (h : ∀ x ∈ s, x ≠ 10) : Model.scanValue s = none := by
  have := l0r_scanValue_append s [] h
  rw [List.append_nil] at this
  rw [this]; simp [Model.scanValue]

theorem l0r_isblank_ne_nl {x : UInt8} (h : isblank x = true) : x ≠ 10 := by
  intro e; subst e; revert h; decide

theorem l0r_scanValue_nl_zero (r : Bytes) (h : Mdsort.nspaces r = 0) : Model.scanValue (10 :: r) = some ([], r) := by
  rw [Proofs.scanValue_cons]
  cases r with
  | nil => simp
  | cons x t =>
    have hx : isblank x = false := by
      unfold Mdsort.nspaces at h
      by_cases hb : isblank x = true
      · rw [List.takeWhile_cons_of_pos hb] at h; simp at h
      · simpa using hb
    simp [hx]

theorem l0r_scanValue_nl_pos (r : Bytes) (h : Mdsort.nspaces r ≠ 0) :
    Model.scanValue (10 :: r) =
      (Model.scanValue (r.drop (Mdsort.nspaces r))).map fun p => (10 :: r.take (Mdsort.nspaces r) ++ p.1, p.2) := by
  rw [Proofs.scanValue_cons]
  cases r with
  | nil => simp [Mdsort.nspaces] at h
  | cons x t =>
    have hx : isblank x = true := by
      unfold Mdsort.nspaces at h
      by_cases hb : isblank x = true
      · exact hb
      · rw [List.takeWhile_cons_of_neg hb] at h; simp at h
    simp only [beq_self_eq_true, if_true, hx]
    have hsplit : (x :: t) = (x :: t).take (Mdsort.nspaces (x :: t)) ++ (x :: t).drop (Mdsort.nspaces (x :: t)) :=
      (List.take_append_drop _ _).symm
    have hpre : ∀ y ∈ (x :: t).take (Mdsort.nspaces (x :: t)), y ≠ 10 := by
      intro y hy
      unfold Mdsort.nspaces at hy
      rw [take_length_takeWhile] at hy
      exact l0r_isblank_ne_nl (Proofs.mem_takeWhile_imp' hy)
    conv => lhs; rw [hsplit]
    rw [l0r_scanValue_append _ _ hpre]
    cases Model.scanValue ((x :: t).drop (Mdsort.nspaces (x :: t))) with
    | none => simp
    | some p => obtain ⟨a, c⟩ := p; simp

theorem l0r_valueEnd_refines (b : Buf) {i : Nat} (h : b.HasNul i) :
    (Model.scanValue (b.view i) = none → valueEnd b i = .ok none) ∧
    (∀ v rest, Model.scanValue (b.view i) = some (v, rest) →
      valueEnd b i = .ok (some (i + v.length)) ∧ b.view i = v ++ 10 :: rest) := by
  generalize hm : b.size - i = m
  induction m using Nat.strongRecOn generalizing i with
  | _ m ih =>
    have hlt := h.lt
    rw [valueEnd_eq, l0r_strchr_tw h 10 (by decide)]
    have hsplit : (b.view i).takeWhile (· != 10) ++ (b.view i).dropWhile (· != 10) = b.view i :=
      List.takeWhile_append_dropWhile
    have htw : ∀ x ∈ (b.view i).takeWhile (· != 10), x ≠ 10 := fun x hx => by
      simpa using Proofs.mem_takeWhile_imp' hx
    have hle := length_takeWhile_le (· != 10) (b.view i)
    obtain ⟨hnp, hvp⟩ := h.add _ hle
    rw [drop_length_takeWhile] at hvp
    generalize (b.view i).takeWhile (· != 10) = tw at hsplit htw hle hnp hvp ⊢
    cases hdw : (b.view i).dropWhile (· != 10) with
    | nil =>
      simp only
      rw [hdw, List.append_nil] at hsplit
      have hnone : Model.scanValue (b.view i) = none := by rw [← hsplit]; exact l0r_scanValue_no_nl tw htw
      refine ⟨fun _ => ?_, fun v rest e => ?_⟩
      · first | rfl | trivial
      · rw [hnone] at e; cases e
    | cons x r =>
      have hx : x = 10 := l0r_dropWhile_ne_head hdw
      subst hx
      simp only
      rw [hdw] at hvp hsplit
      obtain ⟨hgp, _, hn1, hv1⟩ := l0r_get?_of_view_cons hnp hvp
      rw [skipBlanks_spec hn1, hv1]
      simp only
      have hL1 : Model.scanValue (b.view i) = (Model.scanValue (10 :: r)).map fun p => (tw ++ p.1, p.2) := by
        rw [← hsplit]; exact l0r_scanValue_append tw _ htw
      by_cases hz : Mdsort.nspaces r = 0
      · have e1 : (i + tw.length + 1 + Mdsort.nspaces r - (i + tw.length + 1) == 0) = true := by simp [hz]
        simp only [e1, if_true]
        rw [hL1, l0r_scanValue_nl_zero r hz]
        refine ⟨fun e => (by simp at e), fun v rest e => ?_⟩
        simp only [Option.map_some, Option.some.injEq, Prod.mk.injEq, List.append_nil] at e
        obtain ⟨rfl, rfl⟩ := e
        exact ⟨rfl, hsplit.symm⟩
      · have e1 : (i + tw.length + 1 + Mdsort.nspaces r - (i + tw.length + 1) == 0) = false := by
          simp only [beq_eq_false_iff_ne, ne_eq]; omega
        simp only [e1, Bool.false_eq_true, if_false]
        have e2 : i + tw.length + (i + tw.length + 1 + Mdsort.nspaces r - (i + tw.length + 1)) + 1 =
            i + tw.length + 1 + Mdsort.nspaces r := by omega
        rw [e2]
        have hnle := nspaces_le r
        obtain ⟨hn2, hv2⟩ := hn1.add (Mdsort.nspaces r) (by rw [hv1]; exact hnle)
        rw [hv1] at hv2
        have hlt2 := hn2.lt
        obtain ⟨ih1, ih2⟩ := ih _ (by omega) hn2 rfl
        rw [hv2] at ih1 ih2
        rw [hL1, l0r_scanValue_nl_pos r hz]
        cases hs : Model.scanValue (r.drop (Mdsort.nspaces r)) with
        | none => exact ⟨fun _ => ih1 hs, fun v rest e => by simp at e⟩
        | some p =>
          obtain ⟨v', rest'⟩ := p
          obtain ⟨h3, h4⟩ := ih2 v' rest' hs
          refine ⟨fun e => (by simp at e), fun v rest e => ?_⟩
          simp only [Option.map_some, Option.some.injEq, Prod.mk.injEq] at e
          obtain ⟨rfl, rfl⟩ := e
          refine ⟨?_, ?_⟩
          · rw [h3]; congr 2
            simp only [List.length_append, List.length_cons, List.length_take, Nat.min_eq_left hnle]
            omega
          · rw [← hsplit]
            simp only [List.append_assoc, List.cons_append, List.append_cancel_left_eq, List.cons.injEq, true_and]
            rw [← h4]; exact (List.take_append_drop _ _).symm

/-! ## findheader -/

/-- How the result of the L0 `findheader` at `&b[i]` stands for the L1 one on the view: the same case; the key slice
starts at `i` and ends at the colon, the value slice ends at the newline that ends the value; the buffer handed back
is `b` after the two NUL writes `*ks->s_end = '\0'`, `*vs->s_end = '\0'`; read as C strings (and as slices) the key
and the value are the L1 key and value, and the text after the value is the L1 rest. -/
def l0r_FindHdrRel (b : Buf) (i : Nat) : FindHdr → Model.FindHdr → Prop
  | .notHeader, .notHeader => True
  | .cutAtColon b', .cutAtColon key => b.set (i + key.length) 0 = .ok b' ∧ b'.view i = key
  | .found b' ks vs, .ok key val rest =>
    ks.beg = i ∧ ks.end_ = i + key.length ∧ ks.end_ < vs.beg ∧ vs.end_ = vs.beg + val.length ∧
    (∃ b1, b.set ks.end_ 0 = .ok b1 ∧ b1.set vs.end_ 0 = .ok b') ∧
    b'.view ks.beg = key ∧ b'.view vs.beg = val ∧ b'.HasNul (vs.end_ + 1) ∧ b'.view (vs.end_ + 1) = rest ∧
    b'.slice ks.beg ks.end_ = key ∧ b'.slice vs.beg vs.end_ = val
  | _, _ => False

theorem l0r_take_left (a c : Bytes) : (a ++ c).take a.length = a := by simp

/-- `findheader` refines the list model. -/
theorem l0r_findHeader_refines (b : Buf) {i : Nat} (h : b.HasNul i) :
    ∃ r, findHeader b i = .ok r ∧ l0r_FindHdrRel b i r (Model.findHeader (b.view i)) := by
  unfold findHeader Model.findHeader
  obtain ⟨k1, k2⟩ := l0r_scanKey_refines b h
  cases hk : Model.scanKey (b.view i) with
  | none => rw [k1 hk]; exact ⟨.notHeader, rfl, trivial⟩
  | some kp =>
    obtain ⟨key, ac⟩ := kp
    obtain ⟨hsk, hview⟩ := k2 key ac hk
    rw [hsk]
    simp only
    obtain ⟨hnc, hvc⟩ := l0r_at_append h hview
    obtain ⟨hgc, _, hnc1, hvc1⟩ := l0r_get?_of_view_cons hnc hvc
    have hset := set_ok (b := b) 0 hnc.lt
    rw [hset]
    simp only
    generalize (⟨b.bytes.setIfInBounds (i + key.length) 0⟩ : Buf) = b1 at hset
    have hk1 := KeepsNuls.of_set hset
    have hb1key : b1.view i = key := by
      rw [l0r_view_set_nul key.length hset (by rw [hview]; simp) h, hview, l0r_take_left]
    have hn1 : b1.HasNul (i + key.length + 1) := hk1.hasNul hnc1
    have hv1 : b1.view (i + key.length + 1) = ac := by
      rw [l0r_view_of_agree_ge hnc1 (fun j hj => by rw [get?_set hset, if_neg (by omega)]), hvc1]
    rw [skipBlanks_spec hn1, hv1]
    simp only
    obtain ⟨hnv, hvv⟩ := hn1.add (Mdsort.nspaces ac) (by rw [hv1]; exact nspaces_le ac)
    rw [hv1] at hvv
    obtain ⟨v1, v2⟩ := l0r_valueEnd_refines b1 hnv
    rw [hvv] at v1 v2
    have hacd : Model.afterColonDrop ac = ac.drop (Mdsort.nspaces ac) := rfl
    rw [hacd]
    cases hsv : Model.scanValue (ac.drop (Mdsort.nspaces ac)) with
    | none =>
      rw [v1 hsv]
      exact ⟨.cutAtColon b1, rfl, hset, hb1key⟩
    | some vp =>
      obtain ⟨val, rest⟩ := vp
      obtain ⟨hve, hvview⟩ := v2 val rest hsv
      rw [hve]
      simp only
      rw [← hvv] at hvview
      obtain ⟨hne, hvend⟩ := l0r_at_append hnv hvview
      obtain ⟨hge, _, hne1, hvr⟩ := l0r_get?_of_view_cons hne hvend
      have hset2 := set_ok (b := b1) 0 hne.lt
      rw [hset2]
      simp only
      generalize (⟨b1.bytes.setIfInBounds (i + key.length + 1 + Mdsort.nspaces ac + val.length) 0⟩ : Buf) = b2 at hset2
      have hk2 := KeepsNuls.of_set hset2
      have hb2key : b2.view i = key := by
        rw [← hb1key]
        exact l0r_view_congr key.length (by rw [hb1key]) (hk1.hasNul h)
          (fun j _ h2 => by rw [get?_set hset2, if_neg (by omega)])
      have hb2val : b2.view (i + key.length + 1 + Mdsort.nspaces ac) = val := by
        rw [l0r_view_set_nul val.length hset2 (by rw [hvview]; simp) hnv, hvview, l0r_take_left]
      have hb2rest : b2.view (i + key.length + 1 + Mdsort.nspaces ac + val.length + 1) = rest := by
        rw [l0r_view_of_agree_ge hne1 (fun j hj => by rw [get?_set hset2, if_neg (by omega)]), hvr]
      refine ⟨_, rfl, rfl, rfl, by simp only; omega, rfl, ⟨b1, hset, hset2⟩, hb2key, hb2val, hk2.hasNul hne1, hb2rest,
        ?_, ?_⟩
      · have := (hk2.hasNul (hk1.hasNul h)).slice_view key.length (by rw [hb2key]; exact Nat.le_refl _)
        simp only
        rw [this, hb2key, List.take_length]
      · have := (hk2.hasNul hnv).slice_view val.length (by rw [hb2val]; exact Nat.le_refl _)
        simp only
        rw [this, hb2val, List.take_length]

/-- What the two NUL writes leave alone. -/
theorem l0r_FindHdrRel.found_frame {b b' : Buf} {i : Nat} {ks vs : Slice} {key val rest : Bytes}
    (hrel : l0r_FindHdrRel b i (.found b' ks vs) (.ok key val rest)) :
    KeepsNuls b b' ∧ ∀ j, j < i → b'.get? j = b.get? j := by
  obtain ⟨_, h2, h3, h4, ⟨b1, hs1, hs2⟩, _⟩ := hrel
  refine ⟨(KeepsNuls.of_set hs1).trans (KeepsNuls.of_set hs2), fun j hj => ?_⟩
  rw [get?_set hs2, if_neg (by omega), get?_set hs1, if_neg (by omega)]

/-! ## the loop of message_parse_headers -/

/-- The L1 header a table entry stands for: `key` and `val` read as C strings of `me_buf`. -/
def l0r_readHdr (b : Buf) (h : Hdr0) : Model.Hdr := { id := h.id, key := b.view h.key, val := b.view h.val }

theorem l0r_parseLoop_cut (s : Bytes) (n : Nat) (acc : List Model.Hdr) (key : Bytes)
    (h : Model.findHeader s = .cutAtColon key) : Model.parseLoop s n acc = (acc, key) := by
  rw [Model.parseLoop]
  split
  · rename_i h'; rw [h] at h'; cases h'
  · rename_i k h'; rw [h] at h'; cases h'; rfl
  · rename_i h'; rw [h] at h'; cases h'

/-- The `while (findheader(buf, &ks, &vs))` loop refines the list model's loop: the entries it appends to the table,
read back in the final buffer, are the headers the list loop appends, and `buf` ends where the list loop's rest begins.
Nothing before `buf` is written. -/
theorem l0r_parseLoop_refines (b : Buf) {buf : Nat} (h : b.HasNul buf) (hdrs : Vec Hdr0) (acc : List Model.Hdr) :
    ∃ b' hdrs' buf' news, parseLoop b buf hdrs = .ok (b', hdrs', buf') ∧
      (∀ j, j < buf → b'.get? j = b.get? j) ∧ b'.HasNul buf' ∧
      hdrs'.items.toList = hdrs.items.toList ++ news ∧
      Model.parseLoop (b.view buf) hdrs.items.size acc = (acc ++ news.map (l0r_readHdr b'), b'.view buf') := by
  generalize hm : b.size - buf = m
  induction m using Nat.strongRecOn generalizing b buf hdrs acc with
  | _ m ih =>
    rw [parseLoop_eq]
    obtain ⟨r, hr, hrel⟩ := l0r_findHeader_refines b h
    rw [hr]
    cases hf : Model.findHeader (b.view buf) with
    | notHeader =>
      rw [hf] at hrel
      cases r with
      | notHeader =>
        refine ⟨b, hdrs, buf, [], rfl, fun _ _ => rfl, h, by simp, ?_⟩
        rw [Proofs.parseLoop_notHeader _ _ _ hf]; simp
      | cutAtColon b' => exact hrel.elim
      | found b' ks vs => exact hrel.elim
    | cutAtColon key =>
      rw [hf] at hrel
      cases r with
      | notHeader => exact hrel.elim
      | cutAtColon b' =>
        obtain ⟨hset, hview⟩ := hrel
        refine ⟨b', hdrs, buf, [], rfl, fun j hj => by rw [get?_set hset, if_neg (by omega)],
          (KeepsNuls.of_set hset).hasNul h, by simp, ?_⟩
        rw [l0r_parseLoop_cut _ _ _ _ hf, hview]; simp
      | found b' ks vs => exact hrel.elim
    | ok key val rest =>
      rw [hf] at hrel
      cases r with
      | notHeader => exact hrel.elim
      | cutAtColon b' => exact hrel.elim
      | found bf ks vs =>
        obtain ⟨hkn, hframe⟩ := hrel.found_frame
        obtain ⟨hkb, hke, hkv, hve, _, hvk, hvv, hnr, hvr, _, _⟩ := hrel
        simp only
        obtain ⟨v1, p, hc, hitems, hgen, hidx⟩ := Vec.calloc_ok hdrs (default : Hdr0)
        rw [hc]
        simp only
        rw [Vec.store_ok v1 p _ hgen (by rw [hitems, hidx]; simp)]
        simp only
        have hlt := h.lt
        have hsz := hkn.1
        have hnrlt := hnr.lt
        have hitems2 : v1.items.setIfInBounds p.idx { id := v1.items.size, key := ks.beg, val := vs.beg } =
            hdrs.items.push { id := hdrs.items.size + 1, key := ks.beg, val := vs.beg } := by
          rw [hitems, hidx, push_set_last]; simp
        rw [hitems2]
        obtain ⟨b'', hd, bf', news', hrec, hfr2, hn2, hit2, hL1⟩ := ih (bf.size - (vs.end_ + 1)) (by omega) bf hnr
          { v1 with items := hdrs.items.push { id := hdrs.items.size + 1, key := ks.beg, val := vs.beg } }
          (acc ++ [{ id := hdrs.items.size + 1, key := key, val := val }]) rfl
        refine ⟨b'', hd, bf', { id := hdrs.items.size + 1, key := ks.beg, val := vs.beg } :: news', hrec,
          fun j hj => by rw [hfr2 j (by omega), hframe j hj], hn2, by rw [hit2]; simp, ?_⟩
        rw [Proofs.parseLoop_ok _ _ _ _ _ _ hf]
        simp only [Array.size_push] at hL1
        rw [hvr] at hL1
        rw [hL1]
        have hkey : b''.view ks.beg = key := by
          rw [← hvk]
          exact l0r_view_congr key.length (by rw [hvk]) (hkb ▸ hkn.hasNul h)
            (fun j _ h2 => hfr2 j (by omega))
        have hval : b''.view vs.beg = val := by
          rw [← hvv]
          exact l0r_view_congr val.length (by rw [hvv]) (hnr.mono (by omega))
            (fun j _ h2 => hfr2 j (by omega))
        simp [l0r_readHdr, hkey, hval]

/-! ## message_parse_headers -/

/-- `message_parse_headers` before `VECTOR_SORT`: the table in file order read back is the list loop's table, and
`me_body` points at the list model's body. -/
theorem l0r_parseHeaders_refines (b : Buf) (ht : b.Terminated) :
    ∃ b' hdrs body, parseHeaders b = .ok (b', hdrs, body) ∧ b'.Terminated ∧ b'.size = b.size ∧ b'.HasNul body ∧
      HdrsIn b' hdrs.items ∧
      hdrs.items.toList.map (l0r_readHdr b') = (Model.parseLoop (Model.skipSeparator (b.view 0)) 0 []).1 ∧
      b'.view body = (Model.parseHeaders (b.view 0)).body := by
  unfold parseHeaders
  obtain ⟨j, hj, _, hnj, hvj⟩ := skipSeparator_refines b ht.hasNul0
  rw [hj]
  simp only
  obtain ⟨b', hdrs, buf', hl, hk, hn, hin⟩ := parseLoop_ok b hnj Vec.init (by intro x hx; simp [Vec.init] at hx)
  obtain ⟨b2, hdrs2, buf2, news, hl2, _, _, hit, hL1⟩ := l0r_parseLoop_refines b hnj Vec.init []
  rw [hl] at hl2
  cases hl2
  rw [hl]
  simp only
  obtain ⟨body, hb, _, hnb, hvb⟩ := skipNewlines_ok b' hn
  rw [hb]
  have hsz0 : (Vec.init : Vec Hdr0).items.size = 0 := rfl
  rw [hsz0, hvj] at hL1
  refine ⟨b', hdrs, body, rfl, hk.terminated ht, hk.1, hnb, hin, ?_, ?_⟩
  · rw [hL1, hit]; simp [Vec.init]
  · rw [hvb]
    unfold Model.parseHeaders
    rw [hL1]

/-- The keys as `cmpheaderkey` reads them. -/
theorem l0r_readKeys_spec (b : Buf) : ∀ (l : List Hdr0), (∀ h ∈ l, b.HasNul h.key) →
    readKeys b l = .ok (l.map fun h => (b.view h.key, h)) := by
  intro l
  induction l with
  | nil => intro _; rfl
  | cons h r ih =>
    intro hin
    rw [readKeys, readCStr_spec (hin h (by simp)), ih (fun x hx => hin x (by simp [hx]))]
    simp

/-- `VECTOR_SORT(msg->me_headers, cmpheaderkey)` is `sortByKey` on the table read back. -/
theorem l0r_sortHeaders_refines (b : Buf) (hs : Array Hdr0) (hin : HdrsIn b hs) :
    ∃ r, sortHeaders b hs = .ok r ∧ HdrsIn b r ∧
      r.toList.map (l0r_readHdr b) = Model.sortByKey (hs.toList.map (l0r_readHdr b)) := by
  obtain ⟨r, hr, hin'⟩ := sortHeaders_ok b hs hin
  refine ⟨r, hr, hin', ?_⟩
  unfold sortHeaders at hr
  rw [l0r_readKeys_spec b hs.toList (fun h hh => (hin h (Array.mem_def.mpr hh)).1)] at hr
  simp only [Except.ok.injEq] at hr
  subst hr
  simp only [List.map_map]
  unfold Model.sortByKey
  rw [List.map_mergeSort (s := Model.keyLe)]
  · simp only [List.map_map]
    rfl
  · intro x hx y hy
    obtain ⟨hx', _, rfl⟩ := List.mem_map.mp hx
    obtain ⟨hy', _, rfl⟩ := List.mem_map.mp hy
    rfl

/-- `message_parse_headers` in full refines the list model: the sorted table read back and the body. -/
theorem l0r_messageParseHeaders_refines (b : Buf) (ht : b.Terminated) :
    ∃ b' hs body, messageParseHeaders b = .ok (b', hs, body) ∧ b'.Terminated ∧ b'.size = b.size ∧
      b'.HasNul body ∧ HdrsIn b' hs ∧
      Model.parseHeaders (b.view 0) = { headers := hs.toList.map (l0r_readHdr b'), body := b'.view body } := by
  unfold messageParseHeaders
  obtain ⟨b', hdrs, body, hp, htb, hsz, hnb, hin, hread, hbody⟩ := l0r_parseHeaders_refines b ht
  rw [hp]
  simp only
  obtain ⟨r, hr, hin', hsorted⟩ := l0r_sortHeaders_refines b' hdrs.items hin
  rw [hr]
  refine ⟨b', r, body, rfl, htb, hsz, hnb, hin', ?_⟩
  rw [hsorted, hread, hbody]
  unfold Model.parseHeaders
  rfl

end Mdsort.L0
