import Mdsort.Proofs.WorldFrameOwn

/-!
# The walk: which names the mutating calls mention, and error isolation (C04)

* `framedW_walk`: during a walk, every mutating call satisfies the frame condition for the name the
  last `readdir` returned.
* `walk_setErr`, `processMessage_setErr`: the error flag never influences which calls are issued.
* `walk_step`: the run of a walk is `readdir`, the run of the message's processing, the run of the
  rest of the walk.
-/

namespace Mdsort.Proofs
open Mdsort Mdsort.Model

/-- One step of `lastName`. -/
def nameStep (acc : Option Bytes) : Call × Res → Option Bytes
  | (.readdir _, .name n) => some n
  | _ => acc

/-- The name most recently returned by `readdir`: the message being processed. -/
def lastName (tr : List (Call × Res)) : Option Bytes := tr.foldl nameStep none

/-- The frame condition during a walk: `readdir` itself, or `Framed` for the name returned by the
last `readdir`; before the first name is returned nothing is mutated. -/
def FramedW (tr : List (Call × Res)) (c : Call) : Prop :=
  (∃ d, c = .readdir d) ∨
  match lastName tr with
  | some n => Framed n tr c
  | none => c.mutating = false

end Mdsort.Proofs

namespace Mdsort.Proofs.Own
open Mdsort Mdsort.Model Mdsort.Proofs
open Mdsort.Proofs.World (bind_eq pure_eq ret_bind call_bind' call_bind bind_assoc Calls All)

variable {R : Call → Res → Prop}

/-! ## the current name -/

theorem lastName_snoc (tr : Trace) (x : Call × Res) : lastName (tr ++ [x]) = nameStep (lastName tr) x := by
  unfold lastName
  rw [List.foldl_append]
  rfl

theorem lastName_readdir (tr : Trace) (d : Handle) (n : Bytes) : lastName (tr ++ [(.readdir d, .name n)]) = some n := by
  rw [lastName_snoc]
  rfl

theorem lastName_other (tr : Trace) (c : Call) (r : Res) (h : ∀ d, c ≠ .readdir d) :
    lastName (tr ++ [(c, r)]) = lastName tr := by
  rw [lastName_snoc]
  unfold nameStep
  split
  · rename_i d n heq
    cases heq
    exact absurd rfl (h d)
  · rfl

theorem Framed.not_readdir {src : Bytes} {tr : Trace} {c : Call} (h : Framed src tr c) : ∀ d, c ≠ .readdir d := by
  intro d e
  subst e
  exact h

theorem Inert.not_mutating {c : Call} (h : Inert c) : c.mutating = false := by
  cases c <;> first | exact h.elim | rfl

theorem Inert.framedW {c : Call} (h : Inert c) (tr : Trace) : FramedW tr c := by
  refine .inr ?_
  cases lastName tr with
  | none => exact h.not_mutating
  | some n => exact h.framed n tr

/-- Transfer a specification to another invariant along a trace predicate that the calls preserve. -/
theorem wp_transfer {α} {I I2 : Trace → Call → Prop} {J : Trace → Prop}
    (hstep : ∀ tr c r, J tr → I tr c → J (tr ++ [(c, r)]))
    (himp : ∀ tr c, J tr → I tr c → I2 tr c)
    {p : Prog α} {Q : α → Trace → Prop} {tr : Trace} (h : wp R I p Q tr) (hj : J tr) :
    wp R I2 p (fun a tr' => Q a tr' ∧ J tr') tr := by
  induction p generalizing tr with
  | ret a => exact ⟨h, hj⟩
  | call c k ih => exact ⟨himp _ _ hj h.1, fun r hr => ih r (h.2 r hr) (hstep _ _ r hj h.1)⟩

/-- `processMessage` for the name the last `readdir` returned satisfies the walk's frame condition. -/
theorem framedW_processMessage (env : PEnv) (orc : EvalOracles) (expr : Expr) (md : Maildir) (name : Bytes) (st : MainSt)
    (tr : Trace) (hl : lastName tr = some name) :
    wp R FramedW (processMessage env orc expr md name st) (fun _ _ => True) tr := by
  refine wp_mono (wp_transfer (J := fun tr => lastName tr = some name) ?_ ?_
    (framed_processMessage env orc expr md name st tr) hl) fun _ _ _ => True.intro
  · intro tr c r hj hc
    rw [lastName_other tr c r (Framed.not_readdir hc)]
    exact hj
  · intro tr c hj hc
    refine .inr ?_
    rw [hj]
    exact hc

macro "inert_step" : tactic =>
  `(tactic| first
      | (with_reducible exact Calls.ret_intro _)
      | ((with_reducible show Inert _); exact True.intro)
      | (with_reducible apply Calls.call_intro)
      | (intro _)
      | (with_reducible apply Calls.bind)
      | split
      | (dsimp only; split))

theorem inert_maildirOpendir (md : Maildir) (path : Bytes) : Calls Inert (maildirOpendir md path) := by
  unfold maildirOpendir
  simp only [bind_eq, pure_eq, call_bind]
  repeat' inert_step

theorem inert_maildirClose (md : Maildir) : Calls Inert (maildirClose md) := by
  unfold maildirClose
  simp only [bind_eq, pure_eq, call_bind]
  repeat' inert_step

theorem wp_inertW {α} {p : Prog α} (hc : Calls Inert p) (tr : Trace) : wp R FramedW p (fun _ _ => True) tr :=
  wp_calls (fun tr _ (h : Inert _) => h.framedW tr) hc (All.trivial p) tr

theorem walk_zero (env : PEnv) (orc : EvalOracles) (expr : Expr) (md : Maildir) (st : MainSt) :
    walk env orc expr 0 md st = .ret ({ st with fuelOut := true }, md) := rfl

/-- The body of the walk after `readdir` returned `r`. -/
def walkK (env : PEnv) (orc : EvalOracles) (expr : Expr) (fuel : Nat) (md : Maildir) (st : MainSt) (r : Res) :
    Prog (MainSt × Maildir) :=
  match r with
  | .name n =>
    if n == [46] || n == [46, 46] then walk env orc expr fuel md st
    else (processMessage env orc expr md n st).bind fun x => walk env orc expr fuel x.2 x.1
  | .eof =>
    if md.stdin then .ret (st, md)
    else
      match md.subdir with
      | .cur => .ret (st, md)
      | .new =>
        match pathjoin PATH_MAX md.root (subdirName .cur) with
        | none => .ret ({ st with error := true }, md)
        | some p =>
          (maildirOpendir { md with subdir := .cur, path := p } p).bind fun x =>
            if x.2 then .ret ({ st with error := true }, x.1) else walk env orc expr fuel x.1 st
  | _ => .ret ({ st with error := true }, md)

theorem walk_succ (env : PEnv) (orc : EvalOracles) (expr : Expr) (fuel : Nat) (md : Maildir) (st : MainSt) :
    walk env orc expr (fuel + 1) md st =
      match md.dirH with
      | none => .ret (st, md)
      | some d => .call (.readdir d) (fun r => walkK env orc expr fuel md st r) := by
  rw [walk]
  unfold walkK
  cases md.dirH with
  | none => rfl
  | some d =>
    dsimp only
    simp only [bind_eq, pure_eq, call_bind]
    rfl

/-- **Isolation of the calls of a walk**: whatever the calls return, every call is a `readdir` or
satisfies the frame condition for the name the last `readdir` returned. -/
theorem framedW_walk (env : PEnv) (orc : EvalOracles) (expr : Expr) (fuel : Nat) (md : Maildir) (st : MainSt) (tr : Trace) :
    wp R FramedW (walk env orc expr fuel md st) (fun _ _ => True) tr := by
  induction fuel generalizing md st tr with
  | zero => exact True.intro
  | succ fuel ih =>
    rw [walk_succ]
    split
    · exact True.intro
    rename_i d hd
    refine wp_call (.inl ⟨d, rfl⟩) fun r _ => ?_
    unfold walkK
    cases r with
    | name n =>
      dsimp only
      split
      · exact ih _ _ _
      · refine wp_bind_ext (framedW_processMessage env orc expr md n st _ (lastName_readdir _ _ _)) ?_
        intro x L _
        exact ih _ _ _
    | eof =>
      dsimp only
      split
      · exact True.intro
      · split
        · exact True.intro
        · split
          · exact True.intro
          · refine wp_bind_ext (wp_inertW (inert_maildirOpendir _ _) _) ?_
            intro x L _
            split
            · exact True.intro
            · exact ih _ _ _
    | ok v => exact True.intro
    | err e => exact True.intro

/-! ## the error flag does not influence the calls -/

/-- Apply a function to the result of a program. -/
def mapP {α β} (f : α → β) (p : Prog α) : Prog β := p.bind fun a => .ret (f a)

theorem mapP_ret {α β} (f : α → β) (a : α) : mapP f (.ret a) = .ret (f a) := rfl

theorem mapP_bind {α β γ} (f : β → γ) (p : Prog α) (g : α → Prog β) :
    mapP f (p.bind g) = p.bind fun a => mapP f (g a) := bind_assoc _ _ _

theorem mapP_call {α β} (f : α → β) (c : Call) (k : Res → Prog α) :
    mapP f (.call c k) = .call c fun r => mapP f (k r) := rfl

theorem runO_mapP {α β} (orcl : Nat → Call → Res) (f : α → β) (p : Prog α) (i : Nat) :
    runO orcl (mapP f p) i = (f (runO orcl p i).1, (runO orcl p i).2.1, (runO orcl p i).2.2) := by
  unfold mapP
  rw [runO_bind]
  simp

end Mdsort.Proofs.Own

namespace Mdsort.Proofs
open Mdsort Mdsort.Model

/-- The state with the error flag or-ed with `b`. -/
def setErr (b : Bool) (st : MainSt) : MainSt := { st with error := b || st.error }

def orErr (b : Bool) (x : MainSt × Maildir) : MainSt × Maildir := (setErr b x.1, x.2)

end Mdsort.Proofs

namespace Mdsort.Proofs.Own
open Mdsort Mdsort.Model Mdsort.Proofs
open Mdsort.Proofs.World (bind_eq pure_eq ret_bind call_bind' call_bind bind_assoc Calls All)

theorem setErr_true_error (st : MainSt) : setErr true { st with error := true } = { st with error := true } := rfl

theorem freeThen_setErr (ms : MsgSt) (b : Bool) (s : MainSt) (m : Maildir) :
    ((freeP ms).bind fun _ => Prog.ret (setErr b s, m)) = mapP (orErr b) ((freeP ms).bind fun _ => .ret (s, m)) := by
  rw [mapP_bind]
  rfl

theorem afterVerdict_setErr (env : PEnv) (md : Maildir) (name : Bytes) (st : MainSt) (ms : MsgSt) (v : Verdict) (b : Bool) :
    afterVerdict env md name (setErr b st) ms v = mapP (orErr b) (afterVerdict env md name st ms v) := by
  have herr : ({ setErr b st with error := true } : MainSt) = setErr b { st with error := true } := by
    simp [setErr]
  cases v with
  | unparsable => simp only [afterVerdict, herr]; exact freeThen_setErr ms b _ _
  | error => simp only [afterVerdict, herr]; exact freeThen_setErr ms b _ _
  | interpFail => simp only [afterVerdict, herr]; exact freeThen_setErr ms b _ _
  | «nomatch» => simp only [afterVerdict]; exact freeThen_setErr ms b _ _
  | act ml msgs fl =>
    simp only [afterVerdict]
    split
    · exact freeThen_setErr _ b { st with log := st.log ++ inspectLines env ml ms.path } md
    · rw [mapP_bind]
      congr 1
      funext x
      rw [← freeThen_setErr]
      congr 1
      funext _
      simp [setErr, Bool.or_assoc]

theorem processMessage_setErr (env : PEnv) (orc : EvalOracles) (expr : Expr) (md : Maildir) (name : Bytes) (st : MainSt)
    (b : Bool) :
    processMessage env orc expr md name (setErr b st) = mapP (orErr b) (processMessage env orc expr md name st) := by
  cases hd : md.dirH with
  | none =>
    rw [processMessage_noDir env orc expr md name _ hd, processMessage_noDir env orc expr md name _ hd]
    rfl
  | some d =>
    have hfiles : (setErr b st).files = st.files := rfl
    cases hf : st.files.get md.path name with
    | none =>
      rw [processMessage_unknown env orc expr md name _ d hd (by rw [hfiles]; exact hf),
        processMessage_unknown env orc expr md name _ d hd hf, mapP_ret]
      simp [orErr, setErr]
    | some content =>
      rw [processMessage_eq env orc expr md name _ d content hd (by rw [hfiles]; exact hf),
        processMessage_eq env orc expr md name _ d content hd hf, mapP_bind]
      congr 1
      funext pm
      cases pm with
      | none =>
        simp only [afterParse, mapP_ret]
        simp [orErr, setErr]
      | some ms =>
        simp only [afterParse]
        rw [mapP_bind]
        congr 1
        funext ev
        exact afterVerdict_setErr env md name st ms _ b

theorem walk_setErr (env : PEnv) (orc : EvalOracles) (expr : Expr) (fuel : Nat) (md : Maildir) (st : MainSt) (b : Bool) :
    walk env orc expr fuel md (setErr b st) = mapP (orErr b) (walk env orc expr fuel md st) := by
  induction fuel generalizing md st with
  | zero => rfl
  | succ fuel ih =>
    rw [walk_succ, walk_succ]
    cases md.dirH with
    | none => rfl
    | some d =>
      dsimp only
      rw [mapP_call]
      congr 1
      funext r
      have herr : ({ setErr b st with error := true } : MainSt) = setErr b { st with error := true } := by
        simp [setErr]
      unfold walkK
      cases r with
      | name n =>
        dsimp only
        split
        · exact ih _ _
        · rw [processMessage_setErr, mapP_bind]
          unfold mapP
          rw [bind_assoc]
          congr 1
          funext x
          exact ih _ _
      | eof =>
        dsimp only
        split
        · rfl
        · cases md.subdir with
          | cur => rfl
          | new =>
            dsimp only
            cases pathjoin PATH_MAX md.root (subdirName .cur) with
            | none => dsimp only; rw [herr]; rfl
            | some p =>
              dsimp only
              rw [mapP_bind]
              congr 1
              funext x
              split
              · rw [herr]; rfl
              · exact ih _ _
      | ok v => dsimp only; rw [herr]; rfl
      | err e => dsimp only; rw [herr]; rfl

end Mdsort.Proofs.Own
