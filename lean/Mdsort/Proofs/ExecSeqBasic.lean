import Mdsort.Spec.ExecSeq
import Mdsort.Proofs.WorldWrite

/-!
A weakest-precondition calculus for `Prog` against ARBITRARY POSSIBLE results (`Spec.Possible`), and
the frame facts about one file and the handles that exist, for `C13_exec_stdin_sees_current`.
The step lemmas of `WorldStep` (`core_obj`, `core_file`, `core_len`, ...) hold for every result and
are reused as they are.
-/

namespace Mdsort.Proofs.ExecSeq
open Mdsort Mdsort.Model Mdsort.Spec Mdsort.Proofs.World

/-! ## the calculus -/

/-- For every choice of possible results: the final value and world satisfy `Q`. -/
def wpo {α} : Prog α → (α → World → Prop) → World → Prop
  | .ret a, Q, w => Q a w
  | .call c k, Q, w => ∀ r, Possible w c r → wpo (k r) Q (stepWorld w c r)

theorem wpo_sound {α} (orc : Nat → Call → Res) {p : Prog α} {Q : α → World → Prop} {w : World} (h : wpo p Q w) (i : Nat)
    (hp : PossibleRun orc p w i) : Q (runW orc p w i).1 (runW orc p w i).2 := by
  induction p generalizing w i with
  | ret a => exact h
  | call c k ih => exact ih _ (h _ hp.1) (i + 1) hp.2

theorem wpo_bind {α β} {p : Prog α} {f : α → Prog β} {Q : β → World → Prop} {w : World}
    (h : wpo p (fun a w' => wpo (f a) Q w') w) : wpo (p.bind f) Q w := by
  induction p generalizing w with
  | ret a => exact h
  | call c k ih => intro r hr; exact ih _ (h r hr)

theorem wpo_mono {α} {p : Prog α} {Q Q' : α → World → Prop} {w : World}
    (h : wpo p Q w) (hq : ∀ a w', Q a w' → Q' a w') : wpo p Q' w := by
  induction p generalizing w with
  | ret a => exact hq _ _ h
  | call c k ih => intro r hr; exact ih _ (h r hr)

theorem wpo_bind_mono {α β} {p : Prog α} {f : α → Prog β} {Q : β → World → Prop} {R : α → World → Prop} {w : World}
    (h : wpo p R w) (hf : ∀ a w', R a w' → wpo (f a) Q w') : wpo (p.bind f) Q w :=
  wpo_bind (wpo_mono h hf)

theorem wpo_call {α} {c : Call} {k : Res → Prog α} {Q : α → World → Prop} {w : World}
    (h : ∀ r, Possible w c r → wpo (k r) Q (stepWorld w c r)) : wpo (.call c k) Q w := h

/-- A postcondition about the value alone that holds on every leaf. -/
theorem wpo_of_all {α} {P : α → Prop} {p : Prog α} {Q : α → World → Prop} {w : World}
    (ha : All P p) (hq : ∀ a w', P a → Q a w') : wpo p Q w := by
  induction p generalizing w with
  | ret a => exact hq _ _ ha
  | call c k ih => intro r _; exact ih _ (ha r)

/-- Postconditions combine. -/
theorem wpo_and {α} {p : Prog α} {Q1 Q2 : α → World → Prop} {w : World}
    (h1 : wpo p Q1 w) (h2 : wpo p Q2 w) : wpo p (fun a w' => Q1 a w' ∧ Q2 a w') w := by
  induction p generalizing w with
  | ret a => exact ⟨h1, h2⟩
  | call c k ih => intro r hr; exact ih _ (h1 r hr) (h2 r hr)

/-- A leaf property (`All`) can be added to any postcondition. -/
theorem wpo_with_all {α} {P : α → Prop} {p : Prog α} {Q : α → World → Prop} {w : World}
    (h : wpo p Q w) (ha : All P p) : wpo p (fun a w' => Q a w' ∧ P a) w :=
  wpo_and h (wpo_of_all ha fun _ _ h => h)

/-! ## possible results -/

/-- Calls whose result is `.ok` or `.err` (everything except `readdir`, `mkdtemp` and the three
calls that release a handle whatever they return). -/
def Call.plain : Call → Bool
  | .readdir _ | .mkdtemp _ | .closedir _ | .close _ | .fclose _ => false
  | _ => true

theorem possible_plain {w : World} {c : Call} {r : Res} (hp : Possible w c r) (hc : Call.plain c = true) :
    (∃ v, r = .ok v) ∨ ∃ e, r = .err e := by
  cases r with
  | ok v => exact .inl ⟨v, rfl⟩
  | err e => exact .inr ⟨e, rfl⟩
  | name n =>
    exfalso
    have h := hp.1
    cases c <;> simp [applyOk, Call.plain] at h hc
  | eof =>
    exfalso
    have h := hp.1
    cases c <;> simp [applyOk, Call.plain] at h hc

/-- A call that creates a descriptor: it fails, or returns the next handle. -/
theorem possible_handle {w : World} {c : Call} {r : Res} (hp : Possible w c r) (hc : createsHandle c = true)
    (hpl : Call.plain c = true) : r = .ok w.handles.length ∨ ∃ e, r = .err e := by
  rcases possible_plain hp hpl with ⟨v, rfl⟩ | h
  · exact .inl (by rw [hp.2 hc])
  · exact .inr h

theorem possible_write {w : World} {fd : Handle} {data : Bytes} {r : Res} (hp : Possible w (.write fd data) r) :
    (∃ n, r = .ok n ∧ 0 < n ∧ n ≤ data.length) ∨ ∃ e, r = .err e := by
  rcases possible_plain hp rfl with ⟨v, rfl⟩ | h
  · left
    refine ⟨v, rfl, ?_⟩
    have h := hp.1
    simp only [applyOk] at h
    split at h
    · simp at h
    · rename_i hn
      simp only [Bool.or_eq_true, beq_iff_eq, decide_eq_true_eq, not_or, Nat.not_lt] at hn
      omega
  · exact .inr h

theorem possible_fprintf {w : World} {fd : Handle} {data : Bytes} {r : Res} (hp : Possible w (.fprintf fd data) r) :
    r = .ok data.length ∨ ∃ e, r = .err e := by
  rcases possible_plain hp rfl with ⟨v, rfl⟩ | h
  · left
    have h := hp.1
    simp only [applyOk] at h
    split at h
    · simp at h
    · rename_i hn
      simp only [bne_iff_ne, ne_eq, Classical.not_not] at hn
      rw [hn]
  · exact .inr h

/-! ## one file, and the handles that exist -/

/-- File `fid` exists, is not a file id still to be handed out, and holds `c`. -/
structure FileAt (w : World) (fid : Nat) (c : Bytes) : Prop where
  lt : fid < w.nextFid
  file : ∃ f, w.file fid = some f ∧ f.data = c

theorem FileAt.step {w : World} {fid : Nat} {c : Bytes} (h : FileAt w fid c) (cl : Call) (r : Res)
    (hf : fileSafe w fid cl) : FileAt (stepWorld w cl r) fid c := by
  refine ⟨?_, ?_⟩
  · simpa using Nat.lt_of_lt_of_le h.lt (core_nextFid w cl r)
  · simpa [core_file w cl r fid h.lt hf] using h.file

/-- Frame of a script relative to the world `w0` at its start: the protected file, the handles that
existed, and the two counters. -/
structure Frm (fid0 : Nat) (c0 : Bytes) (w0 w : World) : Prop where
  file : FileAt w fid0 c0
  objs : ∀ h, h < w0.handles.length → w.obj h = w0.obj h
  len : w0.handles.length ≤ w.handles.length
  nextFid : w0.nextFid ≤ w.nextFid

theorem Frm.refl {fid0 c0} {w : World} (hf : FileAt w fid0 c0) : Frm fid0 c0 w w :=
  ⟨hf, fun _ _ => rfl, Nat.le_refl _, Nat.le_refl _⟩

/-- A call whose subject (if any) is a handle created after `w0`, and that does not write to the
protected file. -/
theorem Frm.step {fid0 c0} {w0 w : World} (fr : Frm fid0 c0 w0 w) (c : Call) (r : Res)
    (hsub : ∀ h, Call.subject c = some h → w0.handles.length ≤ h) (hfs : fileSafe w fid0 c) :
    Frm fid0 c0 w0 (stepWorld w c r) := by
  refine ⟨fr.file.step c r hfs, ?_, ?_, ?_⟩
  · intro h hh
    rw [stepWorld_obj, core_obj w c r h (Nat.lt_of_lt_of_le hh fr.len), fr.objs h hh]
    intro hs
    have := hsub h hs
    omega
  · simpa using Nat.le_trans fr.len (core_len w c r)
  · simpa using Nat.le_trans fr.nextFid (core_nextFid w c r)

/-- The same for a call whose subject is an EXISTING handle `d`: every other handle is untouched. -/
theorem Frm.step_on {fid0 c0} {w0 w : World} (fr : Frm fid0 c0 w0 w) (c : Call) (r : Res) (hfs : fileSafe w fid0 c) :
    FileAt (stepWorld w c r) fid0 c0 ∧ w.handles.length ≤ (stepWorld w c r).handles.length ∧
      w.nextFid ≤ (stepWorld w c r).nextFid ∧
      ∀ h, h < w.handles.length → Call.subject c ≠ some h → (stepWorld w c r).obj h = w.obj h := by
  refine ⟨fr.file.step c r hfs, by simpa using core_len w c r, by simpa using core_nextFid w c r, ?_⟩
  intro h hh hs
  rw [stepWorld_obj, core_obj w c r h hh hs]

theorem Frm.trans {fid0 c0} {w0 w1 w2 : World} (a : Frm fid0 c0 w0 w1) (b : Frm fid0 c0 w1 w2) : Frm fid0 c0 w0 w2 :=
  ⟨b.file, fun h hh => (b.objs h (Nat.lt_of_lt_of_le hh a.len)).trans (a.objs h hh),
   Nat.le_trans a.len b.len, Nat.le_trans a.nextFid b.nextFid⟩

@[simp] theorem stepWorld_trace' (w : World) (c : Call) (r : Res) : (stepWorld w c r).trace = w.trace ++ [(c, r)] :=
  stepWorld_trace w c r

end Mdsort.Proofs.ExecSeq
