import Mdsort.Proofs.LimitsEval
import Mdsort.Proofs.LimitsBridgeWorld

/-!
# Lock-step simulation of two programs up to an overflow

`Sim S p q`: `p` (the run under the smaller limits) and `q` (the run under the larger ones, or under ideal strings)
issue the same calls with the same arguments, receive the same results and end with the same value - until `p`
reaches a point where `S p` holds.  For the functions below `main`, `S` is `RelErr E`: what is left of `p` only gives
back descriptors (`close`, `closedir`, `fclose`) and every value it can end with is an error value (`E`).
-/

namespace Mdsort.Model

/-- Calls that only give back a descriptor or a directory stream. -/
def Call.isRelease : Call → Bool
  | .close _ | .closedir _ | .fclose _ => true
  | _ => false

end Mdsort.Model

namespace Mdsort.Proofs.Limits
open Mdsort Mdsort.Model Mdsort.Proofs.World

def Rel (c : Call) : Prop := c.isRelease = true

/-- What is left only releases descriptors, and ends with an error value. -/
def RelErr {α} (E : α → Prop) (p : Prog α) : Prop := Calls Rel p ∧ All E p

inductive Sim {α} (S : Prog α → Prop) : Prog α → Prog α → Prop
  | ret (a : α) : Sim S (.ret a) (.ret a)
  | call (c : Call) (k k' : Res → Prog α) : (∀ r, Sim S (k r) (k' r)) → Sim S (.call c k) (.call c k')
  | stop (p q : Prog α) : S p → Sim S p q

theorem Sim.refl {α} {S : Prog α → Prop} (p : Prog α) : Sim S p p := by
  induction p with
  | ret a => exact .ret a
  | call c k ih => exact .call c k k ih

theorem Sim.of_eq {α} {S : Prog α → Prop} {p q : Prog α} (h : p = q) : Sim S p q := h ▸ Sim.refl p

theorem Sim.mono {α} {S S' : Prog α → Prop} (hS : ∀ p, S p → S' p) {p q : Prog α} (h : Sim S p q) : Sim S' p q := by
  induction h with
  | ret a => exact .ret a
  | call c k k' _ ih => exact .call c k k' ih
  | stop p q hs => exact .stop p q (hS p hs)

theorem Sim.bind {α β} {S : Prog α → Prop} {S' : Prog β → Prop} {p q : Prog α} {f g : α → Prog β} (h : Sim S p q)
    (hf : ∀ a, Sim S' (f a) (g a)) (hS : ∀ p', S p' → S' (p'.bind f)) : Sim S' (p.bind f) (q.bind g) := by
  induction h with
  | ret a => exact hf a
  | call c k k' _ ih => exact .call c _ _ ih
  | stop p q hs => exact .stop _ _ (hS p hs)

/-- The same limit-independent program first, then continuations that simulate each other. -/
theorem Sim.bind_same {α β} {S' : Prog β → Prop} (p : Prog α) {f g : α → Prog β} (hf : ∀ a, Sim S' (f a) (g a)) :
    Sim S' (p.bind f) (p.bind g) := by
  induction p with
  | ret a => exact hf a
  | call c k ih => exact .call c _ _ ih

theorem _root_.Mdsort.Proofs.World.Calls.bind_all {α β} {Q : Call → Prop} {p : Prog α} {f : α → Prog β} (hp : Calls Q p)
    (hf : All (fun a => Calls Q (f a)) p) : Calls Q (p.bind f) := by
  induction p with
  | ret a => exact hf
  | call c k ih => exact ⟨hp.1, fun r => ih r (hp.2 r) (hf r)⟩

theorem _root_.Mdsort.Proofs.World.All.mono {α} {P Q : α → Prop} {p : Prog α} (h : All P p) (hpq : ∀ a, P a → Q a) : All Q p := by
  induction p with
  | ret a => exact hpq a h
  | call c k ih => exact fun r => ih r (h r)

theorem RelErr.bind {α β} {E : α → Prop} {E' : β → Prop} {p : Prog α} {f : α → Prog β} (hp : RelErr E p)
    (hf : ∀ a, E a → RelErr E' (f a)) : RelErr E' (p.bind f) :=
  ⟨Calls.bind_all hp.1 (hp.2.mono fun a ha => (hf a ha).1), All.bind (hp.2.mono fun a ha => (hf a ha).2)⟩

theorem RelErr.ret {α} {E : α → Prop} {a : α} (h : E a) : RelErr E (Prog.ret a) := ⟨trivial, h⟩

theorem RelErr.call {α} {E : α → Prop} {c : Call} {k : Res → Prog α} (hc : c.isRelease = true) (hk : ∀ r, RelErr E (k r)) :
    RelErr E (Prog.call c k) := ⟨⟨hc, fun r => (hk r).1⟩, fun r => (hk r).2⟩

/-- A component that simulates up to an error value, followed by continuations that simulate each other; the
continuation of an error value only releases and ends in error. -/
theorem Sim.bindE {α β} {E : α → Prop} {E' : β → Prop} {p q : Prog α} {f g : α → Prog β} (h : Sim (RelErr E) p q)
    (hf : ∀ a, Sim (RelErr E') (f a) (g a)) (he : ∀ a, E a → RelErr E' (f a)) : Sim (RelErr E') (p.bind f) (q.bind g) :=
  h.bind hf fun _ hp => hp.bind he

/-- The stop case for a value. -/
theorem Sim.stop_ret {α} {E : α → Prop} {a : α} (q : Prog α) (h : E a) : Sim (RelErr E) (.ret a) q := .stop _ _ (RelErr.ret h)

end Mdsort.Proofs.Limits
