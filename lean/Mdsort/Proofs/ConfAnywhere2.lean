import Mdsort.Proofs.ConfAnywhere1
import Mdsort.Proofs.ConfErrors
import Mdsort.Proofs.MainTextLex

/-!
# A defect behind a written prefix, part 2: the local failures

* a string with a macro reference that cannot be expanded (`Spec.BadRef`), in every action and every condition
  that takes strings (`Spec.ActSite`, `Spec.CondSite`): the action loop / the operand parser fails;
* a `date` condition whose unit is a word that is no unit (`Spec.badUnitWord`): the operand parser fails.
-/

namespace Mdsort.Proofs.Conf
open Mdsort Mdsort.Model Mdsort.Spec

variable {tl : Bytes}

/-! ## Strings that cannot be expanded -/

theorem expandMacros_badRef (action : Bool) (b : Bytes) (hb : BadRef action b) :
    expandMacros action (b.length + 1) b [] [] = none := by
  obtain ⟨_, pre, name, post, rfl, hpre, hname, hpath⟩ := hb
  have hbad : (isPathMacro name = true ∧ action = false) ∨
      (isPathMacro name = false ∧ ∀ m ∈ ([] : List Macro), m.name ≠ name) := by
    cases hpm : isPathMacro name with
    | true => exact Or.inl ⟨rfl, hpath hpm⟩
    | false => exact Or.inr ⟨rfl, by simp⟩
  unfold macroRef
  exact expandMacros_bad_ref action [] name post hname hbad pre [] _ hpre
    (by simp only [List.length_append, List.length_cons]; omega)

theorem expandStr_badRef (lm : Lim) (home : Bytes) (action : Bool) (b : Bytes) (hb : BadRef action b) :
    expandStr lm home action [] b = none := by
  have htilde := (strLexOK_facts hb.1).2.2.2.1
  have ht : expandTildeL lm home b = some b := by
    unfold expandTildeL
    split
    · simp at htilde
    · rfl
  simp only [expandStr, ht]
  exact expandMacros_badRef action b hb

theorem expandStrs_badRef (lm : Lim) (home : Bytes) (action : Bool) (b : Bytes) (hb : BadRef action b) (l2 : List Bytes) :
    ∀ (l1 : List Bytes), (∀ x ∈ l1, strOK x = true) → expandStrs lm home action [] (l1 ++ b :: l2) = none := by
  intro l1
  induction l1 with
  | nil => intro _; simp only [List.nil_append, expandStrs, expandStr_badRef lm home action b hb]
  | cons x l1 ih =>
    intro h
    simp only [List.cons_append, expandStrs, expandStr_plain lm home action x (h x (by simp)),
      ih (fun y hy => h y (by simp [hy]))]

theorem wpl_expandOne_bad (cx : PCtx) (action : Bool) (b : Bytes) (hb : BadRef action b) {Q : Bytes → ParseSt → Prop}
    {s : ParseSt} {ts : List PTok} (h : Up cx tl s ts) : wpl (expandOne cx action b) Q L1 True s := by
  unfold wpl expandOne
  rw [h.mac, expandStr_badRef cx.pathMax cx.home action b hb]
  exact h.tokl

theorem wpl_expandMac_bad (cx : PCtx) (action : Bool) (b : Bytes) (hb : BadRef action b) {Q : Bytes → ParseSt → Prop}
    {s : ParseSt} {ts : List PTok} (h : Up cx tl s ts) : wpl (expandMac action b) Q L1 True s := by
  unfold wpl expandMac
  rw [h.mac, expandMacros_badRef action b hb]
  exact h.tokl

theorem wpl_expandAll_bad (cx : PCtx) (action : Bool) (b : Bytes) (hb : BadRef action b) (l1 l2 : List Bytes)
    (h1 : ∀ x ∈ l1, strOK x = true) {Q : List Bytes → ParseSt → Prop}
    {s : ParseSt} {ts : List PTok} (h : Up cx tl s ts) : wpl (expandAll cx action (l1 ++ b :: l2)) Q L1 True s := by
  unfold wpl expandAll
  rw [h.mac, expandStrs_badRef cx.pathMax cx.home action b hb l2 l1 h1]
  exact h.tokl

/-- A failing `checkPattern` reports on line 1 as well. -/
theorem wpl_checkPattern (cx : PCtx) (p : Pat) {Q : Unit → ParseSt → Prop} {s : ParseSt} {ts : List PTok}
    (h : Up cx tl s ts) (hQ : Q () s) : wpl (checkPattern cx p) Q L1 True s := by
  unfold checkPattern
  split
  · exact hQ
  · exact h.tokl

/-! ## Actions -/

/-- The options of `exec`, as written. -/
theorem execFlags_written (cx : PCtx) {NoErr : Nat → ParseSt → Prop} (si bo : Bool) (l : List Bytes) (ts : List PTok) (fuel : Nat)
    (s : ParseSt)
    (hs : Up cx tl s ((if si then [PTok.kw .stdin] else []) ++ ((if bo then [PTok.kw .body] else []) ++ (strsToks l ++ ts)))) :
    wpl (parseExecFlags cx fuel false false) (fun fl s' => fl = (si, bo) ∧ Up cx tl s' (strsToks l ++ ts)) NoErr True s := by
  have hstop : ∀ (f : Nat) (a b : Bool) (s' : ParseSt), Up cx tl s' (strsToks l ++ ts) →
      wpl (parseExecFlags cx f a b) (fun fl s'' => fl = (a, b) ∧ Up cx tl s'' (strsToks l ++ ts)) NoErr True s' := by
    intro f a b s' h'
    cases f with
    | zero => simp [parseExecFlags, wpl, outOfFuel]
    | succ f =>
      unfold parseExecFlags
      simp only [wpl_bind]
      have h'' : Up cx tl s' (.lbrace :: (l.map PTok.str ++ [.rbrace] ++ ts)) := by
        simpa [strsToks, List.append_assoc] using h'
      apply wpl_peek_up cx _ _ h'' rfl
      intro s1' h1'
      simp only [tkOf, wpl_pure]
      refine ⟨by first | trivial | rfl, ?_⟩
      have := h1'.up_some (h''.ok _ (by simp))
      simpa [strsToks, List.append_assoc] using this
  have hstep : ∀ (f : Nat) (k : Kw) (a b a' b' : Bool) (s' : ParseSt) (rest : List PTok), (k = .stdin ∧ a = false ∧ a' = true ∧ b' = b) ∨
      (k = .body ∧ b = false ∧ b' = true ∧ a' = a) → Up cx tl s' (.kw k :: rest) →
      ∀ (P : Bool × Bool → ParseSt → Prop),
      (∀ s'', Up cx tl s'' rest → wpl (parseExecFlags cx f a' b') P NoErr True s'') →
      wpl (parseExecFlags cx (f + 1) a b) P NoErr True s' := by
    intro f k a b a' b' s' rest hk h' P hP
    unfold parseExecFlags
    simp only [wpl_bind]
    have hm : modeOK false false (.kw k) = true := rfl
    apply wpl_peek_up cx _ _ h' hm
    intro s1 h1
    rcases hk with ⟨rfl, rfl, rfl, rfl⟩ | ⟨rfl, rfl, rfl, rfl⟩
    · simp only [tkOf, wpl_bind]
      apply wpl_shift_up h1
      intro s2 h2
      simp only [wpl_ite, Bool.false_eq_true, if_false]
      exact hP s2 h2
    · simp only [tkOf, wpl_bind]
      apply wpl_shift_up h1
      intro s2 h2
      simp only [wpl_ite, Bool.false_eq_true, if_false]
      exact hP s2 h2
  cases si <;> cases bo <;>
    simp only [if_true, if_false, Bool.false_eq_true, List.nil_append, List.cons_append] at hs
  · exact hstop _ _ _ s hs
  · cases fuel with
    | zero => simp [parseExecFlags, wpl, outOfFuel]
    | succ fuel => exact hstep fuel .body false false false true s _ (Or.inr ⟨rfl, rfl, rfl, rfl⟩) hs _ (fun s2 h2 => hstop _ _ _ s2 h2)
  · cases fuel with
    | zero => simp [parseExecFlags, wpl, outOfFuel]
    | succ fuel => exact hstep fuel .stdin false false true false s _ (Or.inl ⟨rfl, rfl, rfl, rfl⟩) hs _ (fun s2 h2 => hstop _ _ _ s2 h2)
  · cases fuel with
    | zero => simp [parseExecFlags, wpl, outOfFuel]
    | succ fuel =>
      refine hstep fuel .stdin false false true false s _ (Or.inl ⟨rfl, rfl, rfl, rfl⟩) hs _ ?_
      intro s2 h2
      cases fuel with
      | zero => simp [parseExecFlags, wpl, outOfFuel]
      | succ fuel => exact hstep fuel .body true false true true s2 _ (Or.inr ⟨rfl, rfl, rfl, rfl⟩) h2 _ (fun s3 h3 => hstop _ _ _ s3 h3)

/-- An action with a string that cannot be expanded makes the action loop fail, whatever follows. -/
theorem badActs_site (cx : PCtx) (site : ActSite) (hsite : site.ok = true) (b : Bytes) (hb : BadRef site.action b)
    (ts : List PTok) : BadActs cx tl (site.toks b ++ ts) := by
  intro fuel acc s hs
  have hnl := hs.nl_eq
  cases fuel with
  | zero => simp [Rej, parseActions, wpl, outOfFuel]
  | succ fuel =>
    unfold Rej parseActions
    simp only [wpl_bind]
    cases site with
    | move =>
      simp only [ActSite.toks, List.cons_append, List.nil_append] at hs
      apply wpl_peek_up cx _ _ hs rfl
      intro s1 h1
      simp only [tkOf, parseActionWith, wpl_bind]
      apply wpl_shift_up h1
      intro s2 h2
      refine wpl_of_rt (parseStr_rt cx b) h2 ?_
      intro s3 h3
      apply wpl_curLine_up cx hnl h3
      exact wpl_expandOne_bad cx true b hb h3
    | flags =>
      simp only [ActSite.toks, List.cons_append, List.nil_append] at hs
      apply wpl_peek_up cx _ _ hs rfl
      intro s1 h1
      simp only [tkOf, parseActionWith, wpl_bind]
      apply wpl_shift_up h1
      intro s2 h2
      refine wpl_of_rt (parseStr_rt cx b) h2 ?_
      intro s3 h3
      apply wpl_curLine_up cx hnl h3
      exact wpl_expandMac_bad cx false b hb h3
    | label l1 l2 =>
      simp only [ActSite.ok, Bool.and_eq_true, List.all_eq_true] at hsite
      simp only [ActSite.toks, List.cons_append] at hs
      apply wpl_peek_up cx _ _ hs rfl
      intro s1 h1
      simp only [tkOf, parseActionWith, wpl_bind]
      apply wpl_shift_up h1
      intro s2 h2
      refine wpl_of_rt (parseStrings_rt cx (l1 ++ b :: l2) fuel) h2 ?_
      intro s3 h3
      apply wpl_curLine_up cx hnl h3
      exact wpl_expandAll_bad cx true b hb l1 l2 hsite.1 h3
    | exec si bo l1 l2 =>
      simp only [ActSite.ok, Bool.and_eq_true, List.all_eq_true] at hsite
      simp only [ActSite.toks, List.cons_append, List.append_assoc] at hs
      apply wpl_peek_up cx _ _ hs rfl
      intro s1 h1
      simp only [tkOf, parseActionWith, wpl_bind]
      apply wpl_shift_up h1
      intro s2 h2
      refine wpl_mono (execFlags_written cx si bo (l1 ++ b :: l2) ts fuel s2 h2) ?_ (fun _ _ h => h)
      rintro _ s3 ⟨rfl, h3⟩
      refine wpl_of_rt (parseStrings_rt cx (l1 ++ b :: l2) fuel) h3 ?_
      intro s4 h4
      apply wpl_curLine_up cx hnl h4
      exact wpl_expandAll_bad cx true b hb l1 l2 hsite.1 h4
    | addHeaderKey v =>
      simp only [ActSite.toks, List.cons_append, List.nil_append] at hs
      apply wpl_peek_up cx _ _ hs rfl
      intro s1 h1
      simp only [tkOf, parseActionWith, wpl_bind]
      apply wpl_shift_up h1
      intro s2 h2
      refine wpl_of_rt (parseStr_rt cx b) h2 ?_
      intro s3 h3
      refine wpl_of_rt (parseStr_rt cx v) h3 ?_
      intro s4 h4
      apply wpl_curLine_up cx hnl h4
      exact wpl_expandMac_bad cx false b hb h4
    | addHeaderValue k =>
      simp only [ActSite.toks, List.cons_append, List.nil_append] at hs
      apply wpl_peek_up cx _ _ hs rfl
      intro s1 h1
      simp only [tkOf, parseActionWith, wpl_bind]
      apply wpl_shift_up h1
      intro s2 h2
      refine wpl_of_rt (parseStr_rt cx k) h2 ?_
      intro s3 h3
      refine wpl_of_rt (parseStr_rt cx b) h3 ?_
      intro s4 h4
      apply wpl_curLine_up cx hnl h4
      have hk : strOK k = true := hsite
      apply wpl_expandMac_up false k hk h4
      exact wpl_expandMac_bad cx true b hb h4

/-! ## Conditions -/

/-- A condition with a string that cannot be expanded makes the operand parser fail, whatever follows. -/
theorem badUnary_site (cx : PCtx) (site : CondSite) (hsite : site.ok = true) (b : Bytes) (hb : BadRef false b)
    (ts : List PTok) : BadUnary cx tl (site.toks b ++ ts) := by
  intro fuel s hs
  have hnl := hs.nl_eq
  cases fuel with
  | zero => simp [Rej, parseUnary, wpl, outOfFuel]
  | succ fuel =>
    unfold Rej parseUnary
    simp only [wpl_bind]
    cases site with
    | header l1 l2 p =>
      simp only [CondSite.ok, Bool.and_eq_true, List.all_eq_true] at hsite
      simp only [CondSite.toks, List.cons_append, List.append_assoc, List.nil_append] at hs
      apply wpl_peek_up cx _ _ hs rfl
      intro s1 h1
      simp only [tkOf, parseCondKw, wpl_bind]
      apply wpl_shift_up h1
      intro s2 h2
      refine wpl_of_rt (parseStrings_rt cx (l1 ++ b :: l2) fuel) h2 ?_
      intro s3 h3
      refine wpl_of_rt (parsePattern_rt cx p) h3 ?_
      intro s4 h4
      apply wpl_curLine_up cx hnl h4
      apply wpl_checkPattern cx p h4
      exact wpl_expandAll_bad cx false b hb l1 l2 hsite.1.1 h4
    | isdirectory =>
      simp only [CondSite.toks, List.cons_append, List.nil_append] at hs
      apply wpl_peek_up cx _ _ hs rfl
      intro s1 h1
      simp only [tkOf, parseCondKw, wpl_bind]
      apply wpl_shift_up h1
      intro s2 h2
      refine wpl_of_rt (parseStr_rt cx b) h2 ?_
      intro s3 h3
      apply wpl_curLine_up cx hnl h3
      exact wpl_expandOne_bad cx false b hb h3
    | command l1 l2 =>
      simp only [CondSite.ok, Bool.and_eq_true, List.all_eq_true] at hsite
      simp only [CondSite.toks, List.cons_append] at hs
      apply wpl_peek_up cx _ _ hs rfl
      intro s1 h1
      simp only [tkOf, parseCondKw, wpl_bind]
      apply wpl_shift_up h1
      intro s2 h2
      refine wpl_of_rt (parseStrings_rt cx (l1 ++ b :: l2) fuel) h2 ?_
      intro s3 h3
      apply wpl_curLine_up cx hnl h3
      exact wpl_expandAll_bad cx false b hb l1 l2 hsite.1 h3

end Mdsort.Proofs.Conf
