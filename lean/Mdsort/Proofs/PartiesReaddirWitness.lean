import Mdsort.Proofs.PartiesReaddir
import Mdsort.Proofs.PartiesCopyWitness

/-! Witnesses for the readdir-level isolation: (1) the unrestricted implication `HisoReaddir => Hiso`
is false (parties that are handed a name and never list); (2) non-vacuity of the restricted one: a
`label` party and a LISTING `move` party on the same maildir, interleaved call by call. -/

namespace Mdsort.Proofs.Parties.W
set_option linter.unusedSimpArgs false
open Mdsort Mdsort.Model

/-! ## (1) no `readdir`, yet not isolated: the F14 schedule of three single-message parties -/

set_option maxRecDepth 1000000 in
theorem run_readdir_iso' : HisoReaddir s0' sched = true := by decide +kernel

theorem run_readdir_iso : HisoReaddir s0 sched = true := by rw [s0_eq]; exact run_readdir_iso'

/-! ## (2) A = `label` on `a` (handed the name), B = list `/m/new` and `move "/d"` every name -/

/-- Name spaces by prefix `now.pid_`. -/
def pfx (i : Nat) : Bytes := decimalInt 7 ++ [46] ++ decimal (i + 1) ++ [95]

def NB (i : Nat) (n : Bytes) : Bool :=
  match i with
  | 0 => (pfx 0).isPrefixOf n
  | 1 => (pfx 1).isPrefixOf n
  | _ => false

def NS (i : Nat) (n : Bytes) : Prop := NB i n = true

theorem genName_pfx (i : Nat) (flags : Option Bytes) (count : Nat) :
    genName (env (i + 1)) flags count = pfx i ++ (decimal count ++ [46] ++ [104] ++ flags.getD []) := by
  simp [genName, env, pfx, List.append_assoc]

theorem ns_gen0 : GenNames (NS 0) (env 1) := by
  intro flags count
  show (pfx 0).isPrefixOf _ = true
  rw [genName_pfx 0, List.isPrefixOf_iff_prefix]
  exact List.prefix_append _ _

theorem ns_gen1 : GenNames (NS 1) (env 2) := by
  intro flags count
  show (pfx 1).isPrefixOf _ = true
  rw [genName_pfx 1, List.isPrefixOf_iff_prefix]
  exact List.prefix_append _ _

theorem pfx_ne : pfx 0 ≠ pfx 1 := by decide +kernel
theorem pfx_len : (pfx 0).length = (pfx 1).length := by decide +kernel

theorem ns_disj (i j : Nat) (n : Bytes) (hij : i ≠ j) (hi : NS i n) : ¬ NS j n := by
  intro hj
  have key : ∀ n, (pfx 0).isPrefixOf n = true → (pfx 1).isPrefixOf n = true → False := by
    intro n h0 h1
    rw [List.isPrefixOf_iff_prefix] at h0 h1
    have := List.prefix_of_prefix_length_le h0 h1 (Nat.le_of_eq pfx_len)
    exact pfx_ne (this.eq_of_length pfx_len)
  match i, j, hij, hi, hj with
  | 0, 0, h, _, _ => exact h rfl
  | 1, 1, h, _, _ => exact h rfl
  | 0, 1, _, h0, h1 => exact key n h0 h1
  | 1, 0, _, h1, h0 => exact key n h0 h1
  | i + 2, _, _, h, _ => simp [NS, NB] at h
  | 0, j + 2, _, _, h => simp [NS, NB] at h
  | 1, j + 2, _, _, h => simp [NS, NB] at h

/-- Boolean form of one step of `HisoReaddirNS` for two parties. -/
def nsStep (s : Shared) (a : Nat) : Bool :=
  match s.parties[a]? with
  | none => true
  | some p =>
    match p.prog with
    | .call (.readdir d) _ =>
      match predict (s.view p) (.readdir d) with
      | .name n => (a == 0 || !NB 0 n) && (a == 1 || !NB 1 n)
      | _ => true
    | _ => true

def nsSched (s : Shared) : List Nat → Bool
  | [] => true
  | a :: rest => nsStep s a && nsSched (stepParty s a) rest

theorem ns_of_step (s : Shared) (a : Nat) (h : nsStep s a = true) :
    ∀ (ps : PState) (d : Handle) (k : Res → Prog Bool) (n : Bytes), s.parties[a]? = some ps → ps.prog = .call (.readdir d) k →
      predict (s.view ps) (.readdir d) = .name n → ∀ j, j ≠ a → ¬ NS j n := by
  intro ps d k n hp hc hr j hj
  simp only [nsStep, hp, hc, hr, Bool.and_eq_true, Bool.or_eq_true, beq_iff_eq, Bool.not_eq_true'] at h
  intro hN
  match j, hN with
  | 0, hN =>
    rcases h.1 with h1 | h1
    · exact hj h1.symm
    · rw [show NB 0 n = true from hN] at h1; cases h1
  | 1, hN =>
    rcases h.2 with h1 | h1
    · exact hj h1.symm
    · rw [show NB 1 n = true from hN] at h1; cases h1
  | j + 2, hN => simp [NS, NB] at hN

theorem ns_of_sched (sched : List Nat) : ∀ s, nsSched s sched = true → HisoReaddirNS NS s sched := by
  induction sched with
  | nil => intro _ _; exact True.intro
  | cons a rest ih =>
    intro s h
    simp only [nsSched, Bool.and_eq_true] at h
    exact ⟨ns_of_step s a h.1, ih _ h.2⟩

/-- A labels `a`; B lists `/m/new` and moves every name to `/d`. -/
def r0 : Shared := Shared.init fs [(partyA, dirH), (partyB, dirH)]
def r0' : Shared := Shared.init fs [(partyA', dirH), (partyB, dirH)]

theorem r0_eq : r0 = r0' := by unfold r0 r0'; rw [partyA_eq]

/-- B takes its listing first (it shows `a` only), then the two alternate call by call; B's `renameat` comes
before A's `unlinkat`, B wins. -/
def schedR : List Nat := 1 :: (List.replicate 4 [1, 0] ++ List.replicate 12 [0, 1]).flatten

theorem sorted_a : sortedNames [(ofString "a", 0)] = [[46], [46, 46], ofString "a"] := by
  have h1 : ([46] : Bytes) ≤ [46, 46] := by decide
  have h3 : ([46] : Bytes) ≤ ofString "a" := by decide +kernel
  have h4 : ([46, 46] : Bytes) ≤ ofString "a" := by decide +kernel
  simp [sortedNames, List.mergeSort, h1, h3, h4]

/-- The initial state with B's listing stored in its stream. -/
def rMid : Shared := setSnap r0' 1 0 (ofString "/m/new") [[46], [46, 46], ofString "a"]

theorem r_first : stepParty r0' 1 = stepParty rMid 1 := by
  unfold rMid
  rw [readdir_snapshot r0' 1 0 (ofString "/m/new") [(ofString "a", 0)] (by decide +kernel) (by decide +kernel) (by decide +kernel),
    sorted_a]

def restR : List Nat := (List.replicate 4 [1, 0] ++ List.replicate 12 [0, 1]).flatten

set_option maxRecDepth 1000000 in
theorem r_rest' : nsSched (stepParty rMid 1) restR = true ∧ HisoOwn (stepParty rMid 1) restR = true ∧
    Hiso (stepParty rMid 1) restR = true ∧
    (runSched (stepParty rMid 1) restR).quiescent = true ∧
    (runSched (stepParty rMid 1) restR).parties.map (·.result) = [some true, some false] ∧
    (runSched (stepParty rMid 1) restR).fs.entries = [(ofString "/d/new", ofString "7.2_1.h:2,", 0)] := by decide +kernel

set_option maxRecDepth 1000000 in
theorem r_first_ok : nsStep rMid 1 = true ∧ ownStep rMid 1 = true := by decide +kernel

theorem schedR_eq : schedR = 1 :: restR := rfl

set_option maxRecDepth 1000000 in
theorem r_first_res : (stepParty rMid 1).log.map (·.res) = [.name [46]] := by decide +kernel

set_option maxRecDepth 1000000 in
theorem r_first_iso : isoStep r0' 1 = true ∧ ownStep r0' 1 = true := by decide +kernel

theorem ns_dot (j : Nat) : ¬ NS j [46] := by
  intro h
  match j, h with
  | 0, h => exact absurd h (show ¬ (NB 0 [46] = true) by decide +kernel)
  | 1, h => exact absurd h (show ¬ (NB 1 [46] = true) by decide +kernel)
  | j + 2, h => simp [NS, NB] at h

theorem runSched_cons (s : Shared) (a : Nat) (rest : List Nat) : runSched s (a :: rest) = runSched (stepParty s a) rest := rfl

theorem r_first_ns : ∀ (ps : PState) (d : Handle) (k : Res → Prog Bool) (n : Bytes), r0'.parties[1]? = some ps →
    ps.prog = .call (.readdir d) k → predict (r0'.view ps) (.readdir d) = .name n → ∀ j, j ≠ 1 → ¬ NS j n := by
  intro ps d k n hp hc hr j _
  have h1 : (stepParty r0' 1).log.map (·.res) = [.name [46]] := by rw [r_first]; exact r_first_res
  rw [stepParty_call hp hc] at h1
  have hlog : r0'.log = [] := rfl
  simp only [stepCall_log, hlog, List.nil_append, List.map_cons, List.map_nil, stepEvent, List.cons.injEq, and_true] at h1
  rw [hr] at h1
  cases h1
  exact ns_dot j

theorem r_ns : HisoReaddirNS NS r0' schedR := by
  rw [schedR_eq]
  refine ⟨r_first_ns, ?_⟩
  rw [r_first]
  exact ns_of_sched restR _ r_rest'.1

theorem r_own : HisoOwn r0' schedR = true := by
  rw [schedR_eq]
  simp only [HisoOwn, Bool.and_eq_true]
  refine ⟨r_first_iso.2, ?_⟩
  rw [r_first]
  exact r_rest'.2.1

theorem r_facts' : (runSched r0' schedR).quiescent = true ∧
    (runSched r0' schedR).parties.map (·.result) = [some true, some false] ∧
    (runSched r0' schedR).fs.entries = [(ofString "/d/new", ofString "7.2_1.h:2,", 0)] := by
  rw [schedR_eq, runSched_cons, r_first]
  exact r_rest'.2.2.2

theorem r_parties (i : Nat) (ps : PState) (h : r0.parties[i]? = some ps) : ReaddirParty NS i ps := by
  match i, h with
  | 0, h =>
    cases h
    refine .inr (.inl ⟨env 1, [labelAct], stOf (ofString "a") labelled, ns_gen0, ?_, rfl⟩)
    intro j hj hN
    match j, hN with
    | 0, _ => exact hj rfl
    | 1, hN => exact absurd hN (show ¬ (NB 1 (ofString "a") = true) by decide +kernel)
    | j + 2, hN => simp [NS, NB] at hN
  | 1, h =>
    cases h
    refine .inl ⟨env 2, md, fun n => some ([moveAct], ms n msg), 8, false, ns_gen1, ?_, rfl⟩
    intro n ml ms' hr
    simp only [Option.some.injEq, Prod.mk.injEq] at hr
    rw [← hr.2]; rfl
  | i + 2, h => simp [r0, Shared.init] at h

theorem r_ns0 : HisoReaddirNS NS r0 schedR := by rw [r0_eq]; exact r_ns
theorem r_own0 : HisoOwn r0 schedR = true := by rw [r0_eq]; exact r_own
theorem r_facts : (runSched r0 schedR).quiescent = true ∧
    (runSched r0 schedR).parties.map (·.result) = [some true, some false] ∧
    (runSched r0 schedR).fs.entries = [(ofString "/d/new", ofString "7.2_1.h:2,", 0)] := by rw [r0_eq]; exact r_facts'

end Mdsort.Proofs.Parties.W
