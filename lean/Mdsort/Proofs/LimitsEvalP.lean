import Mdsort.Proofs.LimitsSim
import Mdsort.Proofs.EvalPCalls

/-!
# The evaluation as a program (`evalPL`) under two sets of limits

`AskSim t t'`: the computation under the smaller limits asks the questions of the one under the larger limits, in the
same order, and continues alike under every answer - until it ends with the verdict `error` (an overflow).  Every limit
of an asking condition is checked BEFORE its question is asked, so an overflow never leaves a question half-way.
`evalTL_mono`: `Limits.evalL_mono` for the computation that asks; `evalPL_sim`: as programs over calls, in lock step
until the evaluation under the smaller limits ends in `error`.
-/

namespace Mdsort.Proofs.Limits
open Mdsort Mdsort.Model Mdsort.Proofs.World

inductive AskSim : Ask (Tri × St) → Ask (Tri × St) → Prop
  | ret (a : Tri × St) : AskSim (.ret a) (.ret a)
  | ask (q : Req) (k k' : SysAns → Ask (Tri × St)) : (∀ a, AskSim (k a) (k' a)) → AskSim (.ask q k) (.ask q k')
  | stop (s : St) (t : Ask (Tri × St)) : AskSim (.ret (.error, s)) t

theorem AskSim.refl (t : Ask (Tri × St)) : AskSim t t := by
  induction t with
  | ret a => exact .ret a
  | ask q k ih => exact .ask q k k ih

theorem AskSim.of_eqOrErr {a b : Tri × St} (h : EqOrErr a b) : AskSim (.ret a) (.ret b) := by
  rcases h with h | h
  · rw [h]; exact .ret b
  · rcases a with ⟨t, s⟩
    simp only at h
    subst h
    exact .stop s _

theorem AskSim.bind {t t' : Ask (Tri × St)} {f g : Tri × St → Ask (Tri × St)} (h : AskSim t t')
    (hf : ∀ a, AskSim (f a) (g a)) (he : ∀ s, ∃ s', f (.error, s) = .ret (.error, s')) : AskSim (t.bind f) (t'.bind g) := by
  induction h with
  | ret a => exact hf a
  | ask q k k' _ ih => exact .ask q _ _ ih
  | stop s t =>
    obtain ⟨s', hs'⟩ := he s
    show AskSim (f (.error, s)) _
    rw [hs']
    exact .stop s' _

theorem AskSim.bind_same {α} (t : Ask α) {f g : α → Ask (Tri × St)} (hf : ∀ a, AskSim (f a) (g a)) :
    AskSim (t.bind f) (t.bind g) := by
  induction t with
  | ret a => exact hf a
  | ask q k ih => exact .ask q _ _ ih

/-- `evalL_mono` for the computation that asks. -/
theorem evalTL_mono {L L' : Limits} (hle : L ≤ L') (hs : Sane L) (env : Env) (root : Msg) (e : Expr) :
    ∀ (part : Nat) (m : Msg) (st : St), AskSim (evalTL L env root e part m st) (evalTL L' env root e part m st) := by
  induction e with
  | block lno e ih =>
    intro part m st
    simp only [evalTL]
    refine AskSim.bind (ih part m st) (fun a => AskSim.refl _) (fun s => ⟨s, rfl⟩)
  | and lno l r ihl ihr =>
    intro part m st
    simp only [evalTL]
    refine AskSim.bind (ihl part m st) ?_ (fun s => ⟨s, rfl⟩)
    rintro ⟨t, s1⟩
    cases t
    · exact ihr part m s1
    · exact AskSim.refl _
    · exact AskSim.refl _
  | or lno l r ihl ihr =>
    intro part m st
    simp only [evalTL]
    refine AskSim.bind (ihl part m st) ?_ (fun s => ⟨s, rfl⟩)
    rintro ⟨t, s1⟩
    cases t
    · exact AskSim.refl _
    · exact ihr part m s1
    · exact AskSim.refl _
  | neg lno e ih =>
    intro part m st
    simp only [evalTL]
    refine AskSim.bind (ih part m st) (fun a => AskSim.refl _) (fun s => ⟨s, rfl⟩)
  | mtch lno c rhs ihc ihr =>
    intro part m st
    simp only [evalTL]
    rcases matchesAppendL_mono hle env st.ml { ty := .mtch, lno := lno, part := part } with h | h
    · rw [h]
      split
      · exact AskSim.refl _
      · refine AskSim.bind (ihc part m _) ?_ (fun s => ⟨s, rfl⟩)
        rintro ⟨t, s1⟩
        cases t
        · exact ihr part m s1
        · exact AskSim.refl _
        · exact AskSim.refl _
    · simp only [h, if_true]
      exact AskSim.stop _ _
  | attachment lno e ih =>
    intro part m st
    have hloop : ∀ (ps : List Msg) (i : Nat) (st : St),
        AskSim (evalTL.loop L env root e part ps i st) (evalTL.loop L' env root e part ps i st) := by
      intro ps
      induction ps with
      | nil => intro i st; simp only [evalTL.loop]; exact AskSim.refl _
      | cons p rest ihp =>
        intro i st
        simp only [evalTL.loop]
        refine AskSim.bind (ih _ p st) ?_ (fun s => ⟨s, rfl⟩)
        rintro ⟨t, s1⟩
        cases t
        · exact AskSim.refl _
        · exact ihp (i + 1) s1
        · exact AskSim.refl _
    simp only [evalTL]
    cases getAttachments m with
    | none => exact AskSim.refl _
    | some parts => exact hloop parts 0 st
  | attBlock lno blk ih =>
    intro part m st
    have hloop : ∀ (ps : List Msg) (i : Nat) (ev : Tri) (st : St),
        AskSim (evalTL.loopB L env root blk part ps i ev st) (evalTL.loopB L' env root blk part ps i ev st) := by
      intro ps
      induction ps with
      | nil => intro i ev st; simp only [evalTL.loopB]; exact AskSim.refl _
      | cons p rest ihp =>
        intro i ev st
        simp only [evalTL.loopB]
        refine AskSim.bind (ih _ p st) ?_ (fun s => ⟨s, rfl⟩)
        rintro ⟨t, s1⟩
        cases t
        · exact ihp (i + 1) .match s1
        · exact ihp (i + 1) ev s1
        · exact AskSim.refl _
    simp only [evalTL]
    cases getAttachments m with
    | none => exact AskSim.refl _
    | some parts => exact hloop parts 0 .nomatch st
  | date lno field cmp age =>
    intro part m st
    cases field
    case header =>
      simp only [evalTL]
      exact AskSim.of_eqOrErr (evalL_mono hle hs env root _ part m st)
    all_goals
      simp only [evalTL]
      apply AskSim.bind_same
      intro a
      split
      · exact AskSim.refl _
      · split
        · exact AskSim.refl _
        · exact AskSim.of_eqOrErr (exprRegexecL_mono hle env _ _ _ _ _ _ _)
  | stat lno path =>
    intro part m st
    simp only [evalTL]
    rcases matchesAppendL_mono hle env st.ml { ty := .stat, lno := lno, part := part, strings := [path] } with h | h
    · rw [h]
      split
      · exact AskSim.refl _
      · rcases (strlcpyL_Exact path).mono hle.1 with h1 | h1
        · simp only [h1]
          exact AskSim.stop _ _
        · rw [h1]
          cases strlcpyL L'.pathMax path with
          | none => exact AskSim.refl _
          | some p0 =>
            simp only
            cases interpolate (matchesAppendL L' env st.ml { ty := .stat, lno := lno, part := part, strings := [path] }).1.dropLast none p0 with
            | none => exact AskSim.refl _
            | some ip =>
              simp only
              rcases (strlcpyL_Exact ip).mono hle.1 with h2 | h2
              · simp only [h2]
                exact AskSim.stop _ _
              · rw [h2]
                exact AskSim.refl _
    · simp only [h, if_true]
      exact AskSim.stop _ _
  | command lno argv =>
    intro part m st
    simp only [evalTL]
    rcases matchesAppendL_mono hle env st.ml { ty := .command, lno := lno, part := part, strings := argv } with h | h
    · rw [h]; exact AskSim.refl _
    · simp only [h, if_true]
      exact AskSim.stop _ _
  | _ =>
    intro part m st
    simp only [evalTL]
    exact AskSim.of_eqOrErr (evalL_mono hle hs env root _ part m st)

/-! ## the questions of `evalTL`, the calls of `evalPL` -/

theorem loopL_qs {L : Limits} {env : Env} {root : Msg} {e : Expr} {P : Req → Prop}
    (ih : ∀ (part : Nat) (m : Msg) (st : St), (evalTL L env root e part m st).Qs P) (part : Nat) (ps : List Msg) :
    ∀ (i : Nat) (st : St), (evalTL.loop L env root e part ps i st).Qs P := by
  induction ps with
  | nil => intro i st; simp only [evalTL.loop]; exact True.intro
  | cons p rest ihp =>
    intro i st
    simp only [evalTL.loop]
    refine Ask.Qs.bind (ih _ _ _) fun a => ?_
    obtain ⟨ev, s1⟩ := a
    cases ev <;> first | exact True.intro | exact ihp _ _

theorem loopBL_qs {L : Limits} {env : Env} {root : Msg} {e : Expr} {P : Req → Prop}
    (ih : ∀ (part : Nat) (m : Msg) (st : St), (evalTL L env root e part m st).Qs P) (part : Nat) (ps : List Msg) :
    ∀ (i : Nat) (ev0 : Tri) (st : St), (evalTL.loopB L env root e part ps i ev0 st).Qs P := by
  induction ps with
  | nil => intro i ev0 st; simp only [evalTL.loopB]; exact True.intro
  | cons p rest ihp =>
    intro i ev0 st
    simp only [evalTL.loopB]
    refine Ask.Qs.bind (ih _ _ _) fun a => ?_
    obtain ⟨ev, s1⟩ := a
    cases ev <;> first | exact True.intro | exact ihp _ _ _

/-- `evalT_qs` for all limits: every question of the evaluation of `e` is of a kind `e` contains. -/
theorem evalTL_qs (L : Limits) (env : Env) (root : Msg) (e : Expr) :
    ∀ (part : Nat) (m : Msg) (st : St), (evalTL L env root e part m st).Qs (AllowedQ env e) := by
  induction e with
  | block lno e ih =>
    intro part m st
    simp only [evalTL]
    refine Ask.Qs.bind ((ih part m st).mono (AllowedQ.mono id id id)) fun a => ?_
    obtain ⟨ev, s1⟩ := a
    cases ev <;> qs_tail
  | and lno l r ihl ihr =>
    intro part m st
    simp only [evalTL]
    refine Ask.Qs.bind ((ihl part m st).mono (AllowedQ.mono (by simp [hasCommand]; exact .inl) (by simp [hasIsDir]; exact .inl) (by simp [hasFileDate]; exact .inl))) fun a => ?_
    obtain ⟨ev, s1⟩ := a
    cases ev <;> first | exact True.intro | exact (ihr part m s1).mono (AllowedQ.mono (by simp [hasCommand]; exact .inr) (by simp [hasIsDir]; exact .inr) (by simp [hasFileDate]; exact .inr))
  | or lno l r ihl ihr =>
    intro part m st
    simp only [evalTL]
    refine Ask.Qs.bind ((ihl part m st).mono (AllowedQ.mono (by simp [hasCommand]; exact .inl) (by simp [hasIsDir]; exact .inl) (by simp [hasFileDate]; exact .inl))) fun a => ?_
    obtain ⟨ev, s1⟩ := a
    cases ev <;> first | exact True.intro | exact (ihr part m s1).mono (AllowedQ.mono (by simp [hasCommand]; exact .inr) (by simp [hasIsDir]; exact .inr) (by simp [hasFileDate]; exact .inr))
  | neg lno e ih =>
    intro part m st
    simp only [evalTL]
    refine Ask.Qs.bind ((ih part m st).mono (AllowedQ.mono id id id)) fun a => ?_
    obtain ⟨ev, s1⟩ := a
    cases ev <;> exact True.intro
  | mtch lno c rhs ihc ihr =>
    intro part m st
    simp only [evalTL]
    generalize matchesAppendL L env st.ml _ = r1
    obtain ⟨ml1, f1⟩ := r1
    cases f1
    · simp only [Bool.false_eq_true, ↓reduceIte]
      refine Ask.Qs.bind ((ihc part m _).mono (AllowedQ.mono (by simp [hasCommand]; exact .inl) (by simp [hasIsDir]; exact .inl) (by simp [hasFileDate]; exact .inl))) fun a => ?_
      obtain ⟨ev, s1⟩ := a
      cases ev <;> first | exact True.intro | exact (ihr part m s1).mono (AllowedQ.mono (by simp [hasCommand]; exact .inr) (by simp [hasIsDir]; exact .inr) (by simp [hasFileDate]; exact .inr))
    · exact True.intro
  | attachment lno e ih =>
    intro part m st
    simp only [evalTL]
    cases getAttachments m with
    | none => exact True.intro
    | some parts => exact loopL_qs (fun part m st => (ih part m st).mono (AllowedQ.mono id id id)) part parts 0 st
  | attBlock lno e ih =>
    intro part m st
    simp only [evalTL]
    cases getAttachments m with
    | none => exact True.intro
    | some parts => exact loopBL_qs (fun part m st => (ih part m st).mono (AllowedQ.mono id id id)) part parts 0 .nomatch st
  | date lno field cmp age =>
    intro part m st
    cases field
    · simp only [evalTL]; exact True.intro
    all_goals
      simp only [evalTL, ask, Ask.ask_bind, Ask.ret_bind]
      refine ⟨⟨rfl, rfl, by decide⟩, fun a => ?_⟩
      qs_tail
  | stat lno path =>
    intro part m st
    simp only [evalTL, ask, Ask.ask_bind, Ask.ret_bind]
    generalize matchesAppendL L env st.ml _ = r1
    obtain ⟨ml1, f1⟩ := r1
    dsimp only
    repeat' (first | exact True.intro | exact ⟨rfl, fun _ => True.intro⟩ | split)
  | command lno argv =>
    intro part m st
    simp only [evalTL, ask, Ask.ask_bind, Ask.ret_bind]
    generalize matchesAppendL L env st.ml _ = r1
    obtain ⟨ml1, f1⟩ := r1
    dsimp only
    repeat' (first | exact True.intro | exact ⟨rfl, fun _ => True.intro⟩ | split)
  | _ => intro part m st; simp only [evalTL]; exact True.intro

/-- `evalP_calls_of` for all limits. -/
theorem evalPL_calls_of (L : Limits) (env : Env) (e : Expr) (m : Msg) (fl : MFlags) :
    Calls (EvalCallOf e) (evalPL L env e m fl) := by
  refine calls_toProg_qs (evalTL_qs L env m e 0 m _) fun q hq => ?_
  cases q with
  | command av =>
    exact Calls.bind (calls_mono' (execCall_execP _) fun c hc => .inl ⟨hq, hc⟩) fun _ => True.intro
  | isDir p => exact ⟨.inr ⟨.inl hq, p, rfl⟩, fun _ => True.intro⟩
  | fileTime p f => exact ⟨.inr ⟨.inr hq.1, p, rfl⟩, fun _ => True.intro⟩

/-- A tree that asks nothing: `evalPL` issues no call and returns the value of `evalL`. -/
theorem evalPL_asksFree (L : Limits) (env : Env) (e : Expr) (h : asksFree e = true) (m : Msg) (fl : MFlags) :
    ∃ r, evalPL L env e m fl = .ret r := by
  simp only [asksFree, Bool.and_eq_true, Bool.not_eq_true'] at h
  have hq : (evalTL L env m e 0 m { ml := [], flags := fl }).Qs fun _ => False := by
    refine (evalTL_qs L env m e 0 m _).mono fun q hq => ?_
    cases q with
    | command av => simp only [AllowedQ, h.1.1] at hq; cases hq
    | isDir p => simp only [AllowedQ, h.1.2] at hq; cases hq
    | fileTime p f => simp only [AllowedQ, h.2] at hq; cases hq.1
  obtain ⟨a, ha⟩ := Ask.eq_ret_of_qs_false hq
  exact ⟨a, by unfold evalPL; rw [ha]; rfl⟩

/-- ... namely that of `evalL`: for a tree that asks nothing `evalTL` is `evalL`. -/
theorem evalTL_asksFree (L : Limits) (env : Env) (root : Msg) (e : Expr) :
    asksFree e = true → ∀ (part : Nat) (m : Msg) (st : St),
      evalTL L env root e part m st = .ret (evalL L env root e part m st) := by
  induction e with
  | block lno e ih =>
    intro h part m st
    have he : asksFree e = true := by simpa [asksFree, hasCommand, hasIsDir, hasFileDate] using h
    simp only [evalTL, evalL, ih he, Ask.ret_bind]
    rcases evalL L env root e part m st with ⟨t, s1⟩
    cases t <;> simp only <;> repeat' (first | rfl | split)
  | and lno l r ihl ihr =>
    intro h part m st
    have hl : asksFree l = true ∧ asksFree r = true := by
      simp only [asksFree, hasCommand, hasIsDir, hasFileDate, Bool.and_eq_true, Bool.not_eq_true', Bool.or_eq_false_iff] at h ⊢
      exact ⟨⟨⟨h.1.1.1, h.1.2.1⟩, h.2.1⟩, ⟨h.1.1.2, h.1.2.2⟩, h.2.2⟩
    simp only [evalTL, evalL, ihl hl.1, Ask.ret_bind]
    rcases evalL L env root l part m st with ⟨t, s1⟩
    cases t <;> simp only [ihr hl.2]
  | or lno l r ihl ihr =>
    intro h part m st
    have hl : asksFree l = true ∧ asksFree r = true := by
      simp only [asksFree, hasCommand, hasIsDir, hasFileDate, Bool.and_eq_true, Bool.not_eq_true', Bool.or_eq_false_iff] at h ⊢
      exact ⟨⟨⟨h.1.1.1, h.1.2.1⟩, h.2.1⟩, ⟨h.1.1.2, h.1.2.2⟩, h.2.2⟩
    simp only [evalTL, evalL, ihl hl.1, Ask.ret_bind]
    rcases evalL L env root l part m st with ⟨t, s1⟩
    cases t <;> simp only [ihr hl.2]
  | neg lno e ih =>
    intro h part m st
    have he : asksFree e = true := by simpa [asksFree, hasCommand, hasIsDir, hasFileDate] using h
    simp only [evalTL, evalL, ih he, Ask.ret_bind]
    rcases evalL L env root e part m st with ⟨t, s1⟩
    cases t <;> rfl
  | mtch lno c rhs ihc ihr =>
    intro h part m st
    have hl : asksFree c = true ∧ asksFree rhs = true := by
      simp only [asksFree, hasCommand, hasIsDir, hasFileDate, Bool.and_eq_true, Bool.not_eq_true', Bool.or_eq_false_iff] at h ⊢
      exact ⟨⟨⟨h.1.1.1, h.1.2.1⟩, h.2.1⟩, ⟨h.1.1.2, h.1.2.2⟩, h.2.2⟩
    simp only [evalTL, evalL]
    generalize matchesAppendL L env st.ml _ = r1
    obtain ⟨ml1, f1⟩ := r1
    cases f1
    · simp only [Bool.false_eq_true, ↓reduceIte, ihc hl.1, Ask.ret_bind]
      rcases evalL L env root c part m { st with ml := ml1 } with ⟨t, s1⟩
      cases t <;> simp only [ihr hl.2]
    · rfl
  | attachment lno e ih =>
    intro h part m st
    have he : asksFree e = true := by simpa [asksFree, hasCommand, hasIsDir, hasFileDate] using h
    have hloop : ∀ (ps : List Msg) (i : Nat) (st : St),
        evalTL.loop L env root e part ps i st = .ret (evalL.loop L env root e part ps i st) := by
      intro ps
      induction ps with
      | nil => intro i st; simp only [evalTL.loop, evalL.loop]
      | cons p rest ihp =>
        intro i st
        simp only [evalTL.loop, evalL.loop, ih he, Ask.ret_bind]
        rcases evalL L env root e (if part == 0 then i + 1 else part) p st with ⟨t, s1⟩
        cases t <;> simp only [ihp]
    simp only [evalTL, evalL]
    cases getAttachments m with
    | none => rfl
    | some parts => exact hloop parts 0 st
  | attBlock lno blk ih =>
    intro h part m st
    have he : asksFree blk = true := by simpa [asksFree, hasCommand, hasIsDir, hasFileDate] using h
    have hloop : ∀ (ps : List Msg) (i : Nat) (ev : Tri) (st : St),
        evalTL.loopB L env root blk part ps i ev st = .ret (evalL.loopB L env root blk part ps i ev st) := by
      intro ps
      induction ps with
      | nil => intro i ev st; simp only [evalTL.loopB, evalL.loopB]
      | cons p rest ihp =>
        intro i ev st
        simp only [evalTL.loopB, evalL.loopB, ih he, Ask.ret_bind]
        rcases evalL L env root blk (if part == 0 then i + 1 else part) p st with ⟨t, s1⟩
        cases t <;> simp only [ihp]
    simp only [evalTL, evalL]
    cases getAttachments m with
    | none => rfl
    | some parts => exact hloop parts 0 .nomatch st
  | date lno field cmp age =>
    intro h part m st
    cases field
    case header => simp only [evalTL]
    all_goals simp [asksFree, hasFileDate] at h
  | stat lno path => intro h; simp [asksFree, hasIsDir] at h
  | command lno argv => intro h; simp [asksFree, hasCommand] at h
  | _ => intro h part m st; simp only [evalTL]

theorem evalPL_asksFree_eq (L : Limits) (env : Env) (e : Expr) (h : asksFree e = true) (m : Msg) (fl : MFlags) :
    evalPL L env e m fl = .ret (evalL L env m e 0 m { ml := [], flags := fl }) := by
  unfold evalPL
  rw [evalTL_asksFree L env m e h]
  rfl

theorem AskSim.toProg {t t' : Ask (Tri × St)} (h : AskSim t t') : Sim (RelErr (·.1 = .error)) t.toProg t'.toProg := by
  induction h with
  | ret a => exact .ret a
  | ask q k k' _ ih =>
    simp only [Ask.toProg]
    exact Sim.bind_same _ ih
  | stop s t => exact Sim.stop_ret _ rfl

/-- The evaluation as a program: in lock step (same `stat` / `open` / `fork` / `waitpid` / `close` calls, same results)
until the evaluation under the smaller limits ends with `error`. -/
theorem evalPL_sim {L L' : Limits} (hle : L ≤ L') (hs : Sane L) (env : Env) (e : Expr) (m : Msg) (fl : MFlags) :
    Sim (RelErr (·.1 = .error)) (evalPL L env e m fl) (evalPL L' env e m fl) :=
  (evalTL_mono hle hs env m e 0 m _).toProg

end Mdsort.Proofs.Limits
