import Mdsort.Proofs.ConfAnywhere2

/-!
# A defect behind a written prefix, part 3: a `date` condition with a word that is no unit
-/

namespace Mdsort.Proofs.Conf
open Mdsort Mdsort.Model Mdsort.Spec

variable {tl : Bytes}

/-- Where a unit is expected (`sflag`), a word that is no unit is read with a diagnostic ("ambiguous keyword",
"keyword too long"), or as a token that is no unit (a keyword, or a MACRO token). -/
theorem lex_badUnit (w tail : Bytes) (hw : badUnitWord w = true) (htail : ∀ c, tail.head? = some c → isKwChar c = false) :
    (lex1 false true false (32 :: (w ++ tail))).errors > 0 ∨
    ∀ v, Tk.ofToken (lex1 false true false (32 :: (w ++ tail))).tok ≠ .scalar (some v) := by
  cases w with
  | nil => simp [badUnitWord] at hw
  | cons c r =>
    simp only [badUnitWord, Bool.and_eq_true, Bool.or_eq_true, bne_iff_ne, ne_eq] at hw
    obtain ⟨⟨hl, hall⟩, hno⟩ := hw
    obtain ⟨h1, _, h3, h34, hd⟩ := LexAux.islower_facts c hl
    obtain ⟨htw, hdw⟩ := LexAux.takeWhile_append_stop isKwChar (c :: r) tail hall htail
    rw [List.cons_append] at htw hdw ⊢
    rw [lex1_blank _ _ _ _ h1 h3, LexAux.lex1_of_lower _ _ _ _ hl]
    unfold lex1.lexTok
    simp only [h34, hd, hl, htw, hdw, if_true, Bool.false_eq_true, if_false]
    split
    · exact Or.inl (by simp)
    · split
      · -- a keyword
        right
        intro v
        simp only [Tk.ofToken]
        split <;> simp
      · rename_i hfind
        have hnokw : (Gen.keywords.any fun kv => kv.1 == String.ofList ((c :: r).map fun b => Char.ofNat b.toNat)) = false := by
          rw [List.any_eq_false]
          intro kv hkv
          have := List.find?_eq_none.mp hfind kv hkv
          simpa using this
        have hlen : (unitMatches (c :: r)).length ≠ 1 := by
          rcases hno with h | h
          · rw [hnokw] at h; cases h
          · exact h
        have hms : (Gen.scalars.filter fun (x : String × Nat) =>
            (String.ofList ((c :: r).map fun b => Char.ofNat b.toNat)).toList.isPrefixOf x.1.toList) = unitMatches (c :: r) := by
          simp only [unitMatches, String.toList_ofList]
        simp only [hms]
        split
        · right; intro v; simp [Tk.ofToken]
        · rename_i heq; rw [heq] at hlen; simp at hlen
        · exact Or.inl (by simp)

/-- The unit parser fails in front of a word that is no unit. -/
theorem parseScalar_badUnit (cx : PCtx) (w tail : Bytes) (hw : badUnitWord w = true)
    (htail : ∀ c, tail.head? = some c → isKwChar c = false) (s : ParseSt) (h : Up cx (32 :: (w ++ tail)) s []) :
    Rej (parseScalar cx) s := by
  have h : Strm cx (32 :: (w ++ tail)) s none [] := by
    rcases h with h | ⟨_, _, heq, _, _⟩
    · exact h
    · cases heq
  have hla : s.la = none := h.la_eq
  have hrest : s.rest = 32 :: (w ++ tail) := by rw [h.rest_eq, render_nil, List.nil_append]
  have ham := h.am
  have hline : tokLineOf cx.nl s.rest = 1 := by
    cases w with
    | nil => simp [badUnitWord] at hw
    | cons c r =>
      simp only [badUnitWord, Bool.and_eq_true] at hw
      obtain ⟨h1, _, h3, _, _⟩ := LexAux.islower_facts c hw.1.1
      rw [hrest, List.cons_append, tokLineOf_blank _ _ _ h1 h3, lineOf, h.nl_eq]
      have : countNl (32 :: (c :: r ++ tail)) = countNl (c :: (r ++ tail)) := by
        simp [countNl, List.count_cons]
      rw [this]; omega
  unfold Rej wpl
  by_cases herr : (lex1 false true s.afterMacro s.rest).errors > 0
  · obtain ⟨s', hp⟩ := MainText.mt_peek_lex_error cx false true s hla herr
    have : parseScalar cx s = .err (lexErrLine cx.nl s.afterMacro s.rest) s' := by
      unfold parseScalar
      exact MainText.mt_bind_err (peek cx false true) _ s s' _ hp
    rw [this]
    show lexErrLine cx.nl s.afterMacro s.rest = 1
    rw [ham]
    simp only [lexErrLine, Bool.false_and, Bool.false_eq_true, if_false]
    exact hline
  · have hnot : ∀ v, Tk.ofToken (lex1 false true s.afterMacro s.rest).tok ≠ .scalar (some v) := by
      rw [ham, hrest] at herr ⊢
      rcases lex_badUnit w tail hw htail with h1 | h1
      · exact absurd h1 herr
      · exact h1
    have hres : ∃ s', parseScalar cx s = .err (tokLineOf cx.nl s.rest) s' := by
      unfold parseScalar
      show ∃ s', PM.bind (peek cx false true) _ s = _
      simp only [PM.bind, peek, hla, herr, if_false]
      generalize Tk.ofToken (lex1 false true s.afterMacro s.rest).tok = t at hnot
      cases t with
      | scalar v =>
        cases v with
        | none => exact ⟨_, rfl⟩
        | some v => exact absurd rfl (hnot v)
      | _ => exact ⟨_, rfl⟩
    obtain ⟨s', hs'⟩ := hres
    rw [hs']
    exact hline

/-- A `date` condition whose unit is a word that is no unit makes the operand parser fail, whatever follows the word. -/
theorem badUnary_unit (cx : PCtx) (f : DateField) (c : DateCmp) (n : Nat) (w tail : Bytes) (hw : badUnitWord w = true)
    (htail : ∀ c, tail.head? = some c → isKwChar c = false) :
    BadUnary cx (32 :: (w ++ tail)) (.kw .date :: (fieldToks f ++ [cmpTok c, .int n])) := by
  intro fuel s hs
  cases fuel with
  | zero => simp [Rej, parseUnary, wpl, outOfFuel]
  | succ fuel =>
    unfold Rej parseUnary
    simp only [wpl_bind]
    apply wpl_peek_up cx _ _ hs rfl
    intro s1 h1
    simp only [tkOf, parseCondKw, wpl_bind]
    apply wpl_shift_up h1
    intro s2 h2
    unfold parseDate
    simp only [wpl_bind]
    -- the field
    have hfield : wpl (parseDateField cx) (fun a s' => a = f ∧ Up cx (32 :: (w ++ tail)) s' [cmpTok c, .int n]) L1 True s2 := by
      unfold parseDateField
      simp only [wpl_bind]
      cases f
      · simp only [fieldToks, List.nil_append] at h2
        apply wpl_peek_up cx _ _ h2 (by cases c <;> rfl)
        intro s3 h3
        have hok := h2.ok _ (by simp : cmpTok c ∈ [cmpTok c, .int n])
        cases c <;> simp only [cmpTok, tkOf, wpl_pure] <;> exact ⟨by first | trivial | rfl, h3.up_some hok⟩
      all_goals
        simp only [fieldToks, List.cons_append, List.nil_append] at h2
        apply wpl_peek_up cx _ _ h2 rfl
        intro s3 h3
        simp only [tkOf, wpl_bind, wpl_pure]
        exact wpl_shift_up h3 (fun s4 h4 => ⟨by first | trivial | rfl, h4⟩)
    refine wpl_mono hfield ?_ (fun _ _ h => h)
    rintro _ s3 ⟨rfl, h3⟩
    -- the comparison
    have hcmp : wpl (parseDateCmp cx) (fun a s' => a = c ∧ Up cx (32 :: (w ++ tail)) s' [.int n]) L1 True s3 := by
      unfold parseDateCmp
      simp only [wpl_bind]
      apply wpl_peek_up cx _ _ h3 (by cases c <;> rfl)
      intro s4 h4
      cases c <;> simp only [cmpTok, tkOf, wpl_bind, wpl_pure] <;>
        exact wpl_shift_up h4 (fun s5 h5 => ⟨by first | trivial | rfl, h5⟩)
    refine wpl_mono hcmp ?_ (fun _ _ h => h)
    rintro _ s4 ⟨rfl, h4⟩
    -- the number
    have hint : wpl (parseInt cx) (fun a s' => a = n ∧ Up cx (32 :: (w ++ tail)) s' []) L1 True s4 := by
      unfold parseInt
      simp only [wpl_bind]
      apply wpl_peek_up cx _ _ h4 rfl
      intro s5 h5
      simp only [tkOf, wpl_bind, wpl_pure]
      exact wpl_shift_up h5 (fun s6 h6 => ⟨by first | trivial | rfl, h6⟩)
    refine wpl_mono hint ?_ (fun _ _ h => h)
    rintro _ s5 ⟨rfl, h5⟩
    -- the unit
    exact (parseScalar_badUnit cx w tail hw htail s5 h5).elim

end Mdsort.Proofs.Conf
