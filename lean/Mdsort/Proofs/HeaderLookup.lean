import Mdsort.Proofs.HeaderParse
import Mdsort.Proofs.HeaderSearch
import Mdsort.Proofs.HeaderUnfold
import Mdsort.Proofs.Decode

/-! `message_get_header` on a parsed well-formed message (C10). -/

namespace Mdsort.Proofs
open Mdsort Mdsort.Model

theorem lower_eq_tolower : Spec.lower = tolower := by
  funext c; rfl

theorem kmatch_eq_nameEq (name : Bytes) (h : Hdr) : kmatch name h = Spec.nameEq h.key name := by
  unfold kmatch Spec.nameEq
  rw [lower_eq_tolower, Bool.eq_iff_iff]
  simp only [beq_iff_eq, strcasecmp_eq_iff]
  exact eq_comm

/-- Headers matching the same name are mutually `keyLe`. -/
theorem kmatch_class (name : Bytes) (a b : Hdr) (ha : kmatch name a = true) (hb : kmatch name b = true) :
    keyLe a b = true := by
  unfold kmatch at ha hb
  simp only [beq_iff_eq] at ha hb
  unfold keyLe
  simp only [bne_iff_ne, ne_eq]
  apply strcasecmp_le_trans a.key name b.key
  · rw [strcasecmp_swap name, ha]; decide
  · rw [hb]; decide

theorem filter_sortByKey_kmatch (name : Bytes) (hs : List Hdr) :
    (sortByKey hs).filter (kmatch name) = hs.filter (kmatch name) :=
  filter_mergeSort_class keyLe_trans keyLe_total _ (kmatch_class name) hs

theorem decodeHeader_eq (v : Bytes) : decodeHeader v = Spec.logical v := by
  unfold decodeHeader rfc2047Decode Spec.logical
  rw [rfc2047_eq_spec, unfoldHeader_eq_spec']

theorem headerValues_mkHdrs (H : List Hdr) (name : Bytes) :
    Spec.headerValues (H.map fun h => (h.key, h.val)) name =
      (H.filter (kmatch name)).map fun h => decodeHeader h.val := by
  unfold Spec.headerValues
  rw [List.filter_map, List.map_map]
  have : ((fun f : Bytes × Bytes => Spec.nameEq f.1 name) ∘ fun h : Hdr => (h.key, h.val)) = kmatch name := by
    funext h
    simp [kmatch_eq_nameEq]
  rw [this]
  apply List.map_congr_left
  intro h _
  simp [decodeHeader_eq]

/-- Lookup in a key-sorted table: the matching headers of the table, in table order. -/
theorem getHeader_sorted (hs : List Hdr) (body name : Bytes)
    (hsorted : hs.Pairwise (fun a b => keyLe a b = true)) :
    getHeader { headers := hs, body := body } name =
      (if (hs.filter (kmatch name)).isEmpty then none
       else some ((hs.filter (kmatch name)).map fun h => decodeHeader h.val)) := by
  have hsearch := searchHeader_list hs name hsorted
  unfold getHeader
  cases hres : searchHeader hs name with
  | none =>
    rw [hres] at hsearch
    simp only at hsearch ⊢
    simp [hsearch]
  | some r =>
    obtain ⟨i, n⟩ := r
    rw [hres] at hsearch
    simp only at hsearch ⊢
    obtain ⟨h0, hb, hrun, -, -⟩ := hsearch
    rw [hrun]
    have : (hs.filter (kmatch name)).isEmpty = false := by
      rw [← hrun]
      cases hl : (hs.drop i).take n with
      | nil =>
        have := congrArg List.length hl
        simp at this
        omega
      | cons _ _ => rfl
    simp [this]

theorem getHeader_eq_spec' (m : Bytes) (fs : List (Bytes × Bytes)) (b : Bytes) (name : Bytes)
    (h : Spec.read m = some (fs, b)) :
    getHeader (parseMessage m) name =
      (if (Spec.headerValues fs name).isEmpty then none else some (Spec.headerValues fs name)) := by
  rw [parseMessage_read m fs b h]
  rw [getHeader_sorted (sortByKey (mkHdrs 0 fs)) b name (List.pairwise_mergeSort keyLe_trans keyLe_total _)]
  rw [filter_sortByKey_kmatch]
  have hv := headerValues_mkHdrs (mkHdrs 0 fs) name
  rw [mkHdrs_map_kv] at hv
  rw [hv]
  simp [List.isEmpty_iff]

theorem parseMessage_eq_read' (m : Bytes) (fs : List (Bytes × Bytes)) (b : Bytes)
    (h : Spec.read m = some (fs, b)) :
    (sortById (parseMessage m).headers).map (fun h => (h.key, h.val)) = fs ∧ (parseMessage m).body = b ∧
    (sortById (parseMessage m).headers).map (·.id) = (List.range fs.length).map (· + 1) := by
  rw [parseMessage_read m fs b h]
  simp only
  rw [sortById_sortByKey _ (mkHdrs_strict 0 fs)]
  exact ⟨mkHdrs_map_kv 0 fs, trivial, mkHdrs_map_id 0 fs⟩

end Mdsort.Proofs
