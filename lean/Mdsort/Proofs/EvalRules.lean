import Mdsort.Proofs.EvalSim

/-!
# The induction over the rules of a block (C03)
-/

namespace Mdsort.Proofs
open Mdsort Mdsort.Model Mdsort.Spec

/-! ## the OR chain as a list -/

def orChain : Expr → List Expr
  | .or _ l r => orChain l ++ [r]
  | e => [e]

/-- The rules of a block tried in order. -/
def evalOrList (env : Env) (root : Msg) : List Expr → St → Tri × St
  | [], st => (.nomatch, st)
  | x :: xs, st =>
    match eval env root x 0 root st with
    | (.nomatch, st1) => evalOrList env root xs st1
    | other => other

theorem evalOrList_append (env : Env) (root : Msg) : ∀ (a b : List Expr) (st : St),
    evalOrList env root (a ++ b) st =
      match evalOrList env root a st with
      | (.nomatch, st1) => evalOrList env root b st1
      | other => other := by
  intro a
  induction a with
  | nil => intro b st; rfl
  | cons x xs ih =>
    intro b st
    simp only [List.cons_append, evalOrList]
    rcases h : eval env root x 0 root st with ⟨t, s⟩
    cases t
    · rfl
    · exact ih b s
    · rfl

theorem evalOrList_single (env : Env) (root : Msg) (x : Expr) (st : St) :
    evalOrList env root [x] st = eval env root x 0 root st := by
  simp only [evalOrList]
  rcases eval env root x 0 root st with ⟨t, s⟩
  cases t <;> rfl

theorem eval_orChain (env : Env) (root : Msg) : ∀ (e : Expr) (st : St),
    eval env root e 0 root st = evalOrList env root (orChain e) st := by
  intro e
  induction e with
  | or lno l r ihl _ =>
    intro st
    rw [eval, orChain, evalOrList_append, ← ihl st]
    rcases eval env root l 0 root st with ⟨t, s⟩
    cases t
    · rfl
    · simp only; rw [evalOrList_single]
    · rfl
  | _ => intro st; simp only [orChain, evalOrList_single]

def parseAll : List Expr → Option (List Rule)
  | [] => some []
  | x :: xs =>
    match parseRule x, parseAll xs with
    | some r, some rs => some (r :: rs)
    | _, _ => Option.none

theorem parseAll_snoc : ∀ (xs : List Expr) (rs : List Rule) (x : Expr) (r : Rule),
    parseAll xs = some rs → parseRule x = some r → parseAll (xs ++ [x]) = some (rs ++ [r]) := by
  intro xs
  induction xs with
  | nil =>
    intro rs x r h hx
    simp only [parseAll, Option.some.injEq] at h
    subst h
    simp [parseAll, hx]
  | cons y ys ih =>
    intro rs x r h hx
    simp only [parseAll] at h
    cases hy : parseRule y with
    | none => simp [hy] at h
    | some ry =>
      cases hys : parseAll ys with
      | none => simp [hy, hys] at h
      | some rys =>
        simp only [hy, hys, Option.some.injEq] at h
        subst h
        simp [parseAll, hy, ih rys x r hys hx]

theorem parseRules_orChain : ∀ (e : Expr) (rs : List Rule), parseRules e = some rs → parseAll (orChain e) = some rs := by
  intro e
  induction e with
  | or lno l r ihl _ =>
    intro rs h
    rw [parseRules] at h
    cases hl : parseRules l with
    | none => simp [hl] at h
    | some ls =>
      cases hr : parseRule r with
      | none => simp [hl, hr] at h
      | some x =>
        simp only [hl, hr, Option.some.injEq] at h
        subst h
        rw [orChain]
        exact parseAll_snoc _ _ _ _ (ihl ls hl) hr
  | _ =>
    intro rs h
    simp only [parseRules, Option.map_eq_some_iff] at h
    obtain ⟨x, hx, rfl⟩ := h
    simp [orChain, parseAll, hx]

theorem okTree_orChain {L : Nat} {o : Bool} : ∀ (e : Expr), okTree L o e → ∀ x ∈ orChain e, okTree L o x := by
  intro e
  induction e with
  | or lno l r ihl _ =>
    intro h x hx
    rw [orChain] at hx
    have := okTree_or h
    rcases List.mem_append.1 hx with hx | hx
    · exact ihl this.1 x hx
    · simp only [List.mem_singleton] at hx; rw [hx]; exact this.2
  | _ =>
    intro h x hx
    simp only [orChain, List.mem_singleton] at hx
    rw [hx]; exact h

theorem okTree_andChain {L : Nat} {o : Bool} : ∀ (e : Expr), okTree L o e → ∀ x ∈ andChain e, okTree L o x := by
  intro e
  induction e with
  | and lno l r ihl _ =>
    intro h x hx
    rw [andChain] at hx
    have := okTree_and h
    rcases List.mem_append.1 hx with hx | hx
    · exact ihl this.1 x hx
    · simp only [List.mem_singleton] at hx; rw [hx]; exact this.2
  | _ =>
    intro h x hx
    simp only [andChain, List.mem_singleton] at hx
    rw [hx]; exact h

/-! ## what `splitActs` and `parseRule` recognise -/

theorem splitActs_spec {l as : List Expr} {ctl : Ctl} (h : splitActs l = some (as, ctl)) :
    (ctl = .none ∧ l = as ∧ as ≠ [] ∧ ∀ a ∈ as, isActionExpr a = true) ∨
    (ctl ≠ .none ∧ ∃ x, l = as ++ [x] ∧ isCtlExpr x = some ctl ∧ ∀ a ∈ as, isActionExpr a = true) := by
  unfold splitActs at h
  cases hl : l.getLast? with
  | none => simp [hl] at h
  | some last =>
    obtain ⟨ys, hys⟩ := List.getLast?_eq_some_iff.1 hl
    simp only [hl] at h
    cases hc : isCtlExpr last with
    | none =>
      simp only [hc] at h
      by_cases hall : l.all isActionExpr = true
      · simp only [hall, if_true, Option.some.injEq, Prod.mk.injEq] at h
        left
        refine ⟨h.2.symm, h.1, ?_, ?_⟩
        · rw [← h.1, hys]; simp
        · rw [← h.1]; simpa using hall
      · simp [hall] at h
    | some c =>
      simp only [hc] at h
      by_cases hall : l.dropLast.all isActionExpr = true
      · simp only [hall, if_true, Option.some.injEq, Prod.mk.injEq] at h
        right
        have hd : l.dropLast = ys := by rw [hys]; simp
        refine ⟨?_, last, ?_, ?_, ?_⟩
        · rw [← h.2]
          intro e
          rw [e] at hc
          cases last <;> simp [isCtlExpr] at hc
        · rw [← h.1, hd, hys]
        · rw [← h.2]; exact hc
        · rw [← h.1]; simpa using hall
      · simp [hall] at h

/-- The two shapes of a rule. -/
theorem parseRule_spec {x : Expr} {r : Rule} (h : parseRule x = some r) :
    (∃ lno c rhs as ctl, x = .mtch lno c rhs ∧ r = .acts lno c as ctl ∧ isCond c = true ∧
      (∀ l e, rhs ≠ .block l e) ∧ splitActs (andChain rhs) = some (as, ctl)) ∨
    (∃ lno c l e rs, x = .mtch lno c (.block l e) ∧ r = .blk lno c rs ∧ isCond c = true ∧ parseRules e = some rs) := by
  cases x with
  | mtch lno c rhs =>
    by_cases hb : ∃ l e, rhs = .block l e
    · obtain ⟨l, e, rfl⟩ := hb
      right
      rw [parseRule] at h
      by_cases hc : isCond c = true
      · simp only [hc, Bool.not_true, Bool.false_eq_true, if_false, Option.map_eq_some_iff] at h
        obtain ⟨rs, h1, h2⟩ := h
        exact ⟨lno, c, l, e, rs, rfl, h2.symm, hc, h1⟩
      · simp [hc] at h
    · left
      have hb' : ∀ l e, rhs ≠ .block l e := fun l e he => hb ⟨l, e, he⟩
      rw [parseRule.eq_2 _ _ _ (fun l e he => hb' l e he)] at h
      by_cases hc : isCond c = true
      · simp only [hc, Bool.not_true, Bool.false_eq_true, if_false, Option.map_eq_some_iff] at h
        obtain ⟨⟨as, ctl⟩, h1, h2⟩ := h
        exact ⟨lno, c, rhs, as, ctl, rfl, h2.symm, hc, hb', h1⟩
      · simp [hc] at h
  | _ => simp [parseRule] at h

theorem isCtlExpr_spec {x : Expr} {ctl : Ctl} (h : isCtlExpr x = some ctl) :
    (ctl = .pass ∧ ∃ l, x = .pass l) ∨ (ctl = .brk ∧ ∃ l, x = .brk l) := by
  cases x <;> simp [isCtlExpr] at h
  · right; exact ⟨h.symm, _, rfl⟩
  · left; exact ⟨h.symm, _, rfl⟩

/-! ## the `match` node -/

theorem eval_mtch (env : Env) (root : Msg) (lno : Nat) (c rhs : Expr) (st : St) :
    eval env root (.mtch lno c rhs) 0 root st =
      match eval env root c 0 root { st with ml := st.ml ++ [{ ty := .mtch, lno := lno, part := 0 }] } with
      | (.match, st1) => eval env root rhs 0 root st1
      | other => other := by
  rw [eval, matchesAppend_plain env st.ml _ (by dsimp only; decide) (by dsimp only; decide)]
  rfl

/-- Condition of a rule evaluated after the sentinel: value of the documented condition and a
state that still satisfies the invariant. -/
theorem rule_cond {env : Env} {L : Nat} (hctx : PCtx env L) (root : Msg) (f : MFlags) {o : Bool} (lno : Nat)
    (c rhs : Expr) (hc : isCond c = true) (hw : wfTree c = true) (ho : hasOld c = true → o = true) (st : St)
    {pend : List Expr} {hp : Bool} (hR : Rel L st.ml pend hp) (hs : SeenInv o f st) :
    ∃ st1, Rel L st1.ml pend hp ∧ SeenInv o f st1 ∧
      eval env root (.mtch lno c rhs) 0 root st =
        match condVal (valOf env root f) c with
        | .match => eval env root rhs 0 root st1
        | t => (t, st1) := by
  obtain ⟨X, hX, he⟩ := cond_eval env root f o c hc hw ho
    { st with ml := st.ml ++ [{ ty := .mtch, lno := lno, part := 0 }] } hs
  refine ⟨{ ml := st.ml ++ [{ ty := .mtch, lno := lno, part := 0 }] ++ X, flags := st.flags }, ?_, hs, ?_⟩
  rotate_left
  · rw [eval_mtch, he]
    cases condVal (valOf env root f) c <;> rfl
  · dsimp only
    apply (hR.append_inert hctx.hL _).append_inert hctx.hL hX
    intro m hm
    simp only [List.mem_singleton] at hm
    rw [hm]; exact inert_sentinel lno 0

/-! ## monotonicity of `crosses` -/

theorem crosses_mono (v : Expr → Tri) (aerr : Expr → Bool) (n : Nat) : ∀ (rs : List Rule), sizeOf rs < n →
    ∀ (nested outerPass : Bool) (start : Nat) (passSeen : Bool) (run : Run),
    (evalRules v aerr nested outerPass start rs passSeen run).2.crosses = false → run.crosses = false := by
  induction n with
  | zero => intro rs h; omega
  | succ n ih =>
    intro rs hsz nested outerPass start passSeen run h
    cases rs with
    | nil =>
      rw [evalRules] at h
      simp only [Bool.or_eq_false_iff] at h
      exact h.1
    | cons r rest =>
      have hrest : sizeOf rest < n := by
        simp only [List.cons.sizeOf_spec] at hsz; omega
      cases r with
      | acts lno c as ctl =>
        rw [evalRules] at h
        cases hcv : condVal v c with
        | error => simpa [hcv] using h
        | «nomatch» => simp only [hcv] at h; exact ih rest hrest _ _ _ _ _ h
        | «match» =>
          simp only [hcv] at h
          by_cases ha : as.any aerr = true
          · simpa [ha] using h
          · have ha' : as.any aerr = false := by simpa using ha
            simp only [ha', Bool.false_eq_true, if_false] at h
            cases ctl with
            | pass =>
              dsimp only at h
              have := ih rest hrest _ _ _ _ _ h
              exact this
            | brk =>
              simp only [Bool.or_eq_false_iff] at h
              exact h.1
            | none => simpa using h
      | blk lno c rs' =>
        have hrs' : sizeOf rs' < n := by
          simp only [List.cons.sizeOf_spec, Rule.blk.sizeOf_spec] at hsz; omega
        rw [evalRules] at h
        cases hcv : condVal v c with
        | error => simpa [hcv] using h
        | «nomatch» => simp only [hcv] at h; exact ih rest hrest _ _ _ _ _ h
        | «match» =>
          simp only [hcv] at h
          rcases hin : evalRules v aerr true (outerPass || passSeen) run.pend.length rs' false run with ⟨b, run1⟩
          have hin2 : run1 = (evalRules v aerr true (outerPass || passSeen) run.pend.length rs' false run).2 := by rw [hin]
          rw [hin] at h
          have h1 : run1.crosses = false := by
            cases b
            · exact h
            · exact h
            · exact ih rest hrest _ _ _ _ _ h
            · exact ih rest hrest _ _ _ _ _ h
          rw [hin2] at h1
          exact ih rs' hrs' _ _ _ _ _ h1

/-! ## the simulation -/

/-- What the induction establishes between the outcome of `evalRules` on the rules of a block
and the evaluator's result for that block. -/
def Post (L : Nat) (od : Bool) (f : MFlags) (nested outerPass : Bool) (o : BRes × Run) (r : Tri × St) : Prop :=
  match o.1 with
  | .err => r.1 = .error
  | .matched => r.1 = .match ∧ Rel L r.2.ml o.2.pend false ∧ SeenInv od f r.2
  | _ => r.1 = .nomatch ∧ (nested = true → Rel L r.2.ml o.2.pend outerPass ∧ SeenInv od f r.2)

def orStep (env : Env) (root : Msg) (xs : List Expr) (r : Tri × St) : Tri × St :=
  match r with
  | (.nomatch, st1) => evalOrList env root xs st1
  | other => other

theorem evalOrList_cons (env : Env) (root : Msg) (x : Expr) (xs : List Expr) (st : St) :
    evalOrList env root (x :: xs) st = orStep env root xs (eval env root x 0 root st) := by
  simp only [evalOrList, orStep]

theorem blockWrap_orStep_error (env : Env) (root : Msg) (xs : List Expr) {r : Tri × St} (h : r.1 = .error) :
    (blockWrap (orStep env root xs r)).1 = .error := by
  rcases r with ⟨t, s⟩
  simp only at h
  subst h
  rfl

theorem eval_pass (env : Env) (root : Msg) (lno : Nat) (st : St) :
    eval env root (.pass lno) 0 root st =
      (.nomatch, { st with ml := st.ml ++ [{ ty := .pass, lno := lno, part := 0 }] }) := by
  rw [eval]; unfold exprAppend
  rw [matchesAppend_plain env st.ml _ (by dsimp only; decide) (by dsimp only; decide)]
  rfl

theorem eval_brk (env : Env) (root : Msg) (lno : Nat) (st : St) :
    eval env root (.brk lno) 0 root st =
      (.match, { st with ml := st.ml ++ [{ ty := .brk, lno := lno, part := 0 }] }) := by
  rw [eval]; unfold exprAppend
  rw [matchesAppend_plain env st.ml _ (by dsimp only; decide) (by dsimp only; decide)]
  rfl

theorem sim_rules {env : Env} {L : Nat} (hctx : PCtx env L) (root : Msg) (f : MFlags) (od : Bool) (n : Nat) :
    ∀ (rs : List Rule), sizeOf rs < n → ∀ (es : List Expr), parseAll es = some rs → (∀ x ∈ es, okTree L od x) →
    ∀ (nested outerPass : Bool) (start : Nat) (passSeen : Bool) (run : Run) (st : St),
      (nested = false → outerPass = false ∧ start = 0) →
      Rel L st.ml run.pend (outerPass || passSeen) → SeenInv od f st →
      (evalRules (valOf env root f) actErr nested outerPass start rs passSeen run).2.crosses = false →
      Post L od f nested outerPass (evalRules (valOf env root f) actErr nested outerPass start rs passSeen run)
        (blockWrap (evalOrList env root es st)) := by
  induction n with
  | zero => intro rs h; omega
  | succ n ih =>
    intro rs hsz es hpa hok nested outerPass start passSeen run st hroot hR hs hcr
    cases rs with
    | nil =>
      have hes : es = [] := by
        cases es with
        | nil => rfl
        | cons x xs =>
          simp only [parseAll] at hpa
          cases h1 : parseRule x <;> cases h2 : parseAll xs <;> simp [h1, h2] at hpa
      subst hes
      rw [evalRules] at hcr ⊢
      simp only [evalOrList]
      simp only [Bool.or_eq_false_iff] at hcr
      have hop : outerPass = false := by
        cases nested
        · exact (hroot rfl).1
        · cases outerPass
          · rfl
          · simp at hcr
      subst hop
      cases passSeen
      · have hR' : Rel L st.ml run.pend false := by simpa using hR
        rw [blockWrap_plain hR' _ (by decide)]
        exact ⟨rfl, fun _ => ⟨hR', hs⟩⟩
      · have hR' : Rel L st.ml run.pend true := by simpa using hR
        rw [blockWrap_pass hR' _ (by decide)]
        have hlen : run.pend.length > 0 ↔ run.pend ≠ [] := List.length_pos_iff
        have hown : run.pend.length - start > 0 ↔ run.pend ≠ [] := by
          rw [← hlen]
          cases nested
          · have := (hroot rfl).2; omega
          · have h2 := hcr.2
            simp only [Bool.true_and, Bool.false_or, Bool.and_eq_false_iff, beq_eq_false_iff_ne,
              decide_eq_false_iff_not] at h2
            omega
        by_cases hpe : run.pend = []
        · have h0 : ¬ (run.pend.length - start > 0) := fun h => (hown.1 h) hpe
          have hcond : (true && decide (run.pend.length - start > 0)) = false := by simp [h0]
          simp only [hcond, Bool.false_eq_true, if_false]
          simp only [hpe, if_true]
          refine ⟨rfl, fun _ => ⟨?_, hs⟩⟩
          have := hR'.remove_pass
          rw [hpe] at this
          exact this
        · have h0 : run.pend.length - start > 0 := hown.2 hpe
          have hcond : (true && decide (run.pend.length - start > 0)) = true := by simp [h0]
          simp only [hcond, if_true]
          simp only [hpe, if_false]
          exact ⟨rfl, hR'.remove_pass, hs⟩
    | cons r rest =>
      have hrest : sizeOf rest < n := by
        simp only [List.cons.sizeOf_spec] at hsz; omega
      cases es with
      | nil => simp [parseAll] at hpa
      | cons x xs =>
        simp only [parseAll] at hpa
        cases hx : parseRule x with
        | none => simp [hx] at hpa
        | some r' =>
          cases hxs : parseAll xs with
          | none => simp [hx, hxs] at hpa
          | some rest' =>
            simp only [hx, hxs, Option.some.injEq, List.cons.injEq] at hpa
            obtain ⟨hr1, hr2⟩ := hpa
            subst hr1 hr2
            have hokx := hok x (by simp)
            have hokxs : ∀ y ∈ xs, okTree L od y := fun y hy => hok y (by simp [hy])
            rw [evalOrList_cons]
            rcases parseRule_spec hx with ⟨lno, c, rhs, as, ctl, rfl, rfl, hc, hnb, hsp⟩ |
              ⟨lno, c, l, e, rs', rfl, rfl, hc, hpr⟩
            · -- a rule with actions
              obtain ⟨hokc, hokrhs⟩ := okTree_mtch hokx
              obtain ⟨st1, hR1, hs1, hev⟩ := rule_cond hctx root f lno c rhs hc hokc.1 hokc.2.2.2.1 st hR hs
              rw [hev]
              rw [evalRules] at hcr ⊢
              cases hcv : condVal (valOf env root f) c with
              | error => exact blockWrap_orStep_error env root xs rfl
              | «nomatch» =>
                simp only [hcv] at hcr ⊢
                simp only [orStep]
                exact ih rest' hrest xs hxs hokxs _ _ _ _ _ st1 hroot hR1 hs1 hcr
              | «match» =>
                simp only [hcv] at hcr ⊢
                rw [eval_andChain]
                have hokas := okTree_andChain rhs hokrhs
                rcases splitActs_spec hsp with ⟨rfl, hl, hne, hact⟩ | ⟨hctl, xc, hl, hcx, hact⟩
                · rw [hl] at hokas ⊢
                  rcases acts_eval hctx root as (fun a ha => ⟨hact a ha, hokas a ha⟩) st1 run.pend _ hR1 hs1 [] with
                    ⟨h1, h2⟩ | ⟨h1, st', h2, h3, hs'⟩
                  · simp only [List.append_nil] at h2
                    simp only [h1, if_true]
                    exact blockWrap_orStep_error env root xs h2
                  · simp only [List.append_nil, evalAndList] at h2
                    rw [h2]
                    simp only [h1, Bool.false_eq_true, if_false] at hcr ⊢
                    simp only [orStep]
                    have hne' : run.pend ++ as ≠ [] := by simp [hne]
                    obtain ⟨b1, b2, b3⟩ := blockWrap_matched h3 hne'
                    exact ⟨b1, b2, fun ho => by rw [b3]; exact hs' ho⟩
                · rw [hl] at hokas ⊢
                  have hallas : ∀ a ∈ as, isActionExpr a = true ∧ okTree L od a :=
                    fun a ha => ⟨hact a ha, hokas a (by simp [ha])⟩
                  rcases acts_eval hctx root as hallas st1 run.pend _ hR1 hs1 [xc] with
                    ⟨h1, h2⟩ | ⟨h1, st', h2, h3, hs'⟩
                  · simp only [h1, if_true]
                    exact blockWrap_orStep_error env root xs h2
                  · rw [h2, evalAndList_single]
                    simp only [h1, Bool.false_eq_true, if_false] at hcr ⊢
                    rcases isCtlExpr_spec hcx with ⟨rfl, lp, rfl⟩ | ⟨rfl, lb, rfl⟩
                    · rw [eval_pass]
                      simp only [orStep]
                      dsimp only at hcr ⊢
                      have hR2 := h3.marker_pass hctx.hL lp 0
                      exact ih rest' hrest xs hxs hokxs nested outerPass start true _ _ hroot (by simpa using hR2) hs' hcr
                    · rw [eval_brk]
                      simp only [orStep]
                      rw [blockWrap_break h3 lb 0 _ (by decide)]
                      refine ⟨rfl, fun hn => ?_⟩
                      subst hn
                      simp only [Bool.true_and, Bool.or_eq_false_iff] at hcr
                      have hps : passSeen = false := hcr.2
                      subst hps
                      exact ⟨by simpa using h3, hs'⟩
            · -- a rule with a nested block
              obtain ⟨hokc, hokb⟩ := okTree_mtch hokx
              have hoke := okTree_block hokb
              obtain ⟨st1, hR1, hs1, hev⟩ := rule_cond hctx root f lno c (.block l e) hc hokc.1 hokc.2.2.2.1 st hR hs
              rw [hev]
              rw [evalRules] at hcr ⊢
              cases hcv : condVal (valOf env root f) c with
              | error => exact blockWrap_orStep_error env root xs rfl
              | «nomatch» =>
                simp only [hcv] at hcr ⊢
                simp only [orStep]
                exact ih rest' hrest xs hxs hokxs _ _ _ _ _ st1 hroot hR1 hs1 hcr
              | «match» =>
                simp only [hcv] at hcr ⊢
                rw [eval_block, eval_orChain]
                have hrs' : sizeOf rs' < n := by
                  simp only [List.cons.sizeOf_spec, Rule.blk.sizeOf_spec] at hsz; omega
                have hpa' := parseRules_orChain e rs' hpr
                have hok' := okTree_orChain e hoke
                have hR1' : Rel L st1.ml run.pend ((outerPass || passSeen) || false) := by simpa using hR1
                rcases hin : evalRules (valOf env root f) actErr true (outerPass || passSeen) run.pend.length rs' false run
                  with ⟨b, run1⟩
                rw [hin] at hcr
                have hcr1 : (evalRules (valOf env root f) actErr true (outerPass || passSeen) run.pend.length rs' false
                    run).2.crosses = false := by
                  rw [hin]
                  cases b
                  · exact hcr
                  · exact hcr
                  · exact crosses_mono _ _ (sizeOf rest' + 1) rest' (Nat.lt_succ_self _) _ _ _ _ _ hcr
                  · exact crosses_mono _ _ (sizeOf rest' + 1) rest' (Nat.lt_succ_self _) _ _ _ _ _ hcr
                have hpost := ih rs' hrs' (orChain e) hpa' hok' true (outerPass || passSeen) run.pend.length false run st1
                  (by intro h; cases h) hR1' hs1 hcr1
                rw [hin] at hpost
                generalize blockWrap (evalOrList env root (orChain e) st1) = r' at hpost
                rcases r' with ⟨t, s⟩
                cases b with
                | err => exact blockWrap_orStep_error env root xs hpost
                | matched =>
                  obtain ⟨h1, h2, h4⟩ := hpost
                  simp only at h1 h2 h4
                  subst h1
                  simp only [orStep]
                  rw [blockWrap_plain h2 _ (by decide)]
                  exact ⟨rfl, h2, h4⟩
                | «nomatch» =>
                  obtain ⟨h1, h2⟩ := hpost
                  have h3 := h2 rfl
                  simp only at h1 h3
                  subst h1
                  simp only [orStep]
                  exact ih rest' hrest xs hxs hokxs nested outerPass start passSeen run1 s hroot h3.1 h3.2 hcr
                | broke =>
                  obtain ⟨h1, h2⟩ := hpost
                  have h3 := h2 rfl
                  simp only at h1 h3
                  subst h1
                  simp only [orStep]
                  exact ih rest' hrest xs hxs hokxs nested outerPass start passSeen run1 s hroot h3.1 h3.2 hcr

end Mdsort.Proofs
