import Mdsort.Proofs.WorldWholeWalk
import Mdsort.Proofs.WorldWholeSyntax
import Mdsort.Proofs.WorldSingleEx

/-!
# Whole-run loss-freedom: a decidable check of the registry, and a two-message example

Maildir `/m` with `new/1.h` = `A: b\n\nx` and `new/2.h` = `A: c\n\ny`; the configuration
`maildir "/m" { match all flag "cur" label "x" }` (no discard).
-/

namespace Mdsort.Proofs
open Mdsort Mdsort.Model

/-- Decidable form of `WholeReg`: every entry of the registry is bound, below `nextFid`, to a file
whose visible and durable content is the registered content. -/
def wholeRegOk (w : World) (files : Files) : Bool :=
  files.all fun e =>
    match w.lookup e.1 e.2.1 with
    | some fid => decide (fid < w.nextFid) && decide (w.file fid = some ⟨e.2.2, e.2.2⟩)
    | none => false

theorem whole_reg_of_ok {w : World} {files : Files} (h : wholeRegOk w files = true) : WholeReg w files := by
  intro dir name c hc
  unfold Files.get at hc
  simp only [Option.map_eq_some_iff] at hc
  obtain ⟨e, he, rfl⟩ := hc
  have hmem := List.mem_of_find?_eq_some he
  have hp := List.find?_some he
  simp only [Bool.and_eq_true, beq_iff_eq] at hp
  unfold wholeRegOk at h
  rw [List.all_eq_true] at h
  have hthis := h e hmem
  rw [hp.1, hp.2] at hthis
  split at hthis
  · rename_i fid hl
    simp only [Bool.and_eq_true, decide_eq_true_eq] at hthis
    exact ⟨fid, hl, hthis.1, hthis.2⟩
  · cases hthis

def wholeExOrig2 : Bytes := [65, 58, 32, 99, 10, 10, 121]
def wholeExName2 : Bytes := [50, 46, 104]

/-- The world before `main` starts: the two messages in `/m/new`, `/m/cur` empty, no descriptor open
beyond 0-2. -/
def wholeExWorld : World :=
  { dirs := [(exNew, [(exName, 0), (wholeExName2, 1)]), (exCur, [])],
    files := [(0, ⟨exOrig, exOrig⟩), (1, ⟨wholeExOrig2, wholeExOrig2⟩)], nextFid := 2,
    handles := [.other, .other, .other], devs := [], trace := [] }

/-- The same with `/m/new` open at handle 3 (the situation at the start of the walk). -/
def wholeExWorldW : World := { wholeExWorld with handles := [.other, .other, .other, .dir exNew none 0] }

def wholeExFiles : Files := [(exNew, exName, exOrig), (exNew, wholeExName2, wholeExOrig2)]

/-- `match all flag "cur" label "x"`. -/
def wholeExExpr : Expr := .mtch 1 (.all 1) (.and 1 (.flag 1 [99, 117, 114]) (.label 1 [[120]]))

def wholeExConf : List ConfBlock := [{ paths := [[47, 109]], expr := wholeExExpr }]

def wholeExOrc : EvalOracles := { rx := fun _ _ => .nomatch, strptime := fun _ => none, zoneName := fun _ => none }

def wholeExSt : MainSt := { files := wholeExFiles, error := false, reject := false, log := [] }

theorem wholeEx_reg : WholeReg wholeExWorld wholeExFiles := whole_reg_of_ok (by decide)

theorem wholeEx_regW : WholeReg wholeExWorldW wholeExSt.files := whole_reg_of_ok (by decide)

theorem wholeEx_mdOk : WholeMdOk wholeExWorldW exMd := by
  refine ⟨?_, by decide⟩
  intro d hd
  cases hd
  decide

theorem wholeEx_nd : ∀ b ∈ wholeExConf, WholeNoDiscard exEnv wholeExOrc b.expr := by
  intro b hb
  simp only [wholeExConf, List.mem_singleton] at hb
  subst hb
  exact whole_noDiscard_of_syntax _ _ _ (by decide)

/-- The hypotheses of `start_of_parse` for the first message of the example. -/
theorem wholeEx_clean : WholeClean wholeExWorldW := by
  refine ⟨?_, ?_, ?_, ?_⟩
  · intro h fid off
    rcases h with _ | _ | _ | _ | h <;> simp [World.obj, wholeExWorldW, wholeExWorld]
  · intro h fid buf
    rcases h with _ | _ | _ | _ | h <;> simp [World.obj, wholeExWorldW, wholeExWorld]
  · intro p hp
    simp only [wholeExWorldW, wholeExWorld, List.mem_cons, List.not_mem_nil, or_false] at hp
    rcases hp with rfl | rfl <;> decide
  · intro d es h
    simp only [World.dir, wholeExWorldW, wholeExWorld, List.find?] at h
    split at h
    · simp only [Option.map_some, Option.some.injEq] at h
      subst h
      decide
    · split at h
      · simp only [Option.map_some, Option.some.injEq] at h
        subst h
        decide
      · simp at h

end Mdsort.Proofs
