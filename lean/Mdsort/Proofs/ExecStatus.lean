import Mdsort.Proofs.GenBridge
import Mdsort.Proofs.WorldOwn
import Mdsort.Proofs.EvalList

/-!
# The status of a child: `exec()` (util.c), the `command` condition (expr.c) and the `exec` action (match.c)

* `Model.execStatus` is the tail of `exec()` on the raw wait status (`WIFEXITED` / `WEXITSTATUS` / 127 -> -1 /
  `WIFSIGNALED` -> 128 + signal); this file characterises its sign for EVERY wait status.
* `expr_eval_command` maps the value of `exec()`: `0` match, `< 0` error, `> 0` no match (`commandTri`); `eval_command`
  shows that this is exactly what `Model.eval` computes for a `command` node.
* `matches_exec` treats every non-zero value of `exec()` as an error of the message; `execOne_bad_child` shows it on the
  trace of calls (arbitrary call results), also when the command reads the message / the body / a part on standard input.
-/

namespace Mdsort.Proofs
set_option linter.unusedSimpArgs false

open Mdsort Mdsort.Model
open Mdsort.Proofs.World (bind_eq pure_eq ret_bind call_bind' call_bind bind_assoc Calls All)
open Mdsort.Proofs.Own

/-! ## the wait status -/

/-- How a wait status reads (`<sys/wait.h>`): exited with a code, killed by a signal, or stopped (the latter is
never reported by `waitpid(pid, &status, 0)`). -/
inductive WaitKind where
  | exited (code : Nat)
  | signaled (sig : Nat)
  | stopped
deriving Repr, DecidableEq

def waitKind (status : Nat) : WaitKind :=
  if wifexited status then .exited (wexitstatus status)
  else if wifsignaled status then .signaled (wtermsig status)
  else .stopped

theorem waitKind_exited_lt {s c : Nat} (h : waitKind s = .exited c) : c < 256 := by
  unfold waitKind at h
  split at h
  · injection h with h; subst h; unfold wexitstatus; omega
  · split at h <;> cases h

theorem waitKind_signaled_range {s g : Nat} (h : waitKind s = .signaled g) : 1 ≤ g ∧ g ≤ 126 := by
  unfold waitKind at h
  split at h
  · cases h
  · rename_i hne
    split at h
    · rename_i hs
      injection h with h; subst h
      simp only [wifexited, wifsignaled, wtermsig, beq_iff_eq, bne_iff_ne, Bool.and_eq_true, ne_eq] at hne hs ⊢
      omega
    · cases h

/-- `exec()`'s value in terms of how the status reads. -/
theorem execStatus_kind (s : Nat) :
    execStatus s =
      match waitKind s with
      | .exited c => if c = 127 then -1 else (c : Int)
      | .signaled g => ((128 + g : Nat) : Int)
      | .stopped => 1 := by
  unfold execStatus waitKind
  by_cases he : wifexited s = true
  · have hs : wifsignaled s = false := by
      simp only [wifexited, wifsignaled, beq_iff_eq] at he ⊢
      simp [he]
    simp only [he, hs, if_true, Bool.false_eq_true, if_false, beq_iff_eq, Gen_execFatalExit_eq, Gen_execFatalValue_eq]
  · have he' : wifexited s = false := by simpa using he
    by_cases hs : wifsignaled s = true
    · simp only [he', hs, if_true, Bool.false_eq_true, if_false, Gen_execSignalBase_eq]
    · have hs' : wifsignaled s = false := by simpa using hs
      simp only [he', hs', Bool.false_eq_true, if_false, Gen_execInitialValue_eq]

/-- `exec()` returns 0 exactly for a child that exited with status 0. -/
theorem execStatus_eq_zero_iff (s : Nat) : execStatus s = 0 ↔ waitKind s = .exited 0 := by
  rw [execStatus_kind]
  cases h : waitKind s with
  | exited c =>
    simp only [WaitKind.exited.injEq]
    by_cases hc : c = 127
    · subst hc; simp
    · simp only [hc, if_false]; omega
  | signaled g => simp only [reduceCtorEq, iff_false]; omega
  | stopped => simp

/-- `exec()` returns a negative value (fatal) exactly for a child that exited with 127 (`execvp` failed). -/
theorem execStatus_neg_iff (s : Nat) : execStatus s < 0 ↔ waitKind s = .exited 127 := by
  rw [execStatus_kind]
  cases h : waitKind s with
  | exited c =>
    simp only [WaitKind.exited.injEq]
    by_cases hc : c = 127
    · subst hc; simp
    · simp only [hc, if_false, iff_false]; omega
  | signaled g => simp only [reduceCtorEq, iff_false]; omega
  | stopped => simp

/-- `exec()` returns a positive value exactly for: exit codes 1..126 and 128..255, death by a signal, (stopped). -/
theorem execStatus_pos_iff (s : Nat) :
    0 < execStatus s ↔
      (∃ c, waitKind s = .exited c ∧ c ≠ 0 ∧ c ≠ 127) ∨ (∃ g, waitKind s = .signaled g) ∨ waitKind s = .stopped := by
  rw [execStatus_kind]
  cases h : waitKind s with
  | exited c =>
    simp only [WaitKind.exited.injEq, reduceCtorEq, exists_false, or_false, exists_eq_left']
    by_cases hc : c = 127
    · subst hc; simp
    · simp only [hc, if_false, ne_eq, not_false_eq_true, and_true]; omega
  | signaled g =>
    simp only [reduceCtorEq, false_and, exists_false, WaitKind.signaled.injEq, exists_eq', true_or, or_true, iff_true]
    omega
  | stopped => simp

/-- The value for a signalled child is `128 + signal`, in 129..254. -/
theorem execStatus_signaled {s g : Nat} (h : waitKind s = .signaled g) : execStatus s = ((128 + g : Nat) : Int) := by
  rw [execStatus_kind, h]

/-- The value for an exit code other than 127 is the code. -/
theorem execStatus_exited {s c : Nat} (h : waitKind s = .exited c) (hc : c ≠ 127) : execStatus s = (c : Int) := by
  rw [execStatus_kind, h]; simp [hc]

/-! ## `exec()` as a whole: /dev/null, fork, waitpid -/

/-- What the three results `exec()` consumes amount to. -/
inductive ChildOutcome where
  | cannotRun                      -- /dev/null cannot be opened, `fork` failed or `waitpid` failed
  | waited (k : WaitKind)
deriving Repr, DecidableEq

def childOutcome (devnullOk : Bool) (forkRes waitRes : Res) : ChildOutcome :=
  if !devnullOk then .cannotRun
  else match forkRes with
    | .ok _ =>
      match waitRes with
      | .ok status => .waited (waitKind status)
      | _ => .cannotRun
    | _ => .cannotRun

/-- The documented meaning of an outcome for the caller of `exec()`: `0` = ran and exited 0, negative = fatal (could not
be run: no /dev/null, no fork, no waitpid, or the child's `execvp` failed = exit 127), positive = ran and did not exit 0. -/
def outcomeValue : ChildOutcome → Int
  | .cannotRun => -1
  | .waited (.exited c) => if c = 127 then -1 else (c : Int)
  | .waited (.signaled g) => ((128 + g : Nat) : Int)
  | .waited .stopped => 1

theorem execValue_outcome (d : Bool) (f w : Res) : execValue d f w = outcomeValue (childOutcome d f w) := by
  unfold execValue childOutcome
  cases d
  · rfl
  · cases f <;> try rfl
    cases w <;> try rfl
    simp only [Bool.not_true, Bool.false_eq_true, if_false, execStatus_kind]
    cases waitKind _ <;> rfl

/-! ## the `command` condition -/

/-- `expr_eval_command`'s mapping of the value of `exec()`. -/
def commandTri (rc : Int) : Tri := if rc == 0 then .match else if rc < 0 then .error else .nomatch

/-- A `command` node: interpolate the strings against the match list, run the command, map its value; the match list
is left as it was (the temporary entry is removed again). -/
theorem eval_command (env : Env) (root : Msg) (lno : Nat) (argv : List Bytes) (part : Nat) (m : Msg) (st : St) :
    eval env root (.command lno argv) part m st =
      ((match argv.mapM (interpolate st.ml none) with
        | none => Tri.error
        | some av => commandTri (env.command av)), st) := by
  rw [eval, matchesAppend_plain env st.ml _ (by dsimp only; decide) (by dsimp only; decide)]
  simp only [List.dropLast_concat, Bool.false_eq_true, if_false]
  cases st
  rfl

theorem commandTri_match_iff (rc : Int) : commandTri rc = .match ↔ rc = 0 := by
  unfold commandTri
  by_cases h : rc = 0
  · simp [h]
  · by_cases h2 : rc < 0 <;> simp [h, h2]

theorem commandTri_error_iff (rc : Int) : commandTri rc = .error ↔ rc < 0 := by
  unfold commandTri
  by_cases h : rc = 0
  · simp [h]
  · by_cases h2 : rc < 0 <;> simp [h, h2]

theorem commandTri_nomatch_iff (rc : Int) : commandTri rc = .nomatch ↔ 0 < rc := by
  unfold commandTri
  by_cases h : rc = 0
  · simp [h]
  · by_cases h2 : rc < 0
    · simp only [beq_iff_eq, h, if_false, h2, if_true, reduceCtorEq, false_iff]; omega
    · simp only [beq_iff_eq, h, if_false, h2, true_iff]; omega

/-- The verdict of a `command` condition for every outcome of the child. -/
def outcomeTri : ChildOutcome → Tri
  | .cannotRun => .error
  | .waited (.exited c) => if c = 0 then .match else if c = 127 then .error else .nomatch
  | .waited (.signaled _) => .nomatch
  | .waited .stopped => .nomatch

theorem commandTri_outcome (o : ChildOutcome) : commandTri (outcomeValue o) = outcomeTri o := by
  cases o with
  | cannotRun => rfl
  | waited k =>
    cases k with
    | exited c =>
      unfold outcomeValue outcomeTri
      by_cases h0 : c = 0
      · subst h0; rfl
      · by_cases h1 : c = 127
        · subst h1; rfl
        · simp only [h0, h1, if_false]
          rw [commandTri_nomatch_iff]; omega
    | signaled g =>
      show commandTri ((128 + g : Nat) : Int) = .nomatch
      rw [commandTri_nomatch_iff]; omega
    | stopped => rfl

theorem outcomeTri_match_iff (o : ChildOutcome) : outcomeTri o = .match ↔ o = .waited (.exited 0) := by
  cases o with
  | cannotRun => simp [outcomeTri]
  | waited k =>
    cases k with
    | exited c =>
      unfold outcomeTri
      by_cases h0 : c = 0
      · subst h0; simp
      · by_cases h1 : c = 127 <;> simp [h0, h1]
    | signaled g => simp [outcomeTri]
    | stopped => simp [outcomeTri]

theorem outcomeTri_error_iff (o : ChildOutcome) : outcomeTri o = .error ↔ o = .cannotRun ∨ o = .waited (.exited 127) := by
  cases o with
  | cannotRun => simp [outcomeTri]
  | waited k =>
    cases k with
    | exited c =>
      unfold outcomeTri
      by_cases h0 : c = 0
      · subst h0; simp
      · by_cases h1 : c = 127 <;> simp [h0, h1]
    | signaled g => simp [outcomeTri]
    | stopped => simp [outcomeTri]

theorem outcomeTri_nomatch_iff (o : ChildOutcome) :
    outcomeTri o = .nomatch ↔
      (∃ c, o = .waited (.exited c) ∧ c ≠ 0 ∧ c ≠ 127) ∨ (∃ g, o = .waited (.signaled g)) ∨ o = .waited .stopped := by
  cases o with
  | cannotRun => simp [outcomeTri]
  | waited k =>
    cases k with
    | exited c =>
      unfold outcomeTri
      by_cases h0 : c = 0
      · subst h0; simp
      · by_cases h1 : c = 127 <;> simp [h0, h1]
    | signaled g => simp [outcomeTri]
    | stopped => simp [outcomeTri]

/-- Reading `childOutcome`: the child was waited for exactly when /dev/null could be opened, `fork` returned a pid and
`waitpid` a status. -/
theorem childOutcome_waited_iff (d : Bool) (f w : Res) (k : WaitKind) :
    childOutcome d f w = .waited k ↔ d = true ∧ ∃ pid s, f = .ok pid ∧ w = .ok s ∧ waitKind s = k := by
  unfold childOutcome
  cases d
  · simp
  · cases f <;> simp
    cases w <;> simp

theorem childOutcome_cannotRun_iff (d : Bool) (f w : Res) :
    childOutcome d f w = .cannotRun ↔ d = false ∨ (∀ pid, f ≠ .ok pid) ∨ (∀ s, w ≠ .ok s) := by
  unfold childOutcome
  cases d
  · simp
  · cases f <;> simp
    cases w <;> simp

/-- The value of `exec(argv, -1)` under arbitrary call results: the three results it consumes are those of the calls
number 0, 1 and 2. -/
theorem execP_none_value (argv : List Bytes) (orc : Nat → Call → Res) :
    (runOracle orc (execP argv none) 0 []).1 =
      execValue (match orc 0 (.openPath (ofString "/dev/null")) with | .ok _ => true | _ => false)
        (orc 1 (.fork argv (Own.okHandle (orc 0 (.openPath (ofString "/dev/null")))))) (orc 2 .waitpid) := by
  rw [runOracle_eq, Own.execP_run]
  dsimp only
  cases orc 0 (.openPath (ofString "/dev/null")) <;> rfl

/-! ## the `exec` action: a child that did not exit 0 is an error of the message (trace level, arbitrary results) -/

/-- A result of `fork` that is not a pid. -/
def forkFailed (r : Res) : Prop := ∀ v, r ≠ .ok v

/-- A result of `waitpid` that is not "the child exited with status 0": `waitpid` failed, or the status says the child
exited with a non-zero code (1..255, 127 included) or was killed by a signal. -/
def waitBad (r : Res) : Prop := ∀ s, r = .ok s → waitKind s ≠ .exited 0

/-- Somewhere in the trace a `fork` failed or a `waitpid` reported anything but "exited 0". -/
def BadChild (tr : Trace) : Prop :=
  (∃ c r, (c, r) ∈ tr ∧ c.isFork = true ∧ forkFailed r) ∨ (∃ r, (Call.waitpid, r) ∈ tr ∧ waitBad r)

/-- Calls other than `fork` and `waitpid`. -/
def NoProc : Call → Prop
  | .fork .. | .waitpid => False
  | _ => True

theorem badChild_nil : ¬ BadChild [] := by
  rintro (⟨c, r, h, _⟩ | ⟨r, h, _⟩) <;> cases h

theorem badChild_snoc (tr : Trace) (c : Call) (r : Res) :
    BadChild (tr ++ [(c, r)]) ↔ BadChild tr ∨ (c.isFork = true ∧ forkFailed r) ∨ (c = .waitpid ∧ waitBad r) := by
  unfold BadChild
  simp only [List.mem_append, List.mem_singleton, Prod.mk.injEq]
  constructor
  · rintro (⟨c', r', (h | ⟨h1, h2⟩), hc, hf⟩ | ⟨r', (h | ⟨h1, h2⟩), hf⟩)
    · exact .inl (.inl ⟨c', r', h, hc, hf⟩)
    · subst h1 h2; exact .inr (.inl ⟨hc, hf⟩)
    · exact .inl (.inr ⟨r', h, hf⟩)
    · subst h1 h2; exact .inr (.inr ⟨rfl, hf⟩)
  · rintro ((⟨c', r', h, hc, hf⟩ | ⟨r', h, hf⟩) | ⟨hc, hf⟩ | ⟨rfl, hf⟩)
    · exact .inl ⟨c', r', .inl h, hc, hf⟩
    · exact .inr ⟨r', .inl h, hf⟩
    · exact .inl ⟨c, r, .inr ⟨rfl, rfl⟩, hc, hf⟩
    · exact .inr ⟨r, .inr ⟨rfl, rfl⟩, hf⟩

theorem NoProc.not_isFork {c : Call} (h : NoProc c) : c.isFork = false := by
  cases c <;> first | rfl | exact h.elim

theorem badChild_snoc_noproc {tr : Trace} {c : Call} (r : Res) (h : NoProc c) : BadChild (tr ++ [(c, r)]) ↔ BadChild tr := by
  rw [badChild_snoc]
  constructor
  · rintro (h' | ⟨hc, _⟩ | ⟨rfl, _⟩)
    · exact h'
    · rw [h.not_isFork] at hc; cases hc
    · exact h.elim
  · exact .inl

abbrev AnyRes : Call → Res → Prop := fun _ _ => True
abbrev AnyCall : Trace → Call → Prop := fun _ _ => True

/-- A program that neither forks nor waits leaves `BadChild` as it was. -/
theorem wp_noproc {α} {p : Prog α} (hc : Calls NoProc p) (tr : Trace) :
    wp AnyRes AnyCall p (fun _ tr' => BadChild tr' ↔ BadChild tr) tr := by
  induction p generalizing tr with
  | ret a => exact Iff.rfl
  | call c k ih =>
    refine ⟨trivial, fun r _ => wp_mono (ih r (hc.2 r) _) ?_⟩
    intro _ tr' h
    rw [h, badChild_snoc_noproc r hc.1]

macro "noproc_step" : tactic =>
  `(tactic| first
      | (with_reducible exact Calls.ret_intro _)
      | ((with_reducible show NoProc _); exact True.intro)
      | (with_reducible apply Calls.call_intro)
      | (intro _)
      | (with_reducible apply Calls.bind)
      | split
      | (dsimp only; split))

theorem noproc_hdrs (newfd : Handle) (hs : List Hdr) : Calls NoProc (messageWriteP.hdrs newfd hs) := by
  induction hs with
  | nil => unfold messageWriteP.hdrs; exact Calls.ret_intro _
  | cons h rest ih =>
    unfold messageWriteP.hdrs
    simp only [bind_eq, pure_eq, call_bind]
    repeat' (first | exact ih | noproc_step)

theorem noproc_messageWriteP (m : Msg) (fd : Handle) : Calls NoProc (messageWriteP m fd) := by
  unfold messageWriteP
  simp only [bind_eq, pure_eq, call_bind]
  repeat' (first | exact noproc_hdrs _ _ | noproc_step)

theorem noproc_writefd (tmpdir : Bytes) : Calls NoProc (writefd tmpdir) := by
  unfold writefd
  simp only [bind_eq, pure_eq, call_bind]
  repeat' noproc_step

theorem noproc_writeAll (fd : Handle) (fuel : Nat) (data : Bytes) : Calls NoProc (writeAll fd fuel data) := by
  induction fuel generalizing data with
  | zero => unfold writeAll; exact Calls.ret_intro _
  | succ fuel ih =>
    unfold writeAll
    simp only [bind_eq, pure_eq, call_bind]
    repeat' (first | exact ih _ | noproc_step)

/-- `message_get_fd` (the whole message, the decoded body or a re-serialised part in a temporary file) neither forks nor waits. -/
theorem noproc_messageGetFd (env : PEnv) (ms : MsgSt) (part : Option Msg) (dobody : Bool) :
    Calls NoProc (messageGetFd env ms part dobody) := by
  unfold messageGetFd
  simp only [bind_eq, pure_eq, call_bind]
  repeat' (first | exact noproc_writefd _ | exact noproc_writeAll _ _ _ | exact noproc_messageWriteP _ _ | noproc_step)

/-- `exec()`: if its `fork` fails, its `waitpid` fails or the status is anything but "exited 0", the value is not 0. -/
theorem wp_execP (argv : List Bytes) (fdin : Option Handle) (tr : Trace) :
    wp AnyRes AnyCall (execP argv fdin) (fun rc tr' => BadChild tr' → BadChild tr ∨ rc ≠ 0) tr := by
  unfold execP
  simp only [bind_eq, pure_eq, call_bind]
  refine wp_bind_mono (P := fun _ tr' => BadChild tr' ↔ BadChild tr) ?_ ?_
  · refine wp_noproc ?_ tr
    repeat' noproc_step
  · intro dn tr1 h1
    cases dn with
    | none => exact fun _ => .inr (by decide)
    | some devnull =>
      dsimp only
      refine ⟨trivial, fun r _ => ?_⟩
      -- the tail: close /dev/null if it was opened here
      have tail : ∀ (res : Int) (tr2 : Trace), (BadChild tr2 → BadChild tr ∨ res ≠ 0) →
          wp AnyRes AnyCall
            (match (generalizing := false) devnull with
              | some h => Prog.call (Call.close h) fun _ => Prog.ret res
              | none => Prog.ret res)
            (fun rc tr' => BadChild tr' → BadChild tr ∨ rc ≠ 0) tr2 := by
        intro res tr2 h2
        cases devnull with
        | none => exact h2
        | some h =>
          refine ⟨trivial, fun r3 _ => ?_⟩
          intro hb
          exact h2 ((badChild_snoc_noproc r3 (c := .close h) True.intro).1 hb)
      cases r with
      | ok v =>
        dsimp only
        refine ⟨trivial, fun w _ => ?_⟩
        have hfork : BadChild (tr1 ++ [(Call.fork argv (childStdin fdin devnull), Res.ok v)]) ↔ BadChild tr := by
          rw [badChild_snoc, ← h1]
          constructor
          · rintro (h | ⟨_, hf⟩ | ⟨hc, _⟩)
            · exact h
            · exact absurd rfl (hf v)
            · cases hc
          · exact .inl
        cases w with
        | ok s =>
          refine tail (execStatus s) _ ?_
          intro hb
          rw [badChild_snoc, hfork] at hb
          rcases hb with hb | ⟨hc, _⟩ | ⟨_, hw⟩
          · exact .inl hb
          · cases hc
          · refine .inr ?_
            intro h0
            exact hw s rfl ((execStatus_eq_zero_iff s).1 h0)
        | name n => exact tail (-1) _ fun _ => .inr (by decide)
        | eof => exact tail (-1) _ fun _ => .inr (by decide)
        | err e => exact tail (-1) _ fun _ => .inr (by decide)
      | name n => exact tail (-1) _ fun _ => .inr (by decide)
      | eof => exact tail (-1) _ fun _ => .inr (by decide)
      | err e => exact tail (-1) _ fun _ => .inr (by decide)

/-- One `exec` entry of `matches_exec`, with or without `stdin` / `stdin body`, for the message or a part: a failed `fork`,
a failed `waitpid` or a wait status other than "exited 0" makes the entry an error. -/
theorem wp_execOne_exec (env : PEnv) (mh : Match) (st : ExecSt) (hty : mh.ty = .exec) (tr : Trace) :
    wp AnyRes AnyCall (execOne env mh st) (fun x tr' => BadChild tr' → BadChild tr ∨ x.2 = true) tr := by
  unfold execOne
  simp only [hty, bind_eq, pure_eq, call_bind]
  refine wp_bind_mono (P := fun _ tr' => BadChild tr' ↔ BadChild tr) ?_ ?_
  · refine wp_noproc ?_ tr
    repeat' (first | exact noproc_messageGetFd _ _ _ _ | noproc_step)
  · intro fdr tr1 h1
    cases fdr with
    | none => exact fun _ => .inr rfl
    | some fd =>
      dsimp only
      refine wp_bind_mono (wp_execP _ fd tr1) ?_
      intro rc tr2 h2
      have fin : ∀ tr3 : Trace, (BadChild tr3 → BadChild tr2) → BadChild tr3 → BadChild tr ∨ (rc != 0) = true := by
        intro tr3 h3 hb
        rcases h2 (h3 hb) with h | h
        · exact .inl (h1.1 h)
        · exact .inr (by simpa using h)
      cases fd with
      | none => exact fin tr2 id
      | some h =>
        refine ⟨trivial, fun r3 _ => ?_⟩
        exact fin _ (badChild_snoc_noproc r3 (c := .close h) True.intro).1

/-- Whatever the calls return: if, while an `exec` entry is executed, `fork` fails, `waitpid` fails, or the wait status is
anything but "exited with 0" (a non-zero exit code - 127 included - or death by a signal), the entry reports an error. -/
theorem execOne_bad_child (env : PEnv) (mh : Match) (st : ExecSt) (orc : Nat → Call → Res) (hty : mh.ty = .exec)
    (hb : BadChild (runOracle orc (execOne env mh st) 0 []).2) :
    (runOracle orc (execOne env mh st) 0 []).1.2 = true := by
  have h := (wp_sound (R := AnyRes) orc (fun _ _ => True.intro) (wp_execOne_exec env mh st hty []) 0).1
  rcases h hb with h | h
  · exact absurd h badChild_nil
  · exact h

end Mdsort.Proofs
