import Mdsort.Proofs.WorldFrame

/-!
# Frame: what the mutating calls of one message's processing may mention

`OwnI` (WorldOwnScripts) covers `unlinkat` and `renameat`.  `AuxI` covers the remaining mutating
calls: `utimensat` only on a name the run created, `write`/`fprintf` only on a descriptor the run
created (exclusive create, `mkostemp`, or a duplicate of one of these), `unlink` only of a temporary
file the run created, and never `mkdtemp`, `mkdir`, `rmdir` (nor `readdir`).  `Framed` is the
conjunction, in readable form.
-/

namespace Mdsort.Proofs
open Mdsort Mdsort.Model

/-- One step of `ownFds`. -/
def fdStep (acc : List Handle) : Call × Res → List Handle
  | (.openExcl _ _, .ok h) => h :: acc
  | (.mkostemp _, .ok h) => h :: acc
  | (.dupfd fd, .ok h) => if fd ∈ acc then h :: acc else acc
  | _ => acc

/-- Descriptors of files this run created: results of a successful exclusive create or `mkostemp`,
and duplicates of such descriptors. -/
def ownFds (tr : List (Call × Res)) : List Handle := tr.foldl fdStep []

/-- Templates of the temporary files this run created with `mkostemp`. -/
def tempPaths (tr : List (Call × Res)) : List Bytes :=
  tr.filterMap fun
    | (.mkostemp t, .ok _) => some t
    | _ => none

/-- The frame condition on a call issued when the trace is `tr`, for the message named `src`:
names that existed before the run are mentioned by `unlinkat`/`renameat` only, and only `src`. -/
def Framed (src : Bytes) (tr : List (Call × Res)) : Call → Prop
  | .unlinkat _ n => n ∈ src :: createdNames tr
  | .renameat _ n1 _ n2 => n1 ∈ src :: createdNames tr ∧ n2 ∈ createdNames tr
  | .utimensat _ n _ _ => n ∈ createdNames tr
  | .write fd _ => fd ∈ ownFds tr
  | .fprintf fd _ => fd ∈ ownFds tr
  | .unlink p => p ∈ tempPaths tr
  | .mkdtemp _ => False
  | .mkdir _ => False
  | .rmdir _ => False
  | .readdir _ => False
  | _ => True          -- `openExcl` (creates a fresh name or fails), `mkostemp`, and the calls that change nothing

end Mdsort.Proofs

namespace Mdsort.Proofs.Own
open Mdsort Mdsort.Model Mdsort.Proofs
open Mdsort.Proofs.World (bind_eq pure_eq ret_bind call_bind' call_bind bind_assoc Calls All)

/-! ## owned descriptors and temporary files -/

theorem fdStep_mono {acc : List Handle} {x : Call × Res} {h : Handle} (hm : h ∈ acc) : h ∈ fdStep acc x := by
  unfold fdStep
  split
  · exact List.mem_cons_of_mem _ hm
  · exact List.mem_cons_of_mem _ hm
  · split
    · exact List.mem_cons_of_mem _ hm
    · exact hm
  · exact hm

theorem foldl_fdStep_mono (L : Trace) : ∀ (acc : List Handle) (h : Handle), h ∈ acc → h ∈ L.foldl fdStep acc := by
  induction L with
  | nil => intro acc h hm; exact hm
  | cons x L ih => intro acc h hm; exact ih _ _ (fdStep_mono hm)

theorem ownFds_append (tr L : Trace) : ownFds (tr ++ L) = L.foldl fdStep (ownFds tr) := by
  unfold ownFds
  rw [List.foldl_append]

theorem ownFds_snoc {tr : Trace} {h : Handle} (L : Trace) (hm : h ∈ ownFds tr) : h ∈ ownFds (tr ++ L) := by
  rw [ownFds_append]
  exact foldl_fdStep_mono L _ _ hm

theorem ownFds_excl (tr : Trace) (d : Handle) (n : Bytes) (h : Handle) : h ∈ ownFds (tr ++ [(.openExcl d n, .ok h)]) := by
  rw [ownFds_append]
  simp [fdStep]

theorem ownFds_mkostemp (tr : Trace) (t : Bytes) (h : Handle) : h ∈ ownFds (tr ++ [(.mkostemp t, .ok h)]) := by
  rw [ownFds_append]
  simp [fdStep]

theorem ownFds_dup {tr : Trace} {fd : Handle} (h : Handle) (hm : fd ∈ ownFds tr) :
    h ∈ ownFds (tr ++ [(.dupfd fd, .ok h)]) := by
  rw [ownFds_append]
  simp [fdStep, hm]

theorem tempPaths_append (a b : Trace) : tempPaths (a ++ b) = tempPaths a ++ tempPaths b := by
  simp [tempPaths, List.filterMap_append]

theorem temp_snoc {tr : Trace} {p : Bytes} (L : Trace) (h : p ∈ tempPaths tr) : p ∈ tempPaths (tr ++ L) := by
  rw [tempPaths_append]; exact List.mem_append_left _ h

theorem temp_new (tr : Trace) (t : Bytes) (h : Handle) : t ∈ tempPaths (tr ++ [(.mkostemp t, .ok h)]) := by
  rw [tempPaths_append]; exact List.mem_append_right _ (by simp [tempPaths])

/-- Transport `∈ ownFds` along extensions of the trace. -/
syntax "fdown" : tactic
macro_rules
  | `(tactic| fdown) => `(tactic| first | assumption | (apply ownFds_snoc; fdown))

/-! ## the auxiliary invariant -/

/-- The condition on the mutating calls other than `unlinkat`/`renameat`. -/
def AuxI (tr : Trace) : Call → Prop
  | .utimensat _ n _ _ => n ∈ createdNames tr
  | .write fd _ => fd ∈ ownFds tr
  | .fprintf fd _ => fd ∈ ownFds tr
  | .unlink p => p ∈ tempPaths tr
  | .mkdtemp _ => False
  | .mkdir _ => False
  | .rmdir _ => False
  | .readdir _ => False
  | _ => True

/-- Calls on which `AuxI` holds whatever the trace. -/
def Calm : Call → Prop
  | .utimensat .. | .write .. | .fprintf .. | .unlink .. | .mkdtemp .. | .mkdir .. | .rmdir .. | .readdir .. => False
  | _ => True

theorem Calm.auxI {c : Call} (h : Calm c) (tr : Trace) : AuxI tr c := by
  cases c <;> first | exact h.elim | exact True.intro

theorem calm_auxI (tr : Trace) (c : Call) (h : Calm c) : AuxI tr c := h.auxI tr

theorem framed_of {src : Bytes} {tr : Trace} {c : Call} (h1 : OwnI src tr c) (h2 : AuxI tr c) : Framed src tr c := by
  cases c <;> first | exact h2 | exact True.intro | exact h1.1 _ _ rfl | exact h1.2 _ _ _ _ rfl

macro "calm_step" : tactic =>
  `(tactic| first
      | (with_reducible exact Calls.ret_intro _)
      | ((with_reducible show Calm _); exact True.intro)
      | (with_reducible apply Calls.call_intro)
      | (intro _)
      | (with_reducible apply Calls.bind)
      | split
      | (dsimp only; split))

variable {R : Call → Res → Prop}

theorem wp_calm {α} {p : Prog α} (hc : Calls Calm p) (tr : Trace) : wp R AuxI p (fun _ _ => True) tr :=
  wp_calls (fun tr _ h => h.auxI tr) hc (All.trivial p) tr

theorem wp_and {α} {I1 I2 : Trace → Call → Prop} {p : Prog α} {Q1 Q2 : α → Trace → Prop} {tr : Trace}
    (h1 : wp R I1 p Q1 tr) (h2 : wp R I2 p Q2 tr) :
    wp R (fun tr c => I1 tr c ∧ I2 tr c) p (fun a tr' => Q1 a tr' ∧ Q2 a tr') tr := by
  induction p generalizing tr with
  | ret a => exact ⟨h1, h2⟩
  | call c k ih => exact ⟨⟨h1.1, h2.1⟩, fun r hr => ih r (h1.2 r hr) (h2.2 r hr)⟩

theorem wp_weaken {α} {I I' : Trace → Call → Prop} (hI : ∀ tr c, I tr c → I' tr c) {p : Prog α} {Q : α → Trace → Prop}
    {tr : Trace} (h : wp R I p Q tr) : wp R I' p Q tr := by
  induction p generalizing tr with
  | ret a => exact h
  | call c k ih => exact ⟨hI _ _ h.1, fun r hr => ih r (h.2 r hr)⟩

/-! ## calm scripts -/

theorem calm_maildirClose (md : Maildir) : Calls Calm (maildirClose md) := by
  unfold maildirClose
  simp only [bind_eq, pure_eq, call_bind]
  repeat' calm_step

theorem calm_maildirOpendir (md : Maildir) (path : Bytes) : Calls Calm (maildirOpendir md path) := by
  unfold maildirOpendir
  simp only [bind_eq, pure_eq, call_bind]
  repeat' calm_step

theorem calm_maildirOpenDst (path : Bytes) : Calls Calm (maildirOpenDst path) := by
  unfold maildirOpenDst
  simp only [bind_eq, pure_eq]
  repeat' (first | exact calm_maildirOpendir _ _ | calm_step)

theorem calm_messageSetFile (ms : MsgSt) (dir name : Bytes) (fd : Option Handle) : Calls Calm (messageSetFile ms dir name fd) := by
  unfold messageSetFile
  simp only [bind_eq, pure_eq, call_bind]
  repeat' calm_step

theorem calm_messageSetFileMoved (ms : MsgSt) (s d : Subdir) (dir name : Bytes) : Calls Calm (messageSetFileMoved ms s d dir name) := by
  unfold messageSetFileMoved
  simp only [bind_eq, pure_eq, call_bind]
  repeat' calm_step

theorem calm_maildirUnlink (md : Maildir) (name : Bytes) : Calls Calm (maildirUnlink md name) := by
  unfold maildirUnlink
  simp only [bind_eq, pure_eq, call_bind]
  repeat' calm_step

theorem calm_execP (argv : List Bytes) (fdin : Option Handle) : Calls Calm (execP argv fdin) := by
  unfold execP
  simp only [bind_eq, pure_eq, call_bind]
  repeat' calm_step

theorem calm_readAll (fd : Handle) (fuel : Nat) : Calls Calm (readAll fd fuel) := by
  induction fuel with
  | zero => exact Calls.ret_intro _
  | succ n ih =>
    unfold readAll
    simp only [bind_eq, pure_eq, call_bind]
    repeat' (first | exact ih | calm_step)

theorem calm_messageParseP (d : Handle) (dir name content : Bytes) : Calls Calm (messageParseP d dir name content) := by
  unfold messageParseP
  simp only [bind_eq, pure_eq, call_bind]
  repeat' (first | exact calm_readAll _ _ | calm_step)

theorem calm_freeP (ms : MsgSt) : Calls Calm (freeP ms) := by
  unfold freeP
  simp only [call_bind]
  repeat' calm_step

/-! ## scripts that write, touch or create -/

theorem aux_genname (env : PEnv) (md : Maildir) (flags : Option Bytes) (fuel count : Nat) (tr : Trace) :
    wp R AuxI (genname env md flags fuel count)
      (fun res tr' => ∀ h name, res = some (h, name) → name ∈ createdNames tr' ∧ h ∈ ownFds tr') tr := by
  induction fuel generalizing count tr with
  | zero => unfold genname; intro _ _ h; cases h
  | succ fuel ih =>
    unfold genname
    simp only [bind_eq, pure_eq, call_bind]
    generalize (decimalInt env.now ++ [46] ++ decimal env.pid ++ [95] ++ decimal ((count + 1) % gennameWrap) ++ [46] ++ env.host ++
          flags.getD []) = nm
    split
    · intro _ _ h; cases h
    split
    · intro _ _ h; cases h
    rename_i d hd
    refine wp_call (calm_auxI _ _ True.intro) fun r _ => ?_
    cases r with
    | ok h =>
      intro h' name e
      cases e
      exact ⟨created_new _ _ _ _, ownFds_excl _ _ _ _⟩
    | err e =>
      dsimp only
      split
      · exact ih _ _
      · intro _ _ h; cases h
    | name n => intro _ _ h; cases h
    | eof => intro _ _ h; cases h

theorem aux_hdrs (newfd : Handle) (hs : List Hdr) (tr : Trace) (h : newfd ∈ ownFds tr) :
    wp R AuxI (messageWriteP.hdrs newfd hs) (fun _ _ => True) tr := by
  induction hs generalizing tr with
  | nil => unfold messageWriteP.hdrs; exact True.intro
  | cons x rest ih =>
    unfold messageWriteP.hdrs
    simp only [bind_eq, pure_eq, call_bind]
    refine wp_call h fun r _ => ?_
    split
    · exact ih _ (by fdown)
    · exact True.intro

theorem aux_messageWriteP (m : Msg) (fd : Handle) (tr : Trace) (h : fd ∈ ownFds tr) :
    wp R AuxI (messageWriteP m fd) (fun _ _ => True) tr := by
  unfold messageWriteP
  simp only [bind_eq, pure_eq, call_bind]
  refine wp_call (calm_auxI _ _ True.intro) fun r _ => ?_
  cases r with
  | ok newfd =>
    dsimp only
    have hn : newfd ∈ ownFds (tr ++ [(Call.dupfd fd, Res.ok newfd)]) := ownFds_dup _ h
    generalize tr ++ [(Call.dupfd fd, Res.ok newfd)] = T at hn ⊢
    refine wp_call (calm_auxI _ _ True.intro) fun r2 _ => ?_
    split
    · exact wp_call (calm_auxI _ _ True.intro) fun _ _ => True.intro
    · refine wp_bind_ext (aux_hdrs newfd _ _ (by fdown)) ?_
      intro herr L _
      refine wp_bind_ext (P := fun _ _ => True) ?_ ?_
      · split
        · exact True.intro
        · refine wp_call (show newfd ∈ ownFds _ by fdown) fun r3 _ => ?_
          split
          · exact True.intro
          · refine wp_call (calm_auxI _ _ True.intro) fun r4 _ => ?_
            split
            · exact True.intro
            · exact wp_call (calm_auxI _ _ True.intro) fun _ _ => True.intro
      · intro err1 L2 _
        exact wp_call (calm_auxI _ _ True.intro) fun _ _ => True.intro
  | err e => exact True.intro
  | name n => exact True.intro
  | eof => exact True.intro

theorem aux_writeAll (fd : Handle) (fuel : Nat) (data : Bytes) (tr : Trace) (h : fd ∈ ownFds tr) :
    wp R AuxI (writeAll fd fuel data) (fun _ _ => True) tr := by
  induction fuel generalizing data tr with
  | zero => unfold writeAll; exact True.intro
  | succ fuel ih =>
    unfold writeAll
    simp only [bind_eq, pure_eq, call_bind]
    split
    · exact True.intro
    · refine wp_call h fun r _ => ?_
      split
      · split
        · exact True.intro
        · exact ih _ _ (by fdown)
      · exact True.intro

theorem aux_writefd (tmpdir : Bytes) (tr : Trace) :
    wp R AuxI (writefd tmpdir) (fun res tr' => ∀ fd, res = some fd → fd ∈ ownFds tr') tr := by
  unfold writefd
  simp only [bind_eq, pure_eq, call_bind]
  split
  · intro fd h; cases h
  rename_i tmpl _
  refine wp_call (calm_auxI _ _ True.intro) fun r _ => ?_
  cases r with
  | ok fd =>
    dsimp only
    refine wp_call (temp_new _ _ _) fun r2 _ => ?_
    split
    · intro fd' h
      cases h
      exact ownFds_snoc _ (ownFds_mkostemp _ _ _)
    · refine wp_call (calm_auxI _ _ True.intro) fun _ _ => ?_
      intro fd' h; cases h
  | err e => intro fd h; cases h
  | name n => intro fd h; cases h
  | eof => intro fd h; cases h

theorem aux_messageGetFd (env : PEnv) (ms : MsgSt) (part : Option Msg) (dobody : Bool) (tr : Trace) :
    wp R AuxI (messageGetFd env ms part dobody) (fun _ _ => True) tr := by
  unfold messageGetFd
  simp only [bind_eq, pure_eq, call_bind]
  refine wp_bind_ext (P := fun _ _ => True) ?_ ?_
  · split
    · split
      · exact True.intro
      · refine wp_bind_ext (aux_writefd env.tmpdir _) ?_
        intro f L hf
        cases f with
        | none => exact True.intro
        | some fd =>
          dsimp only
          refine wp_bind_ext (aux_writeAll fd _ _ _ (hf fd rfl)) ?_
          intro e L2 _
          split
          · exact wp_call (calm_auxI _ _ True.intro) fun _ _ => True.intro
          · exact True.intro
    · split
      · refine wp_bind_ext (aux_writefd env.tmpdir _) ?_
        intro f L hf
        cases f with
        | none => exact True.intro
        | some fd =>
          dsimp only
          refine wp_bind_ext (aux_messageWriteP _ fd _ (hf fd rfl)) ?_
          intro e L2 _
          split
          · exact wp_call (calm_auxI _ _ True.intro) fun _ _ => True.intro
          · exact True.intro
      · split
        · exact True.intro
        · exact wp_call (calm_auxI _ _ True.intro) fun _ _ => True.intro
  · intro fdo L _
    cases fdo with
    | none => exact True.intro
    | some fd =>
      dsimp only
      refine wp_call (calm_auxI _ _ True.intro) fun r _ => ?_
      split
      · exact True.intro
      · exact wp_call (calm_auxI _ _ True.intro) fun _ _ => True.intro

theorem aux_moveTail (sm dst : Maildir) (dh fd : Handle) (dstname : Bytes) (ms' : MsgSt) (b : Bool) (mt : Option Nat)
    (T : Trace) (h2 : dstname ∈ createdNames T) :
    wp R AuxI
      (Prog.call (Call.close fd) fun _ =>
        (if (!b && mt.isSome) = true then Prog.call (Call.utimensat dh dstname none mt) fun r => Prog.ret !isOk r
            else Prog.ret b).bind
          fun err2 => if err2 = true then Prog.ret (ms', true) else messageSetFileMoved ms' sm.subdir dst.subdir dst.path dstname)
      (fun _ _ => True) T := by
  refine wp_call (calm_auxI _ _ True.intro) fun r _ => ?_
  refine wp_bind_ext (P := fun _ _ => True) ?_ ?_
  · split
    · exact wp_call (show dstname ∈ createdNames _ by created) fun r _ => True.intro
    · exact True.intro
  intro err2 L _
  split
  · exact True.intro
  · exact wp_calm (calm_messageSetFileMoved _ _ _ _ _) _

theorem aux_maildirMove (env : PEnv) (s dst : Maildir) (ms : MsgSt) (tr : Trace) :
    wp R AuxI (maildirMove env s dst ms) (fun _ _ => True) tr := by
  unfold maildirMove gennameStart
  simp only [bind_eq, pure_eq, call_bind]
  split
  · exact True.intro
  split
  rotate_left
  · exact True.intro
  rename_i sh dh hsh hdh
  refine wp_bind_ext (P := fun _ _ => True) ?_ ?_
  · split
    · exact wp_call (calm_auxI _ _ True.intro) fun r _ => True.intro
    · exact True.intro
  intro doutime L0 _
  split
  · exact True.intro
  rename_i fl _
  refine wp_bind_ext (aux_genname env dst (some fl) gennameAttempts _ _) ?_
  intro g L1 hg
  cases g with
  | none => exact True.intro
  | some x =>
  obtain ⟨fd, dstname⟩ := x
  obtain ⟨hd, hfd⟩ := hg fd dstname rfl
  dsimp only
  generalize tr ++ L0 ++ L1 = T at hd hfd ⊢
  refine wp_call (calm_auxI _ _ True.intro) fun r _ => ?_
  refine wp_bind_ext (P := fun _ _ => True) ?_ ?_
  · split
    · split
      · refine wp_bind_ext (aux_messageWriteP _ fd _ (by fdown)) ?_
        intro we L2 _
        split
        · exact True.intro
        · refine wp_bind_ext (wp_calm (calm_maildirUnlink s ms.name) _) ?_
          intro ue L3 _
          exact True.intro
      · exact True.intro
    · exact True.intro
  · rintro ⟨err1, ms'⟩ L2 _
    dsimp only
    split
    · refine wp_bind_ext (wp_calm (calm_maildirUnlink dst dstname) _) ?_
      intro _ L3 _
      exact aux_moveTail s dst dh fd dstname ms' err1 doutime _ (by created)
    · exact aux_moveTail s dst dh fd dstname ms' err1 doutime _ (by created)

theorem aux_maildirWrite (env : PEnv) (md : Maildir) (ms : MsgSt) (tr : Trace) :
    wp R AuxI (maildirWrite env md ms) (fun _ _ => True) tr := by
  unfold maildirWrite gennameStart
  simp only [bind_eq, pure_eq, call_bind]
  split
  · exact True.intro
  rename_i fl _
  refine wp_bind_ext (aux_genname env md (some fl) gennameAttempts _ _) ?_
  intro g L1 hg
  cases g with
  | none => exact True.intro
  | some x =>
  obtain ⟨fd, name⟩ := x
  obtain ⟨hd, hfd⟩ := hg fd name rfl
  dsimp only
  refine wp_bind_ext (aux_messageWriteP _ fd _ hfd) ?_
  intro we L2 _
  refine wp_call (calm_auxI _ _ True.intro) fun r _ => ?_
  refine wp_bind_ext (P := fun _ _ => True) ?_ ?_
  · split
    · exact True.intro
    · exact wp_calm (calm_maildirUnlink md ms.name) _
  intro err L3 _
  split
  · refine wp_bind_ext (wp_calm (calm_maildirUnlink md name) _) ?_
    intro _ L4 _
    exact True.intro
  split
  · exact True.intro
  rename_i d hdir
  refine wp_call (calm_auxI _ _ True.intro) fun r2 _ => ?_
  split
  · rename_i rdfd _
    refine wp_bind_ext (wp_calm (calm_messageSetFile _ md.path name (some rdfd)) _) ?_
    intro x L5 _
    split
    · exact wp_call (calm_auxI _ _ True.intro) fun r3 _ => True.intro
    · exact True.intro
  · exact True.intro

theorem aux_execOne (env : PEnv) (mh : Match) (st : ExecSt) (tr : Trace) :
    wp R AuxI (execOne env mh st) (fun _ _ => True) tr := by
  unfold execOne
  simp only [bind_eq, pure_eq, call_bind]
  have moveBranch : wp R AuxI
      ((maildirOpenDst mh.path).bind fun d =>
        match d with
        | none => Prog.ret (st, true)
        | some dst =>
          (maildirMove env st.src dst st.ms).bind fun x =>
            if x.snd = true then
              (maildirClose dst).bind fun _ =>
                Prog.ret ({ src := st.src, chsrc := st.chsrc, ms := x.fst, reject := st.reject }, true)
            else
              if (st.src.subdir != dst.subdir || st.src.root != dst.root) = true then
                if st.chsrc = true then
                  (maildirClose st.src).bind fun _ =>
                    Prog.ret ({ src := dst, chsrc := true, ms := x.fst, reject := st.reject }, false)
                else Prog.ret ({ src := dst, chsrc := true, ms := x.fst, reject := st.reject }, false)
              else
                (maildirClose dst).bind fun _ =>
                  Prog.ret ({ src := st.src, chsrc := st.chsrc, ms := x.fst, reject := st.reject }, false))
      (fun _ _ => True) tr := by
    refine wp_bind_ext (wp_calm (calm_maildirOpenDst _) _) ?_
    intro d L0 _
    cases d with
    | none => exact True.intro
    | some dst =>
      dsimp only
      refine wp_bind_ext (aux_maildirMove env st.src dst st.ms _) ?_
      intro x L1 _
      have closeThen : ∀ (md : Maildir) (r : ExecSt × Bool),
          wp R AuxI ((maildirClose md).bind fun _ => Prog.ret r) (fun _ _ => True) (tr ++ L0 ++ L1) := by
        intro md r
        refine wp_bind_ext (wp_calm (calm_maildirClose _) _) ?_
        intro _ L2 _
        exact True.intro
      split
      · exact closeThen _ _
      · split
        · split
          · exact closeThen _ _
          · exact True.intro
        · exact closeThen _ _
  split
  · exact moveBranch
  · exact moveBranch
  · exact moveBranch
  · refine wp_bind_ext (wp_calm (calm_maildirUnlink st.src st.ms.name) _) ?_
    intro e L _
    exact True.intro
  · refine wp_bind_ext (aux_maildirWrite env st.src st.ms _) ?_
    intro x L _
    exact True.intro
  · refine wp_bind_ext (aux_maildirWrite env st.src st.ms _) ?_
    intro x L _
    exact True.intro
  · exact True.intro
  · refine wp_bind_ext (P := fun _ _ => True) ?_ ?_
    · split
      · refine wp_bind_ext (aux_messageGetFd _ _ _ _ _) ?_
        intro _ _ _
        exact True.intro
      · exact True.intro
    · intro fdr L0 _
      cases fdr with
      | none => exact True.intro
      | some fd =>
        dsimp only
        refine wp_bind_ext (wp_calm (calm_execP _ fd) _) ?_
        intro rc L1 _
        cases fd with
        | none => exact True.intro
        | some h =>
          dsimp only
          exact wp_call (calm_auxI _ _ True.intro) fun r _ => True.intro
  · exact True.intro

theorem aux_matchesExec (env : PEnv) (ml : MatchList) (st : ExecSt) (tr : Trace) :
    wp R AuxI (matchesExec env ml st) (fun _ _ => True) tr := by
  induction ml generalizing st tr with
  | nil =>
    rw [matchesExec_nil]
    split
    · refine wp_bind_ext (wp_calm (calm_maildirClose _) _) ?_
      intro _ L _
      exact True.intro
    · exact True.intro
  | cons mh rest ih =>
    rw [matchesExec_cons]
    refine wp_bind_ext (aux_execOne env mh st tr) ?_
    intro x L _
    split
    · unfold errTail
      split
      · refine wp_bind_ext (wp_calm (calm_maildirClose _) _) ?_
        intro _ L2 _
        exact True.intro
      · exact True.intro
    · exact ih x.1 _

/-! ## the frame of `matchesExec` and of `processMessage` -/

theorem framed_matchesExec (src : Bytes) (env : PEnv) (ml : MatchList) (st : ExecSt) (tr : Trace)
    (hown : Own src tr st.ms.name) :
    wp R (Framed src) (matchesExec env ml st) (fun _ _ => True) tr :=
  wp_weaken (fun _ _ h => framed_of h.1 h.2)
    (wp_mono (wp_and (spec_matchesExec src env ml st tr hown) (aux_matchesExec env ml st tr)) fun _ _ _ => True.intro)

/-- Calls that are neither mutating nor `readdir` satisfy the frame condition. -/
def Inert : Call → Prop
  | .openExcl .. | .write .. | .fprintf .. | .renameat .. | .unlinkat .. | .unlink .. | .utimensat ..
  | .mkostemp .. | .mkdtemp .. | .mkdir .. | .rmdir .. | .readdir .. => False
  | _ => True

theorem Inert.framed {c : Call} (h : Inert c) (src : Bytes) (tr : Trace) : Framed src tr c := by
  cases c <;> first | exact h.elim | exact True.intro

theorem IsClose.inert {c : Call} (h : IsClose c) : Inert c := by
  obtain ⟨fd, rfl⟩ := h
  exact True.intro

theorem ParseCall.inert {d : Handle} {c : Call} (h : ParseCall d c) : Inert c := by
  rcases h with ⟨nm, rfl⟩ | ⟨fd, rfl⟩ | ⟨fd, rfl⟩ <;> exact True.intro

theorem EvalCall.inert {c : Call} (h : EvalCall c) : Inert c := by
  rcases h with rfl | h | rfl | ⟨_, rfl⟩ | ⟨_, rfl⟩
  · exact True.intro
  · obtain ⟨_, _, rfl⟩ := Call.isFork_iff.1 h
    exact True.intro
  all_goals exact True.intro

theorem wp_inert {α} {p : Prog α} (src : Bytes) (hc : Calls Inert p) (tr : Trace) :
    wp R (Framed src) p (fun _ _ => True) tr :=
  wp_calls (fun tr _ h => h.framed src tr) hc (All.trivial p) tr

theorem framed_freeP (src : Bytes) (ms : MsgSt) (tr : Trace) : wp R (Framed src) (freeP ms) (fun _ _ => True) tr :=
  wp_inert src (calls_mono (freeP_calls ms) fun _ h => IsClose.inert h) tr

theorem framed_afterVerdict (env : PEnv) (md : Maildir) (name : Bytes) (st : MainSt) (ms : MsgSt) (v : Verdict)
    (hname : ms.name = name) (tr : Trace) :
    wp R (Framed name) (afterVerdict env md name st ms v) (fun _ _ => True) tr := by
  have hfree : ∀ (ms' : MsgSt) (r : MainSt × Maildir) (T : Trace),
      wp R (Framed name) ((freeP ms').bind fun _ => .ret r) (fun _ _ => True) T := by
    intro ms' r T
    refine wp_bind_ext (framed_freeP name ms' T) ?_
    intro _ _ _
    exact True.intro
  cases v with
  | unparsable => exact hfree _ _ _
  | error => exact hfree _ _ _
  | interpFail => exact hfree _ _ _
  | «nomatch» => exact hfree _ _ _
  | act ml msgs fl =>
    unfold afterVerdict
    dsimp only
    split
    · exact hfree _ _ _
    · refine wp_bind_ext (framed_matchesExec name env ml _ tr (by rw [← hname]; exact Own.src _ _)) ?_
      intro x L _
      exact hfree _ _ _

/-- **Frame**: every call `processMessage` issues for the message `name` satisfies `Framed name`,
whatever the calls return and whatever the trace so far is. -/
theorem framed_processMessage (env : PEnv) (orc : EvalOracles) (expr : Expr) (md : Maildir) (name : Bytes) (st : MainSt)
    (tr : Trace) : wp R (Framed name) (processMessage env orc expr md name st) (fun _ _ => True) tr := by
  cases hd : md.dirH with
  | none => rw [processMessage_noDir env orc expr md name st hd]; exact True.intro
  | some d =>
    cases hf : st.files.get md.path name with
    | none => rw [processMessage_unknown env orc expr md name st d hd hf]; exact True.intro
    | some content =>
      rw [processMessage_eq env orc expr md name st d content hd hf]
      have hparse : wp R (Framed name) (messageParseP d md.path name content)
          (fun pm _ => ParsedAs md.path name content pm) tr :=
        wp_calls (fun tr _ (h : Inert _) => h.framed name tr)
          (calls_mono (parse_messageParseP d md.path name content) fun _ h => ParseCall.inert h)
          (all_messageParseP_as d md.path name content) tr
      refine wp_bind_ext hparse ?_
      intro pm L hpm
      cases pm with
      | none => exact True.intro
      | some ms =>
        obtain ⟨p, mf, -, -, -, hname, -⟩ := hpm ms rfl
        simp only [afterParse]
        refine wp_bind_ext (wp_inert name (calls_mono (evalMs_calls env orc expr ms) fun _ h => EvalCall.inert h.evalCall) _) ?_
        intro ev L2 _
        exact framed_afterVerdict env md name st ms _ hname _

end Mdsort.Proofs.Own
