import Mdsort.Model.L0.Decode
import Mdsort.Proofs.L0Basic
import Mdsort.Proofs.Safety

/-!
# L0 decoders: no fault, and refinement of the list model

For every source with a NUL at or after the start index each decoder returns `.ok`, and what it returns is what
the L1 model (`Model/Decode.lean`) computes on the view of the source.
-/

namespace Mdsort.L0
open Mdsort Mdsort.L0.Buf

/-! ## b64_pton -/

theorem base64Alphabet_no_nul : ∀ x ∈ Gen.base64Alphabet, x ≠ 0 := by decide

theorem b64Idx_spec (c : UInt8) (hc : c ≠ 0) : b64Idx c = .ok (Model.b64idx c) := by
  unfold b64Idx base64Lit
  rw [strchr_idx (ofBytes_terminated _).hasNul0 c hc, view_ofBytes_of_no_nul base64Alphabet_no_nul]
  unfold Model.b64idx
  cases Gen.base64Alphabet.idxOf? c with
  | none => rfl
  | some k => simp

/-- `t[i]` for the statement of invariants (not an access of the C code). -/
def peek (t : Buf) (i : Nat) : UInt8 := t.bytes.getD i 0

theorem peek_of_get? {t : Buf} {i : Nat} {c : UInt8} (h : t.get? i = .ok c) : peek t i = c := by
  obtain ⟨hi, hc⟩ := get?_eq_ok_iff.mp h
  simp [peek, Array.getD, hi, hc]

theorem get?_peek {t : Buf} {i : Nat} (hi : i < t.size) : t.get? i = .ok (peek t i) := by
  have h := get?_of_lt hi
  rw [h, peek_of_get? h]

/-- The L1 state an L0 state stands for. -/
def absB64 (n : Nat) (st : B64) : Model.B64St :=
  { state := st.state, out := st.target.slice 0 st.tarindex,
    pend := if st.state = 0 then 0 else if st.tarindex < n then peek st.target st.tarindex else 0 }

theorem orAt_ok {t : Buf} {i : Nat} (v : UInt8) (hi : i < t.size) :
    ∃ t', orAt t i v = .ok t' ∧ t.set i (peek t i ||| v) = .ok t' := by
  refine ⟨⟨t.bytes.setIfInBounds i (peek t i ||| v)⟩, ?_, set_ok _ hi⟩
  unfold orAt
  rw [get?_peek hi]
  exact set_ok _ hi

theorem get?_set_self {b b' : Buf} {i : Nat} {v : UInt8} (h : b.set i v = .ok b') : b'.get? i = .ok v := by
  rw [get?_set h]; simp

theorem b64Step_refines (n : Nat) (st : B64) (v : UInt8) (hinv : st.tarindex ≤ n) (hn : n ≤ st.target.size) :
    ∃ r, b64Step n st v = .ok r ∧ r.map (absB64 n) = Model.b64step n (absB64 n st) v ∧
      ∀ s', r = some s' → s'.tarindex ≤ n ∧ s'.target.size = st.target.size := by
  obtain ⟨state, k, t⟩ := st
  simp only at hinv hn
  have hlen : (t.slice 0 k).length = k := by rw [length_slice (by omega)]; omega
  unfold b64Step Model.b64step
  simp only [absB64, hlen]
  by_cases hk : k ≥ n
  · refine ⟨none, ?_, ?_, by simp⟩
    · split <;> simp [hk]
    · split <;> simp [hk]
  · have hkn : k < n := by omega
    have hks : k < t.size := by omega
    match state with
    | 0 =>
      simp only [hk, if_false]
      have hs := set_ok (b := t) (v <<< 2) hks
      rw [hs]
      refine ⟨_, rfl, ?_, ?_⟩
      · simp only [Option.map_some, absB64, Option.some.injEq, Model.B64St.mk.injEq, true_and]
        refine ⟨slice_of_set hs (Nat.le_refl _), ?_⟩
        simp [hkn, peek_of_get? (get?_set_self hs)]
      · intro s' hs'; cases hs'; exact ⟨hinv, size_of_set hs⟩
    | 1 =>
      simp only [hk, if_false]
      obtain ⟨t', ho, hs⟩ := orAt_ok (t := t) (v >>> 4) hks
      rw [ho]
      have hsz := size_of_set hs
      have hout : t'.slice 0 (k + 1) = t.slice 0 k ++ [peek t k ||| v >>> 4] := by
        rw [slice_snoc (get?_set_self hs), slice_of_set hs (Nat.le_refl _)]
      simp only [Nat.succ_ne_zero, if_false, hkn, if_true]
      by_cases hk1 : k + 1 < n
      · simp only [hk1, if_true]
        have hs2 := set_ok (b := t') ((v &&& 0x0f) <<< 4) (show k + 1 < t'.size by omega)
        rw [hs2]
        refine ⟨_, rfl, ?_, ?_⟩
        · simp only [Option.map_some, absB64, Option.some.injEq, Model.B64St.mk.injEq, true_and]
          refine ⟨by rw [slice_of_set hs2 (Nat.le_refl _), hout], ?_⟩
          simp [hk1, peek_of_get? (get?_set_self hs2)]
        · intro s' hs'; cases hs'; exact ⟨Nat.le_of_lt hk1, by rw [size_of_set hs2, hsz]⟩
      · simp only [hk1, if_false]
        by_cases hnb : ((v &&& 0x0f) <<< 4 != 0) = true
        · simp only [hnb, if_true]
          exact ⟨none, rfl, rfl, by simp⟩
        · simp only [hnb, if_false]
          refine ⟨_, rfl, ?_, ?_⟩
          · simp only [bne_iff_ne, ne_eq, Decidable.not_not] at hnb
            simp [absB64, hout, hk1, hnb]
          · intro s' hs'; cases hs'; exact ⟨by simp; omega, hsz⟩
    | 2 =>
      simp only [hk, if_false]
      obtain ⟨t', ho, hs⟩ := orAt_ok (t := t) (v >>> 2) hks
      rw [ho]
      have hsz := size_of_set hs
      have hout : t'.slice 0 (k + 1) = t.slice 0 k ++ [peek t k ||| v >>> 2] := by
        rw [slice_snoc (get?_set_self hs), slice_of_set hs (Nat.le_refl _)]
      simp only [Nat.succ_ne_zero, if_false, hkn, if_true]
      by_cases hk1 : k + 1 < n
      · simp only [hk1, if_true]
        have hs2 := set_ok (b := t') ((v &&& 0x03) <<< 6) (show k + 1 < t'.size by omega)
        rw [hs2]
        refine ⟨_, rfl, ?_, ?_⟩
        · simp only [Option.map_some, absB64, Option.some.injEq, Model.B64St.mk.injEq, true_and]
          refine ⟨by rw [slice_of_set hs2 (Nat.le_refl _), hout], ?_⟩
          simp [hk1, peek_of_get? (get?_set_self hs2)]
        · intro s' hs'; cases hs'; exact ⟨Nat.le_of_lt hk1, by rw [size_of_set hs2, hsz]⟩
      · simp only [hk1, if_false]
        by_cases hnb : ((v &&& 0x03) <<< 6 != 0) = true
        · simp only [hnb, if_true]
          exact ⟨none, rfl, rfl, by simp⟩
        · simp only [hnb, if_false]
          refine ⟨_, rfl, ?_, ?_⟩
          · simp only [bne_iff_ne, ne_eq, Decidable.not_not] at hnb
            simp [absB64, hout, hk1, hnb]
          · intro s' hs'; cases hs'; exact ⟨by simp; omega, hsz⟩
    | s + 3 =>
      simp only [hk, if_false]
      obtain ⟨t', ho, hs⟩ := orAt_ok (t := t) v hks
      rw [ho]
      have hsz := size_of_set hs
      have hout : t'.slice 0 (k + 1) = t.slice 0 k ++ [peek t k ||| v] := by
        rw [slice_snoc (get?_set_self hs), slice_of_set hs (Nat.le_refl _)]
      refine ⟨_, rfl, ?_, ?_⟩
      · simp only [Option.map_some, absB64, Option.some.injEq, Model.B64St.mk.injEq, true_and]
        simp [hout, hkn]
      · intro s' hs'; cases hs'; exact ⟨by simp; omega, hsz⟩

/-- How the outcome of the L0 loop stands for the outcome of the L1 loop. -/
def RelP1 (n : Nat) (src : Buf) (sz : Nat) : B64P1 → Model.B64P1 → Prop
  | .err, .err => True
  | .eos s, .eos s1 => absB64 n s = s1 ∧ s.tarindex ≤ n ∧ s.target.size = sz
  | .pad s q, .pad s1 r => absB64 n s = s1 ∧ src.view q = r ∧ src.HasNul q ∧ s.tarindex ≤ n ∧ s.target.size = sz
  | _, _ => False

theorem b64Loop_eq {src : Buf} {i : Nat} {ch : UInt8} (n : Nat) (st : B64) (hg : src.get? i = .ok ch) :
    b64Loop n src i st =
      if ch == 0 then .ok (.eos st)
      else if isspace ch then b64Loop n src (i + 1) st
      else if ch == Gen.pad64 then .ok (.pad st (i + 1))
      else match b64Idx ch with
        | .error e => .error e
        | .ok none => .ok .err
        | .ok (some v) =>
          match b64Step n st v with
          | .error e => .error e
          | .ok none => .ok .err
          | .ok (some st') => b64Loop n src (i + 1) st' := by
  rw [b64Loop]; split
  · rename_i e he; rw [hg] at he; cases he
  · rename_i c' hc'; rw [hg] at hc'; cases hc'; rfl

theorem b64Loop_refines (n : Nat) (src : Buf) {i : Nat} (h : src.HasNul i) (st : B64)
    (hinv : st.tarindex ≤ n) (hn : n ≤ st.target.size) :
    ∃ r, b64Loop n src i st = .ok r ∧
      RelP1 n src st.target.size r (Model.b64loop n (src.view i) (absB64 n st)) := by
  generalize hm : src.size - i = m
  induction m using Nat.strongRecOn generalizing i st with
  | _ m ih =>
    have := h.lt
    rcases h.cases with ⟨hg, hv⟩ | ⟨c, hc, hg, hv, hn'⟩
    · rw [b64Loop_eq n st hg, hv]
      exact ⟨_, rfl, by simp [Model.b64loop, RelP1, hinv]⟩
    · rw [b64Loop_eq n st hg, hv]
      simp only [beq_iff_eq, hc, if_false, Model.b64loop]
      by_cases hsp : isspace c = true
      · simp only [hsp, if_true]
        exact ih _ (by omega) hn' st hinv hn rfl
      · simp only [hsp, Bool.false_eq_true, if_false]
        by_cases hp : c = Gen.pad64
        · simp only [hp, if_true]
          exact ⟨_, rfl, by simp [RelP1, hinv, hn']⟩
        · simp only [hp, if_false]
          rw [b64Idx_spec c hc]
          cases hidx : Model.b64idx c with
          | none => exact ⟨_, rfl, by simp [RelP1]⟩
          | some v =>
            obtain ⟨r, hr, habs, hsz⟩ := b64Step_refines n st v hinv hn
            simp only [hr]
            cases r with
            | none =>
              simp only [Option.map_none] at habs
              rw [← habs]
              exact ⟨_, rfl, by simp [RelP1]⟩
            | some st' =>
              simp only [Option.map_some] at habs
              rw [← habs]
              obtain ⟨h1, h2⟩ := hsz st' rfl
              have := ih _ (by omega) hn' st' h1 (by omega) rfl
              rw [h2] at this
              exact this

theorem skipSpaces_eq {src : Buf} {q : Nat} {ch : UInt8} (hg : src.get? q = .ok ch) :
    skipSpaces src q = if ch != 0 && isspace ch then skipSpaces src (q + 1) else .ok q := by
  rw [skipSpaces]; split
  · rename_i e he; rw [hg] at he; cases he
  · rename_i c' hc'; rw [hg] at hc'; cases hc'; rfl

theorem onlySpaces_eq {src : Buf} {q : Nat} {ch : UInt8} (hg : src.get? q = .ok ch) :
    onlySpaces src q = if ch == 0 then .ok true else if !isspace ch then .ok false else onlySpaces src (q + 1) := by
  rw [onlySpaces]; split
  · rename_i e he; rw [hg] at he; cases he
  · rename_i c' hc'; rw [hg] at hc'; cases hc'; rfl

theorem skipSpaces_spec {src : Buf} {q : Nat} (h : src.HasNul q) :
    ∃ q2, skipSpaces src q = .ok q2 ∧ src.HasNul q2 ∧ src.view q2 = (src.view q).dropWhile isspace := by
  generalize hm : src.size - q = m
  induction m using Nat.strongRecOn generalizing q with
  | _ m ih =>
    have := h.lt
    rcases h.cases with ⟨hg, hv⟩ | ⟨c, hc, hg, hv, hn'⟩
    · rw [skipSpaces_eq hg]
      exact ⟨q, by simp, h, by simp [hv]⟩
    · rw [skipSpaces_eq hg, hv]
      by_cases hsp : isspace c = true
      · have e : (c != 0 && isspace c) = true := by simp [hc, hsp]
        rw [if_pos e, List.dropWhile_cons_of_pos hsp]
        exact ih _ (by omega) hn' rfl
      · have e : ¬ (c != 0 && isspace c) = true := by simp [hsp]
        rw [if_neg e]
        refine ⟨q, rfl, h, ?_⟩
        rw [List.dropWhile_cons_of_neg hsp, hv]

theorem onlySpaces_spec {src : Buf} {q : Nat} (h : src.HasNul q) :
    onlySpaces src q = .ok ((src.view q).all isspace) := by
  generalize hm : src.size - q = m
  induction m using Nat.strongRecOn generalizing q with
  | _ m ih =>
    have := h.lt
    rcases h.cases with ⟨hg, hv⟩ | ⟨c, hc, hg, hv, hn'⟩
    · rw [onlySpaces_eq hg]; simp [hv]
    · rw [onlySpaces_eq hg, hv]
      by_cases hsp : isspace c = true
      · simp only [beq_iff_eq, hc, if_false, hsp, Bool.not_true, Bool.false_eq_true, List.all_cons, Bool.true_and]
        exact ih _ (by omega) hn' rfl
      · simp [hc, hsp]

theorem b64Tail_refines (n : Nat) (st : B64) (src : Buf) {q : Nat} (h : src.HasNul q)
    (hs : st.state ≠ 0) (hinv : st.tarindex ≤ n) (hn : n ≤ st.target.size) :
    ∃ r, b64Tail n st src q = .ok r ∧
      r.map (fun p => p.2.slice 0 p.1) = Model.b64tail n (absB64 n st) (src.view q) ∧
      ∀ p, r = some p → p.1 ≤ n ∧ p.2.size = st.target.size := by
  unfold b64Tail Model.b64tail
  rw [onlySpaces_spec h]
  have hlen : (st.target.slice 0 st.tarindex).length = st.tarindex := by rw [length_slice (by omega)]; omega
  cases hall : (src.view q).all isspace with
  | false => exact ⟨none, rfl, by simp, by simp⟩
  | true =>
    simp only [if_true, absB64, hlen, hs, if_false]
    by_cases hk : st.tarindex < n
    · simp only [hk, if_true, decide_true, Bool.true_and]
      rw [get?_peek (by omega)]
      simp only
      by_cases hp : (peek st.target st.tarindex != 0) = true
      · simp only [hp, if_true]; exact ⟨none, rfl, by simp, by simp⟩
      · simp only [hp, Bool.false_eq_true, if_false]
        exact ⟨_, rfl, by simp, by intro p hp; cases hp; exact ⟨hinv, rfl⟩⟩
    · simp only [hk, if_false, decide_false, Bool.false_and, Bool.false_eq_true]
      exact ⟨_, rfl, by simp, by intro p hp; cases hp; exact ⟨hinv, rfl⟩⟩

/-- `b64_pton` on a target of at least `n` bytes: no fault, the L1 result, at most `n` bytes reported. -/
theorem b64pton_refines (src : Buf) {i : Nat} (h : src.HasNul i) (target : Buf) (n : Nat) (hn : n ≤ target.size) :
    ∃ r, b64pton src i target n = .ok r ∧
      r.map (fun p => p.2.slice 0 p.1) = Model.b64pton (src.view i) n ∧
      ∀ p, r = some p → p.1 ≤ n ∧ p.2.size = target.size := by
  unfold b64pton Model.b64pton
  obtain ⟨r, hr, hrel⟩ := b64Loop_refines n src h { state := 0, tarindex := 0, target := target } (Nat.zero_le _) hn
  have habs0 : absB64 n { state := 0, tarindex := 0, target := target } = Model.B64St.init := by
    simp [absB64, Model.B64St.init, slice_self]
  rw [habs0] at hrel
  rw [hr]
  generalize Model.b64loop n (src.view i) Model.B64St.init = r1 at hrel
  match r, r1, hrel with
  | .err, .err, _ => exact ⟨none, rfl, rfl, by simp⟩
  | .eos s, .eos s1, ⟨ha, hk, hsz⟩ =>
    subst ha
    simp only [absB64]
    by_cases hs : (s.state != 0) = true
    · simp only [hs, if_true]; exact ⟨none, rfl, rfl, by simp⟩
    · simp only [hs, Bool.false_eq_true, if_false]
      exact ⟨_, rfl, by simp, by intro p hp; cases hp; exact ⟨hk, hsz⟩⟩
  | .pad s q, .pad s1 r', ⟨ha, hv, hq, hk, hsz⟩ =>
    subst ha hv
    have hsz : s.target.size = target.size := hsz
    simp only
    rw [get?_of_lt hq.lt]
    simp only [absB64]
    match hst : s.state with
    | 0 => exact ⟨none, rfl, rfl, by simp⟩
    | 1 => exact ⟨none, rfl, rfl, by simp⟩
    | 2 =>
      simp only
      obtain ⟨q2, hq2, hn2, hv2⟩ := skipSpaces_spec hq
      rw [hq2, ← hv2]
      simp only
      rcases hn2.cases with ⟨hg, hve⟩ | ⟨c, hc, hg, hve, hn3⟩
      · rw [hg, hve]
        have : ((0 : UInt8) != Gen.pad64) = true := by decide
        simp only [this, if_true]
        exact ⟨none, rfl, rfl, by simp⟩
      · rw [hg, hve]
        simp only
        by_cases hp : c = Gen.pad64
        · simp only [hp, bne_self_eq_false, Bool.false_eq_true, if_false, beq_self_eq_true, if_true]
          have := b64Tail_refines n s src hn3 (by omega) hk (by omega)
          simp only [absB64, hst] at this
          rw [hsz] at this
          exact this
        · have : (c != Gen.pad64) = true := by simpa using hp
          simp only [this, if_true, beq_iff_eq, hp, if_false]
          exact ⟨none, rfl, rfl, by simp⟩
    | k + 3 =>
      simp only
      have := b64Tail_refines n s src hq (by omega) hk (by omega)
      simp only [absB64, hst] at this
      rw [hsz] at this
      exact this

/-- `base64_decode`: no fault - in particular `dec[n] = '\0'` is inside the `strlen + 1` bytes allocated - and the
bytes `dec[0, n)` are the L1 result; the result is NUL-terminated at `n`. -/
theorem base64Decode_refines (s : Buf) {i : Nat} (h : s.HasNul i) :
    ∃ r, base64Decode s i = .ok r ∧
      r.map (fun p => p.1.slice 0 p.2) = Model.base64DecodeRaw (s.view i) ∧
      ∀ p, r = some p → p.1.get? p.2 = .ok 0 := by
  unfold base64Decode Model.base64DecodeRaw
  rw [strlen_spec h]
  simp only
  obtain ⟨r, hr, hmap, hb⟩ := b64pton_refines s h (Buf.malloc ((s.view i).length + 1)) ((s.view i).length + 1)
    (by rw [malloc_size]; exact Nat.le_refl _)
  rw [hr]
  cases r with
  | none => exact ⟨none, rfl, by simpa using hmap, by simp⟩
  | some p =>
    obtain ⟨n, dec⟩ := p
    obtain ⟨hn, hsz⟩ := hb _ rfl
    simp only [Option.map_some] at hmap
    have hfit := Proofs.b64_fits (s.view i) (dec.slice 0 n) (by unfold Model.base64DecodeRaw; exact hmap.symm)
    rw [length_slice (by rw [hsz, malloc_size]; exact hn)] at hfit
    have hlt : n < dec.size := by rw [hsz, malloc_size]; omega
    have hset := set_ok (b := dec) 0 hlt
    simp only [hset]
    refine ⟨_, rfl, ?_, ?_⟩
    · simp only [Option.map_some]; rw [← hmap]; congr 1; exact slice_of_set hset (Nat.le_refl _)
    · intro p hp; cases hp; exact get?_set_self hset

/-- What the caller of `base64_decode` reads from the result as a C string. -/
theorem base64Decode_cstr (s : Buf) {i : Nat} (h : s.HasNul i) :
    ∃ r, base64Decode s i = .ok r ∧
      r.map (fun p => p.1.view 0) = Model.base64Decode (s.view i) ∧
      ∀ p, r = some p → p.1.HasNul 0 := by
  obtain ⟨r, hr, hmap, hnul⟩ := base64Decode_refines s h
  refine ⟨r, hr, ?_, ?_⟩
  · unfold Model.base64Decode
    rw [← hmap]
    cases r with
    | none => rfl
    | some p => simp only [Option.map_some]; rw [view_of_nul_at (hnul p rfl)]
  · intro p hp
    exact ⟨p.2, Nat.zero_le _, hnul p hp⟩

/-! ## quoted-printable -/

theorem htoa_eq (c : UInt8) : htoa c = Model.htoa c := rfl

theorem qpLoop_refines (ds : Bool) (b : Buf) (base len : Nat) (hb : base + len ≤ b.size) :
    ∀ (i : Nat) (out : Bytes), i ≤ len →
      qpLoop ds b base len i out = .ok (Model.qpLoop ds (b.slice (base + i) (base + len)) out) := by
  intro i
  generalize hm : len - i = m
  induction m using Nat.strongRecOn generalizing i with
  | _ m ih =>
    intro out hi
    rw [qpLoop]
    by_cases hlt : i < len
    · simp only [hlt, if_true]
      have hg := get?_peek (t := b) (i := base + i) (by omega)
      generalize peek b (base + i) = c at hg
      rw [hg, slice_cons hg (by omega)]
      simp only
      rw [Model.qpLoop.eq_def]
      simp only
      by_cases h1 : (c == 95 && ds) = true
      · simp only [h1, if_true]
        exact ih _ (by omega) (i + 1) rfl _ (by omega)
      · simp only [h1, Bool.false_eq_true, if_false]
        by_cases h2 : (c != 61) = true
        · simp only [h2, if_true]
          exact ih _ (by omega) (i + 1) rfl _ (by omega)
        · simp only [h2, Bool.false_eq_true, if_false]
          by_cases h3 : i + 1 = len
          · have : b.slice (base + i + 1) (base + len) = [] := by
              rw [← h3]; exact slice_self _ _
            simp [h3, this]
          · have h3' : (i + 1 == len) = false := by simpa using h3
            simp only [h3', Bool.false_eq_true, if_false]
            have hg1 := get?_peek (t := b) (i := base + (i + 1)) (by omega)
            generalize peek b (base + (i + 1)) = d at hg1
            rw [hg1, show base + i + 1 = base + (i + 1) from rfl, slice_cons hg1 (by omega)]
            simp only
            by_cases h4 : (d == 10) = true
            · simp only [h4, if_true]
              exact ih _ (by omega) (i + 2) rfl _ (by omega)
            · simp only [h4, Bool.false_eq_true, if_false]
              by_cases h5 : i + 2 = len
              · have hnil : b.slice (base + (i + 1) + 1) (base + len) = [] := by
                  rw [← h5]; exact slice_self _ _
                have h5' : (i + 2 == len) = true := by simpa using h5
                simp only [h5', if_true, hnil]
                have := ih _ (by omega) (i + 1) rfl (out ++ [61]) (by omega)
                rw [this, slice_cons hg1 (by omega), hnil]
              · have h5' : (i + 2 == len) = false := by simpa using h5
                simp only [h5', Bool.false_eq_true, if_false]
                have hg2 := get?_peek (t := b) (i := base + (i + 2)) (by omega)
                generalize peek b (base + (i + 2)) = l at hg2
                rw [show base + (i + 1) + 1 = base + (i + 2) from rfl, slice_cons hg2 (by omega)]
                simp only
                have hfall := ih _ (by omega) (i + 1) rfl (out ++ [61]) (by omega)
                rw [slice_cons hg1 (by omega), show base + (i + 1) + 1 = base + (i + 2) from rfl,
                  slice_cons hg2 (by omega)] at hfall
                rw [htoa_eq]
                cases hd : Model.htoa d with
                | none => simpa using hfall
                | some hi =>
                  simp only [hg2, htoa_eq]
                  cases hl : Model.htoa l with
                  | none => simpa using hfall
                  | some lo =>
                    simp only
                    exact ih _ (by omega) (i + 3) rfl _ (by omega)
    · have : i = len := by omega
      subst this
      simp [slice_self, Model.qpLoop]

/-- `quoted_printable_decode`: no fault, the L1 result. -/
theorem quotedPrintableDecode_refines (s : Buf) {i : Nat} (h : s.HasNul i) :
    quotedPrintableDecode s i = .ok (Model.qpDecodeRaw (s.view i)) := by
  unfold quotedPrintableDecode Model.qpDecodeRaw
  rw [strlen_spec h]
  simp only
  have hend := lt_of_get? h.get?_end
  rw [qpLoop_refines false s i _ (by omega) 0 [] (Nat.zero_le _)]
  rw [Nat.add_zero, h.slice_view _ (Nat.le_refl _), List.take_length]

/-! ## rfc2047_decode -/

theorem skipIsspace_eq {b : Buf} {p : Nat} {c : UInt8} (hg : b.get? p = .ok c) :
    skipIsspace b p = if isspace c then skipIsspace b (p + 1) else .ok p := by
  rw [skipIsspace]; split
  · rename_i e he; rw [hg] at he; cases he
  · rename_i c' hc'; rw [hg] at hc'; cases hc'; rfl

theorem skipIsspace_spec {b : Buf} {p : Nat} (h : b.HasNul p) :
    skipIsspace b p = .ok (p + ((b.view p).takeWhile isspace).length) := by
  generalize hm : b.size - p = m
  induction m using Nat.strongRecOn generalizing p with
  | _ m ih =>
    have := h.lt
    rcases h.cases with ⟨hg, hv⟩ | ⟨c, hc, hg, hv, hn'⟩
    · rw [skipIsspace_eq hg, hv]
      have : isspace 0 = false := by decide
      simp [this]
    · rw [skipIsspace_eq hg, hv]
      by_cases hsp : isspace c = true
      · rw [if_pos hsp, ih _ (by omega) hn' rfl, List.takeWhile_cons_of_pos hsp]
        simp; omega
      · rw [if_neg hsp, List.takeWhile_cons_of_neg hsp]; simp

theorem rfc2047SkipSpace_refines (s : Buf) {es : Nat} (h : s.HasNul es) :
    ∃ r, rfc2047SkipSpace s es = .ok r ∧ s.HasNul r ∧ s.view r = Model.rfc2047SkipSpace (s.view es) := by
  unfold rfc2047SkipSpace Model.rfc2047SkipSpace
  rw [strstr_spec h [61, 63] (by decide) (by decide)]
  cases hf : findSub [61, 63] (s.view es) with
  | none => exact ⟨es, rfl, h, rfl⟩
  | some k =>
    simp only [Option.map_some]
    rw [skipIsspace_spec h]
    simp only
    have hk := Proofs.SafetyAux.findSub_le hf
    simp only [List.length_cons, List.length_nil] at hk
    obtain ⟨hnk, hvk⟩ := h.add k (by omega)
    by_cases he : ((s.view es).takeWhile isspace).length = k
    · simp only [he, beq_self_eq_true, if_true]
      exact ⟨_, rfl, hnk, hvk⟩
    · have : (es + ((s.view es).takeWhile isspace).length == es + k) = false := by
        simp only [beq_eq_false_iff_ne, ne_eq]; omega
      have he' : (((s.view es).takeWhile isspace).length == k) = false := by simpa using he
      simp only [this, he', Bool.false_eq_true, if_false]
      exact ⟨_, rfl, h, rfl⟩

/-- How the result of the L0 word decoder stands for the L1 one: same bytes, and the index is where the L1 suffix starts. -/
def RelWord (s : Buf) : Option (Bytes × Nat) → Option (Bytes × Bytes) → Prop
  | none, none => True
  | some (w, rest), some (w', rest') => w = w' ∧ s.HasNul rest ∧ s.view rest = rest'
  | _, _ => False

theorem take_no_nul {l : Bytes} (k : Nat) (h : ∀ x ∈ l, x ≠ 0) : ∀ x ∈ l.take k, x ≠ 0 :=
  fun x hx => h x (List.mem_of_mem_take hx)

theorem rfc2047Word_refines (s : Buf) {es : Nat} (h : s.HasNul es) :
    ∃ r, rfc2047Word s es = .ok r ∧ RelWord s r (Model.rfc2047Word (s.view es)) := by
  unfold rfc2047Word Model.rfc2047Word
  obtain ⟨hnone, hsome⟩ := strchr_spec h 63 (by decide)
  cases hq : Mdsort.strchr (s.view es) 63 with
  | none => rw [hnone hq]; exact ⟨none, rfl, trivial⟩
  | some q =>
    obtain ⟨j, hj, _, hnj, hvj, hgj⟩ := hsome q hq
    rw [hj]
    simp only
    have hvj' := view_cons hgj (by decide)
    have hn1 := hnj.succ hgj (by decide)
    have hq1 : q.drop 1 = s.view (j + 1) := by rw [← hvj, hvj']; rfl
    rw [hq1]
    rcases hn1.cases with ⟨hg1, hv1⟩ | ⟨enc, henc, hg1, hv1, hn2⟩
    · rw [hg1, hv1]; exact ⟨none, rfl, trivial⟩
    · rw [hg1, hv1]
      simp only [beq_iff_eq, henc, if_false]
      have hn2 : s.HasNul (j + 2) := hn2
      have hv1 : s.view (j + 1) = enc :: s.view (j + 2) := hv1
      rcases hn2.cases with ⟨hg2, hv2⟩ | ⟨d, hd, hg2, hv2, hn3⟩
      · rw [hg2, hv2]
        have : ((0 : UInt8) != 63) = true := by decide
        simp only [this, if_true]
        exact ⟨none, rfl, trivial⟩
      · rw [hg2, hv2]
        have hn3 : s.HasNul (j + 3) := hn3
        by_cases hd63 : d = 63
        · subst hd63
          simp only [bne_self_eq_false, Bool.false_eq_true, if_false]
          rw [strstr_spec hn3 [63, 61] (by decide) (by decide)]
          cases hf : findSub [63, 61] (s.view (j + 3)) with
          | none => exact ⟨none, rfl, trivial⟩
          | some k =>
            simp only [Option.map_some]
            have hk := Proofs.SafetyAux.findSub_le hf
            simp only [List.length_cons, List.length_nil] at hk
            have hlen : j + 3 + k - (j + 3) = k := by omega
            rw [hlen]
            obtain ⟨hnr, hvr⟩ := hn3.add (k + 2) (by omega)
            have hnr : s.HasNul (j + 3 + k + 2) := hnr
            have hvr : s.view (j + 3 + k + 2) = (s.view (j + 3)).drop (k + 2) := hvr
            obtain ⟨hnk, _⟩ := hn3.add k (by omega)
            by_cases h66 : toupper enc = 66
            · simp only [h66]
              rw [strndup_spec hn3 k]
              simp only
              have htxt : (ofBytes ((s.view (j + 3)).take k)).view 0 = (s.view (j + 3)).take k :=
                view_ofBytes_of_no_nul (take_no_nul k (view_no_nul s (j + 3)))
              obtain ⟨r, hr, hmap, hnul⟩ :=
                base64Decode_cstr (ofBytes ((s.view (j + 3)).take k)) (ofBytes_terminated _).hasNul0
              rw [htxt] at hmap
              rw [hr]
              cases r with
              | none =>
                simp only [Option.map_none] at hmap
                rw [← hmap]
                exact ⟨none, rfl, trivial⟩
              | some p =>
                obtain ⟨dst, n⟩ := p
                simp only [Option.map_some] at hmap
                rw [← hmap]
                simp only
                rw [readCStr_spec (hnul _ rfl)]
                exact ⟨_, rfl, by simp, hnr, hvr⟩
            · by_cases h81 : toupper enc = 81
              · simp only [h81]
                rw [qpLoop_refines true s (j + 3) k (Nat.le_of_lt hnk.lt) 0 [] (Nat.zero_le _)]
                simp only
                rw [Nat.add_zero, hn3.slice_view k (by omega)]
                exact ⟨_, rfl, rfl, hnr, hvr⟩
              · generalize toupper enc = t at h66 h81
                split
                · exact absurd rfl h66
                · exact absurd rfl h81
                · split
                  · exact absurd rfl h66
                  · exact absurd rfl h81
                  · exact ⟨none, rfl, trivial⟩
        · have hne : (d != 63) = true := by simpa using hd63
          simp only [hne, if_true]
          refine ⟨none, rfl, ?_⟩
          split
          · rename_i es3 heq
            simp only [List.cons.injEq] at heq
            exact absurd heq.1 hd63
          · trivial

theorem rfc2047Loop_eq {s : Buf} {es : Nat} {c : UInt8} (out : Bytes) (hg : s.get? es = .ok c) :
    rfc2047Loop s es out =
      if c == 0 then .ok (some out)
      else match startsWithLit s es [61, 63] with
        | .error e => .error e
        | .ok true =>
          match rfc2047Word s (es + 2) with
          | .error e => .error e
          | .ok none => .ok none
          | .ok (some (w, rest)) =>
            match rfc2047SkipSpace s rest with
            | .error e => .error e
            | .ok es' => rfc2047Loop s es' (out ++ w)
        | .ok false => rfc2047Loop s (es + 1) (out ++ [c]) := by
  rw [rfc2047Loop]; split
  · rename_i e he; rw [hg] at he; cases he
  · rename_i c' hc'; rw [hg] at hc'; cases hc'
    split
    · rfl
    · split
      · rename_i h1; simp only [h1]
      · rename_i h1
        split
        · rename_i hw; simp only [h1, hw]
        · rename_i hw; simp only [h1, hw]
        · rename_i w rest hw
          split
          · rename_i hs; simp only [h1, hw, hs]
          · rename_i hs; simp only [h1, hw, hs]
      · rename_i h1; simp only [h1]

theorem rfc2047Loop_refines (s : Buf) {es : Nat} (h : s.HasNul es) (out : Bytes) :
    rfc2047Loop s es out = .ok (Model.rfc2047Loop (s.view es) out) := by
  generalize hm : s.size - es = m
  induction m using Nat.strongRecOn generalizing es out with
  | _ m ih =>
    have := h.lt
    rcases h.cases with ⟨hg, hv⟩ | ⟨c, hc, hg, hv, hn1⟩
    · rw [rfc2047Loop_eq out hg, hv, Model.rfc2047Loop]; simp
    · rw [rfc2047Loop_eq out hg]
      simp only [beq_iff_eq, hc, if_false]
      rw [startsWithLit_spec h [61, 63] (by decide)]
      by_cases hsw : startsWith (s.view es) [61, 63] = true
      · simp only [hsw]
        have hpre : s.view es = 61 :: 63 :: (s.view es).drop 2 := by
          simp only [startsWith, List.isPrefixOf_iff_prefix] at hsw
          obtain ⟨t, ht⟩ := hsw
          rw [← ht]; simp
        have hlen2 : 2 ≤ (s.view es).length := by rw [hpre]; simp
        obtain ⟨hn2, hv2⟩ := h.add 2 hlen2
        obtain ⟨r, hr, hrel⟩ := rfc2047Word_refines s hn2
        rw [hr, hpre, Model.rfc2047Loop]
        rw [← hv2]
        simp only
        generalize hw1 : Model.rfc2047Word (s.view (es + 2)) = w1 at hrel
        match r, w1, hrel with
        | none, none, _ => simp
        | some (w, rest), some (w', rest'), ⟨hww, hnr, hvr⟩ =>
          subst hww hvr
          simp only
          obtain ⟨es', hes', hne', hve'⟩ := rfc2047SkipSpace_refines s hnr
          rw [hes']
          simp only
          have hge := rfc2047Word_ge hr
          have hge' := rfc2047SkipSpace_ge hes'
          rw [ih _ (by omega) hne' _ rfl, hve']
      · simp only [hsw]
        rw [ih _ (by omega) hn1 _ rfl]
        congr 1
        rw [hv]
        rw [Model.rfc2047Loop]
        intro es' h61 h63
        rw [hv, h61, h63] at hsw
        simp [startsWith] at hsw

/-- `rfc2047_decode`: no fault, the L1 result. -/
theorem rfc2047Decode_refines (s : Buf) {i : Nat} (h : s.HasNul i) :
    rfc2047Decode s i = .ok (Model.rfc2047DecodeRaw (s.view i)) := by
  unfold rfc2047Decode Model.rfc2047DecodeRaw
  rw [strlen_spec h]
  simp only
  rw [rfc2047Loop_refines s h]
  cases Model.rfc2047Loop (s.view i) [] with
  | some out => rfl
  | none => simp only; rw [readCStr_spec h]; simp

theorem qp_window_ok (dospace : Bool) (b : Buf) (base len : Nat) (h : base + len ≤ b.size) :
    qpLoop dospace b base len 0 [] = .ok (Model.qpLoop dospace (b.slice base (base + len)) []) := by
  simpa using qpLoop_refines dospace b base len h 0 [] (Nat.zero_le _)

/-- All decoders, for every terminated buffer and every start index inside it. -/
theorem decoders_refine_ok (b : Buf) (hb : b.Terminated) (i : Nat) (hi : i < b.size) :
    (∃ r, base64Decode b i = .ok r ∧
        r.map (fun p => p.1.slice 0 p.2) = Model.base64DecodeRaw (b.view i) ∧
        r.map (fun p => p.1.view 0) = Model.base64Decode (b.view i) ∧
        ∀ p, r = some p → p.1.get? p.2 = .ok 0) ∧
    (∀ (target : Buf) (n : Nat), n ≤ target.size →
      ∃ r, b64pton b i target n = .ok r ∧ r.map (fun p => p.2.slice 0 p.1) = Model.b64pton (b.view i) n ∧
        ∀ p, r = some p → p.1 ≤ n ∧ p.2.size = target.size) ∧
    quotedPrintableDecode b i = .ok (Model.qpDecodeRaw (b.view i)) ∧
    rfc2047Decode b i = .ok (Model.rfc2047DecodeRaw (b.view i)) := by
  have h : b.HasNul i := hb.hasNul hi
  refine ⟨?_, fun target n hn => b64pton_refines b h target n hn, quotedPrintableDecode_refines b h,
    rfc2047Decode_refines b h⟩
  obtain ⟨r, hr, hmap, hnul⟩ := base64Decode_refines b h
  refine ⟨r, hr, hmap, ?_, hnul⟩
  obtain ⟨r', hr', hmap', _⟩ := base64Decode_cstr b h
  rw [hr] at hr'; cases hr'; exact hmap'

end Mdsort.L0
