import Mdsort.Proofs.WorldExitInv
import Mdsort.Proofs.WorldDirsSame
import Mdsort.Proofs.WorldFuel

/-!
# A directory is opened; the walk over one maildir, under at most one fault

`exit0_Inv.open`: when a directory still to be walked is opened, its stream yields exactly the names
it had initially, in the initial order; all of them are registered.  `exit0_walk`: the walk over `new`
and `cur` of one maildir visits every remaining name (the fuel of the model suffices) and, if it ends
without the error flag, establishes the invariant for the directories after this maildir.
-/

namespace Mdsort.Proofs
open Mdsort Mdsort.Model
open Mdsort.Proofs.World (wpS wpS_mono wpS_bind_mono wpS_call_any WholeK lk Ent bind_eq pure_eq call_bind ret_bind call_bind')

theorem exit0_wpS_call_ft {α} {c : Call} {k : Res → Prog α} {Q : Bool → α → World → Prop} {b : Bool} {w : World}
    (h : ∀ (ft : Option Fault) (b' : Bool),
      wpS (k (World.faultResult ft w c)) Q b' (stepWorld w c (World.faultResult ft w c))) :
    wpS (.call c k) Q b w := ⟨h none b, fun _ f => h (some f) false⟩

/-! ## the stream of a freshly opened directory -/

theorem exit0_isDot_dots : isDot [46] = true ∧ isDot [46, 46] = true := ⟨by decide, by decide⟩

theorem exit0_mem_sortedNames {es : List (Bytes × Nat)} {m : Bytes} (h : m ∈ sortedNames es) (hm : isDot m = false) :
    m ∈ es.map (·.1) := by
  unfold sortedNames at h
  rw [List.mem_mergeSort] at h
  rcases List.mem_cons.1 h with rfl | h
  · rw [exit0_isDot_dots.1] at hm; cases hm
  rcases List.mem_cons.1 h with rfl | h
  · rw [exit0_isDot_dots.2] at hm; cases hm
  exact h

theorem exit0_sortedNames_nodup {es : List (Bytes × Nat)} (h : (es.map (·.1)).Nodup) :
    ((sortedNames es).filter fun n => !isDot n).Nodup := by
  unfold sortedNames
  have hp := (List.mergeSort_perm (([46] : Bytes) :: ([46, 46] : Bytes) :: es.map (fun e => e.1))
    (fun a b => decide (a ≤ b))).filter (fun n => !isDot n)
  rw [hp.nodup_iff]
  simp only [List.filter_cons, exit0_isDot_dots.1, exit0_isDot_dots.2, Bool.not_true, Bool.false_eq_true, if_false]
  exact List.filter_sublist.nodup h

theorem exit0_refNames_nil_of {C : exit0_Ctx} {D : Bytes} {e : Expr} {names : List Bytes}
    (h : ∀ m ∈ names, isDot m = false → C.files0.get D m = none) : exit0_refNames C D e names = [] := by
  unfold exit0_refNames
  rw [List.flatMap_eq_nil_iff]
  intro m hm
  by_cases hd : isDot m = true
  · simp [hd]
  · have hd' : isDot m = false := by simpa using hd
    simp [hd', h m hm hd']

/-- A directory still to be walked is opened. -/
theorem exit0_Inv.open {C : exit0_Ctx} (hG : exit0_Good C) {D' : Bytes} {e' : Expr} {later' : List (Bytes × Expr)}
    {st : MainSt} {w : World} {es : List (Bytes × Nat)}
    (h : exit0_Inv C ((D', e') :: later') none st w) (hdir : w.dir D' = some es) (hmem : (D', e') ∈ C.dirs) :
    exit0_Inv C later' (some (D', e', sortedNames es)) st w ∧ exit0_RemOk C D' (sortedNames es) ∧
      es.length ≤ (st.files.filter (fun x => x.1 == D')).length := by
  have hD'mem : D' ∈ ((D', e') :: later').map (·.1) := by simp
  -- every name bound in `D'` is an initially registered message name
  have known : ∀ m, m ∈ es.map (·.1) → isDot m = false ∧ (C.files0.get D' m).isSome := by
    intro m hm
    have hb := (exit0_lookup_isSome_iff hdir).2 hm
    rw [h.same D' hD'mem m] at hb
    exact hG.listed D' e' hmem m hb
  have pendD : ∀ m, exit0_Pend ((D', e') :: later') none (D', m) := fun m => .inl hD'mem
  have hrok : exit0_RemOk C D' (sortedNames es) :=
    ⟨exit0_sortedNames_nodup (h.uniq D' es hdir), fun m hm hd => (known m (exit0_mem_sortedNames hm hd)).2⟩
  refine ⟨?_, hrok, ?_⟩
  · refine h.congr ?_ ?_ ?_ ?_
    · intro D hD
      simp only [List.map_cons, List.mem_cons]
      exact .inr hD
    · rintro x (hx | ⟨D, e, rem, hc, h1, _, _⟩)
      · exact .inl (by simp only [List.map_cons, List.mem_cons]; exact .inr hx)
      · cases hc
        exact .inl (by simp only [List.map_cons, List.mem_cons]; exact .inl h1)
    · rintro D e n c _ _ hn hget (hx | ⟨D'', e'', rem, hc, _⟩)
      · simp only [List.map_cons, List.mem_cons] at hx
        rcases hx with hx | hx
        · have hx' : D = D' := hx
          subst hx'
          obtain ⟨fid, hl, _, _⟩ := h.reg D n c hget
          have hmn : n ∈ es.map (·.1) := (exit0_lookup_isSome_iff hdir).1 (by rw [hl]; rfl)
          obtain ⟨x, hx1, hx2⟩ := List.mem_map.1 hmn
          exact .inr ⟨D, e', _, rfl, rfl, by rw [← hx2]; exact World.mem_sortedNames es x hx1, hn⟩
        · exact .inl hx
      · cases hc
    · simp only [exit0_curRef, exit0_refDirs, List.flatMap_cons, List.nil_append]
      congr 1
      cases hd0 : C.w0.dir D' with
      | some es0 =>
        simp only [Option.map_some, Option.getD_some]
        rw [exit0_sortedNames_of_lookup h.uniq hG.uniq0 hdir hd0 (fun n => by rw [h.same D' hD'mem n])]
      | none =>
        simp only [Option.map_none, Option.getD_none]
        rw [exit0_refNames_nil_of (names := sortedNames es), exit0_refNames_nil_of (names := [])]
        · intro m hm; cases hm
        · intro m hm hd
          have hb := (exit0_lookup_isSome_iff hdir).2 (exit0_mem_sortedNames hm hd)
          rw [h.same D' hD'mem m] at hb
          unfold World.lookup at hb
          rw [hd0] at hb
          cases hb
  · have hnd := h.uniq D' es hdir
    have := exit0_nodup_length_le (es.map (·.1)) ((st.files.filter (fun x => x.1 == D')).map (·.2.1)) hnd (by
      intro m hm
      obtain ⟨hd, hsome⟩ := known m hm
      obtain ⟨c, hc⟩ := Option.isSome_iff_exists.1 hsome
      exact exit0_mem_filter_of_get ((h.track D' e' m c hmem hc hd).1 (pendD m)))
    simpa using this

/-! ## the walk -/

theorem exit0_rem_of_obj {w : World} {d : Handle} {p : Bytes} {names : List Bytes} {pos : Nat}
    (h : w.obj d = .dir p (some names) pos) : exit0_rem w d = names.drop pos := by
  simp [exit0_rem, h]

/-- `exit0_walk` with two more facts: a walk that started in `new` and ends without the error flag has opened
`cur`, so that directory exists (no call of a walk creates or removes a directory: `dirsSame_walk`); and it did not run
out of fuel (`fuelOut` is what it was): the allowance `rem + 1 (+ registered files of cur + 3)` covers every iteration. -/
theorem exit0_walk' (C : exit0_Ctx) (hG : exit0_Good C) (e : Expr) (hstep : exit0_StepOK C.env C.orc e) (fuel : Nat) :
    ∀ (md : Maildir) (st : MainSt) (w : World) (b : Bool) (pre later : List (Bytes × Expr)) (rem : List Bytes) (d : Handle),
      md.dirH = some d → md.stdin = false → WholeMdOk w md →
      (∃ snap pos, w.obj d = .dir md.path snap pos) → exit0_rem w d = rem →
      C.dirs = pre ++ (md.path, e) :: later →
      (md.subdir = .new → ∃ later', later = (md.root ++ [47] ++ subdirName .cur, e) :: later') →
      exit0_RemOk C md.path rem → exit0_Inv C later (some (md.path, e, rem)) st w →
      rem.length + 1 + (if md.subdir = .new then
          (st.files.filter (fun x => x.1 == md.root ++ [47] ++ subdirName .cur)).length + 3 else 0) ≤ fuel →
      wpS (walk C.env C.orc e fuel md st)
        (fun _ r w' => r.1.error = false → exit0_Inv C (if md.subdir = .new then later.tail else later) none r.1 w' ∧
          (md.subdir = .new → (w'.dir (md.root ++ [47] ++ subdirName .cur)).isSome = true) ∧
          r.1.fuelOut = st.fuelOut) b w := by
  induction fuel with
  | zero =>
    intro md st w b pre later rem d _ _ _ _ _ _ _ _ _ hf
    exact absurd (Nat.le_trans (Nat.le_add_right _ _) hf) (by omega)
  | succ fuel ih =>
    intro md st w b pre later rem d hd hsd hmd hobj hrem hs hnew hrok hinv hfuel
    by_cases herr : st.error = true
    · exact wpS_mono (exit0_wpS_all (exit0_walk_sticky C.env C.orc e (fuel + 1) md st herr) b w)
        (fun _ r _ h he => by rw [h] at he; cases he)
    rw [Own.walk_succ]
    simp only [hd]
    refine exit0_wpS_call_ft fun ft b' => ?_
    obtain ⟨snap, pos, ho⟩ := hobj
    have hp := hmd.1 d hd
    have hinv1 := hinv.step (.readdir d) (World.faultResult ft w (.readdir d)) rfl (fun _ => trivial)
    have hmd1 : WholeMdOk (stepWorld w (.readdir d) (World.faultResult ft w (.readdir d))) md := by
      refine ⟨?_, hmd.2⟩
      intro d' hd'
      rw [hd] at hd'
      cases hd'
      rw [World.stepWorld_dirPath]
      exact whole_readdir_dirPath hp _
    have hDn : md.path ∉ later.map (·.1) := exit0_split_notin hG hs
    rcases exit0_readdir_cases ft ho with ⟨er, he⟩ | ⟨he, hrem0⟩ | ⟨n, t, names, he, hremc, hobj1, hdrop⟩
    · -- `readdir` failed
      rw [he]
      unfold Own.walkK
      intro h
      cases h
    · -- end of the stream
      rw [he] at hinv1 hmd1 ⊢
      rw [hrem] at hrem0
      subst hrem0
      generalize stepWorld w (.readdir d) .eof = w1 at hinv1 hmd1 ⊢
      have hinvE := hinv1.eof
      unfold Own.walkK
      simp only [hsd, Bool.false_eq_true, if_false]
      cases hsub : md.subdir with
      | cur =>
        simp only [reduceCtorEq, if_false]
        intro _
        exact ⟨hinvE, (fun h => by cases h), rfl⟩
      | new =>
        obtain ⟨later', hlater⟩ := hnew hsub
        simp only [if_true]
        cases hpj : pathjoin PATH_MAX md.root (subdirName .cur) with
        | none =>
          dsimp only
          intro h
          cases h
        | some p =>
          have hpeq : p = md.root ++ [47] ++ subdirName .cur := World.pathjoin_eq hpj
          dsimp only
          unfold maildirOpendir
          simp only [hd, bind_eq, pure_eq, call_bind, call_bind', ret_bind]
          refine wpS_call_any fun rc b2 => ?_
          have hinv2 := hinvE.step (.closedir d) rc rfl (fun _ => trivial)
          generalize stepWorld w1 (.closedir d) rc = w2 at hinv2 ⊢
          refine exit0_wpS_call_ft fun ft2 b3 => ?_
          rcases World.opendir_results ft2 w2 p with ⟨e2, he2⟩ | ⟨he2, hdp⟩
          · rw [he2]
            simp only [ret_bind, if_true]
            intro h
            cases h
          · rw [he2]
            simp only [ret_bind, Bool.false_eq_true, if_false]
            have hinv3 := hinv2.step (.opendir p) (.ok w2.handles.length) rfl (fun _ => trivial)
            have hc3 := World.core_opendir_ok hdp w2.handles.length
            obtain ⟨es, hes⟩ := Option.isSome_iff_exists.1 hdp
            have hdir3 : (stepWorld w2 (.opendir p) (.ok w2.handles.length)).dir p = some es := by
              rw [World.stepWorld_dir, hc3]; exact hes
            have hobj3 : (stepWorld w2 (.opendir p) (.ok w2.handles.length)).obj w2.handles.length = .dir p none 0 := by
              rw [World.stepWorld_obj, hc3, World.obj_newHandle]; simp
            generalize stepWorld w2 (.opendir p) (.ok w2.handles.length) = w3 at hinv3 hdir3 hobj3 ⊢
            generalize w2.handles.length = h3 at hobj3 ⊢
            rw [hlater, ← hpeq] at hinv3
            have hmemP : (p, e) ∈ C.dirs := by rw [hs, hlater, ← hpeq]; simp
            obtain ⟨hinvO, hrokO, hcntO⟩ := exit0_Inv.open hG hinv3 hdir3 hmemP
            have hrem3 : exit0_rem w3 h3 = sortedNames es := by simp [exit0_rem, hobj3, hdir3]
            have hfu : (sortedNames es).length + 1 + 0 ≤ fuel := by
              rw [World.length_sortedNames]
              simp only [hsub, if_true, List.length_nil, ← hpeq] at hfuel
              omega
            refine wpS_mono (World.wpS_and (ih _ st w3 b3 (pre ++ [(md.path, e)]) later'
              (sortedNames es) h3 rfl rfl ⟨?_, hpj⟩ ⟨none, 0, hobj3⟩ hrem3 ?_ (fun h => by cases h) hrokO hinvO
              (by simpa using hfu)) (dirsSame_walk C.env C.orc e fuel _ st b3 w3)) ?_
            · intro d' hd'
              cases hd'
              simp [World.dirPath, hobj3]
            · rw [hs, hlater, ← hpeq]; simp
            · rintro _ r w' ⟨hpost, hsame⟩ hne
              have := (hpost hne).1
              refine ⟨by simpa [hlater] using this, fun _ => ?_, (hpost hne).2.2⟩
              rw [← hpeq, hsame p, hdir3]
              rfl
    · -- a name
      rw [he] at hinv1 hmd1 ⊢
      rw [hrem] at hremc
      subst hremc
      have hrem1 : exit0_rem (stepWorld w (.readdir d) (.name n)) d = t := by
        rw [exit0_rem_of_obj hobj1]; exact hdrop
      generalize stepWorld w (.readdir d) (.name n) = w1 at hinv1 hmd1 hobj1 hrem1 ⊢
      have hlen : (n :: t).length = t.length + 1 := rfl
      unfold Own.walkK
      by_cases hdot : isDot n = true
      · have hdot' : (n == [46] || n == [46, 46]) = true := hdot
        simp only [hdot', if_true]
        refine ih md st w1 b' pre later t d hd hsd hmd1 ⟨_, _, hobj1⟩ hrem1 hs hnew hrok.tail (hinv1.dot hdot) ?_
        rw [hlen] at hfuel
        omega
      · have hdotF : isDot n = false := by simpa using hdot
        have hdot' : (n == [46] || n == [46, 46]) = false := hdotF
        simp only [hdot', Bool.false_eq_true, if_false]
        obtain ⟨c, hc⟩ := Option.isSome_iff_exists.1 (hrok.known n (List.mem_cons_self ..) hdotF)
        have hmemD : (md.path, e) ∈ C.dirs := exit0_split_mem hs
        have hget : st.files.get md.path n = some c :=
          (hinv1.track md.path e n c hmemD hc hdotF).1 (.inr ⟨_, _, _, rfl, rfl, List.mem_cons_self .., hdotF⟩)
        obtain ⟨fid, hl, hlt, hf⟩ := hinv1.reg md.path n c hget
        have hpm := World.wpS_and (exit0_wpS_unique (hstep md n st w1 d c fid b' hd (hmd1.1 d hd) hmd1.2 hget hl hlt hf) hinv1.uniq)
          (exit0_wpS_all (Fuel.processMessage_fuelOut C.env C.orc e md n st) b' w1)
        refine wpS_bind_mono hpm ?_
        rintro b2 ⟨st', md'⟩ w2 ⟨⟨⟨hmd', k, hregp, hdet⟩, hu2⟩, hfo⟩
        simp only at hmd' hfo
        subst hmd'
        dsimp only
        by_cases herr2 : st'.error = true
        · exact wpS_mono (exit0_wpS_all (exit0_walk_sticky C.env C.orc e fuel md' st' herr2) b2 w2)
            (fun _ r _ h he => by rw [h] at he; cases he)
        · have herr2' : st'.error = false := by simpa using herr2
          obtain ⟨key, c', lines, hout, hupd, hlog, hfresh, hoth⟩ := hdet herr2'
          have hinv2 := exit0_Inv.msg hG hs hinv1 hrok hdotF hc (hregp hinv1.reg) hu2 hout hupd hlog hfresh hoth
          have hdlt : d < w1.handles.length := World.lt_of_dirPath (hmd1.1 d hd)
          have hobj2 : w2.obj d = .dir md'.path (some names) (pos + 1) := by rw [k.objs d hdlt]; exact hobj1
          have hrem2 : exit0_rem w2 d = t := by rw [exit0_rem_of_obj hobj2]; exact hdrop
          have hmd2 : WholeMdOk w2 md' := by
            refine ⟨?_, hmd1.2⟩
            intro d' hd'
            have hp1 := hmd1.1 d' hd'
            exact k.dirPath hp1 (World.lt_of_dirPath hp1)
          refine wpS_mono (ih md' st' w2 b2 pre later t d hd hsd hmd2 ⟨_, _, hobj2⟩ hrem2 hs hnew hrok.tail hinv2 ?_)
            (fun _ r _ hp he => ⟨(hp he).1, (hp he).2.1, (hp he).2.2.trans hfo⟩)
          rw [hlen] at hfuel
          by_cases hsub : md'.subdir = .new
          · obtain ⟨later', hlater⟩ := hnew hsub
            have hcm : (md'.root ++ [47] ++ subdirName .cur) ∈ later.map (·.1) := by rw [hlater]; simp
            have hkeyL : key.1 ∉ later.map (·.1) := by
              rw [hout.dest]; exact hG.norev pre md'.path e later hs n c hc
            have hcnt := hupd.2 (md'.root ++ [47] ++ subdirName .cur)
              (fun hh => hDn (by have hh' : md'.root ++ [47] ++ subdirName .cur = md'.path := hh; rw [← hh']; exact hcm))
              (fun hh => hkeyL (by rw [← hh]; exact hcm))
            simp only [hsub, if_true] at hfuel ⊢
            rw [hcnt]
            omega
          · simp only [hsub, if_false] at hfuel ⊢
            omega

theorem exit0_walk (C : exit0_Ctx) (hG : exit0_Good C) (e : Expr) (hstep : exit0_StepOK C.env C.orc e) (fuel : Nat) :
    ∀ (md : Maildir) (st : MainSt) (w : World) (b : Bool) (pre later : List (Bytes × Expr)) (rem : List Bytes) (d : Handle),
      md.dirH = some d → md.stdin = false → WholeMdOk w md →
      (∃ snap pos, w.obj d = .dir md.path snap pos) → exit0_rem w d = rem →
      C.dirs = pre ++ (md.path, e) :: later →
      (md.subdir = .new → ∃ later', later = (md.root ++ [47] ++ subdirName .cur, e) :: later') →
      exit0_RemOk C md.path rem → exit0_Inv C later (some (md.path, e, rem)) st w →
      rem.length + 1 + (if md.subdir = .new then
          (st.files.filter (fun x => x.1 == md.root ++ [47] ++ subdirName .cur)).length + 3 else 0) ≤ fuel →
      wpS (walk C.env C.orc e fuel md st)
        (fun _ r w' => r.1.error = false → exit0_Inv C (if md.subdir = .new then later.tail else later) none r.1 w') b w := by
  intro md st w b pre later rem d hd hsd hmd hobj hrem hs hnew hrok hinv hfuel
  exact wpS_mono (exit0_walk' C hG e hstep fuel md st w b pre later rem d hd hsd hmd hobj hrem hs hnew hrok hinv hfuel)
    fun _ _ _ h he => (h he).1

end Mdsort.Proofs
