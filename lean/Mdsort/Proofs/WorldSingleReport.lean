import Mdsort.Proofs.WorldExec

/-! C01, "a failure is reported": every failed call of `matches_exec`, except at the sites whose
failure mdsort ignores or recovers from, makes `matches_exec` return an error.  The argument is
purely about the control flow of the scripts (it holds for every result the calls can have). -/

namespace Mdsort.Proofs.World
open Mdsort Mdsort.Model

/-- Sites whose failure mdsort does not look at (known findings F17a-e): every `close`, every
`closedir`, and the `fstatat` of `maildir_move` (the only `fstatat` of `matches_exec`). -/
def ignoredSite : Call → Bool
  | .close _ | .closedir _ | .fstatat .. => true
  | _ => false

/-- Failures mdsort recovers from: `EEXIST` of the exclusive create in `maildir_genname` (the next
name is tried), `EXDEV` of the rename in `maildir_move` (the message is copied instead). -/
def handledErr : Call → String → Bool
  | .openExcl .., e => e == "EEXIST"
  | .renameat .., e => e == "EXDEV"
  | _, _ => false

/-- The result is a failure that must be reported. -/
def bad (c : Call) : Res → Bool
  | .err e => !(ignoredSite c || handledErr c e)
  | _ => false

/-- After a failure that must be reported every leaf satisfies `E` ("is an error"). -/
def Rep {α} (E : α → Prop) : Prog α → Prop
  | .ret _ => True
  | .call c k => ∀ r, (bad c r = true → All E (k r)) ∧ Rep E (k r)

theorem Rep.ret {α} {E : α → Prop} (a : α) : Rep E (Prog.ret a) := trivial

theorem Rep.call {α} {E : α → Prop} {c : Call} {k : Res → Prog α}
    (he : ∀ e, bad c (.err e) = true → All E (k (.err e))) (hk : ∀ r, Rep E (k r)) : Rep E (.call c k) := by
  intro r
  refine ⟨fun hb => ?_, hk r⟩
  cases r <;> first | exact he _ hb | (simp [bad] at hb)

theorem Rep.bind {α β} {EA : α → Prop} {EB : β → Prop} {p : Prog α} {f : α → Prog β}
    (hp : Rep EA p) (he : ∀ a, EA a → All EB (f a)) (hf : ∀ a, Rep EB (f a)) : Rep EB (p.bind f) := by
  induction p with
  | ret a => exact hf a
  | call c k ih =>
    intro r
    exact ⟨fun hb => All.bind_mono ((hp r).1 hb) he, ih r (hp r).2⟩

theorem Rep.mono {α} {E E' : α → Prop} {p : Prog α} (hp : Rep E p) (h : ∀ a, E a → E' a) : Rep E' p := by
  induction p with
  | ret a => trivial
  | call c k ih => intro r; exact ⟨fun hb => All.mono ((hp r).1 hb) h, ih r (hp r).2⟩

/-! ## the calls of a run -/

/-- The calls a run issues from call index `i` on, with their results. -/
def callsFrom {α} (plan : Plan) : Prog α → World → Nat → List (Call × Res)
  | .ret _, _, _ => []
  | .call c k, w, i =>
    (c, faultResult (plan i) w c) :: callsFrom plan (k (faultResult (plan i) w c)) (stepWorld w c (faultResult (plan i) w c)) (i + 1)

theorem run_trace {α} (plan : Plan) (p : Prog α) (w : World) (i : Nat) :
    (run plan p w i).2.1.trace = w.trace ++ callsFrom plan p w i := by
  induction p generalizing w i with
  | ret a => simp [run, callsFrom]
  | call c k ih => simp [run, callsFrom, ih, stepWorld_trace]

theorem run_trace_drop {α} (plan : Plan) (p : Prog α) (w : World) (i : Nat) :
    (run plan p w i).2.1.trace.drop w.trace.length = callsFrom plan p w i := by
  rw [run_trace]; simp

/-- A call at which the plan injects a failure fails with that errno. -/
theorem callsFrom_fault {α} (plan : Plan) (p : Prog α) (w : World) (i j : Nat) (c : Call) (r : Res) (e : String)
    (hget : (callsFrom plan p w i)[j]? = some (c, r)) (hp : plan (i + j) = some (.fail e)) : r = .err e := by
  induction p generalizing w i j with
  | ret a => simp [callsFrom] at hget
  | call c' k ih =>
    cases j with
    | zero =>
      simp only [callsFrom, List.getElem?_cons_zero, Option.some.injEq, Prod.mk.injEq] at hget
      rw [← hget.2]
      simp only [Nat.add_zero] at hp
      simp [hp, faultResult]
    | succ j =>
      simp only [callsFrom, List.getElem?_cons_succ] at hget
      exact ih _ _ (i + 1) j hget (by rw [← hp]; congr 1; omega)

theorem Rep.sound {α} {E : α → Prop} (plan : Plan) {p : Prog α} (hp : Rep E p) (w : World) (i : Nat)
    (hb : ∃ x ∈ callsFrom plan p w i, bad x.1 x.2 = true) : E (run plan p w i).1 := by
  induction p generalizing w i with
  | ret a => simp [callsFrom] at hb
  | call c k ih =>
    obtain ⟨x, hx, hbx⟩ := hb
    simp only [callsFrom, List.mem_cons] at hx
    rcases hx with rfl | hx
    · exact ((hp _).1 hbx).run plan _ _
    · exact ih _ (hp _).2 _ _ ⟨x, hx, hbx⟩

/-! ## the scripts -/

theorem Rep.call_never {α} {E : α → Prop} {c : Call} {k : Res → Prog α}
    (hc : ignoredSite c = true) (hk : ∀ r, Rep E (k r)) : Rep E (.call c k) :=
  Rep.call (fun e hb => by simp [bad, hc] at hb) hk

theorem Rep.call_err {α} {E : α → Prop} {c : Call} {k : Res → Prog α}
    (he : ∀ e, All E (k (.err e))) (hk : ∀ r, Rep E (k r)) : Rep E (.call c k) :=
  Rep.call (fun e _ => he e) hk

theorem rep_genname (env : PEnv) (md : Maildir) (flags : Option Bytes) (fuel count : Nat) :
    Rep (fun r => r = none) (genname env md flags fuel count) := by
  induction fuel generalizing count with
  | zero => exact trivial
  | succ fuel ih =>
    unfold genname
    simp only [bind_eq, pure_eq, call_bind]
    split
    · exact trivial
    · split
      · exact trivial
      · refine Rep.call ?_ ?_
        · intro e hb
          have h : (e == "EEXIST") = false := by simpa [bad, ignoredSite, handledErr] using hb
          simp only [h]
          exact rfl
        · intro r
          cases r with
          | err e => dsimp only; split; exact ih _; exact trivial
          | _ => exact trivial

theorem rep_maildirOpendir (md : Maildir) (path : Bytes) :
    Rep (fun r => r.2 = true) (maildirOpendir md path) := by
  unfold maildirOpendir
  simp only [bind_eq, pure_eq, call_bind]
  have tail : Rep (fun r : Maildir × Bool => r.2 = true)
      (Prog.call (Call.opendir path) fun r =>
        match r with
        | Res.ok h => Prog.ret (({ md with dirH := some h } : Maildir), false)
        | _ => Prog.ret (({ md with dirH := none } : Maildir), true)) := by
    refine Rep.call_err (fun e => rfl) ?_
    intro r; cases r <;> exact trivial
  split
  · exact Rep.call_never rfl fun _ => tail
  · exact tail

theorem rep_maildirOpenDst (path : Bytes) : Rep (fun r => r = none) (maildirOpenDst path) := by
  unfold maildirOpenDst
  split
  · exact trivial
  split
  · exact trivial
  split
  · exact trivial
  simp only [bind_eq, pure_eq]
  refine Rep.bind (rep_maildirOpendir _ _) ?_ ?_
  · rintro ⟨md, failed⟩ h
    simp only at h
    subst h
    exact rfl
  · rintro ⟨md, failed⟩
    dsimp only
    split <;> exact trivial

theorem rep_maildirUnlink (md : Maildir) (name : Bytes) : Rep (fun r => r = true) (maildirUnlink md name) := by
  unfold maildirUnlink
  split
  · exact trivial
  · simp only [bind_eq, pure_eq, call_bind]
    exact Rep.call_err (fun e => rfl) fun _ => trivial

theorem rep_maildirClose {E : Unit → Prop} (md : Maildir) : Rep E (maildirClose md) := by
  unfold maildirClose
  split
  · simp only [bind_eq, pure_eq, call_bind]
    exact Rep.call_never rfl fun _ => trivial
  · exact trivial

theorem rep_messageSetFile {E : MsgSt × Bool → Prop} (ms : MsgSt) (dir name : Bytes) (fd : Option Handle) :
    Rep E (messageSetFile ms dir name fd) := by
  unfold messageSetFile
  split
  · exact trivial
  split
  · exact trivial
  split
  · simp only [bind_eq, pure_eq, call_bind]
    split
    · exact Rep.call_never rfl fun _ => trivial
    · exact trivial
  · exact trivial

theorem rep_messageSetFileMoved {E : MsgSt × Bool → Prop} (ms : MsgSt) (s d : Subdir) (dir name : Bytes) :
    Rep E (messageSetFileMoved ms s d dir name) := by
  unfold messageSetFileMoved
  split
  · exact trivial
  split <;> exact trivial

theorem rep_hdrs (newfd : Handle) (hs : List Hdr) : Rep (fun r => r = true) (messageWriteP.hdrs newfd hs) := by
  induction hs with
  | nil => unfold messageWriteP.hdrs; exact trivial
  | cons h rest ih =>
    unfold messageWriteP.hdrs
    simp only [bind_eq, pure_eq, call_bind]
    refine Rep.call_err (fun e => rfl) ?_
    intro r
    split
    · exact ih
    · exact trivial

theorem rep_messageWriteP (m : Msg) (fd : Handle) : Rep (fun r => r = true) (messageWriteP m fd) := by
  unfold messageWriteP
  simp only [bind_eq, pure_eq, call_bind]
  refine Rep.call_err (fun e => rfl) ?_
  intro r
  cases r with
  | ok newfd =>
    dsimp only
    refine Rep.call_err ?_ ?_
    · intro e
      simp only [isOk, Bool.not_false, if_true]
      intro _; exact rfl
    · intro r2
      split
      · exact Rep.call_never rfl fun _ => trivial
      · refine Rep.bind (EA := fun r => r = true) (rep_hdrs newfd _) ?_ ?_
        · rintro _ rfl
          simp only [if_true, ret_bind]
          intro _; exact rfl
        · intro herr
          refine Rep.bind (EA := fun r => r = true) ?_ ?_ ?_
          · split
            · exact trivial
            · refine Rep.call_err (fun e => rfl) fun r => ?_
              split
              · exact trivial
              · refine Rep.call_err (fun e => rfl) fun r => ?_
                split
                · exact trivial
                · exact Rep.call_err (fun e => rfl) fun _ => trivial
          · rintro _ rfl
            intro _; exact rfl
          · intro err1
            refine Rep.call_err ?_ fun _ => trivial
            intro e
            simp [isOk]
            exact rfl
  | _ => exact trivial

theorem rep_maildirMove (env : PEnv) (src dst : Maildir) (ms : MsgSt) :
    Rep (fun r => r.2 = true) (maildirMove env src dst ms) := by
  unfold maildirMove gennameStart
  simp only [bind_eq, pure_eq, call_bind]
  split
  · exact trivial
  split
  rotate_left
  · exact trivial
  rename_i sh dh _ _
  refine Rep.bind (EA := fun _ => False) (p := if (!src.stdin) = true then _ else _) ?_ (fun _ h => h.elim) ?_
  · split
    · exact Rep.call_never rfl fun _ => trivial
    · exact trivial
  intro mt
  split
  · exact trivial
  refine Rep.bind (rep_genname _ _ _ _ _) ?_ ?_
  · rintro _ rfl; exact rfl
  intro g
  cases g with
  | none => exact trivial
  | some x =>
    obtain ⟨fd, dstname⟩ := x
    dsimp only
    refine Rep.call ?_ ?_
    · -- the rename failed with something else than EXDEV
      intro e hb
      have h : (e == "EXDEV") = false := by simpa [bad, ignoredSite, handledErr] using hb
      simp only [h, Bool.false_eq_true, if_false, ret_bind, if_true, Bool.not_true, Bool.false_and]
      unfold maildirUnlink
      repeat' (first | exact rfl | all_step)
    · intro r
      refine Rep.bind (EA := fun x => x.1 = true) ?_ ?_ ?_
      · cases r with
        | err e =>
          dsimp only
          split
          · refine Rep.bind (rep_messageWriteP _ _) ?_ ?_
            · rintro _ rfl; exact rfl
            · intro we
              split
              · exact trivial
              · refine Rep.bind (rep_maildirUnlink _ _) ?_ fun _ => trivial
                rintro _ rfl; exact rfl
          · exact trivial
        | _ => exact trivial
      · rintro ⟨err1, ms1⟩ h
        simp only at h
        subst h
        simp only [if_true, Bool.not_true, Bool.false_and, Bool.false_eq_true, if_false]
        unfold maildirUnlink
        repeat' (first | exact rfl | all_step)
      · rintro ⟨err1, ms1⟩
        dsimp only
        cases err1 with
        | true =>
          simp only [if_true, Bool.not_true, Bool.false_and, Bool.false_eq_true, if_false]
          refine Rep.bind (EA := fun _ => True) (Rep.mono (rep_maildirUnlink _ _) fun _ _ => trivial) ?_ ?_
          · intro _ _
            repeat' (first | exact rfl | all_step)
          · intro _
            exact Rep.call_never rfl fun _ => trivial
        | false =>
          simp only [Bool.false_eq_true, if_false, Bool.not_false, Bool.true_and]
          refine Rep.call_never rfl fun _ => ?_
          split
          · refine Rep.call_err (fun e => rfl) fun r => ?_
            simp only [ret_bind]
            split
            · exact trivial
            · exact rep_messageSetFileMoved _ _ _ _ _
          · simp only [ret_bind, Bool.false_eq_true, if_false]
            exact rep_messageSetFileMoved _ _ _ _ _

theorem rep_maildirWrite (env : PEnv) (md : Maildir) (ms : MsgSt) :
    Rep (fun r => r.2 = true) (maildirWrite env md ms) := by
  unfold maildirWrite gennameStart
  simp only [bind_eq, pure_eq, call_bind]
  split
  · exact trivial
  refine Rep.bind (rep_genname _ _ _ _ _) ?_ ?_
  · rintro _ rfl; exact rfl
  intro g
  cases g with
  | none => exact trivial
  | some x =>
    obtain ⟨fd, name⟩ := x
    dsimp only
    refine Rep.bind (rep_messageWriteP _ _) ?_ ?_
    · rintro _ rfl
      simp only [if_true, ret_bind]
      unfold maildirUnlink
      repeat' (first | exact rfl | all_step)
    · intro we
      refine Rep.call_never rfl fun _ => ?_
      refine Rep.bind (EA := fun e => e = true) ?_ ?_ ?_
      · split
        · exact trivial
        · exact rep_maildirUnlink _ _
      · rintro _ rfl
        simp only [if_true]
        unfold maildirUnlink
        repeat' (first | exact rfl | all_step)
      · intro err
        split
        · refine Rep.bind (EA := fun _ => True) (Rep.mono (rep_maildirUnlink _ _) fun _ _ => trivial) ?_ fun _ => trivial
          intro _ _; exact rfl
        · split
          · exact trivial
          · refine Rep.call_err (fun e => rfl) fun r => ?_
            cases r with
            | ok rdfd =>
              dsimp only
              refine Rep.bind (EA := fun _ => False) (rep_messageSetFile _ _ _ _) (fun _ h => h.elim) ?_
              rintro ⟨ms', e⟩
              dsimp only
              split
              · exact Rep.call_never rfl fun _ => trivial
              · exact trivial
            | _ => exact trivial

theorem rep_writefd (tmpdir : Bytes) : Rep (fun r => r = none) (writefd tmpdir) := by
  unfold writefd
  split
  · exact trivial
  simp only [bind_eq, pure_eq, call_bind]
  refine Rep.call_err (fun e => rfl) fun r => ?_
  cases r with
  | ok fd =>
    dsimp only
    refine Rep.call_err ?_ fun r2 => ?_
    · intro e
      simp only [isOk]
      intro _; exact rfl
    · split
      · exact trivial
      · exact Rep.call_never rfl fun _ => trivial
  | _ => exact trivial

theorem rep_writeAll (fd : Handle) (fuel : Nat) (data : Bytes) : Rep (fun r => r = true) (writeAll fd fuel data) := by
  induction fuel generalizing data with
  | zero => exact trivial
  | succ fuel ih =>
    unfold writeAll
    split
    · exact trivial
    simp only [bind_eq, pure_eq, call_bind]
    refine Rep.call_err (fun e => rfl) fun r => ?_
    cases r with
    | ok n => dsimp only; split; exact trivial; exact ih _
    | _ => exact trivial

theorem rep_messageGetFd (env : PEnv) (ms : MsgSt) (part : Option Msg) (dobody : Bool) :
    Rep (fun r => r = none) (messageGetFd env ms part dobody) := by
  unfold messageGetFd
  simp only [bind_eq, pure_eq, call_bind]
  refine Rep.bind (EA := fun r => r = none) ?_ ?_ ?_
  · split
    · split
      · exact trivial
      · refine Rep.bind (rep_writefd _) ?_ ?_
        · rintro _ rfl; exact rfl
        · intro f
          cases f with
          | none => exact trivial
          | some fd =>
            dsimp only
            refine Rep.bind (rep_writeAll _ _ _) ?_ ?_
            · rintro _ rfl
              simp only [if_true]
              intro _; exact rfl
            · intro e
              split
              · exact Rep.call_never rfl fun _ => trivial
              · exact trivial
    · split
      · refine Rep.bind (rep_writefd _) ?_ ?_
        · rintro _ rfl; exact rfl
        · intro f
          cases f with
          | none => exact trivial
          | some fd =>
            dsimp only
            refine Rep.bind (rep_messageWriteP _ _) ?_ ?_
            · rintro _ rfl
              simp only [if_true]
              intro _; exact rfl
            · intro e
              split
              · exact Rep.call_never rfl fun _ => trivial
              · exact trivial
      · split
        · exact trivial
        · exact Rep.call_err (fun e => rfl) fun _ => trivial
  · rintro _ rfl; exact rfl
  · intro fdo
    cases fdo with
    | none => exact trivial
    | some fd =>
      dsimp only
      refine Rep.call_err ?_ fun r => ?_
      · intro e
        simp only [isOk]
        intro _; exact rfl
      · split
        · exact trivial
        · exact Rep.call_never rfl fun _ => trivial

theorem execP_tail_all (devnull : Option Handle) (a : Int) (ha : a ≠ 0) :
    All (fun rc : Int => rc ≠ 0)
      (match devnull with
        | some h => Prog.call (Call.close h) fun _ => Prog.ret a
        | none => Prog.ret a) := by
  cases devnull with
  | some h => intro _; exact ha
  | none => exact ha

theorem execP_tail_rep (devnull : Option Handle) (a : Int) :
    Rep (fun rc : Int => rc ≠ 0)
      (match devnull with
        | some h => Prog.call (Call.close h) fun _ => Prog.ret a
        | none => Prog.ret a) := by
  cases devnull with
  | some h => exact Rep.call_never rfl fun _ => trivial
  | none => exact trivial

theorem rep_execP (argv : List Bytes) (fdin : Option Handle) : Rep (fun rc => rc ≠ 0) (execP argv fdin) := by
  unfold execP
  simp only [bind_eq, pure_eq, call_bind]
  refine Rep.bind (EA := fun dn => dn = none) ?_ ?_ ?_
  · split
    · exact trivial
    · refine Rep.call_err (fun e => rfl) fun r => ?_
      cases r <;> exact trivial
  · rintro _ rfl
    show (-1 : Int) ≠ 0
    decide
  · intro dn
    cases dn with
    | none => exact trivial
    | some devnull =>
      dsimp only
      have tailAll := execP_tail_all devnull
      have tailRep := execP_tail_rep devnull
      refine Rep.call_err ?_ ?_
      · intro e
        exact tailAll (-1) (by decide)
      · intro r
        refine Rep.bind (EA := fun res => res ≠ 0) ?_ (fun a ha => tailAll a ha) tailRep
        cases r with
        | ok _ =>
          dsimp only
          refine Rep.call_err ?_ ?_
          · intro e
            show (-1 : Int) ≠ 0
            decide
          · intro ws
            cases ws with
            | ok status => exact trivial
            | _ => exact trivial
        | _ => exact trivial

theorem rep_moveBranch (env : PEnv) (mh : Match) (st : ExecSt) :
    Rep (fun r => r.2 = true) (moveBranch env mh st) := by
  unfold moveBranch
  have closeRet : ∀ (md : Maildir) (x : ExecSt × Bool),
      Rep (fun r : ExecSt × Bool => r.2 = true) ((maildirClose md).bind fun _ => Prog.ret x) := fun md x =>
    Rep.bind (EA := fun _ => False) (rep_maildirClose md) (fun _ h => h.elim) fun _ => trivial
  refine Rep.bind (rep_maildirOpenDst _) ?_ ?_
  · rintro _ rfl; exact rfl
  · intro d
    cases d with
    | none => exact trivial
    | some dst =>
      dsimp only
      refine Rep.bind (rep_maildirMove _ _ _ _) ?_ ?_
      · rintro ⟨ms', e⟩ h
        simp only at h
        subst h
        simp only [if_true]
        exact All.bind_of_forall _ fun _ => rfl
      · rintro ⟨ms', e⟩
        dsimp only
        split
        · exact closeRet _ _
        · split
          · split
            · exact closeRet _ _
            · exact trivial
          · exact closeRet _ _

theorem rep_execOne (env : PEnv) (mh : Match) (st : ExecSt) : Rep (fun r => r.2 = true) (execOne env mh st) := by
  unfold execOne
  simp only [bind_eq, pure_eq, call_bind]
  split
  · exact rep_moveBranch env mh st
  · exact rep_moveBranch env mh st
  · exact rep_moveBranch env mh st
  · refine Rep.bind (rep_maildirUnlink _ _) ?_ fun _ => trivial
    rintro _ rfl; exact rfl
  · refine Rep.bind (rep_maildirWrite _ _ _) ?_ fun _ => trivial
    rintro ⟨ms', e⟩ h; exact h
  · refine Rep.bind (rep_maildirWrite _ _ _) ?_ fun _ => trivial
    rintro ⟨ms', e⟩ h; exact h
  · exact trivial
  · refine Rep.bind (EA := fun fdr => fdr = none) ?_ ?_ ?_
    · split
      · refine Rep.bind (rep_messageGetFd _ _ _ _) ?_ fun _ => trivial
        rintro _ rfl; exact rfl
      · exact trivial
    · rintro _ rfl; exact rfl
    · intro fdr
      cases fdr with
      | none => exact trivial
      | some fd =>
        dsimp only
        refine Rep.bind (rep_execP _ fd) ?_ ?_
        · intro rc hrc
          cases fd with
          | some h => intro _; show (rc != 0) = true; simpa using hrc
          | none => show (rc != 0) = true; simpa using hrc
        · intro rc
          cases fd with
          | some h => exact Rep.call_never rfl fun _ => trivial
          | none => exact trivial
  · exact trivial

theorem rep_matchesExec (env : PEnv) (ml : MatchList) (st : ExecSt) :
    Rep (fun r => r.2 = true) (matchesExec env ml st) := by
  have closeRet : ∀ (md : Maildir) (x : ExecSt × Bool),
      Rep (fun r : ExecSt × Bool => r.2 = true) ((maildirClose md).bind fun _ => Prog.ret x) := fun md x =>
    Rep.bind (EA := fun _ => False) (rep_maildirClose md) (fun _ h => h.elim) fun _ => trivial
  induction ml generalizing st with
  | nil =>
    unfold matchesExec
    simp only [bind_eq, pure_eq]
    split
    · exact closeRet _ _
    · exact trivial
  | cons mh rest ih =>
    unfold matchesExec
    simp only [bind_eq, pure_eq]
    refine Rep.bind (rep_execOne env mh st) ?_ ?_
    · rintro ⟨st', e⟩ h
      simp only at h
      subst h
      simp only [if_true]
      split
      · exact All.bind_of_forall _ fun _ => rfl
      · exact rfl
    · rintro ⟨st', e⟩
      dsimp only
      split
      · split
        · exact closeRet _ _
        · exact trivial
      · exact ih _

/-- C01, "a failure is reported", for EVERY fault plan: if any call of the execution of an action
list fails - because the plan injects a failure there or because the file system says so - and the
call is not one of the ignored sites nor the failure one mdsort recovers from, then `matches_exec`
returns an error. -/
theorem exec_failure_reported (env : PEnv) (ml : MatchList) (st : ExecSt) (w : World) (plan : Plan)
    (c : Call) (e : String)
    (hmem : (c, Res.err e) ∈ (run plan (matchesExec env ml st) w 0).2.1.trace.drop w.trace.length)
    (hs : ignoredSite c = false) (hh : handledErr c e = false) :
    (run plan (matchesExec env ml st) w 0).1.2 = true := by
  rw [run_trace_drop] at hmem
  exact (rep_matchesExec env ml st).sound plan w 0 ⟨_, hmem, by simp [bad, hs, hh]⟩

/-- The same in terms of the plan: the fault injected at call number `i` is reported. -/
theorem exec_fault_reported (env : PEnv) (ml : MatchList) (st : ExecSt) (w : World) (plan : Plan)
    (i : Nat) (c : Call) (r : Res) (e : String)
    (hget : ((run plan (matchesExec env ml st) w 0).2.1.trace.drop w.trace.length)[i]? = some (c, r))
    (hp : plan i = some (.fail e)) (hs : ignoredSite c = false) (hh : handledErr c e = false) :
    (run plan (matchesExec env ml st) w 0).1.2 = true := by
  have hr : r = .err e := by
    rw [run_trace_drop] at hget
    exact callsFrom_fault plan _ w 0 i c r e hget (by simpa using hp)
  subst hr
  exact exec_failure_reported env ml st w plan c e (List.mem_of_getElem? hget) hs hh

end Mdsort.Proofs.World
