import Mdsort.Model.Decode
import Mdsort.Spec.Decode

/-! Quoted-printable: model loop = reference decoder. -/

namespace Mdsort.Proofs
open Mdsort

theorem ofNat_toNat_u8 (c : UInt8) : UInt8.ofNat c.toNat = c := by simp

theorem forall_u8 {P : UInt8 → Prop} (h : ∀ n, n < 256 → P (UInt8.ofNat n)) : ∀ c, P c := by
  intro c
  have := h c.toNat c.toNat_lt
  simpa using this

theorem htoa_eq_hexval : ∀ c : UInt8, Model.htoa c = (Spec.hexval c).map UInt8.ofNat := by
  apply forall_u8; decide +kernel

theorem hexval_lt : ∀ c : UInt8, ∀ h, Spec.hexval c = some h → h < 16 := by
  intro c h hc
  unfold Spec.hexval at hc
  split at hc
  · cases hc; rename_i h1; simp at h1; have := c.toNat_lt; rcases h1 with ⟨h1, h2⟩
    rw [UInt8.le_iff_toNat_le] at h1 h2; simp at h1 h2; omega
  · split at hc
    · cases hc; rename_i h1; simp at h1; rcases h1 with ⟨h1, h2⟩
      rw [UInt8.le_iff_toNat_le] at h1 h2; simp at h1 h2; omega
    · contradiction

theorem hex_byte : ∀ h, h < 16 → ∀ l, l < 16 →
    (UInt8.ofNat h <<< 4) ||| UInt8.ofNat l = Spec.byte (h * 16 + l) := by decide +kernel

theorem qp_ne61 (us : Bool) (c : UInt8) (r : Bytes) (h : c ≠ 61) :
    Spec.qp us (c :: r) = (if us && c == 95 then 32 else c) :: Spec.qp us r := by
  rw [Spec.qp]
  · intro r' h'; exact absurd h' h
  · intro x y r' h'; exact absurd h' h

theorem qp_61_single (us : Bool) : Spec.qp us [61] = [61] := by
  simp [Spec.qp]

theorem qp_61_10 (us : Bool) (r : Bytes) : Spec.qp us (61 :: 10 :: r) = Spec.qp us r := by
  simp [Spec.qp]

theorem qp_61_x (us : Bool) (x : UInt8) (h : x ≠ 10) : Spec.qp us [61, x] = 61 :: Spec.qp us [x] := by
  rw [Spec.qp]
  · simp
  · intro r' _ h'; simp at h'; exact h h'.1
  · intro x y r' _ h'; simp at h'

theorem qp_61_x_y (us : Bool) (x y : UInt8) (r : Bytes) (h : x ≠ 10) :
    Spec.qp us (61 :: x :: y :: r) =
      match Spec.hexval x, Spec.hexval y with
      | some h, some l => Spec.byte (h * 16 + l) :: Spec.qp us r
      | _, _ => 61 :: Spec.qp us (x :: y :: r) := by
  rw [Spec.qp]
  · rfl
  · intro h'; exact h h'

theorem qpLoop_gen (us : Bool) (s out : Bytes) : Model.qpLoop us s out = out ++ Spec.qp us s := by
  fun_induction Model.qpLoop us s out
  case case1 => simp [Spec.qp]
  case case2 c r h ih =>
    simp at h
    rw [ih, qp_ne61 _ _ _ (by rw [h.1]; decide)]; simp [h]
  case case3 c r h1 h2 ih =>
    simp at h1 h2
    rw [ih, qp_ne61 _ _ _ h2]
    have : (us && c == 95) = false := by
      cases us <;> simp; exact fun hc => by simpa using h1 hc
    simp [this]
  case case4 c h1 h2 =>
    simp at h2; subst h2; rw [qp_61_single]
  case case5 c h1 h2 l r h ih =>
    simp at h2 h; subst h2; subst h; rw [ih, qp_61_10]
  case case6 c h1 h2 l h ih =>
    simp at h2 h; subst h2; rw [ih, qp_61_x _ _ h]; simp
  case case7 c h1 h2 d h l r hi lo hl hd ih =>
    simp at h2 h; subst h2
    rw [ih, qp_61_x_y _ _ _ _ h]
    rw [htoa_eq_hexval] at hl hd
    cases hx : Spec.hexval d with
    | none => simp [hx] at hd
    | some a =>
      cases hy : Spec.hexval l with
      | none => simp [hy] at hl
      | some b =>
        simp [hx] at hd; simp [hy] at hl
        subst hd; subst hl
        simp [hex_byte a (hexval_lt _ _ hx) b (hexval_lt _ _ hy)]
  case case8 c h1 h2 d h l r hx ih =>
    simp at h2 h; subst h2
    rw [ih, qp_61_x_y _ _ _ _ h]
    have : ¬ ∃ a b, Spec.hexval d = some a ∧ Spec.hexval l = some b := by
      rintro ⟨a, b, ha, hb⟩
      exact hx (UInt8.ofNat a) (UInt8.ofNat b) (by rw [htoa_eq_hexval, ha]; rfl) (by rw [htoa_eq_hexval, hb]; rfl)
    split
    · rename_i a b ha hb; exact absurd ⟨a, b, ha, hb⟩ this
    · simp

end Mdsort.Proofs
