import Mdsort.Proofs.WorldStdinWrite

/-! `matches_exec` in a stdin run: the invariant between two actions, and what every action
(whatever it is, whatever fails) leaves of the spool. -/

namespace Mdsort.Proofs.World
open Mdsort Mdsort.Model

/-- The directory `maildir_open(path, 0, env)` opens for a move / flag / flags action. -/
def destPath (path : Bytes) : Option Bytes :=
  match parseSubdir path with
  | none => none
  | some sd =>
    match pathslice path PATH_MAX 0 (-1) with
    | none => none
    | some root => pathjoin PATH_MAX root (subdirName sd)

def moveTy (t : MType) : Prop := t = .move ∨ t = .flag ∨ t = .flags

/-- The spool root is a `mkdtemp` name (ends in `X`), the spool directory is its `new`. -/
structure SpoolShape (S : Spool) : Prop where
  srLast : S.sr.getLast? = some 88
  sp : S.sp = S.sr ++ [47] ++ subdirName .new

theorem shape_ne_sr {S : Spool} (hS : SpoolShape S) {p root : Bytes} {sd : Subdir}
    (h : p = root ++ [47] ++ subdirName sd) : p ≠ S.sr := by
  intro e
  have := hS.srLast
  rw [← e, h] at this
  cases sd <;> simp [subdirName] at this

theorem pathjoin_eq {n : Nat} {d f p : Bytes} (h : pathjoin n d f = some p) : p = d ++ [47] ++ f := by
  unfold pathjoin at h
  dsimp only at h
  split at h
  · cases h
  · cases h; rfl

theorem spec_maildirOpenDst_sp (S : Spool) (path : Bytes) {w : World} (hroot : w.dir S.sr = some []) :
    wp (fun _ => True) (maildirOpenDst path)
      (fun r w' => Inv S w w' ∧ w'.dirs = w.dirs ∧
        ∀ dst, r = some dst → dst.dirH = some w.handles.length ∧ w'.dirPath w.handles.length = some dst.path ∧
          (w'.dir dst.path).isSome ∧ destPath path = some dst.path ∧
          dst.path = dst.root ++ [47] ++ subdirName dst.subdir ∧ w.handles.length < w'.handles.length) w := by
  unfold maildirOpenDst maildirOpendir
  simp only [bind_eq, pure_eq, call_bind]
  split
  · exact ⟨Inv.refl hroot, rfl, by intro _ h; cases h⟩
  rename_i sd hsd
  split
  · exact ⟨Inv.refl hroot, rfl, by intro _ h; cases h⟩
  rename_i root hrootp
  split
  · exact ⟨Inv.refl hroot, rfl, by intro _ h; cases h⟩
  rename_i p hp
  simp only [call_bind']
  intro ft
  refine ⟨trivial, ?_⟩
  rcases opendir_results ft w p with ⟨e, he⟩ | ⟨he, hdp⟩
  · rw [he]
    have hsf := sameFsS_err w (.opendir p) e (by intro _ h; cases h) (by intro _ h; cases h) (by intro _ h; cases h)
    simp only [ret_bind, if_true]
    exact ⟨Inv.ofSameFs hsf hroot, hsf.1, by intro _ h; cases h⟩
  · rw [he]
    have hc := core_opendir_ok hdp w.handles.length
    simp only [ret_bind, Bool.false_eq_true, if_false]
    have inv1 := (Inv.refl (S := S) hroot).step_plain (.opendir p) (.ok w.handles.length) rfl (by intro h hh; cases hh)
    have hd1 : (stepWorld w (.opendir p) (.ok w.handles.length)).dirs = w.dirs := by
      rw [stepWorld_dirs]; exact core_dirs _ _ _ rfl
    refine ⟨inv1, hd1, ?_⟩
    intro dst h
    cases h
    refine ⟨rfl, ?_, ?_, ?_, pathjoin_eq hp, ?_⟩
    · rw [stepWorld_dirPath, hc]; simp [World.dirPath, obj_newHandle]
    · rw [dir_of_dirs hd1]; exact hdp
    · simp only [destPath, hsd, hrootp, hp]
    · rw [stepWorld_handles, hc]; simp

theorem core_closedir (w : World) (h : Handle) (r : Res) : core w (.closedir h) r = w.setObj h .closed := by
  cases r <;> simp [core, applyOk]

theorem dirs_closedir (w : World) (h : Handle) (r : Res) : (stepWorld w (.closedir h) r).dirs = w.dirs := by
  rw [stepWorld_dirs]; exact core_dirs _ _ _ rfl

theorem dirPath_closedir_ne (w : World) (h h' : Handle) (r : Res) (hne : h' ≠ h) :
    (stepWorld w (.closedir h) r).dirPath h' = w.dirPath h' := by
  rw [stepWorld_dirPath, core_closedir]
  apply dirPath_congr
  simp [obj_setObj, hne]

theorem InvX.closedir {S : Spool} {X : Handle → Prop} {w0 w : World} (a : InvX S X w0 w) (fd : Handle) (r : Res) (hx : X fd) :
    InvX S X w0 (stepWorld w (.closedir fd) r) := by
  have hd := dirs_closedir w fd r
  refine ⟨?_, ?_, fun q => by rw [dir_of_dirs hd]; exact a.exist q, by rw [dir_of_dirs hd]; exact a.root⟩
  · intro h hh hxh
    have : h ≠ fd := fun e => hxh (e ▸ hx)
    rw [stepWorld_obj, core_closedir, obj_setObj]
    simp only [this, false_and, if_false]
    exact a.objs h hh hxh
  · rw [stepWorld_handles, core_closedir]; simpa using a.len

/-- What holds after an action, whatever happened. -/
def AllPost (S : Spool) (w : World) (r : ExecSt × Bool) (w' : World) : Prop :=
  InvX S (fun h => S.d < h) w w' ∧
  (∃ a b, (95 : UInt8) ∈ a ∧ (95 : UInt8) ∈ b ∧ NamesIn w' S.sp [a, b]) ∧
  (∀ f, r.1.ms.fd = some f → S.d < f) ∧
  (r.1.chsrc = true → ∃ h, r.1.src.dirH = some h ∧ S.d < h)

theorem AllPost.closedir {S : Spool} {w w' : World} {r : ExecSt × Bool} (a : AllPost S w r w') (h : Handle) (rc : Res)
    (hd : S.d < h) : AllPost S w r (stepWorld w' (.closedir h) rc) := by
  obtain ⟨a1, ⟨x, y, hx, hy, hn⟩, a3, a4⟩ := a
  exact ⟨a1.closedir h rc hd, ⟨x, y, hx, hy, hn.congr (dir_of_dirs (dirs_closedir _ _ _) _)⟩, a3, a4⟩

/-- The situation between two actions of a stdin run. `T`: the message is tracked (no discard
so far); `NSD`: no move destination is the spool. -/
structure ActPre (S : Spool) (T NSD : Prop) (cs : List Bytes) (w : World) (st : ExecSt) : Prop where
  src : ∃ sh, st.src.dirH = some sh ∧ w.dirPath sh = some st.src.path ∧ (w.dir st.src.path).isSome ∧
    (st.chsrc = false → sh = S.d) ∧ (st.chsrc = true → S.d < sh) ∧
    (∀ f, st.ms.fd = some f → S.d < f ∧ f ≠ sh ∧ f < w.handles.length)
  stdinSrc : st.chsrc = false → st.src.stdin = true
  shape : st.src.path = st.src.root ++ [47] ++ subdirName st.src.subdir
  dOpen : w.dirPath S.d = some S.sp
  root : w.dir S.sr = some []
  names : NamesIn w S.sp (if st.src.path = S.sp then [st.ms.name] else [])
  nm95 : (95 : UInt8) ∈ st.ms.name
  trk : T → ∃ f0, GoodAt w cs st.src.path st.ms.name f0
  msg : (messageWrite st.ms.msg).1 ∈ cs
  nsd : NSD → st.chsrc = true → st.src.path ≠ S.sp

theorem ActPre.closedir {S : Spool} {T NSD : Prop} {cs : List Bytes} {w : World} {st : ExecSt}
    (pre : ActPre S T NSD cs w st) (h : Handle) (rc : Res) (hne : ∀ sh, st.src.dirH = some sh → sh ≠ h) (hd : S.d ≠ h) :
    ActPre S T NSD cs (stepWorld w (.closedir h) rc) st := by
  obtain ⟨sh, h1, h2, h3, h4, h5, h6⟩ := pre.src
  have hdirs := dirs_closedir w h rc
  have hlen : w.handles.length = (stepWorld w (.closedir h) rc).handles.length := by
    rw [stepWorld_handles, core_closedir]; simp
  refine ⟨⟨sh, h1, ?_, ?_, h4, h5, ?_⟩, pre.stdinSrc, pre.shape, ?_, ?_, ?_, pre.nm95, ?_, pre.msg, pre.nsd⟩
  · rw [dirPath_closedir_ne w h sh rc (hne sh h1)]; exact h2
  · rw [dir_of_dirs hdirs]; exact h3
  · intro f hf
    obtain ⟨a, b, c⟩ := h6 f hf
    exact ⟨a, b, by rw [← hlen]; exact c⟩
  · rw [dirPath_closedir_ne w h S.d rc hd]; exact pre.dOpen
  · rw [dir_of_dirs hdirs]; exact pre.root
  · exact pre.names.congr (dir_of_dirs hdirs _)
  · intro hT
    obtain ⟨f0, hg⟩ := pre.trk hT
    exact ⟨f0, hg.step _ _ trivial trivial⟩

/-- Names of the spool after a failed action: the message's name and at most one new one. -/
theorem ActPre.two {S : Spool} {T NSD : Prop} {cs : List Bytes} {w : World} {st : ExecSt} (pre : ActPre S T NSD cs w st)
    (w' : World) (nm : Bytes) (hnm : (95 : UInt8) ∈ nm)
    (hn : NamesIn w' S.sp (nm :: (if st.src.path = S.sp then [st.ms.name] else []))) :
    ∃ a b, (95 : UInt8) ∈ a ∧ (95 : UInt8) ∈ b ∧ NamesIn w' S.sp [a, b] := by
  refine ⟨nm, st.ms.name, hnm, pre.nm95, hn.mono ?_⟩
  intro x hx
  rcases List.mem_cons.1 hx with h | h
  · simp [h]
  · split at h
    · simp only [List.mem_singleton] at h; simp [h]
    · cases h

/-- The `move` / `flag` / `flags` branch of `matches_exec`. -/
theorem spec_moveBranch_sp (S : Spool) (hS : SpoolShape S) (T NSD : Prop) (cs : List Bytes) (env : PEnv) (mh : Match)
    (st : ExecSt) {w : World} (pre : ActPre S T NSD cs w st) (hN : NSD → destPath mh.path ≠ some S.sp) :
    wp (fun _ => True) (moveBranch env mh st)
      (fun r w' => AllPost S w r w' ∧
        (r.2 = false → ActPre S T NSD cs w' r.1 ∧ r.1.chsrc = true)) w := by
  obtain ⟨sh, hsh, hps, hsd, hch0, hch1, hfds⟩ := pre.src
  have hdlt : S.d < w.handles.length := lt_of_dirPath pre.dOpen
  have hshlt : sh < w.handles.length := lt_of_dirPath hps
  unfold moveBranch
  have hT1 : wp (fun _ => True) (maildirOpenDst mh.path)
      (fun _ w1 => T → ∃ f0, GoodAt w1 cs st.src.path st.ms.name f0) w := by
    by_cases hT' : T
    · obtain ⟨f0, hg⟩ := pre.trk hT'
      exact wp_mono (wp_true (spec_maildirOpenDst mh.path hg)) (fun _ _ h _ => ⟨f0, h.1⟩)
    · exact wp_mono wp_triv (fun _ _ _ h => absurd h hT')
  refine wp_bind_mono (wp_and (spec_maildirOpenDst_sp S mh.path pre.root) hT1) ?_
  rintro dopt w1 ⟨⟨inv1, hdirs1, hdst⟩, htr1⟩
  have names1 := pre.names.congr (dir_of_dirs hdirs1 S.sp)
  have fdsAll : ∀ f, st.ms.fd = some f → S.d < f := fun f hf => (hfds f hf).1
  have chAll : st.chsrc = true → ∃ h, st.src.dirH = some h ∧ S.d < h := fun hc => ⟨sh, hsh, hch1 hc⟩
  cases dopt with
  | none =>
    exact ⟨⟨inv1.toX _, pre.two w1 st.ms.name pre.nm95 (names1.mono (fun x hx => List.mem_cons_of_mem _ hx)), fdsAll, chAll⟩,
      by intro h; cases h⟩
  | some dst =>
    obtain ⟨hdh, hpd, hdd, hdest, hshape, hlen1⟩ := hdst dst rfl
    dsimp only
    have hps1 := inv1.dirPath hps
    have hsr1 := shape_ne_sr hS pre.shape
    have hsr2 := shape_ne_sr hS hshape
    refine wp_bind_mono (spec_maildirMove_sp S T cs env st.src dst st.ms hsh hdh hps1 hpd hdd hsr1 hsr2 inv1.root names1
      htr1 pre.msg) ?_
    rintro ⟨ms', e⟩ w2 ⟨inv2, hmsg, hfd, ⟨nm, hnm, hnames2⟩, hok⟩
    dsimp only at hmsg hfd hok ⊢
    have invA : Inv S w w2 := inv1.trans inv2
    have all2 : ∀ st' : ExecSt, st'.ms = ms' → (st'.chsrc = true → ∃ h, st'.src.dirH = some h ∧ S.d < h) →
        ∀ b, AllPost S w (st', b) w2 := by
      intro st' h1 h2 b
      refine ⟨invA.toX _, pre.two w2 nm hnm hnames2, ?_, h2⟩
      intro f hf
      simp only [h1, hfd] at hf
      exact fdsAll f hf
    cases e with
    | true =>
      simp only [if_true]
      unfold maildirClose
      simp only [hdh, bind_eq, pure_eq, call_bind, call_bind', ret_bind]
      refine wp_call_any fun rc => ⟨trivial, ?_⟩
      exact ⟨(all2 { src := st.src, chsrc := st.chsrc, ms := ms', reject := st.reject } rfl chAll true).closedir _ rc hdlt,
        by intro h; cases h⟩
    | false =>
      obtain ⟨hn95, hnok, htrok, hstd⟩ := hok rfl
      simp only [Bool.false_eq_true, if_false]
      have hpd2 : w2.dirPath w.handles.length = some dst.path := inv2.dirPath hpd
      have hdd2 : (w2.dir dst.path).isSome := by rw [inv2.exist]; exact hdd
      have namesOk : NamesIn w2 S.sp (if dst.path = S.sp then [ms'.name] else []) := by
        refine hnok.mono ?_
        intro x hx
        rcases List.mem_append.1 hx with h | h
        · exact h
        · exfalso
          by_cases hsp : st.src.path = S.sp
          · simp [hsp] at h
          · simp [hsp] at h
      have fds2 : ∀ f, ms'.fd = some f → S.d < f ∧ f ≠ w.handles.length ∧ f < w2.handles.length := by
        intro f hf
        rw [hfd] at hf
        obtain ⟨a, _, c⟩ := hfds f hf
        exact ⟨a, Nat.ne_of_lt c, Nat.lt_of_lt_of_le c invA.len⟩
      split
      · -- the source changes
        have pre2 : ActPre S T NSD cs w2 { src := dst, chsrc := true, ms := ms', reject := st.reject } := by
          refine ⟨⟨w.handles.length, hdh, hpd2, hdd2, (by intro h; cases h), fun _ => hdlt, fds2⟩, (by intro h; cases h), hshape,
            invA.dirPath pre.dOpen, invA.root, namesOk, hn95, htrok, by rw [hmsg]; exact pre.msg, ?_⟩
          intro hnsd _ e
          exact hN hnsd (by rw [hdest, e])
        have all2' := all2 { src := dst, chsrc := true, ms := ms', reject := st.reject } rfl (fun _ => ⟨_, hdh, hdlt⟩) false
        split
        · rename_i hch
          unfold maildirClose
          simp only [hsh, bind_eq, pure_eq, call_bind, call_bind', ret_bind]
          refine wp_call_any fun rc => ⟨trivial, ?_⟩
          have hshd : S.d < sh := hch1 hch
          refine ⟨all2'.closedir sh rc hshd, fun _ => ⟨pre2.closedir sh rc ?_ (Nat.ne_of_lt hshd), rfl⟩⟩
          intro sh' hsh'
          simp only [hdh, Option.some.injEq] at hsh'
          subst hsh'
          exact Nat.ne_of_gt hshlt
        · exact ⟨all2', fun _ => ⟨pre2, rfl⟩⟩
      · -- same maildir and subdirectory
        rename_i hsame
        have hsame' : st.src.subdir = dst.subdir ∧ st.src.root = dst.root := by
          simpa using hsame
        have hpath : dst.path = st.src.path := by rw [hshape, pre.shape, hsame'.1, hsame'.2]
        have hch : st.chsrc = true := by
          cases hc : st.chsrc with
          | true => rfl
          | false =>
            exfalso
            have h1 := pre.stdinSrc hc
            rw [h1, hsame'.2] at hstd
            simp at hstd
        unfold maildirClose
        simp only [hdh, bind_eq, pure_eq, call_bind, call_bind', ret_bind]
        refine wp_call_any fun rc => ⟨trivial, ?_⟩
        have pre2 : ActPre S T NSD cs w2 { src := st.src, chsrc := st.chsrc, ms := ms', reject := st.reject } := by
          refine ⟨⟨sh, hsh, invA.dirPath hps, by rw [invA.exist]; exact hsd, hch0, hch1, ?_⟩, pre.stdinSrc, pre.shape,
            invA.dirPath pre.dOpen, invA.root, by rw [← hpath]; exact namesOk, hn95, by rw [← hpath]; exact htrok,
            by rw [hmsg]; exact pre.msg, pre.nsd⟩
          intro f hf
          rw [hfd] at hf
          obtain ⟨a, b, c⟩ := hfds f hf
          exact ⟨a, b, Nat.lt_of_lt_of_le c invA.len⟩
        refine ⟨(all2 { src := st.src, chsrc := st.chsrc, ms := ms', reject := st.reject } rfl chAll false).closedir _ rc hdlt,
          fun _ => ⟨pre2.closedir _ rc ?_ (Nat.ne_of_lt hdlt), hch⟩⟩
        intro sh' hsh'
        simp only [hsh, Option.some.injEq] at hsh'
        subst hsh'
        exact Nat.ne_of_lt hshlt

end Mdsort.Proofs.World
