import Mdsort.Proofs.EvalAttSim

/-!
# What `parseRuleA` recognises, and monotonicity of the specification run (C03 with attachments)
-/

namespace Mdsort.Proofs
open Mdsort Mdsort.Model Mdsort.Spec

/-! ## the OR chain of rules and the AND chain of actions as lists -/

def att_parseAllA : List Expr → Option (List RuleA)
  | [] => some []
  | x :: xs =>
    match parseRuleA x, att_parseAllA xs with
    | some r, some rs => some (r :: rs)
    | _, _ => Option.none

theorem att_parseAllA_snoc : ∀ (xs : List Expr) (rs : List RuleA) (x : Expr) (r : RuleA),
    att_parseAllA xs = some rs → parseRuleA x = some r → att_parseAllA (xs ++ [x]) = some (rs ++ [r]) := by
  intro xs
  induction xs with
  | nil =>
    intro rs x r h hx
    simp only [att_parseAllA, Option.some.injEq] at h
    subst h
    simp [att_parseAllA, hx]
  | cons y ys ih =>
    intro rs x r h hx
    simp only [att_parseAllA] at h
    cases hy : parseRuleA y with
    | none => simp [hy] at h
    | some ry =>
      cases hys : att_parseAllA ys with
      | none => simp [hy, hys] at h
      | some rys =>
        simp only [hy, hys, Option.some.injEq] at h
        subst h
        simp [att_parseAllA, hy, ih rys x r hys hx]

theorem att_parseRulesA_orChain : ∀ (e : Expr) (rs : List RuleA), parseRulesA e = some rs →
    att_parseAllA (orChain e) = some rs := by
  intro e
  induction e with
  | or lno l r ihl _ =>
    intro rs h
    rw [parseRulesA] at h
    cases hl : parseRulesA l with
    | none => simp [hl] at h
    | some ls =>
      cases hr : parseRuleA r with
      | none => simp [hl, hr] at h
      | some x =>
        simp only [hl, hr, Option.some.injEq] at h
        subst h
        rw [orChain]
        exact att_parseAllA_snoc _ _ _ _ (ihl ls hl) hr
  | _ =>
    intro rs h
    simp only [parseRulesA, Option.map_eq_some_iff] at h
    obtain ⟨x, hx, rfl⟩ := h
    simp [orChain, att_parseAllA, hx]

def att_parseActs : List Expr → Option (List ActA)
  | [] => some []
  | x :: xs =>
    match parseActA x, att_parseActs xs with
    | some a, some as => some (a :: as)
    | _, _ => Option.none

theorem att_parseActs_snoc : ∀ (xs : List Expr) (as : List ActA) (x : Expr) (a : ActA),
    att_parseActs xs = some as → parseActA x = some a → att_parseActs (xs ++ [x]) = some (as ++ [a]) := by
  intro xs
  induction xs with
  | nil =>
    intro as x a h hx
    simp only [att_parseActs, Option.some.injEq] at h
    subst h
    simp [att_parseActs, hx]
  | cons y ys ih =>
    intro as x a h hx
    simp only [att_parseActs] at h
    cases hy : parseActA y with
    | none => simp [hy] at h
    | some ry =>
      cases hys : att_parseActs ys with
      | none => simp [hy, hys] at h
      | some rys =>
        simp only [hy, hys, Option.some.injEq] at h
        subst h
        simp [att_parseActs, hy, ih rys x a hys hx]

theorem att_parseChainA_andChain : ∀ (e : Expr) (as : List ActA), parseChainA e = some as →
    att_parseActs (andChain e) = some as := by
  intro e
  induction e with
  | and lno l r ihl _ =>
    intro as h
    rw [parseChainA] at h
    cases hl : parseChainA l with
    | none => simp [hl] at h
    | some ls =>
      cases hr : parseActA r with
      | none => simp [hl, hr] at h
      | some x =>
        simp only [hl, hr, Option.some.injEq] at h
        subst h
        rw [andChain]
        exact att_parseActs_snoc _ _ _ _ (ihl ls hl) hr
  | _ =>
    intro as h
    simp only [parseChainA, Option.map_eq_some_iff] at h
    obtain ⟨x, hx, rfl⟩ := h
    simp [andChain, att_parseActs, hx]

/-- The two kinds of action. -/
theorem att_parseActA_spec {x : Expr} {a : ActA} (h : parseActA x = some a) :
    (∃ l l' e rs, x = .attBlock l (.block l' e) ∧ a = .att l rs ∧ parseRulesA e = some rs) ∨
    (a = .plain x ∧ isActionExpr x = true) := by
  cases x with
  | attBlock l b =>
    cases b with
    | block l' e =>
      left
      simp only [parseActA, Option.map_eq_some_iff] at h
      obtain ⟨rs, h1, h2⟩ := h
      exact ⟨l, l', e, rs, rfl, h2.symm, h1⟩
    | _ => simp [parseActA, isActionExpr] at h
  | _ =>
    right
    simp only [parseActA, isActionExpr] at h
    first
      | (simp only [if_true, Option.some.injEq] at h; exact ⟨h.symm, rfl⟩)
      | (simp at h)

theorem att_andChain_leaf (e : Expr) (h : ∀ lno l r, e ≠ .and lno l r) : andChain e = [e] := by
  cases e <;> first | rfl | exact absurd rfl (h _ _ _)

/-- The two shapes of a rule: a nested block, or actions `es` followed by at most one control
action. -/
theorem att_parseRuleA_spec {x : Expr} {r : RuleA} (h : parseRuleA x = some r) :
    (∃ lno c l e rs, x = .mtch lno c (.block l e) ∧ r = .blk lno c rs ∧ isCond c = true ∧
      parseRulesA e = some rs) ∨
    (∃ lno c rhs as ctl es tail, x = .mtch lno c rhs ∧ r = .acts lno c as ctl ∧ isCond c = true ∧
      andChain rhs = es ++ tail ∧ att_parseActs es = some as ∧
      ((ctl = .none ∧ tail = [] ∧ as ≠ []) ∨ (∃ xc, tail = [xc] ∧ isCtlExpr xc = some ctl))) := by
  cases x with
  | mtch lno c rhs =>
    by_cases hc : isCond c = true
    · cases rhs with
      | block l e =>
        left
        simp only [parseRuleA, hc, Bool.not_true, Bool.false_eq_true, if_false, Option.map_eq_some_iff] at h
        obtain ⟨rs, h1, h2⟩ := h
        exact ⟨lno, c, l, e, rs, rfl, h2.symm, hc, h1⟩
      | and l0 l r0 =>
        right
        simp only [parseRuleA, hc, Bool.not_true, Bool.false_eq_true, if_false] at h
        cases hctl : isCtlExpr r0 with
        | some ctl =>
          simp only [hctl, Option.map_eq_some_iff] at h
          obtain ⟨as, h1, h2⟩ := h
          exact ⟨lno, c, _, as, ctl, andChain l, [r0], rfl, h2.symm, hc, rfl, att_parseChainA_andChain l as h1,
            Or.inr ⟨r0, rfl, hctl⟩⟩
        | none =>
          simp only [hctl] at h
          cases hl : parseChainA l with
          | none => simp [hl] at h
          | some ls =>
            cases hr : parseActA r0 with
            | none => simp [hl, hr] at h
            | some a =>
              simp only [hl, hr, Option.some.injEq] at h
              refine ⟨lno, c, _, ls ++ [a], .none, andChain l ++ [r0], [], rfl, h.symm, hc, by simp [andChain],
                att_parseActs_snoc _ _ _ _ (att_parseChainA_andChain l ls hl) hr, Or.inl ⟨rfl, rfl, by simp⟩⟩
      | _ =>
        right
        simp only [parseRuleA, hc, Bool.not_true, Bool.false_eq_true, if_false] at h
        first
          | (simp only [isCtlExpr, Option.some.injEq] at h
             exact ⟨lno, c, _, [], _, [], [_], rfl, h.symm, hc, rfl, rfl, Or.inr ⟨_, rfl, rfl⟩⟩)
          | (simp only [isCtlExpr, Option.map_eq_some_iff] at h
             obtain ⟨a, h1, h2⟩ := h
             exact ⟨lno, c, _, [a], .none, [_], [], rfl, h2.symm, hc, rfl, by simp [att_parseActs, h1],
               Or.inl ⟨rfl, rfl, by simp⟩⟩)
    · cases rhs <;> simp [parseRuleA, hc] at h
  | _ => simp [parseRuleA] at h

theorem att_isCtlExpr_spec {x : Expr} {ctl : Ctl} (h : isCtlExpr x = some ctl) :
    (ctl = .pass ∧ ∃ l, x = .pass l) ∨ (ctl = .brk ∧ ∃ l, x = .brk l) :=
  isCtlExpr_spec h

/-! ## `okA` along the chains -/

theorem att_okA_orChain {L : Nat} {o : Bool} {k : Nat} : ∀ (e : Expr), okA L o k e → ∀ x ∈ orChain e, okA L o k x := by
  intro e
  induction e with
  | or lno l r ihl _ =>
    intro h x hx
    rw [orChain] at hx
    have := okA_or h
    rcases List.mem_append.1 hx with hx | hx
    · exact ihl this.1 x hx
    · simp only [List.mem_singleton] at hx; rw [hx]; exact this.2
  | _ =>
    intro h x hx
    simp only [orChain, List.mem_singleton] at hx
    rw [hx]; exact h

theorem att_okA_andChain {L : Nat} {o : Bool} {k : Nat} : ∀ (e : Expr), okA L o k e → ∀ x ∈ andChain e, okA L o k x := by
  intro e
  induction e with
  | and lno l r ihl _ =>
    intro h x hx
    rw [andChain] at hx
    have := okA_and h
    rcases List.mem_append.1 hx with hx | hx
    · exact ihl this.1 x hx
    · simp only [List.mem_singleton] at hx; rw [hx]; exact this.2
  | _ =>
    intro h x hx
    simp only [andChain, List.mem_singleton] at hx
    rw [hx]; exact h

/-! ## the specification run only grows -/

/-- `b` is a later state of the run `a`: the pending list was extended and a deviation that was
recorded stays recorded. -/
def RunLe (a b : RunA) : Prop :=
  (∃ ext, b.pend = a.pend ++ ext) ∧ (b.crosses = false → a.crosses = false) ∧ (b.leaks = false → a.leaks = false)

theorem RunLe.refl (a : RunA) : RunLe a a := ⟨⟨[], by simp⟩, id, id⟩

theorem RunLe.trans {a b c : RunA} (h1 : RunLe a b) (h2 : RunLe b c) : RunLe a c := by
  obtain ⟨⟨e1, p1⟩, c1, l1⟩ := h1
  obtain ⟨⟨e2, p2⟩, c2, l2⟩ := h2
  exact ⟨⟨e1 ++ e2, by rw [p2, p1, List.append_assoc]⟩, fun h => c1 (c2 h), fun h => l1 (l2 h)⟩

theorem att_forParts_mono {α : Type} (F : Nat → α → RunA → BRes × RunA) (hF : ∀ i q r, RunLe r (F i q r).2) :
    ∀ (ps : List α) (i : Nat) (any : Bool) (run : RunA), RunLe run (forParts F i ps any run).2 := by
  intro ps
  induction ps with
  | nil => intro i any run; exact RunLe.refl run
  | cons q qs ih =>
    intro i any run
    have h1 := hF i q run
    simp only [forParts]
    rcases hr : F i q run with ⟨b, run1⟩
    rw [hr] at h1
    cases b with
    | err => exact h1
    | matched => exact h1.trans (ih _ _ _)
    | «nomatch» => exact h1.trans (ih _ _ _)
    | broke => exact h1.trans (ih _ _ _)

theorem att_run_mono {α : Type} (cx : PartCtx α) (aerr : Expr → Bool) (n : Nat) :
    (∀ (rs : List RuleA), sizeOf rs < n → ∀ (nested outerPass : Bool) (start k : Nat) (m : α) (passSeen : Bool)
      (run : RunA), RunLe run (evalRulesA cx aerr nested outerPass start k m rs passSeen run).2) ∧
    (∀ (as : List ActA), sizeOf as < n → ∀ (hasPass : Bool) (k : Nat) (m : α) (run : RunA),
      RunLe run (evalActsA cx aerr hasPass k m as run).2) := by
  induction n with
  | zero => exact ⟨fun rs h => by omega, fun as h => by omega⟩
  | succ n ih =>
    obtain ⟨ihR, ihA⟩ := ih
    constructor
    · intro rs hsz nested outerPass start k m passSeen run
      cases rs with
      | nil =>
        rw [evalRulesA]
        exact ⟨⟨[], by simp⟩, fun h => by simp only [Bool.or_eq_false_iff] at h; exact h.1, id⟩
      | cons r rest =>
        have hrest : sizeOf rest < n := by
          simp only [List.cons.sizeOf_spec] at hsz; omega
        cases r with
        | acts lno c as ctl =>
          have has : sizeOf as < n := by
            simp only [List.cons.sizeOf_spec, RuleA.acts.sizeOf_spec] at hsz; omega
          rw [evalRulesA]
          cases condValA cx c k m with
          | error => exact RunLe.refl run
          | «nomatch» => exact ihR rest hrest _ _ _ _ _ _ _
          | «match» =>
            dsimp only
            have h1 := ihA as has (outerPass || passSeen) k m run
            rcases ha : evalActsA cx aerr (outerPass || passSeen) k m as run with ⟨b, run1⟩
            rw [ha] at h1
            rcases b with _ | b
            · exact h1
            · cases b
              · dsimp only
                refine RunLe.trans ?_ (ihR rest hrest _ _ _ _ _ _ _)
                refine ⟨⟨[], by simp⟩, h1.2.1, fun h => ?_⟩
                simp only [Bool.or_eq_false_iff] at h
                exact h1.2.2 h.1
              · cases ctl with
                | pass => exact h1.trans (ihR rest hrest _ _ _ _ _ _ _)
                | brk =>
                  refine h1.trans ⟨⟨[], by simp⟩, fun h => ?_, id⟩
                  simp only [Bool.or_eq_false_iff] at h
                  exact h.1
                | none => exact h1
        | blk lno c rs' =>
          have hrs' : sizeOf rs' < n := by
            simp only [List.cons.sizeOf_spec, RuleA.blk.sizeOf_spec] at hsz; omega
          rw [evalRulesA]
          cases condValA cx c k m with
          | error => exact RunLe.refl run
          | «nomatch» => exact ihR rest hrest _ _ _ _ _ _ _
          | «match» =>
            try dsimp only
            have h1 := ihR rs' hrs' true (outerPass || passSeen) run.pend.length k m false run
            rcases hin : evalRulesA cx aerr true (outerPass || passSeen) run.pend.length k m rs' false run with ⟨b, run1⟩
            rw [hin] at h1
            cases b with
            | err => exact h1
            | matched => exact h1
            | «nomatch» => exact h1.trans (ihR rest hrest _ _ _ _ _ _ _)
            | broke => exact h1.trans (ihR rest hrest _ _ _ _ _ _ _)
    · intro as hsz hasPass k m run
      cases as with
      | nil => rw [evalActsA]; exact RunLe.refl run
      | cons a rest =>
        have hrest : sizeOf rest < n := by
          simp only [List.cons.sizeOf_spec] at hsz; omega
        cases a with
        | plain x =>
          rw [evalActsA]
          try dsimp only
          by_cases hx : aerr x = true
          · simp only [hx, if_true]; exact RunLe.refl run
          · simp only [hx, Bool.false_eq_true, if_false]
            refine RunLe.trans ?_ (ihA rest hrest _ _ _ _)
            exact ⟨⟨[(k, x)], rfl⟩, id, id⟩
        | att lno rs =>
          have hrs : sizeOf rs < n := by
            simp only [List.cons.sizeOf_spec, ActA.att.sizeOf_spec] at hsz; omega
          rw [evalActsA]
          try dsimp only
          cases cx.parts m with
          | none => exact RunLe.refl run
          | some ps =>
            try dsimp only
            have h0 : RunLe run { run with crosses := run.crosses || (hasPass && !ps.isEmpty) } :=
              ⟨⟨[], by simp⟩, fun h => by simp only [Bool.or_eq_false_iff] at h; exact h.1, id⟩
            have h1 := att_forParts_mono
              (fun i q r => evalRulesA cx aerr true hasPass r.pend.length (partIndex k i) q rs false r)
              (fun i q r => ihR rs hrs _ _ _ _ _ _ _) ps 0 false
              { run with crosses := run.crosses || (hasPass && !ps.isEmpty) }
            rcases hf : forParts (fun i q r => evalRulesA cx aerr true hasPass r.pend.length (partIndex k i) q rs false r)
              0 ps false { run with crosses := run.crosses || (hasPass && !ps.isEmpty) } with ⟨b, run1⟩
            rw [hf] at h1
            rcases b with _ | b
            · exact h0.trans h1
            · cases b
              · exact h0.trans h1
              · exact (h0.trans h1).trans (ihA rest hrest _ _ _ _)

end Mdsort.Proofs
