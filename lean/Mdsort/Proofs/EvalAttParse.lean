import Mdsort.Proofs.EvalAttSim

/-!
# What `parseRuleAW` recognises, and monotonicity of the specification run (C03 with attachments)

The simulation works with the widened shape (`pass` / `break` anywhere in an action list,
`Spec.parseRuleAW`); the shape with the control action last (`Spec.parseRuleA`) is a special case
(`att_parseRulesAW_of_parseRulesA`).
-/

namespace Mdsort.Proofs
open Mdsort Mdsort.Model Mdsort.Spec

/-! ## the OR chain of rules and the AND chain of actions as lists -/

def att_parseAllA : List Expr → Option (List RuleA)
  | [] => some []
  | x :: xs =>
    match parseRuleAW x, att_parseAllA xs with
    | some r, some rs => some (r :: rs)
    | _, _ => Option.none

theorem att_parseAllA_snoc : ∀ (xs : List Expr) (rs : List RuleA) (x : Expr) (r : RuleA),
    att_parseAllA xs = some rs → parseRuleAW x = some r → att_parseAllA (xs ++ [x]) = some (rs ++ [r]) := by
  intro xs
  induction xs with
  | nil =>
    intro rs x r h hx
    simp only [att_parseAllA, Option.some.injEq] at h
    subst h
    simp [att_parseAllA, hx]
  | cons y ys ih =>
    intro rs x r h hx
    simp only [att_parseAllA] at h
    cases hy : parseRuleAW y with
    | none => simp [hy] at h
    | some ry =>
      cases hys : att_parseAllA ys with
      | none => simp [hy, hys] at h
      | some rys =>
        simp only [hy, hys, Option.some.injEq] at h
        subst h
        simp [att_parseAllA, hy, ih rys x r hys hx]

theorem att_parseRulesA_orChain : ∀ (e : Expr) (rs : List RuleA), parseRulesAW e = some rs →
    att_parseAllA (orChain e) = some rs := by
  intro e
  induction e with
  | or lno l r ihl _ =>
    intro rs h
    rw [parseRulesAW] at h
    cases hl : parseRulesAW l with
    | none => simp [hl] at h
    | some ls =>
      cases hr : parseRuleAW r with
      | none => simp [hl, hr] at h
      | some x =>
        simp only [hl, hr, Option.some.injEq] at h
        subst h
        rw [orChain]
        exact att_parseAllA_snoc _ _ _ _ (ihl ls hl) hr
  | _ =>
    intro rs h
    simp only [parseRulesAW, Option.map_eq_some_iff] at h
    obtain ⟨x, hx, rfl⟩ := h
    simp [orChain, att_parseAllA, hx]

/-- A list of actions and attachment blocks (no `pass` / `break`). -/
def att_parseActs : List Expr → Option (List ActA)
  | [] => some []
  | x :: xs =>
    match parseActAW x, att_parseActs xs with
    | some a, some as => some (a :: as)
    | _, _ => Option.none

/-- A list of `expractions`: its actions and attachment blocks in order, `pass` / `break` skipped. -/
def att_parseItems : List Expr → Option (List ActA)
  | [] => some []
  | x :: xs =>
    if (isCtlExpr x).isSome then att_parseItems xs
    else
      match parseActAW x, att_parseItems xs with
      | some a, some as => some (a :: as)
      | _, _ => Option.none

theorem att_parseItems_snoc : ∀ (xs : List Expr) (x : Expr),
    att_parseItems (xs ++ [x]) =
      match att_parseItems xs with
      | Option.none => Option.none
      | some ls =>
        if (isCtlExpr x).isSome then some ls
        else match parseActAW x with
          | some a => some (ls ++ [a])
          | Option.none => Option.none := by
  intro xs
  induction xs with
  | nil =>
    intro x
    simp only [List.nil_append, att_parseItems]
    by_cases hc : (isCtlExpr x).isSome = true
    · simp [hc]
    · simp only [hc, Bool.false_eq_true, if_false]
      cases parseActAW x <;> simp
  | cons y ys ih =>
    intro x
    simp only [List.cons_append, att_parseItems]
    by_cases hy : (isCtlExpr y).isSome = true
    · simp only [hy, if_true]; exact ih x
    · simp only [hy, Bool.false_eq_true, if_false, ih x]
      cases hpy : parseActAW y with
      | none => cases att_parseItems ys <;> simp
      | some a =>
        cases hys : att_parseItems ys with
        | none => simp
        | some ls =>
          simp only
          by_cases hc : (isCtlExpr x).isSome = true
          · simp [hc]
          · simp only [hc, Bool.false_eq_true, if_false]
            cases parseActAW x <;> simp

theorem att_andChain_leaf (e : Expr) (h : ∀ lno l r, e ≠ .and lno l r) : andChain e = [e] := by
  cases e <;> first | rfl | exact absurd rfl (h _ _ _)

theorem att_andChain_ne_nil (e : Expr) : andChain e ≠ [] := by
  cases e with
  | and lno l r => simp [andChain]
  | _ => rw [att_andChain_leaf _ (by intro _ _ _ h; cases h)]; simp

theorem att_parseChainAW_leaf (e : Expr) (h : ∀ lno l r, e ≠ .and lno l r) :
    parseChainAW e = if (isCtlExpr e).isSome then some [] else (parseActAW e).map fun x => [x] := by
  cases e with
  | and lno l r => exact absurd rfl (h _ _ _)
  | _ => rw [parseChainAW]; intro _ _ _ hh; cases hh

/-- `parseChainAW` reads the AND chain as the list of its items. -/
theorem att_parseChainAW_andChain : ∀ (e : Expr), parseChainAW e = att_parseItems (andChain e) := by
  intro e
  induction e with
  | and lno l r ihl _ =>
    rw [parseChainAW, andChain, att_parseItems_snoc, ihl]
    cases att_parseItems (andChain l) with
    | none => rfl
    | some ls =>
      simp only
      split
      · rfl
      · cases parseActAW r <;> rfl
  | _ =>
    rw [att_parseChainAW_leaf _ (by intro _ _ _ h; cases h), att_andChain_leaf _ (by intro _ _ _ h; cases h)]
    simp only [att_parseItems]
    split
    · rfl
    · cases parseActAW _ <;> rfl

/-- Items without `pass` / `break` in front of the rest. -/
theorem att_parseItems_append : ∀ (es tail : List Expr), (∀ x ∈ es, isCtlExpr x = Option.none) →
    att_parseItems (es ++ tail) =
      match att_parseActs es, att_parseItems tail with
      | some a, some t => some (a ++ t)
      | _, _ => Option.none := by
  intro es
  induction es with
  | nil =>
    intro tail _
    simp only [List.nil_append, att_parseActs]
    cases att_parseItems tail <;> simp
  | cons y ys ih =>
    intro tail h
    have hy : (isCtlExpr y).isSome = false := by rw [h y (by simp)]; rfl
    have hys : ∀ x ∈ ys, isCtlExpr x = Option.none := fun x hx => h x (by simp [hx])
    simp only [List.cons_append, att_parseItems, hy, Bool.false_eq_true, if_false, att_parseActs, ih tail hys]
    cases parseActAW y with
    | none => cases att_parseActs ys <;> cases att_parseItems tail <;> simp
    | some a => cases att_parseActs ys <;> cases att_parseItems tail <;> simp

theorem att_parseActs_length : ∀ (es : List Expr) (as : List ActA), att_parseActs es = some as →
    as.length = es.length := by
  intro es
  induction es with
  | nil => intro as h; simp only [att_parseActs, Option.some.injEq] at h; subst h; rfl
  | cons y ys ih =>
    intro as h
    simp only [att_parseActs] at h
    cases hy : parseActAW y with
    | none => simp [hy] at h
    | some a =>
      cases hys : att_parseActs ys with
      | none => simp [hy, hys] at h
      | some rys =>
        simp only [hy, hys, Option.some.injEq] at h
        subst h
        simp [ih rys hys]

/-- The two kinds of action. -/
theorem att_parseActA_spec {x : Expr} {a : ActA} (h : parseActAW x = some a) :
    (∃ l l' e rs, x = .attBlock l (.block l' e) ∧ a = .att l rs ∧ parseRulesAW e = some rs) ∨
    (a = .plain x ∧ isActionExpr x = true) := by
  cases x with
  | attBlock l b =>
    cases b with
    | block l' e =>
      left
      simp only [parseActAW, Option.map_eq_some_iff] at h
      obtain ⟨rs, h1, h2⟩ := h
      exact ⟨l, l', e, rs, rfl, h2.symm, h1⟩
    | _ => simp [parseActAW, isActionExpr] at h
  | _ =>
    right
    simp only [parseActAW, isActionExpr] at h
    first
      | (simp only [if_true, Option.some.injEq] at h; exact ⟨h.symm, rfl⟩)
      | (simp at h)

/-! ## where `pass` / `break` stand: the three shapes of a `placedOK` list -/

theorem isCtlExpr_isNone_iff (x : Expr) : isCtlExpr x = Option.none ↔ (isPassExpr x = false ∧ isBrkExpr x = false) := by
  cases x <;> simp [isCtlExpr, isPassExpr, isBrkExpr]

theorem isPassExpr_iff (x : Expr) : isPassExpr x = true ↔ ∃ l, x = .pass l := by
  cases x <;> simp [isCtlExpr, isPassExpr]

theorem isBrkExpr_iff (x : Expr) : isBrkExpr x = true ↔ ∃ l, x = .brk l := by
  cases x <;> simp [isCtlExpr, isBrkExpr]

theorem isCtlExpr_cases (x : Expr) : isCtlExpr x = Option.none ∨ (∃ l, x = .pass l) ∨ (∃ l, x = .brk l) := by
  cases x <;> simp [isCtlExpr]

theorem placedOK_cons_plain (x : Expr) (xs : List Expr) (h : isCtlExpr x = Option.none) :
    placedOK (x :: xs) = placedOK xs := by
  obtain ⟨hp, hb⟩ := (isCtlExpr_isNone_iff x).1 h
  simp [placedOK, ctlMixed, actionAfterPass, attAfterBreak, List.dropWhile, hp, hb]

/-- A `placedOK` list: actions and attachment blocks `es`, then nothing, or `pass` followed by
`pass` only (no `break` anywhere), or `break` followed by anything but `pass` and attachment blocks. -/
theorem placedOK_shape : ∀ (xs : List Expr), placedOK xs = true →
    ∃ es tail, xs = es ++ tail ∧ (∀ x ∈ es, isCtlExpr x = Option.none) ∧
      (tail = [] ∨
       (∃ lp ps, tail = .pass lp :: ps ∧ ∀ x ∈ ps, isPassExpr x = true) ∨
       (∃ lb more, tail = .brk lb :: more ∧ ∀ x ∈ more, isPassExpr x = false ∧ isAttBlockExpr x = false)) := by
  intro xs
  induction xs with
  | nil => intro _; exact ⟨[], [], rfl, by simp, Or.inl rfl⟩
  | cons x xs ih =>
    intro h
    rcases isCtlExpr_cases x with hx | ⟨l, rfl⟩ | ⟨l, rfl⟩
    · rw [placedOK_cons_plain x xs hx] at h
      obtain ⟨es, tail, h1, h2, h3⟩ := ih h
      refine ⟨x :: es, tail, by simp [h1], ?_, h3⟩
      intro y hy
      rcases List.mem_cons.1 hy with rfl | hy
      · exact hx
      · exact h2 y hy
    · refine ⟨[], .pass l :: xs, rfl, by simp, Or.inr (Or.inl ⟨l, xs, rfl, ?_⟩)⟩
      simp only [placedOK, ctlMixed, actionAfterPass, attAfterBreak, List.dropWhile, isPassExpr, isBrkExpr, isCtlExpr,
        List.any_cons, Bool.and_eq_true, Bool.not_eq_true'] at h
      have h2 := h.1.2
      simp only [beq_self_eq_true, Bool.not_true, List.drop_one, List.tail_cons, List.any_eq_false,
        Bool.not_eq_true', Bool.not_eq_false] at h2
      intro y hy
      exact h2 y hy
    · refine ⟨[], .brk l :: xs, rfl, by simp, Or.inr (Or.inr ⟨l, xs, rfl, ?_⟩)⟩
      simp only [placedOK, ctlMixed, actionAfterPass, attAfterBreak, List.dropWhile, isPassExpr, isBrkExpr, isCtlExpr,
        List.any_cons, Bool.and_eq_true, Bool.not_eq_true'] at h
      have h1 := h.1.1
      have h3 := h.2
      simp only [beq_self_eq_true, Bool.not_true, List.drop_one, List.tail_cons, List.any_eq_false] at h3
      intro y hy
      refine ⟨?_, by simpa using h3 y hy⟩
      simp only [Bool.and_eq_false_iff] at h1
      rcases h1 with h1 | h1
      · simp only [Bool.or_eq_false_iff, List.any_eq_false] at h1
        simpa [isPassExpr] using h1.2 y hy
      · simp at h1

/-- What may stand after the first `break` of a `placedOK` list, and the plain actions among it. -/
def AfterBrk (more pl : List Expr) : Prop :=
  pl = more.filter isActionExpr ∧ ∀ x ∈ more, isActionExpr x = true ∨ ∃ l, x = .brk l

theorem att_parseItems_afterBrk : ∀ (more : List Expr) (t : List ActA),
    (∀ x ∈ more, isPassExpr x = false ∧ isAttBlockExpr x = false) → att_parseItems more = some t →
    ∃ pl, AfterBrk more pl ∧ t = pl.map ActA.plain := by
  intro more
  induction more with
  | nil =>
    intro t _ h
    simp only [att_parseItems, Option.some.injEq] at h
    exact ⟨[], ⟨rfl, by simp⟩, by simp [← h]⟩
  | cons x xs ih =>
    intro t hall h
    have hx := hall x (by simp)
    have hxs : ∀ y ∈ xs, isPassExpr y = false ∧ isAttBlockExpr y = false := fun y hy => hall y (by simp [hy])
    simp only [att_parseItems] at h
    by_cases hc : (isCtlExpr x).isSome = true
    · simp only [hc, if_true] at h
      obtain ⟨pl, ⟨hp1, hp2⟩, hp3⟩ := ih t hxs h
      have hb : ∃ l, x = .brk l := by
        rcases isCtlExpr_cases x with hn | ⟨l, rfl⟩ | hb
        · rw [hn] at hc; cases hc
        · simp [isPassExpr, isCtlExpr] at hx
        · exact hb
      have hna : isActionExpr x = false := by obtain ⟨l, rfl⟩ := hb; rfl
      refine ⟨pl, ⟨by simp [List.filter, hna, hp1], ?_⟩, hp3⟩
      intro y hy
      rcases List.mem_cons.1 hy with rfl | hy
      · exact Or.inr hb
      · exact hp2 y hy
    · simp only [hc, Bool.false_eq_true, if_false] at h
      cases hpa : parseActAW x with
      | none => simp [hpa] at h
      | some a =>
        cases hps : att_parseItems xs with
        | none => simp [hpa, hps] at h
        | some ts =>
          simp only [hpa, hps, Option.some.injEq] at h
          obtain ⟨pl, ⟨hp1, hp2⟩, hp3⟩ := ih ts hxs hps
          rcases att_parseActA_spec hpa with ⟨l, l', e, rs, rfl, _, _⟩ | ⟨ha, hact⟩
          · simp [isAttBlockExpr] at hx
          · refine ⟨x :: pl, ⟨by simp [List.filter, hact, hp1], ?_⟩, by simp [← h, ha, hp3]⟩
            intro y hy
            rcases List.mem_cons.1 hy with rfl | hy
            · exact Or.inl hact
            · exact hp2 y hy

theorem att_parseItems_passes : ∀ (ps : List Expr), (∀ x ∈ ps, isPassExpr x = true) → att_parseItems ps = some [] := by
  intro ps
  induction ps with
  | nil => intro _; rfl
  | cons x xs ih =>
    intro h
    obtain ⟨l, rfl⟩ := (isPassExpr_iff x).1 (h x (by simp))
    simp only [att_parseItems, isCtlExpr, Option.isSome_some, if_true]
    exact ih fun y hy => h y (by simp [hy])

theorem ctlOfList_noctl (es : List Expr) (h : ∀ x ∈ es, isCtlExpr x = Option.none) : ctlOfList es = some Ctl.none := by
  have hp : es.any isPassExpr = false := by
    rw [List.any_eq_false]; intro x hx; simpa using ((isCtlExpr_isNone_iff x).1 (h x hx)).1
  have hb : es.any isBrkExpr = false := by
    rw [List.any_eq_false]; intro x hx; simpa using ((isCtlExpr_isNone_iff x).1 (h x hx)).2
  simp [ctlOfList, hp, hb]

theorem ctlOfList_pass (es ps : List Expr) (lp : Nat) (h : ∀ x ∈ es, isCtlExpr x = Option.none)
    (hps : ∀ x ∈ ps, isPassExpr x = true) : ctlOfList (es ++ .pass lp :: ps) = some Ctl.pass := by
  have hb : (es ++ Expr.pass lp :: ps).any isBrkExpr = false := by
    rw [List.any_eq_false]
    intro x hx
    rcases List.mem_append.1 hx with hx | hx
    · simpa using ((isCtlExpr_isNone_iff x).1 (h x hx)).2
    · rcases List.mem_cons.1 hx with rfl | hx
      · simp [isBrkExpr, isCtlExpr]
      · obtain ⟨l, rfl⟩ := (isPassExpr_iff x).1 (hps x hx)
        simp [isBrkExpr, isCtlExpr]
  have hp : (es ++ Expr.pass lp :: ps).any isPassExpr = true := by
    simp [isPassExpr, isCtlExpr]
  simp [ctlOfList, hp, hb]

theorem ctlOfList_brk (es more : List Expr) (lb : Nat) (h : ∀ x ∈ es, isCtlExpr x = Option.none)
    (hm : ∀ x ∈ more, isPassExpr x = false ∧ isAttBlockExpr x = false) :
    ctlOfList (es ++ .brk lb :: more) = some Ctl.brk := by
  have hp : (es ++ Expr.brk lb :: more).any isPassExpr = false := by
    rw [List.any_eq_false]
    intro x hx
    rcases List.mem_append.1 hx with hx | hx
    · simpa using ((isCtlExpr_isNone_iff x).1 (h x hx)).1
    · rcases List.mem_cons.1 hx with rfl | hx
      · simp [isPassExpr, isCtlExpr]
      · simpa using (hm x hx).1
  have hb : (es ++ Expr.brk lb :: more).any isBrkExpr = true := by
    simp [isBrkExpr, isCtlExpr]
  simp [ctlOfList, hp, hb]

/-- The shapes of a rule whose action list is `placedOK`: a nested block; or actions and attachment
blocks `es` followed by nothing (no control), by `pass` and whatever follows it (only `pass`), or by
`break` and a mix of plain actions `pl` and further `break`. -/
theorem att_parseRuleA_spec {x : Expr} {r : RuleA} (h : parseRuleAW x = some r) (hpl : ctlPlaced x = true) :
    (∃ lno c l e rs, x = .mtch lno c (.block l e) ∧ r = .blk lno c rs ∧ isCond c = true ∧
      parseRulesAW e = some rs) ∨
    (∃ lno c rhs as ctl es tail as0, x = .mtch lno c rhs ∧ r = .acts lno c as ctl ∧ isCond c = true ∧
      andChain rhs = es ++ tail ∧ att_parseActs es = some as0 ∧
      ∃ pl, as = as0 ++ pl.map ActA.plain ∧
      ((ctl = .none ∧ tail = [] ∧ pl = [] ∧ as0 ≠ []) ∨
       (ctl = .pass ∧ pl = [] ∧ ∃ lp ps, tail = .pass lp :: ps) ∨
       (ctl = .brk ∧ ∃ lb more, tail = .brk lb :: more ∧ AfterBrk more pl))) := by
  cases x with
  | mtch lno c rhs =>
    by_cases hc : isCond c = true
    · by_cases hb : ∃ l e, rhs = .block l e
      · obtain ⟨l, e, rfl⟩ := hb
        left
        simp only [parseRuleAW, hc, Bool.not_true, Bool.false_eq_true, if_false, Option.map_eq_some_iff] at h
        obtain ⟨rs, h1, h2⟩ := h
        exact ⟨lno, c, l, e, rs, rfl, h2.symm, hc, h1⟩
      · right
        have hnb : ∀ l e, rhs ≠ .block l e := fun l e he => hb ⟨l, e, he⟩
        have hpo : placedOK (andChain rhs) = true := by
          simp only [ctlPlaced, Bool.and_eq_true] at hpl
          have := hpl.2
          cases rhs <;> first | exact this | exact absurd rfl (hnb _ _)
        have hcv : ∃ ctl as, ctlOfList (andChain rhs) = some ctl ∧ parseChainAW rhs = some as ∧ r = .acts lno c as ctl := by
          rw [parseRuleAW.eq_def] at h
          simp only [hc, Bool.not_true, Bool.false_eq_true, if_false] at h
          cases rhs with
          | block l e => exact absurd rfl (hnb l e)
          | _ =>
            split at h
            · rename_i ctl as h1 h2
              simp only [Option.some.injEq] at h
              exact ⟨ctl, as, h1, h2, h.symm⟩
            · cases h
        obtain ⟨ctl, as, hctl, hchain, rfl⟩ := hcv
        rw [att_parseChainAW_andChain] at hchain
        obtain ⟨es, tail, hsplit, hes, hshape⟩ := placedOK_shape _ hpo
        rw [hsplit, att_parseItems_append es tail hes] at hchain
        rw [hsplit] at hctl
        cases has0 : att_parseActs es with
        | none => simp [has0] at hchain
        | some as0 =>
          cases ht : att_parseItems tail with
          | none => simp [has0, ht] at hchain
          | some t =>
            simp only [has0, ht, Option.some.injEq] at hchain
            refine ⟨lno, c, rhs, as, ctl, es, tail, as0, rfl, rfl, hc, hsplit, has0, ?_⟩
            rcases hshape with rfl | ⟨lp, ps, rfl, hps⟩ | ⟨lb, more, rfl, hmore⟩
            · simp only [att_parseItems, Option.some.injEq] at ht
              subst ht
              rw [List.append_nil, ctlOfList_noctl es hes] at hctl
              simp only [Option.some.injEq] at hctl
              rw [List.append_nil] at hchain hsplit
              refine ⟨[], by simp [← hchain], Or.inl ⟨hctl.symm, rfl, rfl, ?_⟩⟩
              intro hn
              have hl := att_parseActs_length es as0 has0
              rw [hn] at hl
              have : es = [] := List.eq_nil_of_length_eq_zero hl.symm
              rw [this] at hsplit
              exact att_andChain_ne_nil rhs hsplit
            · rw [ctlOfList_pass es ps lp hes hps] at hctl
              simp only [Option.some.injEq] at hctl
              have : att_parseItems (Expr.pass lp :: ps) = some [] :=
                att_parseItems_passes _ (by
                  intro y hy
                  rcases List.mem_cons.1 hy with rfl | hy
                  · simp [isPassExpr, isCtlExpr]
                  · exact hps y hy)
              rw [this] at ht
              simp only [Option.some.injEq] at ht
              subst ht
              rw [List.append_nil] at hchain
              exact ⟨[], by simp [← hchain], Or.inr (Or.inl ⟨hctl.symm, rfl, lp, ps, rfl⟩)⟩
            · rw [ctlOfList_brk es more lb hes hmore] at hctl
              simp only [Option.some.injEq] at hctl
              have ht' : att_parseItems more = some t := by
                simpa [att_parseItems, isCtlExpr] using ht
              obtain ⟨pl, hpl1, hpl2⟩ := att_parseItems_afterBrk more t hmore ht'
              exact ⟨pl, by rw [← hchain, hpl2], Or.inr (Or.inr ⟨hctl.symm, lb, more, rfl, hpl1⟩)⟩
    · cases rhs <;> simp [parseRuleAW, hc] at h
  | _ => simp [parseRuleAW] at h

theorem att_isCtlExpr_spec {x : Expr} {ctl : Ctl} (h : isCtlExpr x = some ctl) :
    (ctl = .pass ∧ ∃ l, x = .pass l) ∨ (ctl = .brk ∧ ∃ l, x = .brk l) :=
  isCtlExpr_spec h

/-! ## `okA` along the chains -/

theorem att_okA_orChain {L : Nat} {o : Bool} {k : Nat} : ∀ (e : Expr), okA L o k e → ∀ x ∈ orChain e, okA L o k x := by
  intro e
  induction e with
  | or lno l r ihl _ =>
    intro h x hx
    rw [orChain] at hx
    have := okA_or h
    rcases List.mem_append.1 hx with hx | hx
    · exact ihl this.1 x hx
    · simp only [List.mem_singleton] at hx; rw [hx]; exact this.2
  | _ =>
    intro h x hx
    simp only [orChain, List.mem_singleton] at hx
    rw [hx]; exact h

theorem att_okA_andChain {L : Nat} {o : Bool} {k : Nat} : ∀ (e : Expr), okA L o k e → ∀ x ∈ andChain e, okA L o k x := by
  intro e
  induction e with
  | and lno l r ihl _ =>
    intro h x hx
    rw [andChain] at hx
    have := okA_and h
    rcases List.mem_append.1 hx with hx | hx
    · exact ihl this.1 x hx
    · simp only [List.mem_singleton] at hx; rw [hx]; exact this.2
  | _ =>
    intro h x hx
    simp only [andChain, List.mem_singleton] at hx
    rw [hx]; exact h

/-! ## `ctlPlaced` along the chains -/

theorem ctlPlaced_orChain : ∀ (e : Expr), ctlPlaced e = true → ∀ x ∈ orChain e, ctlPlaced x = true := by
  intro e
  induction e with
  | or lno l r ihl _ =>
    intro h x hx
    rw [orChain] at hx
    simp only [ctlPlaced, Bool.and_eq_true] at h
    rcases List.mem_append.1 hx with hx | hx
    · exact ihl h.1 x hx
    · simp only [List.mem_singleton] at hx; rw [hx]; exact h.2
  | _ =>
    intro h x hx
    simp only [orChain, List.mem_singleton] at hx
    rw [hx]; exact h

theorem ctlPlaced_andChain : ∀ (e : Expr), ctlPlaced e = true → ∀ x ∈ andChain e, ctlPlaced x = true := by
  intro e
  induction e with
  | and lno l r ihl _ =>
    intro h x hx
    rw [andChain] at hx
    simp only [ctlPlaced, Bool.and_eq_true] at h
    rcases List.mem_append.1 hx with hx | hx
    · exact ihl h.1 x hx
    · simp only [List.mem_singleton] at hx; rw [hx]; exact h.2
  | _ =>
    intro h x hx
    simp only [andChain, List.mem_singleton] at hx
    rw [hx]; exact h

theorem ctlPlaced_mtch_rhs {lno : Nat} {c rhs : Expr} (h : ctlPlaced (.mtch lno c rhs) = true) : ctlPlaced rhs = true := by
  simp only [ctlPlaced, Bool.and_eq_true] at h
  exact h.1.2

theorem att_sizeOf_append_left {α : Type} [SizeOf α] (a b : List α) : sizeOf a ≤ sizeOf (a ++ b) := by
  induction a with
  | nil =>
    cases b with
    | nil => exact Nat.le_refl _
    | cons y ys => simp only [List.nil_append, List.nil.sizeOf_spec, List.cons.sizeOf_spec]; omega
  | cons x xs ih => simp only [List.cons_append, List.cons.sizeOf_spec]; omega

/-! ## the specification run only grows -/

/-- `b` is a later state of the run `a`: the pending list was extended and a deviation that was
recorded stays recorded. -/
def RunLe (a b : RunA) : Prop :=
  (∃ ext, b.pend = a.pend ++ ext) ∧ (b.crosses = false → a.crosses = false) ∧ (b.leaks = false → a.leaks = false)

theorem RunLe.refl (a : RunA) : RunLe a a := ⟨⟨[], by simp⟩, id, id⟩

theorem RunLe.trans {a b c : RunA} (h1 : RunLe a b) (h2 : RunLe b c) : RunLe a c := by
  obtain ⟨⟨e1, p1⟩, c1, l1⟩ := h1
  obtain ⟨⟨e2, p2⟩, c2, l2⟩ := h2
  exact ⟨⟨e1 ++ e2, by rw [p2, p1, List.append_assoc]⟩, fun h => c1 (c2 h), fun h => l1 (l2 h)⟩

theorem att_forParts_mono {α : Type} (F : Nat → α → RunA → BRes × RunA) (hF : ∀ i q r, RunLe r (F i q r).2) :
    ∀ (ps : List α) (i : Nat) (any : Bool) (run : RunA), RunLe run (forParts F i ps any run).2 := by
  intro ps
  induction ps with
  | nil => intro i any run; exact RunLe.refl run
  | cons q qs ih =>
    intro i any run
    have h1 := hF i q run
    simp only [forParts]
    rcases hr : F i q run with ⟨b, run1⟩
    rw [hr] at h1
    cases b with
    | err => exact h1
    | matched => exact h1.trans (ih _ _ _)
    | «nomatch» => exact h1.trans (ih _ _ _)
    | broke => exact h1.trans (ih _ _ _)

theorem att_run_mono {α : Type} (cx : PartCtx α) (aerr : Expr → Bool) (n : Nat) :
    (∀ (rs : List RuleA), sizeOf rs < n → ∀ (nested outerPass : Bool) (start k : Nat) (m : α) (passSeen : Bool)
      (run : RunA), RunLe run (evalRulesA cx aerr nested outerPass start k m rs passSeen run).2) ∧
    (∀ (as : List ActA), sizeOf as < n → ∀ (hasPass : Bool) (k : Nat) (m : α) (run : RunA),
      RunLe run (evalActsA cx aerr hasPass k m as run).2) := by
  induction n with
  | zero => exact ⟨fun rs h => by omega, fun as h => by omega⟩
  | succ n ih =>
    obtain ⟨ihR, ihA⟩ := ih
    constructor
    · intro rs hsz nested outerPass start k m passSeen run
      cases rs with
      | nil =>
        rw [evalRulesA]
        exact ⟨⟨[], by simp⟩, fun h => by simp only [Bool.or_eq_false_iff] at h; exact h.1, id⟩
      | cons r rest =>
        have hrest : sizeOf rest < n := by
          simp only [List.cons.sizeOf_spec] at hsz; omega
        cases r with
        | acts lno c as ctl =>
          have has : sizeOf as < n := by
            simp only [List.cons.sizeOf_spec, RuleA.acts.sizeOf_spec] at hsz; omega
          rw [evalRulesA]
          cases condValA cx c k m with
          | error => exact RunLe.refl run
          | «nomatch» => exact ihR rest hrest _ _ _ _ _ _ _
          | «match» =>
            dsimp only
            have h1 := ihA as has (outerPass || passSeen) k m run
            rcases ha : evalActsA cx aerr (outerPass || passSeen) k m as run with ⟨b, run1⟩
            rw [ha] at h1
            rcases b with _ | b
            · exact h1
            · cases b
              · dsimp only
                refine RunLe.trans ?_ (ihR rest hrest _ _ _ _ _ _ _)
                refine ⟨⟨[], by simp⟩, h1.2.1, fun h => ?_⟩
                simp only [Bool.or_eq_false_iff] at h
                exact h1.2.2 h.1
              · cases ctl with
                | pass => exact h1.trans (ihR rest hrest _ _ _ _ _ _ _)
                | brk =>
                  refine h1.trans ⟨⟨[], by simp⟩, fun h => ?_, id⟩
                  simp only [Bool.or_eq_false_iff] at h
                  exact h.1
                | none => exact h1
        | blk lno c rs' =>
          have hrs' : sizeOf rs' < n := by
            simp only [List.cons.sizeOf_spec, RuleA.blk.sizeOf_spec] at hsz; omega
          rw [evalRulesA]
          cases condValA cx c k m with
          | error => exact RunLe.refl run
          | «nomatch» => exact ihR rest hrest _ _ _ _ _ _ _
          | «match» =>
            try dsimp only
            have h1 := ihR rs' hrs' true (outerPass || passSeen) run.pend.length k m false run
            rcases hin : evalRulesA cx aerr true (outerPass || passSeen) run.pend.length k m rs' false run with ⟨b, run1⟩
            rw [hin] at h1
            cases b with
            | err => exact h1
            | matched => exact h1
            | «nomatch» => exact h1.trans (ihR rest hrest _ _ _ _ _ _ _)
            | broke => exact h1.trans (ihR rest hrest _ _ _ _ _ _ _)
    · intro as hsz hasPass k m run
      cases as with
      | nil => rw [evalActsA]; exact RunLe.refl run
      | cons a rest =>
        have hrest : sizeOf rest < n := by
          simp only [List.cons.sizeOf_spec] at hsz; omega
        cases a with
        | plain x =>
          rw [evalActsA]
          try dsimp only
          by_cases hx : aerr x = true
          · simp only [hx, if_true]; exact RunLe.refl run
          · simp only [hx, Bool.false_eq_true, if_false]
            refine RunLe.trans ?_ (ihA rest hrest _ _ _ _)
            exact ⟨⟨[(k, x)], rfl⟩, id, id⟩
        | att lno rs =>
          have hrs : sizeOf rs < n := by
            simp only [List.cons.sizeOf_spec, ActA.att.sizeOf_spec] at hsz; omega
          rw [evalActsA]
          try dsimp only
          cases cx.parts m with
          | none => exact RunLe.refl run
          | some ps =>
            try dsimp only
            have h0 : RunLe run { run with crosses := run.crosses || (hasPass && !ps.isEmpty) } :=
              ⟨⟨[], by simp⟩, fun h => by simp only [Bool.or_eq_false_iff] at h; exact h.1, id⟩
            have h1 := att_forParts_mono
              (fun i q r => evalRulesA cx aerr true hasPass r.pend.length (partIndex k i) q rs false r)
              (fun i q r => ihR rs hrs _ _ _ _ _ _ _) ps 0 false
              { run with crosses := run.crosses || (hasPass && !ps.isEmpty) }
            rcases hf : forParts (fun i q r => evalRulesA cx aerr true hasPass r.pend.length (partIndex k i) q rs false r)
              0 ps false { run with crosses := run.crosses || (hasPass && !ps.isEmpty) } with ⟨b, run1⟩
            rw [hf] at h1
            rcases b with _ | b
            · exact h0.trans h1
            · cases b
              · exact h0.trans h1
              · exact (h0.trans h1).trans (ihA rest hrest _ _ _ _)

/-! ## action lists of the specification run -/

theorem att_evalActsA_append {α : Type} (cx : PartCtx α) (aerr : Expr → Bool) (hasPass : Bool) (k : Nat) (m : α) :
    ∀ (a b : List ActA) (run : RunA),
    evalActsA cx aerr hasPass k m (a ++ b) run =
      match evalActsA cx aerr hasPass k m a run with
      | (some true, run1) => evalActsA cx aerr hasPass k m b run1
      | other => other := by
  intro a
  induction a with
  | nil => intro b run; rw [List.nil_append]; conv => rhs; rw [evalActsA]
  | cons x xs ih =>
    intro b run
    cases x with
    | plain e =>
      rw [List.cons_append, evalActsA]
      conv => rhs; rw [evalActsA]
      by_cases he : aerr e = true
      · simp only [he, if_true]
      · simp only [he, Bool.false_eq_true, if_false]
        exact ih b _
    | att l rs =>
      rw [List.cons_append, evalActsA]
      conv => rhs; rw [evalActsA]
      cases cx.parts m with
      | none => rfl
      | some ps =>
        dsimp only
        rcases forParts (fun i q r => evalRulesA cx aerr true hasPass r.pend.length (partIndex k i) q rs false r) 0 ps false
          { run with crosses := run.crosses || (hasPass && !ps.isEmpty) } with ⟨o, run1⟩
        rcases o with _ | o
        · rfl
        · cases o
          · rfl
          · exact ih b run1

/-- A list of plain actions: an error iff one of them cannot be evaluated, else all are collected. -/
theorem att_evalActsA_plain {α : Type} (cx : PartCtx α) (aerr : Expr → Bool) (hasPass : Bool) (k : Nat) (m : α) :
    ∀ (as : List Expr) (runA : RunA),
    (as.any aerr = true → ∃ r, evalActsA cx aerr hasPass k m (as.map ActA.plain) runA = (Option.none, r) ∧
      r.crosses = runA.crosses ∧ r.leaks = runA.leaks) ∧
    (as.any aerr = false → evalActsA cx aerr hasPass k m (as.map ActA.plain) runA =
      (some true, { runA with pend := runA.pend ++ as.map fun a => (k, a) })) := by
  intro as
  induction as with
  | nil =>
    intro runA
    refine ⟨fun h => by simp at h, fun _ => ?_⟩
    rw [List.map_nil, evalActsA]
    simp
  | cons a as ih =>
    intro runA
    rw [List.map_cons, evalActsA]
    by_cases ha : aerr a = true
    · simp only [ha, if_true]
      exact ⟨fun _ => ⟨runA, rfl, rfl, rfl⟩, fun h => by simp [ha] at h⟩
    · simp only [ha, Bool.false_eq_true, if_false]
      obtain ⟨i1, i2⟩ := ih { runA with pend := runA.pend ++ [(k, a)] }
      have hany : (a :: as).any aerr = as.any aerr := by simp [ha]
      rw [hany]
      refine ⟨fun h => ?_, fun h => ?_⟩
      · obtain ⟨r, h1, h2, h3⟩ := i1 h
        exact ⟨r, h1, h2, h3⟩
      · rw [i2 h]
        simp [List.append_assoc]

end Mdsort.Proofs
