import Mdsort.Proofs.PartiesCopyBasic

/-! Preservation of `CInv` by one step, second part: the content of the file of a name in flight
(`WrOK`). -/

namespace Mdsort.Proofs.Parties
set_option linter.unusedSimpArgs false
set_option linter.unusedVariables false
open Mdsort Mdsort.Model
open Mdsort.Proofs.World
open Mdsort.Proofs.Own

variable {M : Msg → Prop} {s0 s : Shared} {a : Nat} {ps : PState} {c : Call} {k : Res → Prog Bool}

theorem stepLocal_loc (s : Shared) (ps : PState) (c : Call) (k : Res → Prog Bool) :
    locOf (stepLocal s ps c k).trace = locUpd (locOf ps.trace) (c, predict (s.view ps) c) := by
  rw [stepLocal_trace, locOf_snoc]

theorem stepCall_file (s : Shared) (a : Nat) (ps : PState) (c : Call) (k : Res → Prog Bool) (g : Nat) :
    (stepCall s a ps c k).fs.file g = (core (s.view ps) c (predict (s.view ps) c)).file g := rfl

/-- The handle a call acts on or writes through. -/
def actsOn : Call → Option Handle
  | .fsync h => some h
  | c => Call.subject c

theorem core_obj' (w : World) (c : Call) (r : Res) (h : Handle) (hl : h < w.handles.length) (hs : actsOn c ≠ some h) :
    (core w c r).obj h = w.obj h := by
  refine core_obj w c r h hl ?_
  cases c <;> first | exact hs | simp [Call.subject]

theorem lt_of_objFid {w : World} {h : Handle} {g : Nat} (hg : objFid (w.obj h) = some g) : h < w.handles.length := by
  apply lt_of_obj_ne_closed
  intro e
  rw [e] at hg
  cases hg

theorem shape_of_objFid {o : Obj} {g : Nat} (hg : objFid o = some g) :
    (∃ off wr, o = .file g off wr) ∨ (∃ buf, o = .stream g buf) := by
  cases o <;> simp [objFid] at hg
  · subst hg; exact .inl ⟨_, _, rfl⟩
  · subst hg; exact .inr ⟨_, rfl⟩

/-- Handles on file `g` are untouched by a call that acts on a handle on another file (or only reads a directory stream). -/
theorem objs_same (w : World) (c : Call) (r : Res) (g : Nat)
    (hs : ∀ h0, actsOn c = some h0 → objFid (w.obj h0) ≠ some g ∨ c = .readdir h0 ∨ c = .rewinddir h0) :
    ∀ h, objFid (w.obj h) = some g → (core w c r).obj h = w.obj h := by
  intro h hg
  by_cases ha : actsOn c = some h
  · rcases hs h ha with h1 | rfl | rfl
    · exact absurd hg h1
    · rcases shape_of_objFid hg with ⟨off, wr, ho⟩ | ⟨buf, ho⟩ <;> cases r <;> simp [core, applyOk, ho]
    · rcases shape_of_objFid hg with ⟨off, wr, ho⟩ | ⟨buf, ho⟩ <;> cases r <;> simp [core, applyOk, ho]
  · exact core_obj' w c r h (lt_of_objFid hg) ha

theorem fileSafe_of_acts (w : World) (c : Call) (g : Nat)
    (hs : ∀ h0, actsOn c = some h0 → objFid (w.obj h0) ≠ some g ∨ c = .readdir h0 ∨ c = .rewinddir h0) : fileSafe w g c := by
  cases c <;> first
    | exact True.intro
    | (rcases hs _ rfl with h | h | h
       · exact h
       · cases h
       · cases h)

/-- The fields of `locOf` that concern the name in flight are untouched by a call that does not act on its descriptors. -/
theorem locUpd_passive (l : Loc) (c : Call) (r : Res)
    (h1 : isCreate c = false ∨ isOk r = false)
    (h2 : ∀ h, actsOn c = some h → c ≠ .readdir h → c ≠ .rewinddir h → l.fd ≠ some h ∧ l.dup ≠ some h ∧ l.st ≠ some h)
    (h3 : ∀ fd, c = .dupfd fd → l.fd ≠ some fd) :
    (locUpd l (c, r)).fd = l.fd ∧ (locUpd l (c, r)).dup = l.dup ∧ (locUpd l (c, r)).st = l.st ∧ (locUpd l (c, r)).wr = l.wr := by
  cases c <;> first
    | exact ⟨rfl, rfl, rfl, rfl⟩
    | (cases r <;> exact ⟨rfl, rfl, rfl, rfl⟩)
    | skip
  · -- closedir
    rename_i h
    obtain ⟨a1, a2, a3⟩ := h2 h rfl (by intro e; cases e) (by intro e; cases e)
    simp [locUpd, Loc.drop, clr, a1, a2, a3]
  · -- openExcl
    cases r <;> first | exact ⟨rfl, rfl, rfl, rfl⟩ | (simp [isCreate, isOk] at h1)
  · -- close
    rename_i h
    obtain ⟨a1, a2, a3⟩ := h2 h rfl (by intro e; cases e) (by intro e; cases e)
    simp [locUpd, Loc.drop, clr, a1, a2, a3]
  · -- dupfd
    rename_i fd
    cases r <;> first | exact ⟨rfl, rfl, rfl, rfl⟩ | skip
    simp [locUpd, h3 fd rfl]
  · -- fdopen
    rename_i h
    obtain ⟨a1, a2, a3⟩ := h2 h rfl (by intro e; cases e) (by intro e; cases e)
    cases r <;> first | exact ⟨rfl, rfl, rfl, rfl⟩ | skip
    simp [locUpd, clr, a2]
  · -- fprintf
    rename_i h d
    obtain ⟨a1, a2, a3⟩ := h2 h rfl (by intro e; cases e) (by intro e; cases e)
    cases r <;> first | exact ⟨rfl, rfl, rfl, rfl⟩ | skip
    simp [locUpd, a3]
  · -- fclose
    rename_i h
    obtain ⟨a1, a2, a3⟩ := h2 h rfl (by intro e; cases e) (by intro e; cases e)
    simp [locUpd, Loc.drop, clr, a2, a3]

/-- Frame: the descriptors of the name in flight and its file are as before. -/
theorem StepCtx.wr_frame (x : StepCtx M s0 s a ps c k) {g : Nat} (hW : WrOK ps g s.fs)
    (hA : (locUpd (locOf ps.trace) (c, predict (s.view ps) c)).fd = (locOf ps.trace).fd ∧
      (locUpd (locOf ps.trace) (c, predict (s.view ps) c)).dup = (locOf ps.trace).dup ∧
      (locUpd (locOf ps.trace) (c, predict (s.view ps) c)).st = (locOf ps.trace).st ∧
      (locUpd (locOf ps.trace) (c, predict (s.view ps) c)).wr = (locOf ps.trace).wr)
    (hB : ∀ h, objFid ((s.view ps).obj h) = some g →
      (core (s.view ps) c (predict (s.view ps) c)).obj h = (s.view ps).obj h)
    (hC : (stepCall s a ps c k).fs.file g = s.fs.file g) :
    WrOK (stepLocal s ps c k) g (stepCall s a ps c k).fs := by
  obtain ⟨f, hf, h1, h2, h3, h4⟩ := hW
  obtain ⟨a1, a2, a3, a4⟩ := hA
  refine ⟨f, hC.trans hf, ?_, ?_, ?_, ?_⟩
  · intro h hh
    rw [stepLocal_loc, a1] at hh
    obtain ⟨off, wr, ho⟩ := h1 h hh
    exact ⟨off, wr, by rw [stepLocal_obj, hB h (by rw [view_obj, ho]; rfl), view_obj, ho]⟩
  · intro h hh
    rw [stepLocal_loc, a2] at hh
    obtain ⟨⟨off, wr, ho⟩, hne⟩ := h2 h hh
    exact ⟨⟨off, wr, by rw [stepLocal_obj, hB h (by rw [view_obj, ho]; rfl), view_obj, ho]⟩, by rw [stepLocal_loc, a1]; exact hne⟩
  · intro h hh
    rw [stepLocal_loc, a3] at hh
    obtain ⟨buf, ho, hb⟩ := h3 h hh
    exact ⟨buf, by rw [stepLocal_obj, hB h (by rw [view_obj, ho]; rfl), view_obj, ho], by rw [stepLocal_loc, a4]; exact hb⟩
  · intro hh
    rw [stepLocal_loc, a3] at hh
    rw [stepLocal_loc, a4]
    exact h4 hh

/-- A call that does not act on the descriptors of the name in flight leaves `WrOK` as it is. -/
theorem StepCtx.wr_passive (x : StepCtx M s0 s a ps c k) {g : Nat} (hW : WrOK ps g s.fs) (hlt : g < s.fs.nextFid)
    (hact : ∀ h0, actsOn c = some h0 → objFid ((s.view ps).obj h0) ≠ some g ∨ c = .readdir h0 ∨ c = .rewinddir h0)
    (hcr : isCreate c = false ∨ isOk (predict (s.view ps) c) = false)
    (hdup : ∀ fd, c = .dupfd fd → (locOf ps.trace).fd ≠ some fd) :
    WrOK (stepLocal s ps c k) g (stepCall s a ps c k).fs := by
  refine x.wr_frame hW (locUpd_passive _ c _ hcr ?_ hdup) (objs_same _ c _ g hact)
    (core_file (s.view ps) c _ g hlt (fileSafe_of_acts _ c g hact))
  intro h hh hn1 hn2
  obtain ⟨f, hf, h1, h2, h3, h4⟩ := hW
  have hne : objFid ((s.view ps).obj h) ≠ some g := by
    rcases hact h hh with h' | h' | h'
    · exact h'
    · exact absurd h' hn1
    · exact absurd h' hn2
  refine ⟨?_, ?_, ?_⟩
  · intro e
    obtain ⟨off, wr, ho⟩ := h1 h e
    exact hne (by rw [view_obj, ho]; rfl)
  · intro e
    obtain ⟨⟨off, wr, ho⟩, _⟩ := h2 h e
    exact hne (by rw [view_obj, ho]; rfl)
  · intro e
    obtain ⟨buf, ho, _⟩ := h3 h e
    exact hne (by rw [view_obj, ho]; rfl)

/-! ## the calls that act on the descriptors of the name in flight -/

/-- A successful exclusive create: the new file is empty and the party holds its descriptor. -/
theorem StepCtx.wr_created (x : StepCtx M s0 s a ps c k) (hk : isCreate c = true) (hok : isOk (predict (s.view ps) c) = true) :
    WrOK (stepLocal s ps c k) s.fs.nextFid (stepCall s a ps c k).fs := by
  cases c <;> simp [isCreate] at hk
  rename_i d n
  rcases openExcl_cases (s.view ps) d n with ⟨p, hp, hl, hpr, hco⟩ | ⟨e, hpr⟩
  · have hloc : locOf (stepLocal s ps (.openExcl d n) k).trace =
        { locOf ps.trace with fd := some (s.view ps).handles.length, dup := none, st := none, wr := [] } := by
      rw [stepLocal_loc, hpr]; rfl
    refine ⟨⟨[], []⟩, ?_, ?_, ?_, ?_, ?_⟩
    · rw [stepCall_file, hpr, hco]
      simp [created, file_setFile]
    · intro h hh
      rw [hloc] at hh
      cases hh
      refine ⟨0, true, ?_⟩
      rw [stepLocal_obj, hpr, hco]
      simp [created, obj_newHandle]
    · intro h hh; rw [hloc] at hh; cases hh
    · intro h hh; rw [hloc] at hh; cases hh
    · intro _; rw [hloc]
  · rw [hpr] at hok; simp [isOk] at hok

theorem StepCtx.wr_close (x : StepCtx M s0 s a ps (.close h0) k) {g : Nat} (hW : WrOK ps g s.fs)
    (hfd : (locOf ps.trace).fd = some h0) : WrOK (stepLocal s ps (.close h0) k) g (stepCall s a ps (.close h0) k).fs := by
  obtain ⟨f, hf, h1, h2, h3, h4⟩ := hW
  obtain ⟨off0, wr0, ho0⟩ := h1 h0 hfd
  have hdup : (locOf ps.trace).dup ≠ some h0 := fun e => (h2 h0 e).2 hfd
  have hst : (locOf ps.trace).st ≠ some h0 := by
    intro e
    obtain ⟨buf, ho, _⟩ := h3 h0 e
    rw [ho0] at ho; cases ho
  have hloc : locOf (stepLocal s ps (.close h0) k).trace = (locOf ps.trace).drop h0 := by rw [stepLocal_loc]; rfl
  have hcore := core_close (s.view ps) h0 (predict (s.view ps) (.close h0))
  have hobj : ∀ h, h ≠ h0 → (stepLocal s ps (.close h0) k).handles.getD h .closed = ps.handles.getD h .closed := by
    intro h hne
    rw [stepLocal_obj, hcore, obj_setObj]
    simp [hne, view_obj]
  refine ⟨f, by rw [stepCall_file, hcore]; exact hf, ?_, ?_, ?_, ?_⟩
  · intro h hh
    rw [hloc] at hh
    simp [Loc.drop, clr, hfd] at hh
  · intro h hh
    rw [hloc] at hh
    have hh' : (locOf ps.trace).dup = some h := by
      simp only [Loc.drop, clr] at hh
      split at hh
      · cases hh
      · exact hh
    have hne : h ≠ h0 := by rintro rfl; exact hdup hh'
    obtain ⟨⟨off, wr, ho⟩, _⟩ := h2 h hh'
    refine ⟨⟨off, wr, by rw [hobj h hne]; exact ho⟩, ?_⟩
    rw [hloc]; simp [Loc.drop, clr, hfd]
  · intro h hh
    rw [hloc] at hh
    have hh' : (locOf ps.trace).st = some h := by
      simp only [Loc.drop, clr] at hh
      split at hh
      · cases hh
      · exact hh
    have hne : h ≠ h0 := by rintro rfl; exact hst hh'
    obtain ⟨buf, ho, hb⟩ := h3 h hh'
    exact ⟨buf, by rw [hobj h hne]; exact ho, by rw [hloc]; exact hb⟩
  · intro hh
    rw [hloc] at hh ⊢
    have : (locOf ps.trace).st = none := by
      simp only [Loc.drop, clr] at hh
      split at hh
      · rename_i e; exact absurd e hst
      · exact hh
    exact h4 this

theorem StepCtx.wr_dupfd (x : StepCtx M s0 s a ps (.dupfd h0) k) {g : Nat} (hW : WrOK ps g s.fs)
    (hfd : (locOf ps.trace).fd = some h0) : WrOK (stepLocal s ps (.dupfd h0) k) g (stepCall s a ps (.dupfd h0) k).fs := by
  obtain ⟨f, hf, h1, h2, h3, h4⟩ := hW
  obtain ⟨off0, wr0, ho0⟩ := h1 h0 hfd
  have hpr : predict (s.view ps) (.dupfd h0) = .ok (s.view ps).handles.length := rfl
  have hloc : locOf (stepLocal s ps (.dupfd h0) k).trace =
      { locOf ps.trace with
          dup := some (s.view ps).handles.length,
          tmp := if (locOf ps.trace).tmp.contains h0 then (s.view ps).handles.length :: (locOf ps.trace).tmp else (locOf ps.trace).tmp } := by
    rw [stepLocal_loc, hpr]; simp [locUpd, hfd]
  have hcore := core_dupfd_ok (w := s.view ps) (by rw [view_obj]; exact ho0) (s.view ps).handles.length
  have hlt : ∀ h (o : Obj), ps.handles.getD h .closed = o → o ≠ .closed → h ≠ (s.view ps).handles.length := by
    intro h o ho hne e
    have := lt_of_obj_ne_closed (s.view ps) h (by rw [view_obj, ho]; exact hne)
    rw [e] at this
    exact Nat.lt_irrefl _ this
  have hobj : ∀ h, h ≠ (s.view ps).handles.length →
      (stepLocal s ps (.dupfd h0) k).handles.getD h .closed = ps.handles.getD h .closed := by
    intro h hne
    rw [stepLocal_obj, hpr, hcore, obj_newHandle, if_neg hne]
    rfl
  refine ⟨f, by rw [stepCall_file, hpr, hcore]; exact hf, ?_, ?_, ?_, ?_⟩
  · intro h hh
    rw [hloc] at hh
    obtain ⟨off, wr, ho⟩ := h1 h hh
    exact ⟨off, wr, by rw [hobj h (hlt h _ ho (by simp))]; exact ho⟩
  · intro h hh
    rw [hloc] at hh
    cases hh
    refine ⟨⟨off0, wr0, ?_⟩, ?_⟩
    · rw [stepLocal_obj, hpr, hcore, obj_newHandle]; simp
    · rw [hloc]
      show (locOf ps.trace).fd ≠ _
      rw [hfd]
      intro e
      cases e
      exact hlt _ _ ho0 (by simp) rfl
  · intro h hh
    rw [hloc] at hh
    obtain ⟨buf, ho, hb⟩ := h3 h hh
    exact ⟨buf, by rw [hobj h (hlt h _ ho (by simp))]; exact ho, by rw [hloc]; exact hb⟩
  · intro hh
    rw [hloc] at hh ⊢
    exact h4 hh

theorem StepCtx.wr_fdopen (x : StepCtx M s0 s a ps (.fdopen h0) k) {g : Nat} (hW : WrOK ps g s.fs)
    (hdup : (locOf ps.trace).dup = some h0) (hst : (locOf ps.trace).st = none) :
    WrOK (stepLocal s ps (.fdopen h0) k) g (stepCall s a ps (.fdopen h0) k).fs := by
  obtain ⟨f, hf, h1, h2, h3, h4⟩ := hW
  obtain ⟨⟨off0, wr0, ho0⟩, hfdne⟩ := h2 h0 hdup
  have hpr : predict (s.view ps) (.fdopen h0) = .ok 0 := rfl
  have hloc : locOf (stepLocal s ps (.fdopen h0) k).trace =
      { locOf ps.trace with
          st := some h0, dup := none, tmp := (locOf ps.trace).tmp.filter (· != h0),
          tst := if (locOf ps.trace).tmp.contains h0 then h0 :: (locOf ps.trace).tst else (locOf ps.trace).tst } := by
    rw [stepLocal_loc, hpr]; simp [locUpd, hdup, clr]
  have hcore := core_fdopen_ok (w := s.view ps) (by rw [view_obj]; exact ho0) 0
  have hl0 : h0 < (s.view ps).handles.length := lt_of_obj_ne_closed _ _ (by rw [view_obj, ho0]; simp)
  refine ⟨f, by rw [stepCall_file, hpr, hcore]; exact hf, ?_, ?_, ?_, ?_⟩
  · intro h hh
    rw [hloc] at hh
    obtain ⟨off, wr, ho⟩ := h1 h hh
    have hne : h ≠ h0 := by rintro rfl; exact hfdne hh
    exact ⟨off, wr, by rw [stepLocal_obj, hpr, hcore, obj_setObj, if_neg (fun e => hne e.1)]; exact ho⟩
  · intro h hh; rw [hloc] at hh; cases hh
  · intro h hh
    rw [hloc] at hh
    cases hh
    refine ⟨[], by rw [stepLocal_obj, hpr, hcore, obj_setObj, if_pos ⟨rfl, hl0⟩], ?_⟩
    rw [hloc]
    simpa using h4 hst
  · intro hh; rw [hloc] at hh; cases hh

/-- The stream of the name in flight and what it refers to. -/
theorem wr_stream {ps : PState} {g : Nat} {h0 : Handle} {buf : Bytes}
    (h1 : ∀ h, (locOf ps.trace).fd = some h → ∃ off wr, ps.handles.getD h .closed = .file g off wr)
    (h2 : ∀ h, (locOf ps.trace).dup = some h → (∃ off wr, ps.handles.getD h .closed = .file g off wr) ∧ (locOf ps.trace).fd ≠ some h)
    (ho0 : ps.handles.getD h0 .closed = .stream g buf) :
    (locOf ps.trace).fd ≠ some h0 ∧ (locOf ps.trace).dup ≠ some h0 := by
  constructor
  · intro e
    obtain ⟨off, wr, ho⟩ := h1 h0 e
    rw [ho0] at ho; cases ho
  · intro e
    obtain ⟨⟨off, wr, ho⟩, _⟩ := h2 h0 e
    rw [ho0] at ho; cases ho

theorem StepCtx.wr_fprintf (x : StepCtx M s0 s a ps (.fprintf h0 data) k) {g : Nat} (hW : WrOK ps g s.fs)
    (hst : (locOf ps.trace).st = some h0) :
    WrOK (stepLocal s ps (.fprintf h0 data) k) g (stepCall s a ps (.fprintf h0 data) k).fs := by
  obtain ⟨f, hf, h1, h2, h3, h4⟩ := hW
  obtain ⟨buf0, ho0, hb0⟩ := h3 h0 hst
  obtain ⟨hn1, hn2⟩ := wr_stream h1 h2 ho0
  have hpr : predict (s.view ps) (.fprintf h0 data) = .ok data.length := rfl
  have hloc : locOf (stepLocal s ps (.fprintf h0 data) k).trace = { locOf ps.trace with wr := (locOf ps.trace).wr ++ data } := by
    rw [stepLocal_loc, hpr]; simp [locUpd, hst]
  have hcore := core_fprintf_ok (w := s.view ps) (by rw [view_obj]; exact ho0) data
  have hl0 : h0 < (s.view ps).handles.length := lt_of_obj_ne_closed _ _ (by rw [view_obj, ho0]; simp)
  have hobj : ∀ h, h ≠ h0 → (stepLocal s ps (.fprintf h0 data) k).handles.getD h .closed = ps.handles.getD h .closed := by
    intro h hne
    rw [stepLocal_obj, hpr, hcore, obj_setObj, if_neg (fun e => hne e.1)]; rfl
  refine ⟨f, by rw [stepCall_file, hpr, hcore]; exact hf, ?_, ?_, ?_, ?_⟩
  · intro h hh
    rw [hloc] at hh
    obtain ⟨off, wr, ho⟩ := h1 h hh
    exact ⟨off, wr, by rw [hobj h (by rintro rfl; exact hn1 hh)]; exact ho⟩
  · intro h hh
    rw [hloc] at hh
    obtain ⟨⟨off, wr, ho⟩, hne⟩ := h2 h hh
    exact ⟨⟨off, wr, by rw [hobj h (by rintro rfl; exact hn2 hh)]; exact ho⟩, by rw [hloc]; exact hne⟩
  · intro h hh
    rw [hloc] at hh
    have e : (locOf ps.trace).st = some h := hh
    rw [hst] at e
    cases e
    refine ⟨buf0 ++ data, by rw [stepLocal_obj, hpr, hcore, obj_setObj, if_pos ⟨rfl, hl0⟩], ?_⟩
    rw [hloc]
    show f.data ++ (buf0 ++ data) = (locOf ps.trace).wr ++ data
    rw [← hb0, List.append_assoc]
  · intro hh; rw [hloc] at hh; rw [hst] at hh; cases hh

theorem StepCtx.wr_fflush (x : StepCtx M s0 s a ps (.fflush h0) k) {g : Nat} (hW : WrOK ps g s.fs)
    (hst : (locOf ps.trace).st = some h0) :
    WrOK (stepLocal s ps (.fflush h0) k) g (stepCall s a ps (.fflush h0) k).fs := by
  obtain ⟨f, hf, h1, h2, h3, h4⟩ := hW
  obtain ⟨buf0, ho0, hb0⟩ := h3 h0 hst
  obtain ⟨hn1, hn2⟩ := wr_stream h1 h2 ho0
  have hpr : predict (s.view ps) (.fflush h0) = .ok 0 := rfl
  have hloc : locOf (stepLocal s ps (.fflush h0) k).trace = locOf ps.trace := by rw [stepLocal_loc]; rfl
  have hcore := core_fflush_ok (w := s.view ps) (by rw [view_obj]; exact ho0) (by rw [view_file]; exact hf) 0
  have hl0 : h0 < (s.view ps).handles.length := lt_of_obj_ne_closed _ _ (by rw [view_obj, ho0]; simp)
  have hobj : ∀ h, h ≠ h0 → (stepLocal s ps (.fflush h0) k).handles.getD h .closed = ps.handles.getD h .closed := by
    intro h hne
    rw [stepLocal_obj, hpr, hcore, obj_setObj, if_neg (fun e => hne e.1)]; rfl
  refine ⟨{ f with data := f.data ++ buf0 }, by rw [stepCall_file, hpr, hcore]; simp [file_setFile], ?_, ?_, ?_, ?_⟩
  · intro h hh
    rw [hloc] at hh
    obtain ⟨off, wr, ho⟩ := h1 h hh
    exact ⟨off, wr, by rw [hobj h (by rintro rfl; exact hn1 hh)]; exact ho⟩
  · intro h hh
    rw [hloc] at hh
    obtain ⟨⟨off, wr, ho⟩, hne⟩ := h2 h hh
    exact ⟨⟨off, wr, by rw [hobj h (by rintro rfl; exact hn2 hh)]; exact ho⟩, by rw [hloc]; exact hne⟩
  · intro h hh
    rw [hloc] at hh
    have e : (locOf ps.trace).st = some h := hh
    rw [hst] at e
    cases e
    refine ⟨[], by rw [stepLocal_obj, hpr, hcore, obj_setObj, if_pos ⟨rfl, hl0⟩], ?_⟩
    rw [hloc]
    simpa using hb0
  · intro hh; rw [hloc] at hh; rw [hst] at hh; cases hh

theorem StepCtx.wr_fsync (x : StepCtx M s0 s a ps (.fsync h0) k) {g : Nat} (hW : WrOK ps g s.fs)
    (hst : (locOf ps.trace).st = some h0) :
    WrOK (stepLocal s ps (.fsync h0) k) g (stepCall s a ps (.fsync h0) k).fs := by
  obtain ⟨f, hf, h1, h2, h3, h4⟩ := hW
  obtain ⟨buf0, ho0, hb0⟩ := h3 h0 hst
  have hpr : predict (s.view ps) (.fsync h0) = .ok 0 := rfl
  have hloc : locOf (stepLocal s ps (.fsync h0) k).trace = locOf ps.trace := by rw [stepLocal_loc]; rfl
  have hcore := core_fsync_stream_ok (w := s.view ps) (by rw [view_obj]; exact ho0) (by rw [view_file]; exact hf) 0
  have hobj : ∀ h, (stepLocal s ps (.fsync h0) k).handles.getD h .closed = ps.handles.getD h .closed := by
    intro h
    rw [stepLocal_obj, hpr, hcore]; rfl
  refine ⟨{ f with durable := f.data }, by rw [stepCall_file, hpr, hcore]; simp [file_setFile], ?_, ?_, ?_, ?_⟩
  · intro h hh
    rw [hloc] at hh
    obtain ⟨off, wr, ho⟩ := h1 h hh
    exact ⟨off, wr, by rw [hobj]; exact ho⟩
  · intro h hh
    rw [hloc] at hh
    obtain ⟨⟨off, wr, ho⟩, hne⟩ := h2 h hh
    exact ⟨⟨off, wr, by rw [hobj]; exact ho⟩, by rw [hloc]; exact hne⟩
  · intro h hh
    rw [hloc] at hh
    obtain ⟨buf, ho, hb⟩ := h3 h hh
    exact ⟨buf, by rw [hobj]; exact ho, by rw [hloc]; exact hb⟩
  · intro hh; rw [hloc] at hh ⊢; exact h4 hh

theorem StepCtx.wr_fclose (x : StepCtx M s0 s a ps (.fclose h0) k) {g : Nat} (hW : WrOK ps g s.fs)
    (hst : (locOf ps.trace).st = some h0) :
    WrOK (stepLocal s ps (.fclose h0) k) g (stepCall s a ps (.fclose h0) k).fs := by
  obtain ⟨f, hf, h1, h2, h3, h4⟩ := hW
  obtain ⟨buf0, ho0, hb0⟩ := h3 h0 hst
  obtain ⟨hn1, hn2⟩ := wr_stream h1 h2 ho0
  have hpr : predict (s.view ps) (.fclose h0) = .ok 0 := rfl
  have hloc : locOf (stepLocal s ps (.fclose h0) k).trace = { (locOf ps.trace).drop h0 with fd := (locOf ps.trace).fd } := by
    rw [stepLocal_loc]; rfl
  have hcore := core_fclose_stream (w := s.view ps) (by rw [view_obj]; exact ho0) (by rw [view_file]; exact hf) (.ok 0)
  simp only [Res.isErr, Bool.false_eq_true, if_false] at hcore
  have hobj : ∀ h, h ≠ h0 → (stepLocal s ps (.fclose h0) k).handles.getD h .closed = ps.handles.getD h .closed := by
    intro h hne
    rw [stepLocal_obj, hpr, hcore, obj_setObj, if_neg (fun e => hne e.1)]; rfl
  refine ⟨{ f with data := f.data ++ buf0 }, by rw [stepCall_file, hpr, hcore]; simp [file_setFile], ?_, ?_, ?_, ?_⟩
  · intro h hh
    rw [hloc] at hh
    obtain ⟨off, wr, ho⟩ := h1 h hh
    exact ⟨off, wr, by rw [hobj h (by rintro rfl; exact hn1 hh)]; exact ho⟩
  · intro h hh
    rw [hloc] at hh
    have hh' : (locOf ps.trace).dup = some h := by
      simp only [Loc.drop, clr] at hh
      split at hh
      · cases hh
      · exact hh
    obtain ⟨⟨off, wr, ho⟩, hne⟩ := h2 h hh'
    exact ⟨⟨off, wr, by rw [hobj h (by rintro rfl; exact hn2 hh')]; exact ho⟩, by rw [hloc]; exact hne⟩
  · intro h hh
    rw [hloc] at hh
    simp [Loc.drop, clr, hst] at hh
  · intro _
    rw [hloc]
    show f.data ++ buf0 = (locOf ps.trace).wr
    exact hb0

end Mdsort.Proofs.Parties
