import Mdsort.Proofs.WorldLinWalk
import Mdsort.Proofs.World
import Mdsort.Proofs.WorldSingle

/-!
# Loss-freedom and no-duplication BY LINEAGE, in the terms of `runPlan`

* `exec_no_loss_exact`: one action list, every fault plan, after every call: an entry bound to a file that DESCENDS
  FROM the message's file holds a complete stage, visibly and durably.
* `exec_no_duplicate_lineage_single_fault`: at most one fault: at the end EXACTLY ONE entry descends from the
  message's file.
-/

namespace Mdsort.Proofs
open Mdsort Mdsort.Model
open Mdsort.Proofs.World (wp GoodAt LG LGood LinPre LinCur LinInv Hist linAt)

/-- The combined invariant at the start of an action list: the message's entry is bound to `fid`, the message
being processed (`l0.cur`) descends from what `fid` descends from. -/
theorem start_lg {w : World} {st : ExecSt} {orig : Bytes} (hs : Start w st orig) (l0 : Lin) {fid fc : Nat}
    (hfid : w.lookup st.src.path st.ms.name = some fid) (hcur : l0.cur = some fc) (hfc : l0.org fc = l0.org fid) :
    fid < w.nextFid ∧ LG w l0 w.nextFid l0.org (l0.org fid) fid (stages st.ms orig) w := by
  obtain ⟨fid', hl', hf'⟩ := hs.bound
  have hff : fid' = fid := by rw [hfid] at hl'; exact (Option.some.inj hl').symm
  subst hff
  have hlt : fid' < w.nextFid := hs.freshIds _ (World.mem_files_of_file hf')
  have hpre : LinPre w l0 w.nextFid l0.org w := by
    have := LinPre.start (l0 := l0) (Hist.refl w)
    rwa [World.linAt_self] at this
  refine ⟨hlt, ⟨hpre, ⟨fc, by rw [World.linAt_self]; exact hcur, by rw [World.linAt_self]; exact hfc⟩, ?_⟩,
    st.src.path, st.ms.name, fid', ⟨hfid, hlt, _, hf', by simp [stages], by simp [stages]⟩, .inl rfl⟩
  intro g h1 h2
  omega

/-- **Loss-freedom by lineage, one action list, EVERY fault plan**: after every call some entry is bound to a file `g`
that descends from the message's file (`(lineage ..).org g = l0.org fid`) and whose visible and durable contents are
complete stages of the message. -/
theorem exec_no_loss_exact (env : PEnv) (ml : MatchList) (st : ExecSt) (w : World) (orig : Bytes) (plan : Plan)
    (hs : Start w st orig) (hd : NoDiscard ml) (l0 : Lin) (fid fc : Nat)
    (hfid : w.lookup st.src.path st.ms.name = some fid) (hcur : l0.cur = some fc) (hfc : l0.org fc = l0.org fid) :
    ∀ w' ∈ (runPlan plan (matchesExec env ml st) w 0 []).2.2,
      ∃ p n g f, w'.lookup p n = some g ∧ (lineage w l0 (traceSince w w')).org g = l0.org fid ∧ w'.file g = some f ∧
        f.data ∈ stages st.ms orig ∧ f.durable ∈ stages st.ms orig := by
  intro w' hw'
  rw [World.runPlan_eq] at hw'
  simp only [List.nil_append] at hw'
  obtain ⟨hlt, hL⟩ := start_lg hs l0 hfid hcur hfc
  have h := (World.wp_sound plan (World.lin_matchesExec env ml st hL (by simp [stages]) hd) 0).1 w' hw'
  obtain ⟨p, n, g, ⟨h1, _, f, h3, h4, h5⟩, ho⟩ := h.lgood hlt rfl
  exact ⟨p, n, g, f, h1, ho, h3, h4, h5⟩

/-- The same at the end of the run (which is `w` itself when the list issues no call). -/
theorem exec_final_lg (env : PEnv) (ml : MatchList) (st : ExecSt) (w : World) (orig : Bytes) (plan : Plan)
    (hs : Start w st orig) (hd : NoDiscard ml) (l0 : Lin) (fid fc : Nat)
    (hfid : w.lookup st.src.path st.ms.name = some fid) (hcur : l0.cur = some fc) (hfc : l0.org fc = l0.org fid) :
    LG w l0 w.nextFid l0.org (l0.org fid) fid (stages st.ms orig) (runPlan plan (matchesExec env ml st) w 0 []).2.1 := by
  rw [World.runPlan_eq]
  obtain ⟨_, hL⟩ := start_lg hs l0 hfid hcur hfc
  exact (World.wp_sound plan (World.lin_matchesExec env ml st hL (by simp [stages]) hd) 0).2

/-- **No duplicate by lineage, at most one fault**: in a world whose entries are bound to existing files and in which
the message's file has no second link, after the run EXACTLY ONE entry is bound to a file that descends from the
message's file `fid` (every file that existed being its own origin, the message being the one that is open). -/
theorem exec_no_duplicate_lineage_single_fault (env : PEnv) (ml : MatchList) (st : ExecSt) (w : World) (orig : Bytes) (plan : Plan)
    (hs : StartAt w st orig) (hd : NoDiscard ml) (hp : World.SingleFault plan) (fid : Nat)
    (hfid : w.lookup st.src.path st.ms.name = some fid)
    (hwf : ∀ q m g, w.lookup q m = some g → g < w.nextFid)
    (hnl : ∀ q m, w.lookup q m = some fid → (q, m) = (st.src.path, st.ms.name)) :
    let r := runPlan plan (matchesExec env ml st) w 0 []
    ∃ p n g, r.2.1.lookup p n = some g ∧ (lineage w { cur := some fid, org := id } (traceSince w r.2.1)).org g = fid ∧
      ∀ q m g', r.2.1.lookup q m = some g' →
        (lineage w { cur := some fid, org := id } (traceSince w r.2.1)).org g' = fid → (q, m) = (p, n) := by
  intro r
  obtain ⟨p, n, fidE, -, hlkE, -, -, hcase, hoth⟩ := exec_single_fault_exactly_once env ml st w orig plan hs hd hp
  have hLG := exec_final_lg env ml st w orig plan hs.start hd { cur := some fid, org := id } fid fid hfid rfl rfl
  have hlt : fid < w.nextFid := hwf _ _ _ hfid
  obtain ⟨p', n', g', hg', ho'⟩ := hLG.lgood hlt rfl
  -- every entry that descends from `fid` is the message's entry
  have uniq : ∀ q m g'', r.2.1.lookup q m = some g'' →
      (lineage w { cur := some fid, org := id } (traceSince w r.2.1)).org g'' = fid → (q, m) = (p, n) := by
    intro q m g'' hl'' ho''
    by_cases h1 : (q, m) = (p, n)
    · exact h1
    · exfalso
      by_cases h2 : (q, m) = (st.src.path, st.ms.name)
      · rcases hcase with hc | ⟨_, hc⟩
        · exact h1 (h2.trans hc.symm)
        · cases h2
          rw [hc] at hl''
          cases hl''
      · have hw : w.lookup q m = some g'' := by rw [← hoth q m h1 h2]; exact hl''
        have hglt := hwf q m g'' hw
        have hold : (lineage w { cur := some fid, org := id } (traceSince w r.2.1)).org g'' = g'' := hLG.1.1.old g'' hglt
        rw [hold] at ho''
        subst ho''
        exact h2 (hnl q m hw)
  have hpn := uniq p' n' g' hg'.1 ho'
  have h1 : p' = p := (Prod.mk.inj hpn).1
  have h2 : n' = n := (Prod.mk.inj hpn).2
  rw [h1, h2] at hg'
  exact ⟨p, n, g', hg'.1, ho', uniq⟩

end Mdsort.Proofs
