import Mdsort.Model.Header
import Mdsort.Spec.Message

/-! `unfoldheader` = the documented unfolding (C10). -/

set_option linter.unusedSimpArgs false

namespace Mdsort.Proofs
open Mdsort Mdsort.Model

theorem valueLines_cons (c : UInt8) (r cur : Bytes) :
    Spec.valueLines (c :: r) cur =
      if c == 10 then cur :: Spec.valueLines r [] else Spec.valueLines r (cur ++ [c]) := by
  rw [Spec.valueLines]

theorem valueLines_eq (s cur : Bytes) :
    Spec.valueLines s cur =
      (cur ++ s.takeWhile (· != 10)) ::
        (match s.dropWhile (· != 10) with
         | [] => []
         | _ :: rest => Spec.valueLines rest []) := by
  induction s generalizing cur with
  | nil => simp [Spec.valueLines]
  | cons c r ih =>
    rw [valueLines_cons]
    by_cases hc : c = 10
    · subst hc
      simp
    · have h1 : (c == 10) = false := by simpa using hc
      have h2 : (c != 10) = true := by simpa using hc
      simp only [h1, Bool.false_eq_true, if_false]
      rw [ih]
      simp [List.takeWhile_cons, List.dropWhile_cons, h2]

theorem dropWhile_tab_takeWhile (s : Bytes) :
    (s.dropWhile (· == 9)).takeWhile (· != 10) = (s.takeWhile (· != 10)).dropWhile (· == 9) := by
  induction s with
  | nil => rfl
  | cons c r ih =>
    by_cases h9 : c = 9
    · subst h9
      have : ((9 : UInt8) != 10) = true := by decide
      simp [List.dropWhile_cons, List.takeWhile_cons, this, ih]
    · have h1 : (c == 9) = false := by simpa using h9
      simp only [List.dropWhile_cons, h1]
      by_cases h10 : c = 10
      · subst h10; simp
      · have h2 : (c != 10) = true := by simpa using h10
        simp [List.takeWhile_cons, h2, List.dropWhile_cons, h1]

theorem dropWhile_tab_dropWhile (s : Bytes) :
    (s.dropWhile (· == 9)).dropWhile (· != 10) = s.dropWhile (· != 10) := by
  induction s with
  | nil => rfl
  | cons c r ih =>
    by_cases h9 : c = 9
    · subst h9
      have : ((9 : UInt8) != 10) = true := by decide
      simp [List.dropWhile_cons, this, ih]
    · have h1 : (c == 9) = false := by simpa using h9
      rw [show List.dropWhile (· == 9) (c :: r) = c :: r from by simp [List.dropWhile_cons, h1]]

theorem unfoldLoop_eq (n : Nat) (s : Bytes) (hn : s.length ≤ n) :
    unfoldLoop s = ((Spec.valueLines s []).map fun l => l.dropWhile (fun c => c == 9)).flatten := by
  induction n generalizing s with
  | zero =>
    have : s = [] := List.length_eq_zero_iff.mp (Nat.le_zero.mp hn)
    subst this
    simp [unfoldLoop, Spec.valueLines]
  | succ n ih =>
    match s with
    | [] => simp [unfoldLoop, Spec.valueLines]
    | c :: r =>
      rw [valueLines_eq]
      rw [unfoldLoop]
      split
      · rename_i h
        rw [dropWhile_tab_dropWhile] at h
        simp [h, dropWhile_tab_takeWhile]
      · rename_i x rest' h
        rw [dropWhile_tab_dropWhile] at h
        have hlen : rest'.length ≤ n := by
          have h1 := dropWhile_length_le' (· != 10) (c :: r)
          rw [h] at h1
          simp only [List.length_cons] at h1 hn
          omega
        rw [ih rest' hlen]
        simp [h, dropWhile_tab_takeWhile]

theorem unfoldHeader_eq_spec' (v : Bytes) : unfoldHeader v = Spec.unfold v := by
  unfold unfoldHeader Spec.unfold
  split
  · exact unfoldLoop_eq v.length v (Nat.le_refl _)
  · rfl

theorem valueLines_no_nl (s cur : Bytes) (hcur : (10 : UInt8) ∉ cur) :
    ∀ l ∈ Spec.valueLines s cur, (10 : UInt8) ∉ l := by
  induction s generalizing cur with
  | nil => simpa [Spec.valueLines] using hcur
  | cons c r ih =>
    rw [valueLines_cons]
    by_cases hc : c = 10
    · subst hc
      simp only [beq_self_eq_true, if_true, List.mem_cons]
      intro l hl
      rcases hl with rfl | hl
      · exact hcur
      · exact ih [] (by simp) l hl
    · have h1 : (c == 10) = false := by simpa using hc
      simp only [h1, Bool.false_eq_true, if_false]
      apply ih
      simp only [List.mem_append, List.mem_singleton, not_or]
      exact ⟨hcur, fun h => hc h.symm⟩

theorem unfoldHeader_no_newline' (v : Bytes) : (10 : UInt8) ∉ unfoldHeader v := by
  rw [unfoldHeader_eq_spec']
  unfold Spec.unfold
  split
  · intro hmem
    simp only [List.mem_flatten, List.mem_map] at hmem
    obtain ⟨l, ⟨l0, hl0, rfl⟩, hin⟩ := hmem
    have := valueLines_no_nl v [] (by simp) l0 hl0
    exact this ((List.dropWhile_sublist _).subset hin)
  · rename_i h
    intro hmem
    apply h
    simpa using hmem

end Mdsort.Proofs
