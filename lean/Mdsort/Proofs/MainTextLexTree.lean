import Mdsort.Proofs.MainTextLex

/-!
# No accepted configuration holds a token the lexer diagnosed

The lexer-level error classes as statements about whole files: every tree of an accepted configuration
is `treeClean` - no pattern carries both `l` and `u`, every age is `n * unit` with `n` below 2^32 and
`unit` one of the seven units.  Proof: the invariant "the lookahead token is clean" (`laClean`) through
every function of the parser; `peek` establishes it because the lexer returned without a diagnostic
(`mt_lex_clean`), and it fails otherwise.
-/

namespace Mdsort.Proofs.MainText
open Mdsort Mdsort.Model Mdsort.Proofs.Conf

/-- Clean grammar terminals (see `tokClean`). -/
def tkClean : Tk → Bool
  | .pat p => !(p.lcase && p.ucase)
  | .int n => decide (n < 2 ^ 32)
  | .scalar (some v) => unitValues.contains v
  | .scalar none => false
  | _ => true

theorem mt_tkClean_ofToken (t : Token) (h : tokClean t = true) : tkClean (Tk.ofToken t) = true := by
  cases t with
  | pattern src i l u => simp only [Tk.ofToken, tkClean]; exact h
  | int n => simpa [Tk.ofToken, tkClean, tokClean] using h
  | scalar v =>
    cases v with
    | none => cases h
    | some v => exact h
  | keyword k => simp only [Tk.ofToken]; cases Kw.ofName k <;> rfl
  | char c =>
    simp only [Tk.ofToken]
    repeat' split
    all_goals rfl
  | _ => rfl

/-- The lookahead token, if any, was read without a diagnostic. -/
def laClean (s : ParseSt) : Prop := ∀ t, s.la = some t → tkClean t = true

abbrev AnyErr : ParseSt → Prop := fun _ => True

/-- `p` keeps the lookahead clean and returns a value satisfying `W` (when it returns one). -/
def Safe {α : Type} (p : PM α) (W : α → Prop) : Prop :=
  ∀ s, laClean s → wp p (fun a s' => laClean s' ∧ W a) AnyErr True s

variable {α : Type} {Q : α → ParseSt → Prop} {s : ParseSt}

theorem wp_of_safe {p : PM α} {W : α → Prop} (h : Safe p W) (hs : laClean s)
    (hQ : ∀ a s', laClean s' → W a → Q a s') : wp p Q AnyErr True s :=
  wp_mono (h s hs) (fun a s' ⟨h1, h2⟩ => hQ a s' h1 h2) (fun _ _ => trivial)

theorem Safe.weaken {p : PM α} {W W' : α → Prop} (h : Safe p W) (hw : ∀ a, W a → W' a) : Safe p W' :=
  fun _ hs => wp_of_safe h hs (fun a _ h1 h2 => ⟨h1, hw a h2⟩)

theorem wpc_peek (cx : PCtx) (pf sf : Bool) {Q : Tk → ParseSt → Prop} (hs : laClean s)
    (hQ : ∀ t s', laClean s' → s'.la = some t → tkClean t = true → Q t s') : wp (peek cx pf sf) Q AnyErr True s := by
  unfold wp peek
  cases hla : s.la with
  | some t => simp only; exact hQ t s hs hla (hs t hla)
  | none =>
    simp only
    by_cases herr : (lex1 pf sf s.afterMacro s.rest).errors > 0
    · rw [if_pos herr]; trivial
    · rw [if_neg herr]
      have hc := mt_tkClean_ofToken _ (mt_lex_clean pf sf s.afterMacro s.rest (by omega))
      refine hQ _ _ ?_ rfl hc
      intro t ht
      simp only [Option.some.injEq] at ht
      rw [← ht]; exact hc

theorem wpc_shift {Q : Unit → ParseSt → Prop} (hs : laClean s) (hQ : ∀ s', laClean s' → Q () s') :
    wp shift Q AnyErr True s := by
  have hsh : shift s = PRes.ok () s ∨ shift s = PRes.ok () { s with la := none } := by
    unfold shift
    split
    · exact Or.inl rfl
    · exact Or.inr rfl
  unfold wp
  rcases hsh with h | h <;> rw [h]
  · exact hQ s hs
  · exact hQ _ (fun t ht => by simp at ht)

theorem wpc_expandOne (cx : PCtx) (action : Bool) (str : Bytes) {Q : Bytes → ParseSt → Prop} (hs : laClean s)
    (hQ : ∀ v s', laClean s' → Q v s') : wp (expandOne cx action str) Q AnyErr True s := by
  unfold wp expandOne
  cases expandStr cx.pathMax cx.home action s.macros str with
  | none => trivial
  | some r => exact hQ r.1 _ hs

theorem wpc_expandAll (cx : PCtx) (action : Bool) (strs : List Bytes) {Q : List Bytes → ParseSt → Prop} (hs : laClean s)
    (hQ : ∀ v s', laClean s' → Q v s') : wp (expandAll cx action strs) Q AnyErr True s := by
  unfold wp expandAll
  cases expandStrs cx.pathMax cx.home action s.macros strs with
  | none => trivial
  | some r => exact hQ r.1 _ hs

theorem wpc_expandMac (action : Bool) (str : Bytes) {Q : Bytes → ParseSt → Prop} (hs : laClean s)
    (hQ : ∀ v s', laClean s' → Q v s') : wp (expandMac action str) Q AnyErr True s := by
  unfold wp expandMac
  cases expandMacros action (str.length + 1) str s.macros [] with
  | none => trivial
  | some r => exact hQ r.1 _ hs

/-! ## Small parsers -/

theorem safe_expectTk (cx : PCtx) (tk : Tk) : Safe (expectTk cx tk) (fun _ => True) := by
  intro s hs
  unfold expectTk
  simp only [wp_bind]
  apply wpc_peek cx _ _ hs
  intro t s1 h1 hla hc
  simp only [wp_ite, wp_failTok]
  split
  · exact wpc_shift h1 (fun s2 h2 => ⟨h2, trivial⟩)
  · trivial

theorem safe_parseStr (cx : PCtx) : Safe (parseStr cx) (fun _ => True) := by
  intro s hs
  unfold parseStr
  simp only [wp_bind]
  apply wpc_peek cx _ _ hs
  intro t s1 h1 hla hc
  cases t <;> (try simp only [wp_failTok, wp_bind, wp_pure]) <;> try trivial
  exact wpc_shift h1 (fun s2 h2 => ⟨h2, trivial⟩)

theorem safe_parseStringBlock (cx : PCtx) : ∀ (fuel : Nat) (acc : List Bytes),
    Safe (parseStringBlock cx fuel acc) (fun _ => True) := by
  intro fuel
  induction fuel with
  | zero => intro acc s _; simp [parseStringBlock, wp, outOfFuel]
  | succ fuel ih =>
    intro acc s hs
    unfold parseStringBlock
    simp only [wp_bind]
    apply wpc_peek cx _ _ hs
    intro t s1 h1 hla hc
    cases t <;> (try simp only [wp_failTok, wp_bind, wp_pure]) <;> try trivial
    · exact wpc_shift h1 (fun s2 h2 => wp_of_safe (ih _) h2 (fun a s' h _ => ⟨h, trivial⟩))
    · exact wpc_shift h1 (fun s2 h2 => ⟨h2, trivial⟩)

theorem safe_parseStrings (cx : PCtx) (fuel : Nat) : Safe (parseStrings cx fuel) (fun _ => True) := by
  intro s hs
  unfold parseStrings
  simp only [wp_bind]
  apply wpc_peek cx _ _ hs
  intro t s1 h1 hla hc
  cases t <;> (try simp only [wp_failTok, wp_bind, wp_pure]) <;> try trivial
  · exact wpc_shift h1 (fun s2 h2 => ⟨h2, trivial⟩)
  · exact wpc_shift h1 (fun s2 h2 => wp_of_safe (safe_parseStringBlock cx fuel _) h2 (fun a s' h _ => ⟨h, trivial⟩))

theorem safe_parsePattern (cx : PCtx) : Safe (parsePattern cx) (fun p => (p.lcase && p.ucase) = false) := by
  intro s hs
  unfold parsePattern
  simp only [wp_bind]
  apply wpc_peek cx _ _ hs
  intro t s1 h1 hla hc
  cases t <;> (try simp only [wp_failTok, wp_bind, wp_pure]) <;> try trivial
  rename_i p
  have hp : (p.lcase && p.ucase) = false := by
    cases hl : p.lcase <;> cases hu : p.ucase <;> simp_all [tkClean]
  exact wpc_shift h1 (fun s2 h2 => ⟨h2, hp⟩)

theorem safe_checkPattern (cx : PCtx) (p : Pat) : Safe (checkPattern cx p) (fun _ => True) := by
  intro s hs
  unfold checkPattern
  simp only [wp_ite, wp_pure, wp_failTok]
  split
  · exact ⟨hs, trivial⟩
  · trivial

theorem safe_parseDateField (cx : PCtx) : Safe (parseDateField cx) (fun _ => True) := by
  intro s hs
  unfold parseDateField
  simp only [wp_bind]
  apply wpc_peek cx _ _ hs
  intro t s1 h1 hla hc
  cases t <;> (try simp only [wp_failTok, wp_bind, wp_pure]) <;> try exact ⟨h1, trivial⟩
  rename_i k
  cases k <;> (try simp only [wp_failTok, wp_bind, wp_pure]) <;> try exact ⟨h1, trivial⟩
  all_goals exact wpc_shift h1 (fun s2 h2 => ⟨h2, trivial⟩)

theorem safe_parseDateCmp (cx : PCtx) : Safe (parseDateCmp cx) (fun _ => True) := by
  intro s hs
  unfold parseDateCmp
  simp only [wp_bind]
  apply wpc_peek cx _ _ hs
  intro t s1 h1 hla hc
  cases t <;> (try simp only [wp_failTok, wp_bind, wp_pure]) <;> try trivial
  all_goals exact wpc_shift h1 (fun s2 h2 => ⟨h2, trivial⟩)

theorem safe_parseInt (cx : PCtx) : Safe (parseInt cx) (fun n => n < 2 ^ 32) := by
  intro s hs
  unfold parseInt
  simp only [wp_bind]
  apply wpc_peek cx _ _ hs
  intro t s1 h1 hla hc
  cases t <;> (try simp only [wp_failTok, wp_bind, wp_pure]) <;> try trivial
  exact wpc_shift h1 (fun s2 h2 => ⟨h2, by simpa [tkClean] using hc⟩)

theorem safe_parseScalar (cx : PCtx) : Safe (parseScalar cx) (fun v => v ∈ unitValues) := by
  intro s hs
  unfold parseScalar
  simp only [wp_bind]
  apply wpc_peek cx _ _ hs
  intro t s1 h1 hla hc
  cases t <;> (try simp only [wp_failTok, wp_bind, wp_pure]) <;> try trivial
  rename_i v
  cases v <;> (try simp only [wp_failTok, wp_bind, wp_pure]) <;> try trivial
  exact wpc_shift h1 (fun s2 h2 => ⟨h2, by simpa [tkClean, List.contains_iff_mem] using hc⟩)

theorem safe_parseOptNeg (cx : PCtx) : Safe (parseOptNeg cx) (fun _ => True) := by
  intro s hs
  unfold parseOptNeg
  simp only [wp_bind]
  apply wpc_peek cx _ _ hs
  intro t s1 h1 hla hc
  cases t <;> (try simp only [wp_failTok, wp_bind, wp_pure]) <;> try exact ⟨h1, trivial⟩
  exact wpc_shift h1 (fun s2 h2 => ⟨h2, trivial⟩)

theorem safe_parseExecFlags (cx : PCtx) : ∀ (fuel : Nat) (si bo : Bool), Safe (parseExecFlags cx fuel si bo) (fun _ => True) := by
  intro fuel
  induction fuel with
  | zero => intro si bo s _; simp [parseExecFlags, wp, outOfFuel]
  | succ fuel ih =>
    intro si bo s hs
    unfold parseExecFlags
    simp only [wp_bind]
    apply wpc_peek cx _ _ hs
    intro t s1 h1 hla hc
    cases t <;> (try simp only [wp_failTok, wp_bind, wp_pure]) <;> try exact ⟨h1, trivial⟩
    rename_i k
    cases k <;> (try simp only [wp_failTok, wp_bind, wp_pure]) <;> try exact ⟨h1, trivial⟩
    all_goals
      apply wpc_shift h1
      intro s2 h2
      simp only [wp_ite, wp_failTok]
      split
      · trivial
      · exact wp_of_safe (ih _ _) h2 (fun a s' h _ => ⟨h, trivial⟩)

/-! ## Trees -/

/-- An age the grammar can produce from clean tokens. -/
def ageOK (age : Nat) : Prop := ∃ n v, age = n * v ∧ n < 2 ^ 32 ∧ v ∈ unitValues

def leafClean : Expr → Prop
  | .body _ p => (p.lcase && p.ucase) = false
  | .header _ _ p => (p.lcase && p.ucase) = false
  | .date _ _ _ age => ageOK age
  | _ => True

/-- No leaf of the tree holds a diagnosed token. -/
def treeClean : CTree → Prop
  | .leaf e => leafClean e
  | .block _ b => treeClean b
  | .emptyBlock _ => True
  | .and _ l r => treeClean l ∧ treeClean r
  | .or _ l r => treeClean l ∧ treeClean r
  | .mtch _ l r => treeClean l ∧ treeClean r
  | .neg _ e => treeClean e
  | .attachment _ e => treeClean e
  | .attBlock _ e => treeClean e

theorem safe_leafAt (cx : PCtx) (mk : Nat → Expr) (hW : ∀ l, leafClean (mk l)) : Safe (leafAt cx mk) treeClean := by
  intro s hs
  unfold leafAt
  simp only [wp_bind, wp_curLine, wp_pure]
  exact ⟨hs, hW _⟩

theorem safe_parseDate (cx : PCtx) : Safe (parseDate cx) treeClean := by
  intro s hs
  unfold parseDate
  simp only [wp_bind]
  refine wp_of_safe (safe_parseDateField cx) hs ?_
  intro field s1 h1 _
  refine wp_of_safe (safe_parseDateCmp cx) h1 ?_
  intro cmp s2 h2 _
  refine wp_of_safe (safe_parseInt cx) h2 ?_
  intro n s3 h3 hn
  refine wp_of_safe (safe_parseScalar cx) h3 ?_
  intro v s4 h4 hv
  simp only [wp_ite, wp_failTok, wp_bind, wp_curLine, wp_pure]
  split
  · trivial
  · exact ⟨h4, n, v, rfl, hn, hv⟩

theorem safe_validateActions (a : CTree) : Safe (validateActions a) (fun _ => True) := by
  intro s hs
  unfold validateActions
  simp only [wp_ite, wp_failAt, wp_pure]
  split
  · trivial
  · exact ⟨hs, trivial⟩

abbrev WactsC (r : Option CTree) : Prop := ∀ a, r = some a → treeClean a

theorem safe_andJoin (cx : PCtx) (acc : Option CTree) (a : CTree) (hacc : WactsC acc) (ha : treeClean a) :
    Safe (andJoin cx acc a) WactsC := by
  intro s hs
  unfold andJoin
  simp only [wp_bind, wp_curLine, wp_pure]
  refine ⟨hs, ?_⟩
  intro x hx
  cases acc with
  | none => simp only [Option.some.injEq] at hx; subst hx; exact ha
  | some p => simp only [Option.some.injEq] at hx; subst hx; exact ⟨hacc p rfl, ha⟩

/-! ## Conditions -/

theorem safe_parseCondKw (cx : PCtx) (fuel : Nat) (unary : PM CTree) (k : Kw) (p : PM CTree)
    (hp : parseCondKw cx fuel unary k = some p) (hun : Safe unary treeClean) : Safe p treeClean := by
  intro s hs
  cases k <;> simp only [parseCondKw] at hp <;> try cases hp
  all_goals
    simp only [wp_bind]
    apply wpc_shift hs
    intro s2 h2
  · exact wp_of_safe (safe_leafAt cx _ (fun _ => trivial)) h2 (fun a s' h w => ⟨h, w⟩)
  · -- attachment
    refine wp_of_safe hun h2 ?_
    intro e s3 h3 he
    simp only [wp_curLine, wp_pure]
    exact ⟨h3, he⟩
  · -- body
    refine wp_of_safe (safe_parsePattern cx) h2 ?_
    intro pt s3 h3 hpt
    simp only [wp_curLine]
    refine wp_of_safe (safe_checkPattern cx pt) h3 ?_
    intro _ s4 h4 _
    simp only [wp_pure]
    exact ⟨h4, hpt⟩
  · -- command
    refine wp_of_safe (safe_parseStrings cx fuel) h2 ?_
    intro ss s3 h3 _
    simp only [wp_curLine]
    apply wpc_expandAll cx _ _ h3
    intro v s4 h4
    simp only [wp_pure]
    exact ⟨h4, trivial⟩
  · -- date
    exact wp_of_safe (safe_parseDate cx) h2 (fun a s' h w => ⟨h, w⟩)
  · -- header
    refine wp_of_safe (safe_parseStrings cx fuel) h2 ?_
    intro ss s3 h3 _
    refine wp_of_safe (safe_parsePattern cx) h3 ?_
    intro pt s4 h4 hpt
    simp only [wp_curLine]
    refine wp_of_safe (safe_checkPattern cx pt) h4 ?_
    intro _ s5 h5 _
    apply wpc_expandAll cx _ _ h5
    intro v s6 h6
    simp only [wp_pure]
    exact ⟨h6, hpt⟩
  · -- isdirectory
    refine wp_of_safe (safe_parseStr cx) h2 ?_
    intro str s3 h3 _
    simp only [wp_curLine]
    apply wpc_expandOne cx _ _ h3
    intro v s4 h4
    simp only [wp_pure]
    exact ⟨h4, trivial⟩
  · exact wp_of_safe (safe_leafAt cx _ (fun _ => trivial)) h2 (fun a s' h w => ⟨h, w⟩)
  · exact wp_of_safe (safe_leafAt cx _ (fun _ => trivial)) h2 (fun a s' h w => ⟨h, w⟩)

theorem safe_cond (cx : PCtx) : ∀ fuel : Nat,
    Safe (parseUnary cx fuel) treeClean ∧ (∀ lhs, treeClean lhs → Safe (parseBinTail cx fuel lhs) treeClean) := by
  intro fuel
  induction fuel with
  | zero =>
    refine ⟨fun s _ => ?_, fun lhs _ s _ => ?_⟩
    · simp [parseUnary, wp, outOfFuel]
    · simp [parseBinTail, wp, outOfFuel]
  | succ fuel ih =>
    obtain ⟨ihU, ihB⟩ := ih
    constructor
    · intro s hs
      unfold parseUnary
      simp only [wp_bind]
      apply wpc_peek cx _ _ hs
      intro t s1 h1 hla hc
      cases t <;> (try simp only [wp_failTok]) <;> try trivial
      · -- neg
        simp only [wp_bind]
        apply wpc_shift h1
        intro s2 h2
        refine wp_of_safe ihU h2 ?_
        intro e s3 h3 he
        simp only [wp_curLine, wp_pure]
        exact ⟨h3, he⟩
      · -- kw
        rename_i k
        cases hp : parseCondKw cx fuel (parseUnary cx fuel) k with
        | none => simp only [wp_failTok]; trivial
        | some p => exact safe_parseCondKw cx fuel _ k p hp ihU s1 h1
      · -- lparen
        simp only [wp_bind]
        apply wpc_shift h1
        intro s2 h2
        refine wp_of_safe ihU h2 ?_
        intro e s3 h3 he
        refine wp_of_safe (ihB e he) h3 ?_
        intro e' s4 h4 he'
        refine wp_of_safe (safe_expectTk cx .rparen) h4 ?_
        intro _ s5 h5 _
        simp only [wp_pure]
        exact ⟨h5, he'⟩
    · intro lhs hl s hs
      unfold parseBinTail
      simp only [wp_bind]
      apply wpc_peek cx _ _ hs
      intro t s1 h1 hla hc
      cases t <;> (try simp only [wp_pure]) <;> try exact ⟨h1, hl⟩
      rename_i k
      cases k <;> (try simp only [wp_pure]) <;> try exact ⟨h1, hl⟩
      all_goals
        simp only [wp_bind]
        apply wpc_shift h1
        intro s2 h2
        refine wp_of_safe ihU h2 ?_
        intro r s3 h3 hr
        simp only [wp_curLine]
        exact wp_of_safe (ihB _ ⟨hl, hr⟩) h3 (fun a s' h w => ⟨h, w⟩)

/-! ## Rules, actions, blocks -/

theorem safe_parseRuleWith (cx : PCtx) (fuel : Nat) (exprs : PM CTree) (actions : PM (Option CTree))
    (hex : Safe exprs treeClean) (hac : Safe actions WactsC) : Safe (parseRuleWith cx fuel exprs actions) treeClean := by
  intro s hs
  unfold parseRuleWith
  simp only [wp_bind]
  refine wp_of_safe (safe_cond cx fuel).1 hs ?_
  intro c0 s1 h1 hc0
  refine wp_of_safe ((safe_cond cx fuel).2 c0 hc0) h1 ?_
  intro c s2 h2 hc
  apply wpc_peek cx _ _ h2
  intro t s3 h3 hla hc3
  have hacts : wp (do
      let acts ← actions
      match acts with
      | none => failTok
      | some a => do
        validateActions a
        let l ← curLine cx
        pure (CTree.mtch l c a)) (fun a s' => laClean s' ∧ treeClean a) AnyErr True s3 := by
    simp only [wp_bind]
    refine wp_of_safe hac h3 ?_
    intro acts s4 h4 hw
    cases acts with
    | none => simp only [wp_failTok]; trivial
    | some a =>
      simp only [wp_bind]
      refine wp_of_safe (safe_validateActions a) h4 ?_
      intro _ s5 h5 _
      simp only [wp_curLine, wp_pure]
      exact ⟨h5, hc, hw a rfl⟩
  cases t <;> try exact hacts
  -- lbrace
  simp only [wp_bind]
  apply wpc_shift h3
  intro s4 h4
  refine wp_of_safe hex h4 ?_
  intro b s5 h5 hb
  simp only [wp_ite, wp_failTok, wp_bind, wp_curLine, wp_pure]
  split
  · trivial
  · exact ⟨h5, hc, hb⟩

theorem safe_parseActionWith (cx : PCtx) (fuel : Nat) (exprs : PM CTree) (k : Kw) (p : PM CTree)
    (hp : parseActionWith cx fuel exprs k = some p) (hex : Safe exprs treeClean) : Safe p treeClean := by
  intro s hs
  cases k <;> simp only [parseActionWith] at hp <;> try cases hp
  all_goals
    simp only [wp_bind]
    apply wpc_shift hs
    intro s2 h2
  · -- addheader
    refine wp_of_safe (safe_parseStr cx) h2 ?_
    intro k s3 h3 _
    refine wp_of_safe (safe_parseStr cx) h3 ?_
    intro v s4 h4 _
    simp only [wp_curLine]
    apply wpc_expandMac _ _ h4
    intro k' s5 h5
    apply wpc_expandMac _ _ h5
    intro v' s6 h6
    simp only [wp_pure]
    exact ⟨h6, trivial⟩
  · -- attachment
    refine wp_of_safe (safe_expectTk cx .lbrace) h2 ?_
    intro _ s3 h3 _
    refine wp_of_safe hex h3 ?_
    intro b s4 h4 hb
    simp only [wp_ite, wp_failTok, wp_bind, wp_curLine, wp_pure]
    split
    · trivial
    · split
      · trivial
      · exact ⟨h4, hb⟩
  · exact wp_of_safe (safe_leafAt cx _ (fun _ => trivial)) h2 (fun a s' h w => ⟨h, w⟩)
  · exact wp_of_safe (safe_leafAt cx _ (fun _ => trivial)) h2 (fun a s' h w => ⟨h, w⟩)
  · -- exec
    refine wp_of_safe (safe_parseExecFlags cx fuel _ _) h2 ?_
    intro fl s3 h3 _
    refine wp_of_safe (safe_parseStrings cx fuel) h3 ?_
    intro ss s4 h4 _
    simp only [wp_curLine]
    apply wpc_expandAll cx _ _ h4
    intro v s5 h5
    simp only [wp_ite, wp_failTok, wp_pure]
    split
    · trivial
    · exact ⟨h5, trivial⟩
  · -- flag
    refine wp_of_safe (safe_parseOptNeg cx) h2 ?_
    intro ng s3 h3 _
    refine wp_of_safe (safe_expectTk cx (.kw .new)) h3 ?_
    intro _ s4 h4 _
    simp only [wp_curLine, wp_pure]
    exact ⟨h4, trivial⟩
  · -- flags
    refine wp_of_safe (safe_parseStr cx) h2 ?_
    intro str s3 h3 _
    simp only [wp_curLine]
    apply wpc_expandMac _ _ h3
    intro str' s4 h4
    simp only [wp_pure]
    exact ⟨h4, trivial⟩
  · -- label
    refine wp_of_safe (safe_parseStrings cx fuel) h2 ?_
    intro ss s3 h3 _
    simp only [wp_curLine]
    apply wpc_expandAll cx _ _ h3
    intro v s4 h4
    simp only [wp_pure]
    exact ⟨h4, trivial⟩
  · -- move
    refine wp_of_safe (safe_parseStr cx) h2 ?_
    intro str s3 h3 _
    simp only [wp_curLine]
    apply wpc_expandOne cx _ _ h3
    intro v s4 h4
    simp only [wp_pure]
    exact ⟨h4, trivial⟩
  · exact wp_of_safe (safe_leafAt cx _ (fun _ => trivial)) h2 (fun a s' h w => ⟨h, w⟩)
  · exact wp_of_safe (safe_leafAt cx _ (fun _ => trivial)) h2 (fun a s' h w => ⟨h, w⟩)

theorem safe_block (cx : PCtx) : ∀ fuel : Nat,
    (∀ acc, WactsC acc → Safe (parseExprs cx fuel acc) treeClean) ∧
    (∀ acc, WactsC acc → Safe (parseActions cx fuel acc) WactsC) := by
  intro fuel
  induction fuel with
  | zero =>
    refine ⟨fun acc _ s _ => ?_, fun acc _ s _ => ?_⟩
    · simp [parseExprs, wp, outOfFuel]
    · simp [parseActions, wp, outOfFuel]
  | succ fuel ih =>
    obtain ⟨ihE, ihA⟩ := ih
    have hnone : WactsC none := fun a h => by cases h
    constructor
    · intro acc hacc s hs
      unfold parseExprs
      simp only [wp_bind]
      apply wpc_peek cx _ _ hs
      intro t s1 h1 hla hc
      cases t <;> (try simp only [wp_failTok]) <;> try trivial
      · -- kw
        rename_i k
        cases k <;> (try simp only [wp_failTok]) <;> try trivial
        simp only [wp_bind]
        apply wpc_shift h1
        intro s2 h2
        refine wp_of_safe (safe_parseRuleWith cx fuel _ _ (ihE none hnone) (ihA none hnone)) h2 ?_
        intro r s3 h3 hr
        simp only [wp_curLine]
        refine wp_of_safe (ihE _ ?_) h3 (fun a s' h w => ⟨h, w⟩)
        intro a ha
        cases acc with
        | none => simp only [Option.some.injEq] at ha; subst ha; exact hr
        | some p => simp only [Option.some.injEq] at ha; subst ha; exact ⟨hacc p rfl, hr⟩
      · -- rbrace
        simp only [wp_bind]
        apply wpc_shift h1
        intro s2 h2
        simp only [wp_curLine, wp_pure]
        refine ⟨h2, ?_⟩
        cases acc with
        | none => trivial
        | some p => exact hacc p rfl
    · intro acc hacc s hs
      unfold parseActions
      simp only [wp_bind]
      apply wpc_peek cx _ _ hs
      intro t s1 h1 hla hc
      cases t <;> (try simp only [wp_pure]) <;> try exact ⟨h1, hacc⟩
      rename_i k
      cases hp : parseActionWith cx fuel (parseExprs cx fuel none) k with
      | none => simp only [wp_pure]; exact ⟨h1, hacc⟩
      | some p =>
        simp only [wp_bind]
        have := safe_parseActionWith cx fuel _ k p hp (ihE none hnone) s1 h1
        refine wp_mono this ?_ (fun _ h => h)
        intro a s2 ⟨h2, ha⟩
        refine wp_of_safe (safe_andJoin cx acc a hacc ha) h2 ?_
        intro acc' s3 h3 hacc'
        exact wp_of_safe (ihA acc' hacc') h3 (fun a s' h w => ⟨h, w⟩)

theorem safe_parseMaildirBody (cx : PCtx) (fuel : Nat) (paths : List Bytes) :
    Safe (parseMaildirBody cx fuel paths) (fun b => treeClean b.tree) := by
  intro s hs
  unfold parseMaildirBody
  simp only [wp_bind]
  refine wp_of_safe (safe_expectTk cx .lbrace) hs ?_
  intro _ s1 h1 _
  refine wp_of_safe ((safe_block cx fuel).1 none (fun a h => by cases h)) h1 ?_
  intro b s2 h2 hb
  simp only [wp_ite, wp_failTok, wp_pure]
  split
  · trivial
  · split
    · trivial
    · exact ⟨h2, hb⟩

theorem safe_parseMacroDef (cx : PCtx) (name : Bytes) : Safe (parseMacroDef cx name) (fun _ => True) := by
  intro s hs
  unfold parseMacroDef
  simp only [wp_bind]
  refine wp_of_safe (safe_expectTk cx .eq) hs ?_
  intro _ s1 h1 _
  refine wp_of_safe (safe_parseStr cx) h1 ?_
  intro v s2 h2 _
  simp only [wp_curLine]
  apply wpc_expandOne cx _ _ h2
  intro v' s3 h3
  simp only [wp_getMacros]
  split
  · simp only [wp_failTok]; trivial
  · simp only [wp_setMacros]; exact ⟨h3, trivial⟩

theorem safe_parseTop (cx : PCtx) : ∀ (fuel : Nat) (blocks : List PBlock), (∀ b ∈ blocks, treeClean b.tree) →
    Safe (parseTop cx fuel blocks) (fun bs => ∀ b ∈ bs, treeClean b.tree) := by
  intro fuel
  induction fuel with
  | zero => intro blocks _ s _; simp [parseTop, wp, outOfFuel]
  | succ fuel ih =>
    intro blocks hbl s hs
    unfold parseTop
    simp only [wp_bind]
    apply wpc_peek cx _ _ hs
    intro t s1 h1 hla hc
    have hadd : ∀ b : PBlock, treeClean b.tree → ∀ b' ∈ blocks ++ [b], treeClean b'.tree := by
      intro b hb b' hb'
      simp only [List.mem_append, List.mem_singleton] at hb'
      rcases hb' with hb' | hb'
      · exact hbl _ hb'
      · subst hb'; exact hb
    cases t <;> (try simp only [wp_failTok, wp_pure]) <;> (try trivial) <;> (try exact ⟨h1, hbl⟩)
    · -- macro
      rename_i name
      simp only [wp_bind]
      apply wpc_shift h1
      intro s2 h2
      refine wp_of_safe (safe_parseMacroDef cx name) h2 ?_
      intro _ s3 h3 _
      exact wp_of_safe (ih blocks hbl) h3 (fun a s' h w => ⟨h, w⟩)
    · -- kw
      rename_i k
      cases k <;> (try simp only [wp_failTok]) <;> try trivial
      · -- maildir
        simp only [wp_bind]
        apply wpc_shift h1
        intro s2 h2
        refine wp_of_safe (safe_parseStrings cx fuel) h2 ?_
        intro ss s3 h3 _
        apply wpc_expandAll cx _ _ h3
        intro paths s4 h4
        refine wp_of_safe (safe_parseMaildirBody cx fuel paths) h4 ?_
        intro b s5 h5 hb
        exact wp_of_safe (ih _ (hadd b hb)) h5 (fun a s' h w => ⟨h, w⟩)
      · -- stdin
        simp only [wp_bind]
        apply wpc_shift h1
        intro s2 h2
        simp only [wp_ite, wp_failTok, wp_bind]
        split
        · trivial
        · refine wp_of_safe (safe_parseMaildirBody cx fuel _) h2 ?_
          intro b s5 h5 hb
          exact wp_of_safe (ih _ (hadd b hb)) h5 (fun a s' h w => ⟨h, w⟩)

/-- Every tree of an accepted configuration is clean - for every byte string. -/
theorem accepted_treeClean {home : Bytes} {defs : List (Bytes × Bytes)} {rx : Pat → Bool} {input : Bytes}
    {blocks : List PBlock} (h : parseConfig home defs rx input = .ok blocks) : ∀ b ∈ blocks, treeClean b.tree := by
  unfold parseConfig parseConfigFull at h
  cases hd : macrosOfDefs defs [] with
  | none => rw [hd] at h; cases h
  | some ms =>
    rw [hd] at h
    simp only at h
    have hs0 : laClean ({ rest := input, macros := ms } : ParseSt) := fun t ht => by cases ht
    have := safe_parseTop { nl := countNl input, home := home, rxOk := rx } (input.length + 1) [] (by simp) _ hs0
    unfold wp at this
    split at this
    · rename_i bl s' heq
      rw [heq] at h
      simp only at h
      cases hu : firstUnused s'.macros with
      | some m => rw [hu] at h; cases h
      | none =>
        rw [hu] at h
        simp only [ParseResult.ok.injEq] at h
        subst h
        exact this.2
    · rename_i l s' heq
      rw [heq] at h; cases h
    · rename_i s' heq
      rw [heq] at h; cases h

/-- The leaves of a clean tree. -/
theorem treeClean_nodes : ∀ (t : CTree), treeClean t → ∀ n ∈ Spec.nodes t, ∀ e, n = .leaf e → leafClean e := by
  intro t
  induction t with
  | leaf e => intro h n hn e' he; simp only [Spec.nodes, List.mem_singleton] at hn; subst hn; cases he; exact h
  | emptyBlock l => intro _ n hn e he; simp only [Spec.nodes, List.mem_singleton] at hn; subst hn; cases he
  | block l b ih =>
    intro h n hn e he
    simp only [Spec.nodes, List.mem_cons] at hn
    rcases hn with rfl | hn
    · cases he
    · exact ih h n hn e he
  | neg l x ih =>
    intro h n hn e he
    simp only [Spec.nodes, List.mem_cons] at hn
    rcases hn with rfl | hn
    · cases he
    · exact ih h n hn e he
  | attachment l x ih =>
    intro h n hn e he
    simp only [Spec.nodes, List.mem_cons] at hn
    rcases hn with rfl | hn
    · cases he
    · exact ih h n hn e he
  | attBlock l x ih =>
    intro h n hn e he
    simp only [Spec.nodes, List.mem_cons] at hn
    rcases hn with rfl | hn
    · cases he
    · exact ih h n hn e he
  | and l a b iha ihb =>
    intro h n hn e he
    simp only [Spec.nodes, List.mem_cons, List.mem_append] at hn
    rcases hn with rfl | hn | hn
    · cases he
    · exact iha h.1 n hn e he
    · exact ihb h.2 n hn e he
  | or l a b iha ihb =>
    intro h n hn e he
    simp only [Spec.nodes, List.mem_cons, List.mem_append] at hn
    rcases hn with rfl | hn | hn
    · cases he
    · exact iha h.1 n hn e he
    · exact ihb h.2 n hn e he
  | mtch l a b iha ihb =>
    intro h n hn e he
    simp only [Spec.nodes, List.mem_cons, List.mem_append] at hn
    rcases hn with rfl | hn | hn
    · cases he
    · exact iha h.1 n hn e he
    · exact ihb h.2 n hn e he

/-- Node form: every leaf of every block of an accepted configuration. -/
theorem accepted_leaf_clean {home : Bytes} {defs : List (Bytes × Bytes)} {rx : Pat → Bool} {input : Bytes} {e : Expr}
    (h : AcceptedNode home defs rx input (.leaf e)) : leafClean e := by
  obtain ⟨blocks, b, hok, hb, hn⟩ := h
  exact treeClean_nodes b.tree (accepted_treeClean hok b hb) _ hn e rfl

/-- For the non-vacuity examples: the result is an acceptance with a `date` leaf and a `body` leaf. -/
def mt_hasDateAndBody : ParseResult → Bool
  | .ok blocks =>
    (blocks.any fun b => (Spec.nodes b.tree).any fun n => match n with | .leaf (.date ..) => true | _ => false) &&
    (blocks.any fun b => (Spec.nodes b.tree).any fun n => match n with | .leaf (.body ..) => true | _ => false)
  | _ => false

theorem acceptedLeaves_of {home : Bytes} {defs : List (Bytes × Bytes)} {rx : Pat → Bool} {input : Bytes}
    (h : mt_hasDateAndBody (parseConfig home defs rx input) = true) :
    (∃ l f c age, AcceptedNode home defs rx input (.leaf (.date l f c age))) ∧
    (∃ l p, AcceptedNode home defs rx input (.leaf (.body l p))) := by
  cases hr : parseConfig home defs rx input with
  | ok blocks =>
    rw [hr] at h
    simp only [mt_hasDateAndBody, Bool.and_eq_true, List.any_eq_true] at h
    obtain ⟨⟨b1, hb1, n1, hn1, hm1⟩, ⟨b2, hb2, n2, hn2, hm2⟩⟩ := h
    constructor
    · cases n1 with
      | leaf e =>
        cases e <;> simp only [Bool.false_eq_true] at hm1
        exact ⟨_, _, _, _, blocks, b1, hr, hb1, hn1⟩
      | _ => simp only [Bool.false_eq_true] at hm1
    · cases n2 with
      | leaf e =>
        cases e <;> simp only [Bool.false_eq_true] at hm2
        exact ⟨_, _, blocks, b2, hr, hb2, hn2⟩
      | _ => simp only [Bool.false_eq_true] at hm2
  | error l => rw [hr] at h; cases h
  | invalidDefs => rw [hr] at h; cases h
  | fuel => rw [hr] at h; cases h

end Mdsort.Proofs.MainText
