import Mdsort.Proofs.WorldCrashScripts

/-!
# Every crash state of the execution of an action list has an intact copy OF THE MESSAGE (C02)

`exec_crash_states`: one action list (no discard; no `exec stdin` of an attachment without `body`) from a `StartAt` world,
every fault plan: after every call `j`, for EVERY prefix `i ≤ j` of the calls issued, the state a power failure leaves -
the directories after the first `i` calls, every file holding what it has on stable storage after call `j`
(`Model.crashState`) - has an entry bound to a file that descends from the message's file and holds a complete stage.
-/

namespace Mdsort.Proofs
open Mdsort Mdsort.Model
open Mdsort.Proofs.World (wp wp_mono wp_inv_mono wp_bind_mono GoodAt GoodN LG LinInv DI CrashSafe Hist linAt WholeK WholeSt At NoPartPipe)

namespace World

section
variable {w0 : World} {l0 : Lin} {N0 : Nat} {o0 : Nat → Nat} {f0 fid0 : Nat} {cs : List Bytes}

theorem lgd_execOne (env : PEnv) (mh : Match) (st : ExecSt) {w : World}
    (hL : LG w0 l0 N0 o0 f0 fid0 cs w) (hdi : DI N0 cs w) (hm : (messageWrite st.ms.msg).1 ∈ cs) (hnd : mh.ty ≠ .discard)
    (hpp : mh.ty = .exec → mh.execStdin = true → mh.execBody = true ∨ mh.part = 0) :
    wp (fun w' => LG w0 l0 N0 o0 f0 fid0 cs w' ∧ DI N0 cs w') (execOne env mh st)
      (fun r w' => (LG w0 l0 N0 o0 f0 fid0 cs w' ∧ DI N0 cs w') ∧ r.1.ms.msg = st.ms.msg) w := by
  obtain ⟨p, n, g, hg, -⟩ := hL.2
  exact wp_mono (whole_wp_and (lin_execOne env mh st hL hm hnd) (di_execOne env mh st hdi hg hm hpp))
    fun _ _ h => ⟨⟨h.1.1, h.2⟩, h.1.2⟩

theorem lgd_matchesExec (env : PEnv) (ml : MatchList) (st : ExecSt) {w : World}
    (hL : LG w0 l0 N0 o0 f0 fid0 cs w) (hdi : DI N0 cs w) (hm : (messageWrite st.ms.msg).1 ∈ cs)
    (hnd : ∀ m ∈ ml, m.ty ≠ .discard) (hpp : NoPartPipe ml) :
    wp (fun w' => LG w0 l0 N0 o0 f0 fid0 cs w' ∧ DI N0 cs w') (matchesExec env ml st)
      (fun _ w' => LG w0 l0 N0 o0 f0 fid0 cs w' ∧ DI N0 cs w') w := by
  have closeThen : ∀ (md : Maildir) {α} (x : α) (w1 : World), LG w0 l0 N0 o0 f0 fid0 cs w1 → DI N0 cs w1 →
      wp (fun w' => LG w0 l0 N0 o0 f0 fid0 cs w' ∧ DI N0 cs w') ((maildirClose md).bind fun _ => Prog.ret x)
        (fun _ w' => LG w0 l0 N0 o0 f0 fid0 cs w' ∧ DI N0 cs w') w1 := by
    intro md α x w1 h1 h2
    refine wp_bind_mono (whole_wp_and (lg_harmless (harmless_maildirClose md) (nord_maildirClose md) h1)
      (wp_DI (nofs_maildirClose md) h2)) ?_
    intro _ w2 h; exact h
  induction ml generalizing st w with
  | nil =>
    unfold matchesExec
    simp only [bind_eq, pure_eq]
    split
    · exact closeThen _ _ _ hL hdi
    · exact ⟨hL, hdi⟩
  | cons mh rest ih =>
    unfold matchesExec
    simp only [bind_eq, pure_eq]
    refine wp_bind_mono (lgd_execOne env mh st hL hdi hm (hnd mh (List.mem_cons_self ..)) (hpp mh (List.mem_cons_self ..))) ?_
    rintro ⟨st', e⟩ w1 ⟨⟨hL1, hdi1⟩, hmsg⟩
    dsimp only at hmsg ⊢
    split
    · split
      · exact closeThen _ _ _ hL1 hdi1
      · exact ⟨hL1, hdi1⟩
    · exact ih st' hL1 hdi1 (by rw [hmsg]; exact hm) (fun m hmem => hnd m (List.mem_cons_of_mem _ hmem))
        (fun m hmem => hpp m (List.mem_cons_of_mem _ hmem))

end

end World

/-- **Every crash state, by lineage** (one action list, every fault plan).  The message's entry is bound to `fid`;
after EVERY call, for EVERY prefix `i` of the calls issued since the start: the crash state "directories after the first
`i` calls, files as on stable storage now" has an entry bound to a file `g` that descends from `fid` and whose content is
a complete stage of the message. -/
theorem exec_crash_states (env : PEnv) (ml : MatchList) (st : ExecSt) (w : World) (orig : Bytes) (plan : Plan)
    (hs : StartAt w st orig) (hd : NoDiscard ml) (hpp : NoPartPipe ml) (fid : Nat)
    (hfid : w.lookup st.src.path st.ms.name = some fid) :
    ∀ w' ∈ (runPlan plan (matchesExec env ml st) w 0 []).2.2, ∀ i, i ≤ (traceSince w w').length →
      ∃ p n g f, (crashState (worldAt w (traceSince w w') i) w').lookup p n = some g ∧
        (lineage w { cur := some fid, org := id } (traceSince w w')).org g = fid ∧
        (crashState (worldAt w (traceSince w w') i) w').file g = some f ∧ f.data ∈ stages st.ms orig := by
  intro w' hw' i hi
  rw [World.runPlan_eq] at hw'
  simp only [List.nil_append] at hw'
  obtain ⟨hlt, hL⟩ := start_lg hs.start { cur := some fid, org := id } hfid rfl rfl
  -- the message's own file
  obtain ⟨fid', hl', hf'⟩ := hs.start.bound
  have hff : fid' = fid := by rw [hfid] at hl'; exact (Option.some.inj hl').symm
  subst hff
  -- no file of this run exists yet
  have hdi0 : DI w.nextFid (stages st.ms orig) w := by
    intro g f h1 h2 _
    omega
  -- the frame: files that existed are never written
  obtain ⟨sh, fidA, hA⟩ := hs.at
  have hS : WholeSt w (st.src.path, st.ms.name) 0 st.ms.msg st.ms.content w st :=
    ⟨⟨_, hA.located, .inl rfl⟩, fun _ _ => Nat.zero_le _, fun _ _ _ => Nat.zero_le _, rfl, .inl rfl⟩
  have hwk := World.whole_matchesExec env ml st (WholeK.refl (st.src.path, st.ms.name) w (Nat.zero_le _)) hA hS hd
  have hall := World.whole_wp_and (World.lgd_matchesExec env ml st hL hdi0 (by simp [stages]) hd hpp) hwk
  have hI : ∀ w'', ((LG w { cur := some fid', org := id } w.nextFid id fid' fid' (stages st.ms orig) w'' ∧
        DI w.nextFid (stages st.ms orig) w'') ∧ WholeK (st.src.path, st.ms.name) 0 w w'') →
      DI w.nextFid (stages st.ms orig) w'' ∧ w''.file fid' = some ⟨orig, orig⟩ ∧
        GoodN w.nextFid fid' w'' (stages st.ms orig) := by
    rintro w'' ⟨⟨h1, h2⟩, k⟩
    exact ⟨h2, by rw [k.files fid' hlt]; exact hf', h1.2⟩
  have hcr := World.wp_crash (orig := orig) (by simp [stages]) hI hall
    ⟨⟨hL, hdi0⟩, WholeK.refl _ w (Nat.zero_le _)⟩ (Hist.refl w) hlt (CrashSafe.start hL.2)
  obtain ⟨⟨⟨hL', -⟩, -⟩, -, hcs⟩ := (World.wp_sound plan hcr 0).1 w' hw'
  obtain ⟨p, n, g, f, h1, hkind, hglt, hf, hdur⟩ := hcs i hi
  refine ⟨p, n, g, ⟨f.durable, f.durable⟩, ?_, ?_, ?_, hdur⟩
  · rw [World.crashState_lookup]; exact h1
  · exact hL'.1.org_of hlt rfl hkind hglt
  · rw [World.crashState_file, hf]; rfl

end Mdsort.Proofs
