import Mdsort.Proofs.ConfRT4
import Mdsort.Proofs.ConfSpec2

/-!
# Reading back what `Spec.printBlocks` writes, part 5: the whole configuration
-/

namespace Mdsort.Proofs.Conf
open Mdsort Mdsort.Model Mdsort.Spec

theorem strsToks_ok (l : List Bytes) (h : ∀ b ∈ l, strOK b = true) : ∀ x ∈ strsToks l, tokOK x = true := by
  intro x hx
  simp only [strsToks, List.mem_append, List.mem_cons, List.mem_map, List.not_mem_nil, or_false] at hx
  rcases hx with (rfl | ⟨b, hb, rfl⟩) | rfl
  · rfl
  · exact h b hb
  · rfl

theorem condLeafToks_ok (rx : Pat → Bool) (e : Expr) (h1 : leafOK rx e = true) (h2 : leafPOK e = true) :
    ∀ x ∈ condLeafToks e, tokOK x = true := by
  intro x hx
  cases e <;> simp only [condLeafToks, List.mem_cons, List.mem_append, List.not_mem_nil, or_false] at hx
  case all => subst hx; rfl
  case new => subst hx; rfl
  case old => subst hx; rfl
  case body l p =>
    rcases hx with rfl | rfl
    · rfl
    · simpa [tokOK, leafPOK] using h2
  case header l ns p =>
    simp only [leafPOK, Bool.and_eq_true, List.all_eq_true] at h2
    rcases hx with (rfl | hx) | rfl
    · rfl
    · exact strsToks_ok ns h2.1 x hx
    · simpa [tokOK] using h2.2
  case date l f c age =>
    have hage : age < 2 ^ 32 := by simpa [leafOK] using h1
    rcases hx with (rfl | hx) | rfl | rfl | rfl
    · rfl
    · cases f <;> simp at hx <;> subst hx <;> rfl
    · cases c <;> rfl
    · simpa [tokOK] using hage
    · rfl
  case stat l p =>
    rcases hx with rfl | rfl
    · rfl
    · simpa [tokOK, leafPOK] using h2
  case command l a =>
    simp only [leafPOK, List.all_eq_true] at h2
    rcases hx with rfl | hx
    · rfl
    · exact strsToks_ok a h2 x hx
  all_goals cases hx

theorem actLeafToks_ok (e : Expr) (h2 : leafPOK e = true) : ∀ x ∈ actLeafToks e, tokOK x = true := by
  intro x hx
  cases e <;> simp only [actLeafToks, List.mem_cons, List.mem_append, List.not_mem_nil, or_false] at hx
  case move l p =>
    rcases hx with rfl | rfl
    · rfl
    · simpa [tokOK, leafPOK] using h2
  case flag l sub =>
    rcases hx with (rfl | hx) | rfl
    · rfl
    · split at hx <;> simp at hx; subst hx; rfl
    · rfl
  case flags l f =>
    rcases hx with rfl | rfl
    · rfl
    · simpa [tokOK, leafPOK] using h2
  case discard => subst hx; rfl
  case brk => subst hx; rfl
  case pass => subst hx; rfl
  case reject => subst hx; rfl
  case label l ls =>
    simp only [leafPOK, List.all_eq_true] at h2
    rcases hx with rfl | hx
    · rfl
    · exact strsToks_ok ls h2 x hx
  case exec l si bo argv =>
    simp only [leafPOK, List.all_eq_true] at h2
    rcases hx with ((rfl | hx) | hx) | hx
    · rfl
    · split at hx <;> simp at hx; subst hx; rfl
    · split at hx <;> simp at hx; subst hx; rfl
    · exact strsToks_ok argv h2 x hx
  case addHeader l k v =>
    simp only [leafPOK, Bool.and_eq_true] at h2
    rcases hx with rfl | rfl | rfl
    · rfl
    · simpa [tokOK] using h2.1
    · simpa [tokOK] using h2.2
  all_goals cases hx

/-- Every token of a well-formed, writable tree can be read back. -/
theorem toks_ok (rx : Pat → Bool) : ∀ (t : CTree) (k : Kind), wfK rx k t = true → treePOK t = true →
    ∀ x ∈ toks k t, tokOK x = true := by
  intro t
  induction t with
  | leaf e =>
    intro k hw hp x hx
    rw [treePOK_leaf] at hp
    cases k <;> simp only [wfK, Bool.false_eq_true, Bool.and_eq_true] at hw <;> simp only [toks] at hx
    · exact condLeafToks_ok rx e hw.2 hp x hx
    · exact actLeafToks_ok e hp x hx
    · exact actLeafToks_ok e hp x hx
  | emptyBlock l =>
    intro k hw _ x hx
    cases k <;> simp only [wfK, Bool.false_eq_true] at hw
    simp only [toks, List.mem_cons, List.not_mem_nil, or_false] at hx
    rcases hx with rfl | rfl <;> rfl
  | block l b ih =>
    intro k hw hp x hx
    rw [treePOK_block] at hp
    cases k <;> simp only [wfK, Bool.false_eq_true] at hw
    simp only [toks, List.mem_cons, List.mem_append, List.not_mem_nil, or_false] at hx
    rcases hx with (rfl | hx) | rfl
    · rfl
    · exact ih .rules hw hp x hx
    · rfl
  | neg l e ih =>
    intro k hw hp x hx
    rw [treePOK_neg] at hp
    cases k <;> simp only [wfK, Bool.false_eq_true] at hw
    simp only [toks, List.mem_cons] at hx
    rcases hx with rfl | hx
    · rfl
    · exact ih .cond hw hp x hx
  | attachment l e ih =>
    intro k hw hp x hx
    rw [treePOK_attachment] at hp
    cases k <;> simp only [wfK, Bool.false_eq_true] at hw
    simp only [toks, List.mem_cons] at hx
    rcases hx with rfl | hx
    · rfl
    · exact ih .cond hw hp x hx
  | attBlock l b ih =>
    intro k hw hp x hx
    rw [treePOK_attBlock] at hp
    cases k <;> simp only [wfK, Bool.false_eq_true, Bool.and_eq_true] at hw <;>
      simp only [toks, List.mem_cons] at hx <;>
      (rcases hx with rfl | hx
       · rfl
       · exact ih .block hw.1.1 hp x hx)
  | and l a b iha ihb =>
    intro k hw hp x hx
    rw [treePOK_and, Bool.and_eq_true] at hp
    cases k <;> simp only [wfK, Bool.false_eq_true, Bool.and_eq_true] at hw
    · simp only [toks, List.mem_cons, List.mem_append, List.not_mem_nil, or_false] at hx
      rcases hx with (((rfl | hx) | rfl) | hx) | rfl
      · rfl
      · exact iha .cond hw.1 hp.1 x hx
      · rfl
      · exact ihb .cond hw.2 hp.2 x hx
      · rfl
    · simp only [toks, List.mem_append] at hx
      rcases hx with hx | hx
      · exact iha .acts hw.1 hp.1 x hx
      · exact ihb .act hw.2 hp.2 x hx
  | or l a b iha ihb =>
    intro k hw hp x hx
    rw [treePOK_or, Bool.and_eq_true] at hp
    cases k <;> simp only [wfK, Bool.false_eq_true, Bool.and_eq_true] at hw
    · simp only [toks, List.mem_cons, List.mem_append, List.not_mem_nil, or_false] at hx
      rcases hx with (((rfl | hx) | rfl) | hx) | rfl
      · rfl
      · exact iha .cond hw.1 hp.1 x hx
      · rfl
      · exact ihb .cond hw.2 hp.2 x hx
      · rfl
    · simp only [toks, List.mem_append] at hx
      rcases hx with hx | hx
      · exact iha .rules hw.1 hp.1 x hx
      · exact ihb .rule hw.2 hp.2 x hx
  | mtch l c r ihc ihr =>
    intro k hw hp x hx
    rw [treePOK_mtch, Bool.and_eq_true] at hp
    have key : wfK rx .cond c = true →
        ((wfK rx .block r = true ∧ r.countActions > 0) ∨ (wfK rx .acts r = true ∧ aloneOK r = true)) →
        x ∈ PTok.kw .mtch :: (toks .cond c ++ (if isBlock r then toks .block r else toks .acts r)) → tokOK x = true := by
      intro hc hr hx
      simp only [List.mem_cons, List.mem_append] at hx
      rcases hx with rfl | hx | hx
      · rfl
      · exact ihc .cond hc hp.1 x hx
      · rcases hr with ⟨h1, _⟩ | ⟨h1, _⟩
        · rw [isBlock_of_wf_block _ _ h1, if_pos rfl] at hx
          exact ihr .block h1 hp.2 x hx
        · rw [not_isBlock_of_wf_acts _ _ h1] at hx
          simp only [Bool.false_eq_true, if_false] at hx
          exact ihr .acts h1 hp.2 x hx
    cases k <;> simp only [wfK, Bool.false_eq_true, Bool.and_eq_true, Bool.or_eq_true, decide_eq_true_eq] at hw
    · exact key hw.1 hw.2 (by simpa [toks] using hx)
    · exact key hw.1 hw.2 (by simpa [toks] using hx)

theorem blockToks_ok (rx : Pat → Bool) (b : PBlock) (h1 : blockOK rx b = true) (h2 : treePOK b.tree = true)
    (h3 : b.paths.all strOK = true) : ∀ x ∈ blockToks b, tokOK x = true := by
  intro x hx
  simp only [blockOK, Bool.and_eq_true] at h1
  simp only [blockToks, List.mem_append] at hx
  rcases hx with hx | hx
  · split at hx
    · simp at hx; subst hx; rfl
    · simp only [List.mem_append, List.mem_cons, List.not_mem_nil, or_false] at hx
      rcases hx with rfl | hx
      · rfl
      · exact strsToks_ok b.paths (by simpa [List.all_eq_true] using h3) x hx
  · exact toks_ok rx b.tree .block h1.1.1 h2 x hx

/-- One block. -/
theorem maildirBody_rt (cx : PCtx) (hnl : cx.nl = 0) (b : PBlock) (h1 : blockOK cx.rxOk b = true)
    (h2 : treePOK b.tree = true) (fuel : Nat) :
    RT (parseMaildirBody cx fuel b.paths) (relabelBlock b) (toks .block b.tree) := by
  intro s ts hs
  simp only [blockOK, Bool.and_eq_true, decide_eq_true_eq, Bool.or_eq_true, Bool.not_eq_true', beq_iff_eq] at h1
  obtain ⟨⟨hw, hcount⟩, hrej⟩ := h1
  unfold parseMaildirBody
  simp only [wp_bind]
  rw [toks_block_cons _ _ hw] at hs
  simp only [List.cons_append] at hs
  refine wp_of_rt (expectTk_rt cx .lbrace rfl) hs ?_
  intro s1 h1
  refine wp_of_rt (all_rt cx hnl b.tree .block hw h2 fuel) h1 ?_
  intro s2 h2'
  have hne : ((relabel b.tree).countActions == 0) = false := by
    rw [countActions_relabel]; simp only [beq_eq_false_iff_ne]; omega
  have hrj : ((b.paths.any fun p => !isStdinStr p) && decide ((relabel b.tree).countLeaf Expr.isReject > 0)) = false := by
    rw [countLeaf_relabel Expr.isReject isReject_withLno]
    rcases hrej with h | h
    · simp [h]
    · simp [h]
  simp only [hne, hrj, wp_ite, Bool.false_eq_true, if_false, wp_pure]
  exact ⟨rfl, h2'⟩

theorem any_stdin_relabel (l : List PBlock) :
    ((l.map relabelBlock).any fun b => b.paths.any isStdinStr) = (l.any fun b => b.paths.any isStdinStr) := by
  induction l <;> simp_all [relabelBlock]

/-- The whole file. -/
theorem parseTop_rt (cx : PCtx) (hnl : cx.nl = 0) : ∀ (rest seen : List PBlock),
    (∀ b ∈ rest, blockOK cx.rxOk b = true ∧ treePOK b.tree = true ∧ b.paths.all strOK = true) →
    stdinOK seen rest = true →
    ∀ (fuel : Nat) (s : ParseSt), Up s (rest.flatMap blockToks) →
      wp (parseTop cx fuel (seen.map relabelBlock))
        (fun r s' => r = (seen ++ rest).map relabelBlock ∧ s'.macros = []) NoErr True s := by
  intro rest
  induction rest with
  | nil =>
    intro seen _ _ fuel s hs
    cases fuel with
    | zero => simp [parseTop, wp, outOfFuel]
    | succ fuel =>
      unfold parseTop
      simp only [wp_bind]
      simp only [List.flatMap_nil] at hs
      apply wp_peek_end cx _ _ hs
      intro s1 hm
      simp only [wp_pure, List.append_nil]
      exact ⟨trivial, hm⟩
  | cons b rest ih =>
    intro seen hall hstd fuel s hs
    have hb := hall b (by simp)
    simp only [stdinOK, Bool.and_eq_true, Bool.or_eq_true, Bool.not_eq_true', decide_eq_false_iff_not, decide_eq_true_eq] at hstd
    have ihn := ih (seen ++ [b]) (fun x hx => hall x (by simp [hx])) hstd.2
    have hmap : (seen ++ [b]).map relabelBlock = seen.map relabelBlock ++ [relabelBlock b] := by simp
    have hfin : ∀ fuel s', Up s' (rest.flatMap blockToks) →
        wp (parseTop cx fuel (seen.map relabelBlock ++ [relabelBlock b]))
          (fun r s' => r = (seen ++ b :: rest).map relabelBlock ∧ s'.macros = []) NoErr True s' := by
      intro fuel s' h'
      have := ihn fuel s' h'
      rw [hmap] at this
      simpa using this
    cases fuel with
    | zero => simp [parseTop, wp, outOfFuel]
    | succ fuel =>
      unfold parseTop
      simp only [wp_bind]
      simp only [List.flatMap_cons, blockToks, List.append_assoc] at hs
      by_cases hp : b.paths = [stdinStr]
      · -- `stdin { }`
        rw [if_pos hp] at hs
        simp only [List.cons_append, List.nil_append] at hs
        apply wp_peek_up cx _ _ hs rfl
        intro s1 h1
        simp only [tkOf, wp_bind]
        apply wp_shift_up h1
        intro s2 h2
        have hno : ((seen.map relabelBlock).any fun x => x.paths.any isStdinStr) = false := by
          rw [any_stdin_relabel]
          rcases hstd.1 with h | h
          · exact absurd hp h
          · exact h
        simp only [hno, wp_ite, Bool.false_eq_true, if_false, wp_bind]
        have hbody := maildirBody_rt cx hnl b hb.1 hb.2.1 fuel
        rw [hp] at hbody
        refine wp_of_rt hbody h2 ?_
        intro s3 h3
        exact hfin fuel s3 h3
      · -- `maildir { "path" ... } { }`
        rw [if_neg hp] at hs
        simp only [List.cons_append, List.nil_append, List.append_assoc] at hs
        apply wp_peek_up cx _ _ hs rfl
        intro s1 h1
        simp only [tkOf, wp_bind]
        apply wp_shift_up h1
        intro s2 h2
        refine wp_of_rt (parseStrings_rt cx b.paths fuel) h2 ?_
        intro s3 h3
        have hpaths : ∀ p ∈ b.paths, strOK p = true := by simpa [List.all_eq_true] using hb.2.2
        apply wp_expandAll_up cx false b.paths hpaths h3
        refine wp_of_rt (maildirBody_rt cx hnl b hb.1 hb.2.1 fuel) h3 ?_
        intro s4 h4
        exact hfin fuel s4 h4

/-- `parseConfig` reads back every configuration `printBlocks` is meant for, with every node on line 1. -/
theorem printBlocks_roundtrip (home : Bytes) (rx : Pat → Bool) (bs : List PBlock) (hok : ConfOK rx bs = true) :
    parseConfig home [] rx (printBlocks bs) = .ok (bs.map relabelBlock) := by
  simp only [ConfOK, Bool.and_eq_true, List.all_eq_true] at hok
  obtain ⟨hall, hstd⟩ := hok
  have hall' : ∀ b ∈ bs, blockOK rx b = true ∧ treePOK b.tree = true ∧ b.paths.all strOK = true := by
    intro b hb; have := hall b hb; exact ⟨this.1.1, this.1.2, by simpa [List.all_eq_true] using this.2⟩
  have htoks : ∀ x ∈ bs.flatMap blockToks, tokOK x = true := by
    intro x hx
    simp only [List.mem_flatMap] at hx
    obtain ⟨b, hb, hx⟩ := hx
    exact blockToks_ok rx b (hall' b hb).1 (hall' b hb).2.1 (hall' b hb).2.2 x hx
  have hnl : countNl (printBlocks bs) = 0 := render_noNl _ htoks
  have htot := (parseConfigFull_spec home [] rx (printBlocks bs)).1
  unfold parseConfig parseConfigFull at htot ⊢
  simp only [macrosOfDefs] at htot ⊢
  have hs0 : Up ({ rest := printBlocks bs, macros := [] } : ParseSt) (bs.flatMap blockToks) :=
    Or.inl ⟨rfl, rfl, rfl, rfl, htoks⟩
  have := parseTop_rt { nl := countNl (printBlocks bs), home := home, rxOk := rx } hnl bs [] hall' hstd
    ((printBlocks bs).length + 1) _ hs0
  simp only [List.map_nil, List.nil_append] at this
  unfold wp at this
  split at this
  · rename_i blocks s' heq
    rw [heq]
    obtain ⟨rfl, hm⟩ := this
    simp only [hm, firstUnused, List.find?_nil]
  · exact absurd this id
  · rename_i s' heq
    rw [heq] at htot
    exact absurd rfl htot

end Mdsort.Proofs.Conf
