import Mdsort.Proofs.ConfRT4
import Mdsort.Proofs.ConfSpec2

/-!
# Reading back what `Spec.printBlocks` writes, part 5: the whole configuration
-/

namespace Mdsort.Proofs.Conf
open Mdsort Mdsort.Model Mdsort.Spec

variable {tl : Bytes} {NoErr : Nat → ParseSt → Prop}

theorem strsToks_ok (l : List Bytes) (h : ∀ b ∈ l, strOK b = true) : ∀ x ∈ strsToks l, tokOK x = true := by
  intro x hx
  simp only [strsToks, List.mem_append, List.mem_cons, List.mem_map, List.not_mem_nil, or_false] at hx
  rcases hx with (rfl | ⟨b, hb, rfl⟩) | rfl
  · rfl
  · exact h b hb
  · rfl

theorem condLeafToks_ok (rx : Pat → Bool) (e : Expr) (h1 : leafOK rx e = true) (h2 : leafPOK e = true) :
    ∀ x ∈ condLeafToks e, tokOK x = true := by
  intro x hx
  cases e <;> simp only [condLeafToks, List.mem_cons, List.mem_append, List.not_mem_nil, or_false] at hx
  case all => subst hx; rfl
  case new => subst hx; rfl
  case old => subst hx; rfl
  case body l p =>
    rcases hx with rfl | rfl
    · rfl
    · simpa [tokOK, leafPOK] using h2
  case header l ns p =>
    simp only [leafPOK, Bool.and_eq_true, List.all_eq_true] at h2
    rcases hx with (rfl | hx) | rfl
    · rfl
    · exact strsToks_ok ns h2.1 x hx
    · simpa [tokOK] using h2.2
  case date l f c age =>
    have hage : age < 2 ^ 32 := by simpa [leafOK] using h1
    rcases hx with (rfl | hx) | rfl | rfl | rfl
    · rfl
    · cases f <;> simp at hx <;> subst hx <;> rfl
    · cases c <;> rfl
    · simpa [tokOK] using hage
    · rfl
  case stat l p =>
    rcases hx with rfl | rfl
    · rfl
    · simpa [tokOK, leafPOK] using h2
  case command l a =>
    simp only [leafPOK, List.all_eq_true] at h2
    rcases hx with rfl | hx
    · rfl
    · exact strsToks_ok a h2 x hx
  all_goals cases hx

theorem actLeafToks_ok (e : Expr) (h2 : leafPOK e = true) : ∀ x ∈ actLeafToks e, tokOK x = true := by
  intro x hx
  cases e <;> simp only [actLeafToks, List.mem_cons, List.mem_append, List.not_mem_nil, or_false] at hx
  case move l p =>
    rcases hx with rfl | rfl
    · rfl
    · simpa [tokOK, leafPOK] using h2
  case flag l sub =>
    rcases hx with (rfl | hx) | rfl
    · rfl
    · split at hx <;> simp at hx; subst hx; rfl
    · rfl
  case flags l f =>
    rcases hx with rfl | rfl
    · rfl
    · simpa [tokOK, leafPOK] using h2
  case discard => subst hx; rfl
  case brk => subst hx; rfl
  case pass => subst hx; rfl
  case reject => subst hx; rfl
  case label l ls =>
    simp only [leafPOK, List.all_eq_true] at h2
    rcases hx with rfl | hx
    · rfl
    · exact strsToks_ok ls h2 x hx
  case exec l si bo argv =>
    simp only [leafPOK, List.all_eq_true] at h2
    rcases hx with ((rfl | hx) | hx) | hx
    · rfl
    · split at hx <;> simp at hx; subst hx; rfl
    · split at hx <;> simp at hx; subst hx; rfl
    · exact strsToks_ok argv h2 x hx
  case addHeader l k v =>
    simp only [leafPOK, Bool.and_eq_true] at h2
    rcases hx with rfl | rfl | rfl
    · rfl
    · simpa [tokOK] using h2.1
    · simpa [tokOK] using h2.2
  all_goals cases hx

/-- Every token of a well-formed, writable tree can be read back. -/
theorem toks_ok (rx : Pat → Bool) : ∀ (t : CTree) (k : Kind), wfK rx k t = true → treePOK t = true →
    ∀ x ∈ toks k t, tokOK x = true := by
  intro t
  induction t with
  | leaf e =>
    intro k hw hp x hx
    rw [treePOK_leaf] at hp
    cases k <;> simp only [wfK, Bool.false_eq_true, Bool.and_eq_true] at hw <;> simp only [toks] at hx
    · exact condLeafToks_ok rx e hw.2 hp x hx
    · exact actLeafToks_ok e hp x hx
    · exact actLeafToks_ok e hp x hx
  | emptyBlock l =>
    intro k hw _ x hx
    cases k <;> simp only [wfK, Bool.false_eq_true] at hw
    simp only [toks, List.mem_cons, List.not_mem_nil, or_false] at hx
    rcases hx with rfl | rfl <;> rfl
  | block l b ih =>
    intro k hw hp x hx
    rw [treePOK_block] at hp
    cases k <;> simp only [wfK, Bool.false_eq_true] at hw
    simp only [toks, List.mem_cons, List.mem_append, List.not_mem_nil, or_false] at hx
    rcases hx with (rfl | hx) | rfl
    · rfl
    · exact ih .rules hw hp x hx
    · rfl
  | neg l e ih =>
    intro k hw hp x hx
    rw [treePOK_neg] at hp
    cases k <;> simp only [wfK, Bool.false_eq_true] at hw
    simp only [toks, List.mem_cons] at hx
    rcases hx with rfl | hx
    · rfl
    · exact ih .cond hw hp x hx
  | attachment l e ih =>
    intro k hw hp x hx
    rw [treePOK_attachment] at hp
    cases k <;> simp only [wfK, Bool.false_eq_true] at hw
    simp only [toks, List.mem_cons] at hx
    rcases hx with rfl | hx
    · rfl
    · exact ih .cond hw hp x hx
  | attBlock l b ih =>
    intro k hw hp x hx
    rw [treePOK_attBlock] at hp
    cases k <;> simp only [wfK, Bool.false_eq_true, Bool.and_eq_true] at hw <;>
      simp only [toks, List.mem_cons] at hx <;>
      (rcases hx with rfl | hx
       · rfl
       · exact ih .block hw.1.1 hp x hx)
  | and l a b iha ihb =>
    intro k hw hp x hx
    rw [treePOK_and, Bool.and_eq_true] at hp
    cases k <;> simp only [wfK, Bool.false_eq_true, Bool.and_eq_true] at hw
    · simp only [toks, List.mem_cons, List.mem_append, List.not_mem_nil, or_false] at hx
      rcases hx with (((rfl | hx) | rfl) | hx) | rfl
      · rfl
      · exact iha .cond hw.1 hp.1 x hx
      · rfl
      · exact ihb .cond hw.2 hp.2 x hx
      · rfl
    · simp only [toks, List.mem_append] at hx
      rcases hx with hx | hx
      · exact iha .acts hw.1 hp.1 x hx
      · exact ihb .act hw.2 hp.2 x hx
  | or l a b iha ihb =>
    intro k hw hp x hx
    rw [treePOK_or, Bool.and_eq_true] at hp
    cases k <;> simp only [wfK, Bool.false_eq_true, Bool.and_eq_true] at hw
    · simp only [toks, List.mem_cons, List.mem_append, List.not_mem_nil, or_false] at hx
      rcases hx with (((rfl | hx) | rfl) | hx) | rfl
      · rfl
      · exact iha .cond hw.1 hp.1 x hx
      · rfl
      · exact ihb .cond hw.2 hp.2 x hx
      · rfl
    · simp only [toks, List.mem_append] at hx
      rcases hx with hx | hx
      · exact iha .rules hw.1 hp.1 x hx
      · exact ihb .rule hw.2 hp.2 x hx
  | mtch l c r ihc ihr =>
    intro k hw hp x hx
    rw [treePOK_mtch, Bool.and_eq_true] at hp
    have key : wfK rx .cond c = true →
        ((wfK rx .block r = true ∧ r.countActions > 0) ∨ (wfK rx .acts r = true ∧ aloneOK r = true)) →
        x ∈ PTok.kw .mtch :: (toks .cond c ++ (if isBlock r then toks .block r else toks .acts r)) → tokOK x = true := by
      intro hc hr hx
      simp only [List.mem_cons, List.mem_append] at hx
      rcases hx with rfl | hx | hx
      · rfl
      · exact ihc .cond hc hp.1 x hx
      · rcases hr with ⟨h1, _⟩ | ⟨h1, _⟩
        · rw [isBlock_of_wf_block _ _ h1, if_pos rfl] at hx
          exact ihr .block h1 hp.2 x hx
        · rw [not_isBlock_of_wf_acts _ _ h1] at hx
          simp only [Bool.false_eq_true, if_false] at hx
          exact ihr .acts h1 hp.2 x hx
    cases k <;> simp only [wfK, Bool.false_eq_true, Bool.and_eq_true, Bool.or_eq_true, decide_eq_true_eq] at hw
    · exact key hw.1 hw.2 (by simpa [toks] using hx)
    · exact key hw.1 hw.2 (by simpa [toks] using hx)

theorem blockToks_ok (rx : Pat → Bool) (b : PBlock) (h1 : blockOK rx b = true) (h2 : treePOK b.tree = true)
    (h3 : b.paths.all strOK = true) : ∀ x ∈ blockToks b, tokOK x = true := by
  intro x hx
  simp only [blockOK, Bool.and_eq_true] at h1
  simp only [blockToks, List.mem_append] at hx
  rcases hx with hx | hx
  · split at hx
    · simp at hx; subst hx; rfl
    · simp only [List.mem_append, List.mem_cons, List.not_mem_nil, or_false] at hx
      rcases hx with rfl | hx
      · rfl
      · exact strsToks_ok b.paths (by simpa [List.all_eq_true] using h3) x hx
  · exact toks_ok rx b.tree .block h1.1.1 h2 x hx

/-- One block. -/
theorem maildirBody_rt (cx : PCtx) (hnl : cx.nl = countNl tl) (b : PBlock) (h1 : blockOK cx.rxOk b = true)
    (h2 : treePOK b.tree = true) (fuel : Nat) :
    RT cx tl (parseMaildirBody cx fuel b.paths) (relabelBlock b) (toks .block b.tree) := by
  intro s ts hs
  simp only [blockOK, Bool.and_eq_true, decide_eq_true_eq, Bool.or_eq_true, Bool.not_eq_true', beq_iff_eq] at h1
  obtain ⟨⟨hw, hcount⟩, hrej⟩ := h1
  unfold parseMaildirBody
  simp only [wpl_bind]
  rw [toks_block_cons _ _ hw] at hs
  simp only [List.cons_append] at hs
  refine wpl_of_rt (expectTk_rt cx .lbrace rfl) hs ?_
  intro s1 h1
  refine wpl_of_rt (all_rt cx hnl b.tree .block hw h2 NoE fuel) h1 ?_
  intro s2 h2'
  have hne : ((relabel b.tree).countActions == 0) = false := by
    rw [countActions_relabel]; simp only [beq_eq_false_iff_ne]; omega
  have hrj : ((b.paths.any fun p => !isStdinStr p) && decide ((relabel b.tree).countLeaf Expr.isReject > 0)) = false := by
    rw [countLeaf_relabel Expr.isReject isReject_withLno]
    rcases hrej with h | h
    · simp [h]
    · simp [h]
  simp only [hne, hrj, wpl_ite, Bool.false_eq_true, if_false, wpl_pure]
  exact ⟨rfl, h2'⟩

theorem any_stdin_relabel (l : List PBlock) :
    ((l.map relabelBlock).any fun b => b.paths.any isStdinStr) = (l.any fun b => b.paths.any isStdinStr) := by
  induction l <;> simp_all [relabelBlock]

/-- One more block: after a written block `b` the top-level loop goes on with `b` appended. -/
theorem parseTop_step (cx : PCtx) (hnl : cx.nl = countNl tl) (b : PBlock)
    (hb : blockOK cx.rxOk b = true ∧ treePOK b.tree = true ∧ b.paths.all strOK = true) (seen : List PBlock)
    (hstd : b.paths = [stdinStr] → (seen.any fun x => x.paths.any isStdinStr) = false)
    (ts : List PTok) (Q : List PBlock → ParseSt → Prop)
    (hQ : ∀ fuel' s', Up cx tl s' ts → wpl (parseTop cx fuel' (seen ++ [relabelBlock b])) Q NoErr True s') :
    ∀ (fuel : Nat) (s : ParseSt), Up cx tl s (blockToks b ++ ts) → wpl (parseTop cx fuel seen) Q NoErr True s := by
  intro fuel s hs
  cases fuel with
  | zero => simp [parseTop, wpl, outOfFuel]
  | succ fuel =>
    unfold parseTop
    simp only [wpl_bind]
    simp only [blockToks, List.append_assoc] at hs
    by_cases hp : b.paths = [stdinStr]
    · -- `stdin { }`
      rw [if_pos hp] at hs
      simp only [List.cons_append, List.nil_append] at hs
      apply wpl_peek_up cx _ _ hs rfl
      intro s1 h1
      simp only [tkOf, wpl_bind]
      apply wpl_shift_up h1
      intro s2 h2
      simp only [hstd hp, wpl_ite, Bool.false_eq_true, if_false, wpl_bind]
      have hbody := maildirBody_rt (tl := tl) cx hnl b hb.1 hb.2.1 fuel
      rw [hp] at hbody
      refine wpl_of_rt hbody h2 ?_
      intro s3 h3
      exact hQ fuel s3 h3
    · -- `maildir { "path" ... } { }`
      rw [if_neg hp] at hs
      simp only [List.cons_append, List.nil_append, List.append_assoc] at hs
      apply wpl_peek_up cx _ _ hs rfl
      intro s1 h1
      simp only [tkOf, wpl_bind]
      apply wpl_shift_up h1
      intro s2 h2
      refine wpl_of_rt (parseStrings_rt cx b.paths fuel) h2 ?_
      intro s3 h3
      have hpaths : ∀ p ∈ b.paths, strOK p = true := by simpa [List.all_eq_true] using hb.2.2
      apply wpl_expandAll_up cx false b.paths hpaths h3
      refine wpl_of_rt (maildirBody_rt cx hnl b hb.1 hb.2.1 fuel) h3 ?_
      intro s4 h4
      exact hQ fuel s4 h4

/-- Written blocks `pre` in front of anything: the top-level loop reads them and goes on. -/
theorem parseTop_prefix (cx : PCtx) (hnl : cx.nl = countNl tl) : ∀ (pre seen : List PBlock),
    (∀ b ∈ pre, blockOK cx.rxOk b = true ∧ treePOK b.tree = true ∧ b.paths.all strOK = true) →
    stdinOK seen pre = true →
    ∀ (ts : List PTok) (Q : List PBlock → ParseSt → Prop),
    (∀ fuel' s', Up cx tl s' ts → wpl (parseTop cx fuel' ((seen ++ pre).map relabelBlock)) Q NoErr True s') →
    ∀ (fuel : Nat) (s : ParseSt), Up cx tl s (pre.flatMap blockToks ++ ts) →
      wpl (parseTop cx fuel (seen.map relabelBlock)) Q NoErr True s := by
  intro pre
  induction pre with
  | nil =>
    intro seen _ _ ts Q hQ fuel s hs
    simpa using hQ fuel s (by simpa using hs)
  | cons b rest ih =>
    intro seen hall hstd ts Q hQ fuel s hs
    have hb := hall b (by simp)
    simp only [stdinOK, Bool.and_eq_true, Bool.or_eq_true, Bool.not_eq_true', decide_eq_false_iff_not, decide_eq_true_eq] at hstd
    have hno : b.paths = [stdinStr] → ((seen.map relabelBlock).any fun x => x.paths.any isStdinStr) = false := by
      intro hp
      rw [any_stdin_relabel]
      rcases hstd.1 with h | h
      · exact absurd hp h
      · exact h
    simp only [List.flatMap_cons, List.append_assoc] at hs
    refine parseTop_step cx hnl b hb (seen.map relabelBlock) hno (rest.flatMap blockToks ++ ts) Q ?_ fuel s hs
    intro fuel' s' h'
    have := ih (seen ++ [b]) (fun x hx => hall x (by simp [hx])) hstd.2 ts Q
      (by intro f2 s2 h2; have := hQ f2 s2 h2; simpa using this) fuel' s' h'
    simpa using this

/-- The whole file. -/
theorem parseTop_rt (cx : PCtx) (hnl : cx.nl = 0) (rest seen : List PBlock)
    (hall : ∀ b ∈ rest, blockOK cx.rxOk b = true ∧ treePOK b.tree = true ∧ b.paths.all strOK = true)
    (hstd : stdinOK seen rest = true) (fuel : Nat) (s : ParseSt) (hs : Up cx [] s (rest.flatMap blockToks)) :
    wpl (parseTop cx fuel (seen.map relabelBlock))
      (fun r s' => r = (seen ++ rest).map relabelBlock ∧ s'.macros = []) NoErr True s := by
  refine parseTop_prefix (tl := []) cx (by simpa [countNl] using hnl) rest seen hall hstd [] _ ?_ fuel s (by simpa using hs)
  intro fuel' s' h'
  cases fuel' with
  | zero => simp [parseTop, wpl, outOfFuel]
  | succ fuel' =>
    unfold parseTop
    simp only [wpl_bind]
    apply wpl_peek_end cx _ _ h'
    intro s1 hm
    simp only [wpl_pure]
    exact ⟨trivial, hm⟩

/-- `yylval.lineno` before the first token is read does not matter. -/
theorem peek_tokLine (cx : PCtx) (pf sf : Bool) (s : ParseSt) (hla : s.la = none) (x : Nat) :
    peek cx pf sf { s with tokLine := x } = peek cx pf sf s := by
  unfold peek
  simp only [hla]

theorem parseTop_tokLine (cx : PCtx) (fuel : Nat) (bl : List PBlock) (s : ParseSt) (hla : s.la = none) (x : Nat) :
    parseTop cx (fuel + 1) bl { s with tokLine := x } = parseTop cx (fuel + 1) bl s := by
  unfold parseTop
  show PM.bind (peek cx false false) _ _ = PM.bind (peek cx false false) _ _
  unfold PM.bind
  rw [peek_tokLine cx false false s hla x]

/-- `parseConfig` reads back every configuration `printBlocks` is meant for, with every node on line 1. -/
theorem printBlocks_roundtrip (home : Bytes) (rx : Pat → Bool) (bs : List PBlock) (hok : ConfOK rx bs = true) :
    parseConfig home [] rx (printBlocks bs) = .ok (bs.map relabelBlock) := by
  simp only [ConfOK, Bool.and_eq_true, List.all_eq_true] at hok
  obtain ⟨hall, hstd⟩ := hok
  have hall' : ∀ b ∈ bs, blockOK rx b = true ∧ treePOK b.tree = true ∧ b.paths.all strOK = true := by
    intro b hb; have := hall b hb; exact ⟨this.1.1, this.1.2, by simpa [List.all_eq_true] using this.2⟩
  have htoks : ∀ x ∈ bs.flatMap blockToks, lexOK x = true := by
    intro x hx
    simp only [List.mem_flatMap] at hx
    obtain ⟨b, hb, hx⟩ := hx
    exact lexOK_of_tokOK (blockToks_ok rx b (hall' b hb).1 (hall' b hb).2.1 (hall' b hb).2.2 x hx)
  have hnl : countNl (printBlocks bs) = 0 := render_noNl _ htoks
  have htot := (parseConfigFull_spec home [] rx (printBlocks bs)).1
  unfold parseConfig parseConfigFull at htot ⊢
  simp only [macrosOfDefs] at htot ⊢
  have hs0 : Up { nl := countNl (printBlocks bs), home := home, rxOk := rx } []
      ({ rest := printBlocks bs, macros := [], tokLine := 1 } : ParseSt) (bs.flatMap blockToks) :=
    Or.inl ⟨rfl, by simp [printBlocks], rfl, rfl, htoks, by simp, by simpa [countNl] using hnl, rfl⟩
  have := parseTop_rt (NoErr := NoE) { nl := countNl (printBlocks bs), home := home, rxOk := rx } hnl bs [] hall' hstd
    ((printBlocks bs).length + 1) _ hs0
  simp only [List.map_nil, List.nil_append] at this
  have h1 : parseTop { nl := countNl (printBlocks bs), home := home, rxOk := rx } ((printBlocks bs).length + 1) []
      ({ rest := printBlocks bs, macros := [], tokLine := 1 } : ParseSt) =
      parseTop { nl := countNl (printBlocks bs), home := home, rxOk := rx } ((printBlocks bs).length + 1) []
      ({ rest := printBlocks bs, macros := [] } : ParseSt) :=
    parseTop_tokLine _ _ _ ({ rest := printBlocks bs, macros := [] } : ParseSt) rfl 1
  unfold wpl at this
  rw [h1] at this
  split at this
  · rename_i blocks s' heq
    rw [heq]
    obtain ⟨rfl, hm⟩ := this
    simp only [hm, firstUnused, List.find?_nil]
  · exact absurd this id
  · rename_i s' heq
    rw [heq] at htot
    exact absurd rfl htot

end Mdsort.Proofs.Conf
