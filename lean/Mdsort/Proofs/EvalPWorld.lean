import Mdsort.Proofs.EvalPCalls
import Mdsort.Proofs.WorldWrite

/-!
# Evaluation on the abstract file system under EVERY fault plan

`EvalFoot w w'`: the footprint of evaluation relative to the world `w` it started in - directories, files, file ids,
devices and modification times are the same, every handle of `w` is untouched, and the handles created since are
`/dev/null` descriptors (open or closed again).  `wp_evalFoot`: whatever the faults are, after every call of `evalP`
the world is in the footprint; the value is the pure evaluation `evalR` on SOME list of answers.
-/

namespace Mdsort.Proofs.World
open Mdsort Mdsort.Model

structure EvalFoot (w w' : World) : Prop where
  dirs : w'.dirs = w.dirs
  files : w'.files = w.files
  nextFid : w'.nextFid = w.nextFid
  devs : w'.devs = w.devs
  mtimes : w'.mtimes = w.mtimes
  objs : ∀ h, h < w.handles.length → w'.obj h = w.obj h
  len : w.handles.length ≤ w'.handles.length
  new : ∀ h, w.handles.length ≤ h → w'.obj h = .other ∨ w'.obj h = .closed

theorem EvalFoot.refl (w : World) : EvalFoot w w :=
  ⟨rfl, rfl, rfl, rfl, rfl, fun _ _ => rfl, Nat.le_refl _, fun h hh => .inr (obj_of_ge w h hh)⟩

theorem EvalFoot.trace {w w1 : World} (ef : EvalFoot w w1) (tr : List (Call × Res)) : EvalFoot w { w1 with trace := tr } :=
  ⟨ef.dirs, ef.files, ef.nextFid, ef.devs, ef.mtimes, ef.objs, ef.len, ef.new⟩

theorem EvalFoot.step_of_core {w w1 X : World} {c : Call} {r : Res} (h : core w1 c r = X) (hX : EvalFoot w X) :
    EvalFoot w (stepWorld w1 c r) := by
  have : stepWorld w1 c r = { X with trace := X.trace ++ [(c, r)] } := by
    rw [← h]; rfl
  rw [this]; exact hX.trace _

theorem EvalFoot.newHandle {w w1 : World} (ef : EvalFoot w w1) : EvalFoot w (w1.newHandle .other).1 := by
  refine ⟨ef.dirs, ef.files, ef.nextFid, ef.devs, ef.mtimes, ?_, ?_, ?_⟩
  · intro h hh
    rw [obj_newHandle]
    have : h ≠ w1.handles.length := by have := ef.len; omega
    simp only [this, if_false]
    exact ef.objs h hh
  · rw [len_newHandle]; exact Nat.le_succ_of_le ef.len
  · intro h hh
    rw [obj_newHandle]
    split
    · exact .inl rfl
    · exact ef.new h hh

theorem EvalFoot.close {w w1 : World} (ef : EvalFoot w w1) {fd : Handle} (hfd : w.handles.length ≤ fd) :
    EvalFoot w (w1.setObj fd .closed) := by
  refine ⟨ef.dirs, ef.files, ef.nextFid, ef.devs, ef.mtimes, ?_, ?_, ?_⟩
  · intro h hh
    rw [obj_setObj]
    have : ¬ (h = fd ∧ fd < w1.handles.length) := by intro hc; omega
    simp only [this, if_false]
    exact ef.objs h hh
  · rw [len_setObj]; exact ef.len
  · intro h hh
    rw [obj_setObj]
    split
    · exact .inr rfl
    · exact ef.new h hh

theorem EvalFoot.trans {w0 w1 w2 : World} (a : EvalFoot w0 w1) (b : EvalFoot w1 w2) : EvalFoot w0 w2 := by
  refine ⟨b.dirs.trans a.dirs, b.files.trans a.files, b.nextFid.trans a.nextFid, b.devs.trans a.devs,
    b.mtimes.trans a.mtimes, ?_, Nat.le_trans a.len b.len, ?_⟩
  · intro h hh
    rw [b.objs h (Nat.lt_of_lt_of_le hh a.len)]
    exact a.objs h hh
  · intro h hh
    rcases Nat.lt_or_ge h w1.handles.length with h1 | h1
    · rw [b.objs h h1]; exact a.new h hh
    · exact b.new h h1

/-- A call whose success changes nothing in the abstract world (`fork`, `waitpid`, `stat`). -/
theorem core_inert (w : World) (c : Call) (r : Res) (hc : c.isFork = true ∨ c = .waitpid ∨ ∃ p, c = .stat p) : core w c r = w := by
  rcases hc with hf | rfl | ⟨p, rfl⟩
  · obtain ⟨av, s, rfl⟩ := Call.isFork_iff.1 hf
    cases r <;> rfl
  · cases r <;> rfl
  · cases r <;> rfl

theorem core_openPath_ok (w : World) (p : Bytes) (v : Nat) : core w (.openPath p) (.ok v) = (w.newHandle .other).1 := rfl

/-- util.c `exec(argv, -1)` under every fault plan stays in the footprint. -/
theorem evalFoot_execP (argv : List Bytes) {w0 w : World} (ef : EvalFoot w0 w) :
    wp (EvalFoot w0) (execP argv none) (fun _ w' => EvalFoot w0 w') w := by
  unfold execP
  simp only [bind_eq, pure_eq, call_bind]
  refine wp_bind_mono (R := fun dn w' => EvalFoot w0 w' ∧ ∀ h, dn = some (some h) → w0.handles.length ≤ h) ?_ ?_
  · refine wp_call (fun r => r = .ok w.handles.length ∨ ∃ e, r = .err e)
      (fun ft => results_simple ft w _ _ (by intro _ h; cases h) (by intro _ _ h; cases h) rfl) ?_
    intro r hr
    rcases hr with rfl | ⟨e, rfl⟩
    · have ef1 : EvalFoot w0 (stepWorld w (.openPath (ofString "/dev/null")) (.ok w.handles.length)) :=
        EvalFoot.step_of_core (core_openPath_ok w _ _) ef.newHandle
      exact ⟨ef1, ef1, by intro h hh; cases hh; exact ef.len⟩
    · have ef1 : EvalFoot w0 (stepWorld w (.openPath (ofString "/dev/null")) (.err e)) :=
        EvalFoot.step_of_core (core_err w _ e (by intro _ h; cases h) (by intro _ h; cases h) (by intro _ h; cases h)) ef
      exact ⟨ef1, ef1, by intro _ h; cases h⟩
  · rintro dn w1 ⟨ef1, hdn⟩
    cases dn with
    | none => exact ef1
    | some devnull =>
      dsimp only
      refine wp_call_any fun r => ?_
      have ef2 : EvalFoot w0 (stepWorld w1 (.fork argv (childStdin none devnull)) r) := EvalFoot.step_of_core (core_inert w1 _ r (.inl rfl)) ef1
      refine ⟨ef2, ?_⟩
      refine wp_bind_mono (R := fun _ w' => EvalFoot w0 w') ?_ ?_
      · split
        · refine wp_call_any fun r2 => ?_
          have ef3 := EvalFoot.step_of_core (core_inert _ .waitpid r2 (.inr (.inl rfl))) ef2
          refine ⟨ef3, ?_⟩
          split <;> exact ef3
        · exact ef2
      · intro res w3 ef3
        cases devnull with
        | none => exact ef3
        | some h =>
          dsimp only
          refine wp_call_any fun r3 => ?_
          have ef4 : EvalFoot w0 (stepWorld w3 (.close h) r3) :=
            EvalFoot.step_of_core (core_close w3 h r3) (ef3.close (hdn h rfl))
          exact ⟨ef4, ef4⟩

theorem evalFoot_sysCall (q : Req) {w0 w : World} (ef : EvalFoot w0 w) :
    wp (EvalFoot w0) (sysCall q) (fun _ w' => EvalFoot w0 w') w := by
  cases q with
  | command av => exact wp_bind_mono (evalFoot_execP _ ef) fun _ _ h => h
  | isDir p =>
    refine wp_call_any fun r => ?_
    have ef1 : EvalFoot w0 (stepWorld w (.stat p) r) := EvalFoot.step_of_core (core_inert w _ r (.inr (.inr ⟨p, rfl⟩))) ef
    exact ⟨ef1, ef1⟩
  | fileTime p f =>
    refine wp_call_any fun r => ?_
    have ef1 : EvalFoot w0 (stepWorld w (.stat p) r) := EvalFoot.step_of_core (core_inert w _ r (.inr (.inr ⟨p, rfl⟩))) ef
    exact ⟨ef1, ef1⟩

/-- A computation that asks, as a program under every fault plan: the world stays in the footprint of the world
it started in, and the value is the value of the pure run on some list of answers. -/
theorem evalFoot_toProg {α} (t : Ask α) {w0 w : World} (ef : EvalFoot w0 w) :
    wp (EvalFoot w0) t.toProg (fun v w' => EvalFoot w0 w' ∧ ∃ as, v = (t.run as).1) w := by
  induction t generalizing w with
  | ret a => exact ⟨ef, [], rfl⟩
  | ask q k ih =>
    refine wp_bind_mono (evalFoot_sysCall q ef) fun a w1 ef1 => ?_
    refine wp_mono (ih a ef1) ?_
    rintro v w2 ⟨ef2, as, hv⟩
    exact ⟨ef2, a :: as, by simp only [Ask.run, List.headD_cons, List.tail_cons]; exact hv⟩

/-- **Evaluation under every fault plan**: after every call the world is in the footprint of the world evaluation
started in; the result is `evalR` on some answers. -/
theorem wp_evalFoot (env : Env) (e : Expr) (m : Msg) (fl : MFlags) (w : World) :
    wp (EvalFoot w) (evalP env e m fl) (fun v w' => EvalFoot w w' ∧ ∃ as, v = (evalR env e m fl as).1) w :=
  evalFoot_toProg _ (EvalFoot.refl w)

end Mdsort.Proofs.World
