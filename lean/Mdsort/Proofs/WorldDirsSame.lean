import Mdsort.Proofs.WorldExitBasic

/-!
# No directory is created or removed by a run in maildir mode

`mkdir`, `mkdtemp` and `rmdir` are issued by the stdin spool only.  `KeepsDirs c`: `c` is none of them;
then the set of existing directories is the same before and after the call, whatever it returns
(`dirsSame_step`).  Every call of a walk, and of a whole run in maildir mode, satisfies the frame
condition `FramedW` (`C04_isolation_calls_main`), which excludes the three calls: so the directories
that exist are the same at every point of such a run, under every fault plan (`dirsSame_walk`, `dirsSame_mainP`).
-/

namespace Mdsort.Proofs
open Mdsort Mdsort.Model
open Mdsort.Proofs.World (wpS wpS_mono core getD_bind_P getD_map_P)

/-- The call creates or removes no directory. -/
def KeepsDirs : Call → Prop
  | .mkdir _ | .mkdtemp _ | .rmdir _ => False
  | _ => True

/-- The same directories exist in both worlds. -/
def DirsSame (w w' : World) : Prop := ∀ q, (w'.dir q).isSome = (w.dir q).isSome

theorem DirsSame.refl (w : World) : DirsSame w w := fun _ => rfl

theorem DirsSame.trans {a b c : World} (h1 : DirsSame a b) (h2 : DirsSame b c) : DirsSame a c :=
  fun q => (h2 q).trans (h1 q)

theorem dirsSame_of_dirs {w w' : World} (h : w'.dirs = w.dirs) : DirsSame w w' := by
  intro q
  rw [World.dir_of_dirs h q]

theorem dirsSame_bind (w : World) (p n : Bytes) (fid : Nat) : DirsSame w (w.bind p n fid) :=
  fun q => World.dir_bind_isSome w p n q fid

theorem dirsSame_unbind (w : World) (p n : Bytes) : DirsSame w (w.unbind p n) :=
  fun q => World.dir_unbind_isSome w p n q

theorem dirsSame_core (w : World) (c : Call) (r : Res) (h : KeepsDirs c) : DirsSame w (core w c r) := by
  by_cases hd : World.Call.dirOp c = false
  · exact dirsSame_of_dirs (World.core_dirs w c r hd)
  · unfold core applyOk
    split <;> first
      | exact DirsSame.refl w
      | (exfalso; exact hd rfl)
      | exact h.elim
      | skip
    · -- openExcl
      refine getD_bind_P (P := DirsSame w) (DirsSame.refl w) fun p _ => ?_
      split
      · exact DirsSame.refl w
      · exact (dirsSame_of_dirs (w' := (({ w with nextFid := w.nextFid + 1 } : World).setFile w.nextFid ⟨[], []⟩)) rfl).trans
          ((dirsSame_bind _ p _ w.nextFid).trans (dirsSame_of_dirs rfl))
    · -- renameat
      refine getD_bind_P (P := DirsSame w) (DirsSame.refl w) fun p1 _ => ?_
      refine getD_bind_P (P := DirsSame w) (DirsSame.refl w) fun p2 _ => ?_
      refine getD_map_P (P := DirsSame w) (DirsSame.refl w) fun fid _ => ?_
      exact (dirsSame_unbind w _ _).trans (dirsSame_bind _ _ _ _)
    · -- unlinkat
      refine getD_bind_P (P := DirsSame w) (DirsSame.refl w) fun p _ => ?_
      refine getD_map_P (P := DirsSame w) (DirsSame.refl w) fun fid _ => ?_
      exact dirsSame_unbind w _ _

theorem dirsSame_step (w : World) (c : Call) (r : Res) (h : KeepsDirs c) : DirsSame w (stepWorld w c r) :=
  fun q => by rw [World.stepWorld_dir]; exact dirsSame_core w c r h q

/-- A program all of whose calls keep the directories (as a trace-level frame specification states it):
the same directories exist before and after it, under at most one fault. -/
theorem dirsSame_of_wp {α} {I : List (Call × Res) → Call → Prop} (hI : ∀ tr c, I tr c → KeepsDirs c) {p : Prog α} :
    ∀ {tr : List (Call × Res)}, Own.wp (fun _ _ => True) I p (fun _ _ => True) tr →
      ∀ (b : Bool) (w : World), wpS p (fun _ _ w' => DirsSame w w') b w := by
  induction p with
  | ret a => intro _ _ _ w; exact DirsSame.refl w
  | call c k ih =>
    intro tr h b w
    have hk := hI tr c h.1
    have step : ∀ (r : Res) (b' : Bool), wpS (k r) (fun _ _ w' => DirsSame w w') b' (stepWorld w c r) := by
      intro r b'
      exact wpS_mono (ih r (h.2 r trivial) b' (stepWorld w c r)) fun _ _ _ hq => (dirsSame_step w c r hk).trans hq
    exact ⟨step _ _, fun _ _ => step _ _⟩

theorem keepsDirs_of_framedW (tr : List (Call × Res)) (c : Call) (h : FramedW tr c) : KeepsDirs c := by
  cases c <;> first
    | exact True.intro
    | (rcases h with ⟨d, hd⟩ | h
       · cases hd
       · split at h
         · exact h
         · cases h)

theorem dirsSame_walk (env : PEnv) (orc : EvalOracles) (expr : Expr) (fuel : Nat) (md : Maildir) (st : MainSt) (b : Bool) (w : World) :
    wpS (walk env orc expr fuel md st) (fun _ _ w' => DirsSame w w') b w :=
  dirsSame_of_wp keepsDirs_of_framedW (Own.framedW_walk env orc expr fuel md st []) b w

theorem dirsSame_paths (env : PEnv) (orc : EvalOracles) (input : Bytes) (blk : ConfBlock) (hm : env.stdinMode = false)
    (ps : List Bytes) (st : MainSt) (b : Bool) (w : World) :
    wpS (mainP.blocks.paths env orc input blk ps st) (fun _ _ w' => DirsSame w w') b w :=
  dirsSame_of_wp keepsDirs_of_framedW (Own.framedW_paths env orc input blk hm ps st []) b w

theorem dirsSame_blocks (env : PEnv) (orc : EvalOracles) (input : Bytes) (hm : env.stdinMode = false)
    (bs : List ConfBlock) (st : MainSt) (b : Bool) (w : World) :
    wpS (mainP.blocks env orc input bs st) (fun _ _ w' => DirsSame w w') b w :=
  dirsSame_of_wp keepsDirs_of_framedW (Own.framedW_blocks env orc input hm bs st []) b w

/-- Maildir mode: the directories that exist at the end of a run are those that existed at its start. -/
theorem dirsSame_mainP (env : PEnv) (orc : EvalOracles) (ok : Bool) (conf : List ConfBlock) (files : Files) (input : Bytes)
    (hm : env.stdinMode = false) (b : Bool) (w : World) :
    wpS (mainP env orc ok conf files input) (fun _ _ w' => DirsSame w w') b w :=
  dirsSame_of_wp keepsDirs_of_framedW (Own.framedW_mainP env orc ok conf files input hm []) b w

end Mdsort.Proofs
