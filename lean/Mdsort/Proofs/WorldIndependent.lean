import Mdsort.Proofs.WorldFrameWalk
import Mdsort.Proofs.WorldWholeMsg

/-!
# `processMessage` has no hidden state (C04, package ce14)

What processing one message does is a program of

* the configuration (`env`, `orc`, `expr`), the maildir being walked (`md`) and the message's name,
* the ONE entry of the loop state the message itself reads: `st.files.get md.path name` (its content),
* the results of its own calls,

and it changes the loop state by an *effect* (`MsgEffect`: an error bit, a reject bit, the `-d` lines, and where
the message's own file is afterwards) that is applied to whatever the state was.  Nothing an earlier message left in
`MainSt` - the flags, the log, any other entry of `files` - is looked at.

This is what makes the metamorphic oracle of `tools/isolation.py` legitimate: the outcome for a message in a run over
a whole population equals its outcome in a run on that message alone, unless an earlier message changed the entry
`(md.path, name)` itself - a message moved to exactly that place: F21 and "a destination that is walked later", which
the stage identifies and treats as one chain of visits.

The proof rests on the decomposition lemmas of `Proofs/WorldFrame.lean` (`processMessage_eq`, `_noDir`, `_unknown`,
`afterParse`, `afterVerdict`); the statements mention `processMessage` only as a function of `MainSt`.
-/

namespace Mdsort.Proofs
open Mdsort Mdsort.Model
open Mdsort.Proofs.Own (runO runO_bind runO_ret runO_call runOracle_eq mapP mapP_ret mapP_bind mapP_call runO_mapP)
open Mdsort.Proofs.World (bind_eq pure_eq bind_assoc)

/-- What one message contributes to the loop state.  `file = none`: the registry of files is untouched;
`some none`: the message's own entry is gone (discarded); `some (some (d, n, c))`: its own entry is gone and
`(d, n)` is bound to `c` (where `matches_exec` left the file, with the content it has now). -/
structure MsgEffect where
  error : Bool
  reject : Bool
  lines : List Bytes
  file : Option (Option (Bytes × Bytes × Bytes))

/-- Nothing happened. -/
def MsgEffect.noop : MsgEffect := ⟨false, false, [], none⟩
/-- The message is an error and nothing else. -/
def MsgEffect.fail : MsgEffect := ⟨true, false, [], none⟩

/-- Where a message's file is (ghost fields of `MsgSt`). -/
def effectFile (ms : MsgSt) : Option (Bytes × Bytes × Bytes) := ms.loc.map fun p => (p.1, p.2, ms.content)

/-- The effect applied to a loop state: the flags are or-ed, the lines appended, the message's own entry
`(dir, name)` replaced. -/
def MsgEffect.apply (dir name : Bytes) (e : MsgEffect) (st : MainSt) : MainSt :=
  { files := match e.file with
      | none => st.files
      | some none => st.files.del dir name
      | some (some x) => (st.files.del dir name).put x.1 x.2.1 x.2.2
    error := st.error || e.error
    reject := st.reject || e.reject
    log := st.log ++ e.lines
    fuelOut := st.fuelOut }

theorem MsgEffect.apply_noop (dir name : Bytes) (st : MainSt) : MsgEffect.noop.apply dir name st = st := by
  cases st
  simp [MsgEffect.apply, MsgEffect.noop]

theorem MsgEffect.apply_fail (dir name : Bytes) (st : MainSt) :
    MsgEffect.fail.apply dir name st = { st with error := true } := by
  cases st
  simp [MsgEffect.apply, MsgEffect.fail]

theorem afterExec_eq (files : Files) (dir name : Bytes) (ms : MsgSt) :
    afterExec files dir name ms =
      (match effectFile ms with
       | none => files.del dir name
       | some x => (files.del dir name).put x.1 x.2.1 x.2.2) := by
  unfold afterExec effectFile
  cases ms.loc with
  | none => rfl
  | some p => obtain ⟨d, n⟩ := p; rfl

/-! ## the effect as a program that never sees the loop state -/

/-- `afterVerdict` without the loop state. -/
def verdictEffect (env : PEnv) (md : Maildir) (ms : MsgSt) : Verdict → Prog MsgEffect
  | .unparsable => (freeP ms).bind fun _ => .ret MsgEffect.fail
  | .error => (freeP ms).bind fun _ => .ret MsgEffect.fail
  | .interpFail => (freeP ms).bind fun _ => .ret MsgEffect.fail
  | .nomatch => (freeP ms).bind fun _ => .ret MsgEffect.noop
  | .act ml msgs fl =>
    let ms1 : MsgSt := { ms with msg := msgs 0, flags := fl }
    if env.dryrun then (freeP ms1).bind fun _ => .ret ⟨false, false, inspectLines env ml ms.path, none⟩
    else
      (matchesExec env ml { src := md, chsrc := false, ms := ms1, reject := false }).bind fun x =>
        (freeP x.1.ms).bind fun _ =>
          .ret ⟨x.2, x.1.reject, inspectLines env ml ms.path, some (effectFile x.1.ms)⟩

/-- The loop state an effect leads to, with the maildir (which `processMessage` returns unchanged). -/
def applyTo (md : Maildir) (name : Bytes) (st : MainSt) (e : MsgEffect) : MainSt × Maildir :=
  (e.apply md.path name st, md)

theorem afterVerdict_effect (env : PEnv) (md : Maildir) (name : Bytes) (st : MainSt) (ms : MsgSt) (v : Verdict) :
    afterVerdict env md name st ms v = mapP (applyTo md name st) (verdictEffect env md ms v) := by
  cases v with
  | unparsable => simp only [afterVerdict, verdictEffect, mapP_bind, mapP_ret, applyTo, MsgEffect.apply_fail]
  | error => simp only [afterVerdict, verdictEffect, mapP_bind, mapP_ret, applyTo, MsgEffect.apply_fail]
  | interpFail => simp only [afterVerdict, verdictEffect, mapP_bind, mapP_ret, applyTo, MsgEffect.apply_fail]
  | «nomatch» => simp only [afterVerdict, verdictEffect, mapP_bind, mapP_ret, applyTo, MsgEffect.apply_noop]
  | act ml msgs fl =>
    simp only [afterVerdict, verdictEffect]
    split
    · rw [mapP_bind]
      congr 1
      funext _
      rw [mapP_ret]
      congr 1
      cases st
      simp [applyTo, MsgEffect.apply]
    · rw [mapP_bind]
      congr 1
      funext x
      rw [mapP_bind]
      congr 1
      funext _
      rw [mapP_ret]
      congr 1
      simp only [applyTo, MsgEffect.apply, afterExec_eq]
      cases effectFile x.1.ms <;> rfl

/-- `afterParse` without the loop state. -/
def parseEffect (env : PEnv) (orc : EvalOracles) (expr : Expr) (md : Maildir) : Option MsgSt → Prog MsgEffect
  | none => .ret MsgEffect.fail
  | some ms => (evalMs env orc expr ms).bind fun ev => verdictEffect env md ms (evVerdict env orc ms ev)

theorem afterParse_effect (env : PEnv) (orc : EvalOracles) (expr : Expr) (md : Maildir) (name : Bytes) (st : MainSt)
    (pm : Option MsgSt) :
    afterParse env orc expr md name st pm = mapP (applyTo md name st) (parseEffect env orc expr md pm) := by
  cases pm with
  | none => simp only [afterParse, parseEffect, mapP_ret, applyTo, MsgEffect.apply_fail]
  | some ms =>
    simp only [afterParse, parseEffect, mapP_bind]
    congr 1
    funext ev
    exact afterVerdict_effect env md name st ms _

/-- **The effect of one message**, as a program of the configuration, the maildir, the name and the content
registered for `(md.path, name)` (`none`: the model knows no such file) - and of nothing else. -/
def messageEffect (env : PEnv) (orc : EvalOracles) (expr : Expr) (md : Maildir) (name : Bytes) (content : Option Bytes) :
    Prog MsgEffect :=
  match md.dirH with
  | none => .ret MsgEffect.noop
  | some d =>
    match content with
    | none => .ret MsgEffect.fail
    | some c => (messageParseP d md.path name c).bind (parseEffect env orc expr md)

/-- `processMessage` is the effect program of the message's own entry, applied to the loop state. -/
theorem processMessage_effect (env : PEnv) (orc : EvalOracles) (expr : Expr) (md : Maildir) (name : Bytes) (st : MainSt) :
    processMessage env orc expr md name st =
      mapP (applyTo md name st) (messageEffect env orc expr md name (st.files.get md.path name)) := by
  unfold messageEffect
  cases hd : md.dirH with
  | none =>
    rw [processMessage_noDir env orc expr md name st hd]
    simp only [mapP_ret, applyTo, MsgEffect.apply_noop]
  | some d =>
    cases hf : st.files.get md.path name with
    | none =>
      rw [processMessage_unknown env orc expr md name st d hd hf]
      simp only [mapP_ret, applyTo, MsgEffect.apply_fail]
    | some content =>
      rw [processMessage_eq env orc expr md name st d content hd hf]
      simp only [mapP_bind]
      congr 1
      funext pm
      exact afterParse_effect env orc expr md name st pm

/-! ## runs: the results of the message's own calls are all that matters -/

/-- A run depends on the results from its first call on only: two oracles that agree from index `i` resp. `i'`
on give the same value and the same calls. -/
theorem runO_shift {α} (orcl orcl' : Nat → Call → Res) (p : Prog α) (i i' : Nat)
    (h : ∀ k c, orcl (i + k) c = orcl' (i' + k) c) :
    (runO orcl p i).1 = (runO orcl' p i').1 ∧ (runO orcl p i).2.1 = (runO orcl' p i').2.1 := by
  induction p generalizing i i' with
  | ret a => exact ⟨rfl, rfl⟩
  | call c k ih =>
    have h0 : orcl i c = orcl' i' c := by simpa using h 0 c
    have hs : ∀ k c, orcl (i + 1 + k) c = orcl' (i' + 1 + k) c := by
      intro k c
      have := h (k + 1) c
      rwa [show i + (k + 1) = i + 1 + k by omega, show i' + (k + 1) = i' + 1 + k by omega] at this
    rw [runO_call, runO_call, h0]
    obtain ⟨h1, h2⟩ := ih (orcl' i' c) (i + 1) (i' + 1) hs
    exact ⟨h1, by rw [h2]⟩

/-- **Independence of the runs.**  Two runs of `processMessage` for the same message - from ANY two loop states that
agree on the message's own entry, at ANY two positions of a run (call indices `i`, `i'`, traces so far `tr`, `tr'`),
against call results that agree on the message's own calls - issue the same calls with the same results and change
their loop states by the same effect. -/
theorem processMessage_independent (env : PEnv) (orc : EvalOracles) (expr : Expr) (md : Maildir) (name : Bytes)
    (st st' : MainSt) (hfile : st.files.get md.path name = st'.files.get md.path name)
    (orcl orcl' : Nat → Call → Res) (i i' : Nat) (tr tr' : List (Call × Res))
    (hres : ∀ k c, orcl (i + k) c = orcl' (i' + k) c) :
    ∃ (e : MsgEffect) (calls : List (Call × Res)),
      runOracle orcl (processMessage env orc expr md name st) i tr = ((e.apply md.path name st, md), tr ++ calls) ∧
      runOracle orcl' (processMessage env orc expr md name st') i' tr' = ((e.apply md.path name st', md), tr' ++ calls) := by
  refine ⟨(runO orcl (messageEffect env orc expr md name (st.files.get md.path name)) i).1,
    (runO orcl (messageEffect env orc expr md name (st.files.get md.path name)) i).2.1, ?_, ?_⟩
  · rw [runOracle_eq, processMessage_effect, runO_mapP]
    rfl
  · obtain ⟨h1, h2⟩ := runO_shift orcl orcl' (messageEffect env orc expr md name (st.files.get md.path name)) i i' hres
    rw [runOracle_eq, processMessage_effect, runO_mapP, ← hfile, ← h1, ← h2]
    rfl

/-! ## what an effect does to the OTHER entries of the registry -/

/-- An effect leaves every entry of the registry alone except the message's own `(dir, name)` and the place the
message's file is taken to - so the entry a LATER message reads is the initial one unless an earlier message was
moved to exactly that directory and name. -/
theorem MsgEffect.apply_files_frame (dir name : Bytes) (e : MsgEffect) (st : MainSt) (d' n' : Bytes)
    (hown : ¬ (d' = dir ∧ n' = name))
    (hdst : ∀ x, e.file = some (some x) → ¬ (d' = x.1 ∧ n' = x.2.1)) :
    (e.apply dir name st).files.get d' n' = st.files.get d' n' := by
  unfold MsgEffect.apply
  cases hf : e.file with
  | none => rfl
  | some o =>
    cases o with
    | none =>
      simp only [Files.whole_get_del, hown, if_false]
    | some x =>
      simp only [Files.whole_get_put, Files.whole_get_del, hown, hdst x hf, if_false]

end Mdsort.Proofs
