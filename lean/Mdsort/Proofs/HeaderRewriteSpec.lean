import Mdsort.Spec.Message

/-! Specification-level part of C08: a chain of single-header settings, each described only
by what it does to the file-order list of fields, satisfies `Spec.rewriteOk`. -/

namespace Mdsort.Proofs
open Mdsort

abbrev Fld := Bytes × Bytes

/-- The field is named `k` (ASCII case-insensitively). -/
def qk (k : Bytes) (f : Fld) : Bool := Spec.nameEq f.1 k

/-- One `message_set_header k v` seen on the file-order list: the other fields are untouched,
`k` occurs exactly once afterwards with value `v`, and if it was present before, the fields
before its first occurrence are the same. -/
def StepRel (k v : Bytes) (fs fs1 : List Fld) : Prop :=
  fs1.filter (fun f => !qk k f) = fs.filter (fun f => !qk k f) ∧
  (fs1.filter (qk k)).map (·.2) = [v] ∧
  (fs.any (qk k) = true → fs1.takeWhile (fun f => !qk k f) = fs.takeWhile (fun f => !qk k f))

def Chain : List Fld → List Fld → List Fld → Prop
  | [], a, b => a = b
  | (k, v) :: rest, a, b => ∃ a1, StepRel k v a a1 ∧ Chain rest a1 b

/-! ## Helper lemmas -/

theorem nameEq_iff (a b : Bytes) :
    Spec.nameEq a b = true ↔ a.map Spec.lower = b.map Spec.lower := by
  simp [Spec.nameEq]

theorem nameEq_refl (a : Bytes) : Spec.nameEq a a = true := (nameEq_iff a a).2 rfl

theorem nameEq_symm {a b : Bytes} (h : Spec.nameEq a b = true) : Spec.nameEq b a = true :=
  (nameEq_iff _ _).2 ((nameEq_iff _ _).1 h).symm

theorem nameEq_trans {a b c : Bytes} (h1 : Spec.nameEq a b = true) (h2 : Spec.nameEq b c = true) :
    Spec.nameEq a c = true :=
  (nameEq_iff _ _).2 (((nameEq_iff _ _).1 h1).trans ((nameEq_iff _ _).1 h2))

theorem nameEq_congr_right {k k' : Bytes} (h : Spec.nameEq k k' = true) (a : Bytes) :
    Spec.nameEq a k = Spec.nameEq a k' := by
  unfold Spec.nameEq
  rw [(nameEq_iff _ _).1 h]

theorem qk_congr {k k' : Bytes} (h : Spec.nameEq k k' = true) : qk k = qk k' :=
  funext fun f => nameEq_congr_right h f.1

/-- Two names that both match the same field are equal names. -/
theorem nameEq_of_qk {k k' : Bytes} {f : Fld} (h1 : qk k f = true) (h2 : qk k' f = true) :
    Spec.nameEq k k' = true :=
  nameEq_trans (nameEq_symm h1) h2

theorem filter_takeWhile_comm {α : Type} (s r : α → Bool) (h : ∀ x, s x = false → r x = true) :
    ∀ X : List α, (X.filter s).takeWhile r = (X.takeWhile r).filter s
  | [] => rfl
  | x :: X => by
    have ih := filter_takeWhile_comm s r h X
    cases hs : s x <;> cases hr : r x
    · have := h x hs; simp [hr] at this
    · simp [hs, hr, ih]
    · simp [hs, hr]
    · simp [hs, hr, ih]

theorem filter_filter_of_imp {α : Type} (q s : α → Bool) (h : ∀ x, q x = true → s x = true)
    (X : List α) : (X.filter s).filter q = X.filter q := by
  rw [List.filter_filter]
  apply List.filter_congr
  intro x _
  cases hq : q x
  · simp
  · simp [h x hq]

theorem others_cons (X : List Fld) (k : Bytes) (ks : List Bytes) :
    Spec.others X (k :: ks) = (Spec.others X ks).filter (fun f => !qk k f) := by
  unfold Spec.others
  rw [List.filter_filter]
  apply List.filter_congr
  intro f _
  simp [qk, List.any_cons, Bool.not_or]

theorem others_cons' (X : List Fld) (k : Bytes) (ks : List Bytes) :
    Spec.others X (k :: ks) = Spec.others (X.filter (fun f => !qk k f)) ks := by
  unfold Spec.others
  rw [List.filter_filter]
  apply List.filter_congr
  intro f _
  simp [qk, List.any_cons, Bool.not_or, Bool.and_comm]

theorem others_takeWhile_comm (X : List Fld) (ks : List Bytes) (r : Fld → Bool)
    (h : ∀ f, ks.any (fun k => Spec.nameEq f.1 k) = true → r f = true) :
    Spec.others (X.takeWhile r) ks = (Spec.others X ks).takeWhile r := by
  unfold Spec.others
  rw [filter_takeWhile_comm]
  intro f hf
  apply h
  simpa using hf

theorem any_keys (rest : List Fld) (a : Bytes) :
    (rest.map (·.1)).any (fun k => Spec.nameEq a k) = rest.any (fun kv => Spec.nameEq a kv.1) := by
  rw [List.any_map]; rfl

/-- If no key of `rest` is named `k'`, every field named `k'` is among the `others`. -/
theorem not_keys_of_qk {rest : List Fld} {k' : Bytes} (hr : rest.any (qk k') = false)
    {f : Fld} (hf : qk k' f = true) :
    (rest.map (·.1)).any (fun k => Spec.nameEq f.1 k) = false := by
  rw [any_keys]
  cases h : rest.any (fun kv => Spec.nameEq f.1 kv.1)
  · rfl
  · exfalso
    rw [List.any_eq_true] at h
    obtain ⟨kv, hkv, hn⟩ := h
    have : rest.any (qk k') = true := by
      rw [List.any_eq_true]
      exact ⟨kv, hkv, nameEq_trans (nameEq_symm hn) hf⟩
    rw [hr] at this
    exact Bool.noConfusion this

theorem lastSet_cons_of_any (k v k' : Bytes) (rest : List Fld) (h : rest.any (qk k') = true) :
    Spec.lastSet ((k, v) :: rest) k' = Spec.lastSet rest k' := by
  unfold Spec.lastSet
  rw [List.any_eq_true] at h
  obtain ⟨kv, hkv, hq⟩ := h
  have hmem : kv ∈ rest.filter (fun kv => Spec.nameEq kv.1 k') :=
    List.mem_filter.2 ⟨hkv, hq⟩
  rw [List.filter_cons]
  split
  · cases hL : rest.filter (fun kv => Spec.nameEq kv.1 k') with
    | nil => rw [hL] at hmem; cases hmem
    | cons a l => rw [List.getLast?_cons_cons]
  · rfl

theorem lastSet_cons_of_not_any (k v k' : Bytes) (rest : List Fld)
    (hk : Spec.nameEq k k' = true) (h : rest.any (qk k') = false) :
    Spec.lastSet ((k, v) :: rest) k' = some v := by
  unfold Spec.lastSet
  have hnil : rest.filter (fun kv => Spec.nameEq kv.1 k') = [] := by
    rw [List.filter_eq_nil_iff]
    intro a ha
    have := (List.any_eq_false.1 h) a ha
    simpa [qk] using this
  rw [List.filter_cons, hnil]
  simp [hk]

theorem findIdx?_take {α : Type} (p : α → Bool) :
    ∀ (X : List α) (i : Nat), X.findIdx? p = some i → X.take i = X.takeWhile (fun x => !p x)
  | [], i, h => by simp at h
  | x :: X, i, h => by
    rw [List.findIdx?_cons] at h
    cases hp : p x
    · simp only [hp, Bool.false_eq_true, if_false, Option.map_eq_some_iff] at h
      obtain ⟨j, hj, rfl⟩ := h
      simp [hp, findIdx?_take p X j hj]
    · simp only [hp, if_true, Option.some.injEq] at h
      subst h
      simp [hp]

theorem findIdx?_some_any {α : Type} (p : α → Bool) (X : List α) (i : Nat)
    (h : X.findIdx? p = some i) : X.any p = true := by
  cases ha : X.any p
  · exfalso
    have : X.findIdx? p = none := by
      rw [List.findIdx?_eq_none_iff]
      exact List.any_eq_false.1 ha |> fun h x hx => by simpa using h x hx
    rw [this] at h; cases h
  · rfl

theorem findIdx?_none_any {α : Type} (p : α → Bool) (X : List α)
    (h : X.findIdx? p = none) : X.any p = false := by
  rw [List.findIdx?_eq_none_iff] at h
  rw [List.any_eq_false]
  intro x hx
  simp [h x hx]

/-- The three conditions of `Spec.rewriteOk` at the level of field lists, stated for every
name matching one of the keys (so that they are invariant under `nameEq`). -/
structure Conds (kvs fs fs' : List Fld) : Prop where
  c1 : Spec.others fs' (kvs.map (·.1)) = Spec.others fs (kvs.map (·.1))
  c2 : ∀ k', kvs.any (qk k') = true →
    (fs'.filter (qk k')).map (·.2) = [(Spec.lastSet kvs k').getD []]
  c3 : ∀ k', kvs.any (qk k') = true → fs.any (qk k') = true →
    Spec.others (fs.takeWhile (fun f => !qk k' f)) (kvs.map (·.1)) =
      Spec.others (fs'.takeWhile (fun f => !qk k' f)) (kvs.map (·.1))

theorem any_of_filter_map_singleton {X : List Fld} {q : Fld → Bool} {v : Bytes}
    (h : (X.filter q).map (·.2) = [v]) : X.any q = true := by
  cases hL : X.filter q with
  | nil => rw [hL] at h; cases h
  | cons a l =>
    have : a ∈ X.filter q := by rw [hL]; exact List.mem_cons_self
    rw [List.mem_filter] at this
    exact List.any_eq_true.2 ⟨a, this.1, this.2⟩

theorem conds_of_chain : ∀ (kvs fs fs' : List Fld), Chain kvs fs fs' → Conds kvs fs fs'
  | [], fs, fs', hc => by
    have : fs = fs' := hc
    subst this
    exact ⟨rfl, fun k' h => by simp at h, fun k' h => by simp at h⟩
  | (k, v) :: rest, fs, fs', hc => by
    obtain ⟨f1, ⟨hs1, hs2, hs3⟩, hch⟩ := hc
    have ih := conds_of_chain rest f1 fs' hch
    have key : ∀ k', ((k, v) :: rest).any (qk k') = true →
        (Spec.nameEq k k' = true) ∨ (rest.any (qk k') = true) := by
      intro k' h
      simpa [List.any_cons, qk] using h
    -- fields named k' are among the others when k' is not a key of rest
    have othq : ∀ k', rest.any (qk k') = false → ∀ X : List Fld,
        (Spec.others X (rest.map (·.1))).filter (qk k') = X.filter (qk k') := by
      intro k' hr X
      unfold Spec.others
      apply filter_filter_of_imp
      intro f hf
      rw [not_keys_of_qk hr hf]; rfl
    refine ⟨?_, ?_, ?_⟩
    · show Spec.others fs' (k :: rest.map (·.1)) = Spec.others fs (k :: rest.map (·.1))
      rw [others_cons, ih.c1, ← others_cons, others_cons', hs1, ← others_cons']
    · intro k' hk'
      cases hr : rest.any (qk k')
      · have hkk : Spec.nameEq k k' = true := by
          rcases key k' hk' with h | h
          · exact h
          · rw [hr] at h; cases h
        rw [lastSet_cons_of_not_any k v k' rest hkk hr]
        rw [← othq k' hr fs', ih.c1, othq k' hr f1, ← qk_congr hkk]
        exact hs2
      · rw [lastSet_cons_of_any k v k' rest hr]
        exact ih.c2 k' hr
    · intro k' hk' hfs
      show Spec.others _ (k :: rest.map (·.1)) = Spec.others _ (k :: rest.map (·.1))
      cases hkk : Spec.nameEq k k'
      · -- k' is a different name from k
        have hr : rest.any (qk k') = true := by
          rcases key k' hk' with h | h
          · rw [hkk] at h; cases h
          · exact h
        have hnot : ∀ f : Fld, qk k' f = true → (!qk k f) = true := by
          intro f hf
          cases hq : qk k f
          · rfl
          · have := nameEq_of_qk hq hf
            rw [hkk] at this; cases this
        have hf1 : f1.any (qk k') = true := by
          rw [List.any_eq_true] at hfs ⊢
          obtain ⟨f, hf, hq⟩ := hfs
          have : f ∈ fs.filter (fun f => !qk k f) := List.mem_filter.2 ⟨hf, hnot f hq⟩
          rw [← hs1] at this
          exact ⟨f, (List.mem_filter.1 this).1, hq⟩
        have h2 := ih.c3 k' hr hf1
        have comm : ∀ X : List Fld,
            (X.takeWhile (fun f => !qk k' f)).filter (fun f => !qk k f) =
              (X.filter (fun f => !qk k f)).takeWhile (fun f => !qk k' f) := by
          intro X
          rw [filter_takeWhile_comm]
          intro f hf
          cases hq : qk k' f
          · rfl
          · have := hnot f hq
            rw [hf] at this; cases this
        calc Spec.others (fs.takeWhile (fun f => !qk k' f)) (k :: rest.map (·.1))
            = Spec.others (f1.takeWhile (fun f => !qk k' f)) (k :: rest.map (·.1)) := by
              rw [others_cons', others_cons', comm, comm, hs1]
          _ = _ := by rw [others_cons, others_cons, h2]
      · -- k' names the same header as k
        have hq : qk k' = qk k := (qk_congr hkk).symm
        rw [hq] at hfs ⊢
        rw [← hs3 hfs]
        rw [others_cons, others_cons]
        congr 1
        cases hr : rest.any (qk k)
        · have hcomm : ∀ X : List Fld,
              Spec.others (X.takeWhile (fun f => !qk k f)) (rest.map (·.1)) =
                (Spec.others X (rest.map (·.1))).takeWhile (fun f => !qk k f) := by
            intro X
            apply others_takeWhile_comm
            intro f hf
            cases hqf : qk k f
            · rfl
            · rw [not_keys_of_qk hr hqf] at hf; cases hf
          rw [hcomm, hcomm, ih.c1]
        · have hf1 : f1.any (qk k) = true := any_of_filter_map_singleton hs2
          exact ih.c3 k hr hf1

theorem chain_rewriteOk (m out : Bytes) (kvs fs fs' : List Fld) (b : Bytes)
    (hm : Spec.read m = some (fs, b)) (hout : Spec.read out = some (fs', b))
    (hc : Chain kvs fs fs') :
    Spec.rewriteOk m kvs out = true := by
  have hC := conds_of_chain kvs fs fs' hc
  unfold Spec.rewriteOk
  rw [hm, hout]
  simp only [Bool.and_eq_true, beq_iff_eq, List.all_eq_true]
  refine ⟨⟨trivial, hC.c1⟩, ?_⟩
  intro k hk
  have hany : kvs.any (qk k) = true := by
    rw [List.mem_map] at hk
    obtain ⟨kv, hkv, rfl⟩ := hk
    exact List.any_eq_true.2 ⟨kv, hkv, nameEq_refl kv.1⟩
  have h2 := hC.c2 k hany
  refine ⟨h2, ?_⟩
  have hfs' : fs'.any (qk k) = true := any_of_filter_map_singleton h2
  unfold Spec.firstIdx
  cases h1 : fs'.findIdx? (fun f => Spec.nameEq f.1 k) with
  | none =>
    have := findIdx?_none_any _ _ h1
    rw [show (fun f : Fld => Spec.nameEq f.1 k) = qk k from rfl, hfs'] at this
    cases this
  | some j =>
    cases h0 : fs.findIdx? (fun f => Spec.nameEq f.1 k) with
    | none => rfl
    | some i =>
      have hfs : fs.any (qk k) = true := findIdx?_some_any _ _ _ h0
      have h3 := hC.c3 k hany hfs
      simp only [beq_iff_eq]
      rw [findIdx?_take _ _ _ h0, findIdx?_take _ _ _ h1]
      exact h3

end Mdsort.Proofs
