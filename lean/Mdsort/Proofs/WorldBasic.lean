import Mdsort.Model.Plan

/-! Generic facts about `Prog`, `runPlan` and the trace, for the world-level properties. -/

namespace Mdsort.Proofs.World
open Mdsort Mdsort.Model

/-! ## monad laws as simp lemmas -/

@[simp] theorem bind_eq {α β} (p : Prog α) (f : α → Prog β) : (p >>= f) = p.bind f := rfl
@[simp] theorem pure_eq {α} (a : α) : (pure a : Prog α) = .ret a := rfl
@[simp] theorem ret_bind {α β} (a : α) (f : α → Prog β) : (Prog.ret a).bind f = f a := rfl
@[simp] theorem call_bind' {α β} (c : Call) (k : Res → Prog α) (f : α → Prog β) :
    (Prog.call c k).bind f = .call c (fun r => (k r).bind f) := rfl
@[simp] theorem call_bind {β} (c : Call) (f : Res → Prog β) : (call c).bind f = .call c f := rfl

theorem bind_assoc {α β γ} (p : Prog α) (f : α → Prog β) (g : β → Prog γ) :
    (p.bind f).bind g = p.bind (fun a => (f a).bind g) := by
  induction p with
  | ret a => rfl
  | call c k ih => simp [Prog.bind, ih]

/-! ## results under a fault -/

/-- The result of a call given the fault (if any) the plan injects at it. -/
def faultResult (f : Option Fault) (w : World) (c : Call) : Res :=
  match f with
  | none => predict w c
  | some (.fail e) => .err e
  | some (.short n) =>
    match c, predict w c with
    | .read _, .ok m => if 0 < n && n < m then .ok n else .ok m
    | .write _ _, .ok m => if 0 < n && n < m then .ok n else .ok m
    | _, r => r

theorem planResult_eq (plan : Plan) (i : Nat) (w : World) (c : Call) :
    planResult plan i w c = faultResult (plan i) w c := by
  unfold planResult faultResult; rfl

/-! ## `run`: `runPlan` without the accumulator, returning the next call index -/

def run {α} (plan : Plan) : Prog α → World → Nat → α × World × Nat × List World
  | .ret a, w, i => (a, w, i, [])
  | .call c k, w, i =>
    let r := faultResult (plan i) w c
    let w' := stepWorld w c r
    let x := run plan (k r) w' (i + 1)
    (x.1, x.2.1, x.2.2.1, w' :: x.2.2.2)

theorem runPlan_eq {α} (plan : Plan) (p : Prog α) (w : World) (i : Nat) (hist : List World) :
    runPlan plan p w i hist = ((run plan p w i).1, (run plan p w i).2.1, hist ++ (run plan p w i).2.2.2) := by
  induction p generalizing w i hist with
  | ret a => simp [runPlan, run]
  | call c k ih => simp [runPlan, run, ih, planResult_eq]

theorem run_bind {α β} (plan : Plan) (p : Prog α) (f : α → Prog β) (w : World) (i : Nat) :
    run plan (p.bind f) w i =
      ((run plan (f (run plan p w i).1) (run plan p w i).2.1 (run plan p w i).2.2.1).1,
       (run plan (f (run plan p w i).1) (run plan p w i).2.1 (run plan p w i).2.2.1).2.1,
       (run plan (f (run plan p w i).1) (run plan p w i).2.1 (run plan p w i).2.2.1).2.2.1,
       (run plan p w i).2.2.2 ++ (run plan (f (run plan p w i).1) (run plan p w i).2.1 (run plan p w i).2.2.1).2.2.2) := by
  induction p generalizing w i with
  | ret a => simp [run, Prog.bind]
  | call c k ih => simp [run, Prog.bind, ih]

/-! ## all leaves satisfy `P` -/

def All {α} (P : α → Prop) : Prog α → Prop
  | .ret a => P a
  | .call _ k => ∀ r, All P (k r)

theorem All.run {α} {P : α → Prop} (plan : Plan) {p : Prog α} (h : All P p) (w : World) (i : Nat) :
    P (run plan p w i).1 := by
  induction p generalizing w i with
  | ret a => exact h
  | call c k ih => exact ih _ (h _) _ _

theorem All.bind {α β} {P : β → Prop} {p : Prog α} {f : α → Prog β} (h : All (fun a => All P (f a)) p) :
    All P (p.bind f) := by
  induction p with
  | ret a => exact h
  | call c k ih => intro r; exact ih r (h r)

theorem All.bind_of_forall {α β} {P : β → Prop} (p : Prog α) {f : α → Prog β} (h : ∀ a, All P (f a)) :
    All P (p.bind f) := by
  induction p with
  | ret a => exact h a
  | call c k ih => intro r; exact ih r

/-! ## every call satisfies `Q` -/

def Calls {α} (Q : Call → Prop) : Prog α → Prop
  | .ret _ => True
  | .call c k => Q c ∧ ∀ r, Calls Q (k r)

theorem Calls.bind {α β} {Q : Call → Prop} {p : Prog α} {f : α → Prog β} (hp : Calls Q p) (hf : ∀ a, Calls Q (f a)) :
    Calls Q (p.bind f) := by
  induction p with
  | ret a => exact hf a
  | call c k ih => exact ⟨hp.1, fun r => ih r (hp.2 r)⟩

theorem Calls.call {Q : Call → Prop} {c : Call} (h : Q c) : Calls Q (Model.call c) := ⟨h, fun _ => trivial⟩

/-! ## the trace -/

theorem applyWrite_trace (w : World) (fd : Handle) (data : Bytes) (n : Nat) : (applyWrite w fd data n).trace = w.trace := by
  unfold applyWrite
  split
  · split <;> rfl
  · rfl
  · rfl

@[simp] theorem trace_setObj (w : World) (h : Handle) (o : Obj) : (w.setObj h o).trace = w.trace := rfl
@[simp] theorem trace_setFile (w : World) (fid : Nat) (f : File) : (w.setFile fid f).trace = w.trace := rfl
@[simp] theorem trace_setDir (w : World) (p : Bytes) (es : List (Bytes × Nat)) : (w.setDir p es).trace = w.trace := rfl
@[simp] theorem trace_newHandle (w : World) (o : Obj) : (w.newHandle o).1.trace = w.trace := rfl
@[simp] theorem trace_bind (w : World) (p n : Bytes) (fid : Nat) : (w.bind p n fid).trace = w.trace := by
  unfold World.bind; split <;> rfl
@[simp] theorem trace_unbind (w : World) (p n : Bytes) : (w.unbind p n).trace = w.trace := by
  unfold World.unbind; split <;> rfl

theorem getD_map_trace {β} {w : World} {o : Option β} {f : β → World} (h : ∀ x, (f x).trace = w.trace) :
    ((o.map f).getD w).trace = w.trace := by
  cases o <;> simp [h]

theorem getD_bind_trace {β} {w : World} {o : Option β} {g : β → Option World} (h : ∀ x, ((g x).getD w).trace = w.trace) :
    ((o.bind g).getD w).trace = w.trace := by
  cases o <;> simp [h]

theorem applyOk_getD_trace (w : World) (c : Call) (r : Res) : ((applyOk w c r).getD w).trace = w.trace := by
  unfold applyOk
  split <;>
    repeat' (first
      | rfl
      | (apply getD_bind_trace; intro _)
      | (apply getD_map_trace; intro _)
      | (simp [applyWrite_trace]; done)
      | split
      | (show ((if _ then _ else _ : Option World).getD w).trace = w.trace))

theorem stepWorld_trace (w : World) (c : Call) (r : Res) : (stepWorld w c r).trace = w.trace ++ [(c, r)] := by
  have := applyOk_getD_trace w c r
  simp [stepWorld, this]

theorem Calls.trace {α} {Q : Call → Prop} (plan : Plan) {p : Prog α} (h : Calls Q p) (w : World) (i : Nat) :
    ∃ L : List (Call × Res), (run plan p w i).2.1.trace = w.trace ++ L ∧ ∀ x ∈ L, Q x.1 := by
  induction p generalizing w i with
  | ret a => exact ⟨[], by simp [run], by simp⟩
  | call c k ih =>
    obtain ⟨L, hL, hQ⟩ := ih (faultResult (plan i) w c) (h.2 _) (stepWorld w c (faultResult (plan i) w c)) (i + 1)
    refine ⟨(c, faultResult (plan i) w c) :: L, ?_, ?_⟩
    · simp [run, hL, stepWorld_trace]
    · intro x hx
      rcases List.mem_cons.1 hx with rfl | hx
      · exact h.1
      · exact hQ x hx

end Mdsort.Proofs.World
