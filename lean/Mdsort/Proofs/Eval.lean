import Mdsort.Model.Eval
import Mdsort.Spec.Rules
import Mdsort.Proofs.EvalRules

/-! Helper definitions and lemmas for C03 (the evaluator refines the documented rule semantics).

The proof is spread over `EvalDom` (the pieces of `InDomain`), `EvalList` (match-list
primitives), `EvalCond` (conditions are context-free), `EvalSim` (the invariant, actions, the
block epilogue) and `EvalRules` (the induction over the rules of a block). -/

namespace Mdsort.Proofs
open Mdsort Mdsort.Model

/-- (type, line) of the action entries of a match list (pass/break markers excluded). -/
def mlKeys (ml : MatchList) : List (MType × Nat) :=
  (ml.filter fun m => m.ty.isAction && m.ty != .brk && m.ty != .pass).map fun m => (m.ty, m.lno)

/-- The valuation of the matchers on this message: each matcher evaluated on its own. -/
def valuation (env : Env) (root : Msg) (f : MFlags) (a : Expr) : Tri :=
  (eval env root a 0 root { ml := [], flags := f }).1

/-- Actions that cannot be evaluated. -/
def actionErr (a : Expr) : Bool :=
  match a with
  | .flags _ fl => fl.any (fun c => !isalpha c)
  | .move _ p => decide (p.length ≥ PATH_MAX)
  | _ => false

/-- Decidable domain of the refinement theorem.

* `wfTree e`: the tree only contains the matchers `all`, `new`, `old`, `header`, `body`, `date`,
  `stat`/`command` without a backslash in their strings (no back-references), the actions
  `move`, `flag` (name shorter than `NAME_MAX + 1`), `flags`, `discard`, `label`, `reject`,
  `exec`, `add-header`, `pass`, `break`, and block / and / or / ! / match nodes; that is, no
  `attachment` condition and no attachment block.  Shape (rules, nesting, pass/break last) is
  the business of `Spec.parseBlock`.
* `old` reads the Seen flag: a tree that uses `old` must not set `S` in a `flags` action.
* `matches_append` cannot fail: the maildir and the subdirectory of the message path can be
  sliced off, and with `L` the longest subdirectory name that can occur (the message's or
  that of a `flag` action) the message's maildir and every `move` destination that fits
  `PATH_MAX` at all (the others are `actionErr`) leave room for `/` and `L` more bytes. -/
def InDomain (env : Env) (e : Expr) : Bool :=
  wfTree e && (!hasOld e || flagsKeepSeen e) &&
  match pathslice env.path PATH_MAX 0 (-2), pathslice env.path NAME_MAX1 (-2) (-2) with
  | some maildir, some subdir =>
    let L := max subdir.length (maxSubdir e)
    decide (maildir.length + 1 + L < PATH_MAX) && movesFit L e
  | _, _ => false

theorem mlKeys_eq (ml : MatchList) : mlKeys ml = keysOf ml := rfl
theorem valuation_eq : valuation = valOf := rfl
theorem actionErr_eq : actionErr = actErr := rfl

theorem InDomain_spec {env : Env} {e : Expr} (h : InDomain env e = true) :
    ∃ L, PCtx env L ∧ okTree L (hasOld e) e := by
  unfold InDomain at h
  simp only [Bool.and_eq_true] at h
  obtain ⟨⟨hw, hold⟩, h⟩ := h
  have hold' : hasOld e = true → flagsKeepSeen e = true := by
    intro ho
    simpa [ho] using hold
  cases hm : pathslice env.path PATH_MAX 0 (-2) with
  | none => simp [hm] at h
  | some m0 =>
    cases hs : pathslice env.path NAME_MAX1 (-2) (-2) with
    | none => simp [hm, hs] at h
    | some s0 =>
      simp only [hm, hs, Bool.and_eq_true, decide_eq_true_eq] at h
      exact ⟨max s0.length (maxSubdir e), ⟨⟨m0, hm, h.1⟩, ⟨s0, hs, Nat.le_max_left _ _⟩⟩, hw, h.2,
        Nat.le_max_right _ _, id, hold'⟩

theorem eval_refines_spec (env : Env) (root : Msg) (f : MFlags) (e : Expr) (rules : List Spec.Rule)
    (hp : Spec.parseBlock e = some rules) (hd : InDomain env e = true)
    (hl : (Spec.evalBlock (valuation env root f) actionErr rules).crosses = false) :
    let o := Spec.evalBlock (valuation env root f) actionErr rules
    let r := eval env root e 0 root { ml := [], flags := f }
    r.1 = o.res ∧ (o.res = .match → Spec.planOf (mlKeys r.2.ml) = Spec.planOf (o.actions.filterMap Spec.actKey)) := by
  obtain ⟨L, hctx, hok⟩ := InDomain_spec hd
  rw [valuation_eq, actionErr_eq] at hl ⊢
  cases e with
  | block lno e' =>
    simp only [Spec.parseBlock] at hp
    have hR0 : Rel L ({ ml := [], flags := f } : St).ml ({ pend := [], crosses := false } : Spec.Run).pend (false || false) :=
      ⟨rfl, rfl, rfl, by simp, by intro m hm; simp at hm⟩
    have hcr : (Spec.evalRules (valOf env root f) actErr false false 0 rules false { pend := [], crosses := false }).2.crosses
        = false := by
      unfold Spec.evalBlock at hl
      rcases h : Spec.evalRules (valOf env root f) actErr false false 0 rules false { pend := [], crosses := false }
        with ⟨b, run⟩
      rw [h] at hl
      cases b <;> exact hl
    have hpost := sim_rules hctx root f (hasOld (.block lno e')) (sizeOf rules + 1) rules (Nat.lt_succ_self _) (orChain e')
      (parseRules_orChain e' rules hp) (okTree_orChain e' (okTree_block hok)) false false 0 false
      { pend := [], crosses := false } { ml := [], flags := f } (fun _ => ⟨rfl, rfl⟩) hR0 (fun _ => rfl) hcr
    rw [← eval_orChain, ← eval_block env root lno] at hpost
    intro o r
    show r.1 = o.res ∧ _
    have ho : o = Spec.evalBlock (valOf env root f) actErr rules := rfl
    have hr : r = eval env root (.block lno e') 0 root { ml := [], flags := f } := rfl
    rw [← hr] at hpost
    unfold Spec.evalBlock at ho
    rcases h : Spec.evalRules (valOf env root f) actErr false false 0 rules false { pend := [], crosses := false }
      with ⟨b, run⟩
    rw [h] at hpost ho
    cases b with
    | err =>
      simp only at ho
      rw [ho]
      exact ⟨hpost, fun h => by cases h⟩
    | matched =>
      simp only at ho
      rw [ho]
      obtain ⟨h1, h2, _⟩ := hpost
      exact ⟨h1, fun _ => h2.plan⟩
    | «nomatch» =>
      simp only at ho
      rw [ho]
      exact ⟨hpost.1, fun h => by cases h⟩
    | broke =>
      simp only at ho
      rw [ho]
      exact ⟨hpost.1, fun h => by cases h⟩
  | _ => simp [Spec.parseBlock] at hp

end Mdsort.Proofs
