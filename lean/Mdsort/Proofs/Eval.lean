import Mdsort.Model.Eval
import Mdsort.Spec.Rules

/-! Helper definitions and lemmas for C03 (the evaluator refines the documented rule semantics). -/

namespace Mdsort.Proofs
open Mdsort Mdsort.Model

/-- (type, line) of the action entries of a match list (pass/break markers excluded). -/
def mlKeys (ml : MatchList) : List (MType × Nat) :=
  (ml.filter fun m => m.ty.isAction && m.ty != .brk && m.ty != .pass).map fun m => (m.ty, m.lno)

/-- The valuation of the matchers on this message: each matcher evaluated on its own. -/
def valuation (env : Env) (root : Msg) (f : MFlags) (a : Expr) : Tri :=
  (eval env root a 0 root { ml := [], flags := f }).1

/-- Actions that cannot be evaluated. -/
def actionErr (a : Expr) : Bool :=
  match a with
  | .flags _ fl => fl.any (fun c => !isalpha c)
  | .move _ p => decide (p.length ≥ PATH_MAX)
  | _ => false

/-- Decidable domain of the refinement theorem (to be completed: see Props/C03.lean). -/
def InDomain (env : Env) (e : Expr) : Bool := sorry

theorem eval_refines_spec (env : Env) (root : Msg) (f : MFlags) (e : Expr) (rules : List Spec.Rule)
    (hp : Spec.parseBlock e = some rules) (hd : InDomain env e = true)
    (hl : (Spec.evalBlock (valuation env root f) actionErr rules).crosses = false) :
    let o := Spec.evalBlock (valuation env root f) actionErr rules
    let r := eval env root e 0 root { ml := [], flags := f }
    r.1 = o.res ∧ (o.res = .match → Spec.planOf (mlKeys r.2.ml) = Spec.planOf (o.actions.filterMap Spec.actKey)) := by
  sorry

end Mdsort.Proofs
