import Mdsort.Spec.Attachment
import Mdsort.Proofs.Mime

/-!
# C11: `attachment c` and `attachment { ... }` in the evaluator are the for-each readings of
`Spec/Attachment.lean`

`eval.loop` / `eval.loopB` (the two `for` loops of `expr_eval_attachment` and
`expr_eval_attachment_block`) against `Spec.attachmentCond` / `Spec.attachmentBlock`, and what the
latter mean in terms of the per-part results.
-/

namespace Mdsort.Proofs
open Mdsort Mdsort.Model

/-! ## the trace -/

theorem lastState_cons {σ : Type} (r : Tri × σ) (t : List (Tri × σ)) (s : σ) :
    Spec.lastState (r :: t) s = Spec.lastState t r.2 := by
  cases t with
  | nil => rfl
  | cons a t =>
    simp only [Spec.lastState, List.getLast?_cons_cons]
    cases h : (a :: t).getLast? with
    | none => simp at h
    | some x => rfl

theorem partTrace_length {σ α : Type} (f : Nat → α → σ → Tri × σ) (ps : List α) :
    ∀ (i : Nat) (s : σ), (Spec.partTrace f i ps s).length = ps.length := by
  induction ps with
  | nil => intro i s; rfl
  | cons p rest ih => intro i s; simp [Spec.partTrace, ih]

/-- The sub-evaluation the evaluator performs on part number `i` of the table. -/
def partEval (env : Env) (root : Msg) (e : Expr) (part : Nat) : Nat → Msg → St → Tri × St :=
  fun i p s => eval env root e (Spec.partIndex part i) p s

theorem partIndex_beq (part i : Nat) : (if part == 0 then i + 1 else part) = Spec.partIndex part i := by
  unfold Spec.partIndex
  by_cases h : part = 0 <;> simp [h]

/-! ## the loops -/

section listlevel
variable {σ : Type}

/-- `Spec.attachmentCond` on a given trace. -/
def condOf (t : List (Tri × σ)) (s : σ) : Tri × σ :=
  match t.find? (fun r => r.1 != .nomatch) with
  | some r => r
  | none => (.nomatch, Spec.lastState t s)

/-- `Spec.attachmentBlock` on a given trace, with the value `ev` accumulated so far. -/
def blockOf (ev : Tri) (t : List (Tri × σ)) (s : σ) : Tri × σ :=
  match t.find? (fun r => r.1 == .error) with
  | some r => r
  | none => (if t.any (fun r => r.1 == .match) then .match else ev, Spec.lastState t s)

theorem condOf_nil (s : σ) : condOf ([] : List (Tri × σ)) s = (.nomatch, s) := rfl

theorem condOf_cons_nomatch (s1 : σ) (t : List (Tri × σ)) (s : σ) :
    condOf ((.nomatch, s1) :: t) s = condOf t s1 := by
  simp [condOf, lastState_cons]

theorem condOf_cons_match (s1 : σ) (t : List (Tri × σ)) (s : σ) :
    condOf ((.match, s1) :: t) s = (.match, s1) := by
  simp [condOf]

theorem condOf_cons_error (s1 : σ) (t : List (Tri × σ)) (s : σ) :
    condOf ((.error, s1) :: t) s = (.error, s1) := by
  simp [condOf]

theorem blockOf_nil (ev : Tri) (s : σ) : blockOf ev ([] : List (Tri × σ)) s = (ev, s) := by
  simp [blockOf, Spec.lastState]

theorem blockOf_cons_nomatch (ev : Tri) (s1 : σ) (t : List (Tri × σ)) (s : σ) :
    blockOf ev ((.nomatch, s1) :: t) s = blockOf ev t s1 := by
  simp only [blockOf, lastState_cons]
  rfl

theorem blockOf_cons_match (ev : Tri) (s1 : σ) (t : List (Tri × σ)) (s : σ) :
    blockOf ev ((.match, s1) :: t) s = blockOf .match t s1 := by
  simp [blockOf, lastState_cons]

theorem blockOf_cons_error (ev : Tri) (s1 : σ) (t : List (Tri × σ)) (s : σ) :
    blockOf ev ((.error, s1) :: t) s = (.error, s1) := by
  simp [blockOf]

end listlevel

theorem partTrace_cons {σ α : Type} (f : Nat → α → σ → Tri × σ) (i : Nat) (p : α) (ps : List α) (s : σ) :
    Spec.partTrace f i (p :: ps) s = f i p s :: Spec.partTrace f (i + 1) ps (f i p s).2 := rfl

/-- The loop of `expr_eval_attachment` from position `i`. -/
theorem loop_eq_spec (env : Env) (root : Msg) (e : Expr) (part : Nat) (ps : List Msg) :
    ∀ (i : Nat) (st : St),
      eval.loop env root e part ps i st = condOf (Spec.partTrace (partEval env root e part) i ps st) st := by
  induction ps with
  | nil => intro i st; simp only [eval.loop, Spec.partTrace, condOf_nil]
  | cons p rest ih =>
    intro i st
    rw [partTrace_cons]
    simp only [eval.loop, partIndex_beq]
    have hf : partEval env root e part i p st = eval env root e (Spec.partIndex part i) p st := rfl
    rw [hf]
    generalize eval env root e (Spec.partIndex part i) p st = r
    obtain ⟨ev, s1⟩ := r
    cases ev
    · rw [condOf_cons_match]
    · rw [condOf_cons_nomatch]; exact ih (i + 1) s1
    · rw [condOf_cons_error]

/-- The loop of `expr_eval_attachment_block` from position `i` with `ev` so far. -/
theorem loopB_eq_spec (env : Env) (root : Msg) (e : Expr) (part : Nat) (ps : List Msg) :
    ∀ (i : Nat) (ev : Tri) (st : St),
      eval.loopB env root e part ps i ev st = blockOf ev (Spec.partTrace (partEval env root e part) i ps st) st := by
  induction ps with
  | nil => intro i ev st; simp only [eval.loopB, Spec.partTrace, blockOf_nil]
  | cons p rest ih =>
    intro i ev0 st
    rw [partTrace_cons]
    simp only [eval.loopB, partIndex_beq]
    have hf : partEval env root e part i p st = eval env root e (Spec.partIndex part i) p st := rfl
    rw [hf]
    generalize eval env root e (Spec.partIndex part i) p st = r
    obtain ⟨ev, s1⟩ := r
    cases ev
    · rw [blockOf_cons_match]; exact ih (i + 1) .match s1
    · rw [blockOf_cons_nomatch]; exact ih (i + 1) ev0 s1
    · rw [blockOf_cons_error]

/-- `attachment c` (`expr_eval_attachment`): a malformed multipart message is an error with the
state untouched; otherwise the condition over the parts per `Spec.attachmentCond`. -/
theorem eval_attachment_eq (env : Env) (root : Msg) (lno : Nat) (e : Expr) (part : Nat) (m : Msg) (st : St) :
    eval env root (.attachment lno e) part m st =
      match getAttachments m with
      | none => (.error, st)
      | some ps => Spec.attachmentCond (fun i p s => eval env root e (Spec.partIndex part i) p s) ps st := by
  simp only [eval]
  cases getAttachments m with
  | none => rfl
  | some ps => exact loop_eq_spec env root e part ps 0 st

/-- `attachment { ... }` (`expr_eval_attachment_block`). -/
theorem eval_attBlock_eq (env : Env) (root : Msg) (lno : Nat) (blk : Expr) (part : Nat) (m : Msg) (st : St) :
    eval env root (.attBlock lno blk) part m st =
      match getAttachments m with
      | none => (.error, st)
      | some ps => Spec.attachmentBlock (fun i p s => eval env root blk (Spec.partIndex part i) p s) ps st := by
  simp only [eval]
  cases getAttachments m with
  | none => rfl
  | some ps => exact loopB_eq_spec env root blk part ps 0 .nomatch st

/-! ## what the specification says about the per-part results -/

section meaning
variable {σ : Type}

/-- First decided entry of a list of results. -/
theorem find_decided_match (as : List (Tri × σ)) (r : Tri × σ) (bs : List (Tri × σ))
    (hr : r.1 = .match) (has : ∀ a ∈ as, a.1 ≠ .error) :
    ∃ r0, (as ++ r :: bs).find? (fun r => r.1 != .nomatch) = some r0 ∧ r0.1 = .match := by
  induction as with
  | nil => exact ⟨r, by simp [hr], hr⟩
  | cons a as ih =>
    obtain ⟨ev, s⟩ := a
    have ha := has (ev, s) (List.mem_cons_self ..)
    cases ev
    · exact ⟨(.match, s), by simp, rfl⟩
    · obtain ⟨r0, h0, h1⟩ := ih (fun a h => has a (List.mem_cons_of_mem _ h))
      exact ⟨r0, by simpa [List.find?_cons] using h0, h1⟩
    · exact absurd rfl ha

theorem tri_ne_nomatch {x : Tri} : (x != .nomatch) = true ↔ x ≠ .nomatch := by
  cases x <;> simp

theorem tri_not_ne_nomatch {x : Tri} : (!(x != .nomatch)) = true ↔ x = .nomatch := by
  cases x <;> simp

/-- Meaning of `Spec.attachmentCond` on the trace `t` of per-part results:
* match iff some part matches and no earlier part is an error;
* error iff some part is an error and every earlier part is no match;
* no match iff every part is no match, and then the state is the one after the last part;
* in the first two cases the state is the one the deciding part left. -/
theorem attachmentCond_meaning {α : Type} (f : Nat → α → σ → Tri × σ) (ps : List α) (s : σ) :
    let t := Spec.partTrace f 0 ps s
    let res := Spec.attachmentCond f ps s
    (res.1 = .match ↔ ∃ as r bs, t = as ++ r :: bs ∧ r.1 = .match ∧ ∀ a ∈ as, a.1 ≠ .error) ∧
    (res.1 = .error ↔ ∃ as r bs, t = as ++ r :: bs ∧ r.1 = .error ∧ ∀ a ∈ as, a.1 = .nomatch) ∧
    (res.1 = .nomatch ↔ ∀ r ∈ t, r.1 = .nomatch) ∧
    (res.1 = .nomatch → res.2 = Spec.lastState t s) ∧
    (res.1 ≠ .nomatch → ∃ as bs, t = as ++ res :: bs ∧ ∀ a ∈ as, a.1 = .nomatch) := by
  intro t res
  have hres : res = match t.find? (fun r => r.1 != .nomatch) with
      | some r => r
      | none => (.nomatch, Spec.lastState t s) := rfl
  cases hfind : t.find? (fun r => r.1 != .nomatch) with
  | none =>
    rw [hfind] at hres
    have hall : ∀ r ∈ t, r.1 = .nomatch := by
      intro r hr
      have := List.find?_eq_none.1 hfind r hr
      exact tri_not_ne_nomatch.1 (by simpa using this)
    have h1 : res.1 = .nomatch := by rw [hres]
    refine ⟨⟨fun h => ?_, ?_⟩, ⟨fun h => ?_, ?_⟩, ⟨fun _ => hall, fun _ => h1⟩, fun _ => by rw [hres], fun h => absurd h1 h⟩
    · rw [h1] at h; cases h
    · rintro ⟨as, r, bs, ht, hr, -⟩
      have := hall r (by rw [ht]; simp)
      rw [hr] at this; cases this
    · rw [h1] at h; cases h
    · rintro ⟨as, r, bs, ht, hr, -⟩
      have := hall r (by rw [ht]; simp)
      rw [hr] at this; cases this
  | some r0 =>
    rw [hfind] at hres
    dsimp only at hres
    obtain ⟨hp, as0, bs0, ht0, has0⟩ := List.find?_eq_some_iff_append.1 hfind
    have hp' : r0.1 ≠ .nomatch := tri_ne_nomatch.1 hp
    have has0' : ∀ a ∈ as0, a.1 = .nomatch := fun a ha => tri_not_ne_nomatch.1 (has0 a ha)
    rw [hres]
    refine ⟨⟨fun h => ?_, ?_⟩, ⟨fun h => ?_, ?_⟩, ⟨fun h => absurd h hp', fun h => ?_⟩, fun h => absurd h hp',
      fun _ => ⟨as0, bs0, ht0, has0'⟩⟩
    · exact ⟨as0, r0, bs0, ht0, h, fun a ha => by rw [has0' a ha]; intro h; cases h⟩
    · rintro ⟨as, r, bs, ht, hr, has⟩
      obtain ⟨r1, h1, h2⟩ := find_decided_match as r bs hr has
      rw [← ht, hfind] at h1
      cases h1
      exact h2
    · exact ⟨as0, r0, bs0, ht0, h, has0'⟩
    · rintro ⟨as, r, bs, ht, hr, has⟩
      have h1 : (as ++ r :: bs).find? (fun r => r.1 != .nomatch) = some r := by
        rw [List.find?_append]
        have : as.find? (fun r => r.1 != .nomatch) = none :=
          List.find?_eq_none.2 fun a ha => by simp [has a ha]
        simp [this, hr]
      rw [← ht, hfind] at h1
      cases h1
      exact hr
    · exact absurd (h r0 (by rw [ht0]; simp)) hp'

theorem tri_beq_error {x : Tri} : (x == .error) = true ↔ x = .error := by
  cases x <;> simp

/-- Meaning of `Spec.attachmentBlock` on the trace `t`:
* error iff the block fails on some part; the state is then the one that part left, every
  earlier part having been evaluated without error;
* otherwise the block was evaluated on EVERY part (the state is the one after the last part)
  and the result is a match iff it matched on at least one part. -/
theorem attachmentBlock_meaning {α : Type} (f : Nat → α → σ → Tri × σ) (ps : List α) (s : σ) :
    let t := Spec.partTrace f 0 ps s
    let res := Spec.attachmentBlock f ps s
    (res.1 = .error ↔ ∃ r ∈ t, r.1 = .error) ∧
    (res.1 = .error → ∃ as bs, t = as ++ res :: bs ∧ ∀ a ∈ as, a.1 ≠ .error) ∧
    (res.1 = .match ↔ (∀ r ∈ t, r.1 ≠ .error) ∧ ∃ r ∈ t, r.1 = .match) ∧
    (res.1 = .nomatch ↔ ∀ r ∈ t, r.1 = .nomatch) ∧
    (res.1 ≠ .error → res.2 = Spec.lastState t s) := by
  intro t res
  have hres : res = match t.find? (fun r => r.1 == .error) with
      | some r => r
      | none => (if t.any (fun r => r.1 == .match) then .match else .nomatch, Spec.lastState t s) := rfl
  cases hfind : t.find? (fun r => r.1 == .error) with
  | none =>
    rw [hfind] at hres
    dsimp only at hres
    have hall : ∀ r ∈ t, r.1 ≠ .error := by
      intro r hr
      have := List.find?_eq_none.1 hfind r hr
      intro h; rw [h] at this; simp at this
    by_cases hany : t.any (fun r => r.1 == .match) = true
    · rw [hany, if_pos rfl] at hres
      obtain ⟨r, hr, hrm⟩ := List.any_eq_true.1 hany
      have hrm' : r.1 = .match := by cases h : r.1 <;> simp [h] at hrm ⊢
      rw [hres]
      refine ⟨⟨fun h => (by cases h), fun ⟨r, hr, h⟩ => absurd h (hall r hr)⟩, fun h => (by cases h),
        ⟨fun _ => ⟨hall, r, hr, hrm'⟩, fun _ => rfl⟩, ⟨fun h => (by cases h), fun h => ?_⟩, fun _ => rfl⟩
      have := h r hr
      rw [hrm'] at this; cases this
    · have hany' : t.any (fun r => r.1 == .match) = false := Bool.eq_false_iff.mpr hany
      rw [hany'] at hres
      have hnm : ∀ r ∈ t, r.1 = .nomatch := by
        intro r hr
        have h1 := hall r hr
        have h2 : ¬ (r.1 == Tri.match) = true := fun h => hany (List.any_eq_true.2 ⟨r, hr, h⟩)
        cases h : r.1
        · rw [h] at h2; simp at h2
        · rfl
        · exact absurd h h1
      rw [hres]
      refine ⟨⟨fun h => (by cases h), fun ⟨r, hr, h⟩ => absurd h (hall r hr)⟩, fun h => (by cases h),
        ⟨fun h => (by cases h), fun ⟨_, r, hr, h⟩ => ?_⟩, ⟨fun _ => hnm, fun _ => rfl⟩, fun _ => rfl⟩
      have := hnm r hr
      rw [h] at this; cases this
  | some r0 =>
    rw [hfind] at hres
    dsimp only at hres
    obtain ⟨hp, as0, bs0, ht0, has0⟩ := List.find?_eq_some_iff_append.1 hfind
    have hp' : r0.1 = .error := tri_beq_error.1 hp
    have hmem : r0 ∈ t := by rw [ht0]; simp
    rw [hres]
    refine ⟨⟨fun _ => ⟨r0, hmem, hp'⟩, fun _ => hp'⟩, fun _ => ⟨as0, bs0, ht0, fun a ha h => ?_⟩,
      ⟨fun h => ?_, fun ⟨h, _⟩ => absurd hp' (h r0 hmem)⟩, ⟨fun h => ?_, fun h => ?_⟩, fun h => absurd hp' h⟩
    · have := has0 a ha
      rw [h] at this; simp at this
    · rw [hp'] at h; cases h
    · rw [hp'] at h; cases h
    · have := h r0 hmem
      rw [hp'] at this; cases this

end meaning

/-! ## together with C11_parts: the parts are those of the MIME tree -/

theorem eval_attachment_mime (env : Env) (root : Msg) (lno : Nat) (e : Expr) (part : Nat) (m : Msg) (st : St)
    (h : BoundaryOk (Gen.mimeDepthLimit + 1) m = true) :
    eval env root (.attachment lno e) part m st =
      match Spec.parts entity (Gen.mimeDepthLimit + 1) m with
      | none => (.error, st)
      | some ps => Spec.attachmentCond (fun i p s => eval env root e (Spec.partIndex part i) p s) ps st := by
  rw [eval_attachment_eq, show getAttachments m = Spec.parts entity (Gen.mimeDepthLimit + 1) m from
    parseAttachments_eq_spec_partial (Gen.mimeDepthLimit + 1) m h]

theorem eval_attBlock_mime (env : Env) (root : Msg) (lno : Nat) (blk : Expr) (part : Nat) (m : Msg) (st : St)
    (h : BoundaryOk (Gen.mimeDepthLimit + 1) m = true) :
    eval env root (.attBlock lno blk) part m st =
      match Spec.parts entity (Gen.mimeDepthLimit + 1) m with
      | none => (.error, st)
      | some ps => Spec.attachmentBlock (fun i p s => eval env root blk (Spec.partIndex part i) p s) ps st := by
  rw [eval_attBlock_eq, show getAttachments m = Spec.parts entity (Gen.mimeDepthLimit + 1) m from
    parseAttachments_eq_spec_partial (Gen.mimeDepthLimit + 1) m h]

end Mdsort.Proofs
