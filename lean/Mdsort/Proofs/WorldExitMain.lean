import Mdsort.Proofs.WorldExitWalk

/-!
# A whole run in maildir mode under at most one fault: no error flag means every message was placed

The invariant of `WorldExitInv` is carried through the loop over the paths of a block, the loop over
the blocks and `mainP`.  `exit0_main`: for a configuration whose rules meet the per-message
specification (`exit0_StepOK`: a dry run, or rules without discard) and in which no message is visited
twice (`exit0_Good`), a run that ends without the error flag has placed every message of the initial
registry as the rules say and has logged the reference log.
-/

namespace Mdsort.Proofs
open Mdsort Mdsort.Model
open Mdsort.Proofs.World (wpS wpS_mono wpS_bind_mono wpS_call_any All bind_eq pure_eq call_bind ret_bind call_bind')

/-- The directories the paths `ps` of a block with rules `e` make the run walk, in order. -/
def exit0_pathDirs (e : Expr) (ps : List Bytes) : List (Bytes × Expr) :=
  (ps.filter fun p => !isStdinPath p).flatMap fun p =>
    [(p ++ [47] ++ subdirName .new, e), (p ++ [47] ++ subdirName .cur, e)]

/-- The directories a configuration makes a run in maildir mode walk, in order, with their rules. -/
def exit0_dirsOf (conf : List ConfBlock) : List (Bytes × Expr) := conf.flatMap fun b => exit0_pathDirs b.expr b.paths

theorem exit0_pathDirs_skip (e : Expr) (p : Bytes) (more : List Bytes) (h : isStdinPath p = true) :
    exit0_pathDirs e (p :: more) = exit0_pathDirs e more := by
  simp [exit0_pathDirs, List.filter_cons, h]

theorem exit0_pathDirs_cons (e : Expr) (p : Bytes) (more : List Bytes) (h : isStdinPath p = false) :
    exit0_pathDirs e (p :: more) =
      (p ++ [47] ++ subdirName .new, e) :: (p ++ [47] ++ subdirName .cur, e) :: exit0_pathDirs e more := by
  simp [exit0_pathDirs, List.filter_cons, h]

/-! ## the error flag is sticky through the loops -/

theorem exit0_all_mono {α} {P Q : α → Prop} {p : Prog α} (h : All P p) (hq : ∀ a, P a → Q a) : All Q p := by
  induction p with
  | ret a => exact hq a h
  | call c k ih => exact fun r => ih r (h r)

theorem exit0_paths_sticky (env : PEnv) (orc : EvalOracles) (input : Bytes) (b : ConfBlock) (hm : env.stdinMode = false)
    (ps : List Bytes) (st : MainSt) (he : st.error = true) :
    All (fun st' => st'.error = true) (mainP.blocks.paths env orc input b ps st) := by
  induction ps generalizing st with
  | nil => rw [Own.paths_nil]; exact he
  | cons p more ih =>
    rw [Own.paths_cons]
    split
    · exact ih _ he
    · rename_i hsk
      split
      · rename_i hs
        exact absurd (by simp [skipPath, hm, hs]) hsk
      · split
        · refine World.All.bind_of_forall _ fun x => ?_
          split
          · exact ih _ rfl
          · refine World.All.bind (exit0_all_mono (exit0_walk_sticky env orc b.expr _ x.1 st he) fun y hy => ?_)
            exact World.All.bind_of_forall _ fun _ => ih _ hy
        · exact ih _ rfl

theorem exit0_blocks_sticky (env : PEnv) (orc : EvalOracles) (input : Bytes) (hm : env.stdinMode = false)
    (bs : List ConfBlock) (st : MainSt) (he : st.error = true) :
    All (fun st' => st'.error = true) (mainP.blocks env orc input bs st) := by
  induction bs generalizing st with
  | nil => rw [Own.blocks_nil]; exact he
  | cons b rest ih =>
    rw [Own.blocks_cons]
    exact World.All.bind (exit0_all_mono (exit0_paths_sticky env orc input b hm b.paths st he) fun st' h => ih st' h)

/-! ## the loop over the paths of a block -/

theorem exit0_filter_length_mono {α} (l : List α) (p q : α → Bool) (h : ∀ a, p a = true → q a = true) :
    (l.filter p).length ≤ (l.filter q).length := by
  induction l with
  | nil => simp
  | cons a l ih =>
    simp only [List.filter_cons]
    by_cases hp : p a = true
    · rw [if_pos hp, if_pos (h a hp)]
      simp only [List.length_cons]
      omega
    · rw [if_neg hp]
      by_cases hq : q a = true
      · rw [if_pos hq]
        simp only [List.length_cons]
        omega
      · rw [if_neg hq]
        exact ih

/-- The loop over the paths of a block; besides the invariant: the directories it walked exist at the end
(each was opened, and no call of a maildir-mode run creates or removes a directory). -/
theorem exit0_paths' (C : exit0_Ctx) (hG : exit0_Good C) (hm : C.env.stdinMode = false) (input : Bytes) (b : ConfBlock)
    (hstep : exit0_StepOK C.env C.orc b.expr) (ps : List Bytes) :
    ∀ (st : MainSt) (w : World) (bb : Bool) (pre rest : List (Bytes × Expr)),
      C.dirs = pre ++ (exit0_pathDirs b.expr ps ++ rest) → exit0_Inv C (exit0_pathDirs b.expr ps ++ rest) none st w →
      wpS (mainP.blocks.paths C.env C.orc input b ps st)
        (fun _ st' w' => st'.error = false → exit0_Inv C rest none st' w' ∧
          (∀ D ∈ (exit0_pathDirs b.expr ps).map (·.1), (w'.dir D).isSome = true) ∧ st'.fuelOut = st.fuelOut) bb w := by
  induction ps with
  | nil =>
    intro st w bb pre rest _ hinv
    rw [Own.paths_nil]
    intro _
    exact ⟨by simpa [exit0_pathDirs] using hinv, by simp [exit0_pathDirs], rfl⟩
  | cons p more ih =>
    intro st w bb pre rest hs hinv
    have sticky : ∀ (st1 : MainSt) (b1 : Bool) (w1 : World), st1.error = true →
        wpS (mainP.blocks.paths C.env C.orc input b more st1)
          (fun _ st' w' => st'.error = false → exit0_Inv C rest none st' w' ∧
            (∀ D ∈ (exit0_pathDirs b.expr (p :: more)).map (·.1), (w'.dir D).isSome = true) ∧ st'.fuelOut = st.fuelOut) b1 w1 := by
      intro st1 b1 w1 h1
      exact wpS_mono (exit0_wpS_all (exit0_paths_sticky C.env C.orc input b hm more st1 h1) b1 w1)
        (fun _ r _ h he => by rw [h] at he; cases he)
    rw [Own.paths_cons]
    by_cases hsk : skipPath C.env p = true
    · simp only [hsk, if_true]
      have hsp : isStdinPath p = true := by simpa [skipPath, hm] using hsk
      rw [exit0_pathDirs_skip _ _ _ hsp] at hs hinv ⊢
      exact ih st w bb pre rest hs hinv
    · simp only [hsk, Bool.false_eq_true, if_false]
      have hsp : isStdinPath p = false := by simpa [skipPath, hm] using hsk
      simp only [hsp, Bool.false_eq_true, if_false]
      rw [exit0_pathDirs_cons _ _ _ hsp] at hs hinv
      split
      · rename_i root np hroot hnp
        have hroot' : root = p := World.strlcpyFits_eq hroot
        have hnp' : np = p ++ [47] ++ subdirName .new := World.pathjoin_eq hnp
        subst hroot'
        unfold maildirOpendir
        simp only [maildirOf, bind_eq, pure_eq, call_bind, call_bind', ret_bind]
        refine exit0_wpS_call_ft fun ft b2 => ?_
        rcases World.opendir_results ft w np with ⟨e2, he2⟩ | ⟨he2, hdp⟩
        · rw [he2]
          simp only [ret_bind, if_true]
          exact sticky _ _ _ rfl
        · rw [he2]
          simp only [ret_bind, Bool.false_eq_true, if_false]
          have hinv3 := hinv.step (.opendir np) (.ok w.handles.length) rfl (fun _ => trivial)
          have hc3 := World.core_opendir_ok hdp w.handles.length
          obtain ⟨es, hes⟩ := Option.isSome_iff_exists.1 hdp
          have hdir3 : (stepWorld w (.opendir np) (.ok w.handles.length)).dir np = some es := by
            rw [World.stepWorld_dir, hc3]; exact hes
          have hobj3 : (stepWorld w (.opendir np) (.ok w.handles.length)).obj w.handles.length = .dir np none 0 := by
            rw [World.stepWorld_obj, hc3, World.obj_newHandle]; simp
          generalize stepWorld w (.opendir np) (.ok w.handles.length) = w3 at hinv3 hdir3 hobj3 ⊢
          generalize w.handles.length = h3 at hobj3 ⊢
          rw [← hnp'] at hs hinv3
          have hmemP : (np, b.expr) ∈ C.dirs := by rw [hs]; simp
          obtain ⟨hinvO, hrokO, hcntO⟩ := exit0_Inv.open hG hinv3 hdir3 hmemP
          have hrem3 : exit0_rem w3 h3 = sortedNames es := by simp [exit0_rem, hobj3, hdir3]
          have hcntCur : (st.files.filter (fun x => x.1 == root ++ [47] ++ subdirName .cur)).length ≤
              (st.files.filter fun e => e.1 == np || e.1 == (root ++ [47] ++ subdirName .cur)).length :=
            exit0_filter_length_mono _ _ _ (fun a ha => by rw [Bool.or_eq_true]; exact .inr ha)
          have hcntNew : (st.files.filter (fun x => x.1 == np)).length ≤
              (st.files.filter fun e => e.1 == np || e.1 == (root ++ [47] ++ subdirName .cur)).length :=
            exit0_filter_length_mono _ _ _ (fun a ha => by rw [Bool.or_eq_true]; exact .inl ha)
          have hfu : (sortedNames es).length + 1 +
              (if (Subdir.new = Subdir.new) then
                (st.files.filter (fun x => x.1 == root ++ [47] ++ subdirName .cur)).length + 3 else 0) ≤
              walkFuel C.env st root np := by
            rw [World.length_sortedNames]
            simp only [if_true, walkFuel]
            omega
          refine wpS_bind_mono (World.wpS_and (exit0_walk' C hG b.expr hstep (walkFuel C.env st root np) _ st w3 b2 pre _ (sortedNames es) h3
            rfl rfl ⟨?_, hnp⟩ ⟨none, 0, hobj3⟩ hrem3 hs (fun _ => ⟨_, rfl⟩) hrokO hinvO hfu)
            (dirsSame_walk C.env C.orc b.expr (walkFuel C.env st root np) _ st b2 w3)) ?_
          · intro d' hd'
            cases hd'
            simp [World.dirPath, hobj3]
          · rintro b4 ⟨st4, md4⟩ w4 ⟨hpost, hsame4⟩
            dsimp only at hpost hsame4 ⊢
            by_cases herr4 : st4.error = true
            · refine wpS_bind_mono (exit0_wpS_triv) fun _ _ _ _ => sticky _ _ _ herr4
            · obtain ⟨hinv4, hcur4, hfo4⟩ := hpost (by simpa using herr4)
              simp only [if_true] at hinv4
              have hnew4 : (w4.dir np).isSome = true := by rw [hsame4 np, hdir3]; rfl
              have hcur4' : (w4.dir (root ++ [47] ++ subdirName .cur)).isSome = true := hcur4 rfl
              have fin : ∀ (w5 : World) (b5 : Bool), DirsSame w4 w5 →
                  exit0_Inv C (exit0_pathDirs b.expr more ++ rest) none st4 w5 →
                  wpS (mainP.blocks.paths C.env C.orc input b more st4)
                    (fun _ st' w' => st'.error = false → exit0_Inv C rest none st' w' ∧
                      (∀ D ∈ (exit0_pathDirs b.expr (root :: more)).map (·.1), (w'.dir D).isSome = true) ∧
                      st'.fuelOut = st.fuelOut) b5 w5 := by
                intro w5 b5 hs5 hinv5
                refine wpS_mono (World.wpS_and (ih st4 w5 b5 (pre ++ [(np, b.expr), (root ++ [47] ++ subdirName .cur, b.expr)]) rest
                  (by rw [hs]; simp) hinv5) (dirsSame_paths C.env C.orc input b hm more st4 b5 w5)) ?_
                rintro _ st' w' ⟨hp, hsm⟩ he
                obtain ⟨hI, hD, hF⟩ := hp he
                refine ⟨hI, ?_, hF.trans hfo4⟩
                intro D hD'
                rw [exit0_pathDirs_cons _ _ _ hsp, ← hnp'] at hD'
                simp only [List.map_cons, List.mem_cons] at hD'
                rcases hD' with rfl | rfl | hD'
                · rw [hsm, hs5]; exact hnew4
                · rw [hsm, hs5]; exact hcur4'
                · exact hD D hD'
              unfold maildirClose
              split
              · rename_i d4 _
                simp only [bind_eq, pure_eq, call_bind, call_bind', ret_bind]
                refine wpS_call_any fun r5 b5 => ?_
                have hinv5 := hinv4.step (.closedir d4) r5 rfl (fun _ => trivial)
                exact fin _ b5 (dirsSame_step w4 (.closedir d4) r5 True.intro) hinv5
              · simp only [pure_eq, ret_bind]
                exact fin w4 b4 (DirsSame.refl w4) hinv4
      · exact sticky _ _ _ rfl

theorem exit0_paths (C : exit0_Ctx) (hG : exit0_Good C) (hm : C.env.stdinMode = false) (input : Bytes) (b : ConfBlock)
    (hstep : exit0_StepOK C.env C.orc b.expr) (ps : List Bytes) :
    ∀ (st : MainSt) (w : World) (bb : Bool) (pre rest : List (Bytes × Expr)),
      C.dirs = pre ++ (exit0_pathDirs b.expr ps ++ rest) → exit0_Inv C (exit0_pathDirs b.expr ps ++ rest) none st w →
      wpS (mainP.blocks.paths C.env C.orc input b ps st)
        (fun _ st' w' => st'.error = false → exit0_Inv C rest none st' w') bb w := by
  intro st w bb pre rest hs hinv
  exact wpS_mono (exit0_paths' C hG hm input b hstep ps st w bb pre rest hs hinv) fun _ _ _ h he => (h he).1

/-! ## the loop over the blocks, and `main` -/

theorem exit0_blocks' (C : exit0_Ctx) (hG : exit0_Good C) (hm : C.env.stdinMode = false) (input : Bytes) (bs : List ConfBlock)
    (hstep : ∀ b ∈ bs, exit0_StepOK C.env C.orc b.expr) :
    ∀ (st : MainSt) (w : World) (bb : Bool) (pre : List (Bytes × Expr)),
      C.dirs = pre ++ exit0_dirsOf bs → exit0_Inv C (exit0_dirsOf bs) none st w →
      wpS (mainP.blocks C.env C.orc input bs st)
        (fun _ st' w' => st'.error = false → exit0_Inv C [] none st' w' ∧
          (∀ D ∈ (exit0_dirsOf bs).map (·.1), (w'.dir D).isSome = true) ∧ st'.fuelOut = st.fuelOut) bb w := by
  induction bs with
  | nil =>
    intro st w bb pre _ hinv
    rw [Own.blocks_nil]
    intro _
    exact ⟨by simpa [exit0_dirsOf] using hinv, by simp [exit0_dirsOf], rfl⟩
  | cons b rest ih =>
    intro st w bb pre hs hinv
    rw [Own.blocks_cons]
    have hd : exit0_dirsOf (b :: rest) = exit0_pathDirs b.expr b.paths ++ exit0_dirsOf rest := by
      simp [exit0_dirsOf]
    rw [hd] at hs hinv ⊢
    refine wpS_bind_mono (exit0_paths' C hG hm input b (hstep b (List.mem_cons_self ..)) b.paths st w bb pre _ hs hinv) ?_
    intro b1 st1 w1 hpost
    by_cases herr : st1.error = true
    · exact wpS_mono (exit0_wpS_all (exit0_blocks_sticky C.env C.orc input hm rest st1 herr) b1 w1)
        (fun _ r _ h he => by rw [h] at he; cases he)
    · obtain ⟨hinv1, hD1, hF1⟩ := hpost (by simpa using herr)
      refine wpS_mono (World.wpS_and (ih (fun b' hb' => hstep b' (List.mem_cons_of_mem _ hb')) st1 w1 b1
        (pre ++ exit0_pathDirs b.expr b.paths) (by rw [hs]; simp) hinv1) (dirsSame_blocks C.env C.orc input hm rest st1 b1 w1)) ?_
      rintro _ st' w' ⟨hp, hsm⟩ he
      obtain ⟨hI, hD, hF⟩ := hp he
      refine ⟨hI, ?_, hF.trans hF1⟩
      intro D hD'
      rw [List.map_append, List.mem_append] at hD'
      rcases hD' with hD' | hD'
      · rw [hsm]; exact hD1 D hD'
      · exact hD D hD'

theorem exit0_blocks (C : exit0_Ctx) (hG : exit0_Good C) (hm : C.env.stdinMode = false) (input : Bytes) (bs : List ConfBlock)
    (hstep : ∀ b ∈ bs, exit0_StepOK C.env C.orc b.expr) :
    ∀ (st : MainSt) (w : World) (bb : Bool) (pre : List (Bytes × Expr)),
      C.dirs = pre ++ exit0_dirsOf bs → exit0_Inv C (exit0_dirsOf bs) none st w →
      wpS (mainP.blocks C.env C.orc input bs st) (fun _ st' w' => st'.error = false → exit0_Inv C [] none st' w') bb w := by
  intro st w bb pre hs hinv
  exact wpS_mono (exit0_blocks' C hG hm input bs hstep st w bb pre hs hinv) fun _ _ _ h he => (h he).1

/-- The invariant at the start of the run. -/
theorem exit0_inv_init (C : exit0_Ctx) (hG : exit0_Good C) (hreg : WholeReg C.w0 C.files0) :
    exit0_Inv C C.dirs none { files := C.files0, error := false, reject := false, log := [] } C.w0 := by
  refine ⟨hreg, hG.uniq0, fun _ _ _ => rfl, fun _ _ => rfl, ?_, by simp [exit0_curRef]⟩
  intro D e n c hmem hc _
  have hp : exit0_Pend C.dirs none (D, n) := .inl (List.mem_map.2 ⟨(D, e), hmem, rfl⟩)
  exact ⟨fun _ => hc, fun hnp => absurd hp hnp⟩

/-- `main`; besides the invariant: every directory the run walked exists at the end. -/
theorem exit0_mainP' (C : exit0_Ctx) (hG : exit0_Good C) (hm : C.env.stdinMode = false) (hsyn : C.env.syntaxOnly = false)
    (confOk : Bool) (conf : List ConfBlock) (input : Bytes) (hdirs : C.dirs = exit0_dirsOf conf)
    (hstep : ∀ b ∈ conf, exit0_StepOK C.env C.orc b.expr) (hreg : WholeReg C.w0 C.files0) (b : Bool) :
    wpS (mainP C.env C.orc confOk conf C.files0 input)
      (fun _ r w' => r.2.error = false → exit0_Inv C [] none r.2 w' ∧
        (∀ D ∈ (exit0_dirsOf conf).map (·.1), (w'.dir D).isSome = true) ∧ r.2.fuelOut = false) b C.w0 := by
  have hinv0 := exit0_inv_init C hG hreg
  rw [Own.mainP_eq]
  refine exit0_wpS_call_ft fun ft b1 => ?_
  have hinv1 := hinv0.step (.fopen C.env.confpath) (World.faultResult ft C.w0 (.fopen C.env.confpath)) rfl (fun _ => trivial)
  rcases World.results_simple ft C.w0 (.fopen C.env.confpath) C.w0.handles.length (by intro _ h; cases h)
    (by intro _ _ h; cases h) rfl with hr | ⟨e, hr⟩
  · rw [hr] at hinv1 ⊢
    dsimp only
    have hobj : (stepWorld C.w0 (.fopen C.env.confpath) (.ok C.w0.handles.length)).obj C.w0.handles.length = .other := by
      have hc : World.core C.w0 (.fopen C.env.confpath) (.ok C.w0.handles.length) = (C.w0.newHandle .other).1 := by
        simp [World.core, applyOk]
      rw [World.stepWorld_obj, hc, World.obj_newHandle]
      simp
    refine wpS_call_any fun r2 b2 => ?_
    have hinv2 := hinv1.step (.fclose C.w0.handles.length) r2 rfl (by
      intro g
      simp only [World.fileSafe, hobj, World.objFid]
      intro h; cases h)
    unfold Own.mainK
    split
    · intro h; cases h
    · simp only [hsyn, Bool.false_eq_true, if_false]
      refine wpS_bind_mono (exit0_blocks' C hG hm input conf hstep _ _ b2 [] (by simpa using hdirs) (by rw [← hdirs]; exact hinv2)) ?_
      intro _ stf wf hpost
      exact hpost
  · rw [hr]
    intro h
    cases h

theorem exit0_mainP (C : exit0_Ctx) (hG : exit0_Good C) (hm : C.env.stdinMode = false) (hsyn : C.env.syntaxOnly = false)
    (confOk : Bool) (conf : List ConfBlock) (input : Bytes) (hdirs : C.dirs = exit0_dirsOf conf)
    (hstep : ∀ b ∈ conf, exit0_StepOK C.env C.orc b.expr) (hreg : WholeReg C.w0 C.files0) (b : Bool) :
    wpS (mainP C.env C.orc confOk conf C.files0 input)
      (fun _ r w' => r.2.error = false → exit0_Inv C [] none r.2 w') b C.w0 :=
  wpS_mono (exit0_mainP' C hG hm hsyn confOk conf input hdirs hstep hreg b) fun _ _ _ h he => (h he).1

/-! ## what the invariant says at the end -/

/-- Every message of the initial registry in a walked directory has been placed as the rules say. -/
theorem exit0_final {C : exit0_Ctx} (hG : exit0_Good C) (hreg0 : WholeReg C.w0 C.files0) {st : MainSt} {w : World}
    (h : exit0_Inv C [] none st w) :
    (∀ D e n c, (D, e) ∈ C.dirs → C.files0.get D n = some c →
      ∃ key c' lines fid, exit0_Outcome C.env C.orc e D n c key c' lines ∧ st.files.get key.1 key.2 = some c' ∧
        w.lookup key.1 key.2 = some fid ∧ w.file fid = some ⟨c', c'⟩) ∧
    st.log = exit0_refDirs C C.dirs := by
  refine ⟨?_, ?_⟩
  · intro D e n c hmem hc
    have hnd : isDot n = false := by
      obtain ⟨fid, hl, _, _⟩ := hreg0 D n c hc
      exact (hG.listed D e hmem n (by rw [hl]; rfl)).1
    have hnp : ¬ exit0_Pend [] none (D, n) := by
      rintro (hx | ⟨_, _, _, hcur, _⟩)
      · cases hx
      · cases hcur
    obtain ⟨key, c', lines, _, hget, hout⟩ := (h.track D e n c hmem hc hnd).2 hnp
    obtain ⟨fid, hl, _, hf⟩ := h.reg key.1 key.2 c' hget
    exact ⟨key, c', lines, fid, hout, hget, hl, hf⟩
  · have := h.log
    simpa [exit0_curRef, exit0_refDirs] using this

end Mdsort.Proofs
