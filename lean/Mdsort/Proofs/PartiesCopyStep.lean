import Mdsort.Proofs.PartiesCopyInv

/-! One step under the invariant `CInv`: what the issuing party has in flight afterwards, which
files the call can write, the lineage afterwards. -/

namespace Mdsort.Proofs.Parties
set_option linter.unusedSimpArgs false
set_option linter.unusedVariables false
open Mdsort Mdsort.Model
open Mdsort.Proofs.World
open Mdsort.Proofs.Own

variable {M : Msg → Prop} {s0 s : Shared} {a : Nat} {ps : PState} {c : Call} {k : Res → Prog Bool}

theorem stepLocal_handles (s : Shared) (ps : PState) (c : Call) (k : Res → Prog Bool) :
    (stepLocal s ps c k).handles = (core (s.view ps) c (predict (s.view ps) c)).handles := rfl

theorem stepLocal_trace (s : Shared) (ps : PState) (c : Call) (k : Res → Prog Bool) :
    (stepLocal s ps c k).trace = ps.trace ++ [(c, predict (s.view ps) c)] := rfl

theorem stepLocal_obj (s : Shared) (ps : PState) (c : Call) (k : Res → Prog Bool) (h : Handle) :
    (stepLocal s ps c k).handles.getD h .closed = (core (s.view ps) c (predict (s.view ps) c)).obj h := rfl

theorem view_obj (s : Shared) (ps : PState) (h : Handle) : (s.view ps).obj h = ps.handles.getD h .closed := rfl

theorem stepLocal_dirPath (s : Shared) (ps : PState) (c : Call) (k : Res → Prog Bool) (d : Handle) :
    handlesDirPath (stepLocal s ps c k).handles d = (core (s.view ps) c (predict (s.view ps) c)).dirPath d := rfl

/-- The file of the name the party has in flight, with its descriptors. -/
theorem StepCtx.flightFile (x : StepCtx M s0 s a ps c k) {y : Bytes × Bytes} (hy : y ∈ ps.inFlight) :
    ∃ g, s.fs.lookup y.1 y.2 = some g ∧ s0.fs.nextFid ≤ g ∧ WrOK ps g s.fs := by
  obtain ⟨g, hg, hge⟩ := x.inv.flightBound a ps y x.hp hy
  exact ⟨g, hg, hge, x.inv.writing a ps y g x.hp hy hg⟩

/-- While a name is in flight the party does not close the directory handle the name was created under. -/
theorem StepCtx.keeps_flight_dir (x : StepCtx M s0 s a ps c k) {d : Handle} {n : Bytes} (hd : (d, n) ∈ inFlightH ps.trace) :
    c ≠ .close d ∧ c ≠ .closedir d := by
  have hne : inFlightH ps.trace ≠ [] := by intro e; rw [e] at hd; cases hd
  obtain ⟨p, hp⟩ := Option.isSome_iff_exists.1 (x.inv.resolves a ps (d, n) x.hp hd)
  rcases x.shape with ⟨h0, _⟩ | ⟨d', n', p', hF, hp', hfl⟩
  · exact absurd h0 hne
  rw [hF] at hd
  obtain ⟨rfl, rfl⟩ : d = d' ∧ n = n' := by simpa using hd
  rw [hp] at hp'; cases hp'
  obtain ⟨g, hg, _, f, _, hfd, _⟩ := x.flightFile (y := (p, n)) (by rw [hfl]; exact List.mem_singleton.2 rfl)
  constructor
  · rintro rfl
    rcases x.proto with hI | ⟨hcl, _⟩
    · rcases hI with h0 | hfd'
      · exact hne h0
      · obtain ⟨off, wr, ho⟩ := hfd d hfd'
        unfold handlesDirPath at hp
        rw [ho] at hp
        cases hp
    · exact hcl.elim
  · rintro rfl
    rcases x.proto with hI | ⟨hcl, _⟩
    · exact hne hI
    · exact hcl.elim

theorem inFlightUpd_other {c : Call} (h1 : isCreate c = false) (h2 : c.isRename = false) (h3 : isUnlink c = false)
    (acc : List (Handle × Bytes)) (r : Res) : inFlightUpd acc (c, r) = acc := by
  cases c <;> simp [isCreate, Call.isRename, isUnlink] at h1 h2 h3 <;> rfl

/-- What the issuing party has in flight after the step. -/
theorem StepCtx.flightAfter (x : StepCtx M s0 s a ps c k) :
    (stepLocal s ps c k).inFlight =
      if isCreate c = true ∧ isOk (predict (s.view ps) c) = true then (callDst (s.view ps) c).toList
      else if (c.isRename = true ∨ isUnlink c = true) ∧ isOk (predict (s.view ps) c) = true then []
      else ps.inFlight := by
  have hlen := x.loc.1
  have hres : ∀ y ∈ inFlightH ps.trace, (handlesDirPath ps.handles y.1).isSome := fun y hy => x.inv.resolves a ps y x.hp hy
  have same : inFlightUpd (inFlightH ps.trace) (c, predict (s.view ps) c) = inFlightH ps.trace →
      (stepLocal s ps c k).inFlight = ps.inFlight := by
    intro h2
    unfold PState.inFlight
    rw [stepLocal_trace, inFlightH_snoc, h2]
    refine filterMap_resolve_congr _ _ _ ?_ hres
    intro y hy p hp
    rw [stepLocal_dirPath]
    exact core_dirPath_keep (s.view ps) c _ y.1 p hp (x.keeps_flight_dir (d := y.1) (n := y.2) hy)
  have toNil : inFlightUpd (inFlightH ps.trace) (c, predict (s.view ps) c) = [] → (stepLocal s ps c k).inFlight = [] := by
    intro h
    apply inFlight_of_nil
    rw [stepLocal_trace, inFlightH_snoc, h]
  by_cases hcr : isCreate c = true
  · have h0 : inFlightH ps.trace = [] := copyI_create_nil x.loc x.hc hcr
    cases c <;> simp [isCreate] at hcr
    rename_i d n
    simp only [isCreate, Call.isRename, isUnlink, Bool.false_eq_true, false_and, or_self, if_false, true_and]
    rcases openExcl_cases (s.view ps) d n with ⟨p, hp, hl, hpr, hco⟩ | ⟨e, hpr⟩
    · have hok : isOk (predict (s.view ps) (.openExcl d n)) = true := by rw [hpr]; rfl
      simp only [hok, if_true, callDst, hp, Option.map_some, Option.toList_some]
      apply inFlight_of_singleton (d := d)
      · rw [stepLocal_trace, inFlightH_snoc, h0, hpr]; rfl
      · rw [stepLocal_dirPath]
        exact core_dirPath_keep _ _ _ d p hp ⟨(by intro e; cases e), (by intro e; cases e)⟩
    · have hok : isOk (predict (s.view ps) (.openExcl d n)) = false := by rw [hpr]; rfl
      simp only [hok, Bool.false_eq_true, if_false]
      rw [inFlight_of_nil h0]
      apply toNil
      rw [h0, hpr]; rfl
  by_cases hrn : c.isRename = true
  · cases c <;> simp [Call.isRename] at hrn
    rename_i d1 n1 d2 n2
    simp only [isCreate, Call.isRename, isUnlink, Bool.false_eq_true, false_and, or_false, if_false, true_and]
    rcases renameat_cases (s.view ps) d1 n1 d2 n2 with ⟨_, _, _, _, _, _, hpr, _⟩ | ⟨e, hpr, _, _⟩
    · have hok : isOk (predict (s.view ps) (.renameat d1 n1 d2 n2)) = true := by rw [hpr]; rfl
      simp only [hok, if_true]
      apply toNil
      rw [hpr]
      rcases x.proto with hI | ⟨_, h0⟩
      · rw [eq_singleton_of_mem hlen hI]; simp [inFlightUpd]
      · rw [h0]; rfl
    · have hok : isOk (predict (s.view ps) (.renameat d1 n1 d2 n2)) = false := by rw [hpr]; rfl
      simp only [hok, Bool.false_eq_true, if_false]
      exact same (by rw [hpr]; rfl)
  by_cases hul : isUnlink c = true
  · cases c <;> simp [isUnlink] at hul
    rename_i d n
    simp only [isCreate, Call.isRename, isUnlink, Bool.false_eq_true, false_and, false_or, if_false, true_and]
    rcases unlinkat_cases (s.view ps) d n with ⟨p, f, hp, hl, hpr, hco⟩ | ⟨hnone, hpr⟩
    · have hok : isOk (predict (s.view ps) (.unlinkat d n)) = true := by rw [hpr]; rfl
      simp only [hok, if_true]
      apply toNil
      rw [inFlightUpd_unlinkat, hpr]
      split
      · rename_i hct
        have hm : (d, n) ∈ inFlightH ps.trace := by simpa using hct
        rw [eq_singleton_of_mem hlen hm]; simp
      · rfl
    · have hok : isOk (predict (s.view ps) (.unlinkat d n)) = false := by rw [hpr]; rfl
      simp only [hok, Bool.false_eq_true, if_false]
      apply same
      rw [inFlightUpd_unlinkat, hpr]
      have hnc : (inFlightH ps.trace).contains (d, n) = false := by
        cases hct : (inFlightH ps.trace).contains (d, n) with
        | false => rfl
        | true =>
          exfalso
          have hm : (d, n) ∈ inFlightH ps.trace := by simpa using hct
          obtain ⟨p, hp⟩ := Option.isSome_iff_exists.1 (hres (d, n) hm)
          have hy : (p, n) ∈ ps.inFlight := by
            rw [inFlight_of_singleton (eq_singleton_of_mem hlen hm) hp]; exact List.mem_singleton.2 rfl
          obtain ⟨g, hg, _⟩ := x.inv.flightBound a ps (p, n) x.hp hy
          have := hnone p hp
          rw [show (s.view ps).lookup p n = s.fs.lookup p n from rfl, hg] at this
          cases this
      simp only [hnc, Bool.false_eq_true, if_false, isOk]
  · have hcr' : isCreate c = false := by simpa using hcr
    have hrn' : c.isRename = false := by simpa using hrn
    have hul' : isUnlink c = false := by simpa using hul
    simp only [hcr', hrn', hul', Bool.false_eq_true, false_and, or_self, if_false]
    exact same (inFlightUpd_other hcr' hrn' hul' _ _)

/-! ## which files the call writes -/

/-- The call writes (if at all) through descriptors of the issuing party's own name in flight or of its
temporary files: a file held by an entry that party does not have in flight is not written. -/
theorem StepCtx.safe (x : StepCtx M s0 s a ps c k) {p n : Bytes} {g : Nat} (hl : s.fs.lookup p n = some g)
    (hnf : (p, n) ∉ ps.inFlight) : fileSafe (s.view ps) g c := by
  have key : ∀ h, ((inFlightH ps.trace ≠ [] ∧ (locOf ps.trace).st = some h) ∨ h ∈ (locOf ps.trace).tst) →
      objFid ((s.view ps).obj h) ≠ some g := by
    intro h hh
    rcases hh with ⟨hne, hst⟩ | htst
    · rcases x.shape with ⟨h0, _⟩ | ⟨d', n', p', hF, hp', hfl⟩
      · exact absurd h0 hne
      obtain ⟨g', hg', _, f, _, _, _, hstr, _⟩ := x.flightFile (y := (p', n')) (by rw [hfl]; exact List.mem_singleton.2 rfl)
      obtain ⟨buf, ho, _⟩ := hstr h hst
      rw [view_obj, ho]
      simp only [objFid, ne_eq, Option.some.injEq]
      rintro rfl
      obtain ⟨e1, e2⟩ := x.inv.inj p' n' p n g' hg' hl
      apply hnf
      rw [hfl, ← e1, ← e2]; exact List.mem_singleton.2 rfl
    · obtain ⟨g', buf, ho, _, _, hunb⟩ := (x.inv.tmpOk a ps x.hp).2 h htst
      rw [view_obj, ho]
      simp only [objFid, ne_eq, Option.some.injEq]
      rintro rfl
      exact hunb p n hl
  rcases x.proto with hI | ⟨hcl, _⟩
  · cases c <;> first | exact True.intro | exact key _ hI | skip
    -- write: a temporary file
    rename_i h data
    obtain ⟨g', off, wr, ho, _, _, hunb⟩ := (x.inv.tmpOk a ps x.hp).1 h hI
    show objFid ((s.view ps).obj h) ≠ some g
    rw [view_obj, ho]
    simp only [objFid, ne_eq, Option.some.injEq]
    rintro rfl
    exact hunb p n hl
  · cases c <;> first | exact True.intro | exact hcl.elim

/-- The file of an entry the issuing party does not have in flight is as before. -/
theorem StepCtx.file_same (x : StepCtx M s0 s a ps c k) {p n : Bytes} {g : Nat} (hl : s.fs.lookup p n = some g)
    (hnf : (p, n) ∉ ps.inFlight) : (stepCall s a ps c k).fs.file g = s.fs.file g :=
  core_file (s.view ps) c _ g (x.inv.boundLt p n g hl) (x.safe hl hnf)

/-- Initial files are as before. -/
theorem StepCtx.file_init (x : StepCtx M s0 s a ps c k) {f : Nat} (hf : f < s0.fs.nextFid) :
    (stepCall s a ps c k).fs.file f = s.fs.file f := by
  refine core_file (s.view ps) c _ f (Nat.lt_of_lt_of_le hf x.inv.nextLe) ?_
  have key : ∀ h, ((inFlightH ps.trace ≠ [] ∧ (locOf ps.trace).st = some h) ∨ h ∈ (locOf ps.trace).tst) →
      objFid ((s.view ps).obj h) ≠ some f := by
    intro h hh
    rcases hh with ⟨hne, hst⟩ | htst
    · rcases x.shape with ⟨h0, _⟩ | ⟨d', n', p', hF, hp', hfl⟩
      · exact absurd h0 hne
      obtain ⟨g', hg', hge, f', _, _, _, hstr, _⟩ := x.flightFile (y := (p', n')) (by rw [hfl]; exact List.mem_singleton.2 rfl)
      obtain ⟨buf, ho, _⟩ := hstr h hst
      rw [view_obj, ho]
      simp only [objFid, ne_eq, Option.some.injEq]
      rintro rfl
      exact Nat.lt_irrefl _ (Nat.lt_of_lt_of_le hf hge)
    · obtain ⟨g', buf, ho, hge, _, _⟩ := (x.inv.tmpOk a ps x.hp).2 h htst
      rw [view_obj, ho]
      simp only [objFid, ne_eq, Option.some.injEq]
      rintro rfl
      exact Nat.lt_irrefl _ (Nat.lt_of_lt_of_le hf hge)
  rcases x.proto with hI | ⟨hcl, _⟩
  · cases c <;> first | exact True.intro | exact key _ hI | skip
    rename_i h data
    obtain ⟨g', off, wr, ho, hge, _, _⟩ := (x.inv.tmpOk a ps x.hp).1 h hI
    show objFid ((s.view ps).obj h) ≠ some f
    rw [view_obj, ho]
    simp only [objFid, ne_eq, Option.some.injEq]
    rintro rfl
    exact Nat.lt_irrefl _ (Nat.lt_of_lt_of_le hf hge)
  · cases c <;> first | exact True.intro | exact hcl.elim

end Mdsort.Proofs.Parties
