import Mdsort.Proofs.HeaderTable
import Mdsort.Proofs.HeaderReparse
import Mdsort.Proofs.HeaderRewriteSpec

/-! One `message_set_header` and `message_write`, seen on the file-order field list (C08). -/

namespace Mdsort.Proofs
open Mdsort Mdsort.Model

def kv (h : Hdr) : Fld := (h.key, h.val)

/-- The table in file order, as (name, raw value) pairs. -/
def FO (hs : List Hdr) : List Fld := (sortById hs).map kv

theorem qk_kv (k : Bytes) (h : Hdr) : qk k (kv h) = kmatch k h := (kmatch_eq_nameEq k h).symm

theorem stepRel_of_tableStep (k v : Bytes) (L L' : List Hdr) (h : TableStep k v L L') :
    StepRel k v (L.map kv) (L'.map kv) := by
  have e1 : ((fun f : Fld => !qk k f) ∘ kv) = fun x => !kmatch k x := by
    funext x; simp [qk_kv]
  have e2 : (qk k ∘ kv) = kmatch k := by
    funext x; simp [qk_kv]
  refine ⟨?_, ?_, ?_⟩
  · rw [List.filter_map, List.filter_map, e1, h.others]
  · obtain ⟨h', hf, hv⟩ := h.once
    rw [List.filter_map, e2, hf]
    simp [kv, hv]
  · intro hany
    rw [List.any_map, e2] at hany
    rw [List.takeWhile_map, List.takeWhile_map, e1, h.pos hany]

/-- Every header of the table keeps the line structure when printed. -/
def TOk (hs : List Hdr) : Prop := ∀ h ∈ hs, KeyOk h.key ∧ ValOk h.val

structure Good (M : Msg) : Prop where
  inv : TInv M.headers
  ok : TOk M.headers

theorem setHeaderRaw_good (M : Msg) (k v : Bytes) (hM : Good M) (hk : KeyOk k) (hv : ValOk v) :
    Good (setHeaderRaw M k v) ∧ (setHeaderRaw M k v).body = M.body ∧
    StepRel k v (FO M.headers) (FO (setHeaderRaw M k v).headers) := by
  obtain ⟨h1, h2, h3, h4⟩ := setHeaderRaw_step M k v hM.inv
  refine ⟨⟨h1, ?_⟩, h2, stepRel_of_tableStep k v _ _ h4⟩
  intro x hx
  rcases h3 x hx with hx | ⟨hxv, hxk⟩
  · exact hM.ok x hx
  · refine ⟨?_, by rw [hxv]; exact hv⟩
    rcases hxk with hxk | ⟨y, hy, hyk⟩
    · rw [hxk]; exact hk
    · rw [← hyk]; exact (hM.ok y hy).1

theorem messageWrite_snd (M : Msg) (h : TInv M.headers) : (messageWrite M).2 = M := by
  unfold messageWrite
  simp only
  rw [sortByKey_sortById M.headers h]

theorem write_read (M : Msg) (hM : Good M) (hb0 : ∀ c ∈ M.body, c ≠ 0)
    (hb : ∀ c, M.body.head? = some c → c ≠ 10) :
    Spec.read (messageWrite M).1 = some (FO M.headers, M.body) := by
  have e : (messageWrite M).1 = renderF (FO M.headers) M.body := by
    unfold messageWrite FO
    simp only
    rw [render_eq]; rfl
  rw [e]
  apply read_renderF _ _ _ hb0 hb
  intro f hf
  unfold FO at hf
  rw [List.mem_map] at hf
  obtain ⟨h, hh, rfl⟩ := hf
  rw [sortById, List.mem_mergeSort] at hh
  exact hM.ok h hh

theorem parse_good (m : Bytes) (fs : List Fld) (b : Bytes) (h : Spec.read m = some (fs, b)) :
    Good (parseMessage m) ∧ FO (parseMessage m).headers = fs ∧ (parseMessage m).body = b := by
  obtain ⟨hok, -, -⟩ := read_fields_ok m fs b h
  obtain ⟨e1, e2, -⟩ := parseMessage_eq_read' m fs b h
  refine ⟨⟨TInv_parseHeaders _, ?_⟩, e1, e2⟩
  rw [parseMessage_read m fs b h]
  intro x hx
  simp only at hx
  rw [sortByKey, List.mem_mergeSort] at hx
  have : (x.key, x.val) ∈ fs := by
    have hm : (x.key, x.val) ∈ (mkHdrs 0 fs).map (fun h => (h.key, h.val)) :=
      List.mem_map.mpr ⟨x, hx, rfl⟩
    rw [mkHdrs_map_kv] at hm
    exact hm
  exact hok _ this

end Mdsort.Proofs
