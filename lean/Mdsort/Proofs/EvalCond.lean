import Mdsort.Proofs.EvalList
import Mdsort.Proofs.EvalDom

/-!
# Conditions are context-free inside the domain (C03)

For a condition of the domain the value is `condVal` of the stand-alone valuation, whatever the
match list and flags are, and evaluation only appends entries that are not actions.
-/

namespace Mdsort.Proofs
open Mdsort Mdsort.Model Mdsort.Spec

/-- Same function as `valuation` (Proofs/Eval.lean). -/
def valOf (env : Env) (root : Msg) (f : MFlags) (a : Expr) : Tri :=
  (eval env root a 0 root { ml := [], flags := f }).1

/-- Entries conditions leave behind: not actions, no maildir/subdir of their own. -/
def Inert (m : Match) : Prop := m.ty.isAction = false ∧ m.maildir = [] ∧ m.subdir = []

theorem St.ml_append_nil (st : St) : ({ st with ml := st.ml ++ [] } : St) = st := by
  cases st; simp

/-- The result of a matcher does not depend on the state; it only appends inert entries. -/
def LeafCF (env : Env) (root : Msg) (c : Expr) : Prop :=
  ∃ T : Tri, ∀ st : St, ∃ X : MatchList, (∀ m ∈ X, Inert m) ∧
    eval env root c 0 root st = (T, { st with ml := st.ml ++ X })

def rxTri : RxRes → Tri
  | .nomatch => .nomatch
  | .error => .error
  | .ok _ => .match

theorem exprRegexec_cf (env : Env) (ty : MType) (lno part : Nat) (p : Pat) (k v : Bytes) (st : St)
    (hp : ty.isPath = false) (hmf : isMF ty = false) (ha : ty.isAction = false) :
    ∃ X : MatchList, (∀ m ∈ X, Inert m) ∧ (rxTri (env.rx p v) = .nomatch → X = []) ∧
      exprRegexec env ty lno part p k v st = (rxTri (env.rx p v), { st with ml := st.ml ++ X }) := by
  unfold exprRegexec
  cases h : env.rx p v with
  | «nomatch» => exact ⟨[], by simp, fun _ => rfl, by simp [rxTri]⟩
  | error => exact ⟨[], by simp, fun _ => rfl, by simp [rxTri]⟩
  | ok groups =>
    dsimp only
    rw [matchesAppend_plain env st.ml _ hp hmf]
    cases hd : env.dryrun
    · refine ⟨[_], ?_, by simp [rxTri], by simp [rxTri]; rfl⟩
      intro m hm
      simp only [List.mem_singleton] at hm
      subst hm
      exact ⟨ha, rfl, rfl⟩
    · refine ⟨[{ ty := ty, lno := lno, part := part, subs := matchCopy p v groups, pat := some p,
                 key := some k, val := some v }], ?_, by simp [rxTri], by simp [rxTri]⟩
      intro m hm
      simp only [List.mem_singleton] at hm
      subst hm
      exact ⟨ha, rfl, rfl⟩

/-! ## header -/

def valuesT (env : Env) (p : Pat) : List Bytes → Option Tri
  | [] => none
  | v :: more =>
    match rxTri (env.rx p v) with
    | .nomatch => valuesT env p more
    | t => some t

def keysT (env : Env) (p : Pat) (m : Msg) : List Bytes → Tri
  | [] => .nomatch
  | k :: rest =>
    match getHeader m k with
    | none => keysT env p m rest
    | some vals =>
      match valuesT env p vals with
      | some t => t
      | none => keysT env p m rest

theorem values_cf (env : Env) (lno part : Nat) (p : Pat) (k : Bytes) : ∀ (vs : List Bytes) (st : St),
    (valuesT env p vs = none ∧ eval.keys.values env lno p part k vs st = none) ∨
    (∃ T X, valuesT env p vs = some T ∧ (∀ m ∈ X, Inert m) ∧
      eval.keys.values env lno p part k vs st = some (T, { st with ml := st.ml ++ X })) := by
  intro vs
  induction vs with
  | nil => intro st; left; simp [valuesT, eval.keys.values]
  | cons v more ih =>
    intro st
    obtain ⟨X, hX, hnil, he⟩ := exprRegexec_cf env .header lno part p k v st (by decide) (by decide) (by decide)
    unfold eval.keys.values valuesT
    rw [he]
    cases hT : rxTri (env.rx p v) with
    | «nomatch» =>
      have := hnil hT
      subst this
      simp only [St.ml_append_nil]
      exact ih st
    | error => right; exact ⟨.error, X, rfl, hX, rfl⟩
    | «match» => right; exact ⟨.match, X, rfl, hX, rfl⟩

theorem keys_cf (env : Env) (lno part : Nat) (p : Pat) (m : Msg) : ∀ (ks : List Bytes) (st : St),
    ∃ X, (∀ m ∈ X, Inert m) ∧ eval.keys env lno p part m ks st = (keysT env p m ks, { st with ml := st.ml ++ X }) := by
  intro ks
  induction ks with
  | nil => intro st; exact ⟨[], by simp, by simp [eval.keys, keysT]⟩
  | cons k rest ih =>
    intro st
    unfold eval.keys keysT
    cases hg : getHeader m k with
    | none => exact ih st
    | some vals =>
      dsimp only
      rcases values_cf env lno part p k vals st with ⟨h1, h2⟩ | ⟨T, X, h1, hX, h2⟩
      · rw [h1, h2]; exact ih st
      · rw [h1, h2]; exact ⟨X, hX, rfl⟩

theorem leaf_header (env : Env) (root : Msg) (lno : Nat) (names : List Bytes) (p : Pat) :
    LeafCF env root (.header lno names p) := by
  refine ⟨keysT env p root names, fun st => ?_⟩
  obtain ⟨X, hX, h⟩ := keys_cf env lno 0 p root names st
  exact ⟨X, hX, by rw [eval]; exact h⟩

/-! ## the other matchers -/

theorem leaf_all (env : Env) (root : Msg) (lno : Nat) : LeafCF env root (.all lno) :=
  ⟨.match, fun st => ⟨[], by simp, by simp [eval]⟩⟩

theorem leaf_new (env : Env) (root : Msg) (lno : Nat) : LeafCF env root (.new lno) :=
  ⟨_, fun st => ⟨[], by simp, by rw [eval, St.ml_append_nil]⟩⟩

theorem leaf_body (env : Env) (root : Msg) (lno : Nat) (p : Pat) : LeafCF env root (.body lno p) := by
  cases hb : getBody root with
  | none => exact ⟨.error, fun st => ⟨[], by simp, by simp [eval, hb]⟩⟩
  | some b =>
    refine ⟨rxTri (env.rx p b), fun st => ?_⟩
    obtain ⟨X, hX, _, h⟩ := exprRegexec_cf env .body lno 0 p (ofString "Body") b st (by decide) (by decide) (by decide)
    exact ⟨X, hX, by simp only [eval, hb]; exact h⟩

theorem leaf_date_aux (env : Env) (lno : Nat) (cmp : DateCmp) (age : Nat) (dt : Option (Option (Int × Bytes))) :
    ∃ T : Tri, ∀ st : St, ∃ X : MatchList, (∀ m ∈ X, Inert m) ∧
      (match dt with
        | none => (Tri.error, st)
        | some none => (Tri.nomatch, st)
        | some (some (tim, date)) =>
          if !dateMatches cmp age env.now tim then (Tri.nomatch, st)
          else exprRegexec env .date lno 0 { src := [46, 42] } (ofString "Date") date st)
      = (T, { st with ml := st.ml ++ X }) := by
  rcases dt with _ | _ | ⟨tim, date⟩
  · exact ⟨.error, fun st => ⟨[], by simp, by simp⟩⟩
  · exact ⟨.nomatch, fun st => ⟨[], by simp, by simp⟩⟩
  · by_cases hdm : (!dateMatches cmp age env.now tim) = true
    · exact ⟨.nomatch, fun st => ⟨[], by simp, by simp [hdm]⟩⟩
    · refine ⟨rxTri (env.rx { src := [46, 42] } date), fun st => ?_⟩
      obtain ⟨X, hX, _, h⟩ := exprRegexec_cf env .date lno 0 { src := [46, 42] } (ofString "Date") date st
        (by decide) (by decide) (by decide)
      exact ⟨X, hX, by simp only [hdm]; exact h⟩

theorem leaf_date (env : Env) (root : Msg) (lno : Nat) (fld : DateField) (cmp : DateCmp) (age : Nat) :
    LeafCF env root (.date lno fld cmp age) := by
  cases fld
  all_goals
    simp only [LeafCF, eval]
    exact leaf_date_aux env lno cmp age _

/-! ## stat and command without back-references -/

theorem isBackref_of_ne (c : UInt8) (r : Bytes) (h : c ≠ 92) : isBackref (c :: r) = .inr false := by
  unfold isBackref
  split
  · rename_i heq
    injection heq with h1 _
    exact absurd h1 h
  · rfl

theorem interpolate_go_nobs (b1 b2 : MatchList) : ∀ (fuel : Nat) (s out : Bytes), (∀ c ∈ s, c ≠ 92) →
    interpolate.go b1 none fuel s out = interpolate.go b2 none fuel s out := by
  intro fuel
  induction fuel with
  | zero => intro s out _; simp [interpolate.go]
  | succ n ih =>
    intro s out hs
    cases s with
    | nil => simp [interpolate.go]
    | cons c r =>
      have hc : c ≠ 92 := hs c (by simp)
      have hr : ∀ x ∈ r, x ≠ 92 := fun x hx => hs x (by simp [hx])
      simp only [interpolate.go, isBackref_of_ne c r hc]
      cases isMacro (c :: r) with
      | inl v => rfl
      | inr b =>
        cases b
        · exact ih r _ hr
        · rfl

theorem interpolate_nobs (b : MatchList) (s : Bytes) (h : noBackslash s = true) :
    interpolate b none s = interpolate [] none s := by
  unfold interpolate
  apply interpolate_go_nobs
  intro c hc e
  subst e
  simp [noBackslash] at h
  exact h hc

theorem mapM_interpolate_nobs (b : MatchList) : ∀ (argv : List Bytes), argv.all noBackslash = true →
    argv.mapM (interpolate b none) = argv.mapM (interpolate [] none) := by
  intro argv
  induction argv with
  | nil => intro _; rfl
  | cons a r ih =>
    intro h
    simp only [List.all_cons, Bool.and_eq_true] at h
    simp only [List.mapM_cons]
    rw [interpolate_nobs b a h.1, ih h.2]

def statT (env : Env) (path : Bytes) : Tri :=
  match strlcpyFits PATH_MAX path with
  | none => .error
  | some p =>
    match interpolate [] none p with
    | none => .error
    | some ip =>
      match strlcpyFits PATH_MAX ip with
      | none => .error
      | some ip => if env.isDir ip then .match else .nomatch

def commandT (env : Env) (argv : List Bytes) : Tri :=
  match argv.mapM (interpolate [] none) with
  | none => .error
  | some av =>
    let rc := env.command av
    if rc == 0 then .match else if rc < 0 then .error else .nomatch

theorem leaf_stat (env : Env) (root : Msg) (lno : Nat) (path : Bytes) (h : noBackslash path = true) :
    LeafCF env root (.stat lno path) := by
  refine ⟨statT env path, fun st => ⟨[], by simp, ?_⟩⟩
  rw [eval, matchesAppend_plain env st.ml _ (by dsimp only; decide) (by dsimp only; decide)]
  simp only [List.dropLast_concat, St.ml_append_nil]
  unfold statT strlcpyFits
  by_cases hl : path.length ≥ PATH_MAX
  · simp only [hl, if_true]; rfl
  · simp only [hl, if_false]
    rw [interpolate_nobs st.ml path h]
    rfl

theorem leaf_command (env : Env) (root : Msg) (lno : Nat) (argv : List Bytes) (h : argv.all noBackslash = true) :
    LeafCF env root (.command lno argv) := by
  refine ⟨commandT env argv, fun st => ⟨[], by simp, ?_⟩⟩
  rw [eval, matchesAppend_plain env st.ml _ (by dsimp only; decide) (by dsimp only; decide)]
  simp only [List.dropLast_concat, St.ml_append_nil]
  rw [mapM_interpolate_nobs st.ml argv h]
  rfl

/-! ## conditions -/

theorem valOf_of_leaf {env : Env} {root : Msg} {c : Expr} (f : MFlags) (h : LeafCF env root c) (st : St) :
    ∃ X : MatchList, (∀ m ∈ X, Inert m) ∧
      eval env root c 0 root st = (valOf env root f c, { st with ml := st.ml ++ X }) := by
  obtain ⟨T, hT⟩ := h
  obtain ⟨X0, _, h0⟩ := hT { ml := [], flags := f }
  have : valOf env root f c = T := by unfold valOf; rw [h0]
  rw [this]
  exact hT st

/-- `o` = the tree contains an `old`: then the Seen flag of the state is still the message's. -/
def SeenInv (o : Bool) (f : MFlags) (st : St) : Prop := o = true → flagsIsSet st.flags 83 = flagsIsSet f 83

theorem eval_old (env : Env) (root : Msg) (f : MFlags) (lno : Nat) (st : St)
    (h : flagsIsSet st.flags 83 = flagsIsSet f 83) :
    eval env root (.old lno) 0 root st = (valOf env root f (.old lno), st) := by
  simp only [valOf, eval, beq_self_eq_true, if_true, h]
  split <;> rfl

/-- Conditions of the domain evaluate to `condVal` of the stand-alone valuation and append only
inert entries. -/
theorem cond_eval (env : Env) (root : Msg) (f : MFlags) (o : Bool) : ∀ (c : Expr), isCond c = true → wfTree c = true →
    (hasOld c = true → o = true) → ∀ st : St, SeenInv o f st → ∃ X : MatchList, (∀ m ∈ X, Inert m) ∧
      eval env root c 0 root st = (condVal (valOf env root f) c, { st with ml := st.ml ++ X }) := by
  intro c
  induction c with
  | and lno l r ihl ihr =>
    intro hc hw ho st hs
    simp only [isCond, wfTree, hasOld, Bool.and_eq_true, Bool.or_eq_true] at hc hw ho
    obtain ⟨X1, hX1, h1⟩ := ihl hc.1 hw.1 (fun x => ho (Or.inl x)) st hs
    simp only [eval, condVal, h1]
    cases hT : condVal (valOf env root f) l with
    | «match» =>
      obtain ⟨X2, hX2, h2⟩ := ihr hc.2 hw.2 (fun x => ho (Or.inr x)) { st with ml := st.ml ++ X1 } hs
      refine ⟨X1 ++ X2, ?_, ?_⟩
      · intro m hm
        rcases List.mem_append.1 hm with h | h
        · exact hX1 m h
        · exact hX2 m h
      · simp only [h2, List.append_assoc]
    | «nomatch» => exact ⟨X1, hX1, rfl⟩
    | error => exact ⟨X1, hX1, rfl⟩
  | or lno l r ihl ihr =>
    intro hc hw ho st hs
    simp only [isCond, wfTree, hasOld, Bool.and_eq_true, Bool.or_eq_true] at hc hw ho
    obtain ⟨X1, hX1, h1⟩ := ihl hc.1 hw.1 (fun x => ho (Or.inl x)) st hs
    simp only [eval, condVal, h1]
    cases hT : condVal (valOf env root f) l with
    | «nomatch» =>
      obtain ⟨X2, hX2, h2⟩ := ihr hc.2 hw.2 (fun x => ho (Or.inr x)) { st with ml := st.ml ++ X1 } hs
      refine ⟨X1 ++ X2, ?_, ?_⟩
      · intro m hm
        rcases List.mem_append.1 hm with h | h
        · exact hX1 m h
        · exact hX2 m h
      · simp only [h2, List.append_assoc]
    | «match» => exact ⟨X1, hX1, rfl⟩
    | error => exact ⟨X1, hX1, rfl⟩
  | neg lno e ih =>
    intro hc hw ho st hs
    simp only [isCond, wfTree, hasOld] at hc hw ho
    obtain ⟨X1, hX1, h1⟩ := ih hc hw ho st hs
    simp only [eval, condVal, h1]
    cases hT : condVal (valOf env root f) e with
    | «nomatch» => exact ⟨X1, hX1, rfl⟩
    | error => exact ⟨X1, hX1, rfl⟩
    | «match» =>
      refine ⟨[], by simp, ?_⟩
      simp
  | all lno => intro _ _ _ st _; simpa [condVal] using valOf_of_leaf f (leaf_all env root lno) st
  | new lno => intro _ _ _ st _; simpa [condVal] using valOf_of_leaf f (leaf_new env root lno) st
  | body lno p => intro _ _ _ st _; simpa [condVal] using valOf_of_leaf f (leaf_body env root lno p) st
  | date lno fld cmp age =>
    intro _ _ _ st _; simpa [condVal] using valOf_of_leaf f (leaf_date env root lno fld cmp age) st
  | header lno names p =>
    intro _ _ _ st _; simpa [condVal] using valOf_of_leaf f (leaf_header env root lno names p) st
  | stat lno path =>
    intro _ hw _ st _
    simp only [wfTree] at hw
    simpa [condVal] using valOf_of_leaf f (leaf_stat env root lno path hw) st
  | command lno argv =>
    intro _ hw _ st _
    simp only [wfTree] at hw
    simpa [condVal] using valOf_of_leaf f (leaf_command env root lno argv hw) st
  | old lno =>
    intro _ _ ho st hs
    refine ⟨[], by simp, ?_⟩
    rw [eval_old env root f lno st (hs (ho rfl)), St.ml_append_nil]
    simp [condVal]
  | attachment lno e _ => intro _ hw; simp [wfTree] at hw
  | _ => intro hc; simp [isCond] at hc

end Mdsort.Proofs
