import Mdsort.Proofs.L0Message
import Mdsort.Proofs.HeaderParse

/-!
# L0 `unfoldheader` refines the list model

`unfoldHeader_ok` (L0Message) says that no write leaves the copy; here the contents are tracked as well: the C string
left in the copy is `Model.unfoldHeader` of the view of the source.
-/

namespace Mdsort.L0
open Mdsort Mdsort.L0.Buf

theorem drop_length_takeWhile {α} (p : α → Bool) (l : List α) : l.drop (l.takeWhile p).length = l.dropWhile p := by
  induction l with
  | nil => rfl
  | cons x r ih =>
    by_cases hx : p x = true
    · simp [List.takeWhile_cons, List.dropWhile_cons, hx, ih]
    · simp [List.takeWhile_cons, List.dropWhile_cons, hx]

theorem take_length_takeWhile {α} (p : α → Bool) (l : List α) : l.take (l.takeWhile p).length = l.takeWhile p := by
  induction l with
  | nil => rfl
  | cons x r ih =>
    by_cases hx : p x = true
    · simp [List.takeWhile_cons, hx, ih]
    · simp [List.takeWhile_cons, hx]

theorem length_takeWhile_le {α} (p : α → Bool) (l : List α) : (l.takeWhile p).length ≤ l.length :=
  (List.takeWhile_prefix p).length_le

theorem length_split {α} (p : α → Bool) (l : List α) : (l.takeWhile p).length + (l.dropWhile p).length = l.length := by
  have := congrArg List.length (List.takeWhile_append_dropWhile (p := p) (l := l))
  rw [List.length_append] at this
  exact this

theorem dropWhile_ne10_head {l : Bytes} {x : UInt8} {r : Bytes} (h : l.dropWhile (· != 10) = x :: r) : x = 10 := by
  induction l with
  | nil => simp at h
  | cons y t ih =>
    by_cases hy : y = 10
    · simp [List.dropWhile_cons, hy] at h
      exact h.1.symm
    · simp [List.dropWhile_cons, hy] at h
      exact ih h

/-- `for (; *str == '\t'; str++)` on the view. -/
theorem skipTabs_spec {b : Buf} {i : Nat} (h : b.HasNul i) :
    skipTabs b i = .ok (i + ((b.view i).takeWhile (· == 9)).length) := by
  generalize hm : b.size - i = m
  induction m using Nat.strongRecOn generalizing i with
  | _ m ih =>
    have := h.lt
    rcases h.cases with ⟨hg, hv⟩ | ⟨c, hc, hg, hv, hn'⟩
    · rw [skipTabs_eq hg, hv]
      have : ((0 : UInt8) == 9) = false := by decide
      simp [this]
    · rw [skipTabs_eq hg, hv]
      by_cases h9 : (c == 9) = true
      · rw [if_pos h9, ih _ (by omega) hn' rfl]
        simp [List.takeWhile_cons, h9]; omega
      · rw [if_neg h9]
        simp [List.takeWhile_cons, h9]

/-- `end = strchr(str, '\n')`, or the terminator: the end of the first line of the view. -/
theorem lineEnd_spec {s : Buf} {i : Nat} (h : s.HasNul i) :
    lineEnd s i = .ok (i + ((s.view i).takeWhile (· != 10)).length) := by
  unfold lineEnd
  obtain ⟨hnone, hsome⟩ := strchr_spec h 10 (by decide)
  have hsplit := length_split (· != 10) (s.view i)
  cases hq : Mdsort.strchr (s.view i) 10 with
  | none =>
    rw [hnone hq]
    simp only
    rw [strend_spec h]
    rw [Proofs.strchr_nl] at hq
    split at hq
    · rename_i hd
      rw [hd] at hsplit
      simp at hsplit
      rw [hsplit]
    · cases hq
  | some q =>
    obtain ⟨e, he, hie, hne, hve, hge⟩ := hsome q hq
    have hlen := strchr_len h 10 (by decide) e he
    rw [Proofs.strchr_nl] at hq
    split at hq
    · cases hq
    · rename_i x r hd
      cases hq
      rw [hd] at hsplit
      rw [hve] at hlen
      simp only [List.length_cons] at hsplit hlen
      have hee : e = i + ((s.view i).takeWhile (· != 10)).length := by omega
      rw [he, hee]

theorem copyRange_slice (s : Buf) (e : Nat) (he : e ≤ s.size) :
    ∀ (n str : Nat) (dec : Buf) (i : Nat), e - str = n → str ≤ e → i + (e - str) ≤ dec.size →
      ∃ dec', copyRange s str e dec i = .ok (dec', i + (e - str)) ∧ dec'.size = dec.size ∧
        dec'.slice 0 (i + (e - str)) = dec.slice 0 i ++ s.slice str e := by
  intro n
  induction n with
  | zero =>
    intro str dec i hn hse _
    refine ⟨dec, ?_, rfl, ?_⟩
    · rw [copyRange, if_neg (by omega), hn]; rfl
    · have : str = e := by omega
      subst this
      simp [slice_self]
  | succ n ih =>
    intro str dec i hn hse hi
    rw [copyRange, if_pos (by omega)]
    obtain ⟨c, hg⟩ : ∃ c, s.get? str = .ok c := ⟨_, get?_of_lt (show str < s.size by omega)⟩
    rw [hg]
    simp only
    have hset := set_ok (b := dec) c (show i < dec.size by omega)
    rw [hset]
    simp only
    obtain ⟨d', hd, hsz, hsl⟩ := ih (str + 1) ⟨dec.bytes.setIfInBounds i c⟩ (i + 1) (by omega) (by omega)
      (by rw [size_of_set hset]; omega)
    have e1 : i + 1 + (e - (str + 1)) = i + (e - str) := by omega
    refine ⟨d', by rw [hd, e1], by rw [hsz, size_of_set hset], ?_⟩
    rw [← e1, hsl, slice_cons hg (by omega)]
    have hgi : (⟨dec.bytes.setIfInBounds i c⟩ : Buf).get? i = .ok c := by rw [get?_set hset]; simp
    rw [slice_snoc hgi, slice_of_set hset (Nat.le_refl _)]
    simp

/-- What the loop of `unfoldheader` leaves in the copy. -/
theorem unfoldLoop_refines (s : Buf) {str : Nat} (h : s.HasNul str) (dec : Buf) (k : Nat)
    (hk : k + (s.view str).length < dec.size) :
    ∃ dec' k', unfoldLoop s str dec k = .ok (dec', k') ∧ dec'.size = dec.size ∧ k' < dec.size ∧
      dec'.slice 0 k' = dec.slice 0 k ++ Model.unfoldLoop (s.view str) := by
  generalize hm : s.size - str = m
  induction m using Nat.strongRecOn generalizing str dec k with
  | _ m ih =>
    have := h.lt
    rcases h.cases with ⟨hg, hv⟩ | ⟨c, hc, hg, hv, hn'⟩
    · rw [unfoldLoop_eq dec k hg, hv]
      refine ⟨dec, k, by simp, rfl, by omega, ?_⟩
      rw [Model.unfoldLoop]; simp
    · rw [unfoldLoop_eq dec k hg]
      simp only [beq_iff_eq, hc, if_false]
      -- tabs
      rw [skipTabs_spec h]
      simp only
      have ht := length_takeWhile_le (· == 9) (s.view str)
      obtain ⟨hn1, hv1⟩ := h.add _ ht
      rw [drop_length_takeWhile] at hv1
      have hstr1 : str ≤ str + ((s.view str).takeWhile (· == 9)).length := Nat.le_add_right _ _
      generalize str + ((s.view str).takeWhile (· == 9)).length = str1 at hn1 hv1 hstr1 ⊢
      -- end of line
      rw [lineEnd_spec hn1]
      simp only
      have hl := length_takeWhile_le (· != 10) (s.view str1)
      obtain ⟨hn2, hv2⟩ := hn1.add _ hl
      rw [drop_length_takeWhile] at hv2
      have hsl := hn1.slice_view _ hl
      rw [take_length_takeWhile] at hsl
      have hsplit1 := length_split (· == 9) (s.view str)
      have hsplit2 := length_split (· != 10) (s.view str1)
      rw [← hv1] at hsplit1
      generalize hlen : ((s.view str1).takeWhile (· != 10)).length = n at *
      -- copy
      obtain ⟨dec', hcp, hsz, hcs⟩ := copyRange_slice s (str1 + n) (Nat.le_of_lt hn2.lt) (str1 + n - str1) str1 dec k rfl
        (by omega) (by omega)
      have e1 : str1 + n - str1 = n := by omega
      rw [e1] at hcp hcs
      rw [hcp]
      simp only
      rw [hsl] at hcs
      -- the L1 side
      have hL1 : Model.unfoldLoop (s.view str) =
          match (s.view str1).dropWhile (· != 10) with
          | [] => (s.view str1).takeWhile (· != 10)
          | _ :: rest' => (s.view str1).takeWhile (· != 10) ++ Model.unfoldLoop rest' := by
        rw [hv, Model.unfoldLoop.eq_def]
        simp only
        rw [← hv, ← hv1]
        split <;> simp_all
      rcases hn2.cases with ⟨hg2, hve⟩ | ⟨c2, hc2, hg2, hve, hn3⟩
      · rw [hg2]
        have : ((0 : UInt8) == 10) = false := by decide
        simp only [this, Bool.false_eq_true, if_false, beq_self_eq_true, if_true]
        refine ⟨dec', _, rfl, hsz, by omega, ?_⟩
        rw [hcs, hL1, ← hv2, hve]
      · rw [hg2]
        have h10 : c2 = 10 := by
          have hhead : (s.view str1).dropWhile (· != 10) = c2 :: s.view (str1 + n + 1) := by rw [← hv2, hve]
          exact dropWhile_ne10_head hhead
        subst h10
        simp only [beq_self_eq_true, if_true]
        have hl3 : (s.view (str1 + n)).length = (s.view (str1 + n + 1)).length + 1 := by rw [hve]; simp
        rw [← hv2] at hsplit2
        obtain ⟨d2, k2, hr, hsz2, hk2, hs2⟩ := ih (s.size - (str1 + n + 1)) (by omega) hn3 dec' (k + n)
          (by rw [hsz]; omega) rfl
        refine ⟨d2, k2, hr, by rw [hsz2, hsz], by rw [← hsz]; exact hk2, ?_⟩
        rw [hs2, hcs, hL1, ← hv2, hve]
        simp

theorem unfoldLoop_mem (l : Bytes) : ∀ x ∈ Model.unfoldLoop l, x ∈ l := by
  generalize hn : l.length = n
  induction n using Nat.strongRecOn generalizing l with
  | _ n ih =>
    intro x hx
    rw [Model.unfoldLoop.eq_def] at hx
    split at hx
    · simp at hx
    · rename_i c r
      simp only at hx
      have hsub1 : ∀ y ∈ (c :: r).dropWhile (· == 9), y ∈ c :: r :=
        fun y hy => (List.dropWhile_sublist _).subset hy
      split at hx
      · exact hsub1 x ((List.takeWhile_sublist _).subset hx)
      · rename_i y rest' heq
        rcases List.mem_append.mp hx with hx | hx
        · exact hsub1 x ((List.takeWhile_sublist _).subset hx)
        · have hrest : ∀ z ∈ rest', z ∈ c :: r := by
            intro z hz
            apply hsub1
            have : z ∈ ((c :: r).dropWhile (· == 9)).dropWhile (· != 10) := by rw [heq]; simp [hz]
            exact (List.dropWhile_sublist _).subset this
          have hlen : rest'.length < n := by
            have h1 := (List.dropWhile_sublist (· != 10) (l := (c :: r).dropWhile (· == 9))).length_le
            have h2 := (List.dropWhile_sublist (· == 9) (l := c :: r)).length_le
            rw [heq] at h1
            simp only [List.length_cons] at h1 h2 hn
            omega
          exact hrest x (ih _ hlen rest' rfl x hx)

theorem strchr_contains (l : Bytes) : (Mdsort.strchr l 10).isSome = l.contains 10 := by
  induction l with
  | nil => rfl
  | cons x r ih =>
    rw [Mdsort.strchr]
    by_cases hx : x = 10
    · simp [hx]
    · have h1 : (x == 10) = false := by simpa using hx
      simp only [h1, Bool.false_eq_true, if_false, ih, List.contains_cons]
      have h2 : ((10 : UInt8) == x) = false := by simpa using fun e => hx e.symm
      simp [h2]

/-- `unfoldheader`: the C string it returns is the list model's unfolding of the view of its argument. -/
theorem unfoldHeader_refines (s : Buf) {i : Nat} (h : s.HasNul i) :
    ∃ d, unfoldHeader s i = .ok d ∧ d.HasNul 0 ∧ d.view 0 = Model.unfoldHeader (s.view i) := by
  unfold unfoldHeader Model.unfoldHeader
  rw [strdup_spec h]
  simp only
  obtain ⟨hnone, hsome⟩ := strchr_spec h 10 (by decide)
  have hcont := strchr_contains (s.view i)
  cases hq : Mdsort.strchr (s.view i) 10 with
  | none =>
    rw [hnone hq]
    rw [hq] at hcont
    simp only [Option.isSome_none] at hcont
    simp only [← hcont, Bool.false_eq_true, if_false]
    exact ⟨_, rfl, (ofBytes_terminated _).hasNul0, view_ofBytes_of_no_nul (view_no_nul s i)⟩
  | some q =>
    obtain ⟨e, he, _⟩ := hsome q hq
    rw [he]
    rw [hq] at hcont
    simp only [Option.isSome_some] at hcont
    simp only [← hcont, if_true]
    obtain ⟨d, k, hl, hsz, hk, hsl⟩ := unfoldLoop_refines s h (ofBytes (s.view i)) 0 (by rw [size_ofBytes]; omega)
    rw [hl]
    simp only
    have hset := set_ok (b := d) 0 (show k < d.size by omega)
    rw [hset]
    have hgk : (⟨d.bytes.setIfInBounds k 0⟩ : Buf).get? k = .ok 0 := by rw [get?_set hset]; simp
    refine ⟨_, rfl, ⟨k, Nat.zero_le _, hgk⟩, ?_⟩
    rw [view_of_nul_at hgk, slice_of_set hset (Nat.le_refl _), hsl, slice_self, List.nil_append]
    exact cstr_of_no_nul (fun x hx => view_no_nul s i x (unfoldLoop_mem _ x hx))

end Mdsort.L0
