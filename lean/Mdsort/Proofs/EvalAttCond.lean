import Mdsort.Proofs.EvalCond
import Mdsort.Proofs.EvalAttDom
import Mdsort.Proofs.AttachmentCond

/-!
# Conditions with `attachment c` are context-free inside the domain (C03 with attachments)

`EvalCond.lean` for a condition evaluated on an arbitrary part: the value is `condValA` of the
stand-alone valuation of the matchers on (part index, message), whatever the match list is, and
evaluation only appends entries that are not actions.
-/

namespace Mdsort.Proofs
open Mdsort Mdsort.Model Mdsort.Spec

/-- The context the specification is instantiated with: the parts are those of
`message_get_attachments`, a matcher is evaluated on its own. -/
def att_ctx (env : Env) (root : Msg) (f : MFlags) : PartCtx Msg :=
  { parts := getAttachments
    v := fun k m a => (eval env root a k m { ml := [], flags := f }).1 }

/-- The result of a matcher on part `(k, m)` does not depend on the state; only inert entries. -/
def att_LeafCF (env : Env) (root : Msg) (c : Expr) (k : Nat) (m : Msg) : Prop :=
  ∃ T : Tri, ∀ st : St, ∃ X : MatchList, (∀ x ∈ X, Inert x) ∧
    eval env root c k m st = (T, { st with ml := st.ml ++ X })

theorem att_leaf_header (env : Env) (root : Msg) (lno : Nat) (names : List Bytes) (p : Pat) (k : Nat) (m : Msg) :
    att_LeafCF env root (.header lno names p) k m := by
  refine ⟨keysT env p m names, fun st => ?_⟩
  obtain ⟨X, hX, h⟩ := keys_cf env lno k p m names st
  exact ⟨X, hX, by rw [eval]; exact h⟩

theorem att_leaf_all (env : Env) (root : Msg) (lno : Nat) (k : Nat) (m : Msg) : att_LeafCF env root (.all lno) k m :=
  ⟨.match, fun st => ⟨[], by simp, by simp [eval]⟩⟩

theorem att_leaf_new (env : Env) (root : Msg) (lno : Nat) (k : Nat) (m : Msg) : att_LeafCF env root (.new lno) k m :=
  ⟨_, fun st => ⟨[], by simp, by rw [eval, St.ml_append_nil]⟩⟩

theorem att_leaf_body (env : Env) (root : Msg) (lno : Nat) (p : Pat) (k : Nat) (m : Msg) :
    att_LeafCF env root (.body lno p) k m := by
  cases hb : getBody m with
  | none => exact ⟨.error, fun st => ⟨[], by simp, by simp [eval, hb]⟩⟩
  | some b =>
    refine ⟨rxTri (env.rx p b), fun st => ?_⟩
    obtain ⟨X, hX, _, h⟩ := exprRegexec_cf env .body lno k p (ofString "Body") b st (by decide) (by decide) (by decide)
    exact ⟨X, hX, by simp only [eval, hb]; exact h⟩

theorem att_leaf_date_aux (env : Env) (lno k : Nat) (cmp : DateCmp) (age : Nat) (dt : Option (Option (Int × Bytes))) :
    ∃ T : Tri, ∀ st : St, ∃ X : MatchList, (∀ m ∈ X, Inert m) ∧
      (match dt with
        | none => (Tri.error, st)
        | some none => (Tri.nomatch, st)
        | some (some (tim, date)) =>
          if !dateMatches cmp age env.now tim then (Tri.nomatch, st)
          else exprRegexec env .date lno k { src := [46, 42] } (ofString "Date") date st)
      = (T, { st with ml := st.ml ++ X }) := by
  rcases dt with _ | _ | ⟨tim, date⟩
  · exact ⟨.error, fun st => ⟨[], by simp, by simp⟩⟩
  · exact ⟨.nomatch, fun st => ⟨[], by simp, by simp⟩⟩
  · by_cases hdm : (!dateMatches cmp age env.now tim) = true
    · exact ⟨.nomatch, fun st => ⟨[], by simp, by simp [hdm]⟩⟩
    · refine ⟨rxTri (env.rx { src := [46, 42] } date), fun st => ?_⟩
      obtain ⟨X, hX, _, h⟩ := exprRegexec_cf env .date lno k { src := [46, 42] } (ofString "Date") date st
        (by decide) (by decide) (by decide)
      exact ⟨X, hX, by simp only [hdm]; exact h⟩

theorem att_leaf_date (env : Env) (root : Msg) (lno : Nat) (fld : DateField) (cmp : DateCmp) (age : Nat)
    (k : Nat) (m : Msg) : att_LeafCF env root (.date lno fld cmp age) k m := by
  cases fld
  all_goals
    simp only [att_LeafCF, eval]
    exact att_leaf_date_aux env lno k cmp age _

theorem att_leaf_stat (env : Env) (root : Msg) (lno : Nat) (path : Bytes) (h : noBackslash path = true)
    (k : Nat) (m : Msg) : att_LeafCF env root (.stat lno path) k m := by
  refine ⟨statT env path, fun st => ⟨[], by simp, ?_⟩⟩
  rw [eval, matchesAppend_plain env st.ml _ (by dsimp only; decide) (by dsimp only; decide)]
  simp only [List.dropLast_concat, St.ml_append_nil]
  unfold statT strlcpyFits
  by_cases hl : path.length ≥ PATH_MAX
  · simp only [hl, if_true]; rfl
  · simp only [hl, if_false]
    rw [interpolate_nobs st.ml path h]
    rfl

theorem att_leaf_command (env : Env) (root : Msg) (lno : Nat) (argv : List Bytes) (h : argv.all noBackslash = true)
    (k : Nat) (m : Msg) : att_LeafCF env root (.command lno argv) k m := by
  refine ⟨commandT env argv, fun st => ⟨[], by simp, ?_⟩⟩
  rw [eval, matchesAppend_plain env st.ml _ (by dsimp only; decide) (by dsimp only; decide)]
  simp only [List.dropLast_concat, St.ml_append_nil]
  rw [mapM_interpolate_nobs st.ml argv h]
  rfl

theorem att_v_of_leaf {env : Env} {root : Msg} {c : Expr} {k : Nat} {m : Msg} (f : MFlags)
    (h : att_LeafCF env root c k m) (st : St) :
    ∃ X : MatchList, (∀ x ∈ X, Inert x) ∧
      eval env root c k m st = ((att_ctx env root f).v k m c, { st with ml := st.ml ++ X }) := by
  obtain ⟨T, hT⟩ := h
  obtain ⟨X0, _, h0⟩ := hT { ml := [], flags := f }
  have : (att_ctx env root f).v k m c = T := by
    show (eval env root c k m { ml := [], flags := f }).1 = T
    rw [h0]
  rw [this]
  exact hT st

/-- `old` on the message itself reads the Seen flag of the state; on a part it does not. -/
theorem att_eval_old (env : Env) (root : Msg) (f : MFlags) (lno k : Nat) (m : Msg) (st : St)
    (h : k = 0 → flagsIsSet st.flags 83 = flagsIsSet f 83) :
    eval env root (.old lno) k m st = ((att_ctx env root f).v k m (.old lno), st) := by
  show _ = ((eval env root (.old lno) k m { ml := [], flags := f }).1, st)
  by_cases hk : k = 0
  · subst hk
    simp only [eval, beq_self_eq_true, if_true, h rfl]
    split <;> rfl
  · have : (k == 0) = false := by simpa using hk
    simp only [eval, this, Bool.false_eq_true, if_false]
    split <;> rfl

/-- The loop of `expr_eval_attachment` over parts on which the condition is context-free. -/
theorem att_loop_cf (env : Env) (root : Msg) (c : Expr) (k : Nat) (F : Nat → Msg → Tri)
    (ih : ∀ (i : Nat) (q : Msg) (st : St), ∃ X : MatchList, (∀ x ∈ X, Inert x) ∧
      eval env root c (partIndex k i) q st = (F i q, { st with ml := st.ml ++ X })) :
    ∀ (ps : List Msg) (i : Nat) (st : St), ∃ X : MatchList, (∀ x ∈ X, Inert x) ∧
      eval.loop env root c k ps i st = (anyPart F i ps, { st with ml := st.ml ++ X }) := by
  intro ps
  induction ps with
  | nil => intro i st; exact ⟨[], by simp, by simp [eval.loop, anyPart]⟩
  | cons q qs ihp =>
    intro i st
    obtain ⟨X1, hX1, h1⟩ := ih i q st
    simp only [eval.loop, partIndex_beq, h1, anyPart]
    cases hT : F i q with
    | «nomatch» =>
      obtain ⟨X2, hX2, h2⟩ := ihp (i + 1) { st with ml := st.ml ++ X1 }
      refine ⟨X1 ++ X2, ?_, ?_⟩
      · intro x hx
        rcases List.mem_append.1 hx with h | h
        · exact hX1 x h
        · exact hX2 x h
      · simp only [h2, List.append_assoc]
    | «match» => exact ⟨X1, hX1, rfl⟩
    | error => exact ⟨X1, hX1, rfl⟩

/-- Conditions of the domain, on any part, evaluate to `condValA` of the stand-alone valuation and
append only inert entries. -/
theorem att_cond_eval (env : Env) (root : Msg) (f : MFlags) : ∀ (c : Expr), isCond c = true → att_wfG c = true →
    ∀ (k : Nat) (m : Msg) (st : St), (k = 0 → hasOld c = true → flagsIsSet st.flags 83 = flagsIsSet f 83) →
    ∃ X : MatchList, (∀ x ∈ X, Inert x) ∧
      eval env root c k m st = (condValA (att_ctx env root f) c k m, { st with ml := st.ml ++ X }) := by
  intro c
  induction c with
  | and lno l r ihl ihr =>
    intro hc hw k m st hs
    simp only [isCond, att_wfG, hasOld, Bool.and_eq_true, Bool.or_eq_true] at hc hw hs
    obtain ⟨X1, hX1, h1⟩ := ihl hc.1 hw.1 k m st (fun z x => hs z (Or.inl x))
    simp only [eval, condValA, h1]
    cases hT : condValA (att_ctx env root f) l k m with
    | «match» =>
      obtain ⟨X2, hX2, h2⟩ := ihr hc.2 hw.2 k m { st with ml := st.ml ++ X1 } (fun z x => hs z (Or.inr x))
      refine ⟨X1 ++ X2, ?_, ?_⟩
      · intro x hx
        rcases List.mem_append.1 hx with h | h
        · exact hX1 x h
        · exact hX2 x h
      · simp only [h2, List.append_assoc]
    | «nomatch» => exact ⟨X1, hX1, rfl⟩
    | error => exact ⟨X1, hX1, rfl⟩
  | or lno l r ihl ihr =>
    intro hc hw k m st hs
    simp only [isCond, att_wfG, hasOld, Bool.and_eq_true, Bool.or_eq_true] at hc hw hs
    obtain ⟨X1, hX1, h1⟩ := ihl hc.1 hw.1 k m st (fun z x => hs z (Or.inl x))
    simp only [eval, condValA, h1]
    cases hT : condValA (att_ctx env root f) l k m with
    | «nomatch» =>
      obtain ⟨X2, hX2, h2⟩ := ihr hc.2 hw.2 k m { st with ml := st.ml ++ X1 } (fun z x => hs z (Or.inr x))
      refine ⟨X1 ++ X2, ?_, ?_⟩
      · intro x hx
        rcases List.mem_append.1 hx with h | h
        · exact hX1 x h
        · exact hX2 x h
      · simp only [h2, List.append_assoc]
    | «match» => exact ⟨X1, hX1, rfl⟩
    | error => exact ⟨X1, hX1, rfl⟩
  | neg lno e ih =>
    intro hc hw k m st hs
    simp only [isCond, att_wfG, hasOld] at hc hw hs
    obtain ⟨X1, hX1, h1⟩ := ih hc hw k m st hs
    simp only [eval, condValA, h1]
    cases hT : condValA (att_ctx env root f) e k m with
    | «nomatch» => exact ⟨X1, hX1, rfl⟩
    | error => exact ⟨X1, hX1, rfl⟩
    | «match» =>
      refine ⟨[], by simp, ?_⟩
      simp
  | attachment lno e ih =>
    intro hc hw k m st _
    simp only [isCond, att_wfG] at hc hw
    have hparts : (att_ctx env root f).parts m = getAttachments m := rfl
    simp only [eval, condValA, hparts]
    cases getAttachments m with
    | none => exact ⟨[], by simp, by simp⟩
    | some ps =>
      exact att_loop_cf env root e k _
        (fun i q st' => ih hc hw (partIndex k i) q st' (fun z => absurd z (partIndex_ne_zero k i))) ps 0 st
  | all lno => intro _ _ k m st _; simpa [condValA] using att_v_of_leaf f (att_leaf_all env root lno k m) st
  | new lno => intro _ _ k m st _; simpa [condValA] using att_v_of_leaf f (att_leaf_new env root lno k m) st
  | body lno p => intro _ _ k m st _; simpa [condValA] using att_v_of_leaf f (att_leaf_body env root lno p k m) st
  | date lno fld cmp age =>
    intro _ _ k m st _; simpa [condValA] using att_v_of_leaf f (att_leaf_date env root lno fld cmp age k m) st
  | header lno names p =>
    intro _ _ k m st _; simpa [condValA] using att_v_of_leaf f (att_leaf_header env root lno names p k m) st
  | stat lno path =>
    intro _ hw k m st _
    simp only [att_wfG] at hw
    simpa [condValA] using att_v_of_leaf f (att_leaf_stat env root lno path hw k m) st
  | command lno argv =>
    intro _ hw k m st _
    simp only [att_wfG] at hw
    simpa [condValA] using att_v_of_leaf f (att_leaf_command env root lno argv hw k m) st
  | old lno =>
    intro _ _ k m st hs
    refine ⟨[], by simp, ?_⟩
    rw [att_eval_old env root f lno k m st (fun z => hs z rfl), St.ml_append_nil]
    simp [condValA]
  | _ => intro hc; simp [isCond] at hc

end Mdsort.Proofs
