import Mdsort.Proofs.WorldWrite

/-! `maildir_move`: the message survives every step (rename, or copy + unlink across devices). -/

namespace Mdsort.Proofs.World
open Mdsort Mdsort.Model

theorem renameat_results (f : Option Fault) (w : World) (d1 : Handle) (n1 : Bytes) (d2 : Handle) (n2 : Bytes) :
    (∃ e, faultResult f w (.renameat d1 n1 d2 n2) = .err e) ∨
    (faultResult f w (.renameat d1 n1 d2 n2) = .ok 0 ∧
      ∃ p1 p2 fid, w.dirPath d1 = some p1 ∧ w.dirPath d2 = some p2 ∧ w.lookup p1 n1 = some fid) := by
  rcases faultResult_cases f w (.renameat d1 n1 d2 n2) (by intro _ h; cases h) (by intro _ _ h; cases h) with h | h
  · rw [h]
    simp only [predict]
    split
    · rename_i p1 p2 hp1 hp2
      split
      · exact .inl ⟨_, rfl⟩
      · split
        · rename_i hl
          obtain ⟨fid, hfid⟩ := Option.isSome_iff_exists.1 hl
          exact .inr ⟨rfl, p1, p2, fid, hp1, hp2, hfid⟩
        · exact .inl ⟨_, rfl⟩
    · exact .inl ⟨_, rfl⟩
  · exact .inl h

theorem core_renameat_ok {w : World} {d1 d2 : Handle} {n1 n2 p1 p2 : Bytes} {fid : Nat}
    (hp1 : w.dirPath d1 = some p1) (hp2 : w.dirPath d2 = some p2) (hl : w.lookup p1 n1 = some fid) (v : Nat) :
    core w (.renameat d1 n1 d2 n2) (.ok v) = (w.unbind p1 n1).bind p2 n2 fid := by
  simp [core, applyOk, hp1, hp2, hl]

/-- Handle `dh` is an open directory stream on an existing directory. -/
def DirH (w : World) (dh : Handle) : Prop := ∃ p, w.dirPath dh = some p ∧ (w.dir p).isSome

theorem DirH.step {w : World} {dh : Handle} (h : DirH w dh) (c : Call) (r : Res)
    (hs : Call.subject c ≠ some dh) (hc : ∀ q, c ≠ .rmdir q) : DirH (stepWorld w c r) dh := by
  obtain ⟨p, hp, hd⟩ := h
  refine ⟨p, ?_, ?_⟩
  · rw [← hp, stepWorld_dirPath]
    exact dirPath_congr (core_obj w c r dh (lt_of_dirPath hp) hs)
  · rw [stepWorld_dir]; exact core_dir_isSome w c r p hd hc

/-- After a successful rename the tracked entry has moved or is untouched. -/
theorem good_renameat_ok {cs : List Bytes} {w : World} {p0 n0 : Bytes} {fid0 : Nat} (hg : GoodAt w cs p0 n0 fid0)
    {d1 d2 : Handle} {n1 n2 p1 p2 : Bytes} {fid : Nat}
    (hp1 : w.dirPath d1 = some p1) (hp2 : w.dirPath d2 = some p2) (hl : w.lookup p1 n1 = some fid)
    (hd2 : (w.dir p2).isSome) (hneq : ¬(p2 = p0 ∧ n2 = n0)) (v : Nat) :
    Good (stepWorld w (.renameat d1 n1 d2 n2) (.ok v)) cs := by
  by_cases hA : p1 = p0 ∧ n1 = n0
  · obtain ⟨rfl, rfl⟩ := hA
    have hfid : fid = fid0 := by rw [hg.1] at hl; cases hl; rfl
    subst hfid
    have hc := core_renameat_ok (n2 := n2) hp1 hp2 hl v
    obtain ⟨_, hlt, f, hf, h1, h2⟩ := hg
    refine ⟨p2, n2, fid, ?_, ?_, f, ?_, h1, h2⟩
    · rw [stepWorld_lookup, hc, lookup_bind _ _ _ _ _ _ (by rw [dir_unbind_isSome]; exact hd2)]
      simp
    · rw [stepWorld_nextFid, hc]; simpa using hlt
    · rw [stepWorld_file, hc]; simpa using hf
  · refine (hg.step (.renameat d1 n1 d2 n2) (.ok v) ?_ trivial).good
    simp only [dirSafe, hp1, hp2, Option.some.injEq]
    exact ⟨hA, hneq⟩

theorem All.mono {α} {R P : α → Prop} {p : Prog α} (hp : All R p) (h : ∀ a, R a → P a) : All P p := by
  induction p with
  | ret a => exact h a hp
  | call c k ih => intro r; exact ih r (hp r)

theorem spec_maildirMove {cs : List Bytes} (env : PEnv) (src dst : Maildir) (ms : MsgSt) {w : World}
    (hgood : Good w cs) (hm : (messageWrite ms.msg).1 ∈ cs) (hdst : ∀ dh, dst.dirH = some dh → DirH w dh) :
    wp (fun w' => Good w' cs) (maildirMove env src dst ms) (fun r w' => Good w' cs ∧ r.1.msg = ms.msg) w := by
  obtain ⟨p0, n0, fid0, hg⟩ := hgood
  unfold maildirMove gennameStart
  simp only [bind_eq, pure_eq, call_bind]
  split
  · exact ⟨hg.good, rfl⟩
  split
  rotate_left
  · exact ⟨hg.good, rfl⟩
  rename_i sh dh hsh hdh
  have hdh0 := hdst dh hdh
  -- fstatat
  refine wp_bind_mono (R := fun _ w' => GoodAt w' cs p0 n0 fid0 ∧ DirH w' dh) ?_ ?_
  · split
    · refine wp_call_any fun r => ?_
      have h1 := hg.step (.fstatat sh ms.name) r trivial trivial
      have h2 := hdh0.step (.fstatat sh ms.name) r (by simp [Call.subject]) (by intro _ h; cases h)
      exact ⟨h1.good, h1, h2⟩
    · exact ⟨hg, hdh0⟩
  rintro doutime w0 ⟨hg0, hdh0⟩
  split
  · exact ⟨hg0.good, rfl⟩
  rename_i fl _
  refine wp_bind_mono (wp_inv_mono (spec_genname env dst (some fl) cs p0 n0 fid0 (fun w' => DirH w' dh)
    (fun w d n r h => h.step _ r (by simp [Call.subject]) (by intro _ h; cases h))
    gennameAttempts _ hg0 hdh0) fun _ h => h.good) ?_
  rintro g w1 ⟨hg1, hdh1, hnew⟩
  cases g with
  | none => exact ⟨hg1.good, rfl⟩
  | some x =>
  obtain ⟨fd, dstname⟩ := x
  obtain ⟨d, p2, fid, hd, nf, hlt, hneq⟩ := hnew fd dstname rfl
  have : d = dh := by rw [hdh] at hd; cases hd; rfl
  subst this
  have hfne : fid ≠ fid0 := Nat.ne_of_gt hlt
  have hdir2 : (w1.dir p2).isSome := by
    obtain ⟨p, hp, hdp⟩ := hdh1
    rw [nf.dirPath] at hp; cases hp; exact hdp
  have hbound := nf.bound hdir2
  dsimp only
  have hdlt : d < w1.handles.length := Nat.lt_trans nf.dLt nf.fdLt
  have hdfd : d ≠ fd := Nat.ne_of_lt nf.dLt
  intro ft
  rcases renameat_results ft w1 sh ms.name d dstname with ⟨e, he⟩ | ⟨he, p1, p2', fidX, hp1, hp2', hl⟩
  · -- the rename failed
    rw [he]
    have hc2 := core_err w1 (.renameat sh ms.name d dstname) e (by intro _ h; cases h) (by intro _ h; cases h) (by intro _ h; cases h)
    have hg2 := hg1.step_err (.renameat sh ms.name d dstname) e (by intro _ h; cases h) (by intro _ h; cases h) (by intro _ h; cases h)
    refine ⟨hg2.good, ?_⟩
    generalize hw2 : stepWorld w1 (.renameat sh ms.name d dstname) (.err e) = w2 at hg2 ⊢
    have hobs2 : w2.dirPath d = some p2 ∧ w2.obj fd = .file fid 0 true ∧ w2.file fid = some ⟨[], []⟩ ∧
        (∀ q m, w2.lookup q m = w1.lookup q m) ∧ w2.nextFid = w1.nextFid := by
      subst hw2
      refine ⟨?_, ?_, ?_, ?_, ?_⟩
      · rw [stepWorld_dirPath, hc2]; exact nf.dirPath
      · rw [stepWorld_obj, hc2]; exact nf.obj
      · rw [stepWorld_file, hc2]; exact nf.file
      · intro q m; rw [stepWorld_lookup, hc2]
      · rw [stepWorld_nextFid, hc2]
    obtain ⟨hdp2, hobj2, hfile2, hlook2, hnf2⟩ := hobs2
    dsimp only
    refine wp_bind_mono (R := fun a w' => (a = (true, ms) ∧ GoodAt w' cs p0 n0 fid0 ∧ w'.dirPath d = some p2) ∨
      (a.1 = false ∧ a.2.msg = ms.msg ∧ Good w' cs)) ?_ ?_
    · split
      · -- EXDEV: copy
        refine wp_bind_mono (wp_inv_mono (spec_messageWriteP ms.msg fd hg2 hobj2 hfne hfile2) fun _ h => h.good) ?_
        rintro we w3 ⟨fr3, f3, hf3, hcontent⟩
        have hfdlt2 : fd < w2.handles.length := lt_of_obj_ne_closed w2 fd (by simp [hobj2])
        have hdp3 : w3.dirPath d = some p2 := by
          rw [← hdp2]; exact dirPath_congr (fr3.objs d (lt_of_dirPath hdp2))
        cases we with
        | true => exact .inl ⟨rfl, fr3.good, hdp3⟩
        | false =>
          simp only [Bool.false_eq_true, if_false]
          unfold maildirUnlink
          simp only [hsh, bind_eq, pure_eq, call_bind]
          refine wp_call_any fun ru => ?_
          rcases isOk_cases ru with ⟨e', rfl⟩ | hok
          · have hc4 := core_err w3 (.unlinkat sh ms.name) e' (by intro _ h; cases h) (by intro _ h; cases h) (by intro _ h; cases h)
            have hg4 := fr3.good.step_err (.unlinkat sh ms.name) e' (by intro _ h; cases h) (by intro _ h; cases h) (by intro _ h; cases h)
            refine ⟨hg4.good, ?_⟩
            simp only [isOk, Bool.not_false]
            refine .inl ⟨rfl, hg4, ?_⟩
            rw [stepWorld_dirPath, hc4]; exact hdp3
          · have hgood4 : Good (stepWorld w3 (.unlinkat sh ms.name) ru) cs := by
              by_cases hA : dirSafe w3 p0 n0 (.unlinkat sh ms.name)
              · exact (fr3.good.step _ ru hA trivial).good
              · simp only [dirSafe, Classical.not_not] at hA
                obtain ⟨hps, hn⟩ := hA
                obtain ⟨hdat, hdur⟩ := hcontent rfl
                have hB : GoodAt w3 cs p2 dstname fid := by
                  refine ⟨by rw [lookup_of_dirs fr3.dirs, hlook2]; exact hbound, ?_, f3, hf3, ?_, ?_⟩
                  · have h1 := nf.fidLt
                    have h2 := fr3.nextFid
                    omega
                  · rw [hdat]; simpa using hm
                  · rw [hdur, hdat]; simpa using hm
                refine (hB.step (.unlinkat sh ms.name) ru ?_ trivial).good
                simp only [dirSafe, hps, Option.some.injEq]
                rintro ⟨rfl, h⟩
                exact hneq ⟨rfl, by rw [← h, hn]⟩
            refine ⟨hgood4, ?_⟩
            simp only [hok, Bool.not_true]
            exact .inr ⟨rfl, rfl, hgood4⟩
      · exact .inl ⟨rfl, hg2, hdp2⟩
    · rintro a w' (⟨rfl, hgA, hdpA⟩ | ⟨ha1, ha2, hgoodA⟩)
      · -- roll back: remove the new name, close
        simp only [if_true]
        unfold maildirUnlink
        simp only [hdh, bind_eq, pure_eq, call_bind, call_bind', ret_bind, Bool.not_true, Bool.false_and,
          Bool.false_eq_true, if_false, if_true]
        refine wp_call_any fun r => ?_
        have h1 := hgA.step (.unlinkat d dstname) r
          (by simp only [dirSafe, hdpA, Option.some.injEq]; exact hneq) trivial
        refine ⟨h1.good, ?_⟩
        refine wp_call_any fun r2 => ?_
        have h2 := h1.step (.close fd) r2 trivial trivial
        exact ⟨h2.good, h2.good, rfl⟩
      · obtain ⟨a1, a2⟩ := a
        simp only at ha1 ha2
        subst ha1
        simp only [Bool.false_eq_true, if_false]
        refine wp_mono (wp_harmless_all (P := fun r => r.1.msg = a2.msg) ?_ ?_ hgoodA) ?_
        · repeat' (first | exact harmless_messageSetFileMoved _ _ _ _ _ | harmless_step)
        · repeat' (first | exact rfl | exact all_messageSetFileMoved _ _ _ _ _ | all_step)
        · intro r w'' h; exact ⟨h.1, h.2.trans ha2⟩
  · -- the rename succeeded
    rw [he]
    have hp2eq : p2' = p2 := by rw [nf.dirPath] at hp2'; cases hp2'; rfl
    subst hp2eq
    have hgood2 := good_renameat_ok hg1 hp1 hp2' hl hdir2 hneq 0
    refine ⟨hgood2, ?_⟩
    simp only [ret_bind, Bool.false_eq_true, if_false]
    refine wp_harmless_all ?_ ?_ hgood2
    · repeat' (first | exact harmless_messageSetFileMoved _ _ _ _ _ | harmless_step)
    · repeat' (first | exact rfl | exact All.mono (all_messageSetFileMoved _ _ _ _ _) (fun _ h => h) | all_step)

end Mdsort.Proofs.World
