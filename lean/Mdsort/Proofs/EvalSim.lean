import Mdsort.Proofs.EvalCond

/-!
# Simulation between the evaluator and the documented semantics (C03)

`Rel` relates the match list to the state of the specification run; `sim_rules` is the
induction over the rules of a block (and, through the nested-block rule, over the tree).
-/

namespace Mdsort.Proofs
open Mdsort Mdsort.Model Mdsort.Spec

/-- Actions that cannot be evaluated (same function as `actionErr` in Proofs/Eval.lean). -/
def actErr (a : Expr) : Bool :=
  match a with
  | .flags _ fl => fl.any (fun c => !isalpha c)
  | .move _ p => decide (p.length ≥ PATH_MAX)
  | _ => false

/-! ## the invariant -/

/-- The match list `ml` against the specification state: pending actions `pend`, and
`hasPass` = a pass was seen in the current block or in an enclosing one. -/
structure Rel (L : Nat) (ml : MatchList) (pend : List Expr) (hasPass : Bool) : Prop where
  noBrk : hasTy ml .brk = false
  pass : hasTy ml .pass = hasPass
  plan : planOf (keysOf ml) = planOf (pend.filterMap actKey)
  acts : ∀ a ∈ pend, isActionExpr a = true
  paths : PathInv L ml

theorem inert_hasTy {X : MatchList} (hX : ∀ m ∈ X, Inert m) (t : MType) (ht : t.isAction = true) :
    hasTy X t = false := by
  unfold hasTy
  rw [List.any_eq_false]
  intro m hm
  have h1 := (hX m hm).1
  intro h
  have h2 : m.ty = t := by simpa using h
  rw [h2, ht] at h1
  cases h1

theorem inert_keysOf {X : MatchList} (hX : ∀ m ∈ X, Inert m) : keysOf X = [] := by
  unfold keysOf
  rw [List.map_eq_nil_iff, List.filter_eq_nil_iff]
  intro m hm
  have := (hX m hm).1
  simp [realAct, this]

theorem inert_pathInv {L : Nat} (hL : 0 + 1 + L < PATH_MAX) {X : MatchList} (hX : ∀ m ∈ X, Inert m) : PathInv L X := by
  intro m hm
  obtain ⟨_, h1, h2⟩ := hX m hm
  unfold okEntry
  rw [h1, h2]
  exact ⟨Nat.zero_le _, hL⟩

theorem Rel.append_inert {L : Nat} {ml : MatchList} {pend : List Expr} {hp : Bool} (hL : 0 + 1 + L < PATH_MAX)
    (h : Rel L ml pend hp) {X : MatchList} (hX : ∀ m ∈ X, Inert m) : Rel L (ml ++ X) pend hp where
  noBrk := by rw [hasTy_append, h.noBrk, inert_hasTy hX _ (by decide)]; rfl
  pass := by rw [hasTy_append, h.pass, inert_hasTy hX _ (by decide)]; simp
  plan := by rw [keysOf_append, inert_keysOf hX, List.append_nil]; exact h.plan
  acts := h.acts
  paths := h.paths.append (inert_pathInv hL hX)

theorem inert_sentinel (lno part : Nat) : Inert { ty := .mtch, lno := lno, part := part } :=
  ⟨by dsimp only; decide, rfl, rfl⟩

theorem realAct_ne {t t' : MType} (h : realAct t = true) (h' : realAct t' = false) : (t == t') = false := by
  cases hh : t == t'
  · rfl
  · have : t = t' := by simpa using hh
    rw [this, h'] at h; cases h

/-- One executed action appended through `matches_append`. -/
theorem Rel.step {env : Env} {L : Nat} (hctx : PCtx env L) {ml : MatchList} {pend : List Expr} {hp : Bool}
    (h : Rel L ml pend hp) (mh : Match) (hact : realAct mh.ty = true) (hok : okEntry L mh)
    (a : Expr) (hk : actKey a = some (mh.ty, mh.lno)) (ha : isActionExpr a = true) :
    ∃ ml', matchesAppend env ml mh = (ml', false) ∧ Rel L ml' (pend ++ [a]) hp := by
  obtain ⟨ml1, mh', he, hty, hlno, hok', hres⟩ := matchesAppend_ok hctx ml mh h.paths hok
  refine ⟨_, he, ?_⟩
  constructor
  · rw [hasTy_append, hres.hasTy _ (by decide), h.noBrk, hasTy_cons, hty, realAct_ne hact (by decide)]; rfl
  · rw [hasTy_append, hres.hasTy _ (by decide), h.pass, hasTy_cons, hty, realAct_ne hact (by decide)]; simp
  · have := plan_step h.plan hres hty hact
    rw [this, List.filterMap_append, hlno]
    simp [hk]
  · intro x hx
    rcases List.mem_append.1 hx with hx | hx
    · exact h.acts x hx
    · simp only [List.mem_singleton] at hx; rw [hx]; exact ha
  · apply (hres.pathInv h.paths).append
    intro m hm
    simp only [List.mem_singleton] at hm
    rw [hm]; exact hok'

theorem Rel.marker_pass {L : Nat} {ml : MatchList} {pend : List Expr} {hp : Bool} (hL : 0 + 1 + L < PATH_MAX)
    (h : Rel L ml pend hp) (lno part : Nat) :
    Rel L (ml ++ [{ ty := .pass, lno := lno, part := part }]) pend true where
  noBrk := by rw [hasTy_append, h.noBrk]; rfl
  pass := by rw [hasTy_append]; simp [hasTy]
  plan := by
    rw [keysOf_append, keysOf_cons]
    have : realAct MType.pass = false := by decide
    simp only [this]
    simpa using h.plan
  acts := h.acts
  paths := by
    apply h.paths.append
    intro m hm
    simp only [List.mem_singleton] at hm
    rw [hm]
    exact ⟨Nat.zero_le _, hL⟩

/-- Removing the pass markers. -/
theorem Rel.remove_pass {L : Nat} {ml : MatchList} {pend : List Expr} {hp : Bool} (h : Rel L ml pend hp) :
    Rel L (ml.filter (·.ty != .pass)) pend false where
  noBrk := by rw [hasTy_filter_ne _ _ _ (by decide)]; exact h.noBrk
  pass := hasTy_filter_ne_self _ _
  plan := by rw [keysOf_filter_ne _ _ (by decide)]; exact h.plan
  acts := h.acts
  paths := h.paths.filter _

theorem filterMap_actKey_eq_nil {pend : List Expr} (h : ∀ a ∈ pend, isActionExpr a = true) :
    pend.filterMap actKey = [] ↔ pend = [] := by
  constructor
  · intro hn
    cases pend with
    | nil => rfl
    | cons a r =>
      have ha := h a (by simp)
      cases a <;> simp [isActionExpr] at ha <;> simp [actKey] at hn
  · intro hn; subst hn; rfl

theorem Rel.keys_nil_iff {L : Nat} {ml : MatchList} {pend : List Expr} {hp : Bool} (h : Rel L ml pend hp) :
    keysOf ml = [] ↔ pend = [] :=
  (planOf_eq_nil_iff h.plan).trans (filterMap_actKey_eq_nil h.acts)

/-! ## the block epilogue -/

/-- What `expr_eval_block` does with the result of its body. -/
def blockWrap (r : Tri × St) : Tri × St :=
  match r with
  | (.error, st1) => (.error, st1)
  | (ev, st1) =>
    if hasTy st1.ml .brk then (.nomatch, { st1 with ml := st1.ml.filter (·.ty != .brk) })
    else if hasTy st1.ml .pass then
      let ml2 := st1.ml.filter (·.ty != .pass)
      (if (ml2.filter (·.ty.isAction)).length == 0 then .nomatch else .match, { st1 with ml := ml2 })
    else (ev, st1)

theorem eval_block (env : Env) (root : Msg) (lno : Nat) (e : Expr) (part : Nat) (m : Msg) (st : St) :
    eval env root (.block lno e) part m st = blockWrap (eval env root e part m st) := by
  rw [eval]
  generalize eval env root e part m st = r
  rcases r with ⟨t, s⟩
  cases t <;> simp [blockWrap, matchesFind_isSome, matchesRemove]

theorem blockWrap_error {r : Tri × St} (h : r.1 = .error) : (blockWrap r).1 = .error := by
  rcases r with ⟨t, s⟩
  simp only at h
  subst h
  rfl

/-- Body finished (match or no match) with no break pending and no pass anywhere. -/
theorem blockWrap_plain {L : Nat} {st : St} {pend : List Expr} (h : Rel L st.ml pend false) (t : Tri)
    (ht : t ≠ .error) : blockWrap (t, st) = (t, st) := by
  cases t
  · simp [blockWrap, h.noBrk, h.pass]
  · simp [blockWrap, h.noBrk, h.pass]
  · exact absurd rfl ht

/-- Body finished with a pass pending: match iff an action is pending. -/
theorem blockWrap_pass {L : Nat} {st : St} {pend : List Expr} (h : Rel L st.ml pend true) (t : Tri)
    (ht : t ≠ .error) :
    blockWrap (t, st) =
      (if pend = [] then .nomatch else .match, { st with ml := st.ml.filter (·.ty != .pass) }) := by
  have h' := h.remove_pass
  have hc := count_actions _ h'.noBrk h'.pass
  have hn := h'.keys_nil_iff
  have : ((st.ml.filter (·.ty != .pass)).filter (·.ty.isAction)).length = 0 ↔ pend = [] := by
    rw [hc, List.length_eq_zero_iff]; exact hn
  by_cases hp : pend = []
  · have h0 := this.2 hp
    cases t
    · simp only [blockWrap, h.noBrk, h.pass, Bool.false_eq_true, if_false, if_true, h0, hp, beq_self_eq_true]
    · simp only [blockWrap, h.noBrk, h.pass, Bool.false_eq_true, if_false, if_true, h0, hp, beq_self_eq_true]
    · exact absurd rfl ht
  · have h0 : (((st.ml.filter (·.ty != .pass)).filter (·.ty.isAction)).length == 0) = false :=
      beq_eq_false_iff_ne.2 (fun e => hp (this.1 e))
    cases t
    · simp only [blockWrap, h.noBrk, h.pass, Bool.false_eq_true, if_false, if_true, h0, hp]
    · simp only [blockWrap, h.noBrk, h.pass, Bool.false_eq_true, if_false, if_true, h0, hp]
    · exact absurd rfl ht

/-- A rule without pass/break matched: the block matches, whatever passes are pending. -/
theorem blockWrap_matched {L : Nat} {st : St} {pend : List Expr} {hp : Bool} (h : Rel L st.ml pend hp)
    (hne : pend ≠ []) :
    (blockWrap (.match, st)).1 = .match ∧ Rel L (blockWrap (.match, st)).2.ml pend false ∧
      (blockWrap (.match, st)).2.flags = st.flags := by
  cases hp
  · rw [blockWrap_plain h _ (by decide)]; exact ⟨rfl, h, rfl⟩
  · rw [blockWrap_pass h _ (by decide)]; simp only [hne, if_false]; exact ⟨trivial, h.remove_pass, trivial⟩

/-- A `break` was just appended. -/
theorem blockWrap_break {L : Nat} {st : St} {pend : List Expr} {hp : Bool} (h : Rel L st.ml pend hp)
    (lno part : Nat) (t : Tri) (ht : t ≠ .error) :
    blockWrap (t, { st with ml := st.ml ++ [{ ty := .brk, lno := lno, part := part }] }) = (.nomatch, st) := by
  have : (st.ml ++ [({ ty := .brk, lno := lno, part := part } : Match)]).filter (·.ty != .brk) = st.ml := by
    rw [List.filter_append, filter_ne_of_not_hasTy _ _ h.noBrk]; simp
  cases t
  · simp [blockWrap, hasTy, this]
  · simp [blockWrap, hasTy, this]
  · exact absurd rfl ht

/-! ## action lists -/

theorem setAll_snd : ∀ (cs : Bytes) (mf : MFlags) (err : Bool),
    (eval.setAll cs mf err).2 = (err || cs.any (fun c => !isalpha c)) := by
  intro cs
  induction cs with
  | nil => intro mf err; simp [eval.setAll]
  | cons c r ih =>
    intro mf err
    unfold eval.setAll flagsSet
    by_cases h1 : isupper c = true
    · simp [h1, ih, isalpha]
    · by_cases h2 : islower c = true
      · simp [h1, h2, ih, isalpha]
      · simp [h1, h2, ih, isalpha]

theorem flagsIsSet_seen (mf : MFlags) : flagsIsSet mf 83 = mf.upper.testBit 18 := by
  unfold flagsIsSet
  rw [if_pos (by decide)]
  rfl

/-- Setting a flag other than `S` leaves the Seen flag alone. -/
theorem flagsSet_seen (mf mf' : MFlags) (c : UInt8) (hc : c ≠ 83) (h : flagsSet mf c = some mf') :
    flagsIsSet mf' 83 = flagsIsSet mf 83 := by
  rw [flagsIsSet_seen, flagsIsSet_seen]
  unfold flagsSet at h
  by_cases h1 : isupper c = true
  · rw [if_pos h1] at h
    injection h with h
    subst h
    simp only [Nat.testBit_or, Nat.testBit_shiftLeft]
    have hn : c.toNat ≠ 83 := fun e => hc (UInt8.toNat_inj.1 e)
    simp only [isupper, Bool.and_eq_true, decide_eq_true_eq, UInt8.le_iff_toNat_le] at h1
    have : (65 : UInt8).toNat = 65 := rfl
    rw [this] at h1
    have hk : 18 - (c.toNat - 65) ≠ 0 ∨ ¬ (18 ≥ c.toNat - 65) := by omega
    rcases hk with hk | hk
    · simp [Nat.testBit_one_eq_true_iff_self_eq_zero, hk]
    · simp [hk]
  · rw [if_neg h1] at h
    by_cases h2 : islower c = true
    · rw [if_pos h2] at h
      injection h with h
      subst h
      rfl
    · rw [if_neg h2] at h
      cases h

theorem setAll_seen : ∀ (cs : Bytes) (mf : MFlags) (err : Bool), (∀ c ∈ cs, c ≠ 83) →
    flagsIsSet (eval.setAll cs mf err).1 83 = flagsIsSet mf 83 := by
  intro cs
  induction cs with
  | nil => intro mf err _; simp [eval.setAll]
  | cons c r ih =>
    intro mf err h
    have hc := h c (by simp)
    have hr : ∀ x ∈ r, x ≠ 83 := fun x hx => h x (by simp [hx])
    unfold eval.setAll
    cases hf : flagsSet mf c with
    | none => exact ih mf true hr
    | some mf' =>
      simp only
      rw [ih mf' err hr]
      exact flagsSet_seen mf mf' c hc hf

theorem exprAppend_step {env : Env} {L : Nat} (hctx : PCtx env L) {o : Bool} {f : MFlags} {st : St}
    {pend : List Expr} {hp : Bool} (h : Rel L st.ml pend hp) (hs : SeenInv o f st) (mh : Match)
    (hact : realAct mh.ty = true) (hok : okEntry L mh)
    (a : Expr) (hk : actKey a = some (mh.ty, mh.lno)) (ha : isActionExpr a = true) :
    ∃ st', exprAppend env mh st .match = (.match, st') ∧ Rel L st'.ml (pend ++ [a]) hp ∧ SeenInv o f st' := by
  obtain ⟨ml', h1, h2⟩ := h.step hctx mh hact hok a hk ha
  unfold exprAppend
  rw [h1]
  exact ⟨_, rfl, h2, hs⟩

/-- A single action of the domain: an error exactly when `actErr`, else it matches and the
invariant moves on by one pending action. -/
theorem act_eval {env : Env} {L : Nat} (hctx : PCtx env L) (root : Msg) {o : Bool} {f : MFlags} (a : Expr)
    (ha : isActionExpr a = true) (hok : okTree L o a) (st : St) (pend : List Expr) (hp : Bool)
    (hR : Rel L st.ml pend hp) (hs : SeenInv o f st) :
    (actErr a = true ∧ (eval env root a 0 root st).1 = .error) ∨
    (actErr a = false ∧ ∃ st', eval env root a 0 root st = (.match, st') ∧ Rel L st'.ml (pend ++ [a]) hp ∧
      SeenInv o f st') := by
  have hL := hctx.hL
  have ok0 : ∀ m : Match, m.maildir = [] → m.subdir = [] → okEntry L m := by
    intro m h1 h2; unfold okEntry; rw [h1, h2]; exact ⟨Nat.zero_le _, hL⟩
  cases a with
  | move lno path =>
    obtain ⟨_, hmv, _⟩ := hok
    simp only [movesFit, Bool.or_eq_true, decide_eq_true_eq] at hmv
    by_cases hlen : path.length ≥ PATH_MAX
    · left
      refine ⟨by simp [actErr, hlen], ?_⟩
      simp [eval, strlcpyFits, hlen]
    · right
      refine ⟨by simp [actErr, hlen], ?_⟩
      have hfit : path.length + 1 + L < PATH_MAX := by
        rcases hmv with h | h
        · exact absurd h hlen
        · exact h
      simp only [eval, strlcpyFits, hlen, if_false]
      exact exprAppend_step hctx hR hs _ (by dsimp only; decide) (by unfold okEntry; exact ⟨Nat.zero_le _, hfit⟩) _ rfl rfl
  | flag lno sd =>
    obtain ⟨hw, _, hmx, _⟩ := hok
    simp only [wfTree, decide_eq_true_eq] at hw
    simp only [maxSubdir] at hmx
    right
    refine ⟨rfl, ?_⟩
    have : ¬ sd.length ≥ NAME_MAX1 := by omega
    simp only [eval, strlcpyFits, this, if_false]
    exact exprAppend_step hctx hR hs _ (by dsimp only; decide) (by unfold okEntry; exact ⟨hmx, hL⟩) _ rfl rfl
  | flags lno fl =>
    by_cases herr : fl.any (fun c => !isalpha c) = true
    · left
      refine ⟨by simp only [actErr]; exact herr, ?_⟩
      rw [eval]
      have := setAll_snd fl st.flags false
      rw [Bool.false_or, herr] at this
      generalize eval.setAll fl st.flags false = r at this
      rcases r with ⟨mf, e⟩
      simp only at this
      subst this
      rfl
    · right
      have herr' : fl.any (fun c => !isalpha c) = false := by simpa using herr
      refine ⟨by simp only [actErr]; exact herr', ?_⟩
      rw [eval]
      have := setAll_snd fl st.flags false
      rw [Bool.false_or, herr'] at this
      have hseen : SeenInv o f { st with flags := (eval.setAll fl st.flags false).1 } := by
        intro ho
        have hk := hok.2.2.2.2 ho
        simp only [flagsKeepSeen, Bool.not_eq_true', List.contains_eq_mem, decide_eq_false_iff_not] at hk
        have : ∀ c ∈ fl, c ≠ 83 := fun c hc e => hk (e ▸ hc)
        show flagsIsSet (eval.setAll fl st.flags false).1 83 = _
        rw [setAll_seen fl st.flags false this]
        exact hs ho
      generalize eval.setAll fl st.flags false = r at this hseen
      rcases r with ⟨mf, e⟩
      simp only at this
      subst this
      simp only [Bool.false_eq_true, if_false]
      exact exprAppend_step (st := { st with flags := mf }) hctx hR hseen _ (by dsimp only; decide) (ok0 _ rfl rfl) _ rfl rfl
  | discard lno =>
    right; refine ⟨rfl, ?_⟩; rw [eval]
    exact exprAppend_step hctx hR hs _ (by dsimp only; decide) (ok0 _ rfl rfl) _ rfl rfl
  | label lno ls =>
    right; refine ⟨rfl, ?_⟩; rw [eval]
    exact exprAppend_step hctx hR hs _ (by dsimp only; decide) (ok0 _ rfl rfl) _ rfl rfl
  | reject lno =>
    right; refine ⟨rfl, ?_⟩; rw [eval]
    exact exprAppend_step hctx hR hs _ (by dsimp only; decide) (ok0 _ rfl rfl) _ rfl rfl
  | exec lno si bo argv =>
    right; refine ⟨rfl, ?_⟩; rw [eval]
    exact exprAppend_step hctx hR hs _ (by dsimp only; decide) (ok0 _ rfl rfl) _ rfl rfl
  | addHeader lno k v =>
    right; refine ⟨rfl, ?_⟩; rw [eval]
    exact exprAppend_step hctx hR hs _ (by dsimp only; decide) (ok0 _ rfl rfl) _ rfl rfl
  | _ => simp [isActionExpr] at ha

/-- The left-nested AND chain, evaluated as a list. -/
def evalAndList (env : Env) (root : Msg) : List Expr → St → Tri × St
  | [], st => (.match, st)
  | x :: xs, st =>
    match eval env root x 0 root st with
    | (.match, st1) => evalAndList env root xs st1
    | other => other

theorem evalAndList_append (env : Env) (root : Msg) : ∀ (a b : List Expr) (st : St),
    evalAndList env root (a ++ b) st =
      match evalAndList env root a st with
      | (.match, st1) => evalAndList env root b st1
      | other => other := by
  intro a
  induction a with
  | nil => intro b st; rfl
  | cons x xs ih =>
    intro b st
    simp only [List.cons_append, evalAndList]
    rcases h : eval env root x 0 root st with ⟨t, s⟩
    cases t
    · exact ih b s
    · rfl
    · rfl

theorem evalAndList_single (env : Env) (root : Msg) (x : Expr) (st : St) :
    evalAndList env root [x] st = eval env root x 0 root st := by
  simp only [evalAndList]
  rcases eval env root x 0 root st with ⟨t, s⟩
  cases t <;> rfl

theorem eval_andChain (env : Env) (root : Msg) : ∀ (e : Expr) (st : St),
    eval env root e 0 root st = evalAndList env root (andChain e) st := by
  intro e
  induction e with
  | and lno l r ihl _ =>
    intro st
    rw [eval, andChain, evalAndList_append, ← ihl st]
    rcases eval env root l 0 root st with ⟨t, s⟩
    cases t
    · simp only; rw [evalAndList_single]
    · rfl
    · rfl
  | _ => intro st; simp only [andChain, evalAndList_single]

theorem acts_eval {env : Env} {L : Nat} (hctx : PCtx env L) (root : Msg) {o : Bool} {f : MFlags} :
    ∀ (as : List Expr),
    (∀ a ∈ as, isActionExpr a = true ∧ okTree L o a) → ∀ (st : St) (pend : List Expr) (hp : Bool),
    Rel L st.ml pend hp → SeenInv o f st → ∀ rest : List Expr,
    (as.any actErr = true ∧ (evalAndList env root (as ++ rest) st).1 = .error) ∨
    (as.any actErr = false ∧ ∃ st', evalAndList env root (as ++ rest) st = evalAndList env root rest st' ∧
      Rel L st'.ml (pend ++ as) hp ∧ SeenInv o f st') := by
  intro as
  induction as with
  | nil =>
    intro _ st pend hp hR hs rest
    right
    exact ⟨rfl, st, rfl, by simpa using hR, hs⟩
  | cons a as ih =>
    intro hall st pend hp hR hs rest
    have ha := hall a (by simp)
    have hall' : ∀ x ∈ as, isActionExpr x = true ∧ okTree L o x := fun x hx => hall x (by simp [hx])
    rcases act_eval hctx root a ha.1 ha.2 st pend hp hR hs with ⟨he, hr⟩ | ⟨he, st1, hr, hR1, hs1⟩
    · left
      refine ⟨by simp [he], ?_⟩
      simp only [List.cons_append, evalAndList]
      rcases h : eval env root a 0 root st with ⟨t, s⟩
      rw [h] at hr
      simp only at hr
      subst hr
      rfl
    · simp only [List.cons_append, evalAndList, hr, List.any_cons, he, Bool.false_or]
      rcases ih hall' st1 (pend ++ [a]) hp hR1 hs1 rest with ⟨h1, h2⟩ | ⟨h1, st', h2, h3, h4⟩
      · left; exact ⟨h1, h2⟩
      · right; exact ⟨h1, st', h2, by simpa using h3, h4⟩

end Mdsort.Proofs
