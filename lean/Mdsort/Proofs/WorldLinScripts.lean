import Mdsort.Proofs.WorldLin
import Mdsort.Proofs.WorldExec

/-!
# `matches_exec` under EVERY fault plan, by LINEAGE

The proofs of WorldWrite / WorldMove / WorldExec follow ONE entry bound to a complete version of the message
(`GoodAt`) and export only its existence (`Good`: by content).  Here the same entry is followed together with
what kind of file it is bound to - the file `fid0` the message's entry was bound to at a reference point, or a
file made since (`N0 ≤ g`) - and, in parallel, the lineage invariant `LinInv` of WorldLin: together they say
that the entry is bound to a file that DESCENDS FROM the message (`LGood`).
-/

namespace Mdsort.Proofs.World
open Mdsort Mdsort.Model

/-! ## scripts that never open a file for reading -/

macro "nord_step" : tactic =>
  `(tactic| first
      | (with_reducible exact Calls.ret_intro' _)
      | ((with_reducible show NotOpenRd _); exact True.intro)
      | (with_reducible apply Calls.call_intro')
      | (intro _)
      | (with_reducible apply Calls.bind)
      | split
      | (dsimp only; split))

theorem nord_genname (env : PEnv) (md : Maildir) (flags : Option Bytes) (fuel count : Nat) :
    Calls NotOpenRd (genname env md flags fuel count) := by
  induction fuel generalizing count with
  | zero => exact Calls.ret_intro' _
  | succ fuel ih =>
    unfold genname
    simp only [bind_eq, pure_eq, call_bind]
    repeat' (first | exact ih _ | nord_step)

theorem nord_maildirOpendir (md : Maildir) (path : Bytes) : Calls NotOpenRd (maildirOpendir md path) := by
  unfold maildirOpendir
  simp only [bind_eq, pure_eq, call_bind]
  repeat' nord_step

theorem nord_maildirOpenDst (path : Bytes) : Calls NotOpenRd (maildirOpenDst path) := by
  unfold maildirOpenDst
  simp only [bind_eq, pure_eq]
  repeat' (first | exact nord_maildirOpendir _ _ | nord_step)

theorem nord_maildirClose (md : Maildir) : Calls NotOpenRd (maildirClose md) := by
  unfold maildirClose
  simp only [bind_eq, pure_eq, call_bind]
  repeat' nord_step

theorem nord_maildirUnlink (md : Maildir) (name : Bytes) : Calls NotOpenRd (maildirUnlink md name) := by
  unfold maildirUnlink
  simp only [bind_eq, pure_eq, call_bind]
  repeat' nord_step

theorem nord_hdrs (newfd : Handle) (hs : List Hdr) : Calls NotOpenRd (messageWriteP.hdrs newfd hs) := by
  induction hs with
  | nil => unfold messageWriteP.hdrs; exact Calls.ret_intro' _
  | cons h rest ih =>
    unfold messageWriteP.hdrs
    simp only [bind_eq, pure_eq, call_bind]
    repeat' (first | exact ih | nord_step)

theorem nord_messageWriteP (m : Msg) (fd : Handle) : Calls NotOpenRd (messageWriteP m fd) := by
  unfold messageWriteP
  simp only [bind_eq, pure_eq, call_bind]
  repeat' (first | exact nord_hdrs _ _ | nord_step)

theorem nord_messageSetFileMoved (ms : MsgSt) (s d : Subdir) (dir name : Bytes) :
    Calls NotOpenRd (messageSetFileMoved ms s d dir name) := by
  unfold messageSetFileMoved
  simp only [bind_eq, pure_eq, call_bind]
  repeat' nord_step

theorem nord_messageSetFile (ms : MsgSt) (dir name : Bytes) (fd : Option Handle) :
    Calls NotOpenRd (messageSetFile ms dir name fd) := by
  unfold messageSetFile
  simp only [bind_eq, pure_eq, call_bind]
  repeat' nord_step

theorem nord_writefd (tmpdir : Bytes) : Calls NotOpenRd (writefd tmpdir) := by
  unfold writefd
  simp only [bind_eq, pure_eq, call_bind]
  repeat' nord_step

theorem nord_writeAll (fd : Handle) (fuel : Nat) (data : Bytes) : Calls NotOpenRd (writeAll fd fuel data) := by
  induction fuel generalizing data with
  | zero => unfold writeAll; exact Calls.ret_intro' _
  | succ fuel ih =>
    unfold writeAll
    simp only [bind_eq, pure_eq, call_bind]
    repeat' (first | exact ih _ | nord_step)

theorem nord_messageGetFd (env : PEnv) (ms : MsgSt) (part : Option Msg) (dobody : Bool) :
    Calls NotOpenRd (messageGetFd env ms part dobody) := by
  unfold messageGetFd
  simp only [bind_eq, pure_eq, call_bind]
  repeat' (first | exact nord_writefd _ | exact nord_writeAll _ _ _ | exact nord_messageWriteP _ _ | nord_step)

theorem nord_execP (argv : List Bytes) (fdin : Option Handle) : Calls NotOpenRd (execP argv fdin) := by
  unfold execP
  simp only [bind_eq, pure_eq, call_bind]
  repeat' nord_step

theorem nord_maildirMove (env : PEnv) (src dst : Maildir) (ms : MsgSt) : Calls NotOpenRd (maildirMove env src dst ms) := by
  unfold maildirMove gennameStart
  simp only [bind_eq, pure_eq, call_bind]
  repeat' (first
    | exact nord_genname _ _ _ _ _
    | exact nord_messageWriteP _ _
    | exact nord_maildirUnlink _ _
    | exact nord_messageSetFileMoved _ _ _ _ _
    | nord_step)

theorem nord_moveBranch (env : PEnv) (mh : Match) (st : ExecSt) : Calls NotOpenRd (moveBranch env mh st) := by
  unfold moveBranch
  repeat' (first | exact nord_maildirOpenDst _ | exact nord_maildirMove _ _ _ _ | exact nord_maildirClose _ | nord_step)

/-! ## the tracked entry together with the kind of file it is bound to -/

/-- Some entry is bound to a file that holds a complete version (`GoodAt`), and that file is `fid0` or was made
since the reference point `N0`. -/
def GoodN (N0 fid0 : Nat) (w : World) (cs : List Bytes) : Prop :=
  ∃ p n g, GoodAt w cs p n g ∧ (g = fid0 ∨ N0 ≤ g)

theorem GoodAt.goodN {N0 fid0 : Nat} {w : World} {cs : List Bytes} {p n : Bytes} {g : Nat} (h : GoodAt w cs p n g)
    (hA : g = fid0 ∨ N0 ≤ g) : GoodN N0 fid0 w cs := ⟨p, n, g, h, hA⟩

theorem GoodN.good {N0 fid0 : Nat} {w : World} {cs : List Bytes} (h : GoodN N0 fid0 w cs) : Good w cs := by
  obtain ⟨p, n, g, hg, _⟩ := h
  exact hg.good

theorem wp_harmlessN_all {α} {N0 fid0 : Nat} {cs : List Bytes} {P : α → Prop} {p : Prog α}
    (hc : Calls Harmless p) (ha : All P p) {w : World} (hg : GoodN N0 fid0 w cs) :
    wp (fun w' => GoodN N0 fid0 w' cs) p (fun a w' => GoodN N0 fid0 w' cs ∧ P a) w := by
  obtain ⟨p0, n0, g0, hg, hA⟩ := hg
  exact wp_mono (wp_inv_mono (wp_harmlessAt_all hc ha hg) fun _ h => h.goodN hA) fun _ _ h => ⟨h.1.goodN hA, h.2⟩

theorem wp_harmlessN {α} {N0 fid0 : Nat} {cs : List Bytes} {p : Prog α} (hc : Calls Harmless p) {w : World}
    (hg : GoodN N0 fid0 w cs) : wp (fun w' => GoodN N0 fid0 w' cs) p (fun _ w' => GoodN N0 fid0 w' cs) w := by
  obtain ⟨p0, n0, g0, hg, hA⟩ := hg
  exact wp_mono (wp_inv_mono (wp_harmlessAt hc hg) fun _ h => h.goodN hA) fun _ _ h => h.goodN hA

theorem All.trivial' {α} (p : Prog α) : All (fun _ => True) p := by
  induction p with
  | ret a => exact True.intro
  | call c k ih => intro r; exact ih r

/-- The file `maildir_genname` makes is a NEW one: its id is at least the number of files there were. -/
theorem genname_fid_ge (env : PEnv) (md : Maildir) (flags : Option Bytes) (N : Nat) (fuel count : Nat) {w : World}
    (hN : N ≤ w.nextFid) :
    wp (fun _ => True) (genname env md flags fuel count)
      (fun res w' => ∀ fd name, res = some (fd, name) → ∀ fid off wr, w'.obj fd = .file fid off wr → N ≤ fid) w := by
  induction fuel generalizing count w with
  | zero => intro _ _ h; cases h
  | succ fuel ih =>
    unfold genname
    simp only [bind_eq, pure_eq, call_bind]
    generalize (decimalInt env.now ++ [46] ++ decimal env.pid ++ [95] ++ decimal ((count + 1) % gennameWrap) ++ [46] ++ env.host ++
          flags.getD []) = nm
    split
    · intro _ _ h; cases h
    · split
      · intro _ _ h; cases h
      · rename_i d hd
        intro f
        refine ⟨trivial, ?_⟩
        have hN' : N ≤ (stepWorld w (.openExcl d nm) (faultResult f w (.openExcl d nm))).nextFid := by
          rw [stepWorld_nextFid]; exact Nat.le_trans hN (core_nextFid _ _ _)
        rcases openExcl_results f w d nm with ⟨e, he⟩ | ⟨he, p, hp, hl⟩
        · rw [he] at hN' ⊢
          dsimp only
          split
          · exact ih _ hN'
          · intro _ _ h; cases h
        · rw [he]
          intro fd name h fid off wr ho
          simp only [Option.some.injEq, Prod.mk.injEq] at h
          obtain ⟨rfl, rfl⟩ := h
          rw [(newFile_of_openExcl hp hl).obj] at ho
          cases ho
          exact hN

/-- After a successful rename the tracked entry has moved (same file) or is untouched. -/
theorem goodN_renameat_ok {N0 fid0 : Nat} {cs : List Bytes} {w : World} {p0 n0 : Bytes} {g0 : Nat} (hg : GoodAt w cs p0 n0 g0)
    (hA : g0 = fid0 ∨ N0 ≤ g0)
    {d1 d2 : Handle} {n1 n2 p1 p2 : Bytes} {fid : Nat}
    (hp1 : w.dirPath d1 = some p1) (hp2 : w.dirPath d2 = some p2) (hl : w.lookup p1 n1 = some fid)
    (hd2 : (w.dir p2).isSome) (hneq : ¬(p2 = p0 ∧ n2 = n0)) (v : Nat) :
    GoodN N0 fid0 (stepWorld w (.renameat d1 n1 d2 n2) (.ok v)) cs := by
  by_cases hX : p1 = p0 ∧ n1 = n0
  · obtain ⟨rfl, rfl⟩ := hX
    have hfid : fid = g0 := by rw [hg.1] at hl; cases hl; rfl
    subst hfid
    have hc := core_renameat_ok (n2 := n2) hp1 hp2 hl v
    obtain ⟨_, hlt, f, hf, h1, h2⟩ := hg
    refine ⟨p2, n2, fid, ⟨?_, ?_, f, ?_, h1, h2⟩, hA⟩
    · rw [stepWorld_lookup, hc, lookup_bind _ _ _ _ _ _ (by rw [dir_unbind_isSome]; exact hd2)]
      simp
    · rw [stepWorld_nextFid, hc]; simpa using hlt
    · rw [stepWorld_file, hc]; simpa using hf
  · refine (hg.step (.renameat d1 n1 d2 n2) (.ok v) ?_ trivial).goodN hA
    simp only [dirSafe, hp1, hp2, Option.some.injEq]
    exact ⟨hX, hneq⟩

/-- `maildir_move` under every fault plan: the tracked entry stays the message's own file, or becomes the complete
copy this call made. -/
theorem goodN_maildirMove {N0 fid0 : Nat} {cs : List Bytes} (env : PEnv) (src dst : Maildir) (ms : MsgSt) {w : World}
    (hN : N0 ≤ w.nextFid) (hgood : GoodN N0 fid0 w cs) (hm : (messageWrite ms.msg).1 ∈ cs)
    (hdst : ∀ dh, dst.dirH = some dh → DirH w dh) :
    wp (fun w' => GoodN N0 fid0 w' cs) (maildirMove env src dst ms)
      (fun r w' => GoodN N0 fid0 w' cs ∧ r.1.msg = ms.msg) w := by
  obtain ⟨p0, n0, g0, hg, hA⟩ := hgood
  unfold maildirMove gennameStart
  simp only [bind_eq, pure_eq, call_bind]
  split
  · exact ⟨hg.goodN hA, rfl⟩
  split
  rotate_left
  · exact ⟨hg.goodN hA, rfl⟩
  rename_i sh dh hsh hdh
  have hdh0 := hdst dh hdh
  -- fstatat
  refine wp_bind_mono (R := fun _ w' => GoodAt w' cs p0 n0 g0 ∧ DirH w' dh ∧ N0 ≤ w'.nextFid) ?_ ?_
  · split
    · refine wp_call_any fun r => ?_
      have h1 := hg.step (.fstatat sh ms.name) r trivial trivial
      have h2 := hdh0.step (.fstatat sh ms.name) r (by simp [Call.subject]) (by intro _ h; cases h)
      exact ⟨h1.goodN hA, h1, h2, by rw [stepWorld_nextFid]; exact Nat.le_trans hN (core_nextFid _ _ _)⟩
    · exact ⟨hg, hdh0, hN⟩
  rintro doutime w0 ⟨hg0, hdh0, hN0⟩
  split
  · exact ⟨hg0.goodN hA, rfl⟩
  rename_i fl _
  refine wp_bind_mono (wp_inv_mono (whole_wp_and (spec_genname env dst (some fl) cs p0 n0 g0 (fun w' => DirH w' dh)
    (fun w d n r h => h.step _ r (by simp [Call.subject]) (by intro _ h; cases h))
    gennameAttempts _ hg0 hdh0) (genname_fid_ge env dst (some fl) N0 gennameAttempts _ hN0)) fun _ h => h.1.goodN hA) ?_
  rintro g w1 ⟨⟨hg1, hdh1, hnew⟩, hge⟩
  cases g with
  | none => exact ⟨hg1.goodN hA, rfl⟩
  | some x =>
  obtain ⟨fd, dstname⟩ := x
  obtain ⟨d, p2, fid, hd, nf, hlt, hneq⟩ := hnew fd dstname rfl
  have hfidN : N0 ≤ fid := hge fd dstname rfl fid 0 true nf.obj
  have : d = dh := by rw [hdh] at hd; cases hd; rfl
  subst this
  have hfne : fid ≠ g0 := Nat.ne_of_gt hlt
  have hdir2 : (w1.dir p2).isSome := by
    obtain ⟨p, hp, hdp⟩ := hdh1
    rw [nf.dirPath] at hp; cases hp; exact hdp
  have hbound := nf.bound hdir2
  dsimp only
  have hdlt : d < w1.handles.length := Nat.lt_trans nf.dLt nf.fdLt
  have hdfd : d ≠ fd := Nat.ne_of_lt nf.dLt
  intro ft
  rcases renameat_results ft w1 sh ms.name d dstname with ⟨e, he⟩ | ⟨he, p1, p2', fidX, hp1, hp2', hl⟩
  · -- the rename failed
    rw [he]
    have hc2 := core_err w1 (.renameat sh ms.name d dstname) e (by intro _ h; cases h) (by intro _ h; cases h) (by intro _ h; cases h)
    have hg2 := hg1.step_err (.renameat sh ms.name d dstname) e (by intro _ h; cases h) (by intro _ h; cases h) (by intro _ h; cases h)
    refine ⟨hg2.goodN hA, ?_⟩
    generalize hw2 : stepWorld w1 (.renameat sh ms.name d dstname) (.err e) = w2 at hg2 ⊢
    have hobs2 : w2.dirPath d = some p2 ∧ w2.obj fd = .file fid 0 true ∧ w2.file fid = some ⟨[], []⟩ ∧
        (∀ q m, w2.lookup q m = w1.lookup q m) ∧ w2.nextFid = w1.nextFid := by
      subst hw2
      refine ⟨?_, ?_, ?_, ?_, ?_⟩
      · rw [stepWorld_dirPath, hc2]; exact nf.dirPath
      · rw [stepWorld_obj, hc2]; exact nf.obj
      · rw [stepWorld_file, hc2]; exact nf.file
      · intro q m; rw [stepWorld_lookup, hc2]
      · rw [stepWorld_nextFid, hc2]
    obtain ⟨hdp2, hobj2, hfile2, hlook2, hnf2⟩ := hobs2
    dsimp only
    refine wp_bind_mono (R := fun a w' => (a = (true, ms) ∧ GoodAt w' cs p0 n0 g0 ∧ w'.dirPath d = some p2) ∨
      (a.1 = false ∧ a.2.msg = ms.msg ∧ GoodN N0 fid0 w' cs)) ?_ ?_
    · split
      · -- EXDEV: copy
        refine wp_bind_mono (wp_inv_mono (spec_messageWriteP ms.msg fd hg2 hobj2 hfne hfile2) fun _ h => h.goodN hA) ?_
        rintro we w3 ⟨fr3, f3, hf3, hcontent⟩
        have hfdlt2 : fd < w2.handles.length := lt_of_obj_ne_closed w2 fd (by simp [hobj2])
        have hdp3 : w3.dirPath d = some p2 := by
          rw [← hdp2]; exact dirPath_congr (fr3.objs d (lt_of_dirPath hdp2))
        cases we with
        | true => exact .inl ⟨rfl, fr3.good, hdp3⟩
        | false =>
          simp only [Bool.false_eq_true, if_false]
          unfold maildirUnlink
          simp only [hsh, bind_eq, pure_eq, call_bind]
          refine wp_call_any fun ru => ?_
          rcases isOk_cases ru with ⟨e', rfl⟩ | hok
          · have hc4 := core_err w3 (.unlinkat sh ms.name) e' (by intro _ h; cases h) (by intro _ h; cases h) (by intro _ h; cases h)
            have hg4 := fr3.good.step_err (.unlinkat sh ms.name) e' (by intro _ h; cases h) (by intro _ h; cases h) (by intro _ h; cases h)
            refine ⟨hg4.goodN hA, ?_⟩
            simp only [isOk, Bool.not_false]
            refine .inl ⟨rfl, hg4, ?_⟩
            rw [stepWorld_dirPath, hc4]; exact hdp3
          · have hgood4 : GoodN N0 fid0 (stepWorld w3 (.unlinkat sh ms.name) ru) cs := by
              by_cases hX : dirSafe w3 p0 n0 (.unlinkat sh ms.name)
              · exact (fr3.good.step _ ru hX trivial).goodN hA
              · simp only [dirSafe, Classical.not_not] at hX
                obtain ⟨hps, hn⟩ := hX
                obtain ⟨hdat, hdur⟩ := hcontent rfl
                have hB : GoodAt w3 cs p2 dstname fid := by
                  refine ⟨by rw [lookup_of_dirs fr3.dirs, hlook2]; exact hbound, ?_, f3, hf3, ?_, ?_⟩
                  · have h1 := nf.fidLt
                    have h2 := fr3.nextFid
                    omega
                  · rw [hdat]; simpa using hm
                  · rw [hdur, hdat]; simpa using hm
                refine (hB.step (.unlinkat sh ms.name) ru ?_ trivial).goodN (.inr hfidN)
                simp only [dirSafe, hps, Option.some.injEq]
                rintro ⟨rfl, h⟩
                exact hneq ⟨rfl, by rw [← h, hn]⟩
            refine ⟨hgood4, ?_⟩
            simp only [hok, Bool.not_true]
            exact .inr ⟨rfl, rfl, hgood4⟩
      · exact .inl ⟨rfl, hg2, hdp2⟩
    · rintro a w' (⟨rfl, hgX, hdpX⟩ | ⟨ha1, ha2, hgoodX⟩)
      · -- roll back: remove the new name, close
        simp only [if_true]
        unfold maildirUnlink
        simp only [hdh, bind_eq, pure_eq, call_bind, call_bind', ret_bind, Bool.not_true, Bool.false_and,
          Bool.false_eq_true, if_false, if_true]
        refine wp_call_any fun r => ?_
        have h1 := hgX.step (.unlinkat d dstname) r
          (by simp only [dirSafe, hdpX, Option.some.injEq]; exact hneq) trivial
        refine ⟨h1.goodN hA, ?_⟩
        refine wp_call_any fun r2 => ?_
        have h2 := h1.step (.close fd) r2 trivial trivial
        exact ⟨h2.goodN hA, h2.goodN hA, rfl⟩
      · obtain ⟨a1, a2⟩ := a
        simp only at ha1 ha2
        subst ha1
        simp only [Bool.false_eq_true, if_false]
        refine wp_mono (wp_harmlessN_all (P := fun r => r.1.msg = a2.msg) ?_ ?_ hgoodX) ?_
        · repeat' (first | exact harmless_messageSetFileMoved _ _ _ _ _ | harmless_step)
        · repeat' (first | exact rfl | exact all_messageSetFileMoved _ _ _ _ _ | all_step)
        · intro r w'' h; exact ⟨h.1, h.2.trans ha2⟩
  · -- the rename succeeded
    rw [he]
    have hp2eq : p2' = p2 := by rw [nf.dirPath] at hp2'; cases hp2'; rfl
    subst hp2eq
    have hgood2 := goodN_renameat_ok (N0 := N0) (fid0 := fid0) hg1 hA hp1 hp2' hl hdir2 hneq 0
    refine ⟨hgood2, ?_⟩
    simp only [ret_bind, Bool.false_eq_true, if_false]
    refine wp_harmlessN_all ?_ ?_ hgood2
    · repeat' (first | exact harmless_messageSetFileMoved _ _ _ _ _ | harmless_step)
    · repeat' (first | exact rfl | exact All.mono (all_messageSetFileMoved _ _ _ _ _) (fun _ h => h) | all_step)

/-! ## the combined invariant -/

/-- The lineage invariant together with the tracked entry: some entry is bound to a complete version held by a file
that descends from the message (`LG.lgood`). -/
def LG (w0 : World) (l0 : Lin) (N0 : Nat) (o0 : Nat → Nat) (f0 fid0 : Nat) (cs : List Bytes) (w : World) : Prop :=
  LinInv w0 l0 N0 o0 f0 w ∧ GoodN N0 fid0 w cs

/-- Some entry is bound to a file that DESCENDS FROM `f0` and whose visible and durable contents are both in `cs`. -/
def LGood (w0 : World) (l0 : Lin) (f0 : Nat) (cs : List Bytes) (w : World) : Prop :=
  ∃ p n g, GoodAt w cs p n g ∧ (linAt w0 l0 w).org g = f0

theorem LG.lgood {w0 : World} {l0 : Lin} {N0 : Nat} {o0 : Nat → Nat} {f0 fid0 : Nat} {cs : List Bytes} {w : World}
    (h : LG w0 l0 N0 o0 f0 fid0 cs w) (h0 : fid0 < N0) (ho : o0 fid0 = f0) : LGood w0 l0 f0 cs w := by
  obtain ⟨hli, p, n, g, hg, hA⟩ := h
  exact ⟨p, n, g, hg, hli.org_of h0 ho hA hg.2.1⟩

section
variable {w0 : World} {l0 : Lin} {N0 : Nat} {o0 : Nat → Nat} {f0 fid0 : Nat} {cs : List Bytes}

theorem lg_harmless_all {α} {P : α → Prop} {p : Prog α} (hc : Calls Harmless p) (hn : Calls NotOpenRd p) (ha : All P p)
    {w : World} (h : LG w0 l0 N0 o0 f0 fid0 cs w) :
    wp (LG w0 l0 N0 o0 f0 fid0 cs) p (fun a w' => LG w0 l0 N0 o0 f0 fid0 cs w' ∧ P a) w :=
  wp_mono (whole_wp_and (wp_linInv hn h.1) (wp_harmlessN_all hc ha h.2)) fun _ _ h => ⟨⟨h.1, h.2.1⟩, h.2.2⟩

theorem lg_harmless {α} {p : Prog α} (hc : Calls Harmless p) (hn : Calls NotOpenRd p)
    {w : World} (h : LG w0 l0 N0 o0 f0 fid0 cs w) :
    wp (LG w0 l0 N0 o0 f0 fid0 cs) p (fun _ w' => LG w0 l0 N0 o0 f0 fid0 cs w') w :=
  wp_mono (lg_harmless_all hc hn (All.trivial' p) h) fun _ _ h => h.1

theorem lin_maildirMove (env : PEnv) (src dst : Maildir) (ms : MsgSt) {w : World}
    (h : LG w0 l0 N0 o0 f0 fid0 cs w) (hm : (messageWrite ms.msg).1 ∈ cs) (hdst : ∀ dh, dst.dirH = some dh → DirH w dh) :
    wp (LG w0 l0 N0 o0 f0 fid0 cs) (maildirMove env src dst ms)
      (fun r w' => LG w0 l0 N0 o0 f0 fid0 cs w' ∧ r.1.msg = ms.msg) w :=
  wp_mono (whole_wp_and (wp_linInv (nord_maildirMove env src dst ms) h.1) (goodN_maildirMove env src dst ms h.1.1.n0 h.2 hm hdst))
    fun _ _ h => ⟨⟨h.1, h.2.1⟩, h.2.2⟩

/-- A successful `unlinkat` only removes: what is bound afterwards was bound before. -/
theorem core_unlinkat_lookup_sub (w : World) (d : Handle) (n : Bytes) (r : Res) (q m : Bytes) (g : Nat)
    (h : (core w (.unlinkat d n) r).lookup q m = some g) : w.lookup q m = some g := by
  cases r with
  | ok v =>
    cases hp : w.dirPath d with
    | none => simpa [core, applyOk, hp] using h
    | some p =>
      cases hl : w.lookup p n with
      | none => simpa [core, applyOk, hp, hl] using h
      | some x =>
        have hc : core w (.unlinkat d n) (.ok v) = w.unbind p n := by simp [core, applyOk, hp, hl]
        rw [hc, lookup_unbind] at h
        split at h
        · cases h
        · exact h
  | err e => simpa [core, applyOk] using h
  | name x => simpa [core, applyOk] using h
  | eof => simpa [core, applyOk] using h

/-- `maildir_write` under every fault plan: lineage and tracked entry.  The file it opens for reading at the end is
the one it has just written, which descends from the message. -/
theorem lin_maildirWrite (env : PEnv) (md : Maildir) (ms : MsgSt) {w : World}
    (hL : LG w0 l0 N0 o0 f0 fid0 cs w) (hm : (messageWrite ms.msg).1 ∈ cs) :
    wp (LG w0 l0 N0 o0 f0 fid0 cs) (maildirWrite env md ms)
      (fun r w' => LG w0 l0 N0 o0 f0 fid0 cs w' ∧ r.1.msg = ms.msg) w := by
  obtain ⟨hli, p0, n0, g0, hg, hA⟩ := hL
  unfold maildirWrite gennameStart
  simp only [bind_eq, pure_eq, call_bind]
  split
  · exact ⟨⟨hli, hg.goodN hA⟩, rfl⟩
  rename_i fl _
  refine wp_bind_mono (wp_inv_mono (whole_wp_and (whole_wp_and
    (spec_genname env md (some fl) cs p0 n0 g0 (fun _ => True) (fun _ _ _ _ _ => trivial) gennameAttempts _ hg trivial)
    (genname_fid_ge env md (some fl) N0 gennameAttempts _ hli.1.n0)) (wp_linInv (nord_genname _ _ _ _ _) hli))
    fun _ h => ⟨h.2, h.1.1.goodN hA⟩) ?_
  rintro g w1 ⟨⟨⟨hg1, -, hnew⟩, hge⟩, hli1⟩
  cases g with
  | none => exact ⟨⟨hli1, hg1.goodN hA⟩, rfl⟩
  | some x =>
  obtain ⟨fd, name⟩ := x
  obtain ⟨d, p, fid, hd, nf, hlt, hneq⟩ := hnew fd name rfl
  have hfidN : N0 ≤ fid := hge fd name rfl fid 0 true nf.obj
  have hfne : fid ≠ g0 := Nat.ne_of_gt hlt
  dsimp only
  refine wp_bind_mono (wp_inv_mono (whole_wp_and (spec_messageWriteP ms.msg fd hg1 nf.obj hfne nf.file)
    (wp_linInv (nord_messageWriteP _ _) hli1)) fun _ h => ⟨h.2, h.1.goodN hA⟩) ?_
  rintro we w2 ⟨⟨fr2, f2, hf2, hcontent⟩, hli2⟩
  have hdlt : d < w1.handles.length := Nat.lt_trans nf.dLt nf.fdLt
  have hdp2 : w2.dirPath d = some p := by
    rw [← nf.dirPath]; exact dirPath_congr (fr2.objs d hdlt)
  -- close fd
  intro ft
  generalize faultResult ft w2 (.close fd) = rc
  have hg3 := fr2.good.step (.close fd) rc trivial trivial
  have hli3 := hli2.step_other (.close fd) rc True.intro
  refine ⟨⟨hli3, hg3.goodN hA⟩, ?_⟩
  have hcc := core_close w2 fd rc
  have hnf3 : w2.nextFid ≤ (stepWorld w2 (.close fd) rc).nextFid := by
    rw [stepWorld_nextFid]; exact core_nextFid _ _ _
  generalize hw3 : stepWorld w2 (.close fd) rc = w3 at hg3 hli3 hnf3 ⊢
  have hdp3 : w3.dirPath d = some p := by
    rw [← hdp2, ← hw3]
    apply dirPath_congr
    rw [stepWorld_obj, hcc, obj_setObj]
    have : d ≠ fd := Nat.ne_of_lt nf.dLt
    simp [this]
  have hlook3 : ∀ q m, w3.lookup q m = w1.lookup q m := by
    intro q m
    rw [← hw3, stepWorld_lookup, hcc, lookup_setObj]
    exact lookup_of_dirs fr2.dirs q m
  have hfile3 : w3.file fid = some f2 := by
    rw [← hw3, stepWorld_file, hcc, file_setObj]; exact hf2
  have hfid3 : fid < w3.nextFid := by
    have h1 := nf.fidLt
    have h2 := fr2.nextFid
    omega
  have hsafe_new : dirSafe w3 p0 n0 (.unlinkat d name) := by
    simp only [dirSafe, hdp3, Option.some.injEq]
    exact hneq
  -- the rollback
  have rollback : wp (LG w0 l0 N0 o0 f0 fid0 cs) ((maildirUnlink md name).bind fun _ => Prog.ret (ms, true))
      (fun r w' => LG w0 l0 N0 o0 f0 fid0 cs w' ∧ r.1.msg = ms.msg) w3 := by
    unfold maildirUnlink
    simp only [hd, bind_eq, pure_eq, call_bind]
    intro ft
    have := hg3.step (.unlinkat d name) (faultResult ft w3 (.unlinkat d name)) hsafe_new trivial
    have hl := hli3.step_other (.unlinkat d name) (faultResult ft w3 (.unlinkat d name)) True.intro
    exact ⟨⟨hl, this.goodN hA⟩, ⟨hl, this.goodN hA⟩, rfl⟩
  cases we with
  | true =>
    simp only [if_true, ret_bind]
    exact rollback
  | false =>
    simp only [Bool.false_eq_true, if_false]
    unfold maildirUnlink
    simp only [hd, bind_eq, pure_eq, call_bind]
    refine wp_call_any fun ru => ?_
    have hli4 := hli3.step_other (.unlinkat d ms.name) ru True.intro
    have hdlt3 : d < w3.handles.length := lt_of_dirPath hdp3
    have hdp4 : (stepWorld w3 (.unlinkat d ms.name) ru).dirPath d = some p := by
      rw [stepWorld_dirPath, ← hdp3]
      exact dirPath_congr (core_obj w3 _ ru d hdlt3 (by simp [Call.subject]))
    rcases isOk_cases ru with ⟨e, rfl⟩ | hok
    · have hg4 := hg3.step_err (.unlinkat d ms.name) e (by intro _ h; cases h) (by intro _ h; cases h) (by intro _ h; cases h)
      refine ⟨⟨hli4, hg4.goodN hA⟩, ?_⟩
      simp only [isOk, Bool.not_false]
      simp only [ret_bind, if_true, call_bind']
      refine wp_call_any fun r => ?_
      have := hg4.step (.unlinkat d name) r
        (by simp only [dirSafe, hdp4, Option.some.injEq]; exact hneq) trivial
      have hl := hli4.step_other (.unlinkat d name) r True.intro
      exact ⟨⟨hl, this.goodN hA⟩, ⟨hl, this.goodN hA⟩, rfl⟩
    · have hgood4 : GoodN N0 fid0 (stepWorld w3 (.unlinkat d ms.name) ru) cs := by
        by_cases hX : dirSafe w3 p0 n0 (.unlinkat d ms.name)
        · exact (hg3.step _ ru hX trivial).goodN hA
        · simp only [dirSafe, hdp3, Option.some.injEq, Classical.not_not] at hX
          obtain ⟨rfl, hn⟩ := hX
          have hdir1 : (w1.dir p).isSome := dir_isSome_of_lookup hg1.1
          obtain ⟨hdat, hdur⟩ := hcontent rfl
          have hB : GoodAt w3 cs p name fid := by
            refine ⟨by rw [hlook3]; exact nf.bound hdir1, hfid3, f2, hfile3, ?_, ?_⟩
            · rw [hdat]; simpa using hm
            · rw [hdur, hdat]; simpa using hm
          refine (hB.step (.unlinkat d ms.name) ru ?_ trivial).goodN (.inr hfidN)
          simp only [dirSafe, hdp3, true_and]
          intro h
          exact hneq ⟨rfl, by rw [← h, hn]⟩
      refine ⟨⟨hli4, hgood4⟩, ?_⟩
      simp only [hok, Bool.not_true, ret_bind, Bool.false_eq_true, if_false]
      -- the new file is opened for reading: it descends from the message
      have hnf4 : w3.nextFid ≤ (stepWorld w3 (.unlinkat d ms.name) ru).nextFid := by
        rw [stepWorld_nextFid]; exact core_nextFid _ _ _
      generalize hw4 : stepWorld w3 (.unlinkat d ms.name) ru = w4 at hli4 hdp4 hgood4 hnf4 ⊢
      refine wp_call_any fun ro => ?_
      have hli5 : LinInv w0 l0 N0 o0 f0 (stepWorld w4 (.openRd d name) ro) := by
        refine hli4.step (.openRd d name) ro ?_
        intro g' hg'
        have hl4 : w4.lookup p name = some g' := by
          cases ro with
          | ok v => simpa [openedFile, hdp4] using hg'
          | err e => cases hg'
          | name x => cases hg'
          | eof => cases hg'
        have hl3 : w3.lookup p name = some g' := by
          rw [← hw4, stepWorld_lookup] at hl4
          exact core_unlinkat_lookup_sub w3 d ms.name ru p name g' hl4
        rw [hlook3] at hl3
        have hb := nf.bound (dir_isSome_of_lookup hl3)
        rw [hl3] at hb
        have hgf : g' = fid := Option.some.inj hb
        rw [hgf]
        exact hli4.2.new fid hfidN (by omega)
      obtain ⟨p', n', g', hg', hA'⟩ := hgood4
      have hg5 := hg'.step (.openRd d name) ro trivial trivial
      refine ⟨⟨hli5, hg5.goodN hA'⟩, ?_⟩
      refine lg_harmless_all ?_ ?_ ?_ ⟨hli5, hg5.goodN hA'⟩
      · repeat' (first | exact harmless_messageSetFile _ _ _ _ | harmless_step)
      · repeat' (first | exact nord_messageSetFile _ _ _ _ | nord_step)
      · repeat' (first | exact rfl | assumption | (refine All.bind_mono (all_messageSetFile _ _ _ _) ?_; intro _ _) | all_step)

/-! ## one entry of the action list, the whole list -/

theorem lin_moveBranch (env : PEnv) (mh : Match) (st : ExecSt) {w : World}
    (hL : LG w0 l0 N0 o0 f0 fid0 cs w) (hm : (messageWrite st.ms.msg).1 ∈ cs) :
    wp (LG w0 l0 N0 o0 f0 fid0 cs) (moveBranch env mh st)
      (fun r w' => LG w0 l0 N0 o0 f0 fid0 cs w' ∧ r.1.ms.msg = st.ms.msg) w := by
  obtain ⟨hli, p0, n0, g0, hg, hA⟩ := hL
  unfold moveBranch
  refine wp_bind_mono (wp_inv_mono (whole_wp_and (spec_maildirOpenDst mh.path hg) (wp_linInv (nord_maildirOpenDst _) hli))
    fun _ h => ⟨h.2, h.1.goodN hA⟩) ?_
  rintro d w1 ⟨⟨hg1, hd1⟩, hli1⟩
  cases d with
  | none => exact ⟨⟨hli1, hg1.goodN hA⟩, rfl⟩
  | some dst =>
    dsimp only
    refine wp_bind_mono (lin_maildirMove env st.src dst st.ms ⟨hli1, hg1.goodN hA⟩ hm (hd1 dst rfl)) ?_
    rintro x w2 ⟨hL2, hx⟩
    have closeThen : ∀ (md : Maildir) (r : ExecSt × Bool), r.1.ms.msg = st.ms.msg →
        wp (LG w0 l0 N0 o0 f0 fid0 cs) ((maildirClose md).bind fun _ => Prog.ret r)
          (fun r w' => LG w0 l0 N0 o0 f0 fid0 cs w' ∧ r.1.ms.msg = st.ms.msg) w2 := by
      intro md r hr
      refine wp_bind_mono (lg_harmless (harmless_maildirClose md) (nord_maildirClose md) hL2) ?_
      intro _ w3 hL3
      exact ⟨hL3, hr⟩
    split
    · exact closeThen _ _ hx
    · split
      · split
        · exact closeThen _ _ hx
        · exact ⟨hL2, hx⟩
      · exact closeThen _ _ hx

theorem lin_messageGetFd (env : PEnv) (ms : MsgSt) (part : Option Msg) (dobody : Bool) {w : World}
    (hL : LG w0 l0 N0 o0 f0 fid0 cs w) :
    wp (LG w0 l0 N0 o0 f0 fid0 cs) (messageGetFd env ms part dobody) (fun _ w' => LG w0 l0 N0 o0 f0 fid0 cs w') w := by
  obtain ⟨hli, p0, n0, g0, hg, hA⟩ := hL
  exact wp_mono (wp_inv_mono (whole_wp_and (spec_messageGetFd env ms part dobody hg) (wp_linInv (nord_messageGetFd _ _ _ _) hli))
    fun _ h => ⟨h.2, h.1.goodN hA⟩) fun _ _ h => ⟨h.2, h.1.goodN hA⟩

theorem lin_execOne (env : PEnv) (mh : Match) (st : ExecSt) {w : World}
    (hL : LG w0 l0 N0 o0 f0 fid0 cs w) (hm : (messageWrite st.ms.msg).1 ∈ cs) (hnd : mh.ty ≠ .discard) :
    wp (LG w0 l0 N0 o0 f0 fid0 cs) (execOne env mh st)
      (fun r w' => LG w0 l0 N0 o0 f0 fid0 cs w' ∧ r.1.ms.msg = st.ms.msg) w := by
  unfold execOne
  simp only [bind_eq, pure_eq, call_bind]
  split
  · exact lin_moveBranch env mh st hL hm
  · exact lin_moveBranch env mh st hL hm
  · exact lin_moveBranch env mh st hL hm
  · rename_i h; exact absurd h hnd
  · refine wp_bind_mono (lin_maildirWrite env st.src st.ms hL hm) ?_
    rintro x w1 ⟨hg1, hx⟩
    exact ⟨hg1, hx⟩
  · refine wp_bind_mono (lin_maildirWrite env st.src st.ms hL hm) ?_
    rintro x w1 ⟨hg1, hx⟩
    exact ⟨hg1, hx⟩
  · exact ⟨hL, rfl⟩
  · refine wp_bind_mono (R := fun _ w' => LG w0 l0 N0 o0 f0 fid0 cs w') ?_ ?_
    · split
      · refine wp_bind_mono (lin_messageGetFd env st.ms _ mh.execBody hL) ?_
        intro f w1 hg1
        exact hg1
      · exact hL
    · intro fdr w1 hg1
      cases fdr with
      | none => exact ⟨hg1, rfl⟩
      | some fd =>
        dsimp only
        refine wp_bind_mono (lg_harmless (harmless_execP _ fd) (nord_execP _ fd) hg1) ?_
        intro rc w2 hg2
        cases fd with
        | none => exact ⟨hg2, rfl⟩
        | some h =>
          dsimp only
          refine lg_harmless_all ?_ ?_ ?_ hg2
          · repeat' harmless_step
          · repeat' nord_step
          · repeat' (first | exact rfl | all_step)
  · exact ⟨hL, rfl⟩

/-- `matches_exec` (a list without discard) under every fault plan keeps the combined invariant after every call. -/
theorem lin_matchesExec (env : PEnv) (ml : MatchList) (st : ExecSt) {w : World}
    (hL : LG w0 l0 N0 o0 f0 fid0 cs w) (hm : (messageWrite st.ms.msg).1 ∈ cs) (hnd : ∀ m ∈ ml, m.ty ≠ .discard) :
    wp (LG w0 l0 N0 o0 f0 fid0 cs) (matchesExec env ml st) (fun _ w' => LG w0 l0 N0 o0 f0 fid0 cs w') w := by
  induction ml generalizing st w with
  | nil =>
    unfold matchesExec
    simp only [bind_eq, pure_eq]
    split
    · refine wp_bind_mono (lg_harmless (harmless_maildirClose _) (nord_maildirClose _) hL) ?_
      intro _ w1 h; exact h
    · exact hL
  | cons mh rest ih =>
    unfold matchesExec
    simp only [bind_eq, pure_eq]
    refine wp_bind_mono (lin_execOne env mh st hL hm (hnd mh (List.mem_cons_self ..))) ?_
    rintro ⟨st', e⟩ w1 ⟨hg1, hmsg⟩
    dsimp only at hmsg ⊢
    split
    · split
      · refine wp_bind_mono (lg_harmless (harmless_maildirClose _) (nord_maildirClose _) hg1) ?_
        intro _ w2 h; exact h
      · exact hg1
    · exact ih st' hg1 (by rw [hmsg]; exact hm) (fun m hmem => hnd m (List.mem_cons_of_mem _ hmem))

end

end Mdsort.Proofs.World
