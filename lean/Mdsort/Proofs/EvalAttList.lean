import Mdsort.Proofs.EvalList
import Mdsort.Spec.RulesAtt

/-!
# Match-list lemmas with the part index (C03 with attachments)

`keysP` / `planP` are `keysOf` / `planOf` with the part an entry was created for; the lemmas of
`EvalList.lean` again for them, and the projection back.
-/

namespace Mdsort.Proofs
open Mdsort Mdsort.Model Mdsort.Spec

/-- (type, line, part) of the executed action entries of a match list. -/
def keysP (ml : MatchList) : List (MType × Nat × Nat) :=
  (ml.filter fun m => realAct m.ty).map fun m => (m.ty, m.lno, m.part)

@[simp] theorem keysP_nil : keysP [] = [] := rfl
theorem keysP_append (a b : MatchList) : keysP (a ++ b) = keysP a ++ keysP b := by
  simp [keysP]
theorem keysP_cons (x : Match) (b : MatchList) :
    keysP (x :: b) = (if realAct x.ty then [(x.ty, x.lno, x.part)] else []) ++ keysP b := by
  unfold keysP
  by_cases h : realAct x.ty = true <;> simp [h]

/-- Forget the part. -/
def dropPart (k : MType × Nat × Nat) : MType × Nat := (k.1, k.2.1)

theorem keysOf_eq_map (ml : MatchList) : keysOf ml = (keysP ml).map dropPart := by
  simp [keysOf, keysP, dropPart, Function.comp_def]

theorem isMoveFlag_dropPart (k : MType × Nat × Nat) : isMoveFlag (dropPart k) = isMoveFlagP k := rfl

theorem planOf_map_dropPart (ks : List (MType × Nat × Nat)) :
    planOf (ks.map dropPart) = ((planP ks).1.map dropPart, (planP ks).2.map dropPart) := by
  unfold planOf planP
  simp only [List.filter_map, Function.comp_def, isMoveFlag_dropPart, List.getLast?_map]

theorem planOf_of_planP {a b : List (MType × Nat × Nat)} (h : planP a = planP b) :
    planOf (a.map dropPart) = planOf (b.map dropPart) := by
  rw [planOf_map_dropPart, planOf_map_dropPart, h]

/-! ## the appended entry keeps its part -/

theorem matchesMerge_part (ml : MatchList) (mh : Match) : (matchesMerge ml mh).2.part = mh.part := by
  unfold matchesMerge
  by_cases h1 : (mh.ty != .move && mh.ty != .flag) = true
  · rw [if_pos h1]
  · rw [if_neg h1]
    cases hl : ml.getLast? with
    | none => rfl
    | some last =>
      by_cases h2 : (last.ty == mh.ty) = true
      · simp only [h2, if_true]
      · simp only [h2]
        cases hf : matchesFind ml (if (mh.ty == MType.move) = true then MType.flag else MType.move) with
        | none => rfl
        | some dup =>
          dsimp only
          by_cases h3 : (mh.ty == MType.move) = true
          · simp [h3]
          · simp [h3]

theorem matchesAppend_last_part (env : Env) (ml : MatchList) (mh : Match) :
    ∃ ml1 x, (matchesAppend env ml mh).1 = ml1 ++ [x] ∧ x.part = mh.part := by
  have hp := matchesMerge_part ml mh
  unfold matchesAppend
  rcases hm : matchesMerge ml mh with ⟨ml1, mh1⟩
  rw [hm] at hp
  simp only at hp
  dsimp only
  split
  · exact ⟨ml1, mh1, rfl, hp⟩
  · split
    · exact ⟨ml1, mh1, rfl, hp⟩
    · split
      · exact ⟨ml1, _, rfl, hp⟩
      · split
        · exact ⟨ml1, _, rfl, hp⟩
        · exact ⟨ml1, _, rfl, hp⟩

/-- `matchesAppend_ok` with the part of the appended entry. -/
theorem att_matchesAppend_ok {env : Env} {L : Nat} (hctx : PCtx env L) (ml : MatchList) (mh : Match)
    (hinv : PathInv L ml) (hmh : okEntry L mh) :
    ∃ ml1 mh', matchesAppend env ml mh = (ml1 ++ [mh'], false) ∧ mh'.ty = mh.ty ∧ mh'.lno = mh.lno ∧
      mh'.part = mh.part ∧ okEntry L mh' ∧ MergeRes ml mh.ty ml1 := by
  obtain ⟨ml1, mh', he, hty, hlno, hok, hres⟩ := matchesAppend_ok hctx ml mh hinv hmh
  obtain ⟨ml2, x, h2, hx⟩ := matchesAppend_last_part env ml mh
  rw [he] at h2
  simp only at h2
  have := List.append_inj_right' h2 rfl
  simp only [List.cons.injEq, and_true] at this
  exact ⟨ml1, mh', he, hty, hlno, by rw [this]; exact hx, hok, hres⟩

/-! ## planP -/

theorem planP_snoc (ks : List (MType × Nat × Nat)) (k : MType × Nat × Nat) :
    planP (ks ++ [k]) =
      (ks.filter (fun k => !isMoveFlagP k) ++ (if isMoveFlagP k then [] else [k]),
       if isMoveFlagP k then some k else (ks.filter isMoveFlagP).getLast?) := by
  unfold planP
  by_cases h : isMoveFlagP k = true <;> simp [List.filter_append, h]

theorem keysP_of_mergeRes_filter {ml ml1 : MatchList} {ty : MType} (h : MergeRes ml ty ml1) :
    (keysP ml1).filter (fun k => !isMoveFlagP k) = (keysP ml).filter (fun k => !isMoveFlagP k) := by
  rcases h with h | ⟨_, a, x, b, e1, e2, hx⟩
  · rw [h]
  · subst e1 e2
    simp only [keysP_append, keysP_cons, List.filter_append]
    have : (isMoveFlagP (x.ty, x.lno, x.part)) = true := by
      unfold isMoveFlagP; unfold isMF at hx; simpa using hx
    by_cases hr : realAct x.ty = true <;> simp [hr, this]

theorem att_plan_step {ml ml1 : MatchList} {mh mh' : Match} {ps : List (MType × Nat × Nat)}
    (hplan : planP (keysP ml) = planP ps) (hres : MergeRes ml mh.ty ml1)
    (hty : mh'.ty = mh.ty) (hact : realAct mh.ty = true) :
    planP (keysP (ml1 ++ [mh'])) = planP (ps ++ [(mh.ty, mh'.lno, mh'.part)]) := by
  have hk : keysP (ml1 ++ [mh']) = keysP ml1 ++ [(mh.ty, mh'.lno, mh'.part)] := by
    rw [keysP_append, keysP_cons, hty, hact]; simp
  rw [hk, planP_snoc, planP_snoc, keysP_of_mergeRes_filter hres]
  unfold planP at hplan
  simp only [Prod.mk.injEq] at hplan
  rw [hplan.1]
  by_cases hmf : isMoveFlagP (mh.ty, mh'.lno, mh'.part) = true
  · simp [hmf]
  · have : isMF mh.ty = false := by
      unfold isMoveFlagP at hmf; unfold isMF; simpa using hmf
    rw [hres.eq_of_not_mf this, hplan.2]

theorem keysP_filter_ne (ml : MatchList) (t : MType) (ht : realAct t = false) :
    keysP (ml.filter (·.ty != t)) = keysP ml := by
  unfold keysP
  rw [List.filter_filter]
  congr 1
  apply List.filter_congr
  intro m _
  cases hr : realAct m.ty
  · simp
  · have : m.ty ≠ t := by intro e; rw [e, ht] at hr; cases hr
    simp [this]

end Mdsort.Proofs
